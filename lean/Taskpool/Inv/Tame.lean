import Taskpool.Model.World
/-! Slot conservation and the phase invariant: framework ("tame" = slot-neutral and phase-safe pieces). -/
namespace Taskpool

def heldL (ts : List PTask) : Nat := ts.countP (fun t => !t.released)
def grantsL (ws : List Waiter) : Nat := ws.countP (fun w => w.st = .granted)

/-- phases in which the pool slot must still be held -/
def NYR (ph : Phase) : Bool := ph == .created || ph == .inWorker || ph == .inCancelCb

def SlotOK (cap : Cap) (p : Pool) : Prop :=
  match cap with
  | .fin n => ∃ v, p.sem.value = .fin v ∧ v + heldL p.tasks + grantsL p.sem.waiters = n
  | .inf => p.sem.value = .inf ∧ p.sem.waiters = []

/-- the part of a task record the invariants talk about (everything else — scheduling flags, the awaited future,
`must_cancel`, pending exception, gather slots — is "soft") -/
structure SoftP where
  phase : Phase
  released : Bool
  nCC : Nat
  nEC : Nat
  wasCancelled : Bool
  endCb : CbSpec
  cancelCb : CbSpec
  nSaw : Nat
  req : Nat
  isMap : Bool
  mapHeld : Bool
  hasOut : Bool                        -- the asyncio Task has completed (it has a result, an exception or was cancelled)
deriving DecidableEq

def _root_.Taskpool.PTask.soft (k : PTask) : SoftP :=
  ⟨k.phase, k.released, k.nCC, k.nEC, k.wasCancelled, k.endCb, k.cancelCb, k.nSaw, k.req, k.isMap, k.mapHeld, k.outcome.isSome⟩

/-- the life cycle of one task, as far as callbacks are concerned (`lost` = the pool's ghost bit, DESIGN §4.3) -/
structure OKs (lost : Bool) (s : SoftP) : Prop where
  e0 : s.released = false → s.nEC = 0
  e1 : s.nEC ≤ 1
  c1 : s.nCC ≤ 1
  c0 : (s.phase = .created ∨ s.phase = .inWorker) → s.nCC = 0 ∧ s.wasCancelled = false
  cw : s.nCC = 1 → s.wasCancelled = true
  cc : s.phase = .inCancelCb → s.nCC = 1 ∧ s.cancelCb = .coro
  ec : s.phase = .inEndCb → s.nEC = 1 ∧ s.endCb = .coro ∧ s.released = true
  ord : s.nEC = 1 → s.wasCancelled = true → s.cancelCb ≠ .none → s.nCC = 1
  cn : s.cancelCb = .none → s.nCC = 0
  en : s.endCb = .none → s.nEC = 0
  fin : s.phase = .finished → lost = false →
          s.released = true ∧ s.nEC = (if s.endCb = .none then 0 else 1) ∧
          (s.wasCancelled = true → s.nCC = (if s.cancelCb = .none then 0 else 1)) ∧
          (s.wasCancelled = false → s.nCC = 0)
  s1 : s.nSaw ≤ 1
  s0 : (s.phase = .created ∨ s.phase = .inWorker) → s.nSaw = 0
  /-- a map task keeps its map slot at least as long as its pool slot -/
  mh : s.isMap = true → s.released = false → s.mapHeld = true
  /-- an asyncio Task that has completed belongs to a pool task whose wrapper has returned -/
  out : s.hasOut = true → s.phase = .finished

def LifeOK (p : Pool) : Prop := ∀ (t : Nat) (tk : PTask), p.tasks[t]? = some tk → OKs p.lost tk.soft

def PhaseOK (p : Pool) : Prop :=
  ∀ (t : Nat) (tk : PTask), p.tasks[t]? = some tk → NYR tk.phase = true → tk.released = false

/-- all task ids filed under some group, in registry order -/
def flat (gs : List (String × List Nat)) : List Nat := (gs.map (·.2)).flatten

@[simp] theorem flat_nil : flat [] = [] := rfl
@[simp] theorem flat_cons (x : String × List Nat) (gs) : flat (x :: gs) = x.2 ++ flat gs := rfl
@[simp] theorem flat_append (a b : List (String × List Nat)) : flat (a ++ b) = flat a ++ flat b := by
  simp [flat]

theorem flat_filter_sublist (gs : List (String × List Nat)) (f : String × List Nat → Bool) :
    (flat (gs.filter f)).Sublist (flat gs) := by
  induction gs with
  | nil => simp
  | cons x xs ih =>
    simp only [List.filter_cons]
    split
    · simp only [flat_cons]; exact List.Sublist.append (List.Sublist.refl _) ih
    · simp only [flat_cons]; exact ih.trans (List.sublist_append_right _ _)

/-- groups partition (some of) the tasks: no id is filed under two groups or twice, and every filed id is the id of
an existing task -/
structure GroupsOK (p : Pool) : Prop where
  nd : (flat p.groups).Nodup
  lt : ∀ i ∈ flat p.groups, i < p.tasks.length

/-- the three registries are sound (and, as long as nothing was `lost`, complete) with respect to the tasks -/
structure RegOK (p : Pool) : Prop where
  nd : (p.running ++ p.cancelledR ++ p.ended).Nodup
  run : ∀ t ∈ p.running, ∃ tk : PTask, p.tasks[t]? = some tk ∧ tk.released = false
  can : ∀ t ∈ p.cancelledR, ∃ tk : PTask, p.tasks[t]? = some tk ∧ tk.released = false ∧
          tk.phase ≠ .created ∧ tk.phase ≠ .inWorker
  fin : ∀ t ∈ p.ended, ∃ tk : PTask, p.tasks[t]? = some tk ∧ tk.released = true
  cpl : p.lost = false → ∀ (t : Nat) (tk : PTask), p.tasks[t]? = some tk → tk.released = false →
          t ∈ p.running ∨ t ∈ p.cancelledR

/-! ### the per-call semaphore of the map family -/

/-- tasks of request `m` that hold a slot of its `num_concurrent` semaphore -/
def heldM (ts : List PTask) (m : Nat) : Nat := ts.countP (fun t => t.mapHeld && t.req == m)

/-- a map spawner suspended in `_start_task` (waiting for room in the pool) carries one map slot of its own -/
def _root_.Taskpool.Req.pend (r : Req) : Nat :=
  if (r.kind == .map && r.acquired && r.frame == .waitRoom) = true then 1 else 0

def _root_.Taskpool.Req.AcqOK (r : Req) : Prop := r.kind = .map → r.frame = .waitRoom → r.acquired = true

/-- no lost wake-up on one semaphore: if it has free slots and none is on its way to a woken waiter, nobody is waiting -/
def _root_.Taskpool.Sem.WakeInv (s : Sem) : Prop :=
  ∀ v, s.value = .fin v → 0 < v → grantsL s.waiters = 0 → ∀ w ∈ s.waiters, w.st ≠ .pending

/-- the progress counters of a request -/
structure Cnt where
  kind : ReqKind
  n0 : Nat
  created : Nat
  skipped : Nat
  remaining : Nat
  pulled : Nat
  left : Nat
deriving DecidableEq

def _root_.Taskpool.Req.cnt (r : Req) : Cnt := ⟨r.kind, r.n0, r.created, r.skipped, r.remaining, r.pulled, r.items.length⟩

/-- `r'` is `r` up to changes that move no map slot (a carried slot may only be dropped from the books), keep every
progress counter, and leave the spawner's frame alone or move it to one that says nothing (`done`, `running`) -/
structure MSigLe (r' r : Req) : Prop where
  value : r'.mapSem.value = r.mapSem.value
  grants : grantsL r'.mapSem.waiters = grantsL r.mapSem.waiters
  nc : r'.nc = r.nc
  pend : r'.pend ≤ r.pend
  acq : r.AcqOK → r'.AcqOK
  cnt : r'.cnt = r.cnt
  fr : r'.frame = r.frame ∨ r'.frame = .done
  out : r'.outcome = none → r.outcome = none
  wk : r.mapSem.WakeInv → r'.mapSem.WakeInv
  /-- the ghost snapshot of a spawner that is running its own handle is left alone -/
  sr : (r.frame = .running ∨ r.frame = .done) → r'.cancelSnap = r.cancelSnap
  pge : r'.outcome = none → r.pend ≤ r'.pend

/-- a request whose own books are balanced without any task (a newly registered one) -/
def Cnt.fresh (c : Cnt) : Prop :=
  c.created = 0 ∧ c.skipped = 0 ∧ c.pulled = 0 ∧ c.remaining + c.left = c.n0 ∧
  (c.kind = .apply → c.left = 0) ∧ (c.kind = .map → c.remaining = 0)

def FreshReq (r : Req) : Prop :=
  (∃ v, r.mapSem.value = .fin v ∧ v + grantsL r.mapSem.waiters + r.pend ≤ r.nc ∧
    ((r.outcome = none → r.nc ≤ v + grantsL r.mapSem.waiters + r.pend) ∧ r.mapSem.WakeInv)) ∧ r.AcqOK ∧ r.cnt.fresh ∧
  (r.frame = .notStarted ∨ r.frame = .done ∨ r.frame = .running)

theorem FreshReq.le {r' r : Req} (h : FreshReq r) (hle : MSigLe r' r) : FreshReq r' := by
  obtain ⟨⟨v, hv, hs, hs2, hw⟩, ha, hc⟩ := h
  refine ⟨⟨v, by rw [hle.value]; exact hv, ?_, ?_, hle.wk hw⟩, hle.acq ha, ?_⟩
  · rw [hle.grants, hle.nc]
    have := hle.pend
    omega
  · intro hnd
    rw [hle.grants, hle.nc]
    have := hle.pge hnd
    have := hs2 (hle.out hnd)
    omega
  · obtain ⟨c1, c2⟩ := hc
    exact ⟨by rw [hle.cnt]; exact c1, by
      rcases hle.fr with e | e
      · rw [e]; exact c2
      · right; left; exact e⟩

theorem MSigLe.refl (r : Req) : MSigLe r r :=
  ⟨rfl, rfl, rfl, Nat.le_refl _, fun h => h, rfl, Or.inl rfl, fun h => h, fun h => h, fun _ => rfl, fun _ => Nat.le_refl _⟩

theorem MSigLe.trans {a b c : Req} (h1 : MSigLe b a) (h2 : MSigLe c b) : MSigLe c a :=
  ⟨h2.value.trans h1.value, h2.grants.trans h1.grants, h2.nc.trans h1.nc, Nat.le_trans h2.pend h1.pend,
    fun h => h2.acq (h1.acq h), h2.cnt.trans h1.cnt, by
      rcases h2.fr with e | e
      · rcases h1.fr with e1 | e1
        · exact Or.inl (e.trans e1)
        · exact Or.inr (e.trans e1)
      · exact Or.inr e, fun hnd => h1.out (h2.out hnd), fun h => h2.wk (h1.wk h),
      fun hr => by
        have hb : b.frame = .running ∨ b.frame = .done := by
          rcases h1.fr with e | e
          · rw [e]; exact hr
          · exact Or.inr e
        exact (h2.sr hb).trans (h1.sr hr),
      fun hnd => Nat.le_trans (h1.pge (h2.out hnd)) (h2.pge hnd)⟩

/-- slot conservation of every call's own semaphore, as an inequality (a spawner that dies with an exception while it
carries a slot takes the slot with it): `free + held by tasks + granted to the waiting spawner + carried ≤ num_concurrent` -/
structure MapOK (p : Pool) : Prop where
  ref : ∀ (t : Nat) (tk : PTask), p.tasks[t]? = some tk → tk.mapHeld = true → tk.req < p.reqs.length
  le : ∀ (m : Nat) (r : Req), p.reqs[m]? = some r →
        ∃ v, r.mapSem.value = .fin v ∧ v + heldM p.tasks m + grantsL r.mapSem.waiters + r.pend ≤ r.nc ∧
          (r.outcome = none → r.nc ≤ v + heldM p.tasks m + grantsL r.mapSem.waiters + r.pend)
  wk : ∀ (m : Nat) (r : Req), p.reqs[m]? = some r → r.mapSem.WakeInv
  acq : ∀ (m : Nat) (r : Req), p.reqs[m]? = some r → r.AcqOK

/-! ### request accounting -/

/-- tasks created for request `m` -/
def tasksOf (ts : List PTask) (m : Nat) : Nat := ts.countP (fun t => t.req == m)

/-- the books of one request (`k` = invocations of an apply/start request created but not yet taken off `remaining`):
apply/start: `created + skipped + remaining = requested`; map: `pulled + left = length of the iterable`, every pulled
element is a task, was skipped, or is the single element in hand — and whether one is in hand is determined by where
the spawner is suspended -/
def AccReq (c : Cnt) (fr : MFrame) (k : Int) : Prop :=
  (c.kind = .apply → ((c.created + c.skipped + c.remaining : Nat) : Int) = c.n0 + k ∧ (fr = .waitRoom → 1 ≤ c.remaining) ∧
    fr ≠ .waitMapSem) ∧
  (c.kind = .map → c.pulled + c.left = c.n0 ∧ c.created + c.skipped ≤ c.pulled ∧ c.pulled ≤ c.created + c.skipped + 1 ∧
    ((fr = .waitRoom ∨ fr = .waitMapSem) → c.pulled = c.created + c.skipped + 1) ∧
    (fr = .notStarted → c.pulled = c.created + c.skipped))

theorem AccReq.frame {c : Cnt} {fr fr' : MFrame} {k : Int} (h : AccReq c fr k)
    (hf : fr' = fr ∨ fr' = .done ∨ fr' = .running) : AccReq c fr' k := by
  rcases hf with e | e | e
  · rw [e]; exact h
  · subst e
    refine ⟨fun hk => ⟨(h.1 hk).1, (fun x => by cases x), (fun x => by cases x)⟩, fun hk => ⟨(h.2 hk).1, (h.2 hk).2.1, (h.2 hk).2.2.1, ?_, ?_⟩⟩
    · intro hx; rcases hx with x | x <;> cases x
    · intro x; cases x
  · subst e
    refine ⟨fun hk => ⟨(h.1 hk).1, (fun x => by cases x), (fun x => by cases x)⟩, fun hk => ⟨(h.2 hk).1, (h.2 hk).2.1, (h.2 hk).2.2.1, ?_, ?_⟩⟩
    · intro hx; rcases hx with x | x <;> cases x
    · intro x; cases x

theorem AccReq.fresh {c : Cnt} {fr : MFrame} (h : c.fresh) (hf : fr = .notStarted ∨ fr = .done ∨ fr = .running) :
    AccReq c fr 0 := by
  obtain ⟨a, b, c1, d, e, f⟩ := h
  refine ⟨fun hk => ⟨?_, ?_, ?_⟩, fun hk => ⟨?_, ?_, ?_, ?_, ?_⟩⟩
  · have := e hk; simp only [a, b]; omega
  · intro hx; rcases hf with x | x | x <;> rw [x] at hx <;> cases hx
  · intro hx; rcases hf with x | x | x <;> rw [x] at hx <;> cases hx
  · have := f hk; omega
  · omega
  · omega
  · intro hx; rcases hf with x | x | x <;> rcases hx with y | y <;> rw [x] at y <;> cases y
  · intro _; omega

/-- every task belongs to an existing request, a request has created exactly the tasks that name it, and its books
balance -/
structure AccOK (p : Pool) : Prop where
  ref : ∀ (t : Nat) (tk : PTask), p.tasks[t]? = some tk → tk.req < p.reqs.length
  tk : ∀ (m : Nat) (r : Req), p.reqs[m]? = some r → tasksOf p.tasks m = r.created
  rq : ∀ (m : Nat) (r : Req), p.reqs[m]? = some r → AccReq r.cnt r.frame 0

/-! ### what `flush` waits for -/

def _root_.Taskpool.ApiKind.isGac : ApiKind → Bool
  | .gac _ => true
  | _ => false

/-- task `t` exists and has finished -/
def TaskFin (p : Pool) (t : Nat) : Prop := ∃ tk : PTask, p.tasks[t]? = some tk ∧ tk.phase = .finished

/-- a gather that has completed normally has seen all its child tasks finish, and a `flush` suspended in its second
gather awaits (at least) every task of its cancelled-registry snapshot -/
structure FlushOK (p : Pool) : Prop where
  gth : ∀ (g : Nat) (G : Gather), p.gathers[g]? = some G → G.outer = some .ok →
          ∀ t, Child.task t ∈ G.children → TaskFin p t
  api : ∀ (a : Nat) (A : Api) (g : Nat), p.apis[a]? = some A → A.frame = .gather2 g → A.kind.isGac = false →
          ∃ G : Gather, p.gathers[g]? = some G ∧ ∀ t ∈ A.snapC, Child.task t ∈ G.children

/-- gathers and background calls untouched, finished tasks stay finished -/
theorem FlushOK.frame {p q : Pool} (h : FlushOK p) (hg : q.gathers = p.gathers) (ha : q.apis = p.apis)
    (ht : ∀ t, TaskFin p t → TaskFin q t) : FlushOK q :=
  ⟨fun g G a b t c => by rw [hg] at a; exact ht t (h.gth g G a b t c),
   fun a A g x y z => by rw [ha] at x; rw [hg]; exact h.api a A g x y z⟩

theorem taskFin_of_soft {p q : Pool} (hl : q.tasks.length = p.tasks.length)
    (hs : ∀ (t : Nat) (tk' : PTask), q.tasks[t]? = some tk' → ∃ tk : PTask, p.tasks[t]? = some tk ∧ tk'.soft = tk.soft) :
    ∀ t, TaskFin p t → TaskFin q t := by
  intro t ⟨tk, a, b⟩
  have hlt : t < q.tasks.length := by rw [hl]; exact (List.getElem?_eq_some_iff.mp a).1
  obtain ⟨tk0, a0, e⟩ := hs t q.tasks[t] (by simp [hlt])
  rw [a] at a0; cases a0
  exact ⟨q.tasks[t], by simp [hlt], by rw [show q.tasks[t].phase = tk.phase from congrArg SoftP.phase e]; exact b⟩

/-- tasks keep their soft profiles, gathers and background calls untouched -/
theorem FlushOK.of_soft {p q : Pool} (h : FlushOK p) (hg : q.gathers = p.gathers) (ha : q.apis = p.apis)
    (hl : q.tasks.length = p.tasks.length)
    (hs : ∀ (t : Nat) (tk' : PTask), q.tasks[t]? = some tk' → ∃ tk : PTask, p.tasks[t]? = some tk ∧ tk'.soft = tk.soft) :
    FlushOK q := h.frame hg ha (taskFin_of_soft hl hs)

/-! ### no lost wake-up -/

/-- as long as `pool_size` was never assigned: if the semaphore has free slots and none is on its way to a woken
spawner, nobody is waiting for one -/
def WakeOK (p : Pool) : Prop :=
  p.resized = false → ∀ v, p.sem.value = .fin v → 0 < v → grantsL p.sem.waiters = 0 → ∀ w ∈ p.sem.waiters, w.st ≠ .pending

theorem WakeOK.of_eq {p q : Pool} (h : WakeOK p) (hs : q.sem = p.sem) (hr : q.resized = p.resized) : WakeOK q := by
  intro a v b c d
  rw [hs] at b d ⊢
  exact h (hr ▸ a) v b c d

/-! ### cancelled spawners stay stopped -/

/-- the first waiter entry of `owner` (the future it is suspended on) has been cancelled -/
def ownCancelled (m : Nat) (ws : List Waiter) : Prop := (removeWaiterL m ws).1 = some .cancelled

theorem ownCancelled_cons (m : Nat) (w : Waiter) (ws : List Waiter) :
    ownCancelled m (w :: ws) ↔ (if w.owner = m then w.st = .cancelled else ownCancelled m ws) := by
  unfold ownCancelled
  simp only [removeWaiterL]
  split <;> simp

theorem ownCancelled_cons_mono (m' : Nat) (w w' : Waiter) (ws ws' : List Waiter) (ho : w'.owner = w.owner)
    (hs : w.st = .cancelled → w'.st = .cancelled) (ht : ownCancelled m' ws → ownCancelled m' ws')
    (h : ownCancelled m' (w :: ws)) : ownCancelled m' (w' :: ws') := by
  rw [ownCancelled_cons] at h ⊢
  rw [ho]
  by_cases e : w.owner = m'
  · rw [if_pos e] at h ⊢; exact hs h
  · rw [if_neg e] at h ⊢; exact ht h

theorem ownCancelled_cancel (m m' : Nat) (ws : List Waiter) (h : ownCancelled m' ws) : ownCancelled m' (cancelWaiterL m ws) := by
  induction ws with
  | nil => exact h
  | cons w ws ih =>
    simp only [cancelWaiterL, List.map_cons] at ih ⊢
    refine ownCancelled_cons_mono m' w _ ws _ ?_ ?_ ih h
    · split <;> rfl
    · intro hc; split
      · rfl
      · exact hc

theorem ownCancelled_of_pending (m : Nat) (ws : List Waiter) (h : (removeWaiterL m ws).1 = some .pending) :
    ownCancelled m (cancelWaiterL m ws) := by
  induction ws with
  | nil => simp [removeWaiterL] at h
  | cons w ws ih =>
    simp only [cancelWaiterL, List.map_cons] at ih ⊢
    rw [ownCancelled_cons]
    simp only [removeWaiterL] at h
    split at h
    · rename_i e
      simp only [Option.some.injEq] at h
      simp [e, h]
    · rename_i e
      have : (if w.owner = m ∧ w.st = WaitSt.pending then { w with st := WaitSt.cancelled } else w).owner = w.owner := by
        split <;> rfl
      rw [this]
      simp only [e, if_false]
      exact ih h

theorem ownCancelled_wake (m : Nat) (c : Cap) (ws : List Waiter) (h : ownCancelled m ws) :
    ownCancelled m (wakeNextL c ws).2.1 := by
  induction ws with
  | nil => exact h
  | cons w ws ih =>
    rw [ownCancelled_cons] at h
    unfold wakeNextL
    split
    · rename_i hp
      simp only
      rw [ownCancelled_cons]
      split at h
      · rename_i e; rw [hp] at h; cases h
      · rename_i e; simp only [e, if_false]; exact h
    · simp only
      rw [ownCancelled_cons]
      split at h
      · rename_i e; simp only [e, if_true]; exact h
      · rename_i e; simp only [e, if_false]; exact ih h

theorem ownCancelled_append (m : Nat) (ws : List Waiter) (w : Waiter) (h : ownCancelled m ws) : ownCancelled m (ws ++ [w]) := by
  induction ws with
  | nil => simp [ownCancelled, removeWaiterL] at h
  | cons a as ih =>
    rw [ownCancelled_cons] at h
    rw [List.cons_append, ownCancelled_cons]
    split at h
    · rename_i e; simp only [e, if_true]; exact h
    · rename_i e; simp only [e, if_false]; exact ih h

theorem ownCancelled_remove (m m' : Nat) (ws : List Waiter) (hne : m ≠ m') (h : ownCancelled m' ws) :
    ownCancelled m' (removeWaiterL m ws).2 := by
  induction ws with
  | nil => exact h
  | cons a as ih =>
    rw [ownCancelled_cons] at h
    simp only [removeWaiterL]
    split
    · rename_i e
      have : ¬ a.owner = m' := fun e' => hne (e.symm.trans e')
      simp only [this, if_false] at h
      exact h
    · simp only
      rw [ownCancelled_cons]
      split at h
      · rename_i e; simp only [e, if_true]; exact h
      · rename_i e; simp only [e, if_false]; exact ih h

/-- the cancellation of spawner `m` is pending in a way its next step cannot miss -/
def DoomedAt (p : Pool) (m : Nat) (r : Req) : Prop :=
  r.mustCancel = true ∨ (r.frame = .waitRoom ∧ ownCancelled m p.sem.waiters) ∨
  (r.frame = .waitMapSem ∧ ownCancelled m r.mapSem.waiters)

/-- a spawner that was cancelled while suspended (or before it began) has created no task and pulled no element since,
and is over or still doomed — the latter not demanded of the spawners in `E` (the one that is running right now) -/
def CancEx (E : Nat → Prop) (p : Pool) : Prop :=
  ∀ (m : Nat) (r : Req) (c u : Nat), p.reqs[m]? = some r → r.cancelSnap = some (c, u) →
    r.created = c ∧ r.pulled = u ∧ (E m ∨ r.frame = .done ∨ DoomedAt p m r)

def CancOK (p : Pool) : Prop := CancEx (fun _ => False) p

theorem CancOK.ex {p : Pool} (h : CancOK p) (E : Nat → Prop) : CancEx E p := fun m r c u a b => by
  obtain ⟨h1, h2, h3⟩ := h m r c u a b
  exact ⟨h1, h2, h3.elim False.elim Or.inr⟩

/-- … and back, once the exempted spawner is over, doomed, or was never cancelled -/
theorem CancEx.close {p : Pool} {m : Nat} (h : CancEx (· = m) p)
    (hm : ∀ r c u, p.reqs[m]? = some r → r.cancelSnap = some (c, u) → r.frame = .done ∨ DoomedAt p m r) : CancOK p :=
  fun i r c u a b => by
    obtain ⟨h1, h2, h3⟩ := h i r c u a b
    refine ⟨h1, h2, Or.inr ?_⟩
    rcases h3 with e | e
    · subst e; exact hm r c u a b
    · exact e

/-- `r'` is `r` up to changes that neither advance a cancelled spawner nor take back its pending cancellation -/
structure CSame (r' r : Req) : Prop where
  cs : r'.cancelSnap = r.cancelSnap
  cr : r'.created = r.created
  pu : r'.pulled = r.pulled
  fr : r'.frame = r.frame ∨ r'.frame = .done
  mc : r.mustCancel = true → r'.mustCancel = true ∨ r'.frame = .done
  mw : ∀ m, ownCancelled m r.mapSem.waiters → ownCancelled m r'.mapSem.waiters ∨ r'.frame = .done

theorem CSame.refl (r : Req) : CSame r r := ⟨rfl, rfl, rfl, Or.inl rfl, fun h => Or.inl h, fun _ h => Or.inl h⟩

theorem CancEx.frame {E : Nat → Prop} {p q : Pool} (h : CancEx E p)
    (hw : ∀ m, ownCancelled m p.sem.waiters → ownCancelled m q.sem.waiters)
    (hr : ∀ (m : Nat) (r' : Req), q.reqs[m]? = some r' →
        (∃ r, p.reqs[m]? = some r ∧ CSame r' r) ∨ r'.cancelSnap = none) : CancEx E q := by
  intro m r' c u hr' hs
  rcases hr m r' hr' with ⟨r, a, b⟩ | e
  · obtain ⟨h1, h2, h3⟩ := h m r c u a (by rw [← b.cs]; exact hs)
    refine ⟨by rw [b.cr]; exact h1, by rw [b.pu]; exact h2, ?_⟩
    rcases h3 with hE | h3
    · exact Or.inl hE
    right
    rcases b.fr with e | e
    · rcases h3 with d | d
      · left; rw [e]; exact d
      · rcases d with d | ⟨d1, d2⟩ | ⟨d1, d2⟩
        · rcases b.mc d with x | x
          · exact Or.inr (Or.inl x)
          · exact Or.inl x
        · exact Or.inr (Or.inr (Or.inl ⟨by rw [e]; exact d1, hw m d2⟩))
        · rcases b.mw m d2 with x | x
          · exact Or.inr (Or.inr (Or.inr ⟨by rw [e]; exact d1, x⟩))
          · exact Or.inl x
    · exact Or.inl e
  · rw [e] at hs; cases hs

/-- the same with spawner `m` exempt: its own waiter entry and its pending cancellation may go -/
theorem CancEx.frameAt {m : Nat} {p q : Pool} (h : CancEx (· = m) p)
    (hw : ∀ i, i ≠ m → ownCancelled i p.sem.waiters → ownCancelled i q.sem.waiters)
    (hr : ∀ (i : Nat) (r' : Req), q.reqs[i]? = some r' →
        (∃ r, p.reqs[i]? = some r ∧ ((i ≠ m ∧ CSame r' r) ∨
          (i = m ∧ r'.cancelSnap = r.cancelSnap ∧ r'.created = r.created ∧ r'.pulled = r.pulled))) ∨
        r'.cancelSnap = none) : CancEx (· = m) q := by
  intro i r' c u hr' hs
  rcases hr i r' hr' with ⟨r, a, ⟨hne, b⟩ | ⟨he, e1, e2, e3⟩⟩ | e
  · obtain ⟨h1, h2, h3⟩ := h i r c u a (by rw [← b.cs]; exact hs)
    refine ⟨by rw [b.cr]; exact h1, by rw [b.pu]; exact h2, ?_⟩
    rcases h3 with hE | h3
    · exact absurd hE hne
    right
    rcases b.fr with e | e
    · rcases h3 with d | d
      · left; rw [e]; exact d
      · rcases d with d | ⟨d1, d2⟩ | ⟨d1, d2⟩
        · rcases b.mc d with x | x
          · exact Or.inr (Or.inl x)
          · exact Or.inl x
        · exact Or.inr (Or.inr (Or.inl ⟨by rw [e]; exact d1, hw i hne d2⟩))
        · rcases b.mw i d2 with x | x
          · exact Or.inr (Or.inr (Or.inr ⟨by rw [e]; exact d1, x⟩))
          · exact Or.inl x
    · exact Or.inl e
  · obtain ⟨h1, h2, _⟩ := h i r c u a (by rw [← e1]; exact hs)
    exact ⟨by rw [e2]; exact h1, by rw [e3]; exact h2, Or.inl he⟩
  · rw [e] at hs; cases hs

theorem CancEx.of_eq {E : Nat → Prop} {p q : Pool} (h : CancEx E p) (hr : q.reqs = p.reqs) (hs : q.sem.waiters = p.sem.waiters) :
    CancEx E q :=
  h.frame (fun m x => by rw [hs]; exact x) (fun m r' a => by rw [hr] at a; exact Or.inl ⟨r', a, CSame.refl r'⟩)

theorem CancOK.frame {p q : Pool} (h : CancOK p)
    (hw : ∀ m, ownCancelled m p.sem.waiters → ownCancelled m q.sem.waiters)
    (hr : ∀ (m : Nat) (r' : Req), q.reqs[m]? = some r' →
        (∃ r, p.reqs[m]? = some r ∧ CSame r' r) ∨ r'.cancelSnap = none) : CancOK q := CancEx.frame h hw hr

theorem CancOK.of_eq {p q : Pool} (h : CancOK p) (hr : q.reqs = p.reqs) (hs : q.sem.waiters = p.sem.waiters) : CancOK q :=
  CancEx.of_eq h hr hs

/-- everything but the books of the map semaphores -/
structure Good0 (cap : Cap) (L R : Bool) (p : Pool) : Prop where
  slot : SlotOK cap p
  phase : PhaseOK p
  reg : RegOK p
  grp : GroupsOK p
  life : LifeOK p
  fl : FlushOK p
  wk : WakeOK p
  /-- the fixed-size variant (`R = true`): `pool_size` was never assigned -/
  rz : R = true → p.resized = false
  /-- the strict variant (`L = false`): no task has been lost; and, when assignments to `pool_size` are allowed
  (`R = false`), no `gather_and_close` call was ever made. (`L = false`, `R = true` is the variant for pools that nobody
  unlocks, `Inv/Seal.lean`: there `gather_and_close` is allowed, and the step that runs its closing stage gets what it
  needs from `SealOK.g2`.) -/
  ll : L = false → p.lost = false
  al : L = false → R = false → ∀ A ∈ p.apis, A.kind.isGac = false

structure Good (cap : Cap) (L R : Bool) (p : Pool) : Prop extends Good0 cap L R p where
  map : MapOK p
  acc : AccOK p
  canc : CancOK p

/-! ### what never goes back -/

/-- `q` is a later state than `p` as far as the monotone facts go: tasks and requests are only ever appended, a finished
task stays finished, the progress counters of a request never decrease, a cancellation snapshot once taken is never
rewritten, a request that has an outcome keeps one, a closed pool stays closed -/
structure Mono (p q : Pool) : Prop where
  tl : p.tasks.length ≤ q.tasks.length
  fin : ∀ (t : Nat) (tk : PTask), p.tasks[t]? = some tk → tk.phase = .finished →
        ∃ tk', q.tasks[t]? = some tk' ∧ tk'.phase = .finished
  rl : p.reqs.length ≤ q.reqs.length
  rq : ∀ (m : Nat) (r : Req), p.reqs[m]? = some r → ∃ r', q.reqs[m]? = some r' ∧ r.created ≤ r'.created ∧
        r.pulled ≤ r'.pulled ∧ (∀ s, r.cancelSnap = some s → r'.cancelSnap = some s) ∧
        (r.outcome.isSome = true → r'.outcome.isSome = true)
  cl : p.closed = true → q.closed = true

theorem Mono.refl (p : Pool) : Mono p p :=
  ⟨Nat.le_refl _, fun _ tk a b => ⟨tk, a, b⟩, Nat.le_refl _,
   fun _ r a => ⟨r, a, Nat.le_refl _, Nat.le_refl _, fun _ h => h, fun h => h⟩, fun h => h⟩

theorem Mono.trans {p q r : Pool} (h1 : Mono p q) (h2 : Mono q r) : Mono p r := by
  refine ⟨Nat.le_trans h1.tl h2.tl, ?_, Nat.le_trans h1.rl h2.rl, ?_, fun h => h2.cl (h1.cl h)⟩
  · intro t tk a b
    obtain ⟨tk', a', b'⟩ := h1.fin t tk a b
    exact h2.fin t tk' a' b'
  · intro m x a
    obtain ⟨x', a', c1, c2, c3, c4⟩ := h1.rq m x a
    obtain ⟨x'', a'', d1, d2, d3, d4⟩ := h2.rq m x' a'
    exact ⟨x'', a'', Nat.le_trans c1 d1, Nat.le_trans c2 d2, fun s hs => d3 s (c3 s hs), fun h => d4 (c4 h)⟩

/-- requests rewritten one by one without touching what `Mono` reads; tasks keep their phases -/
theorem Mono.of_parts (p q : Pool) (htl : p.tasks.length ≤ q.tasks.length)
    (hfin : ∀ (t : Nat) (tk : PTask), p.tasks[t]? = some tk → tk.phase = .finished →
        ∃ tk', q.tasks[t]? = some tk' ∧ tk'.phase = .finished)
    (hrl : p.reqs.length ≤ q.reqs.length)
    (hrq : ∀ (m : Nat) (r : Req), p.reqs[m]? = some r → ∃ r', q.reqs[m]? = some r' ∧ r'.created = r.created ∧
        r'.pulled = r.pulled ∧ (∀ s, r.cancelSnap = some s → r'.cancelSnap = some s) ∧
        (r.outcome.isSome = true → r'.outcome.isSome = true))
    (hcl : q.closed = p.closed) : Mono p q :=
  ⟨htl, hfin, hrl, fun m r a => by
      obtain ⟨r', b, c1, c2, c3, c4⟩ := hrq m r a
      exact ⟨r', b, by omega, by omega, c3, c4⟩, fun h => by rw [hcl]; exact h⟩

theorem Mono.of_eq (p q : Pool) (ht : q.tasks = p.tasks) (hr : q.reqs = p.reqs) (hc : q.closed = p.closed) : Mono p q :=
  Mono.of_parts p q (by rw [ht]; exact Nat.le_refl _) (fun t tk a b => ⟨tk, by rw [ht]; exact a, b⟩) (by rw [hr]; exact Nat.le_refl _)
    (fun m r a => ⟨r, by rw [hr]; exact a, rfl, rfl, fun _ h => h, fun h => h⟩) hc

/-- `q` is `p` up to changes that neither move a slot nor put a task (back) into a slot-holding phase -/
structure Tame0 (p q : Pool) : Prop where
  val : q.sem.value = p.sem.value
  grants : grantsL q.sem.waiters = grantsL p.sem.waiters
  len : q.tasks.length = p.tasks.length
  run : q.running = p.running
  can : q.cancelledR = p.cancelledR
  fin : q.ended = p.ended
  lost : q.lost = p.lost
  wnil : p.sem.waiters = [] → q.sem.waiters = []
  gfl : (flat q.groups).Sublist (flat p.groups)
  soft : ∀ (t : Nat) (tk' : PTask), q.tasks[t]? = some tk' → ∃ tk : PTask, p.tasks[t]? = some tk ∧ tk'.soft = tk.soft
  apk : q.apis.map (·.kind) = p.apis.map (·.kind)
  fok : FlushOK p → FlushOK q
  wok : WakeOK p → WakeOK q
  rsz : q.resized = p.resized

/-- … and that moves no slot of a map semaphore either -/
structure Tame (p q : Pool) : Prop extends Tame0 p q where
  rql : p.reqs.length ≤ q.reqs.length
  rq : ∀ (m : Nat) (r' : Req), q.reqs[m]? = some r' →
        (∃ r : Req, p.reqs[m]? = some r ∧ MSigLe r' r) ∨ (p.reqs.length ≤ m ∧ FreshReq r')
  cok : ∀ E : Nat → Prop, CancEx E p → CancEx E q
  mono : Mono p q

theorem Tame0.pt {p q : Pool} (h : Tame0 p q) (t : Nat) (tk' : PTask) (ht : q.tasks[t]? = some tk') :
    ∃ tk : PTask, p.tasks[t]? = some tk ∧ tk'.released = tk.released ∧ (tk'.phase = tk.phase ∨ NYR tk'.phase = false) := by
  obtain ⟨tk, a, b⟩ := h.soft t tk' ht
  exact ⟨tk, a, congrArg SoftP.released b, Or.inl (congrArg SoftP.phase b)⟩

/-! ### list facts -/

theorem heldL_eq_of_pointwise (a b : List PTask) (hl : b.length = a.length)
    (h : ∀ (t : Nat) (tk' : PTask), b[t]? = some tk' → ∃ tk : PTask, a[t]? = some tk ∧ tk'.released = tk.released) :
    heldL b = heldL a := by
  induction a generalizing b with
  | nil => cases b <;> simp_all [heldL]
  | cons x xs ih =>
    cases b with
    | nil => simp at hl
    | cons y ys =>
      have h0 := h 0 y (by simp)
      simp at h0
      have := ih ys (by simpa using hl) (fun t tk' ht => by simpa using h (t+1) tk' (by simpa using ht))
      simp only [heldL, List.countP_cons] at this ⊢
      rw [this, h0]

theorem heldL_modify_same (ts : List PTask) (t : Nat) (f : PTask → PTask)
    (h : ∀ x, (f x).released = x.released) : heldL (ts.modify t f) = heldL ts := by
  induction ts generalizing t with
  | nil => simp [heldL]
  | cons a as ih =>
    cases t with
    | zero => simp [heldL, List.countP_cons, h]
    | succ n =>
      have := ih n
      simp only [heldL, List.modify_succ_cons, List.countP_cons] at this ⊢
      omega

theorem heldL_modify_release (ts : List PTask) (t : Nat) (tk : PTask) (f : PTask → PTask)
    (ht : ts[t]? = some tk) (h0 : tk.released = false) (h : ∀ x, (f x).released = true) :
    heldL (ts.modify t f) + 1 = heldL ts := by
  induction ts generalizing t with
  | nil => simp at ht
  | cons a as ih =>
    cases t with
    | zero =>
      simp at ht; subst ht
      simp [heldL, h, h0]
    | succ n =>
      simp at ht
      have := ih n ht
      simp only [heldL, List.modify_succ_cons, List.countP_cons] at this ⊢
      omega

theorem getElem?_modify_some {α} (l : List α) (t i : Nat) (f : α → α) (y : α) (h : (l.modify t f)[i]? = some y) :
    ∃ x, l[i]? = some x ∧ y = (if t = i then f x else x) := by
  rw [List.getElem?_modify] at h
  cases hx : l[i]? with
  | none => simp [hx] at h
  | some x =>
    simp [hx] at h
    exact ⟨x, rfl, by split <;> simp_all⟩

/-! ### Tame: algebra -/

theorem Tame0.refl (p : Pool) : Tame0 p p :=
  ⟨rfl, rfl, rfl, rfl, rfl, rfl, rfl, fun h => h, List.Sublist.refl _, fun _ tk' h => ⟨tk', h, rfl⟩, rfl, fun h => h, fun h => h, rfl⟩

theorem Tame.refl (p : Pool) : Tame p p :=
  ⟨Tame0.refl p, Nat.le_refl _, fun _ r' h => Or.inl ⟨r', h, MSigLe.refl r'⟩, fun _ h => h, Mono.refl p⟩

theorem Tame0.trans {p q r : Pool} (h1 : Tame0 p q) (h2 : Tame0 q r) : Tame0 p r := by
  refine ⟨h2.val.trans h1.val, h2.grants.trans h1.grants, h2.len.trans h1.len, h2.run.trans h1.run,
    h2.can.trans h1.can, h2.fin.trans h1.fin, h2.lost.trans h1.lost, fun h => h2.wnil (h1.wnil h), h2.gfl.trans h1.gfl, ?_,
    h2.apk.trans h1.apk, fun h => h2.fok (h1.fok h), fun h => h2.wok (h1.wok h), h2.rsz.trans h1.rsz⟩
  intro t tk'' h
  obtain ⟨tk', hq, e2⟩ := h2.soft t tk'' h
  obtain ⟨tk, hp, e1⟩ := h1.soft t tk' hq
  exact ⟨tk, hp, e2.trans e1⟩

theorem Tame.trans {p q r : Pool} (h1 : Tame p q) (h2 : Tame q r) : Tame p r := by
  refine ⟨h1.toTame0.trans h2.toTame0, Nat.le_trans h1.rql h2.rql, ?_, fun E h => h2.cok E (h1.cok E h), h1.mono.trans h2.mono⟩
  intro m r'' h
  rcases h2.rq m r'' h with ⟨r', hq, e2⟩ | ⟨hge, hf⟩
  · rcases h1.rq m r' hq with ⟨r, hp, e1⟩ | ⟨hge, hf⟩
    · exact Or.inl ⟨r, hp, e1.trans e2⟩
    · exact Or.inr ⟨hge, hf.le e2⟩
  · exact Or.inr ⟨Nat.le_trans h1.rql hge, hf⟩

theorem Tame0.held {p q : Pool} (h : Tame0 p q) : heldL q.tasks = heldL p.tasks :=
  heldL_eq_of_pointwise _ _ h.len (fun t tk' ht => by
    obtain ⟨tk, a, b, _⟩ := h.pt t tk' ht; exact ⟨tk, a, b⟩)

theorem Tame0.slot {cap : Cap} {p q : Pool} (h : Tame0 p q) (hs : SlotOK cap p) : SlotOK cap q := by
  cases cap with
  | fin n =>
    obtain ⟨v, hv, hsum⟩ := hs
    exact ⟨v, by rw [h.val]; exact hv, by rw [h.held, h.grants]; exact hsum⟩
  | inf => exact ⟨h.val.trans hs.1, h.wnil hs.2⟩

theorem Tame0.phase {p q : Pool} (h : Tame0 p q) (hp : PhaseOK p) : PhaseOK q := by
  intro t tk' ht hn
  obtain ⟨tk, a, b, c⟩ := h.pt t tk' ht
  rcases c with e | n
  · rw [b]; exact hp t tk a (by rw [← e]; exact hn)
  · rw [n] at hn; cases hn

/-- the task at index `t` in `q` and the task it came from in `p` -/
theorem Tame0.back {p q : Pool} (h : Tame0 p q) (t : Nat) (tk : PTask) (hp : p.tasks[t]? = some tk) :
    ∃ tk', q.tasks[t]? = some tk' ∧ tk'.released = tk.released ∧ (tk'.phase = tk.phase ∨ NYR tk'.phase = false) := by
  have hlt : t < q.tasks.length := by
    rw [h.len]; exact (List.getElem?_eq_some_iff.mp hp).1
  refine ⟨q.tasks[t], by simp [hlt], ?_⟩
  obtain ⟨tk0, a, b, c⟩ := h.pt t q.tasks[t] (by simp [hlt])
  rw [hp] at a; cases a; exact ⟨b, c⟩

theorem Tame0.reg {p q : Pool} (h : Tame0 p q) (hr : RegOK p) : RegOK q := by
  refine ⟨by rw [h.run, h.can, h.fin]; exact hr.nd, ?_, ?_, ?_, ?_⟩
  · intro t ht
    rw [h.run] at ht
    obtain ⟨tk, a, b⟩ := hr.run t ht
    obtain ⟨tk', a', b', _⟩ := h.back t tk a
    exact ⟨tk', a', b'.trans b⟩
  · intro t ht
    rw [h.can] at ht
    obtain ⟨tk, a, b, c, d⟩ := hr.can t ht
    obtain ⟨tk', a', b', c'⟩ := h.back t tk a
    refine ⟨tk', a', b'.trans b, ?_, ?_⟩
    · rcases c' with e | n
      · rw [e]; exact c
      · intro e; rw [e] at n; cases n
    · rcases c' with e | n
      · rw [e]; exact d
      · intro e; rw [e] at n; cases n
  · intro t ht
    rw [h.fin] at ht
    obtain ⟨tk, a, b⟩ := hr.fin t ht
    obtain ⟨tk', a', b', _⟩ := h.back t tk a
    exact ⟨tk', a', b'.trans b⟩
  · intro hl t tk' ht hrel
    rw [h.lost] at hl
    obtain ⟨tk, a, b, _⟩ := h.pt t tk' ht
    rw [h.run, h.can]
    exact hr.cpl hl t tk a (b ▸ hrel)

theorem GroupsOK.of_eq {p q : Pool} (hr : GroupsOK p) (hg : q.groups = p.groups) (hl : q.tasks.length = p.tasks.length) :
    GroupsOK q :=
  ⟨by rw [hg]; exact hr.nd, fun i hi => by rw [hl]; rw [hg] at hi; exact hr.lt i hi⟩

theorem Tame0.grp {p q : Pool} (h : Tame0 p q) (hr : GroupsOK p) : GroupsOK q :=
  ⟨h.gfl.nodup hr.nd, fun i hi => by rw [h.len]; exact hr.lt i (h.gfl.subset hi)⟩

theorem LifeOK.of_eq {p q : Pool} (hl : LifeOK p) (ht : q.tasks = p.tasks) (h4 : q.lost = p.lost) : LifeOK q := by
  intro t tk h; rw [ht] at h; rw [h4]; exact hl t tk h

theorem LifeOK.lostMono {p q : Pool} (hl : LifeOK p) (ht : q.tasks = p.tasks) (hm : p.lost = true → q.lost = true) :
    LifeOK q := by
  intro t tk h
  rw [ht] at h
  have h1 := hl t tk h
  cases hq : q.lost with
  | true => exact ⟨h1.e0, h1.e1, h1.c1, h1.c0, h1.cw, h1.cc, h1.ec, h1.ord, h1.cn, h1.en, (fun _ hl' => by cases hl'), h1.s1, h1.s0, h1.mh, h1.out⟩
  | false =>
    cases hp : p.lost with
    | true => rw [hm hp] at hq; cases hq
    | false => rw [hp] at h1; exact h1

theorem oks_new (lost : Bool) (ph : Phase) (ecb ccb : CbSpec) (m : Nat) (isMap : Bool) (hph : ph = .created) :
    OKs lost ⟨ph, false, 0, 0, false, ecb, ccb, 0, m, isMap, isMap, false⟩ := by
  subst hph
  exact ⟨fun _ => rfl, by simp, by simp, fun _ => ⟨rfl, rfl⟩, fun h => by simp at h, fun h => by simp at h,
    fun h => by simp at h, fun h => by simp at h, fun _ => rfl, fun _ => rfl, fun h => by simp at h, by simp,
    fun _ => rfl, fun h _ => h, fun h => by simp at h⟩

theorem Tame0.life {p q : Pool} (h : Tame0 p q) (hl : LifeOK p) : LifeOK q := by
  intro t tk' ht
  obtain ⟨tk, a, b⟩ := h.soft t tk' ht
  rw [b, h.lost]; exact hl t tk a

theorem countP_pointwise (f : PTask → Bool) (a b : List PTask) (hl : b.length = a.length)
    (h : ∀ (t : Nat) (tk' : PTask), b[t]? = some tk' → ∃ tk : PTask, a[t]? = some tk ∧ f tk' = f tk) :
    b.countP f = a.countP f := by
  induction a generalizing b with
  | nil => cases b <;> simp_all
  | cons x xs ih =>
    cases b with
    | nil => simp at hl
    | cons y ys =>
      have h0 := h 0 y (by simp)
      simp at h0
      have := ih ys (by simpa using hl) (fun t tk' ht => by simpa using h (t+1) tk' (by simpa using ht))
      simp only [List.countP_cons] at this ⊢
      rw [this, h0]

theorem Tame.heldM_eq {p q : Pool} (h : Tame p q) (m : Nat) : heldM q.tasks m = heldM p.tasks m :=
  countP_pointwise _ _ _ h.len (fun t tk' ht => by
    obtain ⟨tk, a, b⟩ := h.soft t tk' ht
    exact ⟨tk, a, by rw [show tk'.mapHeld = tk.mapHeld from congrArg SoftP.mapHeld b,
                          show tk'.req = tk.req from congrArg SoftP.req b]⟩)

theorem MSigLe.live {r' r : Req} (b : MSigLe r' r) (hnd : r'.outcome = none) : r.outcome = none := b.out hnd

theorem Tame.map {p q : Pool} (h : Tame p q) (hm : MapOK p) : MapOK q := by
  refine ⟨?_, ?_, ?_, ?_⟩
  · intro t tk' ht hh
    obtain ⟨tk, a, b⟩ := h.soft t tk' ht
    rw [show tk'.req = tk.req from congrArg SoftP.req b]
    exact Nat.lt_of_lt_of_le (hm.ref t tk a (by rw [← show tk'.mapHeld = tk.mapHeld from congrArg SoftP.mapHeld b]; exact hh)) h.rql
  · intro m r' hr
    rcases h.rq m r' hr with ⟨r, a, b⟩ | ⟨hge, ⟨v, hv, hs, hs2, _⟩, _⟩
    · obtain ⟨v, hv, hs, hs2⟩ := hm.le m r a
      refine ⟨v, by rw [b.value]; exact hv, ?_, ?_⟩
      · rw [h.heldM_eq, b.grants, b.nc]
        have := b.pend
        omega
      · intro hnd
        rw [h.heldM_eq, b.grants, b.nc]
        have := b.pge hnd
        have := hs2 (b.live hnd)
        omega
    · have h0 : Taskpool.heldM p.tasks m = 0 := by
        unfold Taskpool.heldM
        rw [List.countP_eq_zero]
        intro tk hmem
        obtain ⟨i, hi, rfl⟩ := List.getElem_of_mem hmem
        by_cases hh : p.tasks[i].mapHeld = true
        · have := hm.ref i p.tasks[i] (by simp [hi]) hh
          have hne : p.tasks[i].req ≠ m := by omega
          simp [hne]
        · simp [hh]
      refine ⟨v, hv, ?_, ?_⟩
      · rw [h.heldM_eq, h0]
        omega
      · intro hnd
        rw [h.heldM_eq, h0]
        have := hs2 hnd
        omega
  · intro m r' hr
    rcases h.rq m r' hr with ⟨r, a, b⟩ | ⟨_, ⟨_, _, _, _, hw⟩, _⟩
    · exact b.wk (hm.wk m r a)
    · exact hw
  · intro m r' hr
    rcases h.rq m r' hr with ⟨r, a, b⟩ | ⟨_, _, ha, _⟩
    · exact b.acq (hm.acq m r a)
    · exact ha

theorem tasksOf_fresh (p : Pool) (ha : AccOK p) (m : Nat) (hge : p.reqs.length ≤ m) : tasksOf p.tasks m = 0 := by
  unfold tasksOf
  rw [List.countP_eq_zero]
  intro tk hmem
  obtain ⟨i, hi, rfl⟩ := List.getElem_of_mem hmem
  have := ha.ref i p.tasks[i] (by simp [hi])
  have hne : p.tasks[i].req ≠ m := by omega
  simp [hne]

theorem Tame.tasksOf_eq {p q : Pool} (h : Tame p q) (m : Nat) : tasksOf q.tasks m = tasksOf p.tasks m :=
  countP_pointwise _ _ _ h.len (fun t tk' ht => by
    obtain ⟨tk, a, b⟩ := h.soft t tk' ht
    exact ⟨tk, a, by rw [show tk'.req = tk.req from congrArg SoftP.req b]⟩)

theorem Tame.acc {p q : Pool} (h : Tame p q) (ha : AccOK p) : AccOK q := by
  refine ⟨?_, ?_, ?_⟩
  · intro t tk' ht
    obtain ⟨tk, a, b⟩ := h.soft t tk' ht
    rw [show tk'.req = tk.req from congrArg SoftP.req b]
    exact Nat.lt_of_lt_of_le (ha.ref t tk a) h.rql
  · intro m r' hr
    rw [h.tasksOf_eq]
    rcases h.rq m r' hr with ⟨r, a, b⟩ | ⟨hge, _, _, hc, _⟩
    · rw [ha.tk m r a]
      exact (congrArg Cnt.created b.cnt).symm
    · rw [tasksOf_fresh p ha m hge]
      exact hc.1.symm
  · intro m r' hr
    rcases h.rq m r' hr with ⟨r, a, b⟩ | ⟨_, _, _, hc, hf⟩
    · rw [b.cnt]
      exact (ha.rq m r a).frame (b.fr.elim Or.inl (fun e => Or.inr (Or.inl e)))
    · exact AccReq.fresh hc hf

/-- the two extra clauses of the strict variant, as a bundle -/
structure Strict (L R : Bool) (p : Pool) : Prop where
  ll : L = false → p.lost = false
  al : L = false → R = false → ∀ A ∈ p.apis, A.kind.isGac = false
  rz : R = true → p.resized = false

theorem Good0.strict {cap : Cap} {L R : Bool} {p : Pool} (hg : Good0 cap L R p) : Strict L R p := ⟨hg.ll, hg.al, hg.rz⟩
theorem Good.strict {cap : Cap} {L R : Bool} {p : Pool} (hg : Good cap L R p) : Strict L R p := ⟨hg.ll, hg.al, hg.rz⟩

theorem Strict.of_eq {L R : Bool} {p q : Pool} (h : Strict L R p) (h1 : q.lost = p.lost) (h2 : q.apis = p.apis)
    (h3 : q.resized = p.resized := by rfl) : Strict L R q :=
  ⟨fun hl => by rw [h1]; exact h.ll hl, fun hl hr => by rw [h2]; exact h.al hl hr, fun hr => by rw [h3]; exact h.rz hr⟩

theorem Tame0.good0 {cap : Cap} {L R : Bool} {p q : Pool} (h : Tame0 p q) (hg : Good0 cap L R p) : Good0 cap L R q :=
  ⟨h.slot hg.slot, h.phase hg.phase, h.reg hg.reg, h.grp hg.grp, h.life hg.life, h.fok hg.fl, h.wok hg.wk,
    fun hr => by rw [h.rsz]; exact hg.rz hr,
    fun hl => by rw [h.lost]; exact hg.ll hl,
    fun hl hr A hA => by
      have hk : A.kind ∈ q.apis.map (·.kind) := List.mem_map.mpr ⟨A, hA, rfl⟩
      rw [h.apk] at hk
      obtain ⟨B, hB, e⟩ := List.mem_map.mp hk
      rw [← e]; exact hg.al hl hr B hB⟩

theorem Tame.good {cap : Cap} {L R : Bool} {p q : Pool} (h : Tame p q) (hg : Good cap L R p) : Good cap L R q :=
  ⟨h.toTame0.good0 hg.toGood0, h.map hg.map, h.acc hg.acc, h.cok _ hg.canc⟩

/-- released flag of a task is preserved along a tame change -/
theorem Tame0.released {p q : Pool} (h : Tame0 p q) (t : Nat) (tk : PTask) (hp : p.tasks[t]? = some tk) :
    ∃ tk', q.tasks[t]? = some tk' ∧ tk'.released = tk.released := by
  have hlt : t < q.tasks.length := by
    rw [h.len]; exact (List.getElem?_eq_some_iff.mp hp).1
  refine ⟨q.tasks[t], by simp [hlt], ?_⟩
  obtain ⟨tk0, a, b, _⟩ := h.pt t q.tasks[t] (by simp [hlt])
  rw [hp] at a; cases a; exact b

theorem tame_of_eq (p q : Pool) (hs : q.sem = p.sem) (ht : q.tasks = p.tasks)
    (h1 : q.running = p.running := by rfl) (h2 : q.cancelledR = p.cancelledR := by rfl)
    (h3 : q.ended = p.ended := by rfl) (h4 : q.lost = p.lost := by rfl)
    (h5 : (flat q.groups).Sublist (flat p.groups) := by exact List.Sublist.refl _)
    (h6 : q.apis = p.apis := by rfl) (h7 : q.reqs = p.reqs := by rfl) (h8 : q.gathers = p.gathers := by rfl)
    (h9 : q.resized = p.resized := by rfl) (h10 : q.closed = p.closed := by rfl) : Tame p q := by
  refine ⟨⟨by rw [hs], by rw [hs], by rw [ht], h1, h2, h3, h4, by rw [hs]; exact fun h => h, h5, ?_, by rw [h6],
    fun h => h.of_soft h8 h6 (by rw [ht]) (fun t tk' h => by rw [ht] at h; exact ⟨tk', h, rfl⟩),
    fun h => h.of_eq hs h9, h9⟩, by rw [h7]; exact Nat.le_refl _, ?_, fun _ h => h.of_eq h7 (by rw [hs]), Mono.of_eq p q ht h7 h10⟩
  · intro t tk' h; rw [ht] at h; exact ⟨tk', h, rfl⟩
  · intro m r' h; rw [h7] at h; exact Or.inl ⟨r', h, MSigLe.refl r'⟩

/-- as `tame_of_eq`, with every request rewritten by a function that moves no map slot -/
theorem tame_of_map (p q : Pool) (f : Req → Req) (hs : q.sem = p.sem) (ht : q.tasks = p.tasks) (h7 : q.reqs = p.reqs.map f)
    (hf : ∀ x, MSigLe (f x) x)
    (h1 : q.running = p.running := by rfl) (h2 : q.cancelledR = p.cancelledR := by rfl)
    (h3 : q.ended = p.ended := by rfl) (h4 : q.lost = p.lost := by rfl)
    (h5 : (flat q.groups).Sublist (flat p.groups) := by exact List.Sublist.refl _)
    (h6 : q.apis = p.apis := by rfl) (h8 : q.gathers = p.gathers := by rfl) (h9 : q.resized = p.resized := by rfl)
    (hc : ∀ x, CSame (f x) x := by intro x; first | exact ⟨rfl, rfl, rfl, Or.inl rfl, fun h => Or.inl h, fun _ h => Or.inl h⟩ | (split <;> exact ⟨rfl, rfl, rfl, Or.inl rfl, fun h => Or.inl h, fun _ h => Or.inl h⟩))
    (h10 : q.closed = p.closed := by rfl) :
    Tame p q := by
  refine ⟨⟨by rw [hs], by rw [hs], by rw [ht], h1, h2, h3, h4, by rw [hs]; exact fun h => h, h5, ?_, by rw [h6],
    fun h => h.of_soft h8 h6 (by rw [ht]) (fun t tk' h => by rw [ht] at h; exact ⟨tk', h, rfl⟩),
    fun h => h.of_eq hs h9, h9⟩, by rw [h7]; simp, ?_, ?_, ?_⟩
  rotate_left 3
  · refine Mono.of_parts p q (by rw [ht]; exact Nat.le_refl _) (fun t tk a b => ⟨tk, by rw [ht]; exact a, b⟩) (by rw [h7]; simp) ?_ h10
    intro m r a
    refine ⟨f r, by rw [h7, List.getElem?_map, a]; rfl, (hc r).cr, (hc r).pu, fun s hs' => by rw [(hc r).cs]; exact hs', fun ho => ?_⟩
    have := (hf r).out
    cases hfo : (f r).outcome with
    | none => rw [this hfo] at ho; cases ho
    | some _ => rfl
  · intro t tk' h; rw [ht] at h; exact ⟨tk', h, rfl⟩
  · intro m r' h
    rw [h7, List.getElem?_map] at h
    cases hx : p.reqs[m]? with
    | none => simp [hx] at h
    | some x => simp [hx] at h; subst h; exact Or.inl ⟨x, rfl, hf x⟩
  · intro E hk
    refine hk.frame (fun m x => by rw [hs]; exact x) ?_
    intro m r' h
    rw [h7, List.getElem?_map] at h
    cases hx : p.reqs[m]? with
    | none => simp [hx] at h
    | some x => simp [hx] at h; subst h; exact Or.inl ⟨x, rfl, hc x⟩

namespace Pool

@[simp] theorem modReq_sem (p : Pool) (m f) : (p.modReq m f).sem = p.sem := rfl
@[simp] theorem modReq_tasks (p : Pool) (m f) : (p.modReq m f).tasks = p.tasks := rfl
@[simp] theorem modApi_sem (p : Pool) (m f) : (p.modApi m f).sem = p.sem := rfl
@[simp] theorem modApi_tasks (p : Pool) (m f) : (p.modApi m f).tasks = p.tasks := rfl
@[simp] theorem modGather_sem (p : Pool) (m f) : (p.modGather m f).sem = p.sem := rfl
@[simp] theorem modGather_tasks (p : Pool) (m f) : (p.modGather m f).tasks = p.tasks := rfl
@[simp] theorem emitRef_sem (p : Pool) (r) : (p.emitRef r).sem = p.sem := rfl
@[simp] theorem emitRef_tasks (p : Pool) (r) : (p.emitRef r).tasks = p.tasks := rfl
@[simp] theorem logEv_sem (p : Pool) (r) : (p.logEv r).sem = p.sem := rfl
@[simp] theorem logEv_tasks (p : Pool) (r) : (p.logEv r).tasks = p.tasks := rfl
@[simp] theorem modTask_sem (p : Pool) (m f) : (p.modTask m f).sem = p.sem := rfl
@[simp] theorem modTask_tasks (p : Pool) (m f) : (p.modTask m f).tasks = p.tasks.modify m f := rfl
@[simp] theorem schedMeta_sem (p : Pool) (m) : (p.schedMeta m).sem = p.sem := rfl
@[simp] theorem schedMeta_tasks (p : Pool) (m) : (p.schedMeta m).tasks = p.tasks := rfl
@[simp] theorem schedOpt_sem (p : Pool) (o) : (p.schedOpt o).sem = p.sem := by cases o <;> rfl
@[simp] theorem schedOpt_tasks (p : Pool) (o) : (p.schedOpt o).tasks = p.tasks := by cases o <;> rfl

/-- a task update that changes only soft fields -/
theorem tame_modTask (p : Pool) (t : Nat) (f : PTask → PTask)
    (hs : ∀ x, (f x).soft = x.soft := by intro x; rfl) : Tame p (p.modTask t f) := by
  have hsoft : ∀ (i : Nat) (tk' : PTask), (p.modTask t f).tasks[i]? = some tk' →
      ∃ tk : PTask, p.tasks[i]? = some tk ∧ tk'.soft = tk.soft := by
    intro i tk' h
    obtain ⟨x, hx, rfl⟩ := getElem?_modify_some p.tasks t i f tk' h
    refine ⟨x, hx, ?_⟩
    split
    · exact hs x
    · rfl
  refine ⟨⟨rfl, rfl, by simp [modTask], rfl, rfl, rfl, rfl, fun h => h, List.Sublist.refl _, hsoft, rfl,
    fun h => h.of_soft rfl rfl (by simp [modTask]) hsoft, fun h => h.of_eq rfl rfl, rfl⟩, Nat.le_refl _,
    fun _ r' h => Or.inl ⟨r', h, MSigLe.refl r'⟩, fun _ h => h.of_eq rfl rfl,
    Mono.of_parts _ _ (by simp [modTask]) (fun i tk a b => by
      refine ⟨if t = i then f tk else tk, by simp [modTask, List.getElem?_modify, a], ?_⟩
      split
      · have := congrArg SoftP.phase (hs tk); exact this.trans b
      · exact b) (Nat.le_refl _) (fun _ r a => ⟨r, a, rfl, rfl, fun _ h => h, fun h => h⟩) rfl⟩

/-- any change confined to the requests (and the ready handles) is tame as far as pool slots, phases, registries,
groups and callbacks are concerned -/
theorem tame0_of_eq (p q : Pool) (hs : q.sem = p.sem) (ht : q.tasks = p.tasks)
    (h1 : q.running = p.running := by rfl) (h2 : q.cancelledR = p.cancelledR := by rfl)
    (h3 : q.ended = p.ended := by rfl) (h4 : q.lost = p.lost := by rfl)
    (h5 : (flat q.groups).Sublist (flat p.groups) := by exact List.Sublist.refl _)
    (h6 : q.apis = p.apis := by rfl) (h8 : q.gathers = p.gathers := by rfl) (h9 : q.resized = p.resized := by rfl) :
    Tame0 p q := by
  refine ⟨by rw [hs], by rw [hs], by rw [ht], h1, h2, h3, h4, by rw [hs]; exact fun h => h, h5, ?_, by rw [h6],
    fun h => h.of_soft h8 h6 (by rw [ht]) (fun t tk' h => by rw [ht] at h; exact ⟨tk', h, rfl⟩),
    fun h => h.of_eq hs h9, h9⟩
  intro t tk' h; rw [ht] at h; exact ⟨tk', h, rfl⟩

theorem tame0_modReq (p : Pool) (m : Nat) (f : Req → Req) : Tame0 p (p.modReq m f) := tame0_of_eq _ _ rfl rfl

/-- an update of a request that moves no map slot, given what it does to `CancOK` -/
theorem _root_.Taskpool.Mono.modReq (p : Pool) (m : Nat) (f : Req → Req)
    (hcr : ∀ x, x.created ≤ (f x).created ∧ x.pulled ≤ (f x).pulled)
    (hsk : ∀ x s, x.cancelSnap = some s → (f x).cancelSnap = some s)
    (hout : ∀ x, x.outcome.isSome = true → (f x).outcome.isSome = true) : Mono p (p.modReq m f) := by
  refine ⟨Nat.le_refl _, fun _ tk a b => ⟨tk, a, b⟩, by simp [Pool.modReq], ?_, fun h => h⟩
  intro i r a
  refine ⟨if m = i then f r else r, by simp [Pool.modReq, List.getElem?_modify, a], ?_⟩
  split
  · exact ⟨(hcr r).1, (hcr r).2, hsk r, hout r⟩
  · exact ⟨Nat.le_refl _, Nat.le_refl _, fun _ h => h, fun h => h⟩

theorem tame_modReq_of (p : Pool) (m : Nat) (f : Req → Req) (hf : ∀ x, MSigLe (f x) x)
    (hcok : ∀ E : Nat → Prop, CancEx E p → CancEx E (p.modReq m f))
    (hsk : ∀ x s, x.cancelSnap = some s → (f x).cancelSnap = some s) : Tame p (p.modReq m f) := by
  refine ⟨⟨rfl, rfl, rfl, rfl, rfl, rfl, rfl, fun h => h, List.Sublist.refl _, fun _ tk' h => ⟨tk', h, rfl⟩, rfl,
    fun h => h.of_soft rfl rfl rfl (fun _ tk' h => ⟨tk', h, rfl⟩), fun h => h.of_eq rfl rfl, rfl⟩,
    by simp [modReq], ?_, hcok, Mono.modReq p m f
      (fun x => by have := (hf x).cnt; exact ⟨Nat.le_of_eq (congrArg Cnt.created this).symm, Nat.le_of_eq (congrArg Cnt.pulled this).symm⟩)
      hsk (fun x ho => by
        cases hfo : (f x).outcome with
        | none => rw [(hf x).out hfo] at ho; cases ho
        | some _ => rfl)⟩
  intro i r' h
  simp only [modReq] at h
  obtain ⟨x, hx, rfl⟩ := getElem?_modify_some p.reqs m i f r' h
  refine Or.inl ⟨x, hx, ?_⟩
  split
  · exact hf x
  · exact MSigLe.refl x

theorem _root_.Taskpool.CancEx.modReq {E : Nat → Prop} {p : Pool} (hk : CancEx E p) (m : Nat) (f : Req → Req)
    (hc : ∀ x, CSame (f x) x) : CancEx E (p.modReq m f) := by
  refine hk.frame (fun _ x => x) ?_
  intro i r' h
  simp only [Pool.modReq] at h
  obtain ⟨x, hx, rfl⟩ := getElem?_modify_some p.reqs m i f r' h
  refine Or.inl ⟨x, hx, ?_⟩
  split
  · exact hc x
  · exact CSame.refl x

/-- an update of a request that moves no map slot -/
theorem tame_modReq (p : Pool) (m : Nat) (f : Req → Req)
    (hf : ∀ x, MSigLe (f x) x := by intro x; exact ⟨rfl, rfl, rfl, Nat.le_refl _, fun h => h, rfl, Or.inl rfl, fun h => h, fun h => h, fun _ => rfl, fun _ => Nat.le_refl _⟩)
    (hc : ∀ x, CSame (f x) x := by intro x; exact ⟨rfl, rfl, rfl, Or.inl rfl, fun h => Or.inl h, fun _ h => Or.inl h⟩) :
    Tame p (p.modReq m f) := tame_modReq_of p m f hf (fun _ hk => hk.modReq m f hc) (fun x s h => by rw [(hc x).cs]; exact h)

/-- rewriting background call `a` without putting it (back) into its second gather or touching its snapshot -/
theorem _root_.Taskpool.FlushOK.modApi {p : Pool} (h : FlushOK p) (a : Nat) (f : Api → Api)
    (hk : ∀ x, (f x).kind = x.kind)
    (hf : ∀ x, p.apis[a]? = some x → ∀ g, (f x).frame = .gather2 g → x.frame = .gather2 g ∧ (f x).snapC = x.snapC) :
    FlushOK (p.modApi a f) := by
  refine ⟨h.gth, ?_⟩
  intro i A' g hi hfr hkind
  simp only [Pool.modApi] at hi
  obtain ⟨x, hx, rfl⟩ := getElem?_modify_some p.apis a i f A' hi
  by_cases e : a = i
  · subst e
    simp only [if_true] at hfr hkind ⊢
    obtain ⟨h1, h2⟩ := hf x hx g hfr
    rw [h2]; exact h.api a x g hx h1 (by rw [← hk]; exact hkind)
  · simp only [e, if_false] at hfr hkind ⊢
    exact h.api i x g hx hfr hkind

/-- a rewrite of background call `m` that keeps its kind, given what it does to `FlushOK` -/
theorem tame_modApi_of (p : Pool) (m : Nat) (f : Api → Api) (hk : ∀ x, (f x).kind = x.kind)
    (hfok : FlushOK p → FlushOK (p.modApi m f)) : Tame p (p.modApi m f) := by
  refine ⟨⟨rfl, rfl, rfl, rfl, rfl, rfl, rfl, fun h => h, List.Sublist.refl _, fun _ tk' h => ⟨tk', h, rfl⟩, ?_,
    hfok, fun h => h.of_eq rfl rfl, rfl⟩, Nat.le_refl _, fun _ r' h => Or.inl ⟨r', h, MSigLe.refl r'⟩,
    fun _ h => h.of_eq rfl rfl, Mono.of_eq _ _ rfl rfl rfl⟩
  simp only [modApi]
  apply List.ext_getElem?
  intro i
  simp only [List.getElem?_map, List.getElem?_modify]
  cases p.apis[i]? with
  | none => rfl
  | some x => simp only [Option.map_some]; split <;> simp [hk]

theorem tame_modApi (p : Pool) (m : Nat) (f : Api → Api) (hk : ∀ x, (f x).kind = x.kind := by intro x; rfl)
    (hf : ∀ x, p.apis[m]? = some x → ∀ g, (f x).frame = .gather2 g → x.frame = .gather2 g ∧ (f x).snapC = x.snapC := by
      intro x _ g h; first | exact ⟨h, rfl⟩ | cases h) : Tame p (p.modApi m f) :=
  tame_modApi_of p m f hk (fun h => h.modApi m f hk hf)

/-- rewriting gather `g` without touching its children, completing it normally only when all its child tasks have
finished -/
theorem _root_.Taskpool.FlushOK.modGather {p : Pool} (h : FlushOK p) (g : Nat) (f : Gather → Gather)
    (hc : ∀ G, (f G).children = G.children)
    (ho : ∀ G, p.gathers[g]? = some G → (f G).outer = some .ok →
        G.outer = some .ok ∨ ∀ t, Child.task t ∈ G.children → TaskFin p t) :
    FlushOK (p.modGather g f) := by
  refine ⟨?_, ?_⟩
  · intro i G' hi hok t ht
    simp only [Pool.modGather] at hi
    obtain ⟨G, hG, rfl⟩ := getElem?_modify_some p.gathers g i f G' hi
    by_cases e : g = i
    · subst e
      simp only [if_true] at hok ht
      rw [hc] at ht
      rcases ho G hG hok with h1 | h1
      · exact h.gth g G hG h1 t ht
      · exact h1 t ht
    · simp only [e, if_false] at hok ht
      exact h.gth i G hG hok t ht
  · intro a A g' ha hfr hkind
    obtain ⟨G, hG, hsub⟩ := h.api a A g' ha hfr hkind
    refine ⟨if g = g' then f G else G, ?_, ?_⟩
    · simp only [Pool.modGather, List.getElem?_modify, hG]; rfl
    · split
      · rw [hc]; exact hsub
      · exact hsub

theorem tame_modGather (p : Pool) (g : Nat) (f : Gather → Gather) (hc : ∀ G, (f G).children = G.children)
    (ho : ∀ G, p.gathers[g]? = some G → (f G).outer = some .ok →
        G.outer = some .ok ∨ ∀ t, Child.task t ∈ G.children → TaskFin p t) : Tame p (p.modGather g f) :=
  ⟨⟨rfl, rfl, rfl, rfl, rfl, rfl, rfl, fun h => h, List.Sublist.refl _, fun _ tk' h => ⟨tk', h, rfl⟩, rfl,
    fun h => h.modGather g f hc ho, fun h => h.of_eq rfl rfl, rfl⟩, Nat.le_refl _, fun _ r' h => Or.inl ⟨r', h, MSigLe.refl r'⟩,
    fun _ h => h.of_eq rfl rfl, Mono.of_eq _ _ rfl rfl rfl⟩

theorem tame_emitRef (p : Pool) (r) : Tame p (p.emitRef r) := tame_of_eq _ _ rfl rfl
theorem tame_logEv (p : Pool) (r) : Tame p (p.logEv r) := tame_of_eq _ _ rfl rfl

theorem tame_schedTask (p : Pool) (t) : Tame p (p.schedTask t) := by
  unfold schedTask
  exact Tame.trans (q := p.modTask t fun x => { x with sched := true })
    (tame_modTask p t _) (tame_emitRef _ _)
theorem tame_schedMeta (p : Pool) (m) : Tame p (p.schedMeta m) := (tame_modReq p m _).trans (tame_emitRef _ _)
theorem tame_schedApi (p : Pool) (a) : Tame p (p.schedApi a) := (tame_modApi p a _).trans (tame_emitRef _ _)
theorem tame_schedOpt (p : Pool) (o) : Tame p (p.schedOpt o) := by
  cases o
  · exact Tame.refl p
  · exact tame_schedMeta p _

theorem tame_foldl {α} (l : List α) (f : Pool → α → Pool) (h : ∀ p a, Tame p (f p a)) (p : Pool) :
    Tame p (l.foldl f p) := by
  induction l generalizing p with
  | nil => exact Tame.refl p
  | cons a as ih => exact (h p a).trans (ih (f p a))

theorem tame_emitChildren (p : Pool) (cbs) : Tame p (p.emitChildren cbs) :=
  tame_foldl cbs _ (fun p _ => tame_emitRef p _) p

/-! ### asyncio cancel primitives -/

theorem tame_taskCancel (p : Pool) (t) : Tame p (p.taskCancel t) := by
  unfold taskCancel
  split
  · exact Tame.refl p
  · split
    · exact Tame.refl p
    · split
      · exact Tame.trans (q := p.modTask t fun k => { k with fut := .cancelled })
          (tame_modTask p t _) (tame_schedTask _ _)
      · exact tame_modTask p t _

theorem tame_cancelTask (p : Pool) (t) : Tame p (p.cancelTask t) := by
  unfold cancelTask
  split
  · exact Tame.refl p
  · split
    · exact tame_modTask p t _
    · exact tame_taskCancel p t

theorem grantsL_cancelWaiterL (m : Nat) (ws : List Waiter) : grantsL (cancelWaiterL m ws) = grantsL ws := by
  induction ws with
  | nil => rfl
  | cons w ws ih =>
    simp only [cancelWaiterL, List.map_cons, grantsL, List.countP_cons] at ih ⊢
    rw [ih]
    split <;> rename_i h
    · simp [h.2]
    · rfl

theorem tame_cancelPoolWaiter (p : Pool) (m : Nat) :
    Tame p ({ p with sem := { p.sem with waiters := cancelWaiterL m p.sem.waiters } } : Pool) :=
  ⟨⟨rfl, grantsL_cancelWaiterL m _, rfl, rfl, rfl, rfl, rfl, fun h => by simp [h, cancelWaiterL], List.Sublist.refl _,
   fun _ tk' h => ⟨tk', h, rfl⟩, rfl, fun h => h.of_soft rfl rfl rfl (fun _ tk' h => ⟨tk', h, rfl⟩),
   fun h a v b c d w hw hp => by
     have hg := grantsL_cancelWaiterL m p.sem.waiters
     simp only [cancelWaiterL, List.mem_map] at hw
     obtain ⟨w0, hw0, rfl⟩ := hw
     have := h a v b c (by rw [← hg]; exact d) w0 hw0
     split at hp
     · cases hp
     · exact this hp, rfl⟩, Nat.le_refl _,
   fun _ r' h => Or.inl ⟨r', h, MSigLe.refl r'⟩,
   fun _ h => h.frame (fun m' x => ownCancelled_cancel m m' _ x) (fun _ r' a => Or.inl ⟨r', a, CSame.refl r'⟩),
   Mono.of_eq _ _ rfl rfl rfl⟩

theorem snapReq_cases (x : Req) :
    snapReq x = x ∨ ((x.frame ≠ .running ∧ x.frame ≠ .done) ∧ x.cancelSnap = none ∧
      snapReq x = { x with cancelSnap := some (x.created, x.pulled) }) := by
  unfold snapReq
  split
  · rename_i h
    right
    simp only [Bool.and_eq_true, Option.isNone_iff_eq_none, bne_iff_ne, ne_eq] at h
    exact ⟨⟨h.1.1, h.1.2⟩, h.2, rfl⟩
  · left; rfl

theorem snapReq_keeps (y : Req) (s : Nat × Nat) (h : y.cancelSnap = some s) : (snapReq y).cancelSnap = some s := by
  rcases snapReq_cases y with e | ⟨_, hn, _⟩
  · rw [e]; exact h
  · rw [hn] at h; cases h

theorem _root_.Taskpool.MSigLe.snap {y x : Req} (h : MSigLe y x) : MSigLe (snapReq y) x := by
  rcases snapReq_cases y with e | ⟨hy, _, e⟩ <;> rw [e]
  · exact h
  · refine ⟨h.value, h.grants, h.nc, h.pend, h.acq, h.cnt, h.fr, h.out, h.wk, ?_, h.pge⟩
    intro hx
    exfalso
    rcases h.fr with e1 | e1
    · rcases hx with hx | hx
      · exact hy.1 (e1.trans hx)
      · exact hy.2 (e1.trans hx)
    · exact hy.2 e1

/-- a first cancellation that establishes doom may take the snapshot -/
theorem _root_.Taskpool.CancEx.snapAt {E : Nat → Prop} {p q : Pool} (h : CancEx E p) (m : Nat)
    (hw : ∀ i, ownCancelled i p.sem.waiters → ownCancelled i q.sem.waiters)
    (hr : ∀ (i : Nat) (r' : Req), q.reqs[i]? = some r' → ∃ y r, p.reqs[i]? = some r ∧ CSame y r ∧
        (r' = y ∨ (i = m ∧ r' = snapReq y ∧ DoomedAt q m y))) : CancEx E q := by
  intro i r' c u hr' hs
  obtain ⟨y, r, a, b, hy⟩ := hr i r' hr'
  have old : y.cancelSnap = some (c, u) → r'.frame = y.frame → r'.mustCancel = y.mustCancel → r'.mapSem = y.mapSem →
      r'.created = y.created → r'.pulled = y.pulled →
      r'.created = c ∧ r'.pulled = u ∧ (E i ∨ r'.frame = .done ∨ DoomedAt q i r') := by
    intro hsy e1 e2 e3 e4 e5
    obtain ⟨h1, h2, h3⟩ := h i r c u a (by rw [← b.cs]; exact hsy)
    refine ⟨by rw [e4, b.cr]; exact h1, by rw [e5, b.pu]; exact h2, ?_⟩
    rcases h3 with hE | h3
    · exact Or.inl hE
    right
    unfold DoomedAt
    rw [e1, e2, e3]
    rcases b.fr with e | e
    · rcases h3 with d | d
      · left; rw [e]; exact d
      · rcases d with d | ⟨d1, d2⟩ | ⟨d1, d2⟩
        · rcases b.mc d with x | x
          · exact Or.inr (Or.inl x)
          · exact Or.inl x
        · exact Or.inr (Or.inr (Or.inl ⟨by rw [e]; exact d1, hw i d2⟩))
        · rcases b.mw i d2 with x | x
          · exact Or.inr (Or.inr (Or.inr ⟨by rw [e]; exact d1, x⟩))
          · exact Or.inl x
    · exact Or.inl e
  rcases hy with e | ⟨ei, e, hd⟩
  · subst e
    exact old hs rfl rfl rfl rfl rfl
  · subst ei
    rcases snapReq_cases y with e2 | ⟨_, hn, e2⟩
    · rw [e2] at e; subst e
      exact old hs rfl rfl rfl rfl rfl
    · rw [e2] at e; subst e
      simp only [Option.some.injEq, Prod.mk.injEq] at hs
      exact ⟨hs.1, hs.2, Or.inr (Or.inr hd)⟩

theorem getD_firstIsPending (m : Nat) (ws : List Waiter) (h : firstIsPending m ws = true) :
    (removeWaiterL m ws).1 = some .pending := by
  simpa [firstIsPending] using h

theorem tame_metaCancel (p : Pool) (m) : Tame p (p.metaCancel m) := by
  unfold metaCancel
  split
  · exact Tame.refl p
  · rename_i r hr
    split
    · exact Tame.refl p
    · split
      · rename_i hc
        simp only [Bool.and_eq_true, beq_iff_eq] at hc
        refine Tame.trans (q := (({ p with sem := { p.sem with waiters := cancelWaiterL m p.sem.waiters } } : Pool).modReq m snapReq))
          ?_ (tame_schedMeta _ _)
        refine (tame_cancelPoolWaiter p m).trans (tame_modReq_of _ m snapReq (fun x => (MSigLe.refl x).snap) ?_ snapReq_keeps)
        intro E hk
        refine hk.snapAt m (fun _ x => x) ?_
        intro i r' h'
        simp only [modReq] at h'
        obtain ⟨x, hx, rfl⟩ := getElem?_modify_some p.reqs m i snapReq r' h'
        refine ⟨x, x, hx, CSame.refl x, ?_⟩
        split
        · rename_i e; subst e
          refine Or.inr ⟨rfl, rfl, Or.inr (Or.inl ⟨?_, ?_⟩)⟩
          · rw [hr] at hx; cases hx; exact hc.1
          · exact ownCancelled_of_pending m _ (getD_firstIsPending m _ hc.2)
        · exact Or.inl rfl
      · split
        · rename_i hc
          simp only [Bool.and_eq_true, beq_iff_eq] at hc
          have hms : ∀ x : Req, MSigLe { x with mapSem := { x.mapSem with waiters := cancelWaiterL m x.mapSem.waiters } } x := by
            intro x
            refine ⟨rfl, grantsL_cancelWaiterL m _, rfl, Nat.le_refl _, fun h => h, rfl, Or.inl rfl, fun h => h, ?_, fun _ => rfl, fun _ => Nat.le_refl _⟩
            intro h v b c d w hw hp
            have hg := grantsL_cancelWaiterL m x.mapSem.waiters
            simp only [cancelWaiterL, List.mem_map] at hw
            obtain ⟨w0, hw0, rfl⟩ := hw
            have := h v b c (by rw [← hg]; exact d) w0 hw0
            split at hp
            · cases hp
            · exact this hp
          refine (tame_modReq_of p m _ (fun x => (hms x).snap) ?_ (fun x s h => snapReq_keeps _ s h)).trans (tame_schedMeta _ _)
          intro E hk
          refine hk.snapAt m (fun _ x => x) ?_
          intro i r' h'
          simp only [modReq] at h'
          obtain ⟨x, hx, rfl⟩ := getElem?_modify_some p.reqs m i _ r' h'
          refine ⟨if m = i then { x with mapSem := { x.mapSem with waiters := cancelWaiterL m x.mapSem.waiters } } else x, x, hx, ?_, ?_⟩
          · split
            · exact ⟨rfl, rfl, rfl, Or.inl rfl, fun h => Or.inl h, fun i h => Or.inl (ownCancelled_cancel m i _ h)⟩
            · exact CSame.refl x
          · split
            · rename_i e; subst e
              rw [hr] at hx; cases hx
              exact Or.inr ⟨rfl, rfl, Or.inr (Or.inr ⟨hc.1, ownCancelled_of_pending m _ (getD_firstIsPending m _ hc.2)⟩)⟩
            · exact Or.inl rfl
        · refine tame_modReq_of p m _ (fun x => MSigLe.snap ⟨rfl, rfl, rfl, Nat.le_refl _, fun h => h, rfl, Or.inl rfl, fun h => h, fun h => h, fun _ => rfl, fun _ => Nat.le_refl _⟩) ?_
            (fun x s h => snapReq_keeps _ s h)
          intro E hk
          refine hk.snapAt m (fun _ x => x) ?_
          intro i r' h'
          simp only [modReq] at h'
          obtain ⟨x, hx, rfl⟩ := getElem?_modify_some p.reqs m i _ r' h'
          refine ⟨if m = i then { x with mustCancel := true } else x, x, hx, ?_, ?_⟩
          · split
            · exact ⟨rfl, rfl, rfl, Or.inl rfl, fun _ => Or.inl rfl, fun i h => Or.inl h⟩
            · exact CSame.refl x
          · split
            · rename_i e; subst e
              exact Or.inr ⟨rfl, rfl, Or.inl rfl⟩
            · exact Or.inl rfl

end Pool
end Taskpool
