import Taskpool.Model.World
/-! Slot conservation and the phase invariant: framework ("tame" = slot-neutral and phase-safe pieces). -/
namespace Taskpool

def heldL (ts : List PTask) : Nat := ts.countP (fun t => !t.released)
def grantsL (ws : List Waiter) : Nat := ws.countP (fun w => w.st = .granted)

/-- phases in which the pool slot must still be held -/
def NYR (ph : Phase) : Bool := ph == .created || ph == .inWorker || ph == .inCancelCb

def SlotOK (cap : Cap) (p : Pool) : Prop :=
  match cap with
  | .fin n => ∃ v, p.sem.value = .fin v ∧ v + heldL p.tasks + grantsL p.sem.waiters = n
  | .inf => p.sem.value = .inf ∧ p.sem.waiters = []

/-- the part of a task record the invariants talk about (everything else — scheduling flags, the awaited future,
`must_cancel`, pending exception, gather slots — is "soft") -/
structure SoftP where
  phase : Phase
  released : Bool
  nCC : Nat
  nEC : Nat
  wasCancelled : Bool
  endCb : CbSpec
  cancelCb : CbSpec
  nSaw : Nat
deriving DecidableEq

def _root_.Taskpool.PTask.soft (k : PTask) : SoftP :=
  ⟨k.phase, k.released, k.nCC, k.nEC, k.wasCancelled, k.endCb, k.cancelCb, k.nSaw⟩

/-- the life cycle of one task, as far as callbacks are concerned (`lost` = the pool's ghost bit, DESIGN §4.3) -/
structure OKs (lost : Bool) (s : SoftP) : Prop where
  e0 : s.released = false → s.nEC = 0
  e1 : s.nEC ≤ 1
  c1 : s.nCC ≤ 1
  c0 : (s.phase = .created ∨ s.phase = .inWorker) → s.nCC = 0 ∧ s.wasCancelled = false
  cw : s.nCC = 1 → s.wasCancelled = true
  cc : s.phase = .inCancelCb → s.nCC = 1 ∧ s.cancelCb = .coro
  ec : s.phase = .inEndCb → s.nEC = 1 ∧ s.endCb = .coro ∧ s.released = true
  ord : s.nEC = 1 → s.wasCancelled = true → s.cancelCb ≠ .none → s.nCC = 1
  cn : s.cancelCb = .none → s.nCC = 0
  en : s.endCb = .none → s.nEC = 0
  fin : s.phase = .finished → lost = false →
          s.released = true ∧ s.nEC = (if s.endCb = .none then 0 else 1) ∧
          (s.wasCancelled = true → s.nCC = (if s.cancelCb = .none then 0 else 1)) ∧
          (s.wasCancelled = false → s.nCC = 0)
  s1 : s.nSaw ≤ 1
  s0 : (s.phase = .created ∨ s.phase = .inWorker) → s.nSaw = 0

def LifeOK (p : Pool) : Prop := ∀ (t : Nat) (tk : PTask), p.tasks[t]? = some tk → OKs p.lost tk.soft

def PhaseOK (p : Pool) : Prop :=
  ∀ (t : Nat) (tk : PTask), p.tasks[t]? = some tk → NYR tk.phase = true → tk.released = false

/-- all task ids filed under some group, in registry order -/
def flat (gs : List (String × List Nat)) : List Nat := (gs.map (·.2)).flatten

@[simp] theorem flat_nil : flat [] = [] := rfl
@[simp] theorem flat_cons (x : String × List Nat) (gs) : flat (x :: gs) = x.2 ++ flat gs := rfl
@[simp] theorem flat_append (a b : List (String × List Nat)) : flat (a ++ b) = flat a ++ flat b := by
  simp [flat]

theorem flat_filter_sublist (gs : List (String × List Nat)) (f : String × List Nat → Bool) :
    (flat (gs.filter f)).Sublist (flat gs) := by
  induction gs with
  | nil => simp
  | cons x xs ih =>
    simp only [List.filter_cons]
    split
    · simp only [flat_cons]; exact List.Sublist.append (List.Sublist.refl _) ih
    · simp only [flat_cons]; exact ih.trans (List.sublist_append_right _ _)

/-- groups partition (some of) the tasks: no id is filed under two groups or twice, and every filed id is the id of
an existing task -/
structure GroupsOK (p : Pool) : Prop where
  nd : (flat p.groups).Nodup
  lt : ∀ i ∈ flat p.groups, i < p.tasks.length

/-- the three registries are sound (and, as long as nothing was `lost`, complete) with respect to the tasks -/
structure RegOK (p : Pool) : Prop where
  nd : (p.running ++ p.cancelledR ++ p.ended).Nodup
  run : ∀ t ∈ p.running, ∃ tk : PTask, p.tasks[t]? = some tk ∧ tk.released = false
  can : ∀ t ∈ p.cancelledR, ∃ tk : PTask, p.tasks[t]? = some tk ∧ tk.released = false ∧
          tk.phase ≠ .created ∧ tk.phase ≠ .inWorker
  fin : ∀ t ∈ p.ended, ∃ tk : PTask, p.tasks[t]? = some tk ∧ tk.released = true
  cpl : p.lost = false → ∀ (t : Nat) (tk : PTask), p.tasks[t]? = some tk → tk.released = false →
          t ∈ p.running ∨ t ∈ p.cancelledR

structure Good (cap : Cap) (L : Bool) (p : Pool) : Prop where
  slot : SlotOK cap p
  phase : PhaseOK p
  reg : RegOK p
  grp : GroupsOK p
  life : LifeOK p
  /-- the strict variant (`L = false`): no task has been lost and no flush / gather_and_close / until_closed call was ever made -/
  ll : L = false → p.lost = false
  al : L = false → p.apis = []

/-- `q` is `p` up to changes that neither move a slot nor put a task (back) into a slot-holding phase -/
structure Tame (p q : Pool) : Prop where
  val : q.sem.value = p.sem.value
  grants : grantsL q.sem.waiters = grantsL p.sem.waiters
  len : q.tasks.length = p.tasks.length
  run : q.running = p.running
  can : q.cancelledR = p.cancelledR
  fin : q.ended = p.ended
  lost : q.lost = p.lost
  wnil : p.sem.waiters = [] → q.sem.waiters = []
  gfl : (flat q.groups).Sublist (flat p.groups)
  soft : ∀ (t : Nat) (tk' : PTask), q.tasks[t]? = some tk' → ∃ tk : PTask, p.tasks[t]? = some tk ∧ tk'.soft = tk.soft
  apl : q.apis.length = p.apis.length

theorem Tame.pt {p q : Pool} (h : Tame p q) (t : Nat) (tk' : PTask) (ht : q.tasks[t]? = some tk') :
    ∃ tk : PTask, p.tasks[t]? = some tk ∧ tk'.released = tk.released ∧ (tk'.phase = tk.phase ∨ NYR tk'.phase = false) := by
  obtain ⟨tk, a, b⟩ := h.soft t tk' ht
  exact ⟨tk, a, congrArg SoftP.released b, Or.inl (congrArg SoftP.phase b)⟩

/-! ### list facts -/

theorem heldL_eq_of_pointwise (a b : List PTask) (hl : b.length = a.length)
    (h : ∀ (t : Nat) (tk' : PTask), b[t]? = some tk' → ∃ tk : PTask, a[t]? = some tk ∧ tk'.released = tk.released) :
    heldL b = heldL a := by
  induction a generalizing b with
  | nil => cases b <;> simp_all [heldL]
  | cons x xs ih =>
    cases b with
    | nil => simp at hl
    | cons y ys =>
      have h0 := h 0 y (by simp)
      simp at h0
      have := ih ys (by simpa using hl) (fun t tk' ht => by simpa using h (t+1) tk' (by simpa using ht))
      simp only [heldL, List.countP_cons] at this ⊢
      rw [this, h0]

theorem heldL_modify_same (ts : List PTask) (t : Nat) (f : PTask → PTask)
    (h : ∀ x, (f x).released = x.released) : heldL (ts.modify t f) = heldL ts := by
  induction ts generalizing t with
  | nil => simp [heldL]
  | cons a as ih =>
    cases t with
    | zero => simp [heldL, List.countP_cons, h]
    | succ n =>
      have := ih n
      simp only [heldL, List.modify_succ_cons, List.countP_cons] at this ⊢
      omega

theorem heldL_modify_release (ts : List PTask) (t : Nat) (tk : PTask) (f : PTask → PTask)
    (ht : ts[t]? = some tk) (h0 : tk.released = false) (h : ∀ x, (f x).released = true) :
    heldL (ts.modify t f) + 1 = heldL ts := by
  induction ts generalizing t with
  | nil => simp at ht
  | cons a as ih =>
    cases t with
    | zero =>
      simp at ht; subst ht
      simp [heldL, h, h0]
    | succ n =>
      simp at ht
      have := ih n ht
      simp only [heldL, List.modify_succ_cons, List.countP_cons] at this ⊢
      omega

theorem getElem?_modify_some {α} (l : List α) (t i : Nat) (f : α → α) (y : α) (h : (l.modify t f)[i]? = some y) :
    ∃ x, l[i]? = some x ∧ y = (if t = i then f x else x) := by
  rw [List.getElem?_modify] at h
  cases hx : l[i]? with
  | none => simp [hx] at h
  | some x =>
    simp [hx] at h
    exact ⟨x, rfl, by split <;> simp_all⟩

/-! ### Tame: algebra -/

theorem Tame.refl (p : Pool) : Tame p p :=
  ⟨rfl, rfl, rfl, rfl, rfl, rfl, rfl, fun h => h, List.Sublist.refl _, fun _ tk' h => ⟨tk', h, rfl⟩, rfl⟩

theorem Tame.trans {p q r : Pool} (h1 : Tame p q) (h2 : Tame q r) : Tame p r := by
  refine ⟨h2.val.trans h1.val, h2.grants.trans h1.grants, h2.len.trans h1.len, h2.run.trans h1.run,
    h2.can.trans h1.can, h2.fin.trans h1.fin, h2.lost.trans h1.lost, fun h => h2.wnil (h1.wnil h), h2.gfl.trans h1.gfl, ?_, h2.apl.trans h1.apl⟩
  intro t tk'' h
  obtain ⟨tk', hq, e2⟩ := h2.soft t tk'' h
  obtain ⟨tk, hp, e1⟩ := h1.soft t tk' hq
  exact ⟨tk, hp, e2.trans e1⟩

theorem Tame.held {p q : Pool} (h : Tame p q) : heldL q.tasks = heldL p.tasks :=
  heldL_eq_of_pointwise _ _ h.len (fun t tk' ht => by
    obtain ⟨tk, a, b, _⟩ := h.pt t tk' ht; exact ⟨tk, a, b⟩)

theorem Tame.slot {cap : Cap} {p q : Pool} (h : Tame p q) (hs : SlotOK cap p) : SlotOK cap q := by
  cases cap with
  | fin n =>
    obtain ⟨v, hv, hsum⟩ := hs
    exact ⟨v, by rw [h.val]; exact hv, by rw [h.held, h.grants]; exact hsum⟩
  | inf => exact ⟨h.val.trans hs.1, h.wnil hs.2⟩

theorem Tame.phase {p q : Pool} (h : Tame p q) (hp : PhaseOK p) : PhaseOK q := by
  intro t tk' ht hn
  obtain ⟨tk, a, b, c⟩ := h.pt t tk' ht
  rcases c with e | n
  · rw [b]; exact hp t tk a (by rw [← e]; exact hn)
  · rw [n] at hn; cases hn

/-- the task at index `t` in `q` and the task it came from in `p` -/
theorem Tame.back {p q : Pool} (h : Tame p q) (t : Nat) (tk : PTask) (hp : p.tasks[t]? = some tk) :
    ∃ tk', q.tasks[t]? = some tk' ∧ tk'.released = tk.released ∧ (tk'.phase = tk.phase ∨ NYR tk'.phase = false) := by
  have hlt : t < q.tasks.length := by
    rw [h.len]; exact (List.getElem?_eq_some_iff.mp hp).1
  refine ⟨q.tasks[t], by simp [hlt], ?_⟩
  obtain ⟨tk0, a, b, c⟩ := h.pt t q.tasks[t] (by simp [hlt])
  rw [hp] at a; cases a; exact ⟨b, c⟩

theorem Tame.reg {p q : Pool} (h : Tame p q) (hr : RegOK p) : RegOK q := by
  refine ⟨by rw [h.run, h.can, h.fin]; exact hr.nd, ?_, ?_, ?_, ?_⟩
  · intro t ht
    rw [h.run] at ht
    obtain ⟨tk, a, b⟩ := hr.run t ht
    obtain ⟨tk', a', b', _⟩ := h.back t tk a
    exact ⟨tk', a', b'.trans b⟩
  · intro t ht
    rw [h.can] at ht
    obtain ⟨tk, a, b, c, d⟩ := hr.can t ht
    obtain ⟨tk', a', b', c'⟩ := h.back t tk a
    refine ⟨tk', a', b'.trans b, ?_, ?_⟩
    · rcases c' with e | n
      · rw [e]; exact c
      · intro e; rw [e] at n; cases n
    · rcases c' with e | n
      · rw [e]; exact d
      · intro e; rw [e] at n; cases n
  · intro t ht
    rw [h.fin] at ht
    obtain ⟨tk, a, b⟩ := hr.fin t ht
    obtain ⟨tk', a', b', _⟩ := h.back t tk a
    exact ⟨tk', a', b'.trans b⟩
  · intro hl t tk' ht hrel
    rw [h.lost] at hl
    obtain ⟨tk, a, b, _⟩ := h.pt t tk' ht
    rw [h.run, h.can]
    exact hr.cpl hl t tk a (b ▸ hrel)

theorem GroupsOK.of_eq {p q : Pool} (hr : GroupsOK p) (hg : q.groups = p.groups) (hl : q.tasks.length = p.tasks.length) :
    GroupsOK q :=
  ⟨by rw [hg]; exact hr.nd, fun i hi => by rw [hl]; rw [hg] at hi; exact hr.lt i hi⟩

theorem Tame.grp {p q : Pool} (h : Tame p q) (hr : GroupsOK p) : GroupsOK q :=
  ⟨h.gfl.nodup hr.nd, fun i hi => by rw [h.len]; exact hr.lt i (h.gfl.subset hi)⟩

theorem LifeOK.of_eq {p q : Pool} (hl : LifeOK p) (ht : q.tasks = p.tasks) (h4 : q.lost = p.lost) : LifeOK q := by
  intro t tk h; rw [ht] at h; rw [h4]; exact hl t tk h

theorem LifeOK.lostMono {p q : Pool} (hl : LifeOK p) (ht : q.tasks = p.tasks) (hm : p.lost = true → q.lost = true) :
    LifeOK q := by
  intro t tk h
  rw [ht] at h
  have h1 := hl t tk h
  cases hq : q.lost with
  | true => exact ⟨h1.e0, h1.e1, h1.c1, h1.c0, h1.cw, h1.cc, h1.ec, h1.ord, h1.cn, h1.en, (fun _ hl' => by cases hl'), h1.s1, h1.s0⟩
  | false =>
    cases hp : p.lost with
    | true => rw [hm hp] at hq; cases hq
    | false => rw [hp] at h1; exact h1

theorem oks_new (lost : Bool) (ph : Phase) (ecb ccb : CbSpec) (hph : ph = .created) :
    OKs lost ⟨ph, false, 0, 0, false, ecb, ccb, 0⟩ := by
  subst hph
  exact ⟨fun _ => rfl, by simp, by simp, fun _ => ⟨rfl, rfl⟩, fun h => by simp at h, fun h => by simp at h,
    fun h => by simp at h, fun h => by simp at h, fun _ => rfl, fun _ => rfl, fun h => by simp at h, by simp,
    fun _ => rfl⟩

theorem Tame.life {p q : Pool} (h : Tame p q) (hl : LifeOK p) : LifeOK q := by
  intro t tk' ht
  obtain ⟨tk, a, b⟩ := h.soft t tk' ht
  rw [b, h.lost]; exact hl t tk a

/-- the two extra clauses of the strict variant, as a bundle -/
def Strict (L : Bool) (p : Pool) : Prop := (L = false → p.lost = false) ∧ (L = false → p.apis = [])

theorem Good.strict {cap : Cap} {L : Bool} {p : Pool} (hg : Good cap L p) : Strict L p := ⟨hg.ll, hg.al⟩

theorem Strict.of_eq {L : Bool} {p q : Pool} (h : Strict L p) (h1 : q.lost = p.lost) (h2 : q.apis = p.apis) : Strict L q :=
  ⟨fun hl => by rw [h1]; exact h.1 hl, fun hl => by rw [h2]; exact h.2 hl⟩

theorem Tame.good {cap : Cap} {L : Bool} {p q : Pool} (h : Tame p q) (hg : Good cap L p) : Good cap L q :=
  ⟨h.slot hg.slot, h.phase hg.phase, h.reg hg.reg, h.grp hg.grp, h.life hg.life,
    fun hl => by rw [h.lost]; exact hg.ll hl,
    fun hl => List.eq_nil_of_length_eq_zero (by rw [h.apl, hg.al hl]; rfl)⟩

/-- released flag of a task is preserved along a tame change -/
theorem Tame.released {p q : Pool} (h : Tame p q) (t : Nat) (tk : PTask) (hp : p.tasks[t]? = some tk) :
    ∃ tk', q.tasks[t]? = some tk' ∧ tk'.released = tk.released := by
  have hlt : t < q.tasks.length := by
    rw [h.len]; exact (List.getElem?_eq_some_iff.mp hp).1
  refine ⟨q.tasks[t], by simp [hlt], ?_⟩
  obtain ⟨tk0, a, b, _⟩ := h.pt t q.tasks[t] (by simp [hlt])
  rw [hp] at a; cases a; exact b

theorem tame_of_eq (p q : Pool) (hs : q.sem = p.sem) (ht : q.tasks = p.tasks)
    (h1 : q.running = p.running := by rfl) (h2 : q.cancelledR = p.cancelledR := by rfl)
    (h3 : q.ended = p.ended := by rfl) (h4 : q.lost = p.lost := by rfl)
    (h5 : (flat q.groups).Sublist (flat p.groups) := by exact List.Sublist.refl _)
    (h6 : q.apis.length = p.apis.length := by rfl) : Tame p q := by
  refine ⟨by rw [hs], by rw [hs], by rw [ht], h1, h2, h3, h4, by rw [hs]; exact fun h => h, h5, ?_, h6⟩
  intro t tk' h; rw [ht] at h; exact ⟨tk', h, rfl⟩

namespace Pool

@[simp] theorem modReq_sem (p : Pool) (m f) : (p.modReq m f).sem = p.sem := rfl
@[simp] theorem modReq_tasks (p : Pool) (m f) : (p.modReq m f).tasks = p.tasks := rfl
@[simp] theorem modApi_sem (p : Pool) (m f) : (p.modApi m f).sem = p.sem := rfl
@[simp] theorem modApi_tasks (p : Pool) (m f) : (p.modApi m f).tasks = p.tasks := rfl
@[simp] theorem modGather_sem (p : Pool) (m f) : (p.modGather m f).sem = p.sem := rfl
@[simp] theorem modGather_tasks (p : Pool) (m f) : (p.modGather m f).tasks = p.tasks := rfl
@[simp] theorem emitRef_sem (p : Pool) (r) : (p.emitRef r).sem = p.sem := rfl
@[simp] theorem emitRef_tasks (p : Pool) (r) : (p.emitRef r).tasks = p.tasks := rfl
@[simp] theorem logEv_sem (p : Pool) (r) : (p.logEv r).sem = p.sem := rfl
@[simp] theorem logEv_tasks (p : Pool) (r) : (p.logEv r).tasks = p.tasks := rfl
@[simp] theorem modTask_sem (p : Pool) (m f) : (p.modTask m f).sem = p.sem := rfl
@[simp] theorem modTask_tasks (p : Pool) (m f) : (p.modTask m f).tasks = p.tasks.modify m f := rfl
@[simp] theorem schedMeta_sem (p : Pool) (m) : (p.schedMeta m).sem = p.sem := rfl
@[simp] theorem schedMeta_tasks (p : Pool) (m) : (p.schedMeta m).tasks = p.tasks := rfl
@[simp] theorem schedOpt_sem (p : Pool) (o) : (p.schedOpt o).sem = p.sem := by cases o <;> rfl
@[simp] theorem schedOpt_tasks (p : Pool) (o) : (p.schedOpt o).tasks = p.tasks := by cases o <;> rfl

/-- a task update that changes only soft fields -/
theorem tame_modTask (p : Pool) (t : Nat) (f : PTask → PTask)
    (hs : ∀ x, (f x).soft = x.soft := by intro x; rfl) : Tame p (p.modTask t f) := by
  refine ⟨rfl, rfl, by simp [modTask], rfl, rfl, rfl, rfl, fun h => h, List.Sublist.refl _, ?_, rfl⟩
  intro i tk' h
  obtain ⟨x, hx, rfl⟩ := getElem?_modify_some p.tasks t i f tk' h
  refine ⟨x, hx, ?_⟩
  split
  · exact hs x
  · rfl

theorem tame_modReq (p : Pool) (m f) : Tame p (p.modReq m f) := tame_of_eq _ _ rfl rfl
theorem tame_modApi (p : Pool) (m f) : Tame p (p.modApi m f) :=
  tame_of_eq _ _ rfl rfl rfl rfl rfl rfl (List.Sublist.refl _) (by simp [modApi])
theorem tame_modGather (p : Pool) (m f) : Tame p (p.modGather m f) := tame_of_eq _ _ rfl rfl
theorem tame_emitRef (p : Pool) (r) : Tame p (p.emitRef r) := tame_of_eq _ _ rfl rfl
theorem tame_logEv (p : Pool) (r) : Tame p (p.logEv r) := tame_of_eq _ _ rfl rfl

theorem tame_schedTask (p : Pool) (t) : Tame p (p.schedTask t) := by
  unfold schedTask
  exact Tame.trans (q := p.modTask t fun x => { x with sched := true })
    (tame_modTask p t _) (tame_emitRef _ _)
theorem tame_schedMeta (p : Pool) (m) : Tame p (p.schedMeta m) := (tame_modReq p m _).trans (tame_emitRef _ _)
theorem tame_schedApi (p : Pool) (a) : Tame p (p.schedApi a) := (tame_modApi p a _).trans (tame_emitRef _ _)
theorem tame_schedOpt (p : Pool) (o) : Tame p (p.schedOpt o) := by
  cases o
  · exact Tame.refl p
  · exact tame_schedMeta p _

theorem tame_foldl {α} (l : List α) (f : Pool → α → Pool) (h : ∀ p a, Tame p (f p a)) (p : Pool) :
    Tame p (l.foldl f p) := by
  induction l generalizing p with
  | nil => exact Tame.refl p
  | cons a as ih => exact (h p a).trans (ih (f p a))

theorem tame_emitChildren (p : Pool) (cbs) : Tame p (p.emitChildren cbs) :=
  tame_foldl cbs _ (fun p _ => tame_emitRef p _) p

theorem tame_releaseMap (p : Pool) (m) : Tame p (p.releaseMap m) := by
  unfold releaseMap
  split
  · exact Tame.refl p
  · exact (tame_modReq p m _).trans (tame_schedOpt _ _)

/-! ### asyncio cancel primitives -/

theorem tame_taskCancel (p : Pool) (t) : Tame p (p.taskCancel t) := by
  unfold taskCancel
  split
  · exact Tame.refl p
  · split
    · exact Tame.refl p
    · split
      · exact Tame.trans (q := p.modTask t fun k => { k with fut := .cancelled })
          (tame_modTask p t _) (tame_schedTask _ _)
      · exact tame_modTask p t _

theorem tame_cancelTask (p : Pool) (t) : Tame p (p.cancelTask t) := by
  unfold cancelTask
  split
  · exact Tame.refl p
  · split
    · exact tame_modTask p t _
    · exact tame_taskCancel p t

theorem grantsL_cancelWaiterL (m : Nat) (ws : List Waiter) : grantsL (cancelWaiterL m ws) = grantsL ws := by
  induction ws with
  | nil => rfl
  | cons w ws ih =>
    simp only [cancelWaiterL, List.map_cons, grantsL, List.countP_cons] at ih ⊢
    rw [ih]
    split <;> rename_i h
    · simp [h.2]
    · rfl

theorem tame_cancelPoolWaiter (p : Pool) (m : Nat) :
    Tame p ({ p with sem := { p.sem with waiters := cancelWaiterL m p.sem.waiters } } : Pool) :=
  ⟨rfl, grantsL_cancelWaiterL m _, rfl, rfl, rfl, rfl, rfl, fun h => by simp [h, cancelWaiterL], List.Sublist.refl _,
   fun _ tk' h => ⟨tk', h, rfl⟩, rfl⟩

theorem tame_metaCancel (p : Pool) (m) : Tame p (p.metaCancel m) := by
  unfold metaCancel
  split
  · exact Tame.refl p
  · split
    · exact Tame.refl p
    · split
      · exact (tame_cancelPoolWaiter p m).trans (tame_schedMeta _ _)
      · split
        · exact (tame_modReq p m _).trans (tame_schedMeta _ _)
        · exact tame_modReq p m _

end Pool
end Taskpool
