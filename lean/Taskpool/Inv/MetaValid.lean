import Taskpool.Model.World
import Taskpool.Inv.Lift
/-! `_meta_tasks_cancelled` only ever holds ids of existing requests: every entry of `metaCancelled` is a valid index
into `reqs`, in every pool of every reachable world.

`metaCancelled` is written in three places (`cancelGroupMetas` appends indices of requests, `flushAfter1` and
`gacAfter1` empty it) and `reqs` never shrinks.  This file walks every step function once: `MC p → MC (f p)`. -/
namespace Taskpool
namespace Pool

/-- the spawner ids in `_meta_tasks_cancelled` are ids of existing requests -/
def MC (p : Pool) : Prop := ∀ m ∈ p.metaCancelled, m < p.reqs.length

theorem mem_indicesWhere_lt (l : List Req) (f : Req → Bool) (m : Nat) (h : m ∈ indicesWhere l f) : m < l.length := by
  unfold indicesWhere at h
  simp only [List.mem_map, List.mem_filter] at h
  obtain ⟨⟨r, i⟩, ⟨hm, _⟩, rfl⟩ := h
  have := List.mem_zipIdx hm
  simp only [Nat.zero_add] at this
  exact this.2.1

theorem MC.of_eq {p q : Pool} (h : MC p) (hm : q.metaCancelled = p.metaCancelled) (hl : q.reqs.length = p.reqs.length) :
    MC q := by
  intro m hq
  rw [hl]
  rw [hm] at hq
  exact h m hq

/-- the requests may grow -/
theorem MC.of_le {p q : Pool} (h : MC p) (hm : q.metaCancelled = p.metaCancelled) (hl : p.reqs.length ≤ q.reqs.length) :
    MC q := by
  intro m hq
  rw [hm] at hq
  exact Nat.lt_of_lt_of_le (h m hq) hl

/-! ### the walking tactic: one `apply` per proved step lemma, matched on the head function -/

syntax "mc_step" : tactic
macro_rules | `(tactic| mc_step) => `(tactic| assumption)
macro "mc_walk" : tactic => `(tactic| repeat' mc_step)

/-! ### plumbing -/

theorem mc_modTask {p : Pool} (h : MC p) (t : Nat) (f : PTask → PTask) : MC (p.modTask t f) := h
theorem mc_modApi {p : Pool} (h : MC p) (a : Nat) (f : Api → Api) : MC (p.modApi a f) := h
theorem mc_modGather {p : Pool} (h : MC p) (g : Nat) (f : Gather → Gather) : MC (p.modGather g f) := h
theorem mc_emitRef {p : Pool} (h : MC p) (r : Ref) : MC (p.emitRef r) := h
theorem mc_logEv {p : Pool} (h : MC p) (e : Ev) : MC (p.logEv e) := h

theorem mc_modReq {p : Pool} (h : MC p) (m : Nat) (f : Req → Req) : MC (p.modReq m f) :=
  h.of_eq rfl (by simp only [modReq, List.length_modify])

macro_rules | `(tactic| mc_step) => `(tactic| with_reducible apply Pool.mc_modTask)
macro_rules | `(tactic| mc_step) => `(tactic| with_reducible apply Pool.mc_modApi)
macro_rules | `(tactic| mc_step) => `(tactic| with_reducible apply Pool.mc_modGather)
macro_rules | `(tactic| mc_step) => `(tactic| with_reducible apply Pool.mc_emitRef)
macro_rules | `(tactic| mc_step) => `(tactic| with_reducible apply Pool.mc_logEv)
macro_rules | `(tactic| mc_step) => `(tactic| with_reducible apply Pool.mc_modReq)

theorem mc_foldl {α} (f : Pool → α → Pool) (hf : ∀ p a, MC p → MC (f p a)) (l : List α) {p : Pool} (h : MC p) :
    MC (l.foldl f p) := by
  induction l generalizing p with
  | nil => exact h
  | cons a as ih => simp only [List.foldl_cons]; exact ih (hf p a h)

macro_rules | `(tactic| mc_step) => `(tactic| with_reducible refine Pool.mc_foldl _ (fun _ _ _ => ?_) _ ?_)

theorem mc_schedTask {p : Pool} (h : MC p) (t : Nat) : MC (p.schedTask t) := by unfold schedTask; mc_walk
macro_rules | `(tactic| mc_step) => `(tactic| with_reducible apply Pool.mc_schedTask)
theorem mc_schedMeta {p : Pool} (h : MC p) (m : Nat) : MC (p.schedMeta m) := by unfold schedMeta; mc_walk
macro_rules | `(tactic| mc_step) => `(tactic| with_reducible apply Pool.mc_schedMeta)
theorem mc_schedApi {p : Pool} (h : MC p) (a : Nat) : MC (p.schedApi a) := by unfold schedApi; mc_walk
macro_rules | `(tactic| mc_step) => `(tactic| with_reducible apply Pool.mc_schedApi)
theorem mc_schedOpt {p : Pool} (h : MC p) (o : Option Nat) : MC (p.schedOpt o) := by
  cases o <;> simp only [schedOpt] <;> mc_walk
macro_rules | `(tactic| mc_step) => `(tactic| with_reducible apply Pool.mc_schedOpt)

theorem mc_emitChildren {p : Pool} (h : MC p) (cbs : List (Nat × Nat)) : MC (p.emitChildren cbs) := by
  unfold emitChildren; mc_walk
macro_rules | `(tactic| mc_step) => `(tactic| with_reducible apply Pool.mc_emitChildren)

theorem mc_releasePool {p : Pool} (h : MC p) : MC p.releasePool := by
  unfold releasePool; simp only; mc_walk
macro_rules | `(tactic| mc_step) => `(tactic| with_reducible apply Pool.mc_releasePool)

theorem mc_releaseMap {p : Pool} (h : MC p) (m : Nat) : MC (p.releaseMap m) := by
  unfold releaseMap; split <;> mc_walk
macro_rules | `(tactic| mc_step) => `(tactic| with_reducible apply Pool.mc_releaseMap)

/-- unfold the lets, split every branch, walk -/
macro "mc_auto" : tactic => `(tactic| ((try simp only) <;> repeat' split) <;> mc_walk)

/-! ### asyncio `Task.cancel()` -/

theorem mc_taskCancel {p : Pool} (h : MC p) (t : Nat) : MC (p.taskCancel t) := by unfold taskCancel; mc_auto
macro_rules | `(tactic| mc_step) => `(tactic| with_reducible apply Pool.mc_taskCancel)
theorem mc_cancelTask {p : Pool} (h : MC p) (t : Nat) : MC (p.cancelTask t) := by unfold cancelTask; mc_auto
macro_rules | `(tactic| mc_step) => `(tactic| with_reducible apply Pool.mc_cancelTask)

theorem mc_metaCancel {p : Pool} (h : MC p) (m : Nat) : MC (p.metaCancel m) := by unfold metaCancel; mc_auto
macro_rules | `(tactic| mc_step) => `(tactic| with_reducible apply Pool.mc_metaCancel)

/-! ### synchronous API -/

theorem mc_register {p : Pool} (h : MC p) (r : Req) : MC (p.register r) := by
  unfold register
  simp only
  apply mc_emitRef
  refine h.of_le rfl ?_
  simp only [List.length_append]
  exact Nat.le_add_right _ _
macro_rules | `(tactic| mc_step) => `(tactic| with_reducible apply Pool.mc_register)

theorem mc_doApply {p : Pool} (h : MC p) (num group sp) : MC (p.doApply num group sp).1 := by unfold doApply; mc_auto
macro_rules | `(tactic| mc_step) => `(tactic| with_reducible apply Pool.mc_doApply)
theorem mc_doMap {p : Pool} (h : MC p) (stars items nc group sp) : MC (p.doMap stars items nc group sp).1 := by
  unfold doMap; mc_auto
macro_rules | `(tactic| mc_step) => `(tactic| with_reducible apply Pool.mc_doMap)
theorem mc_doStart {p : Pool} (h : MC p) (num) : MC (p.doStart num).1 := by unfold doStart; mc_auto
macro_rules | `(tactic| mc_step) => `(tactic| with_reducible apply Pool.mc_doStart)
theorem mc_doCancel {p : Pool} (h : MC p) (ids) : MC (p.doCancel ids).1 := by unfold doCancel; mc_auto
macro_rules | `(tactic| mc_step) => `(tactic| with_reducible apply Pool.mc_doCancel)
theorem mc_doStop {p : Pool} (h : MC p) (n) : MC (p.doStop n).1 := by unfold doStop; mc_auto
macro_rules | `(tactic| mc_step) => `(tactic| with_reducible apply Pool.mc_doStop)

theorem mc_popOrder {p : Pool} (h : MC p) : MC p.popOrder.1 := by unfold popOrder; mc_auto
macro_rules | `(tactic| mc_step) => `(tactic| with_reducible apply Pool.mc_popOrder)

theorem mc_cancelGroupMetas {p : Pool} (h : MC p) (g : String) : MC (p.cancelGroupMetas g) := by
  unfold cancelGroupMetas
  simp only
  have h1 : MC ((indicesWhere p.reqs fun r => r.inRunning && r.group == g).foldl (fun p m => p.metaCancel m) p) := by
    mc_walk
  have hl : ∀ (l : List Nat) (q : Pool), (l.foldl (fun p m => p.metaCancel m) q).reqs.length = q.reqs.length := by
    intro l
    induction l with
    | nil => intro q; rfl
    | cons a as ih =>
      intro q
      simp only [List.foldl_cons]
      rw [ih]
      unfold metaCancel
      repeat' split
      all_goals simp only [schedMeta, emitRef, modReq, List.length_modify]
  intro m hm
  simp only [List.mem_append, List.length_map] at hm ⊢
  rcases hm with hm | hm
  · exact h1 m hm
  · rw [hl]; exact mem_indicesWhere_lt _ _ _ hm
macro_rules | `(tactic| mc_step) => `(tactic| with_reducible apply Pool.mc_cancelGroupMetas)

theorem mc_cancelGroupBody {p : Pool} (h : MC p) (g ids order) (q : Pool) (hq : p.cancelGroupBody g ids order = some q) :
    MC q := by
  unfold cancelGroupBody at hq
  simp only at hq
  split at hq
  · cases hq
  · simp only [Option.some.injEq] at hq
    subst hq
    mc_walk

theorem mc_doCancelGroup {p : Pool} (h : MC p) (g : String) : MC (p.doCancelGroup g).1 := by
  unfold doCancelGroup; split
  · exact h
  · simp only; split
    · exact h
    · rename_i p2 h2
      have h0 : MC p.popOrder.1 := mc_popOrder h
      exact mc_cancelGroupBody (p := { p.popOrder.1 with groups := p.popOrder.1.groups.filter (·.1 != g) }) h0 _ _ _ _ h2
macro_rules | `(tactic| mc_step) => `(tactic| with_reducible apply Pool.mc_doCancelGroup)

theorem mc_cancelAllLoop (gs : List (String × List Nat)) (order : List Nat) {p : Pool} (h : MC p) (q : Pool)
    (hq : cancelAllLoop gs order p = some q) : MC q := by
  induction gs generalizing p with
  | nil => simp only [cancelAllLoop, Option.some.injEq] at hq; subst hq; exact h
  | cons x xs ih =>
    obtain ⟨g, ids⟩ := x
    simp only [cancelAllLoop] at hq
    split at hq
    · cases hq
    · rename_i p1 h1
      exact ih (mc_cancelGroupBody h _ _ _ _ h1) hq

theorem mc_doCancelAll {p : Pool} (h : MC p) : MC p.doCancelAll.1 := by
  unfold doCancelAll; simp only; split
  · exact h
  · rename_i p2 h2
    have h0 : MC p.popOrder.1 := mc_popOrder h
    exact mc_cancelAllLoop _ _ (p := { p.popOrder.1 with groups := [] }) h0 _ h2
macro_rules | `(tactic| mc_step) => `(tactic| with_reducible apply Pool.mc_doCancelAll)

theorem mc_doSetSize {p : Pool} (h : MC p) (v : Int) : MC (p.doSetSize v).1 := by unfold doSetSize; mc_auto
macro_rules | `(tactic| mc_step) => `(tactic| with_reducible apply Pool.mc_doSetSize)

theorem mc_doHook {p : Pool} (h : MC p) (ctx : Nat) (o : HookOp) : MC (p.doHook ctx o).1 := by
  cases o <;> simp only [doHook] <;> mc_auto
macro_rules | `(tactic| mc_step) => `(tactic| with_reducible apply Pool.mc_doHook)

theorem mc_runHooks {p : Pool} (h : MC p) (ctx : Nat) (hs : List HookOp) : MC (p.runHooks ctx hs) := by
  unfold runHooks; mc_auto
macro_rules | `(tactic| mc_step) => `(tactic| with_reducible apply Pool.mc_runHooks)

/-! ### the wrapper of a pool task -/

theorem mc_completeTask {p : Pool} (h : MC p) (t : Nat) (o : Outcome) : MC (p.completeTask t o) := by
  unfold completeTask; split <;> mc_walk
macro_rules | `(tactic| mc_step) => `(tactic| with_reducible apply Pool.mc_completeTask)
theorem mc_finishTask {p : Pool} (h : MC p) (t : Nat) : MC (p.finishTask t) := by unfold finishTask; split <;> mc_walk
macro_rules | `(tactic| mc_step) => `(tactic| with_reducible apply Pool.mc_finishTask)
theorem mc_suspendTask {p : Pool} (h : MC p) (t : Nat) (ph : Phase) : MC (p.suspendTask t ph) := by
  unfold suspendTask; mc_auto
macro_rules | `(tactic| mc_step) => `(tactic| with_reducible apply Pool.mc_suspendTask)
theorem mc_cbBegin {p : Pool} (h : MC p) (t : Nat) (tk : PTask) (isEnd : Bool) : MC (p.cbBegin t tk isEnd) := by
  unfold cbBegin; simp only; mc_walk
macro_rules | `(tactic| mc_step) => `(tactic| with_reducible apply Pool.mc_cbBegin)
theorem mc_runCb {p : Pool} (h : MC p) (t : Nat) (tk : PTask) (isEnd : Bool) : MC (p.runCb t tk isEnd).1 := by
  unfold runCb; split <;> simp only <;> mc_walk
macro_rules | `(tactic| mc_step) => `(tactic| with_reducible apply Pool.mc_runCb)

theorem mc_moveToEnded {p : Pool} (h : MC p) (t : Nat) (q : Pool) (hq : p.moveToEnded t = some q) : MC q := by
  unfold moveToEnded at hq
  split at hq
  · simp only [Option.some.injEq] at hq; subst hq; exact h
  · split at hq
    · simp only [Option.some.injEq] at hq; subst hq; exact h
    · cases hq

theorem mc_releaseMapSlot {p : Pool} (h : MC p) (t : Nat) (tk : PTask) : MC (p.releaseMapSlot t tk) := by
  unfold releaseMapSlot; mc_auto
macro_rules | `(tactic| mc_step) => `(tactic| with_reducible apply Pool.mc_releaseMapSlot)
theorem mc_endCallback {p : Pool} (h : MC p) (t : Nat) (tk : PTask) : MC (p.endCallback t tk) := by
  unfold endCallback; mc_auto
macro_rules | `(tactic| mc_step) => `(tactic| with_reducible apply Pool.mc_endCallback)
theorem mc_endingTail {p : Pool} (h : MC p) (t : Nat) (tk : PTask) : MC (p.endingTail t tk) := by
  unfold endingTail; mc_auto
macro_rules | `(tactic| mc_step) => `(tactic| with_reducible apply Pool.mc_endingTail)
theorem mc_keyErrorFinish {p : Pool} (h : MC p) (t : Nat) : MC (p.keyErrorFinish t) := by
  unfold keyErrorFinish; mc_auto
macro_rules | `(tactic| mc_step) => `(tactic| with_reducible apply Pool.mc_keyErrorFinish)
theorem mc_taskEnding {p : Pool} (h : MC p) (t : Nat) : MC (p.taskEnding t) := by
  unfold taskEnding; split
  · exact h
  · split
    · mc_walk
    · rename_i p1 h1
      have := mc_moveToEnded h t p1 h1
      mc_walk
macro_rules | `(tactic| mc_step) => `(tactic| with_reducible apply Pool.mc_taskEnding)
theorem mc_cancelCallback {p : Pool} (h : MC p) (t : Nat) (tk : PTask) : MC (p.cancelCallback t tk) := by
  unfold cancelCallback; mc_auto
macro_rules | `(tactic| mc_step) => `(tactic| with_reducible apply Pool.mc_cancelCallback)
theorem mc_taskCancellation {p : Pool} (h : MC p) (t : Nat) (tk : PTask) : MC (p.taskCancellation t tk) := by
  unfold taskCancellation; mc_auto
macro_rules | `(tactic| mc_step) => `(tactic| with_reducible apply Pool.mc_taskCancellation)
theorem mc_afterWorker {p : Pool} (h : MC p) (t : Nat) (e : Option Err) : MC (p.afterWorker t e) := by
  unfold afterWorker; mc_auto
macro_rules | `(tactic| mc_step) => `(tactic| with_reducible apply Pool.mc_afterWorker)
theorem mc_stepCreated {p : Pool} (h : MC p) (t : Nat) (tk : PTask) : MC (p.stepCreated t tk) := by
  unfold stepCreated; mc_auto
macro_rules | `(tactic| mc_step) => `(tactic| with_reducible apply Pool.mc_stepCreated)
theorem mc_workerCancelled {p : Pool} (h : MC p) (t : Nat) (tk : PTask) : MC (p.workerCancelled t tk) := by
  unfold workerCancelled; mc_auto
macro_rules | `(tactic| mc_step) => `(tactic| with_reducible apply Pool.mc_workerCancelled)
theorem mc_workerNext {p : Pool} (h : MC p) (t : Nat) (tk : PTask) : MC (p.workerNext t tk) := by
  unfold workerNext; mc_auto
macro_rules | `(tactic| mc_step) => `(tactic| with_reducible apply Pool.mc_workerNext)
theorem mc_stepInWorker {p : Pool} (h : MC p) (t : Nat) (tk : PTask) : MC (p.stepInWorker t tk) := by
  unfold stepInWorker; mc_auto
macro_rules | `(tactic| mc_step) => `(tactic| with_reducible apply Pool.mc_stepInWorker)
theorem mc_stepInCancelCb {p : Pool} (h : MC p) (t : Nat) (tk : PTask) : MC (p.stepInCancelCb t tk) := by
  unfold stepInCancelCb; mc_auto
macro_rules | `(tactic| mc_step) => `(tactic| with_reducible apply Pool.mc_stepInCancelCb)
theorem mc_stepInEndCb {p : Pool} (h : MC p) (t : Nat) (tk : PTask) : MC (p.stepInEndCb t tk) := by
  unfold stepInEndCb; mc_auto
macro_rules | `(tactic| mc_step) => `(tactic| with_reducible apply Pool.mc_stepInEndCb)
theorem mc_stepTask {p : Pool} (h : MC p) (t : Nat) : MC (p.stepTask t) := by
  unfold stepTask; mc_auto
macro_rules | `(tactic| mc_step) => `(tactic| with_reducible apply Pool.mc_stepTask)

/-! ### spawners -/

theorem mc_finishMeta {p : Pool} (h : MC p) (m : Nat) (o : Outcome) : MC (p.finishMeta m o) := by
  unfold finishMeta; split <;> (try simp only) <;> mc_walk
macro_rules | `(tactic| mc_step) => `(tactic| with_reducible apply Pool.mc_finishMeta)

theorem mc_createTask {p : Pool} (h : MC p) (m : Nat) (isMap : Bool) : MC (p.createTask m isMap) := by
  unfold createTask; simp only; mc_walk
macro_rules | `(tactic| mc_step) => `(tactic| with_reducible apply Pool.mc_createTask)
theorem mc_takeSlotAndCreate {p : Pool} (h : MC p) (m : Nat) (isMap : Bool) : MC (p.takeSlotAndCreate m isMap) := by
  unfold takeSlotAndCreate; mc_auto
macro_rules | `(tactic| mc_step) => `(tactic| with_reducible apply Pool.mc_takeSlotAndCreate)
theorem mc_waitRoom {p : Pool} (h : MC p) (m : Nat) : MC (p.waitRoom m) := by unfold waitRoom; mc_auto
macro_rules | `(tactic| mc_step) => `(tactic| with_reducible apply Pool.mc_waitRoom)
theorem mc_waitMapSem {p : Pool} (h : MC p) (m : Nat) : MC (p.waitMapSem m) := by unfold waitMapSem; mc_auto
macro_rules | `(tactic| mc_step) => `(tactic| with_reducible apply Pool.mc_waitMapSem)

theorem mc_applyLoop (m n : Nat) {p : Pool} (h : MC p) : MC (applyLoop m n p) := by
  induction n generalizing p with
  | zero => simp only [applyLoop]; mc_walk
  | succ n ih =>
    simp only [applyLoop]
    repeat' split
    all_goals repeat' (first | mc_step | with_reducible apply ih)
macro_rules | `(tactic| mc_step) => `(tactic| with_reducible apply Pool.mc_applyLoop)

theorem mc_mapStartTask {p : Pool} (h : MC p) (m : Nat) : MC (p.mapStartTask m).1 := by unfold mapStartTask; mc_auto
macro_rules | `(tactic| mc_step) => `(tactic| with_reducible apply Pool.mc_mapStartTask)
theorem mc_pullItem {p : Pool} (h : MC p) (m : Nat) (rest : List Item) : MC (p.pullItem m rest) := by
  unfold pullItem; mc_auto
macro_rules | `(tactic| mc_step) => `(tactic| with_reducible apply Pool.mc_pullItem)
theorem mc_takeMapSlot {p : Pool} (h : MC p) (m : Nat) : MC (p.takeMapSlot m) := by unfold takeMapSlot; mc_auto
macro_rules | `(tactic| mc_step) => `(tactic| with_reducible apply Pool.mc_takeMapSlot)

theorem mc_mapLoop (m : Nat) (items : List Item) {p : Pool} (h : MC p) : MC (mapLoop m items p) := by
  induction items generalizing p with
  | nil => simp only [mapLoop]; mc_walk
  | cons it rest ih =>
    simp only [mapLoop]
    repeat' split
    all_goals repeat' (first | mc_step | with_reducible apply ih)
macro_rules | `(tactic| mc_step) => `(tactic| with_reducible apply Pool.mc_mapLoop)

theorem mc_continueSpawner {p : Pool} (h : MC p) (m : Nat) : MC (p.continueSpawner m) := by
  unfold continueSpawner; mc_auto
macro_rules | `(tactic| mc_step) => `(tactic| with_reducible apply Pool.mc_continueSpawner)
theorem mc_stepMetaNotStarted {p : Pool} (h : MC p) (m : Nat) (r : Req) : MC (p.stepMetaNotStarted m r) := by
  unfold stepMetaNotStarted; mc_auto
macro_rules | `(tactic| mc_step) => `(tactic| with_reducible apply Pool.mc_stepMetaNotStarted)
theorem mc_roomWaitCancelled {p : Pool} (h : MC p) (m : Nat) (r : Req) (st : Option WaitSt) :
    MC (p.roomWaitCancelled m r st) := by
  unfold roomWaitCancelled; mc_auto
macro_rules | `(tactic| mc_step) => `(tactic| with_reducible apply Pool.mc_roomWaitCancelled)
theorem mc_roomGranted {p : Pool} (h : MC p) (m : Nat) (r : Req) : MC (p.roomGranted m r) := by
  unfold roomGranted
  have h0 := mc_modReq h m (fun x => { x with frame := .running })
  mc_auto
macro_rules | `(tactic| mc_step) => `(tactic| with_reducible apply Pool.mc_roomGranted)
theorem mc_wakeWaitRoomCore {p : Pool} (h : MC p) (m : Nat) (r : Req) : MC (p.wakeWaitRoomCore m r) := by
  unfold wakeWaitRoomCore; mc_auto
macro_rules | `(tactic| mc_step) => `(tactic| with_reducible apply Pool.mc_wakeWaitRoomCore)
theorem mc_wakeWaitRoom {p : Pool} (h : MC p) (m : Nat) (r : Req) : MC (p.wakeWaitRoom m r) := by
  unfold wakeWaitRoom; mc_auto
macro_rules | `(tactic| mc_step) => `(tactic| with_reducible apply Pool.mc_wakeWaitRoom)
theorem mc_mapSemGranted {p : Pool} (h : MC p) (m : Nat) (r : Req) : MC (p.mapSemGranted m r) := by
  unfold mapSemGranted; mc_auto
macro_rules | `(tactic| mc_step) => `(tactic| with_reducible apply Pool.mc_mapSemGranted)
theorem mc_wakeWaitMapSemCore {p : Pool} (h : MC p) (m : Nat) (r : Req) : MC (p.wakeWaitMapSemCore m r) := by
  unfold wakeWaitMapSemCore; mc_auto
macro_rules | `(tactic| mc_step) => `(tactic| with_reducible apply Pool.mc_wakeWaitMapSemCore)
theorem mc_wakeWaitMapSem {p : Pool} (h : MC p) (m : Nat) (r : Req) : MC (p.wakeWaitMapSem m r) := by
  unfold wakeWaitMapSem; mc_auto
macro_rules | `(tactic| mc_step) => `(tactic| with_reducible apply Pool.mc_wakeWaitMapSem)
theorem mc_stepMeta {p : Pool} (h : MC p) (m : Nat) : MC (p.stepMeta m) := by
  unfold stepMeta; mc_auto
macro_rules | `(tactic| mc_step) => `(tactic| with_reducible apply Pool.mc_stepMeta)

/-! ### gather -/

theorem mc_gatherChildDone {p : Pool} (h : MC p) (g i : Nat) (via : Bool) : MC (p.gatherChildDone g i via) := by
  unfold gatherChildDone; mc_auto
macro_rules | `(tactic| mc_step) => `(tactic| with_reducible apply Pool.mc_gatherChildDone)
theorem mc_registerChild {p : Pool} (h : MC p) (c : Child) (g i : Nat) : MC (p.registerChild c g i) := by
  unfold registerChild; mc_auto
macro_rules | `(tactic| mc_step) => `(tactic| with_reducible apply Pool.mc_registerChild)

theorem mc_gatherScan (g : Nat) (cs : List Child) (i : Nat) {p : Pool} (h : MC p) : MC (gatherScan g cs i p) := by
  induction cs generalizing i p with
  | nil => exact h
  | cons c cs ih =>
    simp only [gatherScan]
    apply ih
    split <;> mc_walk
macro_rules | `(tactic| mc_step) => `(tactic| with_reducible apply Pool.mc_gatherScan)

theorem MC.gatherStart {p : Pool} (h : MC p) (cs : List Child) (re : Bool) (owner n : Nat) :
    MC (p.gatherStart cs re owner n).1 := by
  unfold Pool.gatherStart; mc_auto
macro_rules | `(tactic| mc_step) => `(tactic| with_reducible apply Pool.MC.gatherStart)

/-! ### flush / gather_and_close / until_closed -/

theorem mc_finishApi {p : Pool} (h : MC p) (a : Nat) (o : Outcome) : MC (p.finishApi a o) := by
  unfold finishApi; mc_auto
macro_rules | `(tactic| mc_step) => `(tactic| with_reducible apply Pool.mc_finishApi)
theorem mc_flushAfter2 {p : Pool} (h : MC p) (a : Nat) (o : Outcome) : MC (p.flushAfter2 a o) := by
  unfold flushAfter2; mc_auto
macro_rules | `(tactic| mc_step) => `(tactic| with_reducible apply Pool.mc_flushAfter2)

/-- emptying `metaCancelled`, whatever happens to the requests -/
theorem mc_nil (q : Pool) (hq : q.metaCancelled = []) : MC q := by
  intro m hm; rw [hq] at hm; cases hm

theorem mc_flushAfter1 {p : Pool} (h : MC p) (a : Nat) (re : Bool) (o : Outcome) : MC (p.flushAfter1 a re o) := by
  unfold flushAfter1
  have h0 : MC ({ p with metaCancelled := [], reqs := p.reqs.map fun (r : Req) => { r with inCancelled := false } } : Pool) :=
    mc_nil _ rfl
  mc_auto
macro_rules | `(tactic| mc_step) => `(tactic| with_reducible apply Pool.mc_flushAfter1)

theorem mc_flushStage1 {p : Pool} (h : MC p) (a : Nat) (re : Bool) : MC (p.flushStage1 a re) := by
  unfold flushStage1
  have h0 : MC ({ p with reqs := p.reqs.map fun (r : Req) =>
      if r.inRunning && r.outcome.isSome then { r with inRunning := false } else r } : Pool) :=
    h.of_eq rfl (List.length_map _)
  simp only
  split <;> mc_walk
macro_rules | `(tactic| mc_step) => `(tactic| with_reducible apply Pool.mc_flushStage1)

theorem mc_gacAfter2 {p : Pool} (h : MC p) (a : Nat) (o : Outcome) : MC (p.gacAfter2 a o) := by
  unfold gacAfter2; mc_auto
macro_rules | `(tactic| mc_step) => `(tactic| with_reducible apply Pool.mc_gacAfter2)

theorem mc_gacAfter1 {p : Pool} (h : MC p) (a : Nat) (re : Bool) (g : Nat) : MC (p.gacAfter1 a re g) := by
  unfold gacAfter1
  have h0 : MC ({ p with metaCancelled := [], reqs := p.reqs.map fun (r : Req) =>
      { r with inCancelled := false, inRunning := false } } : Pool) := mc_nil _ rfl
  mc_auto
macro_rules | `(tactic| mc_step) => `(tactic| with_reducible apply Pool.mc_gacAfter1)

theorem mc_gacStage1 {p : Pool} (h : MC p) (a : Nat) (re : Bool) : MC (p.gacStage1 a re) := by
  unfold gacStage1; mc_auto
macro_rules | `(tactic| mc_step) => `(tactic| with_reducible apply Pool.mc_gacStage1)

theorem mc_untilClosedStart {p : Pool} (h : MC p) (a : Nat) : MC (p.untilClosedStart a) := by
  unfold untilClosedStart; mc_auto
macro_rules | `(tactic| mc_step) => `(tactic| with_reducible apply Pool.mc_untilClosedStart)

theorem mc_stepApi {p : Pool} (h : MC p) (a : Nat) : MC (p.stepApi a) := by
  unfold stepApi; mc_auto
macro_rules | `(tactic| mc_step) => `(tactic| with_reducible apply Pool.mc_stepApi)

theorem MC.runRef {p : Pool} (h : MC p) (r : Ref) : MC (p.runRef r) := by
  cases r <;> simp only [Pool.runRef] <;> mc_walk

/-! ### external operations -/

theorem mc_addApi {p : Pool} (h : MC p) (k : ApiKind) : MC (p.addApi k) := by unfold addApi; mc_auto
macro_rules | `(tactic| mc_step) => `(tactic| with_reducible apply Pool.mc_addApi)
theorem mc_doGate {p : Pool} (h : MC p) (t : Nat) (o : FutSt) : MC (p.doGate t o).1 := by unfold doGate; mc_auto
macro_rules | `(tactic| mc_step) => `(tactic| with_reducible apply Pool.mc_doGate)

theorem MC.applyOp {p : Pool} (h : MC p) (op : Op) : MC (p.applyOp op).1 := by
  cases op <;> simp only [Pool.applyOp] <;> mc_walk

end Pool

/-! ### every pool of every reachable world -/

/-- every pool's `metaCancelled` is valid -/
def World.MCAll (w : World) : Prop := ∀ (n : Nat) (p : Pool), w.pools[n]? = some p → p.MC

theorem World.MCAll.init (base : Nat) : (World.init base).MCAll := by
  intro n p hp
  simp [World.init] at hp

theorem World.MCAll.step {w : World} (h : w.MCAll) (x : WOp) : (w.step x).1.MCAll := by
  cases x with
  | mkpool size simple name =>
    simp only [World.step, World.mkpool]
    split
    · exact h
    · split
      · exact h
      · intro n p hp
        simp only at hp
        rw [List.getElem?_append] at hp
        split at hp
        · exact h n p hp
        · cases hi : n - w.pools.length with
          | succ m => rw [hi] at hp; simp at hp
          | zero =>
            rw [hi] at hp
            simp only [List.getElem?_cons_zero, Option.some.injEq] at hp
            subst hp
            exact Pool.mc_nil _ rfl
  | on i orders op =>
    simp only [World.step]
    split
    · exact h
    · rename_i p hp
      intro n p' hp'
      rcases getElem?_set_some _ _ _ _ _ hp' with ⟨rfl, rfl⟩ | ⟨_, hold⟩
      · exact Pool.MC.applyOp (p := { p with orders := orders }) (h n p hp) op
      · exact h n p' hold
  | run k orders =>
    simp only [World.step]
    split
    · exact h
    · split
      · exact h
      · rename_i i r _ p hp
        intro n p' hp'
        rcases getElem?_set_some _ _ _ _ _ hp' with ⟨rfl, rfl⟩ | ⟨_, hold⟩
        · exact Pool.MC.runRef (p := { p with orders := orders }) (h n p hp) _
        · exact h n p' hold

theorem World.MCAll.drain {w : World} (h : w.MCAll) : w.drain.MCAll := by
  intro n p' hp'
  simp only [World.drain, List.getElem?_map] at hp'
  cases hq : w.pools[n]? with
  | none => simp [hq] at hp'
  | some p =>
    simp only [hq, Option.map_some, Option.some.injEq] at hp'
    subst hp'
    exact h n p hq

theorem World.MCAll.next {w : World} (h : w.MCAll) (x : WOp) : (w.next x).MCAll :=
  (h.step x).drain

theorem World.MCAll.run {w : World} (h : w.MCAll) (hs : History) : (w.run hs).MCAll := by
  induction hs generalizing w with
  | nil => exact h
  | cons x xs ih => exact ih (h.next x)

/-- **every reachable world**: the spawner ids in `_meta_tasks_cancelled` are ids of existing requests -/
theorem World.mcAll_run (base : Nat) (h : History) : ((World.init base).run h).MCAll :=
  (World.MCAll.init base).run h

#print axioms Taskpool.World.mcAll_run

end Taskpool
