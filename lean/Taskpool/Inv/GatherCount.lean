import Taskpool.Inv.GatherWorld
import Taskpool.Inv.SchedWorld
/-! **No callback slot of a gather is ever dropped** — every reachable world.  The counting clause of `PInv`
(`Inv/GatherInv.lean`) is an equality: every slot of every gather is, at every moment, either already counted, or
queued as a handle (ready queue or the pool's out-queue), or registered on a child that has not completed.  Hence, when
the loop is idle and every child of a gather has completed, the gather has completed. -/
namespace Taskpool

/-- every slot of every gather is accounted for, in every pool of every reachable world -/
theorem World.gather_count_eq (base : Nat) (h : History) (n : Nat) (p : Pool)
    (hp : ((World.init base).run h).pools[n]? = some p) (g : Nat) (G : Gather) (hG : p.gathers[g]? = some G) :
    G.nfinished + rsum G.children.length (fun i => Pool.W (((World.init base).run h).rdy n) p (g, i)) = G.children.length :=
  ((World.ginv_run base h).inv n p hp).cnt g G hG

theorem sum_map_zero {α} (l : List α) (f : α → Nat) (h : ∀ x ∈ l, f x = 0) : (l.map f).sum = 0 := by
  induction l with
  | nil => rfl
  | cons a as ih =>
    simp only [List.map_cons, List.sum_cons, h a (List.mem_cons_self ..), Nat.zero_add]
    exact ih (fun x hx => h x (List.mem_cons_of_mem _ hx))

namespace Pool

/-- a registration of slot `(g, i)` sits on the `i`-th child of gather `g` (tasks) -/
theorem PInv.own_task {R} {p : Pool} (h : PInv R p) (t : Nat) (k : PTask) (g i : Nat) (hk : p.tasks[t]? = some k)
    (hm : (g, i) ∈ k.doneCbs) : ∃ G : Gather, p.gathers[g]? = some G ∧ G.children[i]? = some (.task t) :=
  h.ownT t g i (by rw [dcb_eq p t k hk]; exact hm)

/-- a registration of slot `(g, i)` sits on the `i`-th child of gather `g` (spawners) -/
theorem PInv.own_spawner {R} {p : Pool} (h : PInv R p) (m : Nat) (r : Req) (g i : Nat) (hr : p.reqs[m]? = some r)
    (hm : (g, i) ∈ r.doneCbs) : ∃ G : Gather, p.gathers[g]? = some G ∧ G.children[i]? = some (.spawner m) :=
  h.ownS m g i (by rw [rcb_eq p m r hr]; exact hm)

/-- once every child of a gather has completed and the pool's out-queue is empty, no slot of that gather is
outstanding inside the pool: the registrations that count are those on children without an outcome, and a slot is
registered on its own child only -/
theorem PInv.pot_zero_of_done {R} {p : Pool} (h : PInv R p) (hem : p.emit = []) (g : Nat) (G : Gather)
    (hG : p.gathers[g]? = some G) (hall : ∀ c ∈ G.children, (p.childOutcome c).isSome = true) (i : Nat) :
    p.pot (g, i) = 0 := by
  have hT : ∀ k ∈ p.tasks, regOf (g, i) k.outcome k.doneCbs = 0 := by
    intro k hk
    obtain ⟨t, ht⟩ := List.mem_iff_getElem?.mp hk
    unfold regOf
    split
    · rename_i hnone
      apply List.count_eq_zero.mpr
      intro hm
      obtain ⟨G', hG', hc⟩ := h.own_task t k g i ht hm
      rw [hG] at hG'; cases hG'
      have hs := hall _ (List.mem_of_getElem? hc)
      simp only [childOutcome, ht] at hs
      cases hko : k.outcome with
      | none => rw [hko] at hs; cases hs
      | some o => rw [hko] at hnone; cases hnone
    · rfl
  have hS : ∀ r ∈ p.reqs, regOf (g, i) r.outcome r.doneCbs = 0 := by
    intro r hr
    obtain ⟨m, hm'⟩ := List.mem_iff_getElem?.mp hr
    unfold regOf
    split
    · rename_i hnone
      apply List.count_eq_zero.mpr
      intro hm
      obtain ⟨G', hG', hc⟩ := h.own_spawner m r g i hm' hm
      rw [hG] at hG'; cases hG'
      have hs := hall _ (List.mem_of_getElem? hc)
      simp only [childOutcome, hm'] at hs
      cases hko : r.outcome with
      | none => rw [hko] at hs; cases hs
      | some o => rw [hko] at hnone; cases hnone
    · rfl
  simp only [pot, hem, List.countP_nil, sum_map_zero _ _ hT, sum_map_zero _ _ hS]

end Pool

/-- if the loop's ready queue is empty and every child of a gather has completed, the gather has completed -/
theorem World.gather_done_when_idle (base : Nat) (h : History) (hidle : ((World.init base).run h).ready = [])
    (n : Nat) (p : Pool) (hp : ((World.init base).run h).pools[n]? = some p) (g : Nat) (G : Gather)
    (hG : p.gathers[g]? = some G) (hall : ∀ c ∈ G.children, (p.childOutcome c).isSome = true) :
    G.outer.isSome = true := by
  have hinv := (World.ginv_run base h).inv n p hp
  have hem := World.emit_nil_run base h n p hp
  have hcnt := World.gather_count_eq base h n p hp g G hG
  have hz : rsum G.children.length (fun i => Pool.W (((World.init base).run h).rdy n) p (g, i)) = 0 := by
    apply Pool.rsum_zero
    intro i _
    simp only [Pool.W, World.rdy, hidle, List.countP_nil, Nat.zero_add]
    exact hinv.pot_zero_of_done hem g G hG hall i
  exact hinv.fin g G hG (by omega)

#print axioms World.gather_count_eq
#print axioms World.gather_done_when_idle

end Taskpool
