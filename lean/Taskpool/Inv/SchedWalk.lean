import Taskpool.Inv.Sched
/-! **Whoever is flagged as scheduled has a handle — the walk.**  One lemma `sch_f : Sch p (p.f …)` per step function of
the pool machine (`Model/Pool.lean`, and the operations of `Model/World.lean`), in dependency order; at the end
`sch_runRef_self`, `sch_runRef`, `sch_applyOp`, which are what the rest of the development uses. -/
namespace Taskpool
namespace Pool

/-- a record update that leaves `sched` alone or clears it (the rewriting function is visible in the goal) -/
macro "sch_keep" : tactic => `(tactic| (intro k h; first | exact h | (simp at h) | (simpa using h)))

macro "sch_mt" : tactic => `(tactic| exact sch_modTask _ _ _ (by sch_keep))
macro "sch_mr" : tactic => `(tactic| exact sch_modReq _ _ _ (by sch_keep))
macro "sch_ma" : tactic => `(tactic| exact sch_modApi _ _ _ (by sch_keep))
macro "schMT" : term => `(sch_modTask _ _ _ (by sch_keep))
macro "schMR" : term => `(sch_modReq _ _ _ (by sch_keep))
macro "schMA" : term => `(sch_modApi _ _ _ (by sch_keep))
macro "sch_eq" : tactic => `(tactic| exact sch_of_eq rfl rfl rfl rfl)

theorem sch_emitChildren (p : Pool) (cbs : List (Nat × Nat)) : Sch p (p.emitChildren cbs) := by
  unfold emitChildren
  exact sch_foldl _ (fun q gi => sch_emitRef q _) _ _

theorem sch_releasePool (p : Pool) : Sch p p.releasePool := by
  unfold releasePool
  refine Sch.trans ?_ (sch_schedOpt _ _)
  sch_eq

theorem sch_releaseMap (p : Pool) (m : Nat) : Sch p (p.releaseMap m) := by
  unfold releaseMap
  split
  · exact Sch.refl p
  · refine Sch.trans ?_ (sch_schedOpt _ _)
    sch_mr

/-! ### asyncio `Task.cancel()` -/

theorem sch_taskCancel (p : Pool) (t : Nat) : Sch p (p.taskCancel t) := by
  unfold taskCancel
  split
  · exact Sch.refl p
  · split
    · exact Sch.refl p
    · split
      · refine Sch.trans ?_ (sch_schedTask _ _)
        sch_mt
      · sch_mt

theorem sch_cancelTask (p : Pool) (t : Nat) : Sch p (p.cancelTask t) := by
  unfold cancelTask
  split
  · exact Sch.refl p
  · split
    · sch_mt
    · exact sch_taskCancel p t

theorem snapReq_sched (x : Req) : (snapReq x).sched = x.sched := by
  unfold snapReq; split <;> rfl

theorem sch_metaCancel (p : Pool) (m : Nat) : Sch p (p.metaCancel m) := by
  unfold metaCancel
  split
  · exact Sch.refl p
  · split
    · exact Sch.refl p
    · split
      · refine Sch.trans ?_ (sch_schedMeta _ _)
        refine Sch.trans ?_ (sch_modReq _ _ _ (fun k h => by rw [snapReq_sched] at h; exact h))
        sch_eq
      · split
        · refine Sch.trans ?_ (sch_schedMeta _ _)
          exact sch_modReq _ _ _ (fun k h => by rw [snapReq_sched] at h; exact h)
        · exact sch_modReq _ _ _ (fun k h => by rw [snapReq_sched] at h; exact h)

/-! ### synchronous API -/

theorem sch_register (p : Pool) (r : Req) : Sch p (p.register r) := by
  unfold register
  simp only
  exact sch_append_req p _ r rfl rfl rfl rfl

theorem sch_ite_fst {c : Prop} [Decidable c] (a b : Pool × Res) (p : Pool) (ha : Sch p a.1) (hb : Sch p b.1) :
    Sch p (if c then a else b).1 := by split <;> assumption

theorem sch_doApply (p : Pool) (num : Int) (group : Option String) (sp : SpawnSpec) : Sch p (p.doApply num group sp).1 := by
  unfold doApply
  repeat' split
  all_goals first | exact Sch.refl p | exact sch_ite_fst _ _ p (Sch.refl p) (sch_register p _)

theorem sch_doMap (p : Pool) (stars : Nat) (items : List Item) (nc : Int) (group : Option String) (sp : SpawnSpec) :
    Sch p (p.doMap stars items nc group sp).1 := by
  unfold doMap
  repeat' split
  all_goals first | exact Sch.refl p | exact sch_ite_fst _ _ p (Sch.refl p) (sch_register p _)

theorem sch_doStart (p : Pool) (num : Int) : Sch p (p.doStart num).1 := by
  unfold doStart
  split
  · exact Sch.refl p
  · split
    · exact Sch.refl p
    · simp only
      refine Sch.trans ?_ (sch_register _ _)
      sch_eq

theorem sch_doCancel (p : Pool) (ids : List Int) : Sch p (p.doCancel ids).1 := by
  unfold doCancel
  split
  · exact Sch.refl p
  · exact sch_foldl _ (fun q id => sch_cancelTask q _) _ _

theorem sch_doStop (p : Pool) (n : Int) : Sch p (p.doStop n).1 := by
  unfold doStop
  split
  · exact Sch.refl p
  · exact sch_doCancel p _

theorem sch_popOrder (p : Pool) : Sch p p.popOrder.1 := by
  unfold popOrder
  split
  · exact Sch.refl p
  · sch_eq

theorem sch_cancelGroupMetas (p : Pool) (g : String) : Sch p (p.cancelGroupMetas g) := by
  unfold cancelGroupMetas
  simp only
  refine Sch.trans (sch_foldl (fun q m => q.metaCancel m) (fun q m => sch_metaCancel q m)
    (indicesWhere p.reqs fun r => r.inRunning && r.group == g) p) ?_
  refine sch_mapReqs _ _ (fun (r : Req) => if r.inRunning && r.group == g then { r with inRunning := false, inCancelled := true, everCancelled := true } else r)
    ?_ rfl rfl rfl rfl
  intro r; split <;> rfl

theorem sch_cancelGroupBody (p : Pool) (g : String) (ids order : List Nat) (q : Pool)
    (h : p.cancelGroupBody g ids order = some q) : Sch p q := by
  unfold cancelGroupBody at h
  simp only at h
  split at h
  · cases h
  · simp only [Option.some.injEq] at h
    subst h
    exact (sch_cancelGroupMetas p g).trans (sch_foldl _ (fun q t => sch_cancelTask q t) _ _)

theorem sch_doCancelGroup (p : Pool) (g : String) : Sch p (p.doCancelGroup g).1 := by
  unfold doCancelGroup
  split
  · exact Sch.refl p
  · simp only
    split
    · exact Sch.refl p
    · rename_i p2 h2
      refine ((sch_popOrder p).trans ?_).trans (sch_cancelGroupBody _ _ _ _ _ h2)
      sch_eq

theorem sch_cancelAllLoop (gs : List (String × List Nat)) (order : List Nat) (p q : Pool)
    (h : cancelAllLoop gs order p = some q) : Sch p q := by
  induction gs generalizing p with
  | nil => simp [cancelAllLoop] at h; subst h; exact Sch.refl p
  | cons x xs ih =>
    obtain ⟨g, ids⟩ := x
    simp only [cancelAllLoop] at h
    split at h
    · cases h
    · rename_i p1 h1
      exact (sch_cancelGroupBody _ _ _ _ _ h1).trans (ih _ h)

theorem sch_doCancelAll (p : Pool) : Sch p p.doCancelAll.1 := by
  unfold doCancelAll
  simp only
  split
  · exact Sch.refl p
  · rename_i p2 h2
    refine ((sch_popOrder p).trans ?_).trans (sch_cancelAllLoop _ _ _ _ h2)
    sch_eq

theorem sch_doSetSize (p : Pool) (v : Int) : Sch p (p.doSetSize v).1 := by
  unfold doSetSize
  split
  · exact Sch.refl p
  · sch_eq

theorem sch_doHook (p : Pool) (ctx : Nat) (h : HookOp) : Sch p (p.doHook ctx h).1 := by
  cases h <;> simp only [doHook]
  · exact sch_doCancel p _
  · exact sch_doCancelGroup p _
  · split
    · exact sch_doCancelGroup p _
    · exact Sch.refl p
  · exact sch_doCancelAll p
  · sch_eq
  · sch_eq
  · exact sch_doStop p _
  · split
    · exact Sch.refl p
    · exact sch_doApply p _ _ _

theorem sch_runHooks (p : Pool) (ctx : Nat) (hs : List HookOp) : Sch p (p.runHooks ctx hs) := by
  unfold runHooks
  exact sch_foldl _ (fun q h => (sch_doHook q ctx h).trans (sch_logEv _ _)) _ _

/-! ### the wrapper of a pool task -/

theorem sch_completeTask (p : Pool) (t : Nat) (o : Outcome) : Sch p (p.completeTask t o) := by
  unfold completeTask
  split
  · exact Sch.refl p
  · refine Sch.trans ?_ (sch_emitChildren _ _)
    sch_mt

theorem sch_finishTask (p : Pool) (t : Nat) : Sch p (p.finishTask t) := by
  unfold finishTask
  split
  · exact Sch.refl p
  · exact sch_completeTask p t _

theorem sch_suspendTask (p : Pool) (t : Nat) (ph : Phase) : Sch p (p.suspendTask t ph) := by
  unfold suspendTask
  split
  · exact Sch.refl p
  · split
    · refine Sch.trans ?_ (sch_schedTask _ _)
      sch_mt
    · sch_mt

theorem cbCount_sched (isEnd : Bool) (k : PTask) : (cbCount isEnd k).sched = k.sched := by
  unfold cbCount; split <;> rfl

theorem sch_cbBegin (p : Pool) (t : Nat) (tk : PTask) (isEnd : Bool) : Sch p (p.cbBegin t tk isEnd) := by
  unfold cbBegin
  simp only
  exact ((sch_modTask p t _ (fun k h => by rw [cbCount_sched] at h; exact h)).trans (sch_logEv _ _)).trans
    (sch_runHooks _ _ _)

theorem sch_runCb (p : Pool) (t : Nat) (tk : PTask) (isEnd : Bool) : Sch p (p.runCb t tk isEnd).1 := by
  unfold runCb
  split
  · exact Sch.refl p
  · exact (sch_cbBegin p t tk isEnd).trans (sch_logEv _ _)
  · exact ((sch_cbBegin p t tk isEnd).trans (sch_logEv _ _)).trans schMT
  · exact (sch_cbBegin p t tk isEnd).trans (sch_suspendTask _ t _)

theorem sch_moveToEnded (p : Pool) (t : Nat) (q : Pool) (h : p.moveToEnded t = some q) : Sch p q := by
  unfold moveToEnded at h
  split at h
  · simp only [Option.some.injEq] at h; subst h; sch_eq
  · split at h
    · simp only [Option.some.injEq] at h; subst h; sch_eq
    · cases h

theorem sch_releaseMapSlot (p : Pool) (t : Nat) (tk : PTask) : Sch p (p.releaseMapSlot t tk) := by
  unfold releaseMapSlot
  split
  · exact (sch_releaseMap p tk.req).trans schMT
  · exact Sch.refl p

theorem sch_endCallback (p : Pool) (t : Nat) (tk : PTask) : Sch p (p.endCallback t tk) := by
  unfold endCallback
  simp only
  split
  · exact (sch_releaseMapSlot p t tk).trans (sch_runCb _ t tk true)
  · exact ((sch_releaseMapSlot p t tk).trans (sch_runCb _ t tk true)).trans (sch_finishTask _ t)

theorem sch_endingTail (p : Pool) (t : Nat) (tk : PTask) : Sch p (p.endingTail t tk) := by
  unfold endingTail
  exact ((sch_releasePool p).trans schMT).trans (sch_endCallback _ t tk)

theorem sch_keyErrorFinish (p : Pool) (t : Nat) : Sch p (p.keyErrorFinish t) := by
  unfold keyErrorFinish
  refine Sch.trans ?_ (sch_finishTask _ t)
  refine Sch.trans (q := ({ p with lost := true } : Pool)) ?_ ?_
  · sch_eq
  · sch_mt

theorem sch_taskEnding (p : Pool) (t : Nat) : Sch p (p.taskEnding t) := by
  unfold taskEnding
  split
  · exact Sch.refl p
  · split
    · exact sch_keyErrorFinish p t
    · rename_i p1 hm
      exact (sch_moveToEnded p t p1 hm).trans (sch_endingTail p1 t _)

theorem sch_cancelCallback (p : Pool) (t : Nat) (tk : PTask) : Sch p (p.cancelCallback t tk) := by
  unfold cancelCallback
  simp only
  split
  · exact sch_runCb p t tk false
  · exact (sch_runCb p t tk false).trans (sch_taskEnding _ t)

theorem sch_taskCancellation (p : Pool) (t : Nat) (tk : PTask) : Sch p (p.taskCancellation t tk) := by
  unfold taskCancellation
  split
  · refine Sch.trans ?_ (sch_cancelCallback _ t tk)
    refine Sch.trans (q := ({ p with running := p.running.erase t, cancelledR := p.cancelledR ++ [t] } : Pool)) ?_ ?_
    · sch_eq
    · sch_mt
  · refine Sch.trans ?_ (sch_taskEnding _ t)
    refine Sch.trans (q := ({ p with lost := true } : Pool)) ?_ ?_
    · sch_eq
    · sch_mt

theorem sch_afterWorker (p : Pool) (t : Nat) (e : Option Err) : Sch p (p.afterWorker t e) := by
  unfold afterWorker
  split
  · exact ((sch_logEv p _).trans schMT).trans (sch_taskEnding _ t)
  · exact ((sch_logEv p _).trans schMT).trans (sch_taskEnding _ t)

theorem sch_stepCreated (p : Pool) (t : Nat) (tk : PTask) : Sch p (p.stepCreated t tk) := by
  unfold stepCreated
  split
  · refine Sch.trans ?_ (sch_taskCancellation _ t tk)
    sch_mt
  · simp only
    have h0 : Sch p (((p.logEv (.started t tk.arg)).modTask t fun k => { k with phase := .inWorker, fut := .ok, unstarted := false }).runHooks tk.req (p.reqOf tk).hooks.start) := by
      exact ((sch_logEv p _).trans schMT).trans (sch_runHooks _ _ _)
    split
    · exact h0.trans (sch_afterWorker _ t _)
    · exact h0.trans (sch_afterWorker _ t _)
    · exact (h0.trans schMT).trans (sch_suspendTask _ t _)

theorem sch_workerNext (p : Pool) (t : Nat) (tk : PTask) : Sch p (p.workerNext t tk) := by
  unfold workerNext
  exact (((sch_logEv p _).trans schMT).trans (sch_runHooks _ _ _)).trans (sch_suspendTask _ t _)

theorem sch_workerCancelled (p : Pool) (t : Nat) (tk : PTask) : Sch p (p.workerCancelled t tk) := by
  unfold workerCancelled
  split
  · exact ((sch_logEv p _).trans schMT).trans (sch_suspendTask _ t _)
  · simp only
    have h0 : Sch p ((p.logEv (.sawCancel t)).modTask t fun k => { k with sawCancel := true, phase := .wrapUp, nSaw := k.nSaw + 1 }) := by
      exact (sch_logEv p _).trans schMT
    split
    · exact h0.trans (sch_afterWorker _ t _)
    · exact h0.trans (sch_taskCancellation _ t tk)

theorem sch_stepInWorker (p : Pool) (t : Nat) (tk : PTask) : Sch p (p.stepInWorker t tk) := by
  unfold stepInWorker
  split
  · refine Sch.trans ?_ (sch_workerCancelled _ t tk)
    sch_mt
  · split
    · split
      · exact sch_workerNext p t tk
      · exact sch_afterWorker p t _
    · exact sch_afterWorker p t _
    · exact Sch.refl p

theorem sch_stepInCancelCb (p : Pool) (t : Nat) (tk : PTask) : Sch p (p.stepInCancelCb t tk) := by
  unfold stepInCancelCb
  split
  · exact ((sch_logEv p _).trans schMT).trans (sch_taskEnding _ t)
  · exact ((sch_logEv p _).trans schMT).trans (sch_taskEnding _ t)
  · exact ((sch_logEv p _).trans schMT).trans (sch_taskEnding _ t)
  · exact Sch.refl p

theorem sch_stepInEndCb (p : Pool) (t : Nat) (tk : PTask) : Sch p (p.stepInEndCb t tk) := by
  unfold stepInEndCb
  split
  · exact (sch_logEv p _).trans (sch_finishTask _ t)
  · exact ((sch_logEv p _).trans schMT).trans (sch_finishTask _ t)
  · exact ((sch_logEv p _).trans schMT).trans (sch_finishTask _ t)
  · exact Sch.refl p

/-- the remainder of a task step, after the task's own flag was cleared -/
theorem sch_stepTask_rest (p : Pool) (t : Nat) (tk : PTask) :
    Sch p (match tk.phase with
      | .created => p.stepCreated t tk
      | .wrapUp => p
      | .inWorker => p.stepInWorker t tk
      | .inCancelCb => p.stepInCancelCb t tk
      | .inEndCb => p.stepInEndCb t tk
      | .finished => p) := by
  split
  · exact sch_stepCreated p t tk
  · exact Sch.refl p
  · exact sch_stepInWorker p t tk
  · exact sch_stepInCancelCb p t tk
  · exact sch_stepInEndCb p t tk
  · exact Sch.refl p

theorem sch_stepTask (p : Pool) (t : Nat) : Sch p (p.stepTask t) := by
  unfold stepTask
  split
  · exact Sch.refl p
  · rename_i tk htk
    split
    · exact Sch.refl p
    · simp only
      refine Sch.trans ?_ (sch_stepTask_rest _ t tk)
      sch_mt

/-! ### spawners -/

theorem sch_finishMeta (p : Pool) (m : Nat) (o : Outcome) : Sch p (p.finishMeta m o) := by
  unfold finishMeta
  split
  · exact Sch.refl p
  · simp only
    exact Sch.trans schMR (sch_emitChildren _ _)

/-- a new task whose handle is queued at once, together with a change to one request that does not set its flag -/
theorem sch_append_task_modReq (p q : Pool) (k : PTask) (m : Nat) (f : Req → Req)
    (hf : ∀ x, (f x).sched = true → x.sched = true) (he : q.emit = p.emit ++ [.task p.tasks.length])
    (ht : q.tasks = p.tasks ++ [k]) (hr : q.reqs = p.reqs.modify m f) (ha : q.apis = p.apis) : Sch p q :=
  ((sch_append_task p ({ p with emit := p.emit ++ [.task p.tasks.length], tasks := p.tasks ++ [k] } : Pool) k rfl rfl rfl rfl).trans
    (sch_modReq _ m f hf)).trans (sch_of_eq (by rw [he]; rfl) (by rw [ht]; rfl) (by rw [hr]; rfl) (by rw [ha]; rfl))

theorem sch_createTask (p : Pool) (m : Nat) (isMap : Bool) : Sch p (p.createTask m isMap) := by
  unfold createTask
  simp only
  exact sch_append_task_modReq p _ _ m (fun x => { x with created := x.created + 1 }) (by sch_keep) rfl rfl rfl rfl

theorem sch_takeSlotAndCreate (p : Pool) (m : Nat) (isMap : Bool) : Sch p (p.takeSlotAndCreate m isMap) := by
  unfold takeSlotAndCreate
  refine Sch.trans ?_ (sch_createTask _ m isMap)
  sch_eq

theorem sch_waitRoom (p : Pool) (m : Nat) : Sch p (p.waitRoom m) := by
  unfold waitRoom
  simp only
  have h0 : ∀ w : Waiter, Sch p (({ p with sem := { p.sem with waiters := p.sem.waiters ++ [w] } } : Pool).modReq m
      fun x => { x with frame := MFrame.waitRoom, mustCancel := false }) := fun w => by
    refine Sch.trans (q := ({ p with sem := { p.sem with waiters := p.sem.waiters ++ [w] } } : Pool)) ?_ ?_
    · sch_eq
    · sch_mr
  split
  · exact (h0 _).trans (sch_schedMeta _ m)
  · exact h0 _

theorem sch_waitMapSem (p : Pool) (m : Nat) : Sch p (p.waitMapSem m) := by
  unfold waitMapSem
  simp only
  split
  · exact Sch.trans schMR (sch_schedMeta _ m)
  · sch_mr

theorem sch_applyLoop (m n : Nat) (p : Pool) : Sch p (applyLoop m n p) := by
  induction n generalizing p with
  | zero =>
    unfold applyLoop
    exact Sch.trans schMR (sch_finishMeta _ m _)
  | succ n ih =>
    unfold applyLoop
    simp only
    have h0 : Sch p (p.modReq m fun x => { x with remaining := n + 1 }) := by sch_mr
    split
    · exact (h0.trans schMR).trans (ih _)
    · split
      · exact h0.trans (sch_finishMeta _ m _)
      · split
        · exact h0.trans (sch_finishMeta _ m _)
        · split
          · exact h0.trans (sch_waitRoom _ m)
          · exact (h0.trans (sch_takeSlotAndCreate _ m false)).trans (ih _)

theorem sch_mapStartTask (p : Pool) (m : Nat) : Sch p (p.mapStartTask m).1 := by
  unfold mapStartTask
  split
  · exact sch_finishMeta p m _
  · split
    · exact sch_waitRoom p m
    · exact sch_takeSlotAndCreate p m true

theorem sch_pullItem (p : Pool) (m : Nat) (rest : List Item) : Sch p (p.pullItem m rest) := by
  unfold pullItem
  simp only
  exact (Sch.trans schMR (sch_logEv _ _)).trans (sch_runHooks _ m _)

theorem sch_takeMapSlot (p : Pool) (m : Nat) : Sch p (p.takeMapSlot m) := by
  unfold takeMapSlot
  sch_mr

theorem sch_mapLoop (m : Nat) (items : List Item) (p : Pool) : Sch p (mapLoop m items p) := by
  induction items generalizing p with
  | nil =>
    unfold mapLoop
    exact Sch.trans schMR (sch_finishMeta _ m _)
  | cons it rest ih =>
    unfold mapLoop
    simp only
    have h0 := sch_pullItem p m rest
    split
    · exact h0.trans (sch_finishMeta _ m _)
    · split
      · exact (h0.trans schMR).trans (ih _)
      · split
        · exact h0.trans (sch_waitMapSem _ m)
        · have h1 := (h0.trans (sch_takeMapSlot _ m)).trans (sch_mapStartTask _ m)
          split
          · exact h1.trans (ih _)
          · exact h1

theorem sch_continueSpawner (p : Pool) (m : Nat) : Sch p (p.continueSpawner m) := by
  unfold continueSpawner
  simp only
  split
  · exact sch_applyLoop m _ p
  · exact sch_mapLoop m _ p

theorem sch_stepMetaNotStarted (p : Pool) (m : Nat) (r : Req) : Sch p (p.stepMetaNotStarted m r) := by
  unfold stepMetaNotStarted
  split
  · exact sch_finishMeta p m _
  · split
    · exact sch_applyLoop m _ p
    · exact sch_mapLoop m _ p

theorem sch_roomWaitCancelled (p : Pool) (m : Nat) (r : Req) (st : Option WaitSt) : Sch p (p.roomWaitCancelled m r st) := by
  unfold roomWaitCancelled
  simp only
  refine Sch.trans ?_ (sch_finishMeta _ m _)
  have h1 : Sch p (if (st == some WaitSt.granted) = true then p.releasePool else p) := by
    split
    · exact sch_releasePool p
    · exact Sch.refl p
  generalize (if (st == some WaitSt.granted) = true then p.releasePool else p) = q at h1 ⊢
  refine h1.trans ?_
  split
  · exact sch_releaseMap q m
  · exact Sch.refl q

theorem sch_roomGranted (p : Pool) (m : Nat) (r : Req) : Sch p (p.roomGranted m r) := by
  unfold roomGranted
  simp only
  refine Sch.trans ?_ (sch_continueSpawner _ m)
  refine Sch.trans ?_ (sch_createTask _ m _)
  have h0 : Sch p (p.modReq m fun x => { x with frame := MFrame.running }) := by sch_mr
  refine h0.trans ?_
  split
  · refine Sch.trans ?_ (sch_schedOpt _ _)
    sch_eq
  · exact Sch.refl _

theorem sch_wakeWaitRoomCore (p : Pool) (m : Nat) (r : Req) : Sch p (p.wakeWaitRoomCore m r) := by
  unfold wakeWaitRoomCore
  simp only
  have h0 : Sch p (({ p with sem := { p.sem with waiters := (removeWaiterL m p.sem.waiters).2 } } : Pool).modReq m
      fun x => { x with mustCancel := false }) := by
    refine Sch.trans (q := ({ p with sem := { p.sem with waiters := (removeWaiterL m p.sem.waiters).2 } } : Pool)) ?_ ?_
    · sch_eq
    · sch_mr
  split
  · exact h0.trans (sch_roomWaitCancelled _ m r _)
  · split
    · exact h0.trans (sch_roomGranted _ m r)
    · exact h0

theorem sch_wakeWaitRoom (p : Pool) (m : Nat) (r : Req) : Sch p (p.wakeWaitRoom m r) := by
  unfold wakeWaitRoom
  split
  · exact sch_wakeWaitRoomCore p m r
  · exact Sch.refl p

theorem sch_mapSemGranted (p : Pool) (m : Nat) (r : Req) : Sch p (p.mapSemGranted m r) := by
  unfold mapSemGranted
  simp only
  have h0 : Sch p (p.modReq m fun x => { x with acquired := true, frame := MFrame.running }) := by sch_mr
  have h1 := h0.trans (sch_mapStartTask _ m)
  split
  · exact h1.trans (sch_mapLoop m _ _)
  · exact h1

theorem sch_wakeWaitMapSemCore (p : Pool) (m : Nat) (r : Req) : Sch p (p.wakeWaitMapSemCore m r) := by
  unfold wakeWaitMapSemCore
  simp only
  generalize (if ((removeWaiterL m r.mapSem.waiters).1 == some WaitSt.granted) = true then _ else _ : Sem × Option Nat) = s2
  have h0 : Sch p ((p.modReq m fun x => { x with mapSem := s2.1, mustCancel := false }).schedOpt s2.2) :=
    Sch.trans schMR (sch_schedOpt _ _)
  split
  · exact h0.trans (sch_finishMeta _ m _)
  · split
    · exact h0.trans (sch_mapSemGranted _ m r)
    · exact h0

theorem sch_wakeWaitMapSem (p : Pool) (m : Nat) (r : Req) : Sch p (p.wakeWaitMapSem m r) := by
  unfold wakeWaitMapSem
  split
  · exact sch_wakeWaitMapSemCore p m r
  · exact Sch.refl p

/-- the remainder of a spawner step, after the spawner's own flag was cleared -/
theorem sch_stepMeta_rest (p : Pool) (m : Nat) (r : Req) :
    Sch p (match r.frame with
      | .done => p
      | .running => p
      | .notStarted => p.stepMetaNotStarted m r
      | .waitRoom => p.wakeWaitRoom m r
      | .waitMapSem => p.wakeWaitMapSem m r) := by
  split
  · exact Sch.refl p
  · exact Sch.refl p
  · exact sch_stepMetaNotStarted p m r
  · exact sch_wakeWaitRoom p m r
  · exact sch_wakeWaitMapSem p m r

theorem sch_stepMeta (p : Pool) (m : Nat) : Sch p (p.stepMeta m) := by
  unfold stepMeta
  split
  · exact Sch.refl p
  · rename_i r hr
    split
    · exact Sch.refl p
    · simp only
      exact Sch.trans schMR (sch_stepMeta_rest _ m r)

/-! ### gather -/

theorem sch_gatherChildDone (p : Pool) (g i : Nat) (viaHandle : Bool) : Sch p (p.gatherChildDone g i viaHandle) := by
  unfold gatherChildDone
  split
  · exact Sch.refl p
  · split
    · exact Sch.refl p
    · simp only
      have h1 := sch_modGather p g fun x => { x with nfinished := x.nfinished + 1 }
      split
      · exact h1
      · split
        · exact h1
        · split
          · exact h1
          · split
            · exact (h1.trans (sch_modGather _ _ _)).trans (sch_schedApi _ _)
            · exact h1.trans (sch_modGather _ _ _)

theorem sch_registerChild (p : Pool) (c : Child) (g i : Nat) : Sch p (p.registerChild c g i) := by
  unfold registerChild
  split
  · sch_mt
  · sch_mr

theorem sch_gatherScan (g : Nat) (cs : List Child) (i : Nat) (p : Pool) : Sch p (gatherScan g cs i p) := by
  induction cs generalizing i p with
  | nil => unfold gatherScan; exact Sch.refl p
  | cons c cs ih =>
    unfold gatherScan
    refine Sch.trans ?_ (ih _ _)
    split
    · exact sch_gatherChildDone p g i false
    · exact sch_registerChild p c g i

theorem sch_gatherStart (p : Pool) (children : List Child) (re : Bool) (owner : Nat) (setPrefix : Nat) :
    Sch p (p.gatherStart children re owner setPrefix).1 := by
  unfold gatherStart
  simp only
  refine Sch.trans ?_ (sch_gatherScan _ _ _ _)
  sch_eq

/-! ### flush / gather_and_close / until_closed -/

theorem sch_finishApi (p : Pool) (a : Nat) (o : Outcome) : Sch p (p.finishApi a o) := by
  unfold finishApi
  sch_ma

theorem sch_flushAfter2 (p : Pool) (a : Nat) (o : Outcome) : Sch p (p.flushAfter2 a o) := by
  unfold flushAfter2
  split
  · simp only
    refine Sch.trans ?_ (sch_finishApi _ a _)
    sch_eq
  · exact sch_finishApi p a _

theorem sch_flushAfter1 (p : Pool) (a : Nat) (re : Bool) (o : Outcome) : Sch p (p.flushAfter1 a re o) := by
  unfold flushAfter1
  split
  · exact sch_finishApi p a _
  · simp only
    have t1 : Sch p ({ p with metaCancelled := [], reqs := p.reqs.map fun (r : Req) => { r with inCancelled := false } } : Pool) :=
      sch_mapReqs p _ (fun (r : Req) => { r with inCancelled := false }) (fun _ => rfl) rfl rfl rfl rfl
    split
    · refine Sch.trans ?_ (sch_flushAfter2 _ a _)
      refine Sch.trans ?_ (sch_gatherStart _ _ _ _ _)
      exact t1.trans schMA
    · refine Sch.trans ?_ schMA
      refine Sch.trans ?_ (sch_gatherStart _ _ _ _ _)
      exact t1.trans schMA

theorem sch_flushStage1 (p : Pool) (a : Nat) (re : Bool) : Sch p (p.flushStage1 a re) := by
  unfold flushStage1
  simp only
  have t1 : Sch p ({ p with reqs := p.reqs.map fun (r : Req) => if r.inRunning && r.outcome.isSome then { r with inRunning := false } else r } : Pool) :=
    sch_mapReqs p _ (fun (r : Req) => if r.inRunning && r.outcome.isSome then { r with inRunning := false } else r)
      (fun r => by split <;> rfl) rfl rfl rfl rfl
  split
  · refine Sch.trans ?_ (sch_flushAfter1 _ a re _)
    exact t1.trans (sch_gatherStart _ _ _ _ _)
  · refine Sch.trans ?_ schMA
    exact t1.trans (sch_gatherStart _ _ _ _ _)

theorem sch_gacAfter2 (p : Pool) (a : Nat) (o : Outcome) : Sch p (p.gacAfter2 a o) := by
  unfold gacAfter2
  split
  · simp only
    refine Sch.trans ?_ (sch_finishApi _ a _)
    refine Sch.trans ?_ (sch_foldl _ (fun q w => sch_schedApi q w) _ _)
    sch_eq
  · exact sch_finishApi p a _

theorem sch_gacAfter1 (p : Pool) (a : Nat) (re : Bool) (g : Nat) : Sch p (p.gacAfter1 a re g) := by
  unfold gacAfter1
  simp only
  split
  · exact sch_finishApi p a _
  · have t1 : Sch p ({ p with metaCancelled := [], reqs := p.reqs.map fun (r : Req) => { r with inCancelled := false, inRunning := false } } : Pool) :=
      sch_mapReqs p _ (fun (r : Req) => { r with inCancelled := false, inRunning := false }) (fun _ => rfl) rfl rfl rfl rfl
    split
    · refine Sch.trans ?_ (sch_gacAfter2 _ a _)
      exact t1.trans (sch_gatherStart _ _ _ _ _)
    · refine Sch.trans ?_ schMA
      exact t1.trans (sch_gatherStart _ _ _ _ _)

theorem sch_gacStage1 (p : Pool) (a : Nat) (re : Bool) : Sch p (p.gacStage1 a re) := by
  unfold gacStage1
  simp only
  split
  · refine Sch.trans ?_ (sch_gacAfter1 _ a re _)
    refine Sch.trans ?_ (sch_gatherStart _ _ true a 0)
    sch_eq
  · refine Sch.trans ?_ schMA
    refine Sch.trans ?_ (sch_gatherStart _ _ true a 0)
    sch_eq

theorem sch_untilClosedStart (p : Pool) (a : Nat) : Sch p (p.untilClosedStart a) := by
  unfold untilClosedStart
  split
  · exact sch_finishApi p a _
  · refine Sch.trans ?_ schMA
    sch_eq

/-- the remainder of a step of a background call, after its own flag was cleared -/
theorem sch_stepApi_rest (p : Pool) (a : Nat) (A : Api) :
    Sch p (match A.frame, A.kind with
      | .done, _ => p
      | .notStarted, .flush re => p.flushStage1 a re
      | .notStarted, .gac re => p.gacStage1 a re
      | .notStarted, .untilClosed => p.untilClosedStart a
      | .waitClosed, _ => p.finishApi a .ok
      | .gather1 g, .flush re => match p.gatherOuter g with | some o => p.flushAfter1 a re o | none => p
      | .gather1 g, .gac re => match p.gatherOuter g with | some _ => p.gacAfter1 a re g | none => p
      | .gather2 g, .flush _ => match p.gatherOuter g with | some o => p.flushAfter2 a o | none => p
      | .gather2 g, .gac _ => match p.gatherOuter g with | some o => p.gacAfter2 a o | none => p
      | _, _ => p) := by
  split
  · exact Sch.refl p
  · exact sch_flushStage1 p a _
  · exact sch_gacStage1 p a _
  · exact sch_untilClosedStart p a
  · exact sch_finishApi p a _
  · split
    · exact sch_flushAfter1 p a _ _
    · exact Sch.refl p
  · split
    · exact sch_gacAfter1 p a _ _
    · exact Sch.refl p
  · split
    · exact sch_flushAfter2 p a _
    · exact Sch.refl p
  · split
    · exact sch_gacAfter2 p a _
    · exact Sch.refl p
  · exact Sch.refl p

theorem sch_stepApi (p : Pool) (a : Nat) : Sch p (p.stepApi a) := by
  unfold stepApi
  split
  · exact Sch.refl p
  · rename_i A hA
    split
    · exact Sch.refl p
    · simp only
      exact Sch.trans schMA (sch_stepApi_rest _ a A)

/-! ### every handle, every operation -/

theorem sch_stepTask_self (p : Pool) (t : Nat) :
    (p.stepTask t).flag (.task t) = true → p.cnt (.task t) < (p.stepTask t).cnt (.task t) := by
  unfold stepTask
  split
  · rename_i hn
    intro h; simp [flag, hn] at h
  · rename_i tk htk
    split
    · rename_i hs
      intro h; simp [flag, htk] at h; simp [h] at hs
    · simp only
      intro h
      rcases (sch_stepTask_rest (p.modTask t fun k => { k with sched := false }) t tk).fl _ h with a | a
      · rw [flag_modTask] at a; simp [htk] at a
      · exact a

theorem sch_stepMeta_self (p : Pool) (m : Nat) :
    (p.stepMeta m).flag (.spawner m) = true → p.cnt (.spawner m) < (p.stepMeta m).cnt (.spawner m) := by
  unfold stepMeta
  split
  · rename_i hn
    intro h; simp [flag, hn] at h
  · rename_i r hr
    split
    · rename_i hs
      intro h; simp [flag, hr] at h; simp [h] at hs
    · simp only
      intro h
      rcases (sch_stepMeta_rest (p.modReq m fun x => { x with sched := false }) m r).fl _ h with a | a
      · rw [flag_modReq] at a; simp [hr] at a
      · exact a

theorem sch_stepApi_self (p : Pool) (a : Nat) :
    (p.stepApi a).flag (.api a) = true → p.cnt (.api a) < (p.stepApi a).cnt (.api a) := by
  unfold stepApi
  split
  · rename_i hn
    intro h; simp [flag, hn] at h
  · rename_i A hA
    split
    · rename_i hs
      intro h; simp [flag, hA] at h; simp [h] at hs
    · simp only
      intro h
      rcases (sch_stepApi_rest (p.modApi a fun x => { x with sched := false }) a A).fl _ h with b | b
      · rw [flag_modApi] at b; simp [hA] at b
      · exact b

/-- running a handle: besides `Sch`, the entity the handle belongs to is flagged afterwards only if it got a NEW handle -/
theorem sch_runRef_self (p : Pool) (r : Ref) : (p.runRef r).flag r = true → p.cnt r < (p.runRef r).cnt r := by
  cases r with
  | task t => exact sch_stepTask_self p t
  | spawner m => exact sch_stepMeta_self p m
  | api a => exact sch_stepApi_self p a
  | gchild g i => intro h; simp [flag] at h

theorem sch_runRef (p : Pool) (r : Ref) : Sch p (p.runRef r) := by
  cases r with
  | task t => exact sch_stepTask p t
  | spawner m => exact sch_stepMeta p m
  | api a => exact sch_stepApi p a
  | gchild g i => exact sch_gatherChildDone p g i true

theorem sch_addApi (p : Pool) (k : ApiKind) : Sch p (p.addApi k) := by
  unfold addApi
  simp only
  exact sch_append_api p _ _ rfl rfl rfl rfl

theorem sch_doGate (p : Pool) (t : Nat) (o : FutSt) : Sch p (p.doGate t o).1 := by
  unfold doGate
  split
  · exact Sch.trans schMT (sch_schedTask _ _)
  · exact Sch.refl p

theorem sch_doLock (p : Pool) : Sch p p.doLock := sch_of_eq rfl rfl rfl rfl
theorem sch_doUnlock (p : Pool) : Sch p p.doUnlock := sch_of_eq rfl rfl rfl rfl

theorem sch_applyOp (p : Pool) (op : Op) : Sch p (p.applyOp op).1 := by
  cases op <;> simp only [applyOp]
  · exact sch_doApply p _ _ _
  · exact sch_doMap p _ _ _ _ _
  · exact sch_doStart p _
  · exact sch_doStop p _
  · exact sch_doStop p _
  · exact sch_doCancel p _
  · exact sch_doCancelGroup p _
  · exact sch_doCancelAll p
  · exact sch_doLock p
  · exact sch_doUnlock p
  · exact sch_doSetSize p _
  · exact Sch.refl p
  · exact sch_addApi p _
  · exact sch_addApi p _
  · exact sch_addApi p _
  · exact sch_doGate p _ _

end Pool
end Taskpool
