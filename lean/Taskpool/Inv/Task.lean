import Taskpool.Inv.Sync
import Taskpool.Inv.Reg
/-! The wrapper of a pool task preserves `Good` in every phase, user code included. -/
namespace Taskpool
namespace Pool

/-- task `t` still holds its slot -/
def Unreleased (p : Pool) (t : Nat) : Prop := ∃ tk : PTask, p.tasks[t]? = some tk ∧ tk.released = false
/-- … and is outside the slot-holding phases, i.e. ready for `_task_ending` -/
def ReadyToEnd (p : Pool) (t : Nat) : Prop :=
  ∃ tk : PTask, p.tasks[t]? = some tk ∧ tk.released = false ∧ NYR tk.phase = false

theorem _root_.Taskpool.Tame.unreleased {p q : Pool} (h : Tame p q) {t : Nat} (hu : p.Unreleased t) : q.Unreleased t := by
  obtain ⟨tk, a, b⟩ := hu
  obtain ⟨tk', a', b'⟩ := h.released t tk a
  exact ⟨tk', a', b'.trans b⟩

theorem _root_.Taskpool.Tame.readyToEnd {p q : Pool} (h : Tame p q) {t : Nat} (hu : p.ReadyToEnd t) : q.ReadyToEnd t := by
  obtain ⟨tk, a, b, c⟩ := hu
  obtain ⟨tk', a', b'⟩ := h.released t tk a
  obtain ⟨tk0, a0, _, c0⟩ := h.pt t tk' a'
  rw [a] at a0; cases a0
  refine ⟨tk', a', b'.trans b, ?_⟩
  rcases c0 with e | n
  · rw [e]; exact c
  · exact n

theorem ReadyToEnd.unreleased {p : Pool} {t : Nat} (h : p.ReadyToEnd t) : p.Unreleased t := by
  obtain ⟨tk, a, b, _⟩ := h; exact ⟨tk, a, b⟩

/-- the new phase of task `t` is compatible with the registry that files it: unchanged, or `t` is not filed as
cancelled, or the new phase is past the worker -/
def PhaseSafe (p : Pool) (t : Nat) (f : PTask → PTask) : Prop :=
  (∀ x, (f x).phase = x.phase) ∨ t ∉ p.cancelledR ∨ (∀ x, (f x).phase ≠ .created ∧ (f x).phase ≠ .inWorker)

theorem phaseSafe_of_nonNYR (p : Pool) (t : Nat) (f : PTask → PTask) (hp : ∀ x, NYR (f x).phase = false) :
    PhaseSafe p t f :=
  Or.inr (Or.inr fun x => ⟨fun e => by have h := hp x; rw [e] at h; exact absurd h (by decide),
                            fun e => by have h := hp x; rw [e] at h; exact absurd h (by decide)⟩)

/-- any update of an unreleased task that keeps `released` preserves `Good`, whatever phase it enters -/
theorem good_modTask_unreleased {cap : Cap} (p : Pool) (t : Nat) (f : PTask → PTask)
    (hg : Good cap p) (hu : p.Unreleased t) (hr : ∀ x, (f x).released = x.released) (hc : PhaseSafe p t f) :
    Good cap (p.modTask t f) ∧ (p.modTask t f).Unreleased t := by
  obtain ⟨tk, a, b⟩ := hu
  have hget : (p.modTask t f).tasks[t]? = some (f tk) := by simp [modTask, a]
  refine ⟨⟨?_, ?_, hg.reg.modTask t f hr hc, hg.grp.of_eq rfl (by simp [modTask])⟩, ⟨f tk, hget, by rw [hr]; exact b⟩⟩
  · cases cap with
    | fin n =>
      obtain ⟨v, hv, hs⟩ := hg.slot
      exact ⟨v, hv, by simp only [modTask]; rw [heldL_modify_same _ _ _ hr]; exact hs⟩
    | inf => exact hg.slot
  · intro i tk' h hn
    obtain ⟨x, hx, rfl⟩ := getElem?_modify_some p.tasks t i f tk' h
    split
    · rename_i e; subst e
      rw [a] at hx; cases hx
      rw [hr]; exact b
    · rename_i ne
      simp only [ne, if_false] at hn
      exact hg.phase i x hx hn

theorem modTask_readyToEnd (p : Pool) (t : Nat) (f : PTask → PTask) (hu : p.Unreleased t)
    (hr : ∀ x, (f x).released = x.released) (hp : ∀ x, NYR (f x).phase = false) : (p.modTask t f).ReadyToEnd t := by
  obtain ⟨tk, a, b⟩ := hu
  exact ⟨f tk, by simp [modTask, a], by rw [hr]; exact b, hp tk⟩

/-! ### tame pieces of the wrapper -/

theorem tame_completeTask (p : Pool) (t o) : Tame p (p.completeTask t o) := by
  unfold completeTask
  split
  · exact Tame.refl p
  · refine Tame.trans ?_ (tame_emitChildren _ _)
    exact tame_modTask p t _ (fun _ => rfl) (fun _ => Or.inr rfl)

theorem tame_finishTask (p : Pool) (t) : Tame p (p.finishTask t) := by
  unfold finishTask
  split
  · exact Tame.refl p
  · exact tame_completeTask p t _

/-- suspending in the end callback does not enter a slot-holding phase -/
theorem tame_suspendTask_endCb (p : Pool) (t) : Tame p (p.suspendTask t .inEndCb) := by
  unfold suspendTask
  split
  · exact Tame.refl p
  · split
    · exact Tame.trans (q := p.modTask t fun k => { k with phase := .inEndCb, fut := .cancelled, mustCancel := false })
        (tame_modTask p t _ (fun _ => rfl) (fun _ => Or.inr rfl)) (tame_schedTask _ _)
    · exact tame_modTask p t _ (fun _ => rfl) (fun _ => Or.inr rfl)

theorem good_suspendTask {cap : Cap} (p : Pool) (t : Nat) (ph : Phase) (hg : Good cap p) (hu : p.Unreleased t)
    (hc : t ∉ p.cancelledR ∨ (ph ≠ .created ∧ ph ≠ .inWorker)) :
    Good cap (p.suspendTask t ph) := by
  have hs1 : PhaseSafe p t (fun k => { k with phase := ph, fut := .cancelled, mustCancel := false }) :=
    Or.inr (hc.elim Or.inl (fun h => Or.inr fun _ => h))
  have hs2 : PhaseSafe p t (fun k => { k with phase := ph, fut := .pending }) :=
    Or.inr (hc.elim Or.inl (fun h => Or.inr fun _ => h))
  unfold suspendTask
  split
  · exact hg
  · split
    · refine (tame_schedTask _ t).good ?_
      exact (good_modTask_unreleased p t (fun k => { k with phase := ph, fut := .cancelled, mustCancel := false }) hg hu (fun _ => rfl) hs1).1
    · exact (good_modTask_unreleased p t (fun k => { k with phase := ph, fut := .pending }) hg hu (fun _ => rfl) hs2).1

theorem tame_releaseMapSlot (p : Pool) (t tk) : Tame p (p.releaseMapSlot t tk) := by
  unfold releaseMapSlot
  split
  · exact Tame.trans (tame_releaseMap p _) (tame_modTask _ t _ (fun _ => rfl) (fun _ => Or.inl rfl))
  · exact Tame.refl p

theorem tame_cbBegin (p : Pool) (t tk b) : Tame p (p.cbBegin t tk b) := by
  unfold cbBegin
  exact Tame.trans (tame_logEv p _) (tame_runHooks _ _ _)

/-- the end callback (plain, raising or coroutine) with its user code is tame -/
theorem tame_runCb_end (p : Pool) (t tk) : Tame p (p.runCb t tk true).1 := by
  unfold runCb
  simp only [if_true]
  split
  · exact Tame.refl p
  · exact Tame.trans (tame_cbBegin p t tk true) (tame_logEv _ _)
  · exact Tame.trans (Tame.trans (tame_cbBegin p t tk true) (tame_logEv _ _)) (tame_modTask _ t _ (fun _ => rfl) (fun _ => Or.inl rfl))
  · exact Tame.trans (tame_cbBegin p t tk true) (tame_suspendTask_endCb _ t)

theorem tame_endCallback (p : Pool) (t tk) : Tame p (p.endCallback t tk) := by
  unfold endCallback
  simp only
  have h := Tame.trans (tame_releaseMapSlot p t tk) (tame_runCb_end _ t tk)
  split
  · exact h
  · exact h.trans (tame_finishTask _ t)

theorem good_setLost {cap : Cap} (p : Pool) (hg : Good cap p) : Good cap ({ p with lost := true } : Pool) :=
  ⟨hg.slot, hg.phase, hg.reg.setLost, hg.grp.of_eq rfl rfl⟩

theorem good_keyErrorFinish {cap : Cap} (p : Pool) (t) (hg : Good cap p) : Good cap (p.keyErrorFinish t) := by
  unfold keyErrorFinish
  refine Tame.good ?_ (good_setLost p hg)
  exact Tame.trans (q := ({ p with lost := true } : Pool).modTask t fun k => { k with pendingExc := some .keyError })
    (tame_modTask _ t _ (fun _ => rfl) (fun _ => Or.inl rfl)) (tame_finishTask _ t)

/-! ### the release -/

theorem wakeNextL_sum (n : Nat) (ws : List Waiter) (hn : 0 < n) (c : Cap) (ws' : List Waiter) (o : Option Nat)
    (h : wakeNextL (.fin n) ws = (c, ws', o)) :
    ∃ v', c = .fin v' ∧ v' + grantsL ws' = n + grantsL ws := by
  induction ws generalizing c ws' o with
  | nil =>
    simp [wakeNextL] at h
    obtain ⟨rfl, rfl, _⟩ := h
    exact ⟨n, rfl, rfl⟩
  | cons w ws ih =>
    unfold wakeNextL at h
    split at h
    · rename_i hp
      simp at h
      obtain ⟨rfl, rfl, _⟩ := h
      refine ⟨n - 1, by simp [Cap.dec], ?_⟩
      simp [grantsL, hp]; omega
    · rename_i hp
      generalize hr : wakeNextL (.fin n) ws = r at h
      obtain ⟨c1, w1, o1⟩ := r
      simp at h
      obtain ⟨rfl, rfl, _⟩ := h
      obtain ⟨v', h1, h2⟩ := ih c1 w1 o1 hr
      refine ⟨v', h1, ?_⟩
      simp only [grantsL, List.countP_cons] at h2 ⊢
      omega

theorem wakeNextL_inf (ws : List Waiter) : (wakeNextL .inf ws).1 = .inf := by
  induction ws with
  | nil => rfl
  | cons w ws ih =>
    unfold wakeNextL
    split
    · rfl
    · simp only; exact ih

theorem releasePool_inf (p : Pool) (hv : p.sem.value = .inf) (hw : p.sem.waiters = []) :
    p.releasePool.sem.value = .inf ∧ p.releasePool.sem.waiters = [] := by
  unfold releasePool Sem.release Sem.wakeNext
  simp [hv, hw, Cap.inc, wakeNextL]

theorem releasePool_tasks' (p : Pool) : p.releasePool.tasks = p.tasks := by
  unfold releasePool; simp

/-- `release()`: value + grants goes up by exactly one; tasks untouched -/
theorem releasePool_effect (p : Pool) (v : Nat) (hv : p.sem.value = .fin v) :
    ∃ v', p.releasePool.sem.value = .fin v' ∧
      v' + grantsL p.releasePool.sem.waiters = v + 1 + grantsL p.sem.waiters ∧
      p.releasePool.tasks = p.tasks := by
  unfold releasePool Sem.release Sem.wakeNext
  simp only [hv, Cap.inc]
  generalize hr : wakeNextL (Cap.fin (v + 1)) p.sem.waiters = r
  obtain ⟨c, ws', o⟩ := r
  obtain ⟨v', h1, h2⟩ := wakeNextL_sum (v+1) p.sem.waiters (by omega) c ws' o hr
  refine ⟨v', ?_, ?_, ?_⟩ <;> simp [h1, h2]

theorem moveToEnded_frame (p p1 : Pool) (t : Nat) (h : p.moveToEnded t = some p1) :
    p1.sem = p.sem ∧ p1.tasks = p.tasks := by
  unfold moveToEnded at h
  split at h
  · simp at h; subst h; exact ⟨rfl, rfl⟩
  · split at h
    · simp at h; subst h; exact ⟨rfl, rfl⟩
    · simp at h

@[simp] theorem schedOpt_running (p : Pool) (o) : (p.schedOpt o).running = p.running := by cases o <;> rfl
@[simp] theorem schedOpt_cancelledR (p : Pool) (o) : (p.schedOpt o).cancelledR = p.cancelledR := by cases o <;> rfl
@[simp] theorem schedOpt_ended (p : Pool) (o) : (p.schedOpt o).ended = p.ended := by cases o <;> rfl
@[simp] theorem schedOpt_lost (p : Pool) (o) : (p.schedOpt o).lost = p.lost := by cases o <;> rfl

theorem releasePool_regs (p : Pool) : p.releasePool.running = p.running ∧ p.releasePool.cancelledR = p.cancelledR ∧
    p.releasePool.ended = p.ended ∧ p.releasePool.lost = p.lost := by
  unfold releasePool; simp

@[simp] theorem schedOpt_groups (p : Pool) (o) : (p.schedOpt o).groups = p.groups := by cases o <;> rfl

theorem releasePool_groups (p : Pool) : p.releasePool.groups = p.groups := by
  unfold releasePool; simp

theorem moveToEnded_groups (p p1 : Pool) (t : Nat) (h : p.moveToEnded t = some p1) : p1.groups = p.groups := by
  unfold moveToEnded at h
  split at h
  · simp at h; subst h; rfl
  · split at h
    · simp at h; subst h; rfl
    · simp at h

theorem moveToEnded_lost (p p1 : Pool) (t : Nat) (h : p.moveToEnded t = some p1) : p1.lost = p.lost := by
  unfold moveToEnded at h
  split at h
  · simp at h; subst h; rfl
  · split at h
    · simp at h; subst h; rfl
    · simp at h

/-- the id is filed as ended, the slot is given back and the task marked released — for a task that is ready to end -/
theorem good_moveRelease {cap : Cap} (p p1 : Pool) (t : Nat) (hg : Good cap p) (hr : p.ReadyToEnd t)
    (hm : p.moveToEnded t = some p1) :
    Good cap ((p1.releasePool).modTask t fun k => { k with released := true }) := by
  obtain ⟨tk, a, b, c⟩ := hr
  obtain ⟨hs1, ht1⟩ := moveToEnded_frame p p1 t hm
  have h3 : p1.releasePool.tasks = p1.tasks := releasePool_tasks' p1
  obtain ⟨r1, r2, r3, r4⟩ := releasePool_regs p1
  have hgr : ((p1.releasePool).modTask t fun k => { k with released := true }).groups = p.groups := by
    rw [show ((p1.releasePool).modTask t fun k => { k with released := true }).groups = p1.releasePool.groups from rfl,
      releasePool_groups, moveToEnded_groups p p1 t hm]
  refine ⟨?_, ?_, ?_, hg.grp.of_eq hgr (by simp [modTask, h3, ht1])⟩
  · cases cap with
    | fin n =>
      obtain ⟨v, hv, hs⟩ := hg.slot
      obtain ⟨v', h1, h2, _⟩ := releasePool_effect p1 v (by rw [hs1]; exact hv)
      refine ⟨v', by simpa using h1, ?_⟩
      have := heldL_modify_release p.tasks t tk (fun k => { k with released := true }) a b (fun _ => rfl)
      simp only [modTask_sem, modTask_tasks, h3, ht1, hs1] at *
      omega
    | inf =>
      have hv : p1.sem.value = .inf ∧ p1.sem.waiters = [] := by rw [hs1]; exact hg.slot
      exact releasePool_inf p1 hv.1 hv.2
  · intro i tk' h hn
    simp only [modTask, h3, ht1] at h
    obtain ⟨x, hx, rfl⟩ := getElem?_modify_some p.tasks t i _ tk' h
    split at hn
    · rename_i e; subst e
      rw [a] at hx; cases hx
      simp at hn; rw [c] at hn; cases hn
    · rename_i ne; simp only [ne, if_false]
      exact hg.phase i x hx hn
  · exact hg.reg.moveRelease t hm _ r1 r2 r3 (r4.trans (moveToEnded_lost p p1 t hm)) (by simp [modTask, h3, ht1])

/-- `_task_ending` for a task that is ready to end -/
theorem good_taskEnding {cap : Cap} (p : Pool) (t : Nat) (hg : Good cap p) (hr : p.ReadyToEnd t) :
    Good cap (p.taskEnding t) := by
  unfold taskEnding
  obtain ⟨tk, a, b, c⟩ := hr
  simp only [a]
  split
  · exact good_keyErrorFinish p t hg
  · rename_i p1 hm
    unfold endingTail
    exact (tame_endCallback _ t tk).good (good_moveRelease p p1 t hg ⟨tk, a, b, c⟩ hm)


/-! ### the phases of the wrapper -/

theorem _root_.Taskpool.Tame.goodU {cap : Cap} {p q : Pool} {t : Nat} (h : Tame p q) (hg : Good cap p)
    (hu : p.Unreleased t) : Good cap q ∧ q.Unreleased t := ⟨h.good hg, h.unreleased hu⟩

theorem goodU_suspendTask {cap : Cap} (p : Pool) (t : Nat) (ph : Phase) (hg : Good cap p) (hu : p.Unreleased t)
    (hc : t ∉ p.cancelledR ∨ (ph ≠ .created ∧ ph ≠ .inWorker)) :
    Good cap (p.suspendTask t ph) ∧ (p.suspendTask t ph).Unreleased t := by
  refine ⟨good_suspendTask p t ph hg hu hc, ?_⟩
  have hs1 : PhaseSafe p t (fun k => { k with phase := ph, fut := .cancelled, mustCancel := false }) :=
    Or.inr (hc.elim Or.inl (fun h => Or.inr fun _ => h))
  have hs2 : PhaseSafe p t (fun k => { k with phase := ph, fut := .pending }) :=
    Or.inr (hc.elim Or.inl (fun h => Or.inr fun _ => h))
  unfold suspendTask
  split
  · exact hu
  · split
    · refine Tame.unreleased (tame_schedTask _ t) ?_
      exact (good_modTask_unreleased p t (fun k => { k with phase := ph, fut := .cancelled, mustCancel := false }) hg hu (fun _ => rfl) hs1).2
    · exact (good_modTask_unreleased p t (fun k => { k with phase := ph, fut := .pending }) hg hu (fun _ => rfl) hs2).2

/-- the cancel callback with its user code, while the task still holds its slot -/
theorem good_runCb_cancel {cap : Cap} (p : Pool) (t : Nat) (tk : PTask) (hg : Good cap p) (hu : p.Unreleased t) :
    Good cap (p.runCb t tk false).1 ∧ (p.runCb t tk false).1.Unreleased t := by
  unfold runCb
  simp only [Bool.false_eq_true, if_false]
  obtain ⟨hg1, hu1⟩ := Tame.goodU (tame_cbBegin p t tk false) hg hu
  split
  · exact ⟨hg, hu⟩
  · exact Tame.goodU (tame_logEv _ _) hg1 hu1
  · obtain ⟨hg2, hu2⟩ := Tame.goodU (tame_logEv (p.cbBegin t tk false) (evCbRaised t false)) hg1 hu1
    exact good_modTask_unreleased _ t _ hg2 hu2 (fun _ => rfl) (Or.inl fun _ => rfl)
  · exact goodU_suspendTask _ t _ hg1 hu1 (Or.inr ⟨by decide, by decide⟩)

/-- if the cancel callback did not suspend, the task is still outside the slot-holding phases -/
theorem runCb_cancel_ready (p : Pool) (t : Nat) (tk : PTask) (hr : p.ReadyToEnd t)
    (hns : (p.runCb t tk false).2 = false) : (p.runCb t tk false).1.ReadyToEnd t := by
  unfold runCb at hns ⊢
  simp only [Bool.false_eq_true, if_false] at hns ⊢
  have h1 := Tame.readyToEnd (tame_cbBegin p t tk false) hr
  split
  · exact hr
  · exact Tame.readyToEnd (tame_logEv _ _) h1
  · dsimp only
    refine Tame.readyToEnd ?_ h1
    exact Tame.trans (tame_logEv _ _) (tame_modTask _ t _ (fun _ => rfl) (fun _ => Or.inl rfl))
  · rename_i h; simp [h] at hns

theorem good_cancelCallback {cap : Cap} (p : Pool) (t : Nat) (tk : PTask) (hg : Good cap p) (hr : p.ReadyToEnd t) :
    Good cap (p.cancelCallback t tk) := by
  unfold cancelCallback
  simp only
  have h := good_runCb_cancel p t tk hg hr.unreleased
  split
  · exact h.1
  · rename_i hns
    exact good_taskEnding _ t h.1 (runCb_cancel_ready p t tk hr (by simpa using hns))

theorem nonNYR_ne (ph : Phase) (h : NYR ph = false) : ph ≠ .created ∧ ph ≠ .inWorker :=
  ⟨fun e => by rw [e] at h; exact absurd h (by decide), fun e => by rw [e] at h; exact absurd h (by decide)⟩

/-- the id moves from the running to the cancelled registry -/
theorem good_regCancel {cap : Cap} (p : Pool) (t : Nat) (hg : Good cap p) (hr : p.ReadyToEnd t) (ht : t ∈ p.running) :
    Good cap ({ p with running := p.running.erase t, cancelledR := p.cancelledR ++ [t] } : Pool) ∧
    ({ p with running := p.running.erase t, cancelledR := p.cancelledR ++ [t] } : Pool).ReadyToEnd t := by
  obtain ⟨tk, a, b, c⟩ := hr
  refine ⟨⟨hg.slot, hg.phase, hg.reg.regCancel t ht ?_, hg.grp.of_eq rfl rfl⟩, ⟨tk, a, b, c⟩⟩
  intro tk' h
  rw [a] at h; cases h
  exact nonNYR_ne _ c

theorem good_taskCancellation {cap : Cap} (p : Pool) (t : Nat) (tk : PTask) (hg : Good cap p) (hr : p.ReadyToEnd t) :
    Good cap (p.taskCancellation t tk) := by
  unfold taskCancellation
  split
  · rename_i hc
    obtain ⟨hg1, hr1⟩ := good_regCancel p t hg hr (by simpa using hc)
    exact good_cancelCallback _ t tk hg1 hr1
  · have hg1 := good_setLost p hg
    have hr1 : ({ p with lost := true } : Pool).ReadyToEnd t := hr
    have t1 := tame_modTask ({ p with lost := true } : Pool) t (fun k => { k with pendingExc := some .keyError })
      (fun _ => rfl) (fun _ => Or.inl rfl)
    exact good_taskEnding _ t (t1.good hg1) (t1.readyToEnd hr1)

/-- an unreleased task enters `wrapUp` and then `_task_ending` -/
theorem good_wrapUp_ending {cap : Cap} (p : Pool) (t : Nat) (f : PTask → PTask) (hg : Good cap p) (hu : p.Unreleased t)
    (hr : ∀ x, (f x).released = x.released) (hp : ∀ x, NYR (f x).phase = false) :
    Good cap ((p.modTask t f).taskEnding t) :=
  good_taskEnding _ t (good_modTask_unreleased p t f hg hu hr (phaseSafe_of_nonNYR p t f hp)).1
    (modTask_readyToEnd p t f hu hr hp)

/-- the worker coroutine is over (normally or with an exception): `wrapUp`, then `_task_ending` -/
theorem good_afterWorker {cap : Cap} (p : Pool) (t : Nat) (e : Option Err) (hg : Good cap p) (hu : p.Unreleased t) :
    Good cap (p.afterWorker t e) := by
  unfold afterWorker
  split
  · obtain ⟨hg1, hu1⟩ := Tame.goodU (tame_logEv p (Ev.returned t)) hg hu
    exact good_wrapUp_ending _ t _ hg1 hu1 (fun _ => rfl) (fun _ => rfl)
  · obtain ⟨hg1, hu1⟩ := Tame.goodU (tame_logEv p (Ev.raised t)) hg hu
    exact good_wrapUp_ending _ t _ hg1 hu1 (fun _ => rfl) (fun _ => rfl)

theorem good_stepCreated {cap : Cap} (p : Pool) (t : Nat) (tk : PTask) (hg : Good cap p) (hu : p.Unreleased t)
    (hnc : t ∉ p.cancelledR) : Good cap (p.stepCreated t tk) := by
  unfold stepCreated
  split
  · obtain ⟨hg1, _⟩ := good_modTask_unreleased p t
      (fun k => { k with phase := .wrapUp, unstarted := false, cancelledEarly := false }) hg hu (fun _ => rfl)
      (Or.inr (Or.inl hnc))
    exact good_taskCancellation _ t tk hg1 (modTask_readyToEnd _ t _ hu (fun _ => rfl) (fun _ => rfl))
  · simp only
    obtain ⟨hg0, hu0⟩ := Tame.goodU (tame_logEv p (Ev.started t tk.arg)) hg hu
    obtain ⟨hg1, hu1⟩ := good_modTask_unreleased (p.logEv (Ev.started t tk.arg)) t
      (fun k => { k with phase := .inWorker, fut := .ok, unstarted := false }) hg0 hu0 (fun _ => rfl)
      (Or.inr (Or.inl hnc))
    have t2 := tame_runHooks ((p.logEv (Ev.started t tk.arg)).modTask t
      (fun k => { k with phase := .inWorker, fut := .ok, unstarted := false })) tk.req (p.reqOf tk).hooks.start
    obtain ⟨hg2, hu2⟩ := Tame.goodU t2 hg1 hu1
    have hnc2 : t ∉ (((p.logEv (Ev.started t tk.arg)).modTask t
      (fun k => { k with phase := .inWorker, fut := .ok, unstarted := false })).runHooks tk.req (p.reqOf tk).hooks.start).cancelledR := by
      rw [t2.can]; exact hnc
    split
    · exact good_afterWorker _ t _ hg2 hu2
    · exact good_afterWorker _ t _ hg2 hu2
    · exact good_suspendTask _ t _ hg2 hu2 (Or.inl hnc2)

theorem good_workerCancelled {cap : Cap} (p : Pool) (t : Nat) (tk : PTask) (hg : Good cap p) (hu : p.Unreleased t) :
    Good cap (p.workerCancelled t tk) := by
  unfold workerCancelled
  simp only
  obtain ⟨hg0, hu0⟩ := Tame.goodU (tame_logEv p (Ev.sawCancel t)) hg hu
  obtain ⟨hg1, hu1⟩ := good_modTask_unreleased (p.logEv (Ev.sawCancel t)) t
    (fun k => { k with sawCancel := true, phase := .wrapUp }) hg0 hu0 (fun _ => rfl)
    (Or.inr (Or.inr fun _ => ⟨by simp, by simp⟩))
  split
  · exact good_afterWorker _ t _ hg1 hu1
  · exact good_taskCancellation _ t tk hg1 (modTask_readyToEnd _ t _ hu0 (fun _ => rfl) (fun _ => rfl))

theorem good_stepInWorker {cap : Cap} (p : Pool) (t : Nat) (tk : PTask) (hg : Good cap p) (hu : p.Unreleased t) :
    Good cap (p.stepInWorker t tk) := by
  unfold stepInWorker
  split
  · obtain ⟨hg1, hu1⟩ := good_modTask_unreleased p t (fun k => { k with mustCancel := false }) hg hu (fun _ => rfl)
      (Or.inl fun _ => rfl)
    exact good_workerCancelled _ t tk hg1 hu1
  · split
    · exact good_afterWorker p t _ hg hu
    · exact good_afterWorker p t _ hg hu
    · exact hg

theorem good_stepInCancelCb {cap : Cap} (p : Pool) (t : Nat) (tk : PTask) (hg : Good cap p) (hu : p.Unreleased t) :
    Good cap (p.stepInCancelCb t tk) := by
  unfold stepInCancelCb
  split
  · obtain ⟨hg1, hu1⟩ := Tame.goodU (tame_logEv p (Ev.cancelCbDone t)) hg hu
    exact good_wrapUp_ending _ t _ hg1 hu1 (fun _ => rfl) (fun _ => rfl)
  · obtain ⟨hg1, hu1⟩ := Tame.goodU (tame_logEv p (Ev.cancelCbRaised t)) hg hu
    exact good_wrapUp_ending _ t _ hg1 hu1 (fun _ => rfl) (fun _ => rfl)
  · obtain ⟨hg1, hu1⟩ := Tame.goodU (tame_logEv p (Ev.cancelCbKilled t)) hg hu
    exact good_wrapUp_ending _ t _ hg1 hu1 (fun _ => rfl) (fun _ => rfl)
  · exact hg

theorem tame_stepInEndCb (p : Pool) (t : Nat) (tk : PTask) : Tame p (p.stepInEndCb t tk) := by
  unfold stepInEndCb
  split
  · exact Tame.trans (tame_logEv p _) (tame_finishTask _ t)
  · refine Tame.trans ?_ (tame_finishTask _ t)
    exact Tame.trans (tame_logEv p _) (tame_modTask _ t _ (fun _ => rfl) (fun _ => Or.inl rfl))
  · refine Tame.trans ?_ (tame_finishTask _ t)
    exact Tame.trans (tame_logEv p _) (tame_modTask _ t _ (fun _ => rfl) (fun _ => Or.inl rfl))
  · exact Tame.refl p

/-- one step of any pool task preserves slot conservation, the phase invariant and the registry invariant -/
theorem good_stepTask {cap : Cap} (p : Pool) (t : Nat) (hg : Good cap p) : Good cap (p.stepTask t) := by
  unfold stepTask
  split
  · exact hg
  · rename_i tk htk
    split
    · exact hg
    · simp only
      have t0 := tame_modTask p t (fun k => { k with sched := false }) (fun _ => rfl) (fun _ => Or.inl rfl)
      have hg0 := t0.good hg
      have unrel : NYR tk.phase = true → (p.modTask t fun k => { k with sched := false }).Unreleased t :=
        fun hn => t0.unreleased ⟨tk, htk, hg.phase t tk htk hn⟩
      have notCan : tk.phase = .created → t ∉ (p.modTask t fun k => { k with sched := false }).cancelledR := by
        intro hph hmem
        obtain ⟨tk', a, _, c, _⟩ := hg.reg.can t hmem
        rw [htk] at a; cases a
        exact c hph
      split
      · rename_i hph; exact good_stepCreated _ t tk hg0 (unrel (by rw [hph]; rfl)) (notCan hph)
      · exact hg0
      · rename_i hph; exact good_stepInWorker _ t tk hg0 (unrel (by rw [hph]; rfl))
      · rename_i hph; exact good_stepInCancelCb _ t tk hg0 (unrel (by rw [hph]; rfl))
      · exact (tame_stepInEndCb _ t tk).good hg0
      · exact hg0

end Pool
end Taskpool
