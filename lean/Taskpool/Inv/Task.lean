import Taskpool.Inv.MapSem
/-! The wrapper of a pool task preserves `Good` — slot conservation, phase, registry, group and **life-cycle**
invariants — in every phase, user code included.

Every change of the *soft profile* (phase, released, callback counters, cancelled flag, bound callbacks) of the
task being stepped goes through `good_cur` with an explicit profile transformer; everything else is `Tame`. -/
namespace Taskpool
namespace Pool

/-- the current soft profile of task `t` -/
def Cur (p : Pool) (t : Nat) (s : SoftP) : Prop := ∃ x : PTask, p.tasks[t]? = some x ∧ x.soft = s

theorem _root_.Taskpool.Tame.cur {p q : Pool} (h : Tame p q) {t : Nat} {s : SoftP} (hc : p.Cur t s) : q.Cur t s := by
  obtain ⟨x, hx, hs⟩ := hc
  have hlt : t < q.tasks.length := by rw [h.len]; exact (List.getElem?_eq_some_iff.mp hx).1
  obtain ⟨y, hy, e⟩ := h.soft t q.tasks[t] (by simp [hlt])
  rw [hx] at hy; cases hy
  exact ⟨q.tasks[t], by simp [hlt], e.trans hs⟩

theorem Cur.ok {cap : Cap} {L R : Bool} {p : Pool} {t : Nat} {s : SoftP} (hc : p.Cur t s) (hg : Good cap L R p) : OKs p.lost s := by
  obtain ⟨x, hx, hs⟩ := hc
  rw [← hs]; exact hg.life t x hx

theorem Cur.nyr {cap : Cap} {L R : Bool} {p : Pool} {t : Nat} {s : SoftP} (hc : p.Cur t s) (hg : Good cap L R p)
    (hn : NYR s.phase = true) : s.released = false := by
  obtain ⟨x, hx, hs⟩ := hc
  have := hg.phase t x hx (by rw [← hs] at hn; exact hn)
  rw [← hs]; exact this

theorem heldL_modify_at (ts : List PTask) (t : Nat) (f : PTask → PTask) (x : PTask) (hx : ts[t]? = some x)
    (h : (f x).released = x.released) : heldL (ts.modify t f) = heldL ts := by
  induction ts generalizing t with
  | nil => simp [heldL]
  | cons a as ih =>
    cases t with
    | zero => simp at hx; subst hx; simp [heldL, List.countP_cons, h]
    | succ n =>
      simp at hx
      have := ih n hx
      simp only [heldL, List.modify_succ_cons, List.countP_cons] at this ⊢
      omega

/-- **the generic leaf**, everything but the map books: an update of task `t` whose effect on the soft profile is `g`,
keeping `released` -/
theorem good0_cur {cap : Cap} {L R : Bool} (p : Pool) (t : Nat) (f : PTask → PTask) (g : SoftP → SoftP)
    (hfg : ∀ x, (f x).soft = g x.soft) (hg : Good0 cap L R p) (s : SoftP) (hc : p.Cur t s)
    (hrel : (g s).released = s.released)
    (hnyr : NYR (g s).phase = true → s.released = false)
    (hcan : t ∈ p.cancelledR → (g s).phase ≠ .created ∧ (g s).phase ≠ .inWorker)
    (hok : OKs p.lost (g s))
    (hfin : s.phase = .finished → (g s).phase = .finished := by intro h; first | exact h | rfl | simp_all) :
    Good0 cap L R (p.modTask t f) ∧ (p.modTask t f).Cur t (g s) := by
  obtain ⟨x, hx, hs⟩ := hc
  have hfx : (f x).soft = g s := by rw [hfg, hs]
  have hrelx : (f x).released = x.released := by
    have h1 : (f x).released = (g s).released := by rw [← hfx]; rfl
    have h2 : x.released = s.released := by rw [← hs]; rfl
    rw [h1, hrel, h2]
  have hphx : (f x).phase = (g s).phase := by rw [← hfx]; rfl
  have hfl : FlushOK (p.modTask t f) := by
    refine hg.fl.frame rfl rfl ?_
    intro i ⟨y, hy, hyf⟩
    by_cases e : t = i
    · subst e
      rw [hx] at hy; cases hy
      refine ⟨f x, getElem?_modify_eq _ _ _ _ hx, ?_⟩
      rw [hphx]
      apply hfin
      rw [← hs]; exact hyf
    · exact ⟨y, by simp only [modTask_tasks, List.getElem?_modify, e, if_false, hy]; rfl, hyf⟩
  refine ⟨⟨?_, ?_, ?_, hg.grp.of_eq rfl (by simp [modTask]), ?_, hfl, hg.wk.of_eq rfl rfl, hg.rz, hg.ll, hg.al⟩, ⟨f x, getElem?_modify_eq _ _ _ _ hx, hfx⟩⟩
  · cases cap with
    | fin n =>
      obtain ⟨v, hv, hsum⟩ := hg.slot
      exact ⟨v, hv, by simp only [modTask]; rw [heldL_modify_at _ _ _ x hx hrelx]; exact hsum⟩
    | inf => exact hg.slot
  · intro i tk' h hn
    obtain ⟨y, hy, rfl⟩ := getElem?_modify_some p.tasks t i f tk' h
    split
    · rename_i e; subst e
      rw [hx] at hy; cases hy
      rw [hrelx]
      have : x.released = s.released := by rw [← hs]; rfl
      rw [this]
      apply hnyr
      simp only [if_true] at hn
      rw [← hphx]; exact hn
    · rename_i ne
      simp only [ne, if_false] at hn
      exact hg.phase i y hy hn
  · exact hg.reg.modTaskAt t f x hx hrelx (fun hm => by rw [hphx]; exact hcan hm)
  · intro i tk' h
    obtain ⟨y, hy, rfl⟩ := getElem?_modify_some p.tasks t i f tk' h
    split
    · rename_i e; subst e
      rw [hx] at hy; cases hy
      rw [hfx]; exact hok
    · exact hg.life i y hy

/-- **the generic leaf**: … that moves no map slot either -/
theorem good_cur {cap : Cap} {L R : Bool} (p : Pool) (t : Nat) (f : PTask → PTask) (g : SoftP → SoftP)
    (hfg : ∀ x, (f x).soft = g x.soft) (hg : Good cap L R p) (s : SoftP) (hc : p.Cur t s)
    (hrel : (g s).released = s.released)
    (hnyr : NYR (g s).phase = true → s.released = false)
    (hcan : t ∈ p.cancelledR → (g s).phase ≠ .created ∧ (g s).phase ≠ .inWorker)
    (hok : OKs p.lost (g s))
    (hmap : (g s).mapHeld = s.mapHeld ∧ (g s).req = s.req := by exact ⟨rfl, rfl⟩)
    (hfin : s.phase = .finished → (g s).phase = .finished := by intro h; first | exact h | rfl | simp_all) :
    Good cap L R (p.modTask t f) ∧ (p.modTask t f).Cur t (g s) := by
  obtain ⟨h0, hc'⟩ := good0_cur p t f g hfg hg.toGood0 s hc hrel hnyr hcan hok hfin
  obtain ⟨x, hx, hs⟩ := hc
  have hfx : (f x).soft = g s := by rw [hfg, hs]
  have hmf : MapFrame p (p.modTask t f) := by
    refine MapFrame.modify p (p.modTask t f) t f rfl rfl ?_
    intro y hy
    rw [hx] at hy; cases hy
    have a : (f x).mapHeld = (g s).mapHeld := by rw [← hfx]; rfl
    have b : (f x).req = (g s).req := by rw [← hfx]; rfl
    have c : x.mapHeld = s.mapHeld := by rw [← hs]; rfl
    have d : x.req = s.req := by rw [← hs]; rfl
    rw [a, b, c, d]; exact hmap
  exact ⟨⟨h0, hmf.map hg.map, hmf.acc hg.acc, hg.canc.of_eq rfl rfl⟩, hc'⟩

/-! ### profile transformers -/

def _root_.Taskpool.SoftP.setPhase (s : SoftP) (ph : Phase) : SoftP := { s with phase := ph }
def _root_.Taskpool.SoftP.incCb (s : SoftP) (isEnd : Bool) : SoftP := if isEnd then { s with nEC := s.nEC + 1 } else { s with nCC := s.nCC + 1 }

theorem nonNYR_ne (ph : Phase) (h : NYR ph = false) : ph ≠ .created ∧ ph ≠ .inWorker :=
  ⟨fun e => by rw [e] at h; exact absurd h (by decide), fun e => by rw [e] at h; exact absurd h (by decide)⟩

/-- changing the phase among phases that carry no life-cycle obligation keeps the profile well-formed -/
theorem _root_.Taskpool.OKs.setPhase_free {lost : Bool} {s : SoftP} (h : OKs lost s) (ph : Phase)
    (hph : ph = .wrapUp ∨ (ph = .finished ∧ lost = true)) (hnf : s.phase ≠ .finished) : OKs lost (s.setPhase ph) := by
  refine ⟨h.e0, h.e1, h.c1, ?_, h.cw, ?_, ?_, h.ord, h.cn, h.en, ?_, h.s1, ?_, h.mh, fun ho => absurd (h.out ho) hnf⟩
  rotate_right
  · intro hc; rcases hph with rfl | ⟨rfl, _⟩ <;> simp [SoftP.setPhase] at hc
  · intro hc; rcases hph with rfl | ⟨rfl, _⟩ <;> simp [SoftP.setPhase] at hc
  · intro hc; rcases hph with rfl | ⟨rfl, _⟩ <;> simp [SoftP.setPhase] at hc
  · intro hc; rcases hph with rfl | ⟨rfl, _⟩ <;> simp [SoftP.setPhase] at hc
  · intro hc hl
    rcases hph with rfl | ⟨_, hl'⟩
    · simp [SoftP.setPhase] at hc
    · rw [hl'] at hl; cases hl

theorem _root_.Taskpool.OKs.toLost {lost : Bool} {s : SoftP} (h : OKs lost s) : OKs true s :=
  ⟨h.e0, h.e1, h.c1, h.c0, h.cw, h.cc, h.ec, h.ord, h.cn, h.en, (fun _ hl => by cases hl), h.s1, h.s0, h.mh, h.out⟩

/-- a released task whose callbacks are accounted for may finish -/
theorem _root_.Taskpool.OKs.finished {lost : Bool} {s : SoftP} (h : OKs lost s) (hr : s.released = true)
    (hne : s.nEC = if s.endCb = .none then 0 else 1)
    (hA : s.wasCancelled = true → s.cancelCb ≠ .none → s.nCC = 1) : OKs lost (s.setPhase .finished) := by
  refine ⟨h.e0, h.e1, h.c1, ?_, h.cw, ?_, ?_, h.ord, h.cn, h.en, ?_, h.s1, (fun hc => by simp [SoftP.setPhase] at hc), h.mh, fun _ => rfl⟩
  · intro hc; simp [SoftP.setPhase] at hc
  · intro hc; simp [SoftP.setPhase] at hc
  · intro hc; simp [SoftP.setPhase] at hc
  · intro _ _
    refine ⟨hr, hne, ?_, ?_⟩
    · intro hw
      show s.nCC = if s.cancelCb = .none then 0 else 1
      by_cases hn : s.cancelCb = .none
      · simp [hn, h.cn hn]
      · simp [hn, hA hw hn]
    · intro hw
      have hw' : s.wasCancelled = false := hw
      show s.nCC = 0
      have h1 := h.c1
      have h2 := h.cw
      rcases Nat.lt_or_ge s.nCC 1 with hlt | hge
      · omega
      · have : s.nCC = 1 := by omega
        rw [h2 this] at hw'; cases hw'

theorem good_setLost {cap : Cap} (p : Pool) (hg : Good cap true R p) : Good cap true R ({ p with lost := true } : Pool) :=
  ⟨⟨hg.slot, hg.phase, hg.reg.setLost, hg.grp.of_eq rfl rfl, fun t tk h => (hg.life t tk h).toLost,
    hg.fl.frame rfl rfl (fun _ h => h), hg.wk.of_eq rfl rfl, hg.rz,
    fun h => Bool.noConfusion h, fun h => Bool.noConfusion h⟩, hg.map.of_eq rfl rfl, hg.acc.of_eq rfl rfl, hg.canc.of_eq rfl rfl⟩

/-- in the strict variant the registries are complete, so `_task_ending` finds the id (no `KeyError`) -/
theorem strict_moveToEnded {cap : Cap} (p : Pool) (t : Nat) (hg : Good cap false R p) (s : SoftP) (hc : p.Cur t s)
    (hrel : s.released = false) : p.moveToEnded t ≠ none := by
  obtain ⟨x, hx, hs⟩ := hc
  have hr : x.released = false := by rw [← hs] at hrel; exact hrel
  have := hg.reg.cpl (hg.ll rfl) t x hx hr
  unfold moveToEnded
  rcases this with h | h
  · simp [h]
  · by_cases h' : t ∈ p.running
    · simp [h']
    · simp [h', h]

/-- the asyncio Task of pool task `t` completes -/
theorem good_completeTask {cap : Cap} {L R : Bool} (p : Pool) (t : Nat) (o : Outcome) (hg : Good cap L R p) (s : SoftP) (hc : p.Cur t s)
    (hfin : OKs p.lost (s.setPhase .finished)) : Good cap L R (p.completeTask t o) := by
  unfold completeTask
  obtain ⟨x, hx, hs⟩ := hc
  simp only [hx]
  refine (tame_emitChildren _ _).good ?_
  exact (good_cur p t _ (fun s => { s.setPhase .finished with hasOut := true }) (fun _ => rfl) hg s ⟨x, hx, hs⟩ rfl
    (fun h => by simp [SoftP.setPhase, NYR] at h) (fun _ => by simp [SoftP.setPhase])
    ⟨hfin.e0, hfin.e1, hfin.c1, hfin.c0, hfin.cw, hfin.cc, hfin.ec, hfin.ord, hfin.cn, hfin.en, hfin.fin, hfin.s1, hfin.s0, hfin.mh,
      fun _ => rfl⟩).1

theorem good_finishTask {cap : Cap} {L R : Bool} (p : Pool) (t : Nat) (hg : Good cap L R p) (s : SoftP) (hc : p.Cur t s)
    (hfin : OKs p.lost (s.setPhase .finished)) : Good cap L R (p.finishTask t) := by
  unfold finishTask
  obtain ⟨x, hx, hs⟩ := hc
  simp only [hx]
  exact good_completeTask p t _ hg s ⟨x, hx, hs⟩ hfin

theorem good_keyErrorFinish {cap : Cap} (p : Pool) (t) (hg : Good cap true R p) (s : SoftP) (hc : p.Cur t s)
    (hph : s.phase = .wrapUp) : Good cap true R (p.keyErrorFinish t) := by
  unfold keyErrorFinish
  have hg1 := good_setLost p hg
  have hc1 : ({ p with lost := true } : Pool).Cur t s := hc
  have t1 := tame_modTask ({ p with lost := true } : Pool) t (fun k => { k with pendingExc := some .keyError })
  refine good_finishTask _ t (t1.good hg1) s (t1.cur hc1) ?_
  have hok : OKs true s := (hc.ok hg).toLost
  exact hok.setPhase_free .finished (Or.inr ⟨rfl, rfl⟩) (by rw [hph]; intro c; cases c)

/-- the profile after the wrapped end callback of a map task has given back the map slot -/
def _root_.Taskpool.SoftP.dropMapIf (s : SoftP) : SoftP := { s with mapHeld := s.mapHeld && !s.isMap }

theorem _root_.Taskpool.OKs.dropMapIf {lost : Bool} {s : SoftP} (h : OKs lost s) (hr : s.released = true) :
    OKs lost s.dropMapIf :=
  ⟨h.e0, h.e1, h.c1, h.c0, h.cw, h.cc, h.ec, h.ord, h.cn, h.en, h.fin, h.s1, h.s0,
    (fun _ hc => by have : s.released = false := hc; rw [hr] at this; cases this), h.out⟩

/-- the wrapped end callback of a map task: the map slot goes back to the call's own semaphore — exactly once,
because the task still held it -/
theorem releaseMap_modTask_comm (p : Pool) (m t : Nat) (f : PTask → PTask) :
    (p.releaseMap m).modTask t f = (p.modTask t f).releaseMap m := by
  unfold releaseMap
  show (match p.reqs[m]? with | none => p | some r => _).modTask t f = (match p.reqs[m]? with | none => p.modTask t f | some r => _)
  cases p.reqs[m]? with
  | none => rfl
  | some r =>
    simp only
    cases r.mapSem.release.2 <;> rfl

theorem Cur.of_tame0 {p q : Pool} (h : Tame0 p q) {t : Nat} {s : SoftP} (hc : p.Cur t s) : q.Cur t s := by
  obtain ⟨x, hx, hs⟩ := hc
  have hlt : t < q.tasks.length := by rw [h.len]; exact (List.getElem?_eq_some_iff.mp hx).1
  obtain ⟨y, hy, e⟩ := h.soft t q.tasks[t] (by simp [hlt])
  rw [hx] at hy; cases hy
  exact ⟨q.tasks[t], by simp [hlt], e.trans hs⟩

theorem good_releaseMapSlot {cap : Cap} {L R : Bool} (p : Pool) (t : Nat) (tk : PTask) (hg : Good cap L R p) (s : SoftP)
    (hc : p.Cur t s) (hr : s.released = true) (hph : s.phase = .wrapUp) (hmh : s.isMap = true → s.mapHeld = true)
    (hi : tk.isMap = s.isMap) (hq : tk.req = s.req) :
    Good cap L R (p.releaseMapSlot t tk) ∧ (p.releaseMapSlot t tk).Cur t s.dropMapIf ∧
      (p.releaseMapSlot t tk).lost = p.lost := by
  unfold releaseMapSlot
  split
  · rename_i him
    have hsm : s.isMap = true := by rw [← hi]; exact him
    -- everything but the map books: a tame change, then the generic leaf
    have t0 := tame0_releaseMap p tk.req
    have hg0 := t0.good0 hg.toGood0
    have hc0 : (p.releaseMap tk.req).Cur t s := Cur.of_tame0 t0 hc
    have hok : OKs (p.releaseMap tk.req).lost s := by rw [t0.lost]; exact hc.ok hg
    have hdm : s.dropMapIf = { s with mapHeld := false } := by
      unfold SoftP.dropMapIf; rw [hsm]; simp
    obtain ⟨h1, hc1⟩ := good0_cur (p.releaseMap tk.req) t (fun k => { k with mapHeld := false })
      (fun s => { s with mapHeld := false }) (fun _ => rfl)
      hg0 s hc0 rfl (fun h => by have : NYR s.phase = true := h; rw [hph] at this; simp [NYR] at this)
      (fun _ => by show s.phase ≠ _ ∧ s.phase ≠ _; rw [hph]; simp) (by rw [← hdm]; exact hok.dropMapIf hr)
    have hacc : AccOK ((p.releaseMap tk.req).modTask t fun k => { k with mapHeld := false }) :=
      ((accFrame_releaseMap p tk.req).trans (accFrame_modTask _ t (fun k => { k with mapHeld := false }) (fun _ => rfl))).acc hg.acc
    refine ⟨⟨h1, ?_, hacc, (cancOK_releaseMap p tk.req hg.canc).of_eq rfl rfl⟩, by rw [hdm]; exact hc1, t0.lost⟩
    -- the map books: the task drops its slot, the call's semaphore takes it back
    obtain ⟨x, hx, hs⟩ := hc
    have hxh : x.mapHeld = true := by have := hmh hsm; rw [← hs] at this; exact this
    have hxq : x.req = tk.req := by rw [hq, ← hs]; rfl
    have hlt : tk.req < p.reqs.length := by rw [← hxq]; exact hg.map.ref t x hx hxh
    rw [releaseMap_modTask_comm]
    have m1 := (hg.map.mid tk.req).dropTask t (fun k => { k with mapHeld := false }) x hx hxh hxq rfl rfl
    exact (mapMid_releaseMap m1 (by simpa [modTask] using hlt)).ok
  · rename_i him
    have hsm : s.isMap = false := by rw [← hi]; simpa using him
    have hdm : s.dropMapIf = s := by
      cases s; simp_all [SoftP.dropMapIf]
    rw [hdm]
    exact ⟨hg, hc, rfl⟩

theorem good_cbBegin_lost (p : Pool) (t : Nat) (tk : PTask) (isEnd : Bool) : (p.cbBegin t tk isEnd).lost = p.lost := by
  unfold cbBegin
  exact (Tame.trans (tame_logEv (p.modTask t (cbCount isEnd)) _) (tame_runHooks _ _ _)).lost

/-- entering a callback: the ghost counter goes up by one, then the log entry and the callback's user code -/
theorem good_cbBegin {cap : Cap} {L R : Bool} (p : Pool) (t : Nat) (tk : PTask) (isEnd : Bool) (hg : Good cap L R p) (s : SoftP)
    (hc : p.Cur t s) (hnot : s.phase = .wrapUp) (hok : OKs p.lost (s.incCb isEnd)) :
    Good cap L R (p.cbBegin t tk isEnd) ∧ (p.cbBegin t tk isEnd).Cur t (s.incCb isEnd) := by
  unfold cbBegin
  simp only
  have h1 := good_cur p t (cbCount isEnd) (fun s => s.incCb isEnd)
    (fun x => by unfold cbCount SoftP.incCb; split <;> rfl) hg s hc
    (by unfold SoftP.incCb; split <;> rfl)
    (fun h => by
      have : (s.incCb isEnd).phase = s.phase := by unfold SoftP.incCb; split <;> rfl
      rw [this, hnot] at h; simp [NYR] at h)
    (fun _ => by
      have : (s.incCb isEnd).phase = s.phase := by unfold SoftP.incCb; split <;> rfl
      rw [this, hnot]; simp)
    hok (by unfold SoftP.incCb; split <;> exact ⟨rfl, rfl⟩)
  refine ⟨Tame.good ?_ h1.1, Tame.cur ?_ h1.2⟩
  · exact Tame.trans (tame_logEv _ _) (tame_runHooks _ _ _)
  · exact Tame.trans (tame_logEv _ _) (tame_runHooks _ _ _)

/-- suspending on a harness future in phase `ph` -/
theorem good_suspend {cap : Cap} {L R : Bool} (p : Pool) (t : Nat) (ph : Phase) (hg : Good cap L R p) (s : SoftP) (hc : p.Cur t s)
    (hnyr : NYR ph = true → s.released = false)
    (hcan : t ∈ p.cancelledR → ph ≠ .created ∧ ph ≠ .inWorker)
    (hok : OKs p.lost (s.setPhase ph)) (hnf : s.phase ≠ .finished) :
    Good cap L R (p.suspendTask t ph) ∧ (p.suspendTask t ph).Cur t (s.setPhase ph) := by
  unfold suspendTask
  obtain ⟨x, hx, hs⟩ := hc
  simp only [hx]
  split
  · have h1 := good_cur p t (fun k => { k with phase := ph, fut := .cancelled, mustCancel := false })
      (fun s => s.setPhase ph) (fun _ => rfl) hg s ⟨x, hx, hs⟩ rfl hnyr hcan hok ⟨rfl, rfl⟩ (fun h => absurd h hnf)
    exact ⟨(tame_schedTask _ t).good h1.1, (tame_schedTask _ t).cur h1.2⟩
  · exact good_cur p t (fun k => { k with phase := ph, fut := .pending })
      (fun s => s.setPhase ph) (fun _ => rfl) hg s ⟨x, hx, hs⟩ rfl hnyr hcan hok ⟨rfl, rfl⟩ (fun h => absurd h hnf)

/-- the callback-accounting facts about a task that is about to run `_task_ending` -/
structure Ending (s : SoftP) : Prop where
  rel : s.released = false
  ph : s.phase = .wrapUp
  acc : s.wasCancelled = true → s.cancelCb ≠ .none → s.nCC = 1

def _root_.Taskpool.SoftP.release (s : SoftP) : SoftP := { s with released := true }

theorem _root_.Taskpool.OKs.release {lost : Bool} {s : SoftP} (h : OKs lost s) (hph : s.phase = .wrapUp) :
    OKs lost s.release := by
  refine ⟨fun hc => by simp [SoftP.release] at hc, h.e1, h.c1, h.c0, h.cw, h.cc, ?_, h.ord, h.cn, h.en, ?_, h.s1, h.s0, fun _ hc => by simp [SoftP.release] at hc, h.out⟩
  · intro hc; have : s.phase = .inEndCb := hc; rw [hph] at this; cases this
  · intro hc; have : s.phase = .finished := hc; rw [hph] at this; cases this

theorem _root_.Taskpool.OKs.incEnd {lost : Bool} {s : SoftP} (h : OKs lost s) (hr : s.released = true)
    (hph : s.phase = .wrapUp) (hne : s.nEC = 0) (hA : s.wasCancelled = true → s.cancelCb ≠ .none → s.nCC = 1)
    (hecb : s.endCb ≠ .none) : OKs lost (s.incCb true) := by
  have hphase : (s.incCb true).phase = .wrapUp := hph
  refine ⟨?_, ?_, h.c1, ?_, h.cw, ?_, ?_, ?_, h.cn, ?_, ?_, h.s1, (fun hc => by rw [hphase] at hc; rcases hc with hc | hc <;> cases hc), h.mh,
    fun ho => by have := h.out (by simpa [SoftP.incCb] using ho); rw [hph] at this; cases this⟩
  · intro hc; have : s.released = false := hc; rw [hr] at this; cases this
  · show s.nEC + 1 ≤ 1; omega
  · intro hc; rw [hphase] at hc; rcases hc with hc | hc <;> cases hc
  · intro hc; rw [hphase] at hc; cases hc
  · intro hc; rw [hphase] at hc; cases hc
  · intro _ hw hn; exact hA hw hn
  · intro hc; exact absurd hc hecb
  · intro hc; rw [hphase] at hc; cases hc

theorem _root_.Taskpool.OKs.toEndCb {lost : Bool} {s : SoftP} (h : OKs lost s) (hr : s.released = true)
    (hne : s.nEC = 1) (hecb : s.endCb = .coro) (hnf : s.phase ≠ .finished) : OKs lost (s.setPhase .inEndCb) := by
  refine ⟨h.e0, h.e1, h.c1, ?_, h.cw, ?_, ?_, h.ord, h.cn, h.en, ?_, h.s1, (fun hc => by simp [SoftP.setPhase] at hc), h.mh,
    fun ho => absurd (h.out ho) hnf⟩
  · intro hc; simp [SoftP.setPhase] at hc
  · intro hc; simp [SoftP.setPhase] at hc
  · intro _; exact ⟨hne, hecb, hr⟩
  · intro hc; simp [SoftP.setPhase] at hc

/-- the end callback stage of `_task_ending`, for a task that has just been filed as ended and released -/
theorem good_endCallbackTail {cap : Cap} {L R : Bool} (q : Pool) (t : Nat) (tk : PTask) (hg0 : Good cap L R q) (s : SoftP) (hc0 : q.Cur t s)
    (hr : s.released = true) (hph : s.phase = .wrapUp) (hne : s.nEC = 0)
    (hA : s.wasCancelled = true → s.cancelCb ≠ .none → s.nCC = 1) (hspec : tk.endCb = s.endCb) :
    Good cap L R (if (q.runCb t tk true).2 = true then (q.runCb t tk true).1 else (q.runCb t tk true).1.finishTask t) := by
  have hok := hc0.ok hg0
  unfold runCb
  simp only [if_true]
  split
  · -- no end callback
    rename_i hcb
    simp only [Bool.false_eq_true, if_false]
    refine good_finishTask _ t hg0 s hc0 ?_
    exact hok.finished hr (by rw [hne, ← hspec, hcb]; rfl) hA
  · -- a plain callback
    rename_i hcb
    simp only [Bool.false_eq_true, if_false]
    have hecb : s.endCb ≠ .none := by rw [← hspec, hcb]; simp
    have hinc := hok.incEnd hr hph hne hA hecb
    obtain ⟨hg1, hc1⟩ := good_cbBegin _ t tk true hg0 s hc0 hph hinc
    have t2 := tame_logEv (q.cbBegin t tk true) (evCbDone t true)
    refine good_finishTask _ t (t2.good hg1) _ (t2.cur hc1) ?_
    have hl : ((q.cbBegin t tk true).logEv (evCbDone t true)).lost = q.lost := by
      have := (good_cbBegin_lost q t tk true); exact this
    rw [hl]
    exact hinc.finished hr (by show s.nEC + 1 = _; rw [hne]; simp [SoftP.incCb, hecb]) hA
  · -- a callback that raises
    rename_i x hcb
    simp only [Bool.false_eq_true, if_false]
    have hecb : s.endCb ≠ .none := by rw [← hspec, hcb]; simp
    have hinc := hok.incEnd hr hph hne hA hecb
    obtain ⟨hg1, hc1⟩ := good_cbBegin _ t tk true hg0 s hc0 hph hinc
    have t2 : Tame (q.cbBegin t tk true)
        (((q.cbBegin t tk true).logEv (evCbRaised t true)).modTask t fun k => { k with pendingExc := some x }) :=
      Tame.trans (tame_logEv _ _) (tame_modTask _ t _)
    refine good_finishTask _ t (t2.good hg1) _ (t2.cur hc1) ?_
    rw [t2.lost, good_cbBegin_lost]
    exact hinc.finished hr (by show s.nEC + 1 = _; rw [hne]; simp [SoftP.incCb, hecb]) hA
  · -- a coroutine callback: the wrapper suspends inside it
    rename_i hcb
    simp only [if_true]
    have hecb : s.endCb = .coro := by rw [← hspec, hcb]
    have hinc := hok.incEnd hr hph hne hA (by rw [hecb]; simp)
    obtain ⟨hg1, hc1⟩ := good_cbBegin _ t tk true hg0 s hc0 hph hinc
    refine (good_suspend _ t .inEndCb hg1 _ hc1 (fun h => by simp [NYR] at h) (fun _ => by simp) ?_
      (by show (s.incCb true).phase ≠ _; rw [show (s.incCb true).phase = s.phase from rfl, hph]; simp)).1
    rw [good_cbBegin_lost]
    exact hinc.toEndCb hr (by show s.nEC + 1 = 1; omega) hecb
      (by show (s.incCb true).phase ≠ _; rw [show (s.incCb true).phase = s.phase from rfl, hph]; simp)


/-- the end callback stage of `_task_ending`, for a task that has just been filed as ended and released -/
theorem good_endCallback {cap : Cap} {L R : Bool} (p : Pool) (t : Nat) (tk : PTask) (hg : Good cap L R p) (s : SoftP) (hc : p.Cur t s)
    (hr : s.released = true) (hph : s.phase = .wrapUp) (hne : s.nEC = 0)
    (hA : s.wasCancelled = true → s.cancelCb ≠ .none → s.nCC = 1) (hspec : tk.endCb = s.endCb)
    (hmh : s.isMap = true → s.mapHeld = true) (hi : tk.isMap = s.isMap) (hq : tk.req = s.req) :
    Good cap L R (p.endCallback t tk) := by
  unfold endCallback
  simp only
  obtain ⟨hg0, hc0, _⟩ := good_releaseMapSlot p t tk hg s hc hr hph hmh hi hq
  exact good_endCallbackTail _ t tk hg0 s.dropMapIf hc0 hr hph hne hA hspec

/-- the id is filed as ended, the slot is given back and the task marked released — one atomic leaf -/
theorem good_moveRelease {cap : Cap} {L R : Bool} (p p1 : Pool) (t : Nat) (hg : Good cap L R p) (s : SoftP) (hc : p.Cur t s)
    (he : Ending s) (hm : p.moveToEnded t = some p1) :
    Good cap L R ((p1.releasePool).modTask t fun k => { k with released := true }) ∧
    ((p1.releasePool).modTask t fun k => { k with released := true }).Cur t s.release := by
  obtain ⟨tk, a, hs⟩ := hc
  have b : tk.released = false := by have := he.rel; rw [← hs] at this; exact this
  have c : NYR tk.phase = false := by
    have : tk.phase = .wrapUp := by have := he.ph; rw [← hs] at this; exact this
    rw [this]; rfl
  obtain ⟨hs1, ht1⟩ := moveToEnded_frame p p1 t hm
  have h3 : p1.releasePool.tasks = p1.tasks := releasePool_tasks' p1
  obtain ⟨r1, r2, r3, r4⟩ := releasePool_regs p1
  have hlost : ((p1.releasePool).modTask t fun k => { k with released := true }).lost = p.lost :=
    r4.trans (moveToEnded_lost p p1 t hm)
  have hgr : ((p1.releasePool).modTask t fun k => { k with released := true }).groups = p.groups := by
    rw [show ((p1.releasePool).modTask t fun k => { k with released := true }).groups = p1.releasePool.groups from rfl,
      releasePool_groups, moveToEnded_groups p p1 t hm]
  have hget : ((p1.releasePool).modTask t fun k => { k with released := true }).tasks[t]? = some { tk with released := true } := by
    simp only [modTask_tasks, h3, ht1]; exact getElem?_modify_eq _ _ _ _ a
  have hap : ((p1.releasePool).modTask t fun k => { k with released := true }).apis = p.apis := by
    rw [show ((p1.releasePool).modTask t fun k => { k with released := true }).apis = p1.releasePool.apis from rfl,
      releasePool_apis, moveToEnded_apis p p1 t hm]
  have hmp : MapOK ((p1.releasePool).modTask t fun k => { k with released := true }) := by
    have f1 : MapFrame p p1 := MapFrame.of_tasks p p1 (moveToEnded_reqs p p1 t hm) (by rw [ht1])
      (fun i tk' h => by rw [ht1] at h; exact ⟨tk', h, rfl, rfl⟩)
    have f2 := mapFrame_releasePool p1
    have f3 : MapFrame p1.releasePool ((p1.releasePool).modTask t fun k => { k with released := true }) :=
      MapFrame.modify _ _ t _ rfl rfl (fun _ _ => ⟨rfl, rfl⟩)
    exact ((f1.trans f2).trans f3).map hg.map
  have hac : AccOK ((p1.releasePool).modTask t fun k => { k with released := true }) := by
    have f1 : MapFrame p p1 := MapFrame.of_tasks p p1 (moveToEnded_reqs p p1 t hm) (by rw [ht1])
      (fun i tk' h => by rw [ht1] at h; exact ⟨tk', h, rfl, rfl⟩)
    have f2 := mapFrame_releasePool p1
    have f3 : MapFrame p1.releasePool ((p1.releasePool).modTask t fun k => { k with released := true }) :=
      MapFrame.modify _ _ t _ rfl rfl (fun _ _ => ⟨rfl, rfl⟩)
    exact ((f1.trans f2).trans f3).acc hg.acc
  have hcn : CancOK ((p1.releasePool).modTask t fun k => { k with released := true }) := by
    have c1 : CancOK p1 := hg.canc.of_eq (moveToEnded_reqs p p1 t hm) (by rw [(moveToEnded_frame p p1 t hm).1])
    exact (cancOK_releasePool p1 c1).of_eq rfl rfl
  have hfl : FlushOK ((p1.releasePool).modTask t fun k => { k with released := true }) := by
    refine hg.fl.frame ?_ hap ?_
    · rw [show ((p1.releasePool).modTask t fun k => { k with released := true }).gathers = p1.releasePool.gathers from rfl,
        releasePool_gathers, moveToEnded_gathers p p1 t hm]
    · intro i ⟨y, hy, hyf⟩
      show ∃ tk', ((p1.releasePool).modTask t fun k => { k with released := true }).tasks[i]? = some tk' ∧ _
      simp only [modTask_tasks, h3, ht1]
      by_cases e : t = i
      · subst e
        rw [a] at hy; cases hy
        exact ⟨_, getElem?_modify_eq _ _ _ _ a, hyf⟩
      · exact ⟨y, by simp only [List.getElem?_modify, e, if_false, hy]; rfl, hyf⟩
  have hwk : WakeOK ((p1.releasePool).modTask t fun k => { k with released := true }) :=
    (wakeOK_releasePool p1).of_eq rfl rfl
  refine ⟨⟨⟨?_, ?_, ?_, hg.grp.of_eq hgr (by simp [modTask, h3, ht1]), ?_, hfl, hwk,
    fun h => by
      rw [show ((p1.releasePool).modTask t fun k => { k with released := true }).resized = p1.releasePool.resized from rfl,
        releasePool_resized, moveToEnded_resized p p1 t hm]; exact hg.rz h,
    fun h => by rw [hlost]; exact hg.ll h,
    fun h => by rw [hap]; exact hg.al h⟩, hmp, hac, hcn⟩, ⟨_, hget, by rw [← hs]; rfl⟩⟩
  · cases cap with
    | fin n =>
      obtain ⟨v, hv, hsum⟩ := hg.slot
      obtain ⟨v', h1, h2, _⟩ := releasePool_effect p1 v (by rw [hs1]; exact hv)
      refine ⟨v', by simpa using h1, ?_⟩
      have := heldL_modify_release p.tasks t tk (fun k => { k with released := true }) a b (fun _ => rfl)
      simp only [modTask_sem, modTask_tasks, h3, ht1, hs1] at *
      omega
    | inf =>
      have hv : p1.sem.value = .inf ∧ p1.sem.waiters = [] := by rw [hs1]; exact hg.slot
      exact releasePool_inf p1 hv.1 hv.2
  · intro i tk' h hn
    simp only [modTask, h3, ht1] at h
    obtain ⟨x, hx, rfl⟩ := getElem?_modify_some p.tasks t i _ tk' h
    split at hn
    · rename_i e; subst e
      rw [a] at hx; cases hx
      simp at hn; rw [c] at hn; cases hn
    · rename_i ne; simp only [ne, if_false]
      exact hg.phase i x hx hn
  · exact hg.reg.moveRelease t hm _ r1 r2 r3 hlost (by simp [modTask, h3, ht1])
  · intro i tk' h
    rw [hlost]
    simp only [modTask, h3, ht1] at h
    obtain ⟨x, hx, rfl⟩ := getElem?_modify_some p.tasks t i _ tk' h
    split
    · rename_i e; subst e
      rw [a] at hx; cases hx
      have hok : OKs p.lost s := by rw [← hs]; exact hg.life t tk a
      have : ({ tk with released := true } : PTask).soft = s.release := by rw [← hs]; rfl
      rw [this]; exact hok.release he.ph
    · exact hg.life i x hx

/-- `_task_ending` for a task that is ready to end -/
theorem good_taskEnding {cap : Cap} {L R : Bool} (p : Pool) (t : Nat) (hg : Good cap L R p) (s : SoftP) (hc : p.Cur t s)
    (he : Ending s) : Good cap L R (p.taskEnding t) := by
  unfold taskEnding
  obtain ⟨x, hx, hs⟩ := hc
  simp only [hx]
  split
  · rename_i hm
    cases L with
    | false => exact absurd hm (strict_moveToEnded p t hg s ⟨x, hx, hs⟩ he.rel)
    | true => exact good_keyErrorFinish p t hg s ⟨x, hx, hs⟩ he.ph
  · rename_i p1 hm
    unfold endingTail
    obtain ⟨hg1, hc1⟩ := good_moveRelease p p1 t hg s ⟨x, hx, hs⟩ he hm
    have hne : s.nEC = 0 := (Cur.ok (p := p) (t := t) ⟨x, hx, hs⟩ hg).e0 he.rel
    have hspecx : x.endCb = s.endCb := by rw [← hs]; rfl
    have hmh : s.isMap = true → s.mapHeld = true :=
      fun h => (Cur.ok (p := p) (t := t) ⟨x, hx, hs⟩ hg).mh h he.rel
    exact good_endCallback _ t x hg1 s.release hc1 rfl he.ph hne he.acc hspecx hmh (by rw [← hs]; rfl) (by rw [← hs]; rfl)

/-! ### the cancel callback stage -/

def _root_.Taskpool.SoftP.markCancelled (s : SoftP) : SoftP := { s with wasCancelled := true }

theorem _root_.Taskpool.OKs.markCancelled {lost : Bool} {s : SoftP} (h : OKs lost s) (hph : s.phase = .wrapUp)
    (hrel : s.released = false) : OKs lost s.markCancelled := by
  have hne := h.e0 hrel
  refine ⟨h.e0, h.e1, h.c1, ?_, fun _ => rfl, h.cc, h.ec, ?_, h.cn, h.en, ?_, h.s1, h.s0, h.mh, h.out⟩
  · intro hc; have : s.phase = .created ∨ s.phase = .inWorker := hc; rw [hph] at this; rcases this with h | h <;> cases h
  · intro hc; have : s.nEC = 1 := hc; omega
  · intro hc; have : s.phase = .finished := hc; rw [hph] at this; cases this

theorem _root_.Taskpool.OKs.incCancel {lost : Bool} {s : SoftP} (h : OKs lost s) (hph : s.phase = .wrapUp)
    (hrel : s.released = false) (hn : s.nCC = 0) (hw : s.wasCancelled = true) (hccb : s.cancelCb ≠ .none) :
    OKs lost (s.incCb false) := by
  have hphase : (s.incCb false).phase = .wrapUp := hph
  have hne := h.e0 hrel
  refine ⟨h.e0, h.e1, ?_, ?_, fun _ => hw, ?_, ?_, ?_, ?_, h.en, ?_, h.s1, (fun hc => by rw [hphase] at hc; rcases hc with hc | hc <;> cases hc), h.mh,
    fun ho => by have := h.out (by simpa [SoftP.incCb] using ho); rw [hph] at this; cases this⟩
  · show s.nCC + 1 ≤ 1; omega
  · intro hc; rw [hphase] at hc; rcases hc with hc | hc <;> cases hc
  · intro hc; rw [hphase] at hc; cases hc
  · intro hc; rw [hphase] at hc; cases hc
  · intro hc; have : s.nEC = 1 := hc; omega
  · intro hc; exact absurd hc hccb
  · intro hc; rw [hphase] at hc; cases hc

theorem _root_.Taskpool.OKs.toCancelCb {lost : Bool} {s : SoftP} (h : OKs lost s) (hn : s.nCC = 1)
    (hccb : s.cancelCb = .coro) (hrel : s.released = false) (hnf : s.phase ≠ .finished) : OKs lost (s.setPhase .inCancelCb) := by
  have hne := h.e0 hrel
  refine ⟨h.e0, h.e1, h.c1, ?_, h.cw, ?_, ?_, h.ord, h.cn, h.en, ?_, h.s1, (fun hc => by simp [SoftP.setPhase] at hc), h.mh,
    fun ho => absurd (h.out ho) hnf⟩
  · intro hc; simp [SoftP.setPhase] at hc
  · intro _; exact ⟨hn, hccb⟩
  · intro hc; simp [SoftP.setPhase] at hc
  · intro hc; simp [SoftP.setPhase] at hc

/-- the cancel callback, then `_task_ending` unless the wrapper is suspended inside a coroutine callback -/
theorem good_cancelCallback {cap : Cap} {L R : Bool} (p : Pool) (t : Nat) (tk : PTask) (hg : Good cap L R p) (s : SoftP) (hc : p.Cur t s)
    (hph : s.phase = .wrapUp) (hrel : s.released = false) (hn : s.nCC = 0) (hw : s.wasCancelled = true)
    (hspec : tk.cancelCb = s.cancelCb) : Good cap L R (p.cancelCallback t tk) := by
  unfold cancelCallback
  simp only
  have hok := hc.ok hg
  unfold runCb
  simp only [Bool.false_eq_true, if_false]
  split
  · rename_i hcb
    simp only [Bool.false_eq_true, if_false]
    exact good_taskEnding p t hg s hc ⟨hrel, hph, fun _ hne => absurd (by rw [← hspec, hcb]) hne⟩
  · rename_i hcb
    simp only [Bool.false_eq_true, if_false]
    have hccb : s.cancelCb ≠ .none := by rw [← hspec, hcb]; simp
    have hinc := hok.incCancel hph hrel hn hw hccb
    obtain ⟨hg1, hc1⟩ := good_cbBegin p t tk false hg s hc hph hinc
    have t2 := tame_logEv (p.cbBegin t tk false) (evCbDone t false)
    exact good_taskEnding _ t (t2.good hg1) _ (t2.cur hc1) ⟨hrel, hph, fun _ _ => by show s.nCC + 1 = 1; omega⟩
  · rename_i x hcb
    simp only [Bool.false_eq_true, if_false]
    have hccb : s.cancelCb ≠ .none := by rw [← hspec, hcb]; simp
    have hinc := hok.incCancel hph hrel hn hw hccb
    obtain ⟨hg1, hc1⟩ := good_cbBegin p t tk false hg s hc hph hinc
    have t2 : Tame (p.cbBegin t tk false)
        (((p.cbBegin t tk false).logEv (evCbRaised t false)).modTask t fun k => { k with pendingExc := some x }) :=
      Tame.trans (tame_logEv _ _) (tame_modTask _ t _)
    exact good_taskEnding _ t (t2.good hg1) _ (t2.cur hc1) ⟨hrel, hph, fun _ _ => by show s.nCC + 1 = 1; omega⟩
  · rename_i hcb
    simp only [if_true]
    have hccb : s.cancelCb = .coro := by rw [← hspec, hcb]
    have hinc := hok.incCancel hph hrel hn hw (by rw [hccb]; simp)
    obtain ⟨hg1, hc1⟩ := good_cbBegin p t tk false hg s hc hph hinc
    refine (good_suspend _ t .inCancelCb hg1 _ hc1 (fun _ => hrel) (fun _ => by simp) ?_
      (by show (s.incCb false).phase ≠ _; rw [show (s.incCb false).phase = s.phase from rfl, hph]; simp)).1
    rw [good_cbBegin_lost]
    exact hinc.toCancelCb (by show s.nCC + 1 = 1; omega) hccb hrel
      (by show (s.incCb false).phase ≠ _; rw [show (s.incCb false).phase = s.phase from rfl, hph]; simp)

/-- `except CancelledError: await self._task_cancellation(...)`, then the `finally` -/
theorem good_taskCancellation {cap : Cap} {L R : Bool} (p : Pool) (t : Nat) (tk : PTask) (hg : Good cap L R p) (s : SoftP) (hc : p.Cur t s)
    (hph : s.phase = .wrapUp) (hrel : s.released = false) (hn : s.nCC = 0) (hwf : s.wasCancelled = false)
    (hspec : tk.cancelCb = s.cancelCb) (hnc : t ∉ p.cancelledR) : Good cap L R (p.taskCancellation t tk) := by
  unfold taskCancellation
  have hok := hc.ok hg
  split
  · rename_i hrun
    have ht : t ∈ p.running := by simpa using hrun
    -- the registry move
    have hg1 : Good cap L R ({ p with running := p.running.erase t, cancelledR := p.cancelledR ++ [t] } : Pool) := by
      refine ⟨⟨hg.slot, hg.phase, hg.reg.regCancel t ht ?_, hg.grp.of_eq rfl rfl, hg.life, hg.fl.frame rfl rfl (fun _ h => h), hg.wk.of_eq rfl rfl, hg.rz, hg.ll, hg.al⟩, hg.map.of_eq rfl rfl, hg.acc.of_eq rfl rfl, hg.canc.of_eq rfl rfl⟩
      intro tk' h
      obtain ⟨x, hx, hs⟩ := hc
      rw [hx] at h; cases h
      have : tk'.phase = .wrapUp := by have := hph; rw [← hs] at this; exact this
      rw [this]; simp
    have hc1 : ({ p with running := p.running.erase t, cancelledR := p.cancelledR ++ [t] } : Pool).Cur t s := hc
    obtain ⟨hg2, hc2⟩ := good_cur _ t (fun k => { k with wasCancelled := true }) (fun s => s.markCancelled) (fun _ => rfl)
      hg1 s hc1 rfl (fun h => by have : NYR s.phase = true := h; rw [hph] at this; simp [NYR] at this)
      (fun _ => by show s.phase ≠ _ ∧ s.phase ≠ _; rw [hph]; simp) (hok.markCancelled hph hrel)
    exact good_cancelCallback _ t tk hg2 _ hc2 hph hrel hn rfl hspec
  · rename_i hrun
    cases L with
    | false =>
      obtain ⟨x, hx, hs⟩ := hc
      have hr : x.released = false := by rw [← hs] at hrel; exact hrel
      rcases hg.reg.cpl (hg.ll rfl) t x hx hr with h | h
      · exact absurd (by simpa using h) hrun
      · exact absurd h hnc
    | true =>
      have hg1 := good_setLost p hg
      have hc1 : ({ p with lost := true } : Pool).Cur t s := hc
      have t1 := tame_modTask ({ p with lost := true } : Pool) t (fun k => { k with pendingExc := some .keyError })
      refine good_taskEnding _ t (t1.good hg1) s (t1.cur hc1) ⟨hrel, hph, ?_⟩
      intro hw
      rw [hwf] at hw; cases hw

/-! ### the phases of the wrapper -/

theorem _root_.Taskpool.OKs.toInWorker {lost : Bool} {s : SoftP} (h : OKs lost s)
    (hc : s.phase = .created ∨ s.phase = .inWorker) : OKs lost (s.setPhase .inWorker) := by
  refine ⟨h.e0, h.e1, h.c1, fun _ => h.c0 hc, h.cw, ?_, ?_, h.ord, h.cn, h.en, ?_, h.s1, fun _ => h.s0 hc, h.mh,
    fun ho => by have := h.out ho; rcases hc with hc | hc <;> (rw [hc] at this; cases this)⟩
  · intro hx; simp [SoftP.setPhase] at hx
  · intro hx; simp [SoftP.setPhase] at hx
  · intro hx; simp [SoftP.setPhase] at hx

/-- facts about a task that still is in (or before) its worker -/
structure InWork (s : SoftP) : Prop where
  rel : s.released = false
  ncc : s.nCC = 0
  wc : s.wasCancelled = false
  nf : s.phase ≠ .finished

theorem inWork_of {cap : Cap} {L R : Bool} {p : Pool} {t : Nat} {s : SoftP} (hc : p.Cur t s) (hg : Good cap L R p)
    (hph : s.phase = .created ∨ s.phase = .inWorker) : InWork s :=
  ⟨hc.nyr hg (by rcases hph with h | h <;> rw [h] <;> rfl), ((hc.ok hg).c0 hph).1, ((hc.ok hg).c0 hph).2,
    by rcases hph with h | h <;> rw [h] <;> simp⟩

/-- enter `wrapUp` (the worker is over), keeping everything else -/
theorem good_toWrapUp {cap : Cap} {L R : Bool} (p : Pool) (t : Nat) (f : PTask → PTask) (hf : ∀ x, (f x).soft = x.soft.setPhase .wrapUp)
    (hg : Good cap L R p) (s : SoftP) (hc : p.Cur t s) (hnf : s.phase ≠ .finished) :
    Good cap L R (p.modTask t f) ∧ (p.modTask t f).Cur t (s.setPhase .wrapUp) :=
  good_cur p t f (fun s => s.setPhase .wrapUp) hf hg s hc rfl (fun h => by simp [SoftP.setPhase, NYR] at h)
    (fun _ => by simp [SoftP.setPhase]) ((hc.ok hg).setPhase_free .wrapUp (Or.inl rfl) hnf) ⟨rfl, rfl⟩ (fun h => absurd h hnf)

/-- the worker coroutine is over (normally or with an exception): `wrapUp`, then `_task_ending` -/
theorem good_afterWorker {cap : Cap} {L R : Bool} (p : Pool) (t : Nat) (e : Option Err) (hg : Good cap L R p) (s : SoftP) (hc : p.Cur t s)
    (hw : InWork s) : Good cap L R (p.afterWorker t e) := by
  unfold afterWorker
  split
  · have t0 := tame_logEv p (Ev.returned t)
    obtain ⟨hg1, hc1⟩ := good_toWrapUp (p.logEv (Ev.returned t)) t (fun k => { k with phase := .wrapUp }) (fun _ => rfl)
      (t0.good hg) s (t0.cur hc) hw.nf
    exact good_taskEnding _ t hg1 _ hc1 ⟨hw.rel, rfl, fun h => by rw [show (s.setPhase .wrapUp).wasCancelled = s.wasCancelled from rfl, hw.wc] at h; cases h⟩
  · rename_i x
    have t0 := tame_logEv p (Ev.raised t)
    obtain ⟨hg1, hc1⟩ := good_toWrapUp (p.logEv (Ev.raised t)) t (fun k => { k with phase := .wrapUp, pendingExc := some x })
      (fun _ => rfl) (t0.good hg) s (t0.cur hc) hw.nf
    exact good_taskEnding _ t hg1 _ hc1 ⟨hw.rel, rfl, fun h => by rw [show (s.setPhase .wrapUp).wasCancelled = s.wasCancelled from rfl, hw.wc] at h; cases h⟩

theorem good_stepCreated {cap : Cap} {L R : Bool} (p : Pool) (t : Nat) (tk : PTask) (hg : Good cap L R p) (s : SoftP) (hc : p.Cur t s)
    (hph : s.phase = .created) (hnc : t ∉ p.cancelledR) (hspec : tk.cancelCb = s.cancelCb) :
    Good cap L R (p.stepCreated t tk) := by
  have hw := inWork_of hc hg (Or.inl hph)
  unfold stepCreated
  split
  · obtain ⟨hg1, hc1⟩ := good_toWrapUp p t (fun k => { k with phase := .wrapUp, unstarted := false, cancelledEarly := false })
      (fun _ => rfl) hg s hc hw.nf
    exact good_taskCancellation _ t tk hg1 _ hc1 rfl hw.rel hw.ncc hw.wc hspec hnc
  · simp only
    have t0 := tame_logEv p (Ev.started t tk.arg)
    obtain ⟨hg1, hc1⟩ := good_cur (p.logEv (Ev.started t tk.arg)) t
      (fun k => { k with phase := .inWorker, fut := .ok, unstarted := false }) (fun s => s.setPhase .inWorker) (fun _ => rfl)
      (t0.good hg) s (t0.cur hc) rfl (fun _ => hw.rel) (fun h => absurd h hnc) ((hc.ok hg).toInWorker (Or.inl hph))
    have t2 := tame_runHooks ((p.logEv (Ev.started t tk.arg)).modTask t
      (fun k => { k with phase := .inWorker, fut := .ok, unstarted := false })) tk.req (p.reqOf tk).hooks.start
    have hg2 := t2.good hg1
    have hc2 := t2.cur hc1
    have hw2 : InWork (s.setPhase .inWorker) := ⟨hw.rel, hw.ncc, hw.wc, by simp [SoftP.setPhase]⟩
    split
    · exact good_afterWorker _ t _ hg2 _ hc2 hw2
    · exact good_afterWorker _ t _ hg2 _ hc2 hw2
    · -- the first suspension point: the number of awaits still to come is noted (no invariant talks about it)
      have t3 := tame_modTask (((p.logEv (Ev.started t tk.arg)).modTask t
        (fun k => { k with phase := .inWorker, fut := .ok, unstarted := false })).runHooks tk.req (p.reqOf tk).hooks.start) t
        (fun k => { k with awaitsLeft := (p.reqOf tk).wspec.awaits })
      have hg3 := t3.good hg2
      have hc3 := t3.cur hc2
      refine (good_suspend _ t .inWorker hg3 _ hc3 (fun _ => hw.rel) (fun h => ?_) ?_ (by simp [SoftP.setPhase])).1
      · rw [t3.can, t2.can] at h; exact absurd h hnc
      · rw [t3.lost]; exact (hc2.ok hg2).toInWorker (Or.inr rfl)

def _root_.Taskpool.SoftP.sawCancel (s : SoftP) : SoftP := { s with phase := .wrapUp, nSaw := s.nSaw + 1 }

theorem _root_.Taskpool.OKs.sawCancel {lost : Bool} {s : SoftP} (h : OKs lost s) (hn : s.nSaw = 0)
    (hnf : s.phase ≠ .finished) : OKs lost s.sawCancel := by
  refine ⟨h.e0, h.e1, h.c1, ?_, h.cw, ?_, ?_, h.ord, h.cn, h.en, ?_, ?_, ?_, h.mh, fun ho => absurd (h.out ho) hnf⟩
  · intro hc; simp [SoftP.sawCancel] at hc
  · intro hc; simp [SoftP.sawCancel] at hc
  · intro hc; simp [SoftP.sawCancel] at hc
  · intro hc; simp [SoftP.sawCancel] at hc
  · show s.nSaw + 1 ≤ 1; omega
  · intro hc; simp [SoftP.sawCancel] at hc

/-- the worker observes a `CancelledError` at its suspension point — for the first and only time -/
theorem good_workerCancelled {cap : Cap} {L R : Bool} (p : Pool) (t : Nat) (tk : PTask) (hg : Good cap L R p) (s : SoftP) (hc : p.Cur t s)
    (hw : InWork s) (hsaw : s.nSaw = 0) (hspec : tk.cancelCb = s.cancelCb) (hnc : t ∉ p.cancelledR)
    (hph : s.phase = .inWorker) :
    Good cap L R (p.workerCancelled t tk) := by
  unfold workerCancelled
  split
  · -- the worker catches the `CancelledError` and goes on: nothing the invariants talk about changes
    have t1 : Tame p ((p.logEv (Ev.resumed t)).modTask t fun k => { k with sawCancel := true }) :=
      (tame_logEv p (Ev.resumed t)).trans (tame_modTask _ t _)
    have hs : s.setPhase .inWorker = s := by rw [← hph]; rfl
    refine (good_suspend _ t .inWorker (t1.good hg) s (t1.cur hc) (fun _ => hw.rel) (fun h => ?_) ?_ hw.nf).1
    · rw [t1.can] at h; exact absurd h hnc
    · rw [hs, t1.lost]; exact hc.ok hg
  simp only
  have t0 := tame_logEv p (Ev.sawCancel t)
  have hc0 := t0.cur hc
  have hg0 := t0.good hg
  obtain ⟨hg1, hc1⟩ := good_cur (p.logEv (Ev.sawCancel t)) t
    (fun k => { k with sawCancel := true, phase := .wrapUp, nSaw := k.nSaw + 1 }) (fun s => s.sawCancel) (fun _ => rfl)
    hg0 s hc0 rfl (fun h => by simp [SoftP.sawCancel, NYR] at h) (fun _ => by simp [SoftP.sawCancel])
    ((hc0.ok hg0).sawCancel hsaw hw.nf) ⟨rfl, rfl⟩ (fun h => absurd h hw.nf)
  split
  · exact good_afterWorker _ t _ hg1 _ hc1 ⟨hw.rel, hw.ncc, hw.wc, by simp [SoftP.sawCancel]⟩
  · exact good_taskCancellation _ t tk hg1 _ hc1 rfl hw.rel hw.ncc hw.wc hspec hnc

/-- the awaited future completed and the worker goes on to its next suspension point: nothing the invariants talk about
changes (the task is in phase `inWorker` before and after) -/
theorem good_workerNext {cap : Cap} {L R : Bool} (p : Pool) (t : Nat) (tk : PTask) (hg : Good cap L R p) (s : SoftP) (hc : p.Cur t s)
    (hw : InWork s) (hnc : t ∉ p.cancelledR) (hph : s.phase = .inWorker) :
    Good cap L R (p.workerNext t tk) := by
  unfold workerNext
  -- the user code between the two awaits is tame like every other user code (it never moves a slot)
  have t1 : Tame p (((p.logEv (Ev.next t)).modTask t fun k => { k with awaitsLeft := k.awaitsLeft - 1 }).runHooks tk.req
      (p.reqOf tk).hooks.next) :=
    ((tame_logEv p (Ev.next t)).trans (tame_modTask _ t _)).trans (tame_runHooks _ _ _)
  have hs : s.setPhase .inWorker = s := by rw [← hph]; rfl
  refine (good_suspend _ t .inWorker (t1.good hg) s (t1.cur hc) (fun _ => hw.rel) (fun h => ?_) ?_ hw.nf).1
  · rw [t1.can] at h; exact absurd h hnc
  · rw [hs, t1.lost]; exact hc.ok hg

theorem good_stepInWorker {cap : Cap} {L R : Bool} (p : Pool) (t : Nat) (tk : PTask) (hg : Good cap L R p) (s : SoftP) (hc : p.Cur t s)
    (hph : s.phase = .inWorker) (hspec : tk.cancelCb = s.cancelCb) : Good cap L R (p.stepInWorker t tk) := by
  have hw := inWork_of hc hg (Or.inr hph)
  unfold stepInWorker
  split
  · have t0 := tame_modTask p t (fun k => { k with mustCancel := false })
    refine good_workerCancelled _ t tk (t0.good hg) s (t0.cur hc) hw ((hc.ok hg).s0 (Or.inr hph)) hspec ?_ hph
    intro hmem
    obtain ⟨x, hx, hs⟩ := hc
    obtain ⟨y, hy, _, _, hni⟩ := hg.reg.can t hmem
    rw [hx] at hy; cases hy
    exact hni (by rw [← hs] at hph; exact hph)
  · split
    · split
      · refine good_workerNext p t tk hg s hc hw ?_ hph
        intro hmem
        obtain ⟨x, hx, hs⟩ := hc
        obtain ⟨y, hy, _, _, hni⟩ := hg.reg.can t hmem
        rw [hx] at hy; cases hy
        exact hni (by rw [← hs] at hph; exact hph)
      · exact good_afterWorker p t _ hg s hc hw
    · exact good_afterWorker p t _ hg s hc hw
    · exact hg

theorem good_stepInCancelCb {cap : Cap} {L R : Bool} (p : Pool) (t : Nat) (tk : PTask) (hg : Good cap L R p) (s : SoftP) (hc : p.Cur t s)
    (hph : s.phase = .inCancelCb) : Good cap L R (p.stepInCancelCb t tk) := by
  have hok := hc.ok hg
  have hrel : s.released = false := hc.nyr hg (by rw [hph]; rfl)
  have hcc := hok.cc hph
  have fin : ∀ (q : Pool) (f : PTask → PTask), (∀ x, (f x).soft = x.soft.setPhase .wrapUp) → Tame p q →
      Good cap L R ((q.modTask t f).taskEnding t) := by
    intro q f hf tq
    obtain ⟨hg1, hc1⟩ := good_toWrapUp q t f hf (tq.good hg) s (tq.cur hc) (by rw [hph]; simp)
    exact good_taskEnding _ t hg1 _ hc1 ⟨hrel, rfl, fun _ _ => hcc.1⟩
  unfold stepInCancelCb
  split
  · exact fin _ _ (fun _ => rfl) (tame_logEv p _)
  · exact fin _ _ (fun _ => rfl) (tame_logEv p _)
  · exact fin _ _ (fun _ => rfl) (tame_logEv p _)
  · exact hg

theorem good_stepInEndCb {cap : Cap} {L R : Bool} (p : Pool) (t : Nat) (tk : PTask) (hg : Good cap L R p) (s : SoftP) (hc : p.Cur t s)
    (hph : s.phase = .inEndCb) : Good cap L R (p.stepInEndCb t tk) := by
  have hok := hc.ok hg
  obtain ⟨hne, hecb, hrel⟩ := hok.ec hph
  have hfin : OKs p.lost (s.setPhase .finished) :=
    hok.finished hrel (by rw [hne, hecb]; simp) (fun hw hn => hok.ord hne hw hn)
  unfold stepInEndCb
  split
  · have t0 := tame_logEv p (Ev.endCbDone t)
    exact good_finishTask _ t (t0.good hg) s (t0.cur hc) (by rw [t0.lost]; exact hfin)
  · rename_i x _
    have t0 : Tame p ((p.logEv (Ev.endCbRaised t)).modTask t fun k => { k with pendingExc := some x }) :=
      Tame.trans (tame_logEv _ _) (tame_modTask _ t _)
    exact good_finishTask _ t (t0.good hg) s (t0.cur hc) (by rw [t0.lost]; exact hfin)
  · have t0 : Tame p ((p.logEv (Ev.endCbKilled t)).modTask t fun k => { k with pendingExc := some .cancelledError }) :=
      Tame.trans (tame_logEv _ _) (tame_modTask _ t _)
    exact good_finishTask _ t (t0.good hg) s (t0.cur hc) (by rw [t0.lost]; exact hfin)
  · exact hg

/-- one step of any pool task preserves all the invariants -/
theorem good_stepTask {cap : Cap} {L R : Bool} (p : Pool) (t : Nat) (hg : Good cap L R p) : Good cap L R (p.stepTask t) := by
  unfold stepTask
  split
  · exact hg
  · rename_i tk htk
    split
    · exact hg
    · simp only
      have t0 := tame_modTask p t (fun k => { k with sched := false })
      have hg0 := t0.good hg
      have hc0 : (p.modTask t fun k => { k with sched := false }).Cur t tk.soft := t0.cur ⟨tk, htk, rfl⟩
      split
      · rename_i hph
        refine good_stepCreated _ t tk hg0 tk.soft hc0 hph ?_ rfl
        intro hmem
        obtain ⟨tk', a, _, c, _⟩ := hg.reg.can t hmem
        rw [htk] at a; cases a
        exact c hph
      · exact hg0
      · rename_i hph; exact good_stepInWorker _ t tk hg0 tk.soft hc0 hph rfl
      · rename_i hph; exact good_stepInCancelCb _ t tk hg0 tk.soft hc0 hph
      · rename_i hph; exact good_stepInEndCb _ t tk hg0 tk.soft hc0 hph
      · exact hg0

end Pool
end Taskpool
