import Taskpool.Inv.Fin
import Taskpool.Inv.GoodInv
/-! **A spawner that was never cancelled ends only when its work is done — the walk.**  `Pool.FinOK` (`Inv/Fin.lean`) is
preserved by every step of the pool machine in histories without `gather_and_close`.

The walking predicate `FK M p` is `FinOK p` (its per-request clauses collected in `RG`) strengthened by
* `cw` in existential form (a cancelled entry of the pool's waiter queue belongs to an *existing* request that was filed
  as cancelled — so that appending a request cannot break it),
  — between two steps this is part of `Want` (`fk_of_wantFin`),
* `pin`: for the spawner whose handle is being run (`M = PM m Q`) the request exists and its own fields (`PK`: kind,
  outcome, frame, pulled, created, skipped — nobody but the spawner's own step writes them) satisfy `Q` — facts that have
  to survive the user code of the argument iterator; `QH`/`QI` thread `pulled = created + skipped (+ 1)` through `mapLoop`.

No entity is exempt: the clauses hold at every intermediate state of a step.  `metaCancel` alone does not preserve the
predicate; `cancelGroupMetas` does (`FKx`: the clauses `cg`/`cw`/`cm` up to the requests about to be filed as cancelled). -/
namespace Taskpool

/-! ### the waiter queue -/

/-- `_wake_up_next` never produces a cancelled entry -/
theorem wakeNextL_cancelled (v : Cap) (ws : List Waiter) (w' : Waiter) (h : w' ∈ (wakeNextL v ws).2.1)
    (hc : w'.st = .cancelled) : w' ∈ ws := by
  induction ws with
  | nil => simp [wakeNextL] at h
  | cons w ws ih =>
    unfold wakeNextL at h
    by_cases hp : w.st = .pending
    · rw [if_pos hp] at h
      simp only [List.mem_cons] at h
      rcases h with rfl | h
      · simp at hc
      · exact List.mem_cons_of_mem _ h
    · rw [if_neg hp] at h
      simp only [List.mem_cons] at h
      rcases h with rfl | h
      · exact List.mem_cons_self
      · exact List.mem_cons_of_mem _ (ih h)

/-- the state `removeWaiterL` reports is that of an entry of the owner -/
theorem removeWaiterL_fst_some (m : Nat) (ws : List Waiter) (st : WaitSt) (h : (removeWaiterL m ws).1 = some st) :
    ∃ w ∈ ws, w.owner = m ∧ w.st = st := by
  induction ws with
  | nil => simp [removeWaiterL] at h
  | cons w ws ih =>
    unfold removeWaiterL at h
    by_cases he : w.owner = m
    · rw [if_pos he] at h
      simp only [Option.some.injEq] at h
      exact ⟨w, List.mem_cons_self, he, h⟩
    · rw [if_neg he] at h
      obtain ⟨w1, hw1, a, b⟩ := ih h
      exact ⟨w1, List.mem_cons_of_mem _ hw1, a, b⟩

theorem modify_inv {α} {l : List α} {m i : Nat} {f : α → α} {y : α} (h : (l.modify m f)[i]? = some y) :
    ∃ x, l[i]? = some x ∧ y = if m = i then f x else x := by
  obtain ⟨x, hx⟩ := Pool.getElem?_some_of_length_eq (l := l.modify m f) (l' := l) (by simp) h
  exact ⟨x, hx, Pool.modify_some hx h⟩

theorem modify_get {α} {l : List α} {m i : Nat} {f : α → α} {x : α} (hx : l[i]? = some x) :
    (l.modify m f)[i]? = some (if m = i then f x else x) := by
  rw [List.getElem?_modify, hx]
  simp

namespace Pool

/-! ### the walking predicate -/

/-- what the invariant says about one request record -/
structure RG (r : Req) : Prop where
  cg : r.mustCancel = true → r.everCancelled = true
  cm : ∀ w ∈ r.mapSem.waiters, w.st = .cancelled → r.everCancelled = true
  ir : r.outcome = none → r.everCancelled = false → r.inRunning = true
  ok : r.everCancelled = false → ∀ o, r.outcome = some o →
         (o = .ok ∧ r.remaining = 0 ∧ r.items = [] ∧ (r.kind = .map → r.pulled = r.created + r.skipped)) ∨
         (r.kind = .map ∧ o = .exc (.user 4))
  ka : r.kind = .apply → r.items = []
  km : r.kind = .map → r.remaining = 0
  kw : r.frame = .waitMapSem → r.kind = .map
  kn : r.kind = .map → 1 ≤ r.nc
  pc0 : r.kind = .map → r.outcome = none → r.frame = .notStarted → r.pulled = r.created + r.skipped
  pc1 : r.kind = .map → r.outcome = none → r.frame = .waitRoom ∨ r.frame = .waitMapSem →
          r.pulled = r.created + r.skipped + 1

/-- the fields of a request that only the spawner's own step writes: user code the pool runs (it can cancel, lock, start
new requests) leaves them alone -/
structure PK where
  kind : ReqKind
  outcome : Option Outcome
  frame : MFrame
  pulled : Nat
  created : Nat
  skipped : Nat

def _root_.Taskpool.Req.pk (r : Req) : PK := ⟨r.kind, r.outcome, r.frame, r.pulled, r.created, r.skipped⟩

structure FK (M : Nat → (PK → Prop) → Prop) (p : Pool) : Prop where
  nog : ∀ (a : Nat) (A : Api), p.apis[a]? = some A → ∀ re, A.kind ≠ .gac re
  ncl : p.closed = false
  rg : ∀ (m : Nat) (r : Req), p.reqs[m]? = some r → RG r
  cw : ∀ w ∈ p.sem.waiters, w.st = .cancelled → ∃ r, p.reqs[w.owner]? = some r ∧ r.everCancelled = true
  pin : ∀ m Q, M m Q → ∃ r, p.reqs[m]? = some r ∧ Q r.pk

/-- nobody pinned: the state between two steps -/
abbrev FK0 (p : Pool) : Prop := FK (fun _ _ => False) p
/-- the spawner whose handle is being run, and what is known about its own fields -/
abbrev PM (m : Nat) (Q : PK → Prop) : Nat → (PK → Prop) → Prop := fun x Q' => x = m ∧ Q' = Q

variable {M : Nat → (PK → Prop) → Prop}

theorem FK.finOK {p : Pool} (h : FK M p) : FinOK p where
  nog := h.nog
  ncl := h.ncl
  cg := fun m r hp => (h.rg m r hp).cg
  cw := fun w hw hc r hp => by
    obtain ⟨r0, hp0, he⟩ := h.cw w hw hc
    rw [hp] at hp0; cases hp0; exact he
  cm := fun m r hp => (h.rg m r hp).cm
  ir := fun m r hp => (h.rg m r hp).ir
  ok := fun m r hp => (h.rg m r hp).ok
  nc1 := fun m r hp => (h.rg m r hp).kn
  ka := fun m r hp => (h.rg m r hp).ka
  km := fun m r hp => (h.rg m r hp).km
  kw := fun m r hp => (h.rg m r hp).kw
  pc0 := fun m r hp => (h.rg m r hp).pc0
  pc1 := fun m r hp => (h.rg m r hp).pc1

theorem fk_weaken {M' : Nat → (PK → Prop) → Prop} {p : Pool} (h : FK M p) (hM : ∀ m Q, M' m Q → M m Q) : FK M' p :=
  { h with pin := fun m Q hm => h.pin m Q (hM m Q hm) }

theorem FK.zero {p : Pool} (h : FK M p) : FK0 p := fk_weaken h (fun _ _ f => f.elim)

theorem FK.pinned {p : Pool} {m : Nat} {Q : PK → Prop} (h : FK (PM m Q) p) : ∃ r, p.reqs[m]? = some r ∧ Q r.pk :=
  h.pin m Q ⟨rfl, rfl⟩

/-- a record that differs only in fields the invariant does not read (or reads monotonically) -/
theorem rg_of_eq {r r' : Req} (h : RG r) (e1 : r'.mustCancel = true → r.mustCancel = true)
    (e2 : r'.everCancelled = r.everCancelled)
    (e3 : ∀ w ∈ r'.mapSem.waiters, w.st = .cancelled → w ∈ r.mapSem.waiters) (e4 : r'.outcome = r.outcome)
    (e5 : r'.inRunning = r.inRunning) (e6 : r'.remaining = r.remaining) (e7 : r'.items = r.items)
    (e8 : r'.kind = r.kind) (e9 : r'.frame = r.frame ∨ r'.frame = .running ∨ r'.frame = .done) (e10 : r'.nc = r.nc)
    (e11 : r'.pulled = r.pulled) (e12 : r'.created = r.created) (e13 : r'.skipped = r.skipped) : RG r' where
  cg := fun a => e2 ▸ h.cg (e1 a)
  cm := fun w hw hc => e2 ▸ h.cm w (e3 w hw hc) hc
  ir := fun a b => e5 ▸ h.ir (e4 ▸ a) (e2 ▸ b)
  ok := fun a o b => by
    rw [e6, e7, e8, e11, e12, e13]; exact h.ok (e2 ▸ a) o (e4 ▸ b)
  ka := fun a => e7 ▸ h.ka (e8 ▸ a)
  km := fun a => e6 ▸ h.km (e8 ▸ a)
  kw := fun a => by
    rcases e9 with e | e | e
    · exact e8 ▸ h.kw (e ▸ a)
    · rw [e] at a; cases a
    · rw [e] at a; cases a
  kn := fun a => e10 ▸ h.kn (e8 ▸ a)
  pc0 := fun a b c => by
    rw [e11, e12, e13]
    rcases e9 with e | e | e
    · exact h.pc0 (e8 ▸ a) (e4 ▸ b) (e ▸ c)
    · rw [e] at c; cases c
    · rw [e] at c; cases c
  pc1 := fun a b c => by
    rw [e11, e12, e13]
    rcases e9 with e | e | e
    · exact h.pc1 (e8 ▸ a) (e4 ▸ b) (e ▸ c)
    · rw [e] at c; rcases c with c | c <;> cases c
    · rw [e] at c; rcases c with c | c <;> cases c

/-- the requests are the same; every cancelled entry of the pool's queue was there before (or belongs to a request filed
as cancelled) -/
theorem fk_reqs_eq {p q : Pool} (h : FK M p) (ha : q.apis = p.apis) (hc : q.closed = p.closed) (hr : q.reqs = p.reqs)
    (hw : ∀ w' ∈ q.sem.waiters, w'.st = .cancelled →
      w' ∈ p.sem.waiters ∨ ∃ r, p.reqs[w'.owner]? = some r ∧ r.everCancelled = true) : FK M q := by
  refine { nog := ?_, ncl := ?_, rg := ?_, cw := ?_, pin := ?_ }
  · rw [ha]; exact h.nog
  · rw [hc]; exact h.ncl
  · rw [hr]; exact h.rg
  · intro w' hw' hst
    rw [hr]
    rcases hw w' hw' hst with a | a
    · exact h.cw w' a hst
    · exact a
  · rw [hr]; exact h.pin

/-- nothing the invariant reads has changed -/
theorem fk_of_eq {p q : Pool} (h : FK M p) (ha : q.apis = p.apis) (hc : q.closed = p.closed) (hr : q.reqs = p.reqs)
    (hs : q.sem.waiters = p.sem.waiters) : FK M q :=
  fk_reqs_eq h ha hc hr (fun _ hw' _ => Or.inl (hs ▸ hw'))

/-- one request record changes (`everCancelled` is not cleared, the own fields of a pinned spawner stay); every cancelled
entry of the pool's queue was there before or belongs to a request filed as cancelled -/
theorem fk_mod {p q : Pool} (h : FK M p) (ha : q.apis = p.apis) (hc : q.closed = p.closed) (m : Nat) (f : Req → Req)
    (hr : q.reqs = p.reqs.modify m f)
    (hf : ∀ r, p.reqs[m]? = some r → RG r → RG (f r) ∧ (r.everCancelled = true → (f r).everCancelled = true) ∧
      ((∃ Q, M m Q) → (f r).pk = r.pk))
    (hw : ∀ w' ∈ q.sem.waiters, w'.st = .cancelled →
      w' ∈ p.sem.waiters ∨ ∃ r, q.reqs[w'.owner]? = some r ∧ r.everCancelled = true) : FK M q := by
  have hec : ∀ (i : Nat) (r : Req), p.reqs[i]? = some r → r.everCancelled = true →
      ∃ r' : Req, q.reqs[i]? = some r' ∧ r'.everCancelled = true := by
    intro i r hp he
    refine ⟨_, by rw [hr]; exact modify_get hp, ?_⟩
    split
    · rename_i e; subst e; exact (hf r hp (h.rg _ r hp)).2.1 he
    · exact he
  refine { nog := ?_, ncl := ?_, rg := ?_, cw := ?_, pin := ?_ }
  · rw [ha]; exact h.nog
  · rw [hc]; exact h.ncl
  · intro i r' hq
    rw [hr] at hq
    obtain ⟨r, hp, e⟩ := modify_inv hq
    subst e
    split
    · rename_i e; subst e; exact (hf r hp (h.rg _ r hp)).1
    · exact h.rg i r hp
  · intro w' hw' hst
    rcases hw w' hw' hst with a | a
    · obtain ⟨r, hp, he⟩ := h.cw w' a hst
      exact hec _ r hp he
    · exact a
  · intro i Q hi
    obtain ⟨r, hp, hQ⟩ := h.pin i Q hi
    refine ⟨_, by rw [hr]; exact modify_get hp, ?_⟩
    split
    · rename_i e; subst e
      obtain ⟨_, _, ab⟩ := hf r hp (h.rg _ r hp)
      rw [ab ⟨Q, hi⟩]; exact hQ
    · exact hQ

theorem fk_modReq {p : Pool} (h : FK M p) (m : Nat) (f : Req → Req)
    (hf : ∀ r, p.reqs[m]? = some r → RG r → RG (f r) ∧ (r.everCancelled = true → (f r).everCancelled = true) ∧
      ((∃ Q, M m Q) → (f r).pk = r.pk)) : FK M (p.modReq m f) :=
  fk_mod h rfl rfl m f rfl hf (fun _ hw' _ => Or.inl hw')

/-- a change to one request in fields the invariant does not read -/
theorem fk_modReq_triv {p : Pool} (h : FK M p) (m : Nat) (f : Req → Req)
    (e1 : ∀ r, (f r).mustCancel = true → r.mustCancel = true) (e2 : ∀ r, (f r).everCancelled = r.everCancelled)
    (e3 : ∀ r, ∀ w ∈ (f r).mapSem.waiters, w.st = .cancelled → w ∈ r.mapSem.waiters) (e4 : ∀ r, (f r).outcome = r.outcome)
    (e5 : ∀ r, (f r).inRunning = r.inRunning) (e6 : ∀ r, (f r).remaining = r.remaining)
    (e7 : ∀ r, (f r).items = r.items) (e8 : ∀ r, (f r).kind = r.kind)
    (e10 : ∀ r, (f r).nc = r.nc) (e9 : ∀ r, (f r).pk = r.pk) :
    FK M (p.modReq m f) :=
  fk_modReq h m f (fun r _ hg =>
    ⟨rg_of_eq hg (e1 r) (e2 r) (e3 r) (e4 r) (e5 r) (e6 r) (e7 r) (e8 r) (Or.inl (congrArg PK.frame (e9 r))) (e10 r)
      (congrArg PK.pulled (e9 r)) (congrArg PK.created (e9 r)) (congrArg PK.skipped (e9 r)),
      fun a => (e2 r).symm ▸ a, fun _ => e9 r⟩)

/-- `fk_modReq_triv` for a rewriting function that is visible in the goal -/
macro "fk_mr" h:term : term =>
  `(fk_modReq_triv $h _ _ (fun _ a => by first | exact a | cases a) (fun _ => rfl) (fun _ _ a _ => a) (fun _ => rfl) (fun _ => rfl)
      (fun _ => rfl) (fun _ => rfl) (fun _ => rfl) (fun _ => rfl) (fun _ => rfl))

/-- the pool's waiter queue changes; every cancelled entry was there before -/
theorem fk_sem {p : Pool} (h : FK M p) (s : Sem) (hw : ∀ w' ∈ s.waiters, w'.st = .cancelled → w' ∈ p.sem.waiters) :
    FK M ({ p with sem := s } : Pool) :=
  fk_reqs_eq h rfl rfl rfl (fun w' hw' hst => Or.inl (hw w' hw' hst))

/-- every request rewritten by the same function -/
theorem fk_mapReqs {p q : Pool} (h : FK M p) (f : Req → Req) (ha : q.apis = p.apis) (hc : q.closed = p.closed)
    (hs : q.sem.waiters = p.sem.waiters) (hr : q.reqs = p.reqs.map f)
    (hf : ∀ r, RG r → RG (f r) ∧ (r.everCancelled = true → (f r).everCancelled = true) ∧ (f r).pk = r.pk) :
    FK M q := by
  refine { nog := ?_, ncl := ?_, rg := ?_, cw := ?_, pin := ?_ }
  · rw [ha]; exact h.nog
  · rw [hc]; exact h.ncl
  · intro i r' hq
    rw [hr, List.getElem?_map] at hq
    cases hp : p.reqs[i]? with
    | none => simp [hp] at hq
    | some r =>
      simp [hp] at hq; subst hq
      exact (hf r (h.rg i r hp)).1
  · intro w' hw' hst
    rw [hs] at hw'
    obtain ⟨r, hp, he⟩ := h.cw w' hw' hst
    exact ⟨f r, by rw [hr, List.getElem?_map, hp]; rfl, (hf r (h.rg _ r hp)).2.1 he⟩
  · intro i Q hi
    obtain ⟨r, hp, hQ⟩ := h.pin i Q hi
    obtain ⟨_, _, a⟩ := hf r (h.rg _ r hp)
    exact ⟨f r, by rw [hr, List.getElem?_map, hp]; rfl, a ▸ hQ⟩

/-- a new request -/
theorem fk_appendReq {p q : Pool} (h : FK M p) (r0 : Req) (ha : q.apis = p.apis) (hc : q.closed = p.closed)
    (hs : q.sem.waiters = p.sem.waiters) (hr : q.reqs = p.reqs ++ [r0]) (h0 : RG r0) : FK M q := by
  have hold : ∀ i r, p.reqs[i]? = some r → q.reqs[i]? = some r := fun i r hp => by
    rw [hr, List.getElem?_append_left (lt_of_getElem?_some hp)]; exact hp
  refine { nog := ?_, ncl := ?_, rg := ?_, cw := ?_, pin := ?_ }
  · rw [ha]; exact h.nog
  · rw [hc]; exact h.ncl
  · intro i r hq
    rw [hr] at hq
    rcases append_some hq with hp | ⟨_, rfl⟩
    · exact h.rg i r hp
    · exact h0
  · intro w' hw' hst
    rw [hs] at hw'
    obtain ⟨r, hp, he⟩ := h.cw w' hw' hst
    exact ⟨r, hold _ r hp, he⟩
  · intro i Q hi
    obtain ⟨r, hp, hk⟩ := h.pin i Q hi
    exact ⟨r, hold _ r hp, hk⟩

/-! ### plumbing -/

theorem fk_emitRef {p : Pool} (h : FK M p) (r : Ref) : FK M (p.emitRef r) := fk_of_eq h rfl rfl rfl rfl
theorem fk_logEv {p : Pool} (h : FK M p) (e : Ev) : FK M (p.logEv e) := fk_of_eq h rfl rfl rfl rfl
theorem fk_modTask {p : Pool} (h : FK M p) (t : Nat) (f : PTask → PTask) : FK M (p.modTask t f) :=
  fk_of_eq h rfl rfl rfl rfl
theorem fk_modGather {p : Pool} (h : FK M p) (g : Nat) (f : Gather → Gather) : FK M (p.modGather g f) :=
  fk_of_eq h rfl rfl rfl rfl

/-- a rewrite of a background call that keeps its kind -/
theorem fk_modApi {p : Pool} (h : FK M p) (a : Nat) (f : Api → Api)
    (hk : ∀ x, (f x).kind = x.kind := by intro x; rfl) :
    FK M (p.modApi a f) := by
  refine { h with nog := ?_ }
  intro i A' hq re
  obtain ⟨A, hA, e⟩ := modify_inv (l := p.apis) hq
  subst e
  split
  · rw [hk]; exact h.nog i A hA re
  · exact h.nog i A hA re

theorem fk_schedTask {p : Pool} (h : FK M p) (t : Nat) : FK M (p.schedTask t) := by
  unfold schedTask; exact fk_emitRef (fk_modTask h _ _) _

theorem fk_schedApi {p : Pool} (h : FK M p) (a : Nat) : FK M (p.schedApi a) := by
  unfold schedApi
  refine fk_emitRef ?_ _
  exact fk_modApi h a _

theorem fk_schedMeta {p : Pool} (h : FK M p) (m : Nat) : FK M (p.schedMeta m) := by
  unfold schedMeta
  refine fk_emitRef (p := p.modReq m fun x => { x with sched := true }) ?_ _
  exact fk_mr h

theorem fk_schedOpt {p : Pool} (h : FK M p) (o : Option Nat) : FK M (p.schedOpt o) := by
  cases o with
  | none => exact h
  | some m => exact fk_schedMeta h m

theorem fk_foldl {α} (f : Pool → α → Pool) (hf : ∀ p a, FK M p → FK M (f p a)) (l : List α) (p : Pool) (h : FK M p) :
    FK M (l.foldl f p) := by
  induction l generalizing p with
  | nil => exact h
  | cons a as ih => exact ih _ (hf p a h)

theorem fk_emitChildren {p : Pool} (h : FK M p) (cbs : List (Nat × Nat)) : FK M (p.emitChildren cbs) := by
  unfold emitChildren
  exact fk_foldl _ (fun q gi hq => fk_emitRef hq _) _ _ h

theorem fk_wake {p : Pool} (h : FK M p) (s : Sem) (hs : s.waiters = p.sem.waiters) :
    FK M (({ p with sem := s.wakeNext.1 } : Pool).schedOpt s.wakeNext.2) := by
  refine fk_schedOpt (fk_sem h _ (fun w' hw' hc => ?_)) _
  rw [wakeNext_waiters] at hw'
  rw [← hs]
  exact wakeNextL_cancelled _ _ _ hw' hc

theorem fk_releasePool {p : Pool} (h : FK M p) : FK M p.releasePool := by
  unfold releasePool Sem.release
  exact fk_wake h _ rfl

theorem fk_releaseMap {p : Pool} (h : FK M p) (m : Nat) : FK M (p.releaseMap m) := by
  unfold releaseMap
  split
  · exact h
  · rename_i r hp
    refine fk_schedOpt (fk_modReq h m _ (fun r0 hp0 hg => ?_)) _
    rw [hp] at hp0; cases hp0
    refine ⟨rg_of_eq hg id rfl (fun w hw hc => ?_) rfl rfl rfl rfl rfl (Or.inl rfl) rfl rfl rfl rfl, id, fun _ => rfl⟩
    exact wakeNextL_cancelled _ _ _ hw hc

/-! ### asyncio `Task.cancel()` -/

theorem fk_taskCancel {p : Pool} (h : FK M p) (t : Nat) : FK M (p.taskCancel t) := by
  unfold taskCancel
  split
  · exact h
  · split
    · exact h
    · split
      · exact fk_schedTask (fk_modTask h _ _) _
      · exact fk_modTask h _ _

theorem fk_cancelTask {p : Pool} (h : FK M p) (t : Nat) : FK M (p.cancelTask t) := by
  unfold cancelTask
  split
  · exact h
  · split
    · exact fk_modTask h _ _
    · exact fk_taskCancel h t

/-! ### `cancel_group`: the spawners of the group are cancelled, then filed as cancelled -/

/-- about to be filed as cancelled by `_cancel_group_meta_tasks(g)` -/
def Exc (g : String) (r : Req) : Prop := (r.inRunning && r.group == g) = true

/-- `RG` up to the requests about to be filed as cancelled -/
structure RGx (g : String) (r : Req) : Prop where
  cg : r.mustCancel = true → r.everCancelled = true ∨ Exc g r
  cm : ∀ w ∈ r.mapSem.waiters, w.st = .cancelled → r.everCancelled = true ∨ Exc g r
  ir : r.outcome = none → r.everCancelled = false → r.inRunning = true
  ok : r.everCancelled = false → ∀ o, r.outcome = some o →
         (o = .ok ∧ r.remaining = 0 ∧ r.items = [] ∧ (r.kind = .map → r.pulled = r.created + r.skipped)) ∨
         (r.kind = .map ∧ o = .exc (.user 4))
  ka : r.kind = .apply → r.items = []
  km : r.kind = .map → r.remaining = 0
  kw : r.frame = .waitMapSem → r.kind = .map
  kn : r.kind = .map → 1 ≤ r.nc
  pc0 : r.kind = .map → r.outcome = none → r.frame = .notStarted → r.pulled = r.created + r.skipped
  pc1 : r.kind = .map → r.outcome = none → r.frame = .waitRoom ∨ r.frame = .waitMapSem →
          r.pulled = r.created + r.skipped + 1

/-- `FK` up to the requests about to be filed as cancelled -/
structure FKx (M : Nat → (PK → Prop) → Prop) (g : String) (p : Pool) : Prop where
  nog : ∀ (a : Nat) (A : Api), p.apis[a]? = some A → ∀ re, A.kind ≠ .gac re
  ncl : p.closed = false
  rg : ∀ (m : Nat) (r : Req), p.reqs[m]? = some r → RGx g r
  cw : ∀ w ∈ p.sem.waiters, w.st = .cancelled →
         ∃ r, p.reqs[w.owner]? = some r ∧ (r.everCancelled = true ∨ Exc g r)
  pin : ∀ m Q, M m Q → ∃ r, p.reqs[m]? = some r ∧ Q r.pk

theorem FK.toX {p : Pool} (h : FK M p) (g : String) : FKx M g p where
  nog := h.nog
  ncl := h.ncl
  rg := fun m r hp =>
    have hg := h.rg m r hp
    ⟨fun a => Or.inl (hg.cg a), fun w hw hc => Or.inl (hg.cm w hw hc), hg.ir, hg.ok, hg.ka, hg.km, hg.kw, hg.kn,
      hg.pc0, hg.pc1⟩
  cw := fun w hw hc => by
    obtain ⟨r, hp, he⟩ := h.cw w hw hc
    exact ⟨r, hp, Or.inl he⟩
  pin := h.pin

/-- the two records agree in everything the invariant reads except `mustCancel` and the own waiter queue -/
structure Same (r r' : Req) : Prop where
  e_out : r'.outcome = r.outcome
  e_ec : r'.everCancelled = r.everCancelled
  e_ir : r'.inRunning = r.inRunning
  e_rem : r'.remaining = r.remaining
  e_items : r'.items = r.items
  e_kind : r'.kind = r.kind
  e_frame : r'.frame = r.frame
  e_group : r'.group = r.group
  e_nc : r'.nc = r.nc
  e_pul : r'.pulled = r.pulled
  e_cre : r'.created = r.created
  e_ski : r'.skipped = r.skipped

theorem Same.rfl' (r : Req) : Same r r := ⟨rfl, rfl, rfl, rfl, rfl, rfl, rfl, rfl, rfl, rfl, rfl, rfl⟩

theorem Same.pk {r r' : Req} (h : Same r r') : r'.pk = r.pk := by
  unfold Req.pk
  rw [h.e_kind, h.e_out, h.e_frame, h.e_pul, h.e_cre, h.e_ski]

theorem Same.exc {r r' : Req} (h : Same r r') {g : String} (he : Exc g r) : Exc g r' := by
  unfold Exc at he ⊢
  rw [h.e_ir, h.e_group]; exact he

theorem Same.ecx {r r' : Req} (h : Same r r') {g : String} (he : r.everCancelled = true ∨ Exc g r) :
    r'.everCancelled = true ∨ Exc g r' := by
  rcases he with a | a
  · exact Or.inl (h.e_ec ▸ a)
  · exact Or.inr (h.exc a)

theorem same_snapReq (x : Req) : Same x (snapReq x) := by
  unfold snapReq; split <;> exact ⟨rfl, rfl, rfl, rfl, rfl, rfl, rfl, rfl, rfl, rfl, rfl, rfl⟩

/-- request `m`, which is about to be filed as cancelled, changes in `mustCancel` / its own waiter queue; new cancelled
entries of the pool's queue are its own -/
theorem fkx_mod {g : String} {p q : Pool} (h : FKx M g p) (ha : q.apis = p.apis) (hc : q.closed = p.closed) (m : Nat)
    (f : Req → Req) (hr : q.reqs = p.reqs.modify m f) (hf : ∀ r, Same r (f r))
    (hm : ∃ r, p.reqs[m]? = some r ∧ Exc g r)
    (hw : ∀ w' ∈ q.sem.waiters, w'.st = .cancelled → w' ∈ p.sem.waiters ∨ w'.owner = m) : FKx M g q := by
  obtain ⟨rm, hpm, hem⟩ := hm
  have hqm : q.reqs[m]? = some (f rm) := by
    rw [hr]; have := modify_get (m := m) (f := f) hpm; rwa [if_pos rfl] at this
  refine { nog := ?_, ncl := ?_, rg := ?_, cw := ?_, pin := ?_ }
  · rw [ha]; exact h.nog
  · rw [hc]; exact h.ncl
  · intro i r' hq
    rw [hr] at hq
    obtain ⟨r, hp, e⟩ := modify_inv hq
    subst e
    split
    · rename_i e; subst e
      rw [hpm] at hp; cases hp
      have hg := h.rg _ _ hpm
      have hs := hf rm
      have hx : Exc g (f rm) := hs.exc hem
      refine ⟨fun _ => Or.inr hx, fun _ _ _ => Or.inr hx, ?_, ?_, ?_, ?_, ?_, ?_, ?_, ?_⟩
      · rw [hs.e_out, hs.e_ec, hs.e_ir]; exact hg.ir
      · rw [hs.e_out, hs.e_ec, hs.e_rem, hs.e_items, hs.e_kind, hs.e_pul, hs.e_cre, hs.e_ski]; exact hg.ok
      · rw [hs.e_kind, hs.e_items]; exact hg.ka
      · rw [hs.e_kind, hs.e_rem]; exact hg.km
      · rw [hs.e_kind, hs.e_frame]; exact hg.kw
      · rw [hs.e_kind, hs.e_nc]; exact hg.kn
      · rw [hs.e_kind, hs.e_out, hs.e_frame, hs.e_pul, hs.e_cre, hs.e_ski]; exact hg.pc0
      · rw [hs.e_kind, hs.e_out, hs.e_frame, hs.e_pul, hs.e_cre, hs.e_ski]; exact hg.pc1
    · exact h.rg i r hp
  · intro w' hw' hst
    rcases hw w' hw' hst with a | a
    · obtain ⟨r, hp, he⟩ := h.cw w' a hst
      refine ⟨_, by rw [hr]; exact modify_get hp, ?_⟩
      split
      · exact (hf r).ecx he
      · exact he
    · rw [a]; exact ⟨_, hqm, Or.inr ((hf rm).exc hem)⟩
  · intro i Q hi
    obtain ⟨r, hp, hQ⟩ := h.pin i Q hi
    refine ⟨_, by rw [hr]; exact modify_get hp, ?_⟩
    split
    · rw [(hf r).pk]; exact hQ
    · exact hQ

/-- `Task.cancel()` on a spawner changes nothing of what decides whether it is filed as cancelled -/
theorem metaCancel_same (p : Pool) (m i : Nat) (r : Req) (hp : p.reqs[i]? = some r) :
    ∃ r', (p.metaCancel m).reqs[i]? = some r' ∧ Same r r' := by
  unfold metaCancel
  split
  · exact ⟨r, hp, Same.rfl' r⟩
  · split
    · exact ⟨r, hp, Same.rfl' r⟩
    · split
      · rw [modReq_schedMeta]
        refine ⟨_, by exact modify_get hp, ?_⟩
        split
        · exact ⟨(same_snapReq r).e_out, (same_snapReq r).e_ec, (same_snapReq r).e_ir, (same_snapReq r).e_rem,
            (same_snapReq r).e_items, (same_snapReq r).e_kind, (same_snapReq r).e_frame, (same_snapReq r).e_group,
            (same_snapReq r).e_nc, (same_snapReq r).e_pul, (same_snapReq r).e_cre, (same_snapReq r).e_ski⟩
        · exact Same.rfl' r
      · split
        · rw [modReq_schedMeta]
          refine ⟨_, by exact modify_get hp, ?_⟩
          split
          · have hs := same_snapReq { r with mapSem := { r.mapSem with waiters := cancelWaiterL m r.mapSem.waiters } }
            exact ⟨hs.e_out, hs.e_ec, hs.e_ir, hs.e_rem, hs.e_items, hs.e_kind, hs.e_frame, hs.e_group, hs.e_nc, hs.e_pul,
            hs.e_cre, hs.e_ski⟩
          · exact Same.rfl' r
        · refine ⟨_, by exact modify_get hp, ?_⟩
          split
          · have hs := same_snapReq { r with mustCancel := true }
            exact ⟨hs.e_out, hs.e_ec, hs.e_ir, hs.e_rem, hs.e_items, hs.e_kind, hs.e_frame, hs.e_group, hs.e_nc, hs.e_pul,
            hs.e_cre, hs.e_ski⟩
          · exact Same.rfl' r

theorem fkx_metaCancel {g : String} {p : Pool} (h : FKx M g p) (m : Nat) (hm : ∃ r, p.reqs[m]? = some r ∧ Exc g r) :
    FKx M g (p.metaCancel m) := by
  unfold metaCancel
  split
  · exact h
  · split
    · exact h
    · split
      · rw [modReq_schedMeta]
        refine fkx_mod h (by rfl) (by rfl) m _ (by rfl) (fun x => ?_) hm ?_
        · have hs := same_snapReq x
          exact ⟨hs.e_out, hs.e_ec, hs.e_ir, hs.e_rem, hs.e_items, hs.e_kind, hs.e_frame, hs.e_group, hs.e_nc, hs.e_pul,
            hs.e_cre, hs.e_ski⟩
        · exact fun w' hw' _ => mem_cancelWaiterL _ _ _ hw'
      · split
        · rw [modReq_schedMeta]
          refine fkx_mod h (by rfl) (by rfl) m _ (by rfl) (fun x => ?_) hm (fun _ hw' _ => Or.inl hw')
          have hs := same_snapReq { x with mapSem := { x.mapSem with waiters := cancelWaiterL m x.mapSem.waiters } }
          exact ⟨hs.e_out, hs.e_ec, hs.e_ir, hs.e_rem, hs.e_items, hs.e_kind, hs.e_frame, hs.e_group, hs.e_nc, hs.e_pul,
            hs.e_cre, hs.e_ski⟩
        · refine fkx_mod h (by rfl) (by rfl) m _ (by rfl) (fun x => ?_) hm (fun _ hw' _ => Or.inl hw')
          have hs := same_snapReq { x with mustCancel := true }
          exact ⟨hs.e_out, hs.e_ec, hs.e_ir, hs.e_rem, hs.e_items, hs.e_kind, hs.e_frame, hs.e_group, hs.e_nc, hs.e_pul,
            hs.e_cre, hs.e_ski⟩

theorem mem_indicesWhere {l : List Req} {f : Req → Bool} {i : Nat} (h : i ∈ indicesWhere l f) :
    ∃ r, l[i]? = some r ∧ f r = true := by
  unfold indicesWhere at h
  simp only [List.mem_map, List.mem_filter] at h
  obtain ⟨ri, ⟨hmem, hf⟩, rfl⟩ := h
  exact ⟨ri.1, List.mem_zipIdx_iff_getElem?.mp hmem, hf⟩

theorem fkx_foldl_metaCancel {g : String} (ms : List Nat) (p : Pool) (h : FKx M g p)
    (hms : ∀ i ∈ ms, ∃ r, p.reqs[i]? = some r ∧ Exc g r) :
    FKx M g (ms.foldl (fun p m => p.metaCancel m) p) := by
  induction ms generalizing p with
  | nil => exact h
  | cons m ms ih =>
    refine ih _ (fkx_metaCancel h m (hms m List.mem_cons_self)) (fun i hi => ?_)
    obtain ⟨r, hp, he⟩ := hms i (List.mem_cons_of_mem _ hi)
    obtain ⟨r', hq, hs⟩ := metaCancel_same p m i r hp
    exact ⟨r', hq, hs.exc he⟩

theorem fk_cancelGroupMetas {p : Pool} (h : FK M p) (g : String) : FK M (p.cancelGroupMetas g) := by
  unfold cancelGroupMetas
  simp only
  have h1 := fkx_foldl_metaCancel (indicesWhere p.reqs fun r => r.inRunning && r.group == g) p (h.toX g)
    (fun i hi => mem_indicesWhere hi)
  generalize (indicesWhere p.reqs fun r => r.inRunning && r.group == g).foldl (fun p m => p.metaCancel m) p = q at h1 ⊢
  refine { nog := h1.nog, ncl := h1.ncl, rg := ?_, cw := ?_, pin := ?_ }
  · intro i r' hq
    simp only [List.getElem?_map] at hq
    cases hp : q.reqs[i]? with
    | none => simp [hp] at hq
    | some r =>
      simp only [hp, Option.map_some, Option.some.injEq] at hq
      have hg := h1.rg i r hp
      by_cases c : (r.inRunning && r.group == g) = true
      · rw [if_pos c] at hq; subst hq
        exact ⟨fun _ => rfl, fun _ _ _ => rfl, fun _ e => (nomatch e), fun e => (nomatch e), hg.ka, hg.km, hg.kw, hg.kn,
          hg.pc0, hg.pc1⟩
      · rw [if_neg c] at hq; subst hq
        refine ⟨fun a => ?_, fun w hw hc => ?_, hg.ir, hg.ok, hg.ka, hg.km, hg.kw, hg.kn, hg.pc0, hg.pc1⟩
        · exact (hg.cg a).resolve_right c
        · exact (hg.cm w hw hc).resolve_right c
  · intro w hw hst
    obtain ⟨r, hp, he⟩ := h1.cw w hw hst
    refine ⟨_, by simp only [List.getElem?_map, hp, Option.map_some]; rfl, ?_⟩
    by_cases c : (r.inRunning && r.group == g) = true
    · rw [if_pos c]
    · rw [if_neg c]; exact he.resolve_right c
  · intro i Q hi
    obtain ⟨r, hp, hQ⟩ := h1.pin i Q hi
    refine ⟨_, by simp only [List.getElem?_map, hp, Option.map_some]; rfl, ?_⟩
    by_cases c : (r.inRunning && r.group == g) = true
    · rw [if_pos c]; exact hQ
    · rw [if_neg c]; exact hQ

/-! ### synchronous API -/

theorem rg_newReq_apply (stars : Nat) (g : String) (sp : SpawnSpec) (n nc : Nat) : RG (newReq .apply stars g sp n [] nc) :=
  ⟨fun e => (nomatch e), fun _ hw => (nomatch hw), fun _ _ => rfl, fun _ _ e => (nomatch e), fun _ => rfl,
    fun e => (nomatch e), fun e => (nomatch e), fun e => (nomatch e), fun e => (nomatch e), fun e => (nomatch e)⟩

theorem rg_newReq_map (stars : Nat) (g : String) (sp : SpawnSpec) (items : List Item) (nc : Nat) (hnc : 1 ≤ nc) :
    RG (newReq .map stars g sp 0 items nc) :=
  ⟨fun e => (nomatch e), fun _ hw => (nomatch hw), fun _ _ => rfl, fun _ _ e => (nomatch e), fun e => (nomatch e),
    fun _ => rfl, fun e => (nomatch e), fun _ => hnc, fun _ _ _ => rfl, fun _ _ e => e.elim (nomatch ·) (nomatch ·)⟩

theorem fk_register {p : Pool} (h : FK M p) (r : Req) (hr : RG r) : FK M (p.register r) := by
  unfold register
  exact fk_appendReq h r rfl rfl rfl rfl hr

theorem fk_ite_fst {c : Prop} [Decidable c] (a b : Pool × Res) (ha : FK M a.1) (hb : FK M b.1) :
    FK M (if c then a else b).1 := by split <;> assumption

theorem fk_doApply {p : Pool} (h : FK M p) (num : Int) (group : Option String) (sp : SpawnSpec) :
    FK M (p.doApply num group sp).1 := by
  unfold doApply
  repeat' split
  all_goals first | exact h | exact fk_ite_fst _ _ h (fk_register h _ (rg_newReq_apply _ _ _ _ _))

theorem fk_doMap {p : Pool} (h : FK M p) (stars : Nat) (items : List Item) (nc : Int) (group : Option String)
    (sp : SpawnSpec) : FK M (p.doMap stars items nc group sp).1 := by
  unfold doMap
  simp only
  cases p.checkStart sp.isCoro with
  | some e => exact h
  | none =>
    simp only
    by_cases hnc : nc < 1
    · rw [if_pos hnc]; exact h
    · rw [if_neg hnc]
      exact fk_ite_fst _ _ h (fk_register h _ (rg_newReq_map _ _ _ _ _ (by omega)))

theorem fk_doStart {p : Pool} (h : FK M p) (num : Int) : FK M (p.doStart num).1 := by
  unfold doStart
  split
  · exact h
  · split
    · exact h
    · simp only
      exact fk_register (fk_of_eq h (by rfl) (by rfl) (by rfl) (by rfl)) _ (rg_newReq_apply _ _ _ _ _)

theorem fk_doCancel {p : Pool} (h : FK M p) (ids : List Int) : FK M (p.doCancel ids).1 := by
  unfold doCancel
  split
  · exact h
  · exact fk_foldl _ (fun q id hq => fk_cancelTask hq _) _ _ h

theorem fk_doStop {p : Pool} (h : FK M p) (n : Int) : FK M (p.doStop n).1 := by
  unfold doStop
  split
  · exact h
  · exact fk_doCancel h _

theorem fk_popOrder {p : Pool} (h : FK M p) : FK M p.popOrder.1 := by
  unfold popOrder
  split
  · exact h
  · exact fk_of_eq h rfl rfl rfl rfl

theorem fk_cancelGroupBody {p : Pool} (h : FK M p) (g : String) (ids order : List Nat) (q : Pool)
    (hq : p.cancelGroupBody g ids order = some q) : FK M q := by
  unfold cancelGroupBody at hq
  simp only at hq
  split at hq
  · cases hq
  · simp only [Option.some.injEq] at hq
    subst hq
    exact fk_foldl _ (fun q t hq => fk_cancelTask hq t) _ _ (fk_cancelGroupMetas h g)

theorem fk_doCancelGroup {p : Pool} (h : FK M p) (g : String) : FK M (p.doCancelGroup g).1 := by
  unfold doCancelGroup
  split
  · exact h
  · simp only
    split
    · exact h
    · rename_i p2 h2
      exact fk_cancelGroupBody (fk_of_eq (fk_popOrder h) (by rfl) (by rfl) (by rfl) (by rfl)) _ _ _ _ h2

theorem fk_cancelAllLoop (gs : List (String × List Nat)) (order : List Nat) (p q : Pool) (h : FK M p)
    (hq : cancelAllLoop gs order p = some q) : FK M q := by
  induction gs generalizing p with
  | nil => simp [cancelAllLoop] at hq; subst hq; exact h
  | cons x xs ih =>
    obtain ⟨g, ids⟩ := x
    simp only [cancelAllLoop] at hq
    split at hq
    · cases hq
    · rename_i p1 h1
      exact ih _ (fk_cancelGroupBody h _ _ _ _ h1) hq

theorem fk_doCancelAll {p : Pool} (h : FK M p) : FK M p.doCancelAll.1 := by
  unfold doCancelAll
  simp only
  split
  · exact h
  · rename_i p2 h2
    exact fk_cancelAllLoop _ _ _ _ (fk_of_eq (fk_popOrder h) (by rfl) (by rfl) (by rfl) (by rfl)) h2

theorem fk_doSetSize {p : Pool} (h : FK M p) (v : Int) : FK M (p.doSetSize v).1 := by
  unfold doSetSize
  split
  · exact h
  · exact fk_of_eq h rfl rfl rfl rfl

theorem fk_doHook {p : Pool} (h : FK M p) (ctx : Nat) (x : HookOp) : FK M (p.doHook ctx x).1 := by
  cases x <;> simp only [doHook]
  · exact fk_doCancel h _
  · exact fk_doCancelGroup h _
  · split
    · exact fk_doCancelGroup h _
    · exact h
  · exact fk_doCancelAll h
  · exact fk_of_eq h rfl rfl rfl rfl
  · exact fk_of_eq h rfl rfl rfl rfl
  · exact fk_doStop h _
  · split
    · exact h
    · exact fk_doApply h _ _ _

/-- user code run by the pool (it can cancel, lock, start new requests — not close the pool) -/
theorem fk_runHooks {p : Pool} (h : FK M p) (ctx : Nat) (hs : List HookOp) : FK M (p.runHooks ctx hs) := by
  unfold runHooks
  exact fk_foldl _ (fun q x hq => fk_logEv (fk_doHook hq ctx x) _) _ _ h

/-! ### gather -/

theorem fk_gatherChildDone {p : Pool} (h : FK M p) (g i : Nat) (viaHandle : Bool) :
    FK M (p.gatherChildDone g i viaHandle) := by
  unfold gatherChildDone
  split
  · exact h
  · split
    · exact h
    · simp only
      have h1 := fk_modGather h g fun x => { x with nfinished := x.nfinished + 1 }
      split
      · exact h1
      · split
        · exact h1
        · split
          · exact h1
          · split
            · exact fk_schedApi (fk_modGather h1 _ _) _
            · exact fk_modGather h1 _ _

theorem fk_registerChild {p : Pool} (h : FK M p) (c : Child) (g i : Nat) : FK M (p.registerChild c g i) := by
  unfold registerChild
  split
  · exact fk_modTask h _ _
  · exact fk_mr h

theorem fk_gatherScan (g : Nat) (cs : List Child) (i : Nat) (p : Pool) (h : FK M p) : FK M (gatherScan g cs i p) := by
  induction cs generalizing i p with
  | nil => unfold gatherScan; exact h
  | cons c cs ih =>
    unfold gatherScan
    refine ih _ _ ?_
    split
    · exact fk_gatherChildDone h g i false
    · exact fk_registerChild h c g i

theorem fk_gatherStart {p : Pool} (h : FK M p) (children : List Child) (re : Bool) (owner : Nat) (setPrefix : Nat) :
    FK M (p.gatherStart children re owner setPrefix).1 := by
  unfold gatherStart
  simp only
  exact fk_gatherScan _ _ _ _ (fk_of_eq h (by rfl) (by rfl) (by rfl) (by rfl))

/-! ### flush / until_closed (no `gather_and_close` call exists) -/

theorem fk_finishApi {p : Pool} (h : FK M p) (a : Nat) (o : Outcome) : FK M (p.finishApi a o) := by
  unfold finishApi
  exact fk_modApi h _ _

theorem fk_flushAfter2 {p : Pool} (h : FK M p) (a : Nat) (o : Outcome) : FK M (p.flushAfter2 a o) := by
  unfold flushAfter2
  split
  · simp only
    exact fk_finishApi (fk_of_eq h (by rfl) (by rfl) (by rfl) (by rfl)) a _
  · exact fk_finishApi h a _

theorem fk_flushAfter1 {p : Pool} (h : FK M p) (a : Nat) (re : Bool) (o : Outcome) : FK M (p.flushAfter1 a re o) := by
  unfold flushAfter1
  split
  · exact fk_finishApi h a _
  · simp only
    have t1 : FK M ({ p with metaCancelled := [], reqs := p.reqs.map fun (r : Req) => { r with inCancelled := false } } : Pool) :=
      fk_mapReqs h (fun (r : Req) => { r with inCancelled := false }) rfl rfl rfl rfl
        (fun r hg => ⟨rg_of_eq hg id rfl (fun _ a _ => a) rfl rfl rfl rfl rfl (Or.inl rfl) rfl rfl rfl rfl, id, rfl⟩)
    split
    · exact fk_flushAfter2 (fk_gatherStart (fk_modApi t1 _ _ ) _ _ _ _) a _
    · exact fk_modApi (fk_gatherStart (fk_modApi t1 _ _) _ _ _ _) _ _

theorem fk_flushStage1 {p : Pool} (h : FK M p) (a : Nat) (re : Bool) : FK M (p.flushStage1 a re) := by
  unfold flushStage1
  simp only
  have t1 : FK M ({ p with reqs := p.reqs.map fun (r : Req) => if r.inRunning && r.outcome.isSome then { r with inRunning := false } else r } : Pool) := by
    refine fk_mapReqs h (fun (r : Req) => if r.inRunning && r.outcome.isSome then { r with inRunning := false } else r)
      rfl rfl rfl rfl (fun r hg => ?_)
    split
    · rename_i c
      refine ⟨⟨hg.cg, hg.cm, fun ho => ?_, hg.ok, hg.ka, hg.km, hg.kw, hg.kn, hg.pc0, hg.pc1⟩, id, rfl⟩
      have ho' : r.outcome = none := ho
      simp [ho'] at c
    · exact ⟨hg, id, rfl⟩
  split
  · exact fk_flushAfter1 (fk_gatherStart t1 _ _ _ _) a re _
  · exact fk_modApi (fk_gatherStart t1 _ _ _ _) _ _

theorem fk_untilClosedStart {p : Pool} (h : FK M p) (a : Nat) : FK M (p.untilClosedStart a) := by
  unfold untilClosedStart
  split
  · exact fk_finishApi h a _
  · exact fk_modApi (fk_of_eq h (by rfl) (by rfl) (by rfl) (by rfl)) _ _

theorem fk_stepApi_rest {p : Pool} (h : FK M p) (a : Nat) (A : Api) (hk : ∀ re, A.kind ≠ .gac re) :
    FK M (match A.frame, A.kind with
      | .done, _ => p
      | .notStarted, .flush re => p.flushStage1 a re
      | .notStarted, .gac re => p.gacStage1 a re
      | .notStarted, .untilClosed => p.untilClosedStart a
      | .waitClosed, _ => p.finishApi a .ok
      | .gather1 g, .flush re => match p.gatherOuter g with | some o => p.flushAfter1 a re o | none => p
      | .gather1 g, .gac re => match p.gatherOuter g with | some _ => p.gacAfter1 a re g | none => p
      | .gather2 g, .flush _ => match p.gatherOuter g with | some o => p.flushAfter2 a o | none => p
      | .gather2 g, .gac _ => match p.gatherOuter g with | some o => p.gacAfter2 a o | none => p
      | _, _ => p) := by
  split
  · exact h
  · exact fk_flushStage1 h a _
  · rename_i e; exact absurd e (hk _)
  · exact fk_untilClosedStart h a
  · exact fk_finishApi h a _
  · split
    · exact fk_flushAfter1 h a _ _
    · exact h
  · rename_i e; exact absurd e (hk _)
  · split
    · exact fk_flushAfter2 h a _
    · exact h
  · rename_i e; exact absurd e (hk _)
  · exact h

/-- a background call takes a step: it is never a `gather_and_close`, so the pool is not closed -/
theorem fk_stepApi {p : Pool} (h : FK M p) (a : Nat) : FK M (p.stepApi a) := by
  unfold stepApi
  split
  · exact h
  · rename_i A hA
    split
    · exact h
    · simp only
      exact fk_stepApi_rest (fk_modApi h _ _) a A (h.nog a A hA)

theorem fk_addApi {p : Pool} (h : FK M p) (k : ApiKind) (hk : ∀ re, k ≠ .gac re) : FK M (p.addApi k) := by
  unfold addApi
  refine fk_emitRef (p := { p with apis := p.apis ++ [{ kind := k, frame := .notStarted, sched := true, outcome := none }] }) ?_ _
  refine { h with nog := ?_ }
  intro i A hq re
  rcases append_some (l := p.apis) hq with hA | ⟨_, rfl⟩
  · exact h.nog i A hA re
  · exact hk re

theorem fk_doGate {p : Pool} (h : FK M p) (t : Nat) (o : FutSt) : FK M (p.doGate t o).1 := by
  unfold doGate
  split
  · exact fk_schedTask (fk_modTask h _ _) _
  · exact h

/-- every external operation except `gather_and_close` -/
theorem fk_applyOp {p : Pool} (h : FK M p) (op : Op) (hop : noGac op = true) : FK M (p.applyOp op).1 := by
  cases op <;> simp only [applyOp]
  · exact fk_doApply h _ _ _
  · exact fk_doMap h _ _ _ _ _
  · exact fk_doStart h _
  · exact fk_doStop h _
  · exact fk_doStop h _
  · exact fk_doCancel h _
  · exact fk_doCancelGroup h _
  · exact fk_doCancelAll h
  · exact fk_of_eq h rfl rfl rfl rfl
  · exact fk_of_eq h rfl rfl rfl rfl
  · exact fk_doSetSize h _
  · exact h
  · exact fk_addApi h _ (fun _ e => nomatch e)
  · simp [noGac, Op.isGac] at hop
  · exact fk_addApi h _ (fun _ e => nomatch e)
  · exact fk_doGate h _ _

/-! ### the wrapper of a pool task -/

theorem fk_completeTask {p : Pool} (h : FK M p) (t : Nat) (o : Outcome) : FK M (p.completeTask t o) := by
  unfold completeTask
  split
  · exact h
  · exact fk_emitChildren (fk_modTask h _ _) _

theorem fk_finishTask {p : Pool} (h : FK M p) (t : Nat) : FK M (p.finishTask t) := by
  unfold finishTask
  split
  · exact h
  · exact fk_completeTask h _ _

theorem fk_suspendTask {p : Pool} (h : FK M p) (t : Nat) (ph : Phase) : FK M (p.suspendTask t ph) := by
  unfold suspendTask
  split
  · exact h
  · split
    · exact fk_schedTask (fk_modTask h _ _) _
    · exact fk_modTask h _ _

theorem fk_cbBegin {p : Pool} (h : FK M p) (t : Nat) (tk : PTask) (isEnd : Bool) : FK M (p.cbBegin t tk isEnd) := by
  unfold cbBegin
  simp only
  exact fk_runHooks (fk_logEv (fk_modTask h _ _) _) _ _

theorem fk_runCb {p : Pool} (h : FK M p) (t : Nat) (tk : PTask) (isEnd : Bool) : FK M (p.runCb t tk isEnd).1 := by
  unfold runCb
  split
  · exact h
  · exact fk_logEv (fk_cbBegin h t tk isEnd) _
  · exact fk_modTask (fk_logEv (fk_cbBegin h t tk isEnd) _) _ _
  · exact fk_suspendTask (fk_cbBegin h t tk isEnd) _ _

theorem fk_moveToEnded {p : Pool} (h : FK M p) (t : Nat) (q : Pool) (hq : p.moveToEnded t = some q) : FK M q := by
  unfold moveToEnded at hq
  split at hq
  · simp only [Option.some.injEq] at hq; subst hq; exact fk_of_eq h rfl rfl rfl rfl
  · split at hq
    · simp only [Option.some.injEq] at hq; subst hq; exact fk_of_eq h rfl rfl rfl rfl
    · cases hq

theorem fk_releaseMapSlot {p : Pool} (h : FK M p) (t : Nat) (tk : PTask) : FK M (p.releaseMapSlot t tk) := by
  unfold releaseMapSlot
  split
  · exact fk_modTask (fk_releaseMap h _) _ _
  · exact h

theorem fk_endCallback {p : Pool} (h : FK M p) (t : Nat) (tk : PTask) : FK M (p.endCallback t tk) := by
  unfold endCallback
  simp only
  have hr := fk_runCb (fk_releaseMapSlot h t tk) t tk true
  split
  · exact hr
  · exact fk_finishTask hr t

theorem fk_endingTail {p : Pool} (h : FK M p) (t : Nat) (tk : PTask) : FK M (p.endingTail t tk) := by
  unfold endingTail
  exact fk_endCallback (fk_modTask (fk_releasePool h) _ _) t tk

theorem fk_keyErrorFinish {p : Pool} (h : FK M p) (t : Nat) : FK M (p.keyErrorFinish t) := by
  unfold keyErrorFinish
  exact fk_finishTask (fk_modTask (fk_of_eq h (by rfl) (by rfl) (by rfl) (by rfl)) _ _) t

theorem fk_taskEnding {p : Pool} (h : FK M p) (t : Nat) : FK M (p.taskEnding t) := by
  unfold taskEnding
  split
  · exact h
  · split
    · exact fk_keyErrorFinish h t
    · rename_i p1 hm
      exact fk_endingTail (fk_moveToEnded h t p1 hm) t _

theorem fk_cancelCallback {p : Pool} (h : FK M p) (t : Nat) (tk : PTask) : FK M (p.cancelCallback t tk) := by
  unfold cancelCallback
  simp only
  have hr := fk_runCb h t tk false
  split
  · exact hr
  · exact fk_taskEnding hr t

theorem fk_taskCancellation {p : Pool} (h : FK M p) (t : Nat) (tk : PTask) : FK M (p.taskCancellation t tk) := by
  unfold taskCancellation
  split
  · exact fk_cancelCallback (fk_modTask (fk_of_eq h (by rfl) (by rfl) (by rfl) (by rfl)) _ _) t tk
  · exact fk_taskEnding (fk_modTask (fk_of_eq h (by rfl) (by rfl) (by rfl) (by rfl)) _ _) t

theorem fk_afterWorker {p : Pool} (h : FK M p) (t : Nat) (e : Option Err) : FK M (p.afterWorker t e) := by
  unfold afterWorker
  split
  · exact fk_taskEnding (fk_modTask (fk_logEv h _) _ _) t
  · exact fk_taskEnding (fk_modTask (fk_logEv h _) _ _) t

theorem fk_stepCreated {p : Pool} (h : FK M p) (t : Nat) (tk : PTask) : FK M (p.stepCreated t tk) := by
  unfold stepCreated
  split
  · exact fk_taskCancellation (fk_modTask h _ _) t tk
  · simp only
    have h0 : FK M (((p.logEv (.started t tk.arg)).modTask t fun k => { k with phase := .inWorker, fut := .ok, unstarted := false }).runHooks tk.req (p.reqOf tk).hooks.start) :=
      fk_runHooks (fk_modTask (fk_logEv h _) _ _) _ _
    split
    · exact fk_afterWorker h0 _ _
    · exact fk_afterWorker h0 _ _
    · exact fk_suspendTask (fk_modTask h0 _ _) _ _

theorem fk_workerNext {p : Pool} (h : FK M p) (t : Nat) (tk : PTask) : FK M (p.workerNext t tk) := by
  unfold workerNext
  exact fk_suspendTask (fk_runHooks (fk_modTask (fk_logEv h _) _ _) _ _) _ _

theorem fk_workerCancelled {p : Pool} (h : FK M p) (t : Nat) (tk : PTask) : FK M (p.workerCancelled t tk) := by
  unfold workerCancelled
  split
  · exact fk_suspendTask (fk_modTask (fk_logEv h _) _ _) _ _
  · simp only
    have h0 : FK M ((p.logEv (.sawCancel t)).modTask t fun k => { k with sawCancel := true, phase := .wrapUp, nSaw := k.nSaw + 1 }) :=
      fk_modTask (fk_logEv h _) _ _
    split
    · exact fk_afterWorker h0 _ _
    · exact fk_taskCancellation h0 t tk

theorem fk_stepInWorker {p : Pool} (h : FK M p) (t : Nat) (tk : PTask) : FK M (p.stepInWorker t tk) := by
  unfold stepInWorker
  split
  · exact fk_workerCancelled (fk_modTask h _ _) t tk
  · split
    · split
      · exact fk_workerNext h t tk
      · exact fk_afterWorker h _ _
    · exact fk_afterWorker h _ _
    · exact h

theorem fk_stepInCancelCb {p : Pool} (h : FK M p) (t : Nat) (tk : PTask) : FK M (p.stepInCancelCb t tk) := by
  unfold stepInCancelCb
  split
  · exact fk_taskEnding (fk_modTask (fk_logEv h _) _ _) t
  · exact fk_taskEnding (fk_modTask (fk_logEv h _) _ _) t
  · exact fk_taskEnding (fk_modTask (fk_logEv h _) _ _) t
  · exact h

theorem fk_stepInEndCb {p : Pool} (h : FK M p) (t : Nat) (tk : PTask) : FK M (p.stepInEndCb t tk) := by
  unfold stepInEndCb
  split
  · exact fk_finishTask (fk_logEv h _) t
  · exact fk_finishTask (fk_modTask (fk_logEv h _) _ _) t
  · exact fk_finishTask (fk_modTask (fk_logEv h _) _ _) t
  · exact h

theorem fk_stepTask {p : Pool} (h : FK M p) (t : Nat) : FK M (p.stepTask t) := by
  unfold stepTask
  split
  · exact h
  · rename_i tk htk
    split
    · exact h
    · simp only
      have h1 : FK M (p.modTask t fun k => { k with sched := false }) := fk_modTask h _ _
      split
      · exact fk_stepCreated h1 t tk
      · exact h1
      · exact fk_stepInWorker h1 t tk
      · exact fk_stepInCancelCb h1 t tk
      · exact fk_stepInEndCb h1 t tk
      · exact h1

/-! ### spawners: facts about the record of the spawner whose handle is being run -/

/-- the fields of a request nobody but the spawner's own last step (`outcome`) and `cancel_group` (`everCancelled`) writes -/
def Key (r : Req) : ReqKind × Option Outcome × Bool := (r.kind, r.outcome, r.everCancelled)

/-- request `m` exists and its key satisfies `P` -/
def At (p : Pool) (m : Nat) (P : ReqKind × Option Outcome × Bool → Prop) : Prop := ∃ r, p.reqs[m]? = some r ∧ P (Key r)

/-- an apply-style spawner whose asyncio Task is not done -/
abbrev PA : ReqKind × Option Outcome × Bool → Prop := fun k => k.1 = .apply ∧ k.2.1 = none
/-- a map-style spawner whose asyncio Task is not done -/
abbrev PMp : ReqKind × Option Outcome × Bool → Prop := fun k => k.1 = .map ∧ k.2.1 = none
/-- a spawner whose asyncio Task is not done -/
abbrev PL : ReqKind × Option Outcome × Bool → Prop := fun k => k.2.1 = none
/-- a spawner filed as cancelled -/
abbrev PE : ReqKind × Option Outcome × Bool → Prop := fun k => k.2.2 = true

variable {P : ReqKind × Option Outcome × Bool → Prop}

theorem At.of_eq {p q : Pool} {m : Nat} (h : At p m P) (hr : q.reqs = p.reqs) : At q m P := by
  unfold At; rw [hr]; exact h

theorem At.modReq {p : Pool} {m : Nat} (h : At p m P) (i : Nat) (f : Req → Req)
    (hf : ∀ r, Key (f r) = Key r := by intro r; rfl) :
    At (p.modReq i f) m P := by
  obtain ⟨r, hp, hP⟩ := h
  refine ⟨_, by exact modify_get hp, ?_⟩
  split
  · rw [hf]; exact hP
  · exact hP

theorem At.get {p : Pool} {m : Nat} (h : At p m P) {r : Req} (hp : p.reqs[m]? = some r) : P (Key r) := by
  obtain ⟨r0, hp0, hP⟩ := h
  rw [hp] at hp0; cases hp0; exact hP

theorem At.schedOpt {p : Pool} {m : Nat} (h : At p m P) (o : Option Nat) : At (p.schedOpt o) m P := by
  cases o with
  | none => exact h
  | some i =>
    show At (p.schedMeta i) m P
    unfold schedMeta
    exact (h.modReq i _).of_eq rfl

theorem At.releasePool {p : Pool} {m : Nat} (h : At p m P) : At p.releasePool m P := by
  unfold Pool.releasePool
  exact (h.of_eq (q := { p with sem := p.sem.release.1 }) rfl).schedOpt _

theorem At.releaseMap {p : Pool} {m : Nat} (h : At p m P) (i : Nat) : At (p.releaseMap i) m P := by
  unfold Pool.releaseMap
  split
  · exact h
  · exact (h.modReq i _).schedOpt _

theorem At.createTask {p : Pool} {m : Nat} (h : At p m P) (i : Nat) (isMap : Bool) : At (p.createTask i isMap) m P := by
  unfold Pool.createTask
  simp only
  refine At.of_eq (p := Pool.modReq _ i fun x => { x with created := x.created + 1 }) ?_ rfl
  exact (h.of_eq (by rfl)).modReq i _

theorem At.takeSlotAndCreate {p : Pool} {m : Nat} (h : At p m P) (i : Nat) (isMap : Bool) :
    At (p.takeSlotAndCreate i isMap) m P := by
  unfold Pool.takeSlotAndCreate
  exact (h.of_eq (q := { p with sem := { p.sem with value := p.sem.value.dec } }) rfl).createTask i isMap

theorem fk_pin {p : Pool} (h : FK M p) {m : Nat} {Q : PK → Prop} (hm : ∃ r, p.reqs[m]? = some r ∧ Q r.pk) :
    FK (PM m Q) p :=
  { h with pin := fun i Q' hi => by obtain ⟨rfl, rfl⟩ := hi; exact hm }

/-- an apply-style spawner whose asyncio Task is not done -/
abbrev QA : PK → Prop := fun k => k.kind = .apply ∧ k.outcome = none
/-- a map-style spawner at the head of its loop: nothing in hand -/
abbrev QH : PK → Prop := fun k => k.kind = .map ∧ k.outcome = none ∧ k.pulled = k.created + k.skipped
/-- a map-style spawner that has just woken up in an `acquire()`: one pulled element in hand -/
abbrev QW : PK → Prop := fun k => k.kind = .map ∧ k.outcome = none ∧ k.pulled = k.created + k.skipped + 1
/-- a map-style spawner inside its loop with one pulled element in hand -/
abbrev QI : PK → Prop := fun k =>
  k.kind = .map ∧ k.outcome = none ∧ k.pulled = k.created + k.skipped + 1 ∧ k.frame = .running
/-- a spawner that has just been granted a pool slot (the task is not created yet) -/
abbrev QG : PK → Prop := fun k =>
  k.outcome = none ∧ k.frame = .running ∧ (k.kind = .map → k.pulled = k.created + k.skipped + 1)

/-- the spawner whose handle is being run writes its own record -/
theorem fk_own {p : Pool} {m : Nat} {Q Q' : PK → Prop} (h : FK (PM m Q) p) (f : Req → Req)
    (hf : ∀ r, p.reqs[m]? = some r → Q r.pk → RG r →
      RG (f r) ∧ (r.everCancelled = true → (f r).everCancelled = true) ∧ Q' (f r).pk) :
    FK (PM m Q') (p.modReq m f) := by
  obtain ⟨r, hp, hQ⟩ := h.pinned
  refine fk_pin (fk_modReq h.zero m f (fun r0 hp0 hg => ?_))
    ⟨f r, modReq_get_self p m f r hp, (hf r hp hQ (h.rg m r hp)).2.2⟩
  rw [hp] at hp0; cases hp0
  exact ⟨(hf r hp hQ hg).1, (hf r hp hQ hg).2.1, fun ⟨_, x⟩ => x.elim⟩

/-! ### spawners: the walk -/

/-- the spawner's asyncio Task is done: normally with nothing left, or by an exception of its argument iterator — unless
it was filed as cancelled -/
theorem fk_finishMeta {p : Pool} (h : FK M p) (m : Nat) (o : Outcome)
    (ho : ∀ r, p.reqs[m]? = some r → r.everCancelled = false →
      (o = .ok ∧ r.remaining = 0 ∧ r.items = [] ∧ (r.kind = .map → r.pulled = r.created + r.skipped)) ∨
      (r.kind = .map ∧ o = .exc (.user 4))) : FK0 (p.finishMeta m o) := by
  unfold finishMeta
  split
  · exact h.zero
  · rename_i r hp
    refine fk_emitChildren (fk_modReq h.zero m _ (fun r0 hp0 hg => ?_)) _
    rw [hp] at hp0; cases hp0
    refine ⟨⟨fun e => (nomatch e), hg.cm, fun e => (nomatch e), fun hec o' e => ?_, hg.ka, hg.km, fun e => (nomatch e), hg.kn,
      fun _ e => (nomatch e), fun _ e => (nomatch e)⟩, id, fun ⟨_, x⟩ => x.elim⟩
    have hmc : r.mustCancel = false := by
      cases hc : r.mustCancel with
      | false => rfl
      | true => have := hg.cg hc; rw [hec] at this; cases this
    simp only [hmc, Bool.and_false, Bool.false_eq_true, if_false, Option.some.injEq] at e
    subst e
    exact ho r hp hec

theorem fk_pushWaiter {p : Pool} (h : FK M p) (w : Waiter)
    (hw : w.st = .cancelled → ∃ r, p.reqs[w.owner]? = some r ∧ r.everCancelled = true) :
    FK M ({ p with sem := { p.sem with waiters := p.sem.waiters ++ [w] } } : Pool) := by
  refine fk_reqs_eq h rfl rfl rfl (fun w' hw' hst => ?_)
  rcases List.mem_append.mp hw' with a | a
  · exact Or.inl a
  · rw [List.mem_singleton] at a; subst a; exact Or.inr (hw hst)

/-- `must_cancel` read through `getD default`: set only if the request exists (and then it was filed as cancelled) -/
theorem fk_mc_ec {p : Pool} (h : FK M p) (m : Nat) (hmc : (p.reqs[m]?.getD default).mustCancel = true) :
    ∃ r, p.reqs[m]? = some r ∧ r.everCancelled = true := by
  cases hp : p.reqs[m]? with
  | none => rw [hp] at hmc; cases hmc
  | some r =>
    rw [hp] at hmc
    exact ⟨r, rfl, (h.rg m r hp).cg hmc⟩

/-- the spawner suspends in `_enough_room.acquire()`; a map-style spawner does so with one pulled element in hand -/
theorem fk_waitRoom_core {p : Pool} (h : FK M p) (m : Nat) (st : WaitSt)
    (hst : st = .cancelled → (p.reqs[m]?.getD default).mustCancel = true)
    (hk : ∀ r, p.reqs[m]? = some r → r.kind = .map → r.outcome = none → r.pulled = r.created + r.skipped + 1) :
    FK0 (({ p with sem := { p.sem with waiters := p.sem.waiters ++ [{ owner := m, st := st }] } } : Pool).modReq m
        fun x => { x with frame := .waitRoom, mustCancel := false }) := by
  refine fk_modReq (fk_pushWaiter h.zero _ (fun e => fk_mc_ec h m (hst e))) m _ (fun r hp hg => ?_)
  exact ⟨⟨fun e => (nomatch e), hg.cm, hg.ir, hg.ok, hg.ka, hg.km, fun e => (nomatch e), hg.kn, fun _ _ e => (nomatch e),
    fun a b _ => hk r hp a b⟩, id, fun ⟨_, x⟩ => x.elim⟩

theorem fk_waitRoom {p : Pool} (h : FK M p) (m : Nat)
    (hk : ∀ r, p.reqs[m]? = some r → r.kind = .map → r.outcome = none → r.pulled = r.created + r.skipped + 1) :
    FK0 (p.waitRoom m) := by
  unfold waitRoom
  simp only
  split
  · rename_i c
    exact fk_schedMeta (fk_waitRoom_core h m _ (fun _ => c) hk) m
  · exact fk_waitRoom_core h m _ (fun e => (nomatch e)) hk

/-- the spawner suspends in `acquire()` of the call's own semaphore, with one pulled element in hand -/
theorem fk_waitMapSem_core {p : Pool} (h : FK M p) (m : Nat)
    (hk : ∀ r, p.reqs[m]? = some r → r.kind = .map ∧ (r.outcome = none → r.pulled = r.created + r.skipped + 1))
    (st : WaitSt) (hst : st = .cancelled → (p.reqs[m]?.getD default).mustCancel = true) :
    FK0 (p.modReq m fun x => { x with frame := .waitMapSem, mustCancel := false, acquired := false, mapSem := { x.mapSem with waiters := x.mapSem.waiters ++ [{ owner := m, st := st }] } }) := by
  refine fk_modReq h.zero m _ (fun r hp hg => ?_)
  refine ⟨⟨fun e => (nomatch e), fun w hw hc => ?_, hg.ir, hg.ok, hg.ka, hg.km, fun _ => (hk r hp).1, hg.kn,
    fun _ _ e => (nomatch e), fun _ b _ => (hk r hp).2 b⟩, id, fun ⟨_, x⟩ => x.elim⟩
  rcases List.mem_append.mp hw with a | a
  · exact hg.cm w a hc
  · rw [List.mem_singleton] at a; subst a
    have := hst hc
    rw [hp] at this
    exact hg.cg this

theorem fk_waitMapSem {p : Pool} (h : FK M p) (m : Nat)
    (hk : ∀ r, p.reqs[m]? = some r → r.kind = .map ∧ (r.outcome = none → r.pulled = r.created + r.skipped + 1)) :
    FK0 (p.waitMapSem m) := by
  unfold waitMapSem
  simp only
  split
  · rename_i c
    exact fk_schedMeta (fk_waitMapSem_core h m hk _ (fun _ => c)) m
  · exact fk_waitMapSem_core h m hk _ (fun e => (nomatch e))

theorem createTask_get {p : Pool} {m : Nat} {r : Req} (isMap : Bool) (hp : p.reqs[m]? = some r) :
    (p.createTask m isMap).reqs[m]? = some { r with created := r.created + 1 } := by
  have := modify_get (l := p.reqs) (m := m) (f := fun x => { x with created := x.created + 1 }) hp
  rw [if_pos rfl] at this
  exact this

/-- a task is created for spawner `m`; a map-style spawner is inside its loop then -/
theorem fk_createTask {p : Pool} (h : FK M p) (m : Nat) (isMap : Bool)
    (hc : ∀ r, p.reqs[m]? = some r → r.kind = .map → r.frame = .running ∧ r.outcome = none) :
    FK0 (p.createTask m isMap) := by
  unfold createTask
  simp only
  refine fk_emitRef ?_ _
  refine fk_modReq (fk_of_eq h.zero (by rfl) (by rfl) (by rfl) (by rfl)) m _ (fun r hp hg => ?_)
  refine ⟨⟨hg.cg, hg.cm, hg.ir, fun a o b => ?_, hg.ka, hg.km, hg.kw, hg.kn, fun a _ c => ?_, fun a _ c => ?_⟩, id,
    fun ⟨_, x⟩ => x.elim⟩
  · rcases hg.ok a o b with ⟨e1, e2, e3, _⟩ | e
    · refine Or.inl ⟨e1, e2, e3, fun hk => ?_⟩
      have := (hc r hp hk).2
      rw [show r.outcome = some o from b] at this; cases this
    · exact Or.inr e
  · have hfr := (hc r hp a).1
    have c' : r.frame = .notStarted := c
    rw [hfr] at c'; cases c'
  · have hfr := (hc r hp a).1
    have c' : r.frame = .waitRoom ∨ r.frame = .waitMapSem := c
    rw [hfr] at c'; rcases c' with c' | c' <;> cases c'

theorem fk_createTask_pin {p : Pool} {m : Nat} {Q Q' : PK → Prop} (h : FK (PM m Q) p) (isMap : Bool)
    (hc : ∀ r, p.reqs[m]? = some r → Q r.pk →
      (r.kind = .map → r.frame = .running ∧ r.outcome = none) ∧ Q' ({ r with created := r.created + 1 } : Req).pk) :
    FK (PM m Q') (p.createTask m isMap) := by
  obtain ⟨r, hp, hQ⟩ := h.pinned
  refine fk_pin (fk_createTask h m isMap (fun r0 hp0 => ?_)) ⟨_, createTask_get isMap hp, (hc r hp hQ).2⟩
  rw [hp] at hp0; cases hp0; exact (hc r hp hQ).1

theorem fk_takeSlotAndCreate {p : Pool} {m : Nat} {Q Q' : PK → Prop} (h : FK (PM m Q) p) (isMap : Bool)
    (hc : ∀ r, p.reqs[m]? = some r → Q r.pk →
      (r.kind = .map → r.frame = .running ∧ r.outcome = none) ∧ Q' ({ r with created := r.created + 1 } : Req).pk) :
    FK (PM m Q') (p.takeSlotAndCreate m isMap) := by
  unfold takeSlotAndCreate
  exact fk_createTask_pin (fk_of_eq h (by rfl) (by rfl) (by rfl) (by rfl)) isMap hc

/-- a spawner that is filed as running makes `_start_task` ignore the lock -/
theorem groupHasRunningMeta_of {p : Pool} {m : Nat} {r : Req} (hp : p.reqs[m]? = some r) (hin : r.inRunning = true) :
    p.groupHasRunningMeta m = true := by
  unfold groupHasRunningMeta
  simp only [hp, Option.getD_some, List.any_eq_true]
  exact ⟨r, List.mem_of_getElem? hp, by simp [hin]⟩

theorem fk_applyLoop (m n : Nat) (p : Pool) (h : FK (PM m QA) p) : FK0 (applyLoop m n p) := by
  induction n generalizing p with
  | zero =>
    unfold applyLoop
    obtain ⟨r, hp, hk, ho⟩ := h.pinned
    have hk : r.kind = .apply := hk
    have ho : r.outcome = none := ho
    refine fk_finishMeta (fk_modReq h m _ (fun r0 hp0 hg => ?_)) m .ok (fun r' hp' _ => ?_)
    · rw [hp] at hp0; cases hp0
      exact ⟨⟨hg.cg, hg.cm, hg.ir, fun _ o e => (by rw [show r.outcome = some o from e] at ho; cases ho), hg.ka,
        fun _ => rfl, hg.kw, hg.kn, hg.pc0, hg.pc1⟩, id, fun _ => rfl⟩
    · rw [modReq_get_self p m _ r hp] at hp'; cases hp'
      exact Or.inl ⟨rfl, rfl, (h.rg m r hp).ka hk, fun e => (by rw [show r.kind = .map from e] at hk; cases hk)⟩
  | succ n ih =>
    unfold applyLoop
    simp only
    obtain ⟨r, hp, hk, ho⟩ := h.pinned
    have hk : r.kind = .apply := hk
    have ho : r.outcome = none := ho
    have h0 : FK (PM m QA) (p.modReq m fun x => { x with remaining := n + 1 }) := by
      refine fk_modReq h m _ (fun r0 hp0 hg => ?_)
      rw [hp] at hp0; cases hp0
      exact ⟨⟨hg.cg, hg.cm, hg.ir, fun _ o e => (by rw [show r.outcome = some o from e] at ho; cases ho), hg.ka,
        fun e => (by rw [show r.kind = .map from e] at hk; cases hk), hg.kw, hg.kn, hg.pc0, hg.pc1⟩, id, fun _ => rfl⟩
    have hp0 : (p.modReq m fun x => { x with remaining := n + 1 }).reqs[m]? = some { r with remaining := n + 1 } :=
      modReq_get_self p m _ r hp
    split
    · refine ih _ (fk_own h0 _ (fun r1 hp1 hQ hg => ?_))
      obtain ⟨hk1, ho1⟩ := hQ
      have hk1 : r1.kind = .apply := hk1
      have ho1 : r1.outcome = none := ho1
      exact ⟨⟨hg.cg, hg.cm, hg.ir, fun _ o e => (by rw [show r1.outcome = some o from e] at ho1; cases ho1), hg.ka, hg.km,
        hg.kw, hg.kn, fun e => (by rw [show r1.kind = .map from e] at hk1; cases hk1),
        fun e => (by rw [show r1.kind = .map from e] at hk1; cases hk1)⟩, id, hk1, ho1⟩
    · split
      · rename_i c
        have := h0.ncl
        rw [this] at c; cases c
      · split
        · rename_i c
          refine fk_finishMeta h0 m _ (fun r' hp' hec => ?_)
          rw [hp0] at hp'; cases hp'
          exfalso
          have hin := (h0.rg m _ hp0).ir ho hec
          have := groupHasRunningMeta_of hp0 hin
          simp [this] at c
        · split
          · refine fk_waitRoom h0 m (fun r' hp' hk' _ => ?_)
            rw [hp0] at hp'; cases hp'
            rw [show r.kind = .map from hk'] at hk; cases hk
          · refine ih _ (fk_takeSlotAndCreate h0 false (fun r1 hp1 hQ => ⟨fun e => ?_, hQ⟩))
            have hk1 : r1.kind = .apply := hQ.1
            rw [e] at hk1; cases hk1

/-- `_start_task` for the element in hand: either the task is created (and the spawner is at its loop head again), or the
step is over -/
theorem fk_mapStartTask {p : Pool} {m : Nat} (h : FK (PM m QI) p) :
    ((p.mapStartTask m).2 = true → FK (PM m QH) (p.mapStartTask m).1) ∧
    ((p.mapStartTask m).2 = false → FK0 (p.mapStartTask m).1) := by
  obtain ⟨r, hp, hk, ho, hc, hfr⟩ := h.pinned
  unfold mapStartTask
  split
  · rename_i c
    have := h.ncl
    rw [this] at c; cases c
  · split
    · refine ⟨fun e => (by cases e), fun _ => fk_waitRoom h m (fun r' hp' _ _ => ?_)⟩
      rw [hp] at hp'; cases hp'; exact hc
    · refine ⟨fun _ => fk_takeSlotAndCreate h true (fun r' hp' hQ => ?_), fun e => (by cases e)⟩
      obtain ⟨a, b, c, d⟩ := hQ
      refine ⟨fun _ => ⟨d, b⟩, a, b, ?_⟩
      have c : r'.pulled = r'.created + r'.skipped + 1 := c
      show r'.pulled = r'.created + 1 + r'.skipped
      omega

/-- one pull from the argument iterator: user code runs, the spawner stays what it is, with the element in hand -/
theorem fk_pullItem {p : Pool} {m : Nat} (h : FK (PM m QH) p) (rest : List Item) : FK (PM m QI) (p.pullItem m rest) := by
  unfold pullItem
  simp only
  refine fk_runHooks (fk_logEv (fk_own h _ (fun r hp hQ hg => ?_)) _) _ _
  obtain ⟨hk, ho, hc⟩ := hQ
  have hk : r.kind = .map := hk
  have ho : r.outcome = none := ho
  have hc : r.pulled = r.created + r.skipped := hc
  refine ⟨⟨hg.cg, hg.cm, hg.ir, fun _ o e => (by rw [show r.outcome = some o from e] at ho; cases ho),
    fun e => (by rw [show r.kind = .apply from e] at hk; cases hk), hg.km, fun e => (nomatch e), hg.kn,
    fun _ _ e => (nomatch e), fun _ _ e => (by rcases e with e | e <;> cases e)⟩, id, hk, ho, ?_, rfl⟩
  show r.pulled + 1 = r.created + r.skipped + 1
  omega

theorem fk_takeMapSlot {p : Pool} {m : Nat} (h : FK (PM m QI) p) : FK (PM m QI) (p.takeMapSlot m) := by
  unfold takeMapSlot
  refine fk_own h _ (fun r hp hQ hg => ?_)
  exact ⟨rg_of_eq hg id rfl (fun _ a _ => a) rfl rfl rfl rfl rfl (Or.inr (Or.inl rfl)) rfl rfl rfl rfl, id,
    hQ.1, hQ.2.1, hQ.2.2.1, rfl⟩

/-- `_arg_consumer`'s loop from a loop head (`pulled = created + skipped`) until it suspends or ends -/
theorem fk_mapLoop (m : Nat) (items : List Item) (p : Pool) (h : FK (PM m QH) p) : FK0 (mapLoop m items p) := by
  induction items generalizing p with
  | nil =>
    unfold mapLoop
    obtain ⟨r, hp, hk, ho, hc⟩ := h.pinned
    have ho : r.outcome = none := ho
    refine fk_finishMeta (fk_modReq h m _ (fun r0 hp0 hg => ?_)) m .ok (fun r' hp' _ => ?_)
    · rw [hp] at hp0; cases hp0
      exact ⟨⟨hg.cg, hg.cm, hg.ir, fun _ o e => (by rw [show r.outcome = some o from e] at ho; cases ho), fun _ => rfl,
        hg.km, hg.kw, hg.kn, hg.pc0, hg.pc1⟩, id, fun _ => rfl⟩
    · rw [modReq_get_self p m _ r hp] at hp'; cases hp'
      exact Or.inl ⟨rfl, (h.rg m r hp).km hk, rfl, fun _ => hc⟩
  | cons it rest ih =>
    unfold mapLoop
    simp only
    have h0 := fk_pullItem h rest
    split
    · refine fk_finishMeta h0 m _ (fun r' hp' _ => ?_)
      obtain ⟨r, hp, hk, _⟩ := h0.pinned
      rw [hp] at hp'; cases hp'
      exact Or.inr ⟨hk, rfl⟩
    · split
      · refine ih _ (fk_own h0 _ (fun r hp hQ hg => ?_))
        obtain ⟨hk, ho, hc, hfr⟩ := hQ
        have ho : r.outcome = none := ho
        have hc : r.pulled = r.created + r.skipped + 1 := hc
        have hfr : r.frame = .running := hfr
        refine ⟨⟨hg.cg, hg.cm, hg.ir, fun _ o e => (by rw [show r.outcome = some o from e] at ho; cases ho), hg.ka, hg.km,
          hg.kw, hg.kn, fun _ _ e => (by rw [show r.frame = .notStarted from e] at hfr; cases hfr),
          fun _ _ e => (by
            have e : r.frame = .waitRoom ∨ r.frame = .waitMapSem := e
            rw [hfr] at e; rcases e with e | e <;> cases e)⟩, id, hk, ho, ?_⟩
        show r.pulled = r.created + (r.skipped + 1)
        omega
      · split
        · refine fk_waitMapSem h0 m (fun r hp => ?_)
          obtain ⟨r1, hp1, hk, _, hc, _⟩ := h0.pinned
          rw [hp] at hp1; cases hp1; exact ⟨hk, fun _ => hc⟩
        · have h1 := fk_mapStartTask (fk_takeMapSlot h0)
          split
          · rename_i c; exact ih _ (h1.1 c)
          · rename_i c; exact h1.2 (by simpa using c)

theorem fk_continueSpawner {p : Pool} (h : FK M p) (m : Nat)
    (hl : ∃ r, p.reqs[m]? = some r ∧ r.outcome = none ∧ (r.kind = .map → r.pulled = r.created + r.skipped)) :
    FK0 (p.continueSpawner m) := by
  unfold continueSpawner
  simp only
  obtain ⟨r, hp, ho, hc⟩ := hl
  simp only [hp, Option.getD_some]
  split
  · rename_i hk; exact fk_applyLoop m _ p (fk_pin h ⟨r, hp, hk, ho⟩)
  · rename_i hk; exact fk_mapLoop m _ p (fk_pin h ⟨r, hp, hk, ho, hc hk⟩)

theorem fk_stepMetaNotStarted {p : Pool} (h : FK M p) (m : Nat) (r : Req)
    (hp : p.reqs[m]? = some { r with sched := false }) (ho : r.outcome = none) (hfr : r.frame = .notStarted) :
    FK0 (p.stepMetaNotStarted m r) := by
  unfold stepMetaNotStarted
  split
  · rename_i c
    refine fk_finishMeta h m _ (fun r' hp' hec => ?_)
    rw [hp] at hp'; cases hp'
    have := (h.rg m _ hp).cg c
    rw [hec] at this; cases this
  · split
    · rename_i hk; exact fk_applyLoop m _ p (fk_pin h ⟨_, hp, hk, ho⟩)
    · rename_i hk; exact fk_mapLoop m _ p (fk_pin h ⟨_, hp, hk, ho, (h.rg m _ hp).pc0 hk ho hfr⟩)

/-- `CancelledError` inside `_enough_room.acquire()`: the spawner was filed as cancelled -/
theorem fk_roomWaitCancelled {p : Pool} (h : FK M p) (m : Nat) (r : Req) (st : Option WaitSt) (he : At p m PE) :
    FK0 (p.roomWaitCancelled m r st) := by
  unfold roomWaitCancelled
  simp only
  have h1 : FK M (if (st == some WaitSt.granted) = true then p.releasePool else p) ∧
      At (if (st == some WaitSt.granted) = true then p.releasePool else p) m PE := by
    split
    · exact ⟨fk_releasePool h, he.releasePool⟩
    · exact ⟨h, he⟩
  generalize (if (st == some WaitSt.granted) = true then p.releasePool else p) = q at h1 ⊢
  have h2 : FK M (if (r.kind == ReqKind.map && r.acquired) = true then q.releaseMap m else q) ∧
      At (if (r.kind == ReqKind.map && r.acquired) = true then q.releaseMap m else q) m PE := by
    split
    · exact ⟨fk_releaseMap h1.1 m, h1.2.releaseMap m⟩
    · exact h1
  generalize (if (r.kind == ReqKind.map && r.acquired) = true then q.releaseMap m else q) = q2 at h2 ⊢
  refine fk_finishMeta h2.1 m _ (fun r' hp' hec => ?_)
  have := h2.2.get hp'
  rw [show r'.everCancelled = true from this] at hec; cases hec

/-- the task for the slot just granted is created, then the spawner goes on with its loop -/
theorem fk_roomGranted_tail {q : Pool} {m : Nat} (h1 : FK (PM m QG) q) (isMap : Bool) :
    FK0 ((q.createTask m isMap).continueSpawner m) := by
  obtain ⟨r, hp, ho, hfr, hc⟩ := h1.pinned
  refine fk_continueSpawner (fk_createTask h1 m isMap (fun r' hp' _ => ?_)) m
    ⟨_, createTask_get isMap hp, ho, fun hk => ?_⟩
  · rw [hp] at hp'; cases hp'; exact ⟨hfr, ho⟩
  · have := hc hk
    have this : r.pulled = r.created + r.skipped + 1 := this
    show r.pulled = r.created + 1 + r.skipped
    omega

theorem fk_roomGranted {p : Pool} (h : FK M p) (m : Nat) (r : Req)
    (hl : ∃ r0, p.reqs[m]? = some r0 ∧ r0.outcome = none ∧ (r0.kind = .map → r0.pulled = r0.created + r0.skipped + 1)) :
    FK0 (p.roomGranted m r) := by
  unfold roomGranted
  simp only
  obtain ⟨r0, hp0, ho, hc⟩ := hl
  have h0 : FK (PM m QG) (p.modReq m fun x => { x with frame := MFrame.running }) := by
    refine fk_pin (fk_modReq h.zero m _ (fun r1 hp1 hg => ?_)) ⟨_, modReq_get_self p m _ r0 hp0, ho, rfl, hc⟩
    exact ⟨rg_of_eq hg id rfl (fun _ a _ => a) rfl rfl rfl rfl rfl (Or.inr (Or.inl rfl)) rfl rfl rfl rfl, id,
      fun ⟨_, x⟩ => x.elim⟩
  refine fk_roomGranted_tail ?_ _
  split
  · exact fk_wake h0 _ rfl
  · exact h0

theorem fk_wakeWaitRoomCore {p : Pool} (h : FK M p) (m : Nat) (r : Req)
    (hp : p.reqs[m]? = some { r with sched := false }) (ho : r.outcome = none) (hfr : r.frame = .waitRoom) :
    FK0 (p.wakeWaitRoomCore m r) := by
  unfold wakeWaitRoomCore
  simp only
  have h2 : FK M (({ p with sem := { p.sem with waiters := (removeWaiterL m p.sem.waiters).2 } } : Pool).modReq m
      fun x => { x with mustCancel := false }) :=
    fk_mr (fk_sem h _ (fun w' hw' _ => (removeWaiterL_sublist _ _).subset hw'))
  have hp2 : (({ p with sem := { p.sem with waiters := (removeWaiterL m p.sem.waiters).2 } } : Pool).modReq m
      fun x => { x with mustCancel := false }).reqs[m]? = some { { r with sched := false } with mustCancel := false } :=
    modReq_get_self _ m _ _ hp
  split
  · rename_i c
    refine fk_roomWaitCancelled h2 m r _ ⟨_, hp2, ?_⟩
    show r.everCancelled = true
    simp only [Bool.or_eq_true, beq_iff_eq] at c
    rcases c with c | c
    · obtain ⟨w, hw, hwo, hst⟩ := removeWaiterL_fst_some _ _ _ c
      obtain ⟨r0, hp0, he⟩ := h.cw w hw hst
      rw [hwo, hp] at hp0; cases hp0
      exact he
    · exact (h.rg m _ hp).cg c
  · split
    · exact fk_roomGranted h2 m r ⟨_, hp2, ho, fun hk => (h2.rg m _ hp2).pc1 hk ho (Or.inl hfr)⟩
    · exact h2.zero

theorem fk_wakeWaitRoom {p : Pool} (h : FK M p) (m : Nat) (r : Req)
    (hp : p.reqs[m]? = some { r with sched := false }) (ho : r.outcome = none) (hfr : r.frame = .waitRoom) :
    FK0 (p.wakeWaitRoom m r) := by
  unfold wakeWaitRoom
  split
  · exact fk_wakeWaitRoomCore h m r hp ho hfr
  · exact h.zero

theorem fk_mapSemGranted {p : Pool} {m : Nat} (h : FK (PM m QW) p) (r : Req) : FK0 (p.mapSemGranted m r) := by
  unfold mapSemGranted
  simp only
  have h0 : FK (PM m QI) (p.modReq m fun x => { x with acquired := true, frame := MFrame.running }) :=
    fk_own h _ (fun r1 hp1 hQ hg =>
      ⟨rg_of_eq hg id rfl (fun _ a _ => a) rfl rfl rfl rfl rfl (Or.inr (Or.inl rfl)) rfl rfl rfl rfl, id,
        hQ.1, hQ.2.1, hQ.2.2, rfl⟩)
  have h1 := fk_mapStartTask h0
  split
  · rename_i c; exact fk_mapLoop m _ _ (h1.1 c)
  · rename_i c; exact h1.2 (by simpa using c)

/-- whatever `acquire()` does to the call's own semaphore on its way out produces no cancelled entry -/
theorem fk_s2 (s1 : Sem) (b c : Bool) :
    ∀ w ∈ (if b = true then (if c = true then s1.release else if (!s1.value.isZero) = true then s1.wakeNext else (s1, none))
      else (s1, none)).1.waiters, w.st = .cancelled → w ∈ s1.waiters := by
  intro w hw hst
  cases b <;> cases c <;> cases hz : s1.value.isZero <;>
    simp only [hz, Bool.false_eq_true, if_false, if_true, Bool.not_false, Bool.not_true, Sem.release] at hw
  all_goals first
    | exact hw
    | (rw [wakeNext_waiters] at hw; exact wakeNextL_cancelled _ _ _ hw hst)

theorem fk_wakeWaitMapSemCore {p : Pool} (h : FK M p) (m : Nat) (r : Req)
    (hp : p.reqs[m]? = some { r with sched := false }) (ho : r.outcome = none) (hfr : r.frame = .waitMapSem) :
    FK0 (p.wakeWaitMapSemCore m r) := by
  unfold wakeWaitMapSemCore
  simp only
  have hs2 := fk_s2 { r.mapSem with waiters := (removeWaiterL m r.mapSem.waiters).2 }
    ((removeWaiterL m r.mapSem.waiters).1 == some WaitSt.granted)
    ((removeWaiterL m r.mapSem.waiters).1 == some WaitSt.cancelled || r.mustCancel)
  generalize (if ((removeWaiterL m r.mapSem.waiters).1 == some WaitSt.granted) = true then _ else _ : Sem × Option Nat) = s2 at hs2 ⊢
  have hg := h.rg m _ hp
  have hk : r.kind = .map := hg.kw hfr
  have hpin : FK (PM m QW) p := fk_pin h ⟨_, hp, hk, ho, hg.pc1 hk ho (Or.inr hfr)⟩
  have h2 : FK (PM m QW) ((p.modReq m fun x => { x with mapSem := s2.1, mustCancel := false }).schedOpt s2.2) := by
    refine fk_schedOpt (fk_modReq hpin m _ (fun r0 hp0 hg0 => ?_)) _
    rw [hp] at hp0; cases hp0
    refine ⟨rg_of_eq hg0 (fun e => (nomatch e)) rfl (fun w hw hst => ?_) rfl rfl rfl rfl rfl (Or.inl rfl) rfl rfl rfl rfl,
      id, fun _ => rfl⟩
    exact (removeWaiterL_sublist _ _).subset (hs2 w hw hst)
  have a2 : r.everCancelled = true →
      At ((p.modReq m fun x => { x with mapSem := s2.1, mustCancel := false }).schedOpt s2.2) m PE := by
    intro hP
    exact (At.modReq (P := PE) ⟨_, hp, hP⟩ m _).schedOpt _
  split
  · rename_i c
    refine fk_finishMeta h2 m _ (fun r' hp' hec => ?_)
    have hE : r.everCancelled = true := by
      simp only [Bool.or_eq_true, beq_iff_eq] at c
      rcases c with c | c
      · obtain ⟨w, hw, _, hst⟩ := removeWaiterL_fst_some _ _ _ c
        exact hg.cm w hw hst
      · exact hg.cg c
    have := (a2 hE).get hp'
    rw [show r'.everCancelled = true from this] at hec; cases hec
  · split
    · exact fk_mapSemGranted h2 r
    · exact h2.zero

theorem fk_wakeWaitMapSem {p : Pool} (h : FK M p) (m : Nat) (r : Req)
    (hp : p.reqs[m]? = some { r with sched := false }) (ho : r.outcome = none) (hfr : r.frame = .waitMapSem) :
    FK0 (p.wakeWaitMapSem m r) := by
  unfold wakeWaitMapSem
  split
  · exact fk_wakeWaitMapSemCore h m r hp ho hfr
  · exact h.zero

/-- a spawner takes a step; `Want.od`: a spawner whose asyncio Task is done is never resumed -/
theorem fk_stepMeta {p : Pool} (h : FK0 p) (hW : Want p) (m : Nat) : FK0 (p.stepMeta m) := by
  unfold stepMeta
  split
  · exact h
  · rename_i r hp
    split
    · exact h
    · simp only
      have h1 : FK0 (p.modReq m fun x => { x with sched := false }) := fk_mr h
      have hp1 : (p.modReq m fun x => { x with sched := false }).reqs[m]? = some { r with sched := false } :=
        modReq_get_self p m _ r hp
      have ho : r.frame ≠ .done → r.outcome = none := by
        intro hne
        cases hout : r.outcome with
        | none => rfl
        | some o => exact absurd (hW.od m r hp id (by simp [hout])) hne
      split
      · exact h1
      · exact h1
      · rename_i hfr; exact fk_stepMetaNotStarted h1 m r hp1 (ho (by rw [hfr]; simp)) hfr
      · rename_i hfr; exact fk_wakeWaitRoom h1 m r hp1 (ho (by rw [hfr]; simp)) hfr
      · rename_i hfr; exact fk_wakeWaitMapSem h1 m r hp1 (ho (by rw [hfr]; simp)) hfr

/-! ### assembly -/

theorem fk_runRef {p : Pool} (h : FK0 p) (hW : Want p) (r : Ref) : FK0 (p.runRef r) := by
  cases r with
  | task t => exact fk_stepTask h t
  | spawner m => exact fk_stepMeta h hW m
  | api a => exact fk_stepApi h a
  | gchild g i => exact fk_gatherChildDone h g i true

theorem fk_init (size : Cap) (simple : Option SpawnSpec) : FK0 (Pool.init size simple) := by
  refine { nog := ?_, ncl := rfl, rg := ?_, cw := ?_, pin := fun _ _ f => f.elim }
  all_goals simp [Pool.init]

/-- between two steps the walking predicate is `FinOK`; that a cancelled waiter entry belongs to an existing request is
part of `Want` -/
theorem fk_of_wantFin {p : Pool} (hW : Want p) (hF : FinOK p) : FK0 p where
  nog := hF.nog
  ncl := hF.ncl
  rg := fun m r hp => ⟨hF.cg m r hp, hF.cm m r hp, hF.ir m r hp, hF.ok m r hp, hF.ka m r hp, hF.km m r hp, hF.kw m r hp,
    hF.nc1 m r hp, hF.pc0 m r hp, hF.pc1 m r hp⟩
  cw := fun w hw hst => by
    obtain ⟨r, hp, _⟩ := hW.pw w hw
    exact ⟨r, hp, hF.cw w hw hst r hp⟩
  pin := fun _ _ f => f.elim

theorem wantFin_init (size : Cap) (simple : Option SpawnSpec) : WantFin (Pool.init size simple) :=
  ⟨want_init size simple, (fk_init size simple).finOK⟩

theorem wantFin_applyOp (p : Pool) (orders : List (List Nat)) (o : Op) (ho : noGac o = true) (h : WantFin p) :
    WantFin (({ p with orders := orders } : Pool).applyOp o).1 :=
  ⟨want_applyOp p orders o h.1,
    (fk_applyOp (fk_of_eq (fk_of_wantFin h.1 h.2) (q := { p with orders := orders }) rfl rfl rfl rfl) o ho).finOK⟩

theorem wantFin_runRef (p : Pool) (orders : List (List Nat)) (r : Ref) (h : WantFin p) :
    WantFin (({ p with orders := orders } : Pool).runRef r) :=
  ⟨want_runRef p orders r h.1,
    (fk_runRef (fk_of_eq (fk_of_wantFin h.1 h.2) (q := { p with orders := orders }) rfl rfl rfl rfl)
      (wk_of_eq h.1.wk (q := { p with orders := orders }) rfl rfl rfl).toWantOK r).finOK⟩

theorem wantFin_drain (p : Pool) (h : WantFin p) : WantFin { p with emit := [] } :=
  ⟨want_drain p h.1, (fk_of_eq (fk_of_wantFin h.1 h.2) (q := { p with emit := [] }) rfl rfl rfl rfl).finOK⟩

/-- **a spawner that was never cancelled ends only when its work is done**, in every pool of every reachable world of a
history without `gather_and_close` -/
theorem finInvariant : PoolInvariant (fun _ p => WantFin p) noGac where
  init := fun c simple _ => wantFin_init c.size0 simple
  op := fun _ p orders o ho h => wantFin_applyOp p orders o ho h
  run := fun _ p orders r h => wantFin_runRef p orders r h
  drain := fun _ p h => wantFin_drain p h

end Pool
end Taskpool
