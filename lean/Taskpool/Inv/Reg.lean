import Taskpool.Inv.Tame
/-! Registry invariant `RegOK`: the few steps that really touch the registries. -/
namespace Taskpool
open Pool

theorem RegOK.of_eq {p q : Pool} (hr : RegOK p) (ht : q.tasks = p.tasks) (h1 : q.running = p.running)
    (h2 : q.cancelledR = p.cancelledR) (h3 : q.ended = p.ended) (h4 : q.lost = p.lost) : RegOK q := by
  refine ⟨by rw [h1, h2, h3]; exact hr.nd, ?_, ?_, ?_, ?_⟩
  · intro t h; rw [h1] at h; rw [ht]; exact hr.run t h
  · intro t h; rw [h2] at h; rw [ht]; exact hr.can t h
  · intro t h; rw [h3] at h; rw [ht]; exact hr.fin t h
  · intro hl t tk h hrel; rw [h4] at hl; rw [ht] at h; rw [h1, h2]; exact hr.cpl hl t tk h hrel

/-- every id filed in a registry is the id of an existing task -/
theorem RegOK.lt {p : Pool} (hr : RegOK p) (t : Nat) (h : t ∈ p.running ∨ t ∈ p.cancelledR ∨ t ∈ p.ended) :
    t < p.tasks.length := by
  rcases h with h | h | h
  · obtain ⟨tk, a, _⟩ := hr.run t h; exact (List.getElem?_eq_some_iff.mp a).1
  · obtain ⟨tk, a, _⟩ := hr.can t h; exact (List.getElem?_eq_some_iff.mp a).1
  · obtain ⟨tk, a, _⟩ := hr.fin t h; exact (List.getElem?_eq_some_iff.mp a).1

theorem getElem?_modify_ne {α} (l : List α) (t i : Nat) (f : α → α) (h : t ≠ i) : (l.modify t f)[i]? = l[i]? := by
  rw [List.getElem?_modify]; simp [h]

theorem getElem?_modify_eq {α} (l : List α) (t : Nat) (f : α → α) (x : α) (h : l[t]? = some x) :
    (l.modify t f)[t]? = some (f x) := by
  rw [List.getElem?_modify]; simp [h]

/-- (L1) an update of one task record that keeps `released`; if the task is filed as cancelled the new phase
must not be one of the phases before the worker finished -/
theorem RegOK.modTask {p : Pool} (hr : RegOK p) (t : Nat) (f : PTask → PTask)
    (hf : ∀ x, (f x).released = x.released)
    (hc : (∀ x, (f x).phase = x.phase) ∨ t ∉ p.cancelledR ∨
          (∀ x, (f x).phase ≠ .created ∧ (f x).phase ≠ .inWorker)) : RegOK (p.modTask t f) := by
  have key : ∀ (i : Nat) (tk : PTask), p.tasks[i]? = some tk →
      ∃ tk', (p.modTask t f).tasks[i]? = some tk' ∧ tk'.released = tk.released ∧ (i ≠ t → tk' = tk) ∧ (i = t → tk' = f tk) := by
    intro i tk h
    by_cases e : t = i
    · subst e
      exact ⟨f tk, getElem?_modify_eq _ _ _ _ h, hf tk, fun n => absurd rfl n, fun _ => rfl⟩
    · exact ⟨tk, by simp [Pool.modTask, getElem?_modify_ne _ _ _ _ e, h], rfl, fun _ => rfl, fun e' => absurd e'.symm e⟩
  refine ⟨hr.nd, ?_, ?_, ?_, ?_⟩
  · intro i hi
    obtain ⟨tk, a, b⟩ := hr.run i hi
    obtain ⟨tk', a', b', _⟩ := key i tk a
    exact ⟨tk', a', b'.trans b⟩
  · intro i hi
    obtain ⟨tk, a, b, c, d⟩ := hr.can i hi
    obtain ⟨tk', a', b', c', d'⟩ := key i tk a
    refine ⟨tk', a', b'.trans b, ?_, ?_⟩
    · by_cases e : i = t
      · rw [d' e]; subst e
        rcases hc with h | h | h
        · rw [h]; exact c
        · exact absurd hi h
        · exact (h tk).1
      · rw [c' e]; exact c
    · by_cases e : i = t
      · rw [d' e]; subst e
        rcases hc with h | h | h
        · rw [h]; exact d
        · exact absurd hi h
        · exact (h tk).2
      · rw [c' e]; exact d
  · intro i hi
    obtain ⟨tk, a, b⟩ := hr.fin i hi
    obtain ⟨tk', a', b', _⟩ := key i tk a
    exact ⟨tk', a', b'.trans b⟩
  · intro hl i tk' h hrel
    obtain ⟨x, hx, rfl⟩ := getElem?_modify_some p.tasks t i f tk' h
    refine hr.cpl hl i x hx ?_
    split at hrel
    · rw [hf] at hrel; exact hrel
    · exact hrel

/-- (L1') the same for an update whose effect is known only on the record that is there -/
theorem RegOK.modTaskAt {p : Pool} (hr : RegOK p) (t : Nat) (f : PTask → PTask) (x : PTask) (hx : p.tasks[t]? = some x)
    (hf : (f x).released = x.released)
    (hc : t ∈ p.cancelledR → (f x).phase ≠ .created ∧ (f x).phase ≠ .inWorker) : RegOK (p.modTask t f) := by
  have key : ∀ (i : Nat) (tk : PTask), p.tasks[i]? = some tk →
      ∃ tk', (p.modTask t f).tasks[i]? = some tk' ∧ tk'.released = tk.released ∧ (i ≠ t → tk' = tk) ∧ (i = t → tk' = f tk) := by
    intro i tk h
    by_cases e : t = i
    · subst e
      rw [hx] at h; cases h
      exact ⟨f x, getElem?_modify_eq _ _ _ _ hx, hf, fun n => absurd rfl n, fun _ => rfl⟩
    · exact ⟨tk, by simp [Pool.modTask, getElem?_modify_ne _ _ _ _ e, h], rfl, fun _ => rfl, fun e' => absurd e'.symm e⟩
  refine ⟨hr.nd, ?_, ?_, ?_, ?_⟩
  · intro i hi
    obtain ⟨tk, a, b⟩ := hr.run i hi
    obtain ⟨tk', a', b', _⟩ := key i tk a
    exact ⟨tk', a', b'.trans b⟩
  · intro i hi
    obtain ⟨tk, a, b, c, d⟩ := hr.can i hi
    obtain ⟨tk', a', b', c', d'⟩ := key i tk a
    by_cases e : i = t
    · subst e
      rw [hx] at a; cases a
      exact ⟨tk', a', b'.trans b, by rw [d' rfl]; exact (hc hi).1, by rw [d' rfl]; exact (hc hi).2⟩
    · exact ⟨tk', a', b'.trans b, by rw [c' e]; exact c, by rw [c' e]; exact d⟩
  · intro i hi
    obtain ⟨tk, a, b⟩ := hr.fin i hi
    obtain ⟨tk', a', b', _⟩ := key i tk a
    exact ⟨tk', a', b'.trans b⟩
  · intro hl i tk' h hrel
    obtain ⟨y, hy, rfl⟩ := getElem?_modify_some p.tasks t i f tk' h
    refine hr.cpl hl i y hy ?_
    split at hrel
    · rename_i e; subst e
      rw [hx] at hy; cases hy
      rw [hf] at hrel; exact hrel
    · exact hrel

theorem nodup3_move12 {A B C : List Nat} (t : Nat) (h : (A ++ B ++ C).Nodup) (ht : t ∈ A) :
    (A.erase t ++ (B ++ [t]) ++ C).Nodup := by
  rw [List.nodup_iff_count] at h ⊢
  intro a
  have ha := h a
  simp only [List.count_append] at ha ⊢
  by_cases e : a = t
  · subst e
    have hpos : 0 < List.count a A := List.count_pos_iff.mpr ht
    simp only [List.count_erase_self, List.count_singleton_self]
    omega
  · have : List.count a [t] = 0 := by simp [List.count_singleton, e]; exact fun h => e h.symm
    rw [List.count_erase_of_ne e, this]
    omega

theorem nodup3_move13 {A B C : List Nat} (t : Nat) (h : (A ++ B ++ C).Nodup) (ht : t ∈ A) :
    (A.erase t ++ B ++ (C ++ [t])).Nodup := by
  rw [List.nodup_iff_count] at h ⊢
  intro a
  have ha := h a
  simp only [List.count_append] at ha ⊢
  by_cases e : a = t
  · subst e
    have hpos : 0 < List.count a A := List.count_pos_iff.mpr ht
    simp only [List.count_erase_self, List.count_singleton_self]
    omega
  · have : List.count a [t] = 0 := by simp [List.count_singleton, e]; exact fun h => e h.symm
    rw [List.count_erase_of_ne e, this]
    omega

theorem nodup3_move23 {A B C : List Nat} (t : Nat) (h : (A ++ B ++ C).Nodup) (ht : t ∈ B) :
    (A ++ B.erase t ++ (C ++ [t])).Nodup := by
  rw [List.nodup_iff_count] at h ⊢
  intro a
  have ha := h a
  simp only [List.count_append] at ha ⊢
  by_cases e : a = t
  · subst e
    have hpos : 0 < List.count a B := List.count_pos_iff.mpr ht
    simp only [List.count_erase_self, List.count_singleton_self]
    omega
  · have : List.count a [t] = 0 := by simp [List.count_singleton, e]; exact fun h => e h.symm
    rw [List.count_erase_of_ne e, this]
    omega

theorem nodup3_add1 {A B C : List Nat} (t : Nat) (h : (A ++ B ++ C).Nodup) (h1 : t ∉ A) (h2 : t ∉ B) (h3 : t ∉ C) :
    (A ++ [t] ++ B ++ C).Nodup := by
  rw [List.nodup_iff_count] at h ⊢
  intro a
  have ha := h a
  simp only [List.count_append] at ha ⊢
  by_cases e : a = t
  · subst e
    simp only [List.count_singleton_self, List.count_eq_zero_of_not_mem h1, List.count_eq_zero_of_not_mem h2,
      List.count_eq_zero_of_not_mem h3]
    omega
  · have : List.count a [t] = 0 := by simp [List.count_singleton, e]; exact fun h => e h.symm
    rw [this]; omega

theorem nodup3_mem_disj {A B C : List Nat} (h : (A ++ B ++ C).Nodup) (t : Nat) :
    (t ∈ A → t ∉ B ∧ t ∉ C) ∧ (t ∈ B → t ∉ A ∧ t ∉ C) ∧ (t ∈ C → t ∉ A ∧ t ∉ B) := by
  rw [List.nodup_iff_count] at h
  have ha := h t
  simp only [List.count_append] at ha
  refine ⟨fun m => ?_, fun m => ?_, fun m => ?_⟩ <;>
  · have := List.count_pos_iff.mpr m
    constructor <;> intro m2 <;> have := List.count_pos_iff.mpr m2 <;> omega

/-- (L2) `_task_cancellation`: the id moves from the running to the cancelled registry -/
theorem RegOK.regCancel {p : Pool} (hr : RegOK p) (t : Nat) (ht : t ∈ p.running)
    (hph : ∀ tk : PTask, p.tasks[t]? = some tk → tk.phase ≠ .created ∧ tk.phase ≠ .inWorker) :
    RegOK ({ p with running := p.running.erase t, cancelledR := p.cancelledR ++ [t] } : Pool) := by
  have hnd := hr.nd
  have hd := nodup3_mem_disj hnd t
  have hndA : p.running.Nodup := (List.nodup_append.mp (List.nodup_append.mp hnd).1).1
  refine ⟨nodup3_move12 t hnd ht, ?_, ?_, ?_, ?_⟩
  · intro i hi
    exact hr.run i (List.mem_of_mem_erase hi)
  · intro i hi
    simp only [List.mem_append, List.mem_singleton] at hi
    rcases hi with h | rfl
    · exact hr.can i h
    · obtain ⟨tk, a, b⟩ := hr.run i ht
      exact ⟨tk, a, b, (hph tk a).1, (hph tk a).2⟩
  · exact hr.fin
  · intro hl i tk h hrel
    simp only [List.mem_append, List.mem_singleton]
    rcases hr.cpl hl i tk h hrel with h1 | h1
    · by_cases e : i = t
      · exact Or.inr (Or.inr e)
      · exact Or.inl ((hndA.mem_erase_iff).mpr ⟨e, h1⟩)
    · exact Or.inr (Or.inl h1)

/-- (L3) `_task_ending`: the id moves to the ended registry and the task is marked released, in one go -/
theorem RegOK.moveRelease {p p1 : Pool} (hr : RegOK p) (t : Nat) (hm : p.moveToEnded t = some p1)
    (q : Pool) (hq1 : q.running = p1.running) (hq2 : q.cancelledR = p1.cancelledR) (hq3 : q.ended = p1.ended)
    (hq4 : q.lost = p.lost) (hqt : q.tasks = p.tasks.modify t fun k => { k with released := true }) : RegOK q := by
  have hnd := hr.nd
  have hd := nodup3_mem_disj hnd t
  have hndA : p.running.Nodup := (List.nodup_append.mp (List.nodup_append.mp hnd).1).1
  have hndB : p.cancelledR.Nodup := (List.nodup_append.mp (List.nodup_append.mp hnd).1).2.1
  -- what a task record looks like in `q`
  have key : ∀ (i : Nat) (tk : PTask), p.tasks[i]? = some tk →
      ∃ tk', q.tasks[i]? = some tk' ∧ (i ≠ t → tk' = tk) ∧ (i = t → tk'.released = true) := by
    intro i tk h
    rw [hqt]
    by_cases e : t = i
    · subst e
      exact ⟨_, getElem?_modify_eq _ _ _ _ h, fun n => absurd rfl n, fun _ => rfl⟩
    · exact ⟨tk, by rw [getElem?_modify_ne _ _ _ _ e]; exact h, fun _ => rfl, fun e' => absurd e'.symm e⟩
  have keyInv : ∀ (i : Nat) (tk' : PTask), q.tasks[i]? = some tk' → tk'.released = false →
      i ≠ t ∧ p.tasks[i]? = some tk' := by
    intro i tk' h hrel
    rw [hqt] at h
    obtain ⟨x, hx, rfl⟩ := getElem?_modify_some p.tasks t i _ tk' h
    split at hrel
    · simp at hrel
    · rename_i ne; exact ⟨fun e => ne e.symm, by simp only [ne, if_false]; exact hx⟩
  unfold moveToEnded at hm
  split at hm
  · rename_i hc
    have htA : t ∈ p.running := by simpa using hc
    simp only [Option.some.injEq] at hm; subst hm
    simp only at hq1 hq2 hq3
    refine ⟨by rw [hq1, hq2, hq3]; exact nodup3_move13 t hnd htA, ?_, ?_, ?_, ?_⟩
    · intro i hi
      rw [hq1] at hi
      have hi' := (hndA.mem_erase_iff).mp hi
      obtain ⟨tk, a, b⟩ := hr.run i hi'.2
      obtain ⟨tk', a', c', _⟩ := key i tk a
      exact ⟨tk', a', by rw [c' hi'.1]; exact b⟩
    · intro i hi
      rw [hq2] at hi
      have hne : i ≠ t := fun e => (hd.1 htA).1 (e ▸ hi)
      obtain ⟨tk, a, b, c, d⟩ := hr.can i hi
      obtain ⟨tk', a', c', _⟩ := key i tk a
      exact ⟨tk', a', by rw [c' hne]; exact b, by rw [c' hne]; exact c, by rw [c' hne]; exact d⟩
    · intro i hi
      rw [hq3] at hi
      simp only [List.mem_append, List.mem_singleton] at hi
      rcases hi with h | rfl
      · have hne : i ≠ t := fun e => (hd.1 htA).2 (e ▸ h)
        obtain ⟨tk, a, b⟩ := hr.fin i h
        obtain ⟨tk', a', c', _⟩ := key i tk a
        exact ⟨tk', a', by rw [c' hne]; exact b⟩
      · obtain ⟨tk, a, _⟩ := hr.run i htA
        obtain ⟨tk', a', _, d'⟩ := key i tk a
        exact ⟨tk', a', d' rfl⟩
    · intro hl i tk' h hrel
      rw [hq4] at hl
      obtain ⟨hne, hp⟩ := keyInv i tk' h hrel
      rw [hq1, hq2]
      rcases hr.cpl hl i tk' hp hrel with h1 | h1
      · exact Or.inl ((hndA.mem_erase_iff).mpr ⟨hne, h1⟩)
      · exact Or.inr h1
  · split at hm
    · rename_i hnc hc
      have htB : t ∈ p.cancelledR := by simpa using hc
      simp only [Option.some.injEq] at hm; subst hm
      simp only at hq1 hq2 hq3
      refine ⟨by rw [hq1, hq2, hq3]; exact nodup3_move23 t hnd htB, ?_, ?_, ?_, ?_⟩
      · intro i hi
        rw [hq1] at hi
        have hne : i ≠ t := fun e => (hd.2.1 htB).1 (e ▸ hi)
        obtain ⟨tk, a, b⟩ := hr.run i hi
        obtain ⟨tk', a', c', _⟩ := key i tk a
        exact ⟨tk', a', by rw [c' hne]; exact b⟩
      · intro i hi
        rw [hq2] at hi
        have hi' := (hndB.mem_erase_iff).mp hi
        obtain ⟨tk, a, b, c, d⟩ := hr.can i hi'.2
        obtain ⟨tk', a', c', _⟩ := key i tk a
        exact ⟨tk', a', by rw [c' hi'.1]; exact b, by rw [c' hi'.1]; exact c, by rw [c' hi'.1]; exact d⟩
      · intro i hi
        rw [hq3] at hi
        simp only [List.mem_append, List.mem_singleton] at hi
        rcases hi with h | rfl
        · have hne : i ≠ t := fun e => (hd.2.1 htB).2 (e ▸ h)
          obtain ⟨tk, a, b⟩ := hr.fin i h
          obtain ⟨tk', a', c', _⟩ := key i tk a
          exact ⟨tk', a', by rw [c' hne]; exact b⟩
        · obtain ⟨tk, a, _⟩ := hr.can i htB
          obtain ⟨tk', a', _, d'⟩ := key i tk a
          exact ⟨tk', a', d' rfl⟩
      · intro hl i tk' h hrel
        rw [hq4] at hl
        obtain ⟨hne, hp⟩ := keyInv i tk' h hrel
        rw [hq1, hq2]
        rcases hr.cpl hl i tk' hp hrel with h1 | h1
        · exact Or.inl h1
        · exact Or.inr ((hndB.mem_erase_iff).mpr ⟨hne, h1⟩)
    · simp at hm

/-- (L4) `_start_task`: a fresh task is appended and filed as running -/
theorem RegOK.create {p : Pool} (hr : RegOK p) (nt : PTask) (hn : nt.released = false) (q : Pool)
    (hqt : q.tasks = p.tasks ++ [nt]) (hq1 : q.running = p.running ++ [p.tasks.length])
    (hq2 : q.cancelledR = p.cancelledR) (hq3 : q.ended = p.ended) (hq4 : q.lost = p.lost) : RegOK q := by
  have hfresh : ∀ i, (i ∈ p.running ∨ i ∈ p.cancelledR ∨ i ∈ p.ended) → i ≠ p.tasks.length :=
    fun i h => Nat.ne_of_lt (hr.lt i h)
  have old : ∀ (i : Nat) (tk : PTask), p.tasks[i]? = some tk → q.tasks[i]? = some tk := by
    intro i tk h
    rw [hqt, List.getElem?_append_left (List.getElem?_eq_some_iff.mp h).1]; exact h
  refine ⟨?_, ?_, ?_, ?_, ?_⟩
  · rw [hq1, hq2, hq3]
    exact nodup3_add1 _ hr.nd (fun h => hfresh _ (Or.inl h) rfl) (fun h => hfresh _ (Or.inr (Or.inl h)) rfl)
      (fun h => hfresh _ (Or.inr (Or.inr h)) rfl)
  · intro i hi
    rw [hq1] at hi
    simp only [List.mem_append, List.mem_singleton] at hi
    rcases hi with h | rfl
    · obtain ⟨tk, a, b⟩ := hr.run i h; exact ⟨tk, old i tk a, b⟩
    · exact ⟨nt, by rw [hqt]; simp, hn⟩
  · intro i hi
    rw [hq2] at hi
    obtain ⟨tk, a, b, c, d⟩ := hr.can i hi; exact ⟨tk, old i tk a, b, c, d⟩
  · intro i hi
    rw [hq3] at hi
    obtain ⟨tk, a, b⟩ := hr.fin i hi; exact ⟨tk, old i tk a, b⟩
  · intro hl i tk h hrel
    rw [hq4] at hl
    rw [hq1, hq2]
    rw [hqt, List.getElem?_append] at h
    split at h
    · rcases hr.cpl hl i tk h hrel with h1 | h1
      · exact Or.inl (by simp [h1])
      · exact Or.inr h1
    · rename_i hge
      have : i = p.tasks.length := by
        rcases Nat.lt_or_ge (i - p.tasks.length) 1 with hlt | hge1
        · omega
        · rw [List.getElem?_eq_none (by simpa using hge1)] at h; cases h
      exact Or.inl (by simp [this])

/-- (L7) once something was lost the completeness clause is void -/
theorem RegOK.setLost {p : Pool} (hr : RegOK p) : RegOK ({ p with lost := true } : Pool) :=
  ⟨hr.nd, hr.run, hr.can, hr.fin, fun hl => by simp at hl⟩

theorem heldB_iff (p : Pool) (t : Nat) : p.heldB t = true ↔ ∃ tk : PTask, p.tasks[t]? = some tk ∧ tk.released = false := by
  unfold heldB
  cases h : p.tasks[t]? with
  | none => simp
  | some tk => simp

/-- (L5) `flush`: only awaited ids are popped; popping an unreleased task from the cancelled registry counts as a loss -/
theorem RegOK.flushForget {p : Pool} (hr : RegOK p) (f g : Nat → Bool) (q : Pool) (hqt : q.tasks = p.tasks)
    (hq1 : q.running = p.running) (hq2 : q.cancelledR = p.cancelledR.filter g) (hq3 : q.ended = p.ended.filter f)
    (hq4 : q.lost = (p.lost || p.cancelledR.any (fun t => !g t && p.heldB t))) : RegOK q := by
  refine ⟨?_, ?_, ?_, ?_, ?_⟩
  · rw [hq1, hq2, hq3]
    have hsub : (p.running ++ p.cancelledR.filter g ++ p.ended.filter f).Sublist (p.running ++ p.cancelledR ++ p.ended) :=
      ((List.Sublist.refl _).append List.filter_sublist).append List.filter_sublist
    exact hsub.nodup hr.nd
  · intro i hi; rw [hq1] at hi; rw [hqt]; exact hr.run i hi
  · intro i hi; rw [hq2] at hi; rw [hqt]; exact hr.can i (List.mem_filter.mp hi).1
  · intro i hi; rw [hq3] at hi; rw [hqt]; exact hr.fin i (List.mem_filter.mp hi).1
  · intro hl i tk h hrel
    rw [hq4] at hl
    simp only [Bool.or_eq_false_iff] at hl
    rw [hqt] at h
    rw [hq1, hq2]
    rcases hr.cpl hl.1 i tk h hrel with h1 | h1
    · exact Or.inl h1
    · refine Or.inr (List.mem_filter.mpr ⟨h1, ?_⟩)
      have hany := hl.2
      rw [List.any_eq_false] at hany
      have := hany i h1
      have hh : p.heldB i = true := (heldB_iff p i).mpr ⟨tk, h, hrel⟩
      simpa [hh] using this

/-- (L6) `gather_and_close`: the registries are cleared; clearing an unreleased task counts as a loss -/
theorem RegOK.gacClear {p : Pool} (hr : RegOK p) (q : Pool) (hqt : q.tasks = p.tasks)
    (hq1 : q.running = []) (hq2 : q.cancelledR = []) (hq3 : q.ended = [])
    (hq4 : q.lost = (p.lost || (p.running ++ p.cancelledR).any p.heldB)) : RegOK q := by
  refine ⟨by rw [hq1, hq2, hq3]; simp, by rw [hq1]; simp, by rw [hq2]; simp, by rw [hq3]; simp, ?_⟩
  intro hl i tk h hrel
  rw [hq4] at hl
  simp only [Bool.or_eq_false_iff] at hl
  rw [hqt] at h
  have hany := hl.2
  rw [List.any_eq_false] at hany
  have hh : p.heldB i = true := (heldB_iff p i).mpr ⟨tk, h, hrel⟩
  rcases hr.cpl hl.1 i tk h hrel with h1 | h1
  · exact absurd hh (by simpa using hany i (by simp [h1]))
  · exact absurd hh (by simpa using hany i (by simp [h1]))

end Taskpool
