import Taskpool.Inv.Seal
/-! **A closed pool holds no tasks — for good** (pools that nobody unlocks).

The closing step of `gather_and_close()` clears the three registries.  That they *stay* empty is an invariant of sealed
pools: a closed pool rejects every request, no spawner is filed as running any more, hence (`SealOK.fr`) every live
spawner is doomed and creates no task; and ids enter the cancelled / ended registries only from the running one. -/
namespace Taskpool
namespace Pool

structure EmptiedOK (p : Pool) : Prop where
  nr : p.closed = true → ∀ (m : Nat) (r : Req), p.reqs[m]? = some r → r.inRunning = false
  em : p.closed = true → p.running = [] ∧ p.cancelledR = [] ∧ p.ended = []

def emptiedBit (p : Pool) : Bool :=
  !p.closed || ((p.reqs.all fun r => !r.inRunning) && p.running.isEmpty && p.cancelledR.isEmpty && p.ended.isEmpty)

end Pool
end Taskpool
