import Taskpool.Inv.SealWalk1
/-! **A pending `gather_and_close()` seals the pool — the walk, part 2.**

The walking predicate `SK M N p` is `Pool.SealOK` with

* `M = some m`: spawner `m` is the one whose handle is being run — it has no entry in the pool's waiter queue and none in
  its own (`own`; between two steps this follows from `Want`);
* `N = false`: that spawner is exempt from clause `fr` (it has just consumed its cancellation and is about to end);
  `N = true`: nobody is exempt, and no `gather_and_close()` is in its second gather (`n2`) — the only situation in which
  a task may be created.

`SK` is preserved by every `PStep` (`sk_step`); the spawner steps and the frame changes of `gather_and_close()` are walked
here. -/
namespace Taskpool
namespace Pool

/-- no `gather_and_close()` call is in its second gather -/
def NoG2 (p : Pool) : Prop :=
  ∀ (a : Nat) (A : Api) (g : Nat), p.apis[a]? = some A → A.kind.isGac = true → A.frame ≠ .gather2 g

structure SK (M : Option Nat) (N : Bool) (p : Pool) : Prop where
  fr : ∀ (m : Nat) (r : Req), p.reqs[m]? = some r → (M = some m → N = true) → r.outcome = none →
         r.inRunning = true ∨ DoomedAt p m r
  lk : ∀ (a : Nat) (A : Api), p.apis[a]? = some A → A.gacPending = true → p.locked = true
  g1 : ∀ (a : Nat) (A : Api) (g : Nat), p.apis[a]? = some A → A.kind.isGac = true → A.frame = .gather1 g →
         ∃ G : Gather, p.gathers[g]? = some G ∧ G.retExc = true ∧
           ∀ (m : Nat) (r : Req), p.reqs[m]? = some r → r.inRunning = true → Child.spawner m ∈ G.children
  g2 : ∀ (a : Nat) (A : Api) (g : Nat), p.apis[a]? = some A → A.kind.isGac = true → A.frame = .gather2 g →
         (∀ (m : Nat) (r : Req), p.reqs[m]? = some r → r.inRunning = false) ∧
         ∃ G : Gather, p.gathers[g]? = some G ∧ ∀ t ∈ p.running ++ p.cancelledR, Child.task t ∈ G.children
  nh : NH p
  own : ∀ m, M = some m → m ∉ owners p.sem.waiters ∧ ∃ r, p.reqs[m]? = some r ∧ r.mapSem.waiters = []
  n2 : N = true → NoG2 p

theorem sk_of_seal {p : Pool} (h : Seal p) : SK none false p where
  fr := fun m r hp _ ho => h.fr m r hp id ho
  lk := h.lk
  g1 := h.g1
  g2 := h.g2
  nh := h.nh
  own := fun _ e => nomatch e
  n2 := fun e => nomatch e

theorem SK.seal {N : Bool} {p : Pool} (h : SK none N p) : Seal p where
  fr := fun m r hp _ ho => h.fr m r hp (fun e => nomatch e) ho
  lk := h.lk
  g1 := h.g1
  g2 := h.g2
  nh := h.nh

/-- nobody is exempt (`N = true`): forget the spawner being run -/
theorem SK.drop {M : Option Nat} {p : Pool} (h : SK M true p) : SK none false p where
  fr := fun m r hp _ ho => h.fr m r hp (fun _ => rfl) ho
  lk := h.lk
  g1 := h.g1
  g2 := h.g2
  nh := h.nh
  own := fun _ e => nomatch e
  n2 := fun e => nomatch e

/-- the end of the step of an exempt spawner: it satisfies clause `fr` again -/
theorem SK.close {m : Nat} {N : Bool} {p : Pool} (h : SK (some m) N p)
    (hm : ∀ r, p.reqs[m]? = some r → r.outcome = none → r.inRunning = true ∨ DoomedAt p m r) : SK none false p where
  fr := fun i r hp _ ho => by
    by_cases e : i = m
    · subst e; exact hm r hp ho
    · exact h.fr i r hp (fun x => absurd (Option.some.inj x).symm e) ho
  lk := h.lk
  g1 := h.g1
  g2 := h.g2
  nh := h.nh
  own := fun _ e => nomatch e
  n2 := fun e => nomatch e

theorem gacPending_g1 {A : Api} {g : Nat} (hk : A.kind.isGac = true) (hf : A.frame = .gather1 g) : A.gacPending = true :=
  (gacPending_iff A).mpr ⟨hk, Or.inl ⟨g, hf⟩⟩

theorem gacPending_g2 {A : Api} {g : Nat} (hk : A.kind.isGac = true) (hf : A.frame = .gather2 g) : A.gacPending = true :=
  (gacPending_iff A).mpr ⟨hk, Or.inr ⟨g, hf⟩⟩

/-- **the walking predicate survives every step of the frame relation** -/
theorem sk_step {M : Option Nat} {N : Bool} {p q : Pool} (h : SK M N p) (s : PStep p q) : SK M N q where
  fr := fun i r' hq hc ho => by
    rcases s.rq i r' hq with ⟨r, hp, rs, _, b⟩ | ⟨_, _, _, f⟩
    · rcases h.fr i r hp hc (rs.lv ho).1 with x | x
      · exact b ho x
      · exact Or.inr (doomed_step x rs ho s.sw)
    · exact f ho
  lk := fun a A' hq hpd => by
    obtain ⟨A, hp, k, f⟩ := s.ap a A' hq hpd
    exact s.lk (h.lk a A hp (gacPending_of_frame k f hpd))
  g1 := fun a A' g hq hk hf => by
    have hpd := gacPending_g1 hk hf
    obtain ⟨A, hp, k, f⟩ := s.ap a A' hq hpd
    obtain ⟨G, hG, hre, hch⟩ := h.g1 a A g hp k (f.trans hf)
    obtain ⟨G', hG', e1, e2⟩ := s.ga g G hG
    refine ⟨G', hG', e2.trans hre, fun i r' hi hin => ?_⟩
    rw [e1]
    rcases s.rq i r' hi with ⟨r, hr, _, c, _⟩ | ⟨_, l, _, _⟩
    · exact hch i r hr (c hin)
    · rw [h.lk a A hp (gacPending_of_frame k f hpd)] at l; cases l
  g2 := fun a A' g hq hk hf => by
    have hpd := gacPending_g2 hk hf
    obtain ⟨A, hp, k, f⟩ := s.ap a A' hq hpd
    obtain ⟨hall, G, hG, hch⟩ := h.g2 a A g hp k (f.trans hf)
    obtain ⟨G', hG', e1, _⟩ := s.ga g G hG
    refine ⟨fun i r' hi => ?_, G', hG', fun t ht => ?_⟩
    · rcases s.rq i r' hi with ⟨r, hr, _, c, _⟩ | ⟨_, l, _, _⟩
      · cases hin : r'.inRunning with
        | false => rfl
        | true => have := c hin; rw [hall i r hr] at this; cases this
      · rw [h.lk a A hp (gacPending_of_frame k f hpd)] at l; cases l
    · rw [e1]; exact hch t (s.ru t ht)
  nh := s.nh h.nh
  own := fun m hm => by
    obtain ⟨a, r, hr, e⟩ := h.own m hm
    refine ⟨fun x => a (s.so m x), ?_⟩
    have hlt : m < q.reqs.length := Nat.lt_of_lt_of_le (lt_of_getElem?_some hr) s.rl
    have hq : q.reqs[m]? = some q.reqs[m] := by simp [hlt]
    rcases s.rq m _ hq with ⟨r0, hr0, rs, _, _⟩ | ⟨l, _⟩
    · rw [hr] at hr0; cases hr0
      exact ⟨_, hq, rs.me e⟩
    · have := lt_of_getElem?_some hr; omega
  n2 := fun hN a A' g hq hk hf => by
    obtain ⟨A, hp, k, f⟩ := s.ap a A' hq (gacPending_g2 hk hf)
    exact h.n2 hN a A g hp k (f.trans hf)

theorem sk_ps {M : Option Nat} {N : Bool} {p q : Pool} (h : SK M N p) (s : PS p q) : SK M N q := sk_step h (s h.nh)

/-! ### the spawner whose handle is being run -/

theorem not_ownCancelled_of_not_mem {m : Nat} {ws : List Waiter} (h : m ∉ owners ws) : ¬ ownCancelled m ws := by
  intro hc
  obtain ⟨w, hw, ho, _⟩ := removeWaiterL_fst_some m ws _ hc
  exact h (mem_owners.mpr ⟨w, hw, ho⟩)

theorem not_ownCancelled_nil (m : Nat) : ¬ ownCancelled m [] := by
  simp [ownCancelled, removeWaiterL]

/-- a spawner without waiter entries is doomed only by `must_cancel` -/
theorem doomed_own {p : Pool} {m : Nat} {r : Req} (h1 : m ∉ owners p.sem.waiters) (h2 : r.mapSem.waiters = [])
    (hd : DoomedAt p m r) : r.mustCancel = true := by
  rcases hd with d | ⟨_, d⟩ | ⟨_, d⟩
  · exact d
  · exact absurd d (not_ownCancelled_of_not_mem h1)
  · rw [h2] at d; exact absurd d (not_ownCancelled_nil m)

theorem ownCancelled_append_self (m : Nat) (ws : List Waiter) (h : m ∉ owners ws) :
    ownCancelled m (ws ++ [{ owner := m, st := .cancelled }]) := by
  induction ws with
  | nil => simp [ownCancelled, removeWaiterL]
  | cons a as ih =>
    rw [owners_cons, List.mem_cons, not_or] at h
    rw [List.cons_append, ownCancelled_cons]
    rw [if_neg (fun e => h.1 e.symm)]
    exact ih h.2

/-- the own step of spawner `m`: its record is rewritten by `f` (hooks and filing untouched), other owners' cancelled
entries of the pool's queue stay; what the new state has to say about `m` itself is supplied by the caller -/
theorem sk_own {M M' : Option Nat} {N N' : Bool} {p q : Pool} {m : Nat} (h : SK M N p) (hM : ∀ i, M = some i → i = m)
    (f : Req → Req) (hq : q.reqs = p.reqs.modify m f)
    (hsw : ∀ i, i ≠ m → ownCancelled i p.sem.waiters → ownCancelled i q.sem.waiters)
    (hk : ∀ r, (f r).hooks = r.hooks) (hi : ∀ r, (f r).inRunning = r.inRunning)
    (hfr : ∀ r, p.reqs[m]? = some r → (M' = some m → N' = true) → (f r).outcome = none →
      (f r).inRunning = true ∨ DoomedAt q m (f r))
    (hown : ∀ i, M' = some i → i ∉ owners q.sem.waiters ∧ ∃ r, q.reqs[i]? = some r ∧ r.mapSem.waiters = [])
    (hn2 : N' = true → NoG2 p)
    (ha : q.apis = p.apis := by rfl) (hg : q.gathers = p.gathers := by rfl) (e1 : q.running = p.running := by rfl)
    (e2 : q.cancelledR = p.cancelledR := by rfl) (e3 : q.locked = p.locked := by rfl)
    (e4 : q.simple = p.simple := by rfl) : SK M' N' q := by
  have hin : ∀ i r', q.reqs[i]? = some r' → ∃ r, p.reqs[i]? = some r ∧ r'.inRunning = r.inRunning ∧
      r'.hooks = r.hooks ∧ (i ≠ m → r' = r) ∧ (i = m → r' = f r) := by
    intro i r' hr'
    rw [hq] at hr'
    obtain ⟨r, hp, e⟩ := modify_inv hr'
    refine ⟨r, hp, ?_⟩
    subst e
    split
    · rename_i e; exact ⟨hi r, hk r, fun x => absurd e.symm x, fun _ => rfl⟩
    · rename_i e; exact ⟨rfl, rfl, fun _ => rfl, fun x => absurd x.symm e⟩
  refine { fr := ?_, lk := ?_, g1 := ?_, g2 := ?_, nh := ?_, own := hown, n2 := ?_ }
  · intro i r' hr' hc ho
    obtain ⟨r, hp, _, _, hne, heq⟩ := hin i r' hr'
    by_cases e : i = m
    · subst e
      rw [heq rfl] at ho ⊢
      exact hfr r hp hc ho
    · rw [hne e] at ho ⊢
      rcases h.fr i r hp (fun x => absurd (hM i x) e) ho with x | x
      · exact Or.inl x
      · refine Or.inr ?_
        rcases x with d | ⟨d1, d2⟩ | d
        · exact Or.inl d
        · exact Or.inr (Or.inl ⟨d1, hsw i e d2⟩)
        · exact Or.inr (Or.inr d)
  · rw [ha, e3]; exact h.lk
  · intro a A g hA hkd hf
    rw [ha] at hA
    obtain ⟨G, hG, hre, hch⟩ := h.g1 a A g hA hkd hf
    refine ⟨G, by rw [hg]; exact hG, hre, fun i r' hr' hir => ?_⟩
    obtain ⟨r, hp, e, _⟩ := hin i r' hr'
    exact hch i r hp (e ▸ hir)
  · intro a A g hA hkd hf
    rw [ha] at hA
    obtain ⟨hall, G, hG, hch⟩ := h.g2 a A g hA hkd hf
    refine ⟨fun i r' hr' => ?_, G, by rw [hg]; exact hG, by rw [e1, e2]; exact hch⟩
    obtain ⟨r, hp, e, _⟩ := hin i r' hr'
    rw [e]; exact hall i r hp
  · refine ⟨by rw [e4]; exact h.nh.1, fun i r' hr' => ?_⟩
    obtain ⟨r, hp, _, e, _⟩ := hin i r' hr'
    rw [e]; exact h.nh.2 i r hp
  · intro hN a A g hA
    rw [ha] at hA
    exact hn2 hN a A g hA

/-- the spawner being run rewrites its own record: anything but its hooks, outcome, filing, own waiter queue, and a set
`must_cancel` stays set -/
theorem sk_ownMod {m : Nat} {N : Bool} {p : Pool} (h : SK (some m) N p) (f : Req → Req)
    (hk : ∀ r, (f r).hooks = r.hooks) (ho : ∀ r, (f r).outcome = r.outcome) (hi : ∀ r, (f r).inRunning = r.inRunning)
    (hm : ∀ r, r.mustCancel = true → (f r).mustCancel = true)
    (hw : ∀ r, (f r).mapSem.waiters = r.mapSem.waiters) : SK (some m) N (p.modReq m f) := by
  obtain ⟨a, r, hr, e⟩ := h.own m rfl
  refine sk_own h (fun i x => (Option.some.inj x).symm) f rfl (fun _ _ x => x) hk hi (fun r0 hr0 hc hout => ?_)
    (fun i x => ?_) h.n2
  · rw [hr] at hr0; cases hr0
    rcases h.fr m r hr (fun _ => hc rfl) ((ho r) ▸ hout) with x | x
    · exact Or.inl ((hi r).symm ▸ x)
    · exact Or.inr (Or.inl (hm r (doomed_own a e x)))
  · cases x
    exact ⟨a, f r, modReq_get_self p m f r hr, (hw r).trans e⟩

/-- the spawner whose handle is run is pinned; nobody is exempt -/
theorem sk_pin {N : Bool} {p : Pool} {m : Nat} (h : SK none N p)
    (hown : m ∉ owners p.sem.waiters ∧ ∃ r, p.reqs[m]? = some r ∧ r.mapSem.waiters = []) (hn2 : NoG2 p) :
    SK (some m) true p where
  fr := fun i r hp _ ho => h.fr i r hp (fun e => nomatch e) ho
  lk := h.lk
  g1 := h.g1
  g2 := h.g2
  nh := h.nh
  own := fun i e => by cases e; exact hown
  n2 := fun _ => hn2

/-- a spawner filed as running excludes a `gather_and_close()` in its second gather -/
theorem SK.noG2_of_running {M : Option Nat} {N : Bool} {p : Pool} (h : SK M N p) {m : Nat} {r : Req}
    (hp : p.reqs[m]? = some r) (hin : r.inRunning = true) : NoG2 p := by
  intro a A g hA hk hf
  have := (h.g2 a A g hA hk hf).1 m r hp
  rw [hin] at this; cases this

/-- the spawner being run ends -/
theorem sk_finishMeta {m : Nat} {N : Bool} {p : Pool} (h : SK (some m) N p) (o : Outcome) : SK none false (p.finishMeta m o) := by
  refine (sk_step h (pstep_finishMeta p m o)).close (fun r hr ho => ?_)
  exact absurd ho (finishMeta_outcome p m o r hr)

/-! ### spawners: the walk -/

/-- a task is created: no `gather_and_close()` is in its second gather -/
theorem sk_createTask {M : Option Nat} {p : Pool} (h : SK M true p) (m : Nat) (isMap : Bool) :
    SK M true (p.createTask m isMap) := by
  unfold createTask
  simp only
  refine sk_step ?_ (pstep_emitRef _ _)
  refine sk_step ?_ (pstep_modReq _ m _ (fun _ _ => RStep.of_eq rfl rfl rfl rfl rfl) (fun _ => rfl))
  exact { h with g2 := fun a A g hA hk hf => absurd hf (h.n2 rfl a A g hA hk) }

theorem sk_takeSlotAndCreate {M : Option Nat} {p : Pool} (h : SK M true p) (m : Nat) (isMap : Bool) :
    SK M true (p.takeSlotAndCreate m isMap) := by
  unfold takeSlotAndCreate
  exact sk_createTask (sk_step h (pstep_of_eq _ _)) m isMap

/-- the spawner suspends in `_enough_room.acquire()`; a pending `must_cancel` cancels the new waiter entry at once -/
theorem sk_waitRoom_core {m : Nat} {p : Pool} (h : SK (some m) true p) (st : WaitSt)
    (hst : (p.reqs[m]?.getD default).mustCancel = true → st = .cancelled) :
    SK none false (({ p with sem := { p.sem with waiters := p.sem.waiters ++ [{ owner := m, st := st }] } } : Pool).modReq m
        fun x => { x with frame := .waitRoom, mustCancel := false }) := by
  obtain ⟨a, r, hr, e⟩ := h.own m rfl
  refine sk_own h (fun i x => (Option.some.inj x).symm) _ rfl (fun i _ x => ownCancelled_append i _ _ x)
    (fun _ => rfl) (fun _ => rfl) (fun r0 hr0 _ hout => ?_) (fun i x => nomatch x) (fun x => nomatch x)
  rw [hr] at hr0; cases hr0
  rcases h.fr m r hr (fun _ => rfl) hout with x | x
  · exact Or.inl x
  · have hmc := doomed_own a e x
    rw [hr] at hst
    have hst' := hst hmc
    subst hst'
    exact Or.inr (Or.inr (Or.inl ⟨rfl, ownCancelled_append_self m _ a⟩))

theorem sk_waitRoom {m : Nat} {p : Pool} (h : SK (some m) true p) : SK none false (p.waitRoom m) := by
  unfold waitRoom
  simp only
  split
  · rename_i c
    exact sk_step (sk_waitRoom_core h _ (fun _ => by first | rfl | simp [c])) (pstep_schedMeta _ m)
  · exact sk_waitRoom_core h _ (fun x => by first | exact absurd x (by assumption) | simp [x])

/-- the spawner suspends in `acquire()` of the call's own semaphore -/
theorem sk_waitMapSem_core {m : Nat} {p : Pool} (h : SK (some m) true p) (st : WaitSt)
    (hst : (p.reqs[m]?.getD default).mustCancel = true → st = .cancelled) :
    SK none false (p.modReq m fun x => { x with frame := .waitMapSem, mustCancel := false, acquired := false, mapSem := { x.mapSem with waiters := x.mapSem.waiters ++ [{ owner := m, st := st }] } }) := by
  obtain ⟨a, r, hr, e⟩ := h.own m rfl
  refine sk_own h (fun i x => (Option.some.inj x).symm) _ rfl (fun i _ x => x)
    (fun _ => rfl) (fun _ => rfl) (fun r0 hr0 _ hout => ?_) (fun i x => nomatch x) (fun x => nomatch x)
  rw [hr] at hr0; cases hr0
  rcases h.fr m r hr (fun _ => rfl) hout with x | x
  · exact Or.inl x
  · have hmc := doomed_own a e x
    rw [hr] at hst
    have hst' := hst hmc
    subst hst'
    refine Or.inr (Or.inr (Or.inr ⟨rfl, ?_⟩))
    show ownCancelled m (r.mapSem.waiters ++ [{ owner := m, st := .cancelled }])
    rw [e]
    simp [ownCancelled, removeWaiterL]

theorem sk_waitMapSem {m : Nat} {p : Pool} (h : SK (some m) true p) : SK none false (p.waitMapSem m) := by
  unfold waitMapSem
  simp only
  split
  · rename_i c
    exact sk_step (sk_waitMapSem_core h _ (fun _ => by first | rfl | simp [c])) (pstep_schedMeta _ m)
  · exact sk_waitMapSem_core h _ (fun x => by first | exact absurd x (by assumption) | simp [x])

theorem sk_applyLoop (m n : Nat) (p : Pool) (h : SK (some m) true p) : SK none false (applyLoop m n p) := by
  induction n generalizing p with
  | zero =>
    unfold applyLoop
    exact sk_finishMeta (sk_step h ps_mr) _
  | succ n ih =>
    unfold applyLoop
    simp only
    have h0 : SK (some m) true (p.modReq m fun x => { x with remaining := n + 1 }) := sk_step h ps_mr
    split
    · exact ih _ (sk_step h0 ps_mr)
    · split
      · exact sk_finishMeta h0 _
      · split
        · exact sk_finishMeta h0 _
        · split
          · exact sk_waitRoom h0
          · exact ih _ (sk_takeSlotAndCreate h0 m false)

/-- `_start_task` for the element in hand: either the task is created, or the step is over -/
theorem sk_mapStartTask {p : Pool} {m : Nat} (h : SK (some m) true p) :
    ((p.mapStartTask m).2 = true → SK (some m) true (p.mapStartTask m).1) ∧
    ((p.mapStartTask m).2 = false → SK none false (p.mapStartTask m).1) := by
  unfold mapStartTask
  split
  · exact ⟨fun e => (nomatch e), fun _ => sk_finishMeta h _⟩
  · split
    · exact ⟨fun e => (nomatch e), fun _ => sk_waitRoom h⟩
    · exact ⟨fun _ => sk_takeSlotAndCreate h m true, fun e => nomatch e⟩

/-- one pull from the argument iterator: user code runs (it may cancel the spawner itself) -/
theorem sk_pullItem {p : Pool} {m : Nat} (h : SK (some m) true p) (rest : List Item) :
    SK (some m) true (p.pullItem m rest) := by
  unfold pullItem
  simp only
  have hh := (noUnlock_parts (h.nh.getD m)).2.2.2
  refine sk_step (sk_step ?_ (pstep_logEv _ _)) (pstep_runHooks _ _ _ hh)
  exact sk_ownMod h _ (fun _ => rfl) (fun _ => rfl) (fun _ => rfl) (fun _ x => x) (fun _ => rfl)

theorem sk_takeMapSlot {p : Pool} {m : Nat} (h : SK (some m) true p) : SK (some m) true (p.takeMapSlot m) := by
  unfold takeMapSlot
  exact sk_ownMod h _ (fun _ => rfl) (fun _ => rfl) (fun _ => rfl) (fun _ x => x) (fun _ => rfl)

theorem sk_mapLoop (m : Nat) (items : List Item) (p : Pool) (h : SK (some m) true p) : SK none false (mapLoop m items p) := by
  induction items generalizing p with
  | nil =>
    unfold mapLoop
    exact sk_finishMeta (sk_step h ps_mr) _
  | cons it rest ih =>
    unfold mapLoop
    simp only
    have h0 := sk_pullItem h rest
    split
    · exact sk_finishMeta h0 _
    · split
      · exact ih _ (sk_step h0 ps_mr)
      · split
        · exact sk_waitMapSem h0
        · have h1 := sk_mapStartTask (sk_takeMapSlot h0)
          split
          · rename_i c; exact ih _ (h1.1 c)
          · rename_i c; exact h1.2 (by simpa using c)

theorem sk_continueSpawner {p : Pool} {m : Nat} (h : SK (some m) true p) : SK none false (p.continueSpawner m) := by
  unfold continueSpawner
  simp only
  split
  · exact sk_applyLoop m _ p h
  · exact sk_mapLoop m _ p h

theorem sk_stepMetaNotStarted {p : Pool} {m : Nat} (h : SK none false p) (r : Req)
    (hp : p.reqs[m]? = some { r with sched := false }) (ho : r.outcome = none) (hfr : r.frame = .notStarted)
    (hnw : m ∉ owners p.sem.waiters) (hmw : r.mapSem.waiters = []) : SK none false (p.stepMetaNotStarted m r) := by
  unfold stepMetaNotStarted
  split
  · exact sk_step h (pstep_finishMeta p m _)
  · rename_i c
    have hin : r.inRunning = true := by
      rcases h.fr m _ hp (fun e => nomatch e) ho with x | x
      · exact x
      · rcases x with d | ⟨d, _⟩ | ⟨d, _⟩
        · exact absurd d c
        · have d' : r.frame = .waitRoom := d
          rw [hfr] at d'; cases d'
        · have d' : r.frame = .waitMapSem := d
          rw [hfr] at d'; cases d'
    have hpin : SK (some m) true p := sk_pin h ⟨hnw, _, hp, hmw⟩ (h.noG2_of_running hp hin)
    split
    · exact sk_applyLoop m _ p hpin
    · exact sk_mapLoop m _ p hpin

/-- `CancelledError` inside `_enough_room.acquire()`: the (exempt) spawner hands back what it holds and ends -/
theorem sk_roomWaitCancelled {p : Pool} {m : Nat} {N : Bool} (h : SK (some m) N p) (r : Req) (st : Option WaitSt) :
    SK none false (p.roomWaitCancelled m r st) := by
  unfold roomWaitCancelled
  simp only
  have h1 : SK (some m) N (if (st == some WaitSt.granted) = true then p.releasePool else p) := by
    split
    · exact sk_step h (pstep_releasePool p)
    · exact h
  generalize (if (st == some WaitSt.granted) = true then p.releasePool else p) = q at h1 ⊢
  have h2 : SK (some m) N (if (r.kind == ReqKind.map && r.acquired) = true then q.releaseMap m else q) := by
    split
    · exact sk_step h1 (pstep_releaseMap q m)
    · exact h1
  exact sk_finishMeta h2 _

theorem sk_roomGranted {p : Pool} {m : Nat} (h : SK (some m) true p) (r : Req) : SK none false (p.roomGranted m r) := by
  unfold roomGranted
  simp only
  have h0 : SK (some m) true (p.modReq m fun x => { x with frame := MFrame.running }) :=
    sk_ownMod h _ (fun _ => rfl) (fun _ => rfl) (fun _ => rfl) (fun _ x => x) (fun _ => rfl)
  refine sk_continueSpawner (sk_createTask ?_ m _)
  split
  · exact sk_step h0 (pstep_wake _ _ rfl)
  · exact h0

theorem sk_wakeWaitRoomCore {p : Pool} {m : Nat} (h : SK none false p) (r : Req)
    (hp : p.reqs[m]? = some { r with sched := false }) (ho : r.outcome = none) (hfr : r.frame = .waitRoom)
    (hnd : (owners p.sem.waiters).Nodup) (hmw : r.mapSem.waiters = [])
    (hc : ((removeWaiterL m p.sem.waiters).1 == some .cancelled || r.mustCancel ||
      (removeWaiterL m p.sem.waiters).1 == some .granted) = true) : SK none false (p.wakeWaitRoomCore m r) := by
  unfold wakeWaitRoomCore
  simp only
  have key : ∀ N' : Bool, (N' = true → r.inRunning = true) →
      SK (some m) N' (({ p with sem := { p.sem with waiters := (removeWaiterL m p.sem.waiters).2 } } : Pool).modReq m
        fun x => { x with mustCancel := false }) := by
    intro N' hN
    refine sk_own h (fun i x => nomatch x) _ rfl (fun i hne x => ownCancelled_remove m i _ (Ne.symm hne) x)
      (fun _ => rfl) (fun _ => rfl) (fun r0 hr0 hcnd _ => ?_) (fun i x => ?_) (fun hN' => ?_)
    · rw [hp] at hr0; cases hr0; exact Or.inl (hN (hcnd rfl))
    · cases x
      exact ⟨removeWaiterL_not_mem m _ hnd, _, modReq_get_self _ m _ _ hp, hmw⟩
    · exact h.noG2_of_running hp (hN hN')
  split
  · exact sk_roomWaitCancelled (key false (fun e => nomatch e)) r _
  · rename_i c1
    simp only [Bool.or_eq_true, beq_iff_eq, not_or] at c1
    split
    · have hin : r.inRunning = true := by
        rcases h.fr m _ hp (fun e => nomatch e) ho with x | x
        · exact x
        · rcases x with d | ⟨_, d⟩ | ⟨d, _⟩
          · exact absurd d c1.2
          · exact absurd d c1.1
          · have d' : r.frame = .waitMapSem := d
            rw [hfr] at d'; cases d'
      exact sk_roomGranted (key true (fun _ => hin)) r
    · rename_i c2
      simp only [beq_iff_eq] at c2
      simp only [Bool.or_eq_true, beq_iff_eq] at hc
      rcases hc with (x | x) | x
      · exact absurd x c1.1
      · exact absurd x c1.2
      · exact absurd x c2

theorem sk_mapSemGranted {p : Pool} {m : Nat} (h : SK (some m) true p) (r : Req) : SK none false (p.mapSemGranted m r) := by
  unfold mapSemGranted
  simp only
  have h0 : SK (some m) true (p.modReq m fun x => { x with acquired := true, frame := MFrame.running }) :=
    sk_ownMod h _ (fun _ => rfl) (fun _ => rfl) (fun _ => rfl) (fun _ x => x) (fun _ => rfl)
  have h1 := sk_mapStartTask h0
  split
  · rename_i c; exact sk_mapLoop m _ _ (h1.1 c)
  · rename_i c; exact h1.2 (by simpa using c)

theorem sk_wakeWaitMapSemCore {p : Pool} {m : Nat} (h : SK none false p) (r : Req)
    (hp : p.reqs[m]? = some { r with sched := false }) (ho : r.outcome = none) (hfr : r.frame = .waitMapSem)
    (hnw : m ∉ owners p.sem.waiters) (hs1 : (removeWaiterL m r.mapSem.waiters).2 = [])
    (hc : ((removeWaiterL m r.mapSem.waiters).1 == some .cancelled || r.mustCancel ||
      (removeWaiterL m r.mapSem.waiters).1 == some .granted) = true) : SK none false (p.wakeWaitMapSemCore m r) := by
  unfold wakeWaitMapSemCore
  simp only
  have hs2 := wk_s2_nil { r.mapSem with waiters := (removeWaiterL m r.mapSem.waiters).2 } hs1
    ((removeWaiterL m r.mapSem.waiters).1 == some WaitSt.granted)
    ((removeWaiterL m r.mapSem.waiters).1 == some WaitSt.cancelled || r.mustCancel)
  generalize (if ((removeWaiterL m r.mapSem.waiters).1 == some WaitSt.granted) = true then _ else _ : Sem × Option Nat) = s2 at hs2 ⊢
  have key : ∀ N' : Bool, (N' = true → r.inRunning = true) →
      SK (some m) N' ((p.modReq m fun x => { x with mapSem := s2.1, mustCancel := false }).schedOpt s2.2) := by
    intro N' hN
    refine sk_step ?_ (pstep_schedOpt _ _)
    refine sk_own h (fun i x => nomatch x) _ rfl (fun _ _ x => x) (fun _ => rfl) (fun _ => rfl)
      (fun r0 hr0 hcnd _ => ?_) (fun i x => ?_) (fun hN' => ?_)
    · rw [hp] at hr0; cases hr0; exact Or.inl (hN (hcnd rfl))
    · cases x
      exact ⟨hnw, _, modReq_get_self _ m _ _ hp, hs2.1⟩
    · exact h.noG2_of_running hp (hN hN')
  split
  · exact sk_finishMeta (key false (fun e => nomatch e)) _
  · rename_i c1
    simp only [Bool.or_eq_true, beq_iff_eq, not_or] at c1
    split
    · have hin : r.inRunning = true := by
        rcases h.fr m _ hp (fun e => nomatch e) ho with x | x
        · exact x
        · rcases x with d | ⟨d, _⟩ | ⟨_, d⟩
          · exact absurd d c1.2
          · have d' : r.frame = .waitRoom := d
            rw [hfr] at d'; cases d'
          · exact absurd d c1.1
      exact sk_mapSemGranted (key true (fun _ => hin)) r
    · rename_i c2
      simp only [beq_iff_eq] at c2
      simp only [Bool.or_eq_true, beq_iff_eq] at hc
      rcases hc with (x | x) | x
      · exact absurd x c1.1
      · exact absurd x c1.2
      · exact absurd x c2

theorem removeWaiterL_all_nil (m : Nat) (ws : List Waiter) (hl : ws.length ≤ 1) (ho : ∀ w ∈ ws, w.owner = m) :
    (removeWaiterL m ws).2 = [] := by
  match ws, hl, ho with
  | [], _, _ => rfl
  | [w], _, ho => simp [removeWaiterL, ho w]
  | _ :: _ :: _, hl, _ => simp only [List.length_cons] at hl; omega

/-- a spawner takes a step.  From `Want`: a spawner whose asyncio Task is done is never resumed; the waiter queues hold
one entry per owner, entries belong to spawners suspended in the respective `acquire()` -/
theorem sk_stepMeta {p : Pool} (h : SK none false p) (hW : Want p) (m : Nat) : SK none false (p.stepMeta m) := by
  unfold stepMeta
  split
  · exact h
  · rename_i r hp
    split
    · exact h
    · simp only
      have h1 : SK none false (p.modReq m fun x => { x with sched := false }) := sk_step h ps_mr
      have hp1 : (p.modReq m fun x => { x with sched := false }).reqs[m]? = some { r with sched := false } :=
        modReq_get_self p m _ r hp
      have ho : r.frame ≠ .done → r.outcome = none := by
        intro hne
        cases hout : r.outcome with
        | none => rfl
        | some o => exact absurd (hW.od m r hp id (by simp [hout])) hne
      have hnw : r.frame ≠ .waitRoom → m ∉ owners p.sem.waiters := by
        intro hne hm
        obtain ⟨w, hw, hwo⟩ := mem_owners.mp hm
        obtain ⟨r0, hr0, hc⟩ := hW.pw w hw
        rw [hwo, hp] at hr0; cases hr0
        exact hne (hc id).1
      have hmw : r.frame ≠ .waitMapSem → r.mapSem.waiters = [] := by
        intro hne
        apply List.eq_nil_iff_forall_not_mem.mpr
        intro w hw
        exact hne ((hW.mw m r hp w hw).2 id).1
      split
      · exact h1
      · exact h1
      · rename_i hfr
        exact sk_stepMetaNotStarted h1 r hp1 (ho (by rw [hfr]; simp)) hfr (hnw (by rw [hfr]; simp)) (hmw (by rw [hfr]; simp))
      · rename_i hfr
        unfold wakeWaitRoom
        split
        · rename_i c
          exact sk_wakeWaitRoomCore h1 r hp1 (ho (by rw [hfr]; simp)) hfr hW.pn (hmw (by rw [hfr]; simp)) c
        · exact h1
      · rename_i hfr
        unfold wakeWaitMapSem
        split
        · rename_i c
          exact sk_wakeWaitMapSemCore h1 r hp1 (ho (by rw [hfr]; simp)) hfr (hnw (by rw [hfr]; simp))
            (removeWaiterL_all_nil m _ (hW.mn m r hp) (fun w hw => (hW.mw m r hp w hw).1)) c
        · exact h1

/-! ### `gather_and_close` -/

theorem pstep_gacAfter2 (p : Pool) (a : Nat) (o : Outcome) : PStep p (p.gacAfter2 a o) := by
  unfold gacAfter2
  split
  · simp only
    refine PStep.trans (PStep.trans ?_ (pstep_foldl _ _ (fun q w => pstep_schedApi q w) _)) (pstep_finishApi _ a _)
    exact { PStep.refl p with ru := fun t ht => by simp at ht }
  · exact pstep_finishApi p a _

/-- the call starts waiting in its first gather -/
theorem sk_setGather1 {p : Pool} (h : SK none false p) (a g : Nat) (hl : p.locked = true)
    (hG : ∃ G : Gather, p.gathers[g]? = some G ∧ G.retExc = true ∧
      ∀ (m : Nat) (r : Req), p.reqs[m]? = some r → r.inRunning = true → Child.spawner m ∈ G.children) :
    SK none false (p.modApi a fun x => { x with frame := .gather1 g }) :=
  { h with
    lk := fun _ _ _ _ => hl
    g1 := fun i A' g' hA' hk hf => by
      obtain ⟨A, hA, e⟩ := modify_inv (l := p.apis) hA'
      subst e
      split at hf
      · simp only [AFrame.gather1.injEq] at hf
        subst hf; exact hG
      · split at hk
        · rename_i e1 e2; exact absurd e2 e1
        · exact h.g1 i A g' hA hk hf
    g2 := fun i A' g' hA' hk hf => by
      obtain ⟨A, hA, e⟩ := modify_inv (l := p.apis) hA'
      subst e
      split at hf
      · cases hf
      · split at hk
        · rename_i e1 e2; exact absurd e2 e1
        · exact h.g2 i A g' hA hk hf
    n2 := fun e => nomatch e }

/-- the call starts waiting in its second gather -/
theorem sk_setGather2 {p : Pool} (h : SK none false p) (a g : Nat) (hl : p.locked = true)
    (hG : (∀ (m : Nat) (r : Req), p.reqs[m]? = some r → r.inRunning = false) ∧
      ∃ G : Gather, p.gathers[g]? = some G ∧ ∀ t ∈ p.running ++ p.cancelledR, Child.task t ∈ G.children) :
    SK none false (p.modApi a fun x => { x with frame := .gather2 g }) :=
  { h with
    lk := fun _ _ _ _ => hl
    g1 := fun i A' g' hA' hk hf => by
      obtain ⟨A, hA, e⟩ := modify_inv (l := p.apis) hA'
      subst e
      split at hf
      · cases hf
      · split at hk
        · rename_i e1 e2; exact absurd e2 e1
        · exact h.g1 i A g' hA hk hf
    g2 := fun i A' g' hA' hk hf => by
      obtain ⟨A, hA, e⟩ := modify_inv (l := p.apis) hA'
      subst e
      split at hf
      · simp only [AFrame.gather2.injEq] at hf
        subst hf; exact hG
      · split at hk
        · rename_i e1 e2; exact absurd e2 e1
        · exact h.g2 i A g' hA hk hf
    n2 := fun e => nomatch e }

/-- the second half of `gather_and_close()`: everything filed as running or cancelled is gathered -/
def gacTail (P : Pool) (a : Nat) (re : Bool) : Pool :=
  let q := P.gatherStart (P.ended.map Child.task ++ P.cancelledR.map Child.task ++ P.running.map Child.task) re a 0
  match q.1.gatherOuter q.2 with
  | some o => q.1.gacAfter2 a o
  | none => q.1.modApi a fun x => { x with frame := .gather2 q.2 }

theorem sk_gacTail {P : Pool} (h : SK none false P) (a : Nat) (re : Bool) (hl : P.locked = true)
    (hnr : ∀ (m : Nat) (r : Req), P.reqs[m]? = some r → r.inRunning = false) : SK none false (gacTail P a re) := by
  unfold gacTail
  simp only
  have t := pstep_gatherStart P (P.ended.map Child.task ++ P.cancelledR.map Child.task ++ P.running.map Child.task) re a 0
  obtain ⟨G, hG, hch, _⟩ := gatherStart_get P (P.ended.map Child.task ++ P.cancelledR.map Child.task ++ P.running.map Child.task) re a 0
  generalize P.gatherStart (P.ended.map Child.task ++ P.cancelledR.map Child.task ++ P.running.map Child.task) re a 0 = q at t hG ⊢
  have hq := sk_step h t
  split
  · exact sk_step hq (pstep_gacAfter2 _ a _)
  · refine sk_setGather2 hq a q.2 (t.lk hl) ⟨fun m r' hr' => ?_, G, hG, fun x hx => ?_⟩
    · rcases t.rq m r' hr' with ⟨r, hr, _, c, _⟩ | ⟨_, l, _, _⟩
      · cases hin : r'.inRunning with
        | false => rfl
        | true => have := c hin; rw [hnr m r hr] at this; cases this
      · rw [hl] at l; cases l
    · rw [hch]
      have := t.ru x hx
      simp only [List.mem_append, List.mem_map, Child.task.injEq, exists_eq_right] at this ⊢
      rcases this with y | y
      · exact Or.inr y
      · exact Or.inl (Or.inr y)

/-- the first gather of a `gather_and_close()` is complete: every spawner filed as running has been awaited
(`SpawnersWaited`), so the live ones left are doomed and all of them are un-filed -/
theorem sk_gacAfter1 {p : Pool} (h : SK none false p) (a : Nat) (re : Bool) (g : Nat) (hl : p.locked = true)
    (hG : ∃ G : Gather, p.gathers[g]? = some G ∧ G.retExc = true ∧
      ∀ (m : Nat) (r : Req), p.reqs[m]? = some r → r.inRunning = true → Child.spawner m ∈ G.children)
    (ho : (p.gatherOuter g).isSome = true) (hsw : p.SpawnersWaited) : SK none false (p.gacAfter1 a re g) := by
  have hdone : ∀ (m : Nat) (r : Req), p.reqs[m]? = some r → r.inRunning = true → r.outcome.isSome = true := by
    obtain ⟨G, hG1, hre, hch⟩ := hG
    intro m r hr hin
    have hO : G.outer.isSome = true := by
      unfold gatherOuter at ho; rw [hG1] at ho; exact ho
    obtain ⟨r0, hr0, x⟩ := hsw g G hG1 hre hO m (hch m r hr hin)
    rw [hr] at hr0; cases hr0; exact x
  unfold gacAfter1
  simp only
  split
  · exact sk_step h (pstep_finishApi p a _)
  · have t1 : PStep p ({ p with metaCancelled := [], reqs := p.reqs.map fun (r : Req) => { r with inCancelled := false, inRunning := false } } : Pool) := by
      refine pstep_reqs p _ (by simp) (fun i r' hr' => ?_)
      simp only [List.getElem?_map] at hr'
      cases hq : p.reqs[i]? with
      | none => simp [hq] at hr'
      | some r =>
        simp only [hq, Option.map_some, Option.some.injEq] at hr'
        subst hr'
        refine ⟨r, rfl, RStep.of_eq rfl rfl rfl rfl rfl, fun x => (nomatch x), fun hout hin => ?_⟩
        have := hdone i r hq hin
        have hout' : r.outcome = none := hout
        rw [hout'] at this; cases this
    refine sk_gacTail (sk_step h t1) a re hl (fun m r' hr' => ?_)
    simp only [List.getElem?_map] at hr'
    cases hq : p.reqs[m]? with
    | none => simp [hq] at hr'
    | some r =>
      simp only [hq, Option.map_some, Option.some.injEq] at hr'
      subst hr'; rfl

/-- `gacStage1` up to the start of the first gather, for a pool that is locked already -/
theorem sk_gacPre {P : Pool} (h : SK none false P) (hl : P.locked = true) (a : Nat) (mc : List Nat) :
    SK none false (P.gatherStart (mc.map Child.spawner ++ (indicesWhere P.reqs fun r => r.inRunning).map Child.spawner) true a 0).1 ∧
    (P.gatherStart (mc.map Child.spawner ++ (indicesWhere P.reqs fun r => r.inRunning).map Child.spawner) true a 0).1.locked = true ∧
    ∃ G : Gather, (P.gatherStart (mc.map Child.spawner ++ (indicesWhere P.reqs fun r => r.inRunning).map Child.spawner) true a 0).1.gathers[(P.gatherStart (mc.map Child.spawner ++ (indicesWhere P.reqs fun r => r.inRunning).map Child.spawner) true a 0).2]? = some G ∧ G.retExc = true ∧
      ∀ (m : Nat) (r : Req), (P.gatherStart (mc.map Child.spawner ++ (indicesWhere P.reqs fun r => r.inRunning).map Child.spawner) true a 0).1.reqs[m]? = some r → r.inRunning = true → Child.spawner m ∈ G.children := by
  have t := pstep_gatherStart P (mc.map Child.spawner ++ (indicesWhere P.reqs fun r => r.inRunning).map Child.spawner) true a 0
  obtain ⟨G, hG, hch, hre⟩ := gatherStart_get P (mc.map Child.spawner ++ (indicesWhere P.reqs fun r => r.inRunning).map Child.spawner) true a 0
  refine ⟨sk_step h t, t.lk hl, G, hG, hre, fun m r' hr' hin => ?_⟩
  rw [hch]
  rcases t.rq m r' hr' with ⟨r, hr, _, c, _⟩ | ⟨_, l, _, _⟩
  · exact List.mem_append_right _ (List.mem_map.mpr ⟨m, mem_indicesWhere_of hr (c hin), rfl⟩)
  · rw [hl] at l; cases l

theorem sk_gacStage1 {p : Pool} (h : SK none false p) (a : Nat) (re : Bool)
    (hsw : (p.gacStage1Pre a re).1.SpawnersWaited) : SK none false (p.gacStage1 a re) := by
  rw [gacStage1_eq]
  have hpre : SK none false (p.gacStage1Pre a re).1 ∧ (p.gacStage1Pre a re).1.locked = true ∧
      ∃ G : Gather, (p.gacStage1Pre a re).1.gathers[(p.gacStage1Pre a re).2]? = some G ∧ G.retExc = true ∧
        ∀ (m : Nat) (r : Req), (p.gacStage1Pre a re).1.reqs[m]? = some r → r.inRunning = true →
          Child.spawner m ∈ G.children := by
    unfold gacStage1Pre
    exact sk_gacPre (sk_step h (pstep_of_eq_lock p _ rfl)) rfl a _
  generalize p.gacStage1Pre a re = q at hpre hsw ⊢
  obtain ⟨hq, hl, hG⟩ := hpre
  split
  · rename_i o ho
    exact sk_gacAfter1 hq a re q.2 hl hG (by rw [ho]; rfl) hsw
  · exact sk_setGather1 hq a q.2 hl hG

/-! ### background calls -/

theorem sk_stepApi {p : Pool} (h : SK none false p) (a : Nat) (h0 : p.SpawnersWaited)
    (h1 : ∀ a re, ((p.modApi a fun x => { x with sched := false }).gacStage1Pre a re).1.SpawnersWaited) :
    SK none false (p.stepApi a) := by
  unfold stepApi
  split
  · exact h
  · rename_i A hA
    split
    · exact h
    · simp only
      have hp1 : SK none false (p.modApi a fun x => { x with sched := false }) := sk_step h (pstep_modApi_triv p a _)
      have hA1 : (p.modApi a fun x => { x with sched := false }).apis[a]? = some { A with sched := false } := by
        simp [modApi, hA]
      have hng : A.kind.isGac = false → ∀ x, (p.modApi a fun x => { x with sched := false }).apis[a]? = some x →
          x.kind.isGac = false := by
        intro hk x hx
        rw [hA1] at hx; cases hx; exact hk
      split
      · exact hp1
      · rename_i hf hk
        exact sk_step hp1 (pstep_flushStage1 _ a _ (hng (by rw [hk]; rfl)))
      · exact sk_gacStage1 hp1 a _ (h1 a _)
      · exact sk_step hp1 (pstep_untilClosedStart _ a)
      · exact sk_step hp1 (pstep_finishApi _ a _)
      · rename_i hf hk
        split
        · exact sk_step hp1 (pstep_flushAfter1 _ a _ _ (hng (by rw [hk]; rfl)))
        · exact hp1
      · rename_i g re hf hk
        split
        · rename_i o ho
          have hkg : ({ A with sched := false } : Api).kind.isGac = true := by
            show A.kind.isGac = true
            rw [hk]; rfl
          exact sk_gacAfter1 hp1 a re g (hp1.lk a _ hA1 (gacPending_g1 hkg hf)) (hp1.g1 a _ g hA1 hkg hf)
            (by rw [ho]; rfl) h0
        · exact hp1
      · split
        · exact sk_step hp1 (pstep_flushAfter2 _ a _)
        · exact hp1
      · split
        · exact sk_step hp1 (pstep_gacAfter2 _ a _)
        · exact hp1
      · exact hp1

end Pool
end Taskpool
