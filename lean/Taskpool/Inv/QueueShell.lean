import Taskpool.Inv.QueueSteps
/-! C20, part 4: two facts about the asyncio shell — the observation log never shows a `ValueError` from
`task_done()`, and the wake-up handle of every scheduled `join()` task is in the loop's ready queue. -/
namespace Taskpool.QueueM

theorem K.Inv.pos_of_inBlock {k : K} (hi : k.Inv) (c : Nat) (x : Core) (h : k.cores[c]? = some x)
    (hx : isInBlock x.phase = true) : 0 < k.unfinished := by
  obtain ⟨a, _, _, _, _⟩ := hi.cnt
  have h1 := countP_modify_at Core.inBlock k.cores c x (fun y => { phase := .done .ok true, marks := y.marks }) h
  have hib : x.inBlock = true := hx
  have e1 : Core.inBlock { phase := .done .ok true, marks := x.marks } = false := rfl
  simp only [hib, e1, if_true, Bool.false_eq_true, if_false, Nat.add_zero] at h1
  simp only [K.view] at a
  omega

theorem mem_eraseIdx_of_ne {α} (l : List α) (n : Nat) (a b : α) (hn : l[n]? = some b) (hab : a ≠ b) (ha : a ∈ l) :
    a ∈ l.eraseIdx n := by
  induction l generalizing n with
  | nil => simp at ha
  | cons c cs ih =>
    cases n with
    | zero =>
      simp at hn; subst hn
      simp only [List.eraseIdx_cons_zero]
      rcases List.mem_cons.1 ha with h | h
      · exact absurd h hab
      · exact h
    | succ m =>
      simp only [List.eraseIdx_cons_succ, List.mem_cons]
      rcases List.mem_cons.1 ha with h | h
      · exact .inl h
      · exact .inr (ih m (by simpa using hn) h)

namespace Q

/-- the shell facts -/
structure Shell (q : Q) : Prop where
  noVE  : Ev.valueError ∉ q.log
  ready : ∀ (j : Nat) (x : Joiner), q.k.joiners[j]? = some x → x.sched = true → Ref.joiner j ∈ q.ready

/-- `q'` extends `q`: same joiners, nothing removed from the ready queue, no `ValueError` logged -/
structure Ext (q q' : Q) : Prop where
  joiners : q'.k.joiners = q.k.joiners
  ready   : ∀ r ∈ q.ready, r ∈ q'.ready
  log     : Ev.valueError ∈ q'.log → Ev.valueError ∈ q.log

theorem Ext.refl (q : Q) : Ext q q := ⟨rfl, fun _ h => h, fun h => h⟩
theorem Ext.trans {a b c : Q} (h1 : Ext a b) (h2 : Ext b c) : Ext a c :=
  ⟨h2.joiners.trans h1.joiners, fun r h => h2.ready r (h1.ready r h), fun h => h1.log (h2.log h)⟩

theorem Ext.shell {q q' : Q} (h : Ext q q') (hs : q.Shell) : q'.Shell :=
  ⟨fun hv => hs.noVE (h.log hv), fun j x hx hsch => h.ready _ (hs.ready j x (h.joiners ▸ hx) hsch)⟩

theorem ext_modA (q : Q) (c : Nat) (f : Aux → Aux) : Ext q (q.modA c f) := ⟨rfl, fun _ h => h, fun h => h⟩
theorem ext_setK (q : Q) (k : K) (h : k.joiners = q.k.joiners) : Ext q (q.setK k) := ⟨h, fun _ h => h, fun h => h⟩
theorem ext_logEv (q : Q) (e : Ev) (he : e ≠ .valueError) : Ext q (q.logEv e) :=
  ⟨rfl, fun _ h => h, fun h => by
    simp only [logEv, List.mem_append, List.mem_singleton] at h
    rcases h with h | h
    · exact h
    · exact absurd h.symm he⟩
theorem ext_schedC (q : Q) (c : Nat) : Ext q (q.schedC c) :=
  ⟨rfl, fun r h => by simp [schedC, h], fun h => h⟩

theorem ext_modP (q : Q) (j : Nat) (f : Aux → Aux) : Ext q (q.modP j f) := ⟨rfl, fun _ h => h, fun h => h⟩
theorem ext_schedP (q : Q) (j : Nat) : Ext q (q.schedP j) :=
  ⟨rfl, fun r h => by simp [schedP, modP, h], fun h => h⟩

theorem ext_wakePutter (q : Q) : Ext q q.wakePutter := by
  unfold wakePutter
  simp only
  split
  · exact ⟨rfl, fun _ h => h, fun h => h⟩
  · refine Ext.trans ?_ (ext_schedP _ _)
    refine Ext.trans ?_ (ext_modP _ _ _)
    exact ⟨rfl, fun _ h => h, fun h => h⟩

theorem ext_waitPutter (q : Q) (j : Nat) : Ext q (q.waitPutter j) := ⟨rfl, fun _ h => h, fun h => h⟩

theorem ext_wakeGetter (q : Q) : Ext q q.wakeGetter := by
  unfold wakeGetter
  simp only
  split
  · exact ⟨rfl, fun _ h => h, fun h => h⟩
  · refine Ext.trans ?_ (ext_schedC _ _)
    refine Ext.trans ?_ (ext_modA _ _ _)
    exact ⟨rfl, fun _ h => h, fun h => h⟩

theorem ext_armGate (q : Q) (c : Nat) : Ext q (q.armGate c) := by
  unfold armGate
  split
  · exact Ext.refl _
  · split
    · refine Ext.trans ?_ (ext_schedC _ _)
      exact ext_modA _ _ _
    · exact ext_modA _ _ _

theorem ext_waitGetter (q : Q) (c : Nat) : Ext q (q.waitGetter c) := by
  unfold waitGetter
  simp only
  have h0 : Ext q { q with getters := q.getters ++ [c] } := ⟨rfl, fun _ h => h, fun h => h⟩
  split
  · exact h0
  · split
    · refine Ext.trans ?_ (ext_schedC _ _)
      exact Ext.trans h0 (ext_modA _ _ _)
    · exact Ext.trans h0 (ext_modA _ _ _)

theorem K.joiners_take (k : K) (c : Nat) : (k.take c).joiners = k.joiners := by
  unfold K.take; split <;> rfl

theorem ext_put (q : Q) (x : Nat) : Ext q (q.put x) := by
  unfold put
  split
  · exact Ext.refl _
  · exact Ext.trans (ext_setK q (q.k.put x) rfl) (ext_wakeGetter _)

theorem ext_tryGet (q : Q) (c : Nat) : Ext q (q.tryGet c) := by
  unfold tryGet
  split
  · exact Ext.trans (ext_setK q (q.k.wait c) rfl) (ext_waitGetter _ _)
  · refine Ext.trans ?_ (ext_armGate _ _)
    refine Ext.trans ?_ (ext_logEv _ _ (by simp))
    refine Ext.trans ?_ (ext_wakePutter _)
    exact ext_setK q (q.k.take c) (K.joiners_take _ _)

theorem ext_abortGet (q : Q) (c : Nat) (w : Bool) : Ext q (q.abortGet c w) := by
  unfold abortGet
  simp only
  have h0 : Ext q { q with getters := q.getters.erase c } := ⟨rfl, fun _ h => h, fun h => h⟩
  split
  · refine Ext.trans ?_ (ext_setK _ _ (by simp [K.abort, K.setPhase]))
    refine Ext.trans ?_ (ext_logEv _ _ (by simp))
    exact Ext.trans h0 (ext_wakeGetter _)
  · refine Ext.trans ?_ (ext_setK _ _ (by simp [K.abort, K.setPhase]))
    exact Ext.trans h0 (ext_logEv _ _ (by simp))

theorem ext_wakeWaiting (q : Q) (c : Nat) (a : Aux) : Ext q (q.wakeWaiting c a) := by
  unfold wakeWaiting
  simp only
  split
  · refine Ext.trans ?_ (ext_abortGet _ _ _)
    exact ext_modA _ _ _
  · refine Ext.trans ?_ (ext_tryGet _ _)
    exact ext_modA _ _ _

theorem ext_startConsumer (q : Q) (c : Nat) (a : Aux) : Ext q (q.startConsumer c a) := by
  unfold startConsumer
  split
  · refine Ext.trans ?_ (ext_setK _ _ (by simp [K.abort, K.setPhase]))
    exact ext_modA _ _ _
  · exact ext_tryGet _ _

theorem ext_cancelConsumer (q : Q) (c : Nat) : Ext q (q.cancelConsumer c) := by
  unfold cancelConsumer
  split
  · split
    · exact Ext.refl _
    · split
      · refine Ext.trans ?_ (ext_schedC _ _)
        exact ext_modA _ _ _
      · exact ext_modA _ _ _
  · exact Ext.refl _

theorem ext_gate (q : Q) (c : Nat) (exc : Bool) : Ext q (q.gate c exc) := by
  unfold gate
  split
  · refine Ext.trans ?_ (ext_schedC _ _)
    exact ext_modA _ _ _
  · exact Ext.refl _

theorem K.joiners_pput (k : K) (j : Nat) : (k.pput j).joiners = k.joiners := by
  unfold K.pput; split <;> rfl

theorem ext_tryPut (q : Q) (j x : Nat) : Ext q (q.tryPut j x) := by
  unfold tryPut
  split
  · exact Ext.trans (ext_setK q (q.k.pwait j) rfl) (ext_waitPutter _ _)
  · refine Ext.trans ?_ (ext_logEv _ _ (by simp))
    exact Ext.trans (ext_setK q (q.k.pput j) (K.joiners_pput _ _)) (ext_wakeGetter _)

theorem ext_abortPut (q : Q) (j : Nat) (w : Bool) : Ext q (q.abortPut j w) := by
  unfold abortPut
  simp only
  have h0 : Ext q (({ q with putters := q.putters.erase j } : Q).setK (q.k.pabort j)) := ⟨rfl, fun _ h => h, fun h => h⟩
  split
  · refine Ext.trans ?_ (ext_logEv _ _ (by simp))
    exact Ext.trans h0 (ext_wakePutter _)
  · exact Ext.trans h0 (ext_logEv _ _ (by simp))

theorem ext_startProducer (q : Q) (j : Nat) (a : Aux) (x : Nat) : Ext q (q.startProducer j a x) := by
  unfold startProducer
  split
  · exact Ext.trans (ext_modP _ _ _) (ext_setK _ _ rfl)
  · exact ext_tryPut _ _ _

theorem ext_wakeProducer (q : Q) (j : Nat) (a : Aux) (x : Nat) : Ext q (q.wakeProducer j a x) := by
  unfold wakeProducer
  simp only
  split
  · exact Ext.trans (ext_modP _ _ _) (ext_abortPut _ _ _)
  · exact Ext.trans (ext_modP _ _ _) (ext_tryPut _ _ _)

theorem ext_stepProducer (q : Q) (j : Nat) : Ext q (q.stepProducer j) := by
  unfold stepProducer
  split
  · split
    · exact Ext.refl _
    · simp only
      split
      · refine Ext.trans ?_ (ext_startProducer _ _ _ _)
        exact ext_modP _ _ _
      · refine Ext.trans ?_ (ext_wakeProducer _ _ _ _)
        exact ext_modP _ _ _
      · exact ext_modP _ _ _
  · exact Ext.refl _

theorem ext_cancelProducer (q : Q) (j : Nat) : Ext q (q.cancelProducer j) := by
  unfold cancelProducer
  split
  · split
    · exact Ext.refl _
    · split
      · exact Ext.trans (ext_modP _ _ _) (ext_schedP _ _)
      · exact ext_modP _ _ _
  · exact Ext.refl _

theorem ext_produce (q : Q) (x : Nat) : Ext q (q.produce x) := ⟨rfl, fun r h => by simp [produce, h], fun h => h⟩

theorem ext_spawn (q : Q) : Ext q q.spawn := ⟨rfl, fun r h => by simp [spawn, h], fun h => h⟩

theorem K.length_joiners_taskDone (k : K) : k.taskDone.joiners.length = k.joiners.length := by
  simp only [K.taskDone, K.taskDoneOk, K.setFinished]
  repeat' split
  all_goals simp

/-- leaving a block: `task_done()` finds a positive counter; the joiners it wakes are queued -/
theorem shell_exitBlock (q : Q) (c : Nat) (e : Exit) (hpos : 0 < q.k.unfinished) (hs : q.Shell) : (q.exitBlock c e).Shell := by
  have hne : ¬ q.k.unfinished = 0 := by omega
  constructor
  · intro h
    simp only [exitBlock, modA, hne, if_false, List.mem_append, List.mem_cons, List.not_mem_nil, or_false] at h
    rcases h with h | h | h
    · exact hs.noVE h
    · cases h
    · cases h
  · intro j x' hx' hsch
    simp only [k_exitBlock] at hx'
    rw [(K.joiners_exit q.k c e).1] at hx'
    have hready : (q.exitBlock c e).ready = q.ready ++ (if q.k.unfinished = 1 then q.k.wokenRefs else []) := rfl
    rw [hready]
    cases hx : q.k.joiners[j]? with
    | none =>
      have hl : ¬ j < q.k.joiners.length := by
        intro hl; rw [List.getElem?_eq_getElem hl] at hx; cases hx
      have h1 := (List.getElem?_eq_some_iff.1 hx').1
      rw [K.length_joiners_taskDone] at h1
      exact absurd h1 hl
    | some x =>
      have ht := (K.joiner_taskDone ({ q.k with exits := q.k.exits + 1 } : K) hpos j x hx).2
      rw [ht] at hx'
      simp only [Option.some.injEq] at hx'
      by_cases hw : q.k.unfinished = 1 ∧ K.wakes ({ q.k with exits := q.k.exits + 1 } : K) j x = true
      · obtain ⟨h1, h2⟩ := hw
        simp only [K.wakes, Bool.and_eq_true, List.contains_iff_mem, beq_iff_eq] at h2
        simp only [h1, if_true, List.mem_append]
        right
        simp only [K.wokenRefs, List.mem_map, List.mem_filter]
        exact ⟨j, ⟨h2.1, by simp [hx, h2.2]⟩, rfl⟩
      · have hw' : ¬ (({ q.k with exits := q.k.exits + 1 } : K).unfinished = 1
            ∧ K.wakes ({ q.k with exits := q.k.exits + 1 } : K) j x = true) := hw
        rw [if_neg hw'] at hx'
        subst hx'
        exact List.mem_append_left _ (hs.ready j x hx hsch)

/-- a hand mark: the item it takes is unfinished work, so `task_done()` finds a positive counter; the joiners it wakes
are queued -/
theorem shell_handTake (q : Q) (hi : q.k.Inv) (hs : q.Shell) : q.handTake.Shell := by
  unfold handTake
  split
  · exact hs
  · rename_i y rest hit
    have hpos : 0 < q.k.unfinished := hi.pos_of_items y rest hit
    have hne : ¬ q.k.unfinished = 0 := by omega
    have hk : q.k.handTake = ({ q.k with items := rest, takes := q.k.takes + 1 } : K).taskDone := by
      unfold K.handTake; rw [hit]
    constructor
    · intro h
      simp only [hne, if_false, List.mem_append, List.mem_cons, List.not_mem_nil, or_false] at h
      rcases h with h | h | h
      · exact hs.noVE h
      · cases h
      · cases h
    · intro j x' hx' hsch
      simp only [hk] at hx' ⊢
      cases hx : q.k.joiners[j]? with
      | none =>
        have hl : ¬ j < q.k.joiners.length := by
          intro hl; rw [List.getElem?_eq_getElem hl] at hx; cases hx
        have h1 := (List.getElem?_eq_some_iff.1 hx').1
        rw [K.length_joiners_taskDone] at h1
        exact absurd h1 hl
      | some x =>
        have ht := (K.joiner_taskDone ({ q.k with items := rest, takes := q.k.takes + 1 } : K) hpos j x hx).2
        rw [ht] at hx'
        simp only [Option.some.injEq] at hx'
        by_cases hw : q.k.unfinished = 1 ∧ K.wakes ({ q.k with items := rest, takes := q.k.takes + 1 } : K) j x = true
        · obtain ⟨h1, h2⟩ := hw
          simp only [K.wakes, Bool.and_eq_true, List.contains_iff_mem, beq_iff_eq] at h2
          simp only [h1, if_true, List.mem_append]
          right
          simp only [K.wokenRefs, List.mem_map, List.mem_filter]
          exact ⟨j, ⟨h2.1, by simp [hx, h2.2]⟩, rfl⟩
        · have hw' : ¬ (({ q.k with items := rest, takes := q.k.takes + 1 } : K).unfinished = 1
              ∧ K.wakes ({ q.k with items := rest, takes := q.k.takes + 1 } : K) j x = true) := hw
          rw [if_neg hw'] at hx'
          subst hx'
          exact List.mem_append_left _ ((ext_wakePutter q).ready _ (hs.ready j x hx hsch))

theorem shell_stepConsumer (q : Q) (c : Nat) (hi : q.k.Inv) (hs : q.Shell) : (q.stepConsumer c).Shell := by
  unfold stepConsumer
  split
  · rename_i kc a hk ha
    split
    · exact hs
    · simp only
      split
      · refine Ext.shell (Ext.trans ?_ (ext_startConsumer _ _ _)) hs
        exact ext_modA _ _ _
      · refine Ext.shell (Ext.trans ?_ (ext_wakeWaiting _ _ _)) hs
        exact ext_modA _ _ _
      · rename_i item hp
        have hpos := hi.pos_of_inBlock c kc hk (by simp [hp, isInBlock])
        unfold leaveBlock
        simp only
        split
        · refine shell_exitBlock _ c _ hpos (Ext.shell ?_ hs)
          refine Ext.trans ?_ (ext_logEv _ _ (by simp))
          refine Ext.trans ?_ (ext_modA _ _ _)
          exact ext_modA _ _ _
        · split
          · refine shell_exitBlock _ c _ hpos (Ext.shell ?_ hs)
            refine Ext.trans ?_ (ext_modA _ _ _)
            exact ext_modA _ _ _
          · refine shell_exitBlock _ c _ hpos (Ext.shell ?_ hs)
            refine Ext.trans ?_ (ext_modA _ _ _)
            exact ext_modA _ _ _
      · exact (ext_modA _ _ _).shell hs
  · exact hs

theorem shell_join (q : Q) (hs : q.Shell) : q.join.Shell := by
  constructor
  · exact hs.noVE
  · intro j x hx hsch
    simp only [join, K.join, List.getElem?_append] at hx
    simp only [join, List.mem_append, List.mem_singleton]
    split at hx
    · exact .inl (hs.ready j x hx hsch)
    · rename_i hl
      have : j - q.k.joiners.length = 0 := by
        cases hj : j - q.k.joiners.length with
        | zero => rfl
        | succ m => simp [hj] at hx
      right; congr 1; omega

/-- running joiner `j0`'s handle (which has just been taken off the ready queue at index `n`) -/
theorem shell_stepJoiner (q : Q) (n j0 : Nat) (hr : q.ready[n]? = some (.joiner j0)) (hs : q.Shell) :
    (({ q with ready := q.ready.eraseIdx n } : Q).stepJoiner j0).Shell := by
  constructor
  · intro h
    simp only [stepJoiner, List.mem_append] at h
    rcases h with h | h
    · exact hs.noVE h
    · split at h <;> simp at h
  · intro j x' hx' hsch
    simp only [stepJoiner] at hx' ⊢
    by_cases hj : j = j0
    · subst hj
      exfalso
      revert hx'
      unfold K.stepJoiner
      split
      · rename_i hnone; intro hx'; rw [hnone] at hx'; cases hx'
      · rename_i x hx
        split
        · rename_i hns; intro hx'; rw [hx] at hx'; cases hx'; simp [hsch] at hns
        · unfold K.joinStart K.joinWake K.modJ
          repeat' split
          all_goals
            intro hx'
            simp only [List.getElem?_modify, hx, Option.map_eq_map, Option.map_some, if_true, Option.some.injEq] at hx'
            subst hx'
            simp at hsch
    · have hsame : (q.k.stepJoiner j0).joiners[j]? = q.k.joiners[j]? := by
        unfold K.stepJoiner K.joinStart K.joinWake K.modJ
        repeat' split
        all_goals simp [Ne.symm hj]
      rw [hsame] at hx'
      exact mem_eraseIdx_of_ne _ n _ _ hr (by simp [hj]) (hs.ready j x' hx' hsch)

theorem shell_step (q : Q) (i : Input) (hi : q.k.Inv) (hs : q.Shell) : (q.step i).Shell := by
  cases i with
  | put x => exact (ext_put q x).shell hs
  | spawn => exact (ext_spawn q).shell hs
  | join => exact shell_join q hs
  | cancel c => exact (ext_cancelConsumer q c).shell hs
  | gate c e => exact (ext_gate q c e).shell hs
  | take => exact shell_handTake q hi hs
  | produce x => exact (ext_produce q x).shell hs
  | cancelp j => exact (ext_cancelProducer q j).shell hs
  | run n =>
    simp only [step]
    split
    · exact hs
    · rename_i r hr
      cases r with
      | joiner j0 => exact shell_stepJoiner q n j0 hr hs
      | producer j0 =>
        refine (ext_stepProducer ({ q with ready := q.ready.eraseIdx n } : Q) j0).shell ⟨hs.noVE, fun j x hx hsch => ?_⟩
        exact mem_eraseIdx_of_ne _ n _ _ hr (by simp) (hs.ready j x hx hsch)
      | consumer c =>
        refine shell_stepConsumer ({ q with ready := q.ready.eraseIdx n } : Q) c hi ⟨hs.noVE, fun j x hx hsch => ?_⟩
        exact mem_eraseIdx_of_ne _ n _ _ hr (by simp) (hs.ready j x hx hsch)

theorem shell_initN (n : Nat) : (Q.initN n).Shell := ⟨by simp [Q.initN], by simp [Q.initN, K.initN]⟩

theorem shell_run (q : Q) (ins : List Input) (hi : q.k.Inv) (hs : q.Shell) : (q.run ins).Shell := by
  induction ins generalizing q with
  | nil => exact hs
  | cons i is ih => exact ih _ (inv_step q i hi) (shell_step q i hi hs)

theorem shell_reach (n : Nat) (ins : List Input) : ((Q.initN n).run ins).Shell :=
  shell_run _ _ (K.inv_initN n) (shell_initN n)

end Q
end Taskpool.QueueM
