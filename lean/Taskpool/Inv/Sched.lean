import Taskpool.Model.World
/-! **Whoever is flagged as scheduled has a handle.**  Every entity of the pool machine that the event loop can wake
(pool task, spawner, background call) carries a flag `sched`.  This file defines the relation `Sch p q` between the
state before and after a piece of a step — handles are only ever *added* to the pool's out-queue `emit`, and an entity
flagged in `q` was flagged in `p` or got a handle in between — and proves its leaves.  `Inv/SchedWalk.lean` walks every
step function once; `Inv/SchedWorld.lean` lifts it to the ready queue of the loop. -/
namespace Taskpool
namespace Pool

/-- handles for `r` queued by the pool during the current step -/
def cnt (p : Pool) (r : Ref) : Nat := p.emit.count r

/-- the scheduling flag of the entity a handle refers to (a gather callback has none) -/
def flag (p : Pool) : Ref → Bool
  | .task t => match p.tasks[t]? with | some k => k.sched | none => false
  | .spawner m => match p.reqs[m]? with | some r => r.sched | none => false
  | .api a => match p.apis[a]? with | some x => x.sched | none => false
  | .gchild _ _ => false

/-- `q` comes after `p` within one step of the machine -/
structure Sch (p q : Pool) : Prop where
  em : ∀ r, p.cnt r ≤ q.cnt r
  fl : ∀ r, q.flag r = true → p.flag r = true ∨ p.cnt r < q.cnt r

theorem Sch.refl (p : Pool) : Sch p p := ⟨fun _ => Nat.le_refl _, fun _ h => Or.inl h⟩

theorem Sch.trans {p q s : Pool} (h1 : Sch p q) (h2 : Sch q s) : Sch p s := by
  refine ⟨fun r => Nat.le_trans (h1.em r) (h2.em r), ?_⟩
  intro r h
  rcases h2.fl r h with a | a
  · rcases h1.fl r a with b | b
    · exact Or.inl b
    · exact Or.inr (Nat.lt_of_lt_of_le b (h2.em r))
  · exact Or.inr (Nat.lt_of_le_of_lt (h1.em r) a)

/-- nothing the relation reads has changed -/
theorem sch_of_eq {p q : Pool} (he : q.emit = p.emit) (ht : q.tasks = p.tasks) (hr : q.reqs = p.reqs)
    (ha : q.apis = p.apis) : Sch p q := by
  refine ⟨fun r => by simp [cnt, he], ?_⟩
  intro r h
  left
  cases r <;> simpa [flag, ht, hr, ha] using h

/-- flags may be cleared and handles added freely -/
theorem sch_of_le {p q : Pool} (he : ∀ r, p.cnt r ≤ q.cnt r) (hf : ∀ r, q.flag r = true → p.flag r = true) : Sch p q :=
  ⟨he, fun r h => Or.inl (hf r h)⟩

@[simp] theorem cnt_emitRef (p : Pool) (x r : Ref) : (p.emitRef x).cnt r = p.cnt r + (if x = r then 1 else 0) := by
  simp only [cnt, emitRef, List.count_append, List.count_cons, List.count_nil, Nat.zero_add]
  by_cases h : x = r <;> simp [h]

@[simp] theorem flag_emitRef (p : Pool) (x r : Ref) : (p.emitRef x).flag r = p.flag r := by
  cases r <;> rfl

theorem sch_emitRef (p : Pool) (x : Ref) : Sch p (p.emitRef x) :=
  sch_of_le (fun r => by simp) (fun r h => by simpa using h)

theorem sch_logEv (p : Pool) (e : Ev) : Sch p (p.logEv e) := sch_of_eq rfl rfl rfl rfl
theorem sch_modGather (p : Pool) (g : Nat) (f : Gather → Gather) : Sch p (p.modGather g f) := sch_of_eq rfl rfl rfl rfl

theorem flag_modTask (p : Pool) (t : Nat) (f : PTask → PTask) (r : Ref) :
    (p.modTask t f).flag r = (match r with
      | .task i => (match p.tasks[i]? with | some k => if t = i then (f k).sched else k.sched | none => false)
      | _ => p.flag r) := by
  cases r with
  | task i =>
    simp only [flag, modTask, List.getElem?_modify]
    cases p.tasks[i]? with
    | none => simp
    | some k => by_cases e : t = i <;> simp [e]
  | _ => rfl

theorem flag_modReq (p : Pool) (m : Nat) (f : Req → Req) (r : Ref) :
    (p.modReq m f).flag r = (match r with
      | .spawner i => (match p.reqs[i]? with | some k => if m = i then (f k).sched else k.sched | none => false)
      | _ => p.flag r) := by
  cases r with
  | spawner i =>
    simp only [flag, modReq, List.getElem?_modify]
    cases p.reqs[i]? with
    | none => simp
    | some k => by_cases e : m = i <;> simp [e]
  | _ => rfl

theorem flag_modApi (p : Pool) (a : Nat) (f : Api → Api) (r : Ref) :
    (p.modApi a f).flag r = (match r with
      | .api i => (match p.apis[i]? with | some k => if a = i then (f k).sched else k.sched | none => false)
      | _ => p.flag r) := by
  cases r with
  | api i =>
    simp only [flag, modApi, List.getElem?_modify]
    cases p.apis[i]? with
    | none => simp
    | some k => by_cases e : a = i <;> simp [e]
  | _ => rfl

/-- a change to one task record that does not set its flag -/
theorem sch_modTask (p : Pool) (t : Nat) (f : PTask → PTask) (hf : ∀ k, (f k).sched = true → k.sched = true) :
    Sch p (p.modTask t f) := by
  refine sch_of_le (fun r => Nat.le_refl _) ?_
  intro r h
  rw [flag_modTask] at h
  cases r with
  | task i =>
    simp only [flag] at h ⊢
    cases hk : p.tasks[i]? with
    | none => simp [hk] at h
    | some k =>
      simp only [hk] at h ⊢
      by_cases e : t = i
      · simp only [e, if_true] at h; exact hf k h
      · simpa [e] using h
  | _ => exact h

theorem sch_modReq (p : Pool) (m : Nat) (f : Req → Req) (hf : ∀ k, (f k).sched = true → k.sched = true) :
    Sch p (p.modReq m f) := by
  refine sch_of_le (fun r => Nat.le_refl _) ?_
  intro r h
  rw [flag_modReq] at h
  cases r with
  | spawner i =>
    simp only [flag] at h ⊢
    cases hk : p.reqs[i]? with
    | none => simp [hk] at h
    | some k =>
      simp only [hk] at h ⊢
      by_cases e : m = i
      · simp only [e, if_true] at h; exact hf k h
      · simpa [e] using h
  | _ => exact h

theorem sch_modApi (p : Pool) (a : Nat) (f : Api → Api) (hf : ∀ k, (f k).sched = true → k.sched = true) :
    Sch p (p.modApi a f) := by
  refine sch_of_le (fun r => Nat.le_refl _) ?_
  intro r h
  rw [flag_modApi] at h
  cases r with
  | api i =>
    simp only [flag] at h ⊢
    cases hk : p.apis[i]? with
    | none => simp [hk] at h
    | some k =>
      simp only [hk] at h ⊢
      by_cases e : a = i
      · simp only [e, if_true] at h; exact hf k h
      · simpa [e] using h
  | _ => exact h

/-- setting a flag together with queueing the handle -/
theorem sch_schedTask (p : Pool) (t : Nat) : Sch p (p.schedTask t) := by
  unfold schedTask
  refine ⟨fun r => by simp [cnt, modTask, emitRef, List.count_append], ?_⟩
  intro r h
  rw [flag_emitRef, flag_modTask] at h
  cases r with
  | task i =>
    by_cases e : t = i
    · right; subst e; simp [cnt, modTask, emitRef, List.count_append]
    · left
      simp only [flag] at h ⊢
      cases hk : p.tasks[i]? with
      | none => simp [hk] at h
      | some k => simpa [hk, e] using h
  | _ => exact Or.inl h

theorem sch_schedMeta (p : Pool) (m : Nat) : Sch p (p.schedMeta m) := by
  unfold schedMeta
  refine ⟨fun r => by simp [cnt, modReq, emitRef, List.count_append], ?_⟩
  intro r h
  rw [flag_emitRef, flag_modReq] at h
  cases r with
  | spawner i =>
    by_cases e : m = i
    · right; subst e; simp [cnt, modReq, emitRef, List.count_append]
    · left
      simp only [flag] at h ⊢
      cases hk : p.reqs[i]? with
      | none => simp [hk] at h
      | some k => simpa [hk, e] using h
  | _ => exact Or.inl h

theorem sch_schedApi (p : Pool) (a : Nat) : Sch p (p.schedApi a) := by
  unfold schedApi
  refine ⟨fun r => by simp [cnt, modApi, emitRef, List.count_append], ?_⟩
  intro r h
  rw [flag_emitRef, flag_modApi] at h
  cases r with
  | api i =>
    by_cases e : a = i
    · right; subst e; simp [cnt, modApi, emitRef, List.count_append]
    · left
      simp only [flag] at h ⊢
      cases hk : p.apis[i]? with
      | none => simp [hk] at h
      | some k => simpa [hk, e] using h
  | _ => exact Or.inl h

theorem sch_schedOpt (p : Pool) (o : Option Nat) : Sch p (p.schedOpt o) := by
  cases o with
  | none => exact Sch.refl p
  | some m => exact sch_schedMeta p m

theorem sch_foldl {α} (f : Pool → α → Pool) (h : ∀ p a, Sch p (f p a)) (l : List α) (p : Pool) : Sch p (l.foldl f p) := by
  induction l generalizing p with
  | nil => exact Sch.refl p
  | cons a as ih => exact (h p a).trans (ih (f p a))

/-- a new task / request / background call whose handle is queued at once -/
theorem sch_append_task (p q : Pool) (k : PTask) (he : q.emit = p.emit ++ [.task p.tasks.length]) (ht : q.tasks = p.tasks ++ [k])
    (hr : q.reqs = p.reqs) (ha : q.apis = p.apis) : Sch p q := by
  refine ⟨fun r => by simp [cnt, he, List.count_append], ?_⟩
  intro r h
  cases r with
  | task i =>
    by_cases e : i < p.tasks.length
    · left; simpa [flag, ht, List.getElem?_append_left e] using h
    · by_cases e2 : i = p.tasks.length
      · right; subst e2; simp [cnt, he, List.count_append]
      · have : ¬ i < (p.tasks ++ [k]).length := by simp; omega
        simp [flag, ht, List.getElem?_eq_none (Nat.le_of_not_lt this)] at h
  | spawner i => left; simpa [flag, hr] using h
  | api i => left; simpa [flag, ha] using h
  | gchild g i => simp [flag] at h

theorem sch_append_req (p q : Pool) (k : Req) (he : q.emit = p.emit ++ [.spawner p.reqs.length]) (ht : q.tasks = p.tasks)
    (hr : q.reqs = p.reqs ++ [k]) (ha : q.apis = p.apis) : Sch p q := by
  refine ⟨fun r => by simp [cnt, he, List.count_append], ?_⟩
  intro r h
  cases r with
  | spawner i =>
    by_cases e : i < p.reqs.length
    · left; simpa [flag, hr, List.getElem?_append_left e] using h
    · by_cases e2 : i = p.reqs.length
      · right; subst e2; simp [cnt, he, List.count_append]
      · have : ¬ i < (p.reqs ++ [k]).length := by simp; omega
        simp [flag, hr, List.getElem?_eq_none (Nat.le_of_not_lt this)] at h
  | task i => left; simpa [flag, ht] using h
  | api i => left; simpa [flag, ha] using h
  | gchild g i => simp [flag] at h

theorem sch_append_api (p q : Pool) (k : Api) (he : q.emit = p.emit ++ [.api p.apis.length]) (ht : q.tasks = p.tasks)
    (hr : q.reqs = p.reqs) (ha : q.apis = p.apis ++ [k]) : Sch p q := by
  refine ⟨fun r => by simp [cnt, he, List.count_append], ?_⟩
  intro r h
  cases r with
  | api i =>
    by_cases e : i < p.apis.length
    · left; simpa [flag, ha, List.getElem?_append_left e] using h
    · by_cases e2 : i = p.apis.length
      · right; subst e2; simp [cnt, he, List.count_append]
      · have : ¬ i < (p.apis ++ [k]).length := by simp; omega
        simp [flag, ha, List.getElem?_eq_none (Nat.le_of_not_lt this)] at h
  | task i => left; simpa [flag, ht] using h
  | spawner i => left; simpa [flag, hr] using h
  | gchild g i => simp [flag] at h

/-- every request rewritten by a function that does not set the flag -/
theorem sch_mapReqs (p q : Pool) (f : Req → Req) (hf : ∀ r, (f r).sched = r.sched) (he : q.emit = p.emit)
    (ht : q.tasks = p.tasks) (hr : q.reqs = p.reqs.map f) (ha : q.apis = p.apis) : Sch p q := by
  refine sch_of_le (fun r => by simp [cnt, he]) ?_
  intro r h
  cases r with
  | spawner i =>
    simp only [flag, hr, List.getElem?_map] at h ⊢
    cases hk : p.reqs[i]? with
    | none => simp [hk] at h
    | some k => simpa [hk, hf] using h
  | task i => simpa [flag, ht] using h
  | api i => simpa [flag, ha] using h
  | gchild g i => simp [flag] at h

end Pool
end Taskpool
