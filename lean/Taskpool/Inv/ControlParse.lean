import Taskpool.Inv.Control
/-! Assembly of the round trip: `parseCmd` on a written command line. -/
namespace Taskpool.Control

theorem canonicalPos_of_split : ∀ (singles starL : List Param), (∀ p ∈ singles, p.kind = .positional) →
    (starL = [] ∨ ∃ sp, starL = [sp] ∧ sp.kind = .varPositional) → canonicalPos (singles ++ starL) = true
  | [], starL, _, hs => by
    rcases hs with rfl | ⟨sp, rfl, hk⟩
    · rfl
    · simp [canonicalPos, hk]
  | p :: singles, starL, h, hs => by
    have hp : p.kind = .positional := h p (by simp)
    have ih := canonicalPos_of_split singles starL (fun q hq => h q (List.mem_cons_of_mem _ hq)) hs
    simp [canonicalPos, hp, ih]

theorem startsRun_render (c : Choice) (r : List Tok) : startsRun (c.render ++ r) = false := by
  by_cases hk : c.p.kind = .flag <;> cases hs : c.short <;> cases hg : c.glued <;> cases he : c.eq <;>
    simp [Choice.render, Choice.tok, hk, hs, hg, he, startsRun]

theorem startsRun_renderItem (it : Item) (r : List Tok) : startsRun (it.render ++ r) = false := by
  cases it with
  | one c => exact startsRun_render c r
  | cluster f jf fs c => simp [Item.render, startsRun]

theorem startsRun_renderItems (l : List Item) (r : List Tok) (hr : startsRun r = false) :
    startsRun (renderItems l ++ r) = false := by
  cases l with
  | nil => simpa [renderItems] using hr
  | cons it l =>
    simp only [renderItems, List.flatMap_cons, List.append_assoc]
    exact startsRun_renderItem it _

theorem render_ne_nil (c : Choice) : c.render ≠ [] := by
  by_cases hk : c.p.kind = .flag <;> cases hs : c.short <;> cases hg : c.glued <;> cases he : c.eq <;>
    simp [Choice.render, hk, hs, hg, he]

theorem renderItem_ne_nil (it : Item) : it.render ≠ [] := by
  cases it with
  | one c => exact render_ne_nil c
  | cluster f jf fs c => simp [Item.render]

/-- neither an ambiguous abbreviation, nor outside the token alphabet, nor the separator -/
def Tok.plain (tbl : List OptSpec) (t : Tok) : Prop := ambiguousTok tbl t = false ∧ Tok.isOther t = false ∧ t ≠ .sep

/-- what a choice writes is neither an ambiguous abbreviation nor outside the token alphabet -/
theorem choice_toks_fine {ps : List Param} (hok : paramsOk ps = true) {c : Choice} (hc : c.ok ps) :
    ∀ t ∈ c.render, Tok.plain (optTable ps) t := by
  obtain ⟨hne, g, hres⟩ := resolve_choice hok hc
  have hl : Tok.plain (optTable ps) (.long c.longName) := by
    refine ⟨by simp [ambiguousTok, hres, Resolved.isAmbiguous], ?_, by simp⟩
    cases hn : c.longName with
    | nil => exact absurd hn hne
    | cons a l => rfl
  have he : Tok.plain (optTable ps) (.eq c.longName c.w) :=
    ⟨by simp [ambiguousTok, hres, Resolved.isAmbiguous], rfl, by simp⟩
  intro t ht
  by_cases hk : c.p.kind = .flag <;> cases hs : c.short <;> cases hg : c.glued <;> cases hq : c.eq <;>
    simp only [Choice.render, Choice.tok, hk, hs, hg, hq, if_true, if_false, Bool.false_eq_true, List.mem_cons,
      List.not_mem_nil, or_false] at ht
  all_goals (first | (rcases ht with rfl | rfl) | subst ht)
  all_goals first | exact hl | exact he | exact ⟨rfl, rfl, by simp⟩

theorem item_toks_fine {ps : List Param} (hok : paramsOk ps = true) {it : Item} (hit : it.ok ps) :
    ∀ t ∈ it.render, Tok.plain (optTable ps) t := by
  cases it with
  | one c => exact choice_toks_fine hok hit
  | cluster f jf fs c =>
    intro t ht
    simp only [Item.render, List.mem_cons] at ht
    rcases ht with rfl | ht
    · exact ⟨rfl, rfl, by simp⟩
    · split at ht
      · simp at ht
      · simp at ht; subst ht; exact ⟨rfl, rfl, by simp⟩

theorem plain_renderItems {ps : List Param} (hok : paramsOk ps = true) {l : List Item}
    (h : ∀ it ∈ l, it.ok ps) : ∀ t ∈ renderItems l, Tok.plain (optTable ps) t := by
  intro t ht
  simp only [renderItems, List.mem_flatMap] at ht
  obtain ⟨it, hit, htc⟩ := ht
  exact item_toks_fine hok (h it hit) t htc

theorem plain_renderPos (tbl : List OptSpec) (xs : List PosArg) : ∀ t ∈ renderPos xs, Tok.plain tbl t := by
  intro t ht
  simp only [renderPos, List.mem_map] at ht
  obtain ⟨x, _, rfl⟩ := ht
  exact ⟨rfl, rfl, by simp⟩

theorem isWord_renderPos (xs : List PosArg) : ∀ t ∈ renderPos xs, Tok.isWord t = true := by
  intro t ht
  simp only [renderPos, List.mem_map] at ht
  obtain ⟨x, _, rfl⟩ := ht
  rfl

/-! ### the separator -/

theorem sepOk_append_noSep : ∀ (l r : List Tok), (∀ t ∈ l, t ≠ .sep) → sepOk (l ++ r) = sepOk r
  | [], _, _ => rfl
  | t :: l, r, h => by
    have ih := sepOk_append_noSep l r (fun x hx => h x (List.mem_cons_of_mem _ hx))
    have ht := h t (by simp)
    cases t <;> simp_all [sepOk]

theorem sepOk_words : ∀ (l : List Tok), (∀ t ∈ l, Tok.isWord t = true) → sepOk l = true
  | [], _ => rfl
  | t :: l, h => by
    have ih := sepOk_words l (fun x hx => h x (List.mem_cons_of_mem _ hx))
    have ht := h t (by simp)
    cases t <;> simp_all [sepOk, Tok.isWord]

theorem sepOk_of_plain {tbl : List OptSpec} {l : List Tok} (h : ∀ t ∈ l, Tok.plain tbl t) : sepOk l = true := by
  have := sepOk_append_noSep l [] (fun t ht => (h t ht).2.2)
  simpa [sepOk] using this

/-- a separator inside a run of positional strings changes nothing -/
theorem bindWords_skip_sep : ∀ (w1 : List Tok), (∀ t ∈ w1, Tok.isWord t = true) → ∀ (w2 : List Tok) (st : PState),
    bindWords (w1 ++ .sep :: w2) st = bindWords (w1 ++ w2) st
  | [], _, w2, st => by simp [bindWords]
  | t :: w1, h, w2, st => by
    have ih := bindWords_skip_sep w1 (fun x hx => h x (List.mem_cons_of_mem _ hx)) w2
    have ht := h t (by simp)
    cases t with
    | word w =>
      simp only [List.cons_append, bindWords]
      split
      · exact ih _
      · split
        · rfl
        · split <;> exact ih _
    | _ => simp [Tok.isWord] at ht

theorem sepLeads_of_not_sep {r : List Tok} (st : PState) (h : ∀ r', r ≠ .sep :: r') : sepLeads r st = st := by
  cases r with
  | nil => rfl
  | cons t r => cases t <;> first | rfl | exact absurd rfl (h r)

/-- the positional run of a written command line is bound completely -/
theorem bindWords_all {singles starL : List Param} (hsing : ∀ p ∈ singles, p.kind = .positional)
    (hstar : starL = [] ∨ ∃ sp, starL = [sp] ∧ sp.kind = .varPositional)
    {pargs sargs : List PosArg} (hp : posOk singles pargs) (hs : ∀ x ∈ sargs, ∃ sp ∈ starL, x.ok sp)
    (r : List Tok) (hr : startsRun r = false) (st : PState) (hst : st.posLeft = singles ++ starL)
    (hb : st.bound = []) (hst' : st.star = []) :
    bindWords (renderPos pargs ++ (renderPos sargs ++ r)) st
      = .cont { st with posLeft := starL, bound := (singles.zip pargs).map (fun x => (x.1.name, .one x.2.a)),
                        star := sargs.map (·.a) } r := by
  rw [bindWords_singles hp (fun p hp' => by simp [hsing p hp']) starL _ st hst]
  rcases hstar with rfl | ⟨sp, rfl, hk⟩
  · have : sargs = [] := by
      cases sargs with
      | nil => rfl
      | cons x xs => obtain ⟨sp, hsp, _⟩ := hs x (by simp); simp at hsp
    subst this
    simp only [renderPos, List.map_nil, List.nil_append]
    rw [bindWords_stop _ hr]
    simp [hb, hst']
  · have hs' : ∀ x ∈ sargs, x.ok sp := by
      intro x hx
      obtain ⟨sp', hsp', hok⟩ := hs x hx
      simp at hsp'
      exact hsp' ▸ hok
    rw [bindWords_star hk sargs hs' r _ rfl, bindWords_stop _ hr]
    simp [hb, hst']

theorem renderItems_one (cs : List Choice) : renderItems (cs.map Item.one) = renderOpts cs := by
  induction cs with
  | nil => rfl
  | cons c cs ih =>
    simp only [renderItems, renderOpts, List.map_cons, List.flatMap_cons, Item.render] at ih ⊢
    rw [ih]

theorem itemChoices_one (cs : List Choice) : itemChoices (cs.map Item.one) = cs := by
  induction cs with
  | nil => rfl
  | cons c cs ih =>
    simp only [itemChoices, List.map_cons, List.flatMap_cons, Item.choices] at ih ⊢
    rw [ih]; rfl

/-- the round trip for items (options on their own and clusters), before and behind the positional strings -/
theorem parseCmd_roundtrip_items {m : Member} (hfun : m.kind = .function) (hok : paramsOk m.params = true)
    {singles starL : List Param} (hpos : m.params.filter Param.isPos = singles ++ starL)
    (hsing : ∀ p ∈ singles, p.kind = .positional)
    (hstar : starL = [] ∨ ∃ sp, starL = [sp] ∧ sp.kind = .varPositional)
    {pargs sargs : List PosArg} (hp : posOk singles pargs) (hs : ∀ x ∈ sargs, ∃ sp ∈ starL, x.ok sp)
    {pre post : List Item} (hpre : ∀ c ∈ pre, c.ok m.params) (hpost : ∀ c ∈ post, c.ok m.params) :
    parseCmd (toCmd m) (renderItems pre ++ (renderPos pargs ++ (renderPos sargs ++ renderItems post)))
      = some (.act (.call m.name
          (m.params.map fun p => (p.name, argFor (finalState singles starL pargs sargs (itemChoices (pre ++ post))) p)))) := by
  have hplain : ∀ t ∈ renderItems pre ++ (renderPos pargs ++ (renderPos sargs ++ renderItems post)),
      Tok.plain (optTable m.params) t := by
    intro t ht
    simp only [List.mem_append] at ht
    rcases ht with h | h | h | h
    · exact plain_renderItems hok hpre t h
    · exact plain_renderPos _ _ t h
    · exact plain_renderPos _ _ t h
    · exact plain_renderItems hok hpost t h
  have hany : (renderItems pre ++ (renderPos pargs ++ (renderPos sargs ++ renderItems post))).any
      (ambiguousTok (optTable m.params)) = false := by
    rw [List.any_eq_false]
    intro t ht
    simp [(hplain t ht).1]
  have hsep : sepOk (renderItems pre ++ (renderPos pargs ++ (renderPos sargs ++ renderItems post))) = true :=
    sepOk_of_plain hplain
  have hfin : ∀ st : PState, st.posLeft = starL → st.extras = false →
      finish m st = some (.act (.call m.name (m.params.map fun p => (p.name, argFor st p)))) := by
    intro st h1 h2
    have : st.posLeft.any (fun p => p.kind == .positional) = false := by
      rw [h1]
      rcases hstar with rfl | ⟨sp, rfl, hk⟩ <;> simp [*]
    simp [finish, hfun, this, h2]
  have hpostW : startsRun (renderItems post ++ []) = false := startsRun_renderItems post [] rfl
  have hic : itemChoices (pre ++ post) = itemChoices pre ++ itemChoices post := by simp [itemChoices]
  simp only [parseCmd, toCmd, hany, hsep]
  rw [scanOpts_renderItems hok m.name pre hpre]
  cases hw : renderPos pargs ++ (renderPos sargs ++ renderItems post) with
  | nil =>
    -- no positional strings at all: nothing to bind, and no option was written after them
    have hpa : pargs = [] := by
      cases pargs with
      | nil => rfl
      | cons x xs => simp [renderPos] at hw
    have hsa : sargs = [] := by
      subst hpa
      cases sargs with
      | nil => rfl
      | cons x xs => simp [renderPos] at hw
    have hpo : renderItems post = [] := by subst hpa hsa; simpa [renderPos] using hw
    have hsi : singles = [] := by
      subst hpa
      cases singles with
      | nil => rfl
      | cons p ps => simp [posOk] at hp
    subst hpa hsa hsi
    have hpost' : post = [] := by
      cases post with
      | nil => rfl
      | cons c cs =>
        simp only [renderItems, List.flatMap_cons, List.append_eq_nil_iff] at hpo
        exact absurd hpo.1 (renderItem_ne_nil c)
    subst hpost'
    simp only [scanOpts, startsRun, Bool.false_and, bindWords, sepLeads, afterOpts, Bool.not_true]
    simp only [Bool.false_eq_true, if_false]
    rw [hfin _ (by simp [addOpts_eq, initState, hpos]) (by simp [addOpts_eq, initState])]
    simp [addOpts_eq, initState, finalState, hpos, argFor]
  | cons t ts =>
    rw [← hw]
    by_cases hnw : pargs = [] ∧ sargs = []
    · -- only options after the options: they are all consumed by the first scan
      obtain ⟨rfl, rfl⟩ := hnw
      have hsi : singles = [] := by
        cases singles with
        | nil => rfl
        | cons p ps => simp [posOk] at hp
      subst hsi
      have := scanOpts_renderItems hok m.name post hpost [] (addOpts (initState m) (itemChoices pre))
      simp only [renderPos, List.map_nil, List.nil_append, List.append_nil] at this ⊢
      rw [this]
      simp only [scanOpts, startsRun, Bool.false_and, bindWords, sepLeads, afterOpts, Bool.not_true]
      simp only [Bool.false_eq_true, if_false]
      rw [hfin _ (by simp [addOpts_eq, initState, hpos]) (by simp [addOpts_eq, initState])]
      simp [addOpts_eq, initState, finalState, hpos, optEntries, hic]
    · -- a positional run: first scan stops in front of it
      have hsw : startsWithWord (renderPos pargs ++ (renderPos sargs ++ renderItems post)) = true := by
        cases pargs with
        | cons x xs => simp [renderPos, startsWithWord]
        | nil =>
          cases sargs with
          | cons x xs => simp [renderPos, startsWithWord]
          | nil => simp at hnw
      have hstop : ∀ st, scanOpts m.name (optTable m.params)
          (renderPos pargs ++ (renderPos sargs ++ renderItems post)) st
            = .cont st (renderPos pargs ++ (renderPos sargs ++ renderItems post)) := by
        intro st
        rw [hw] at hsw ⊢
        cases t <;> simp_all [scanOpts, startsWithWord]
      have hrun : startsRun (renderPos pargs ++ (renderPos sargs ++ renderItems post)) = true := by
        rw [hw] at hsw ⊢
        cases t <;> simp_all [startsRun, startsWithWord]
      have hlead : ∀ st, sepLeads (renderPos pargs ++ (renderPos sargs ++ renderItems post)) st = st := by
        intro st
        rw [hw] at hsw ⊢
        cases t <;> simp_all [sepLeads, startsWithWord]
      rw [hstop]
      have hcanon := canonicalPos_of_split singles starL hsing hstar
      have hpl : (addOpts (initState m) (itemChoices pre)).posLeft = singles ++ starL := by simp [addOpts_eq, initState, hpos]
      simp only [hrun, hlead, hpl, hcanon, Bool.not_true, Bool.and_false, Bool.false_eq_true, if_false]
      have hb := bindWords_all hsing hstar hp hs (renderItems post ++ []) hpostW (addOpts (initState m) (itemChoices pre)) hpl
        (by simp [addOpts_eq, initState]) (by simp [addOpts_eq, initState])
      simp only [List.append_nil] at hb
      rw [hb]
      have := scanOpts_renderItems hok m.name post hpost []
      simp only [List.append_nil] at this
      simp only [this, scanOpts, afterOpts]
      rw [hfin _ (by simp [addOpts_eq]) (by simp [addOpts_eq, initState])]
      simp [addOpts_eq, initState, finalState, optEntries, hic]

theorem parseCmd_roundtrip {m : Member} (hfun : m.kind = .function) (hok : paramsOk m.params = true)
    {singles starL : List Param} (hpos : m.params.filter Param.isPos = singles ++ starL)
    (hsing : ∀ p ∈ singles, p.kind = .positional)
    (hstar : starL = [] ∨ ∃ sp, starL = [sp] ∧ sp.kind = .varPositional)
    {pargs sargs : List PosArg} (hp : posOk singles pargs) (hs : ∀ x ∈ sargs, ∃ sp ∈ starL, x.ok sp)
    {pre post : List Choice} (hpre : ∀ c ∈ pre, c.ok m.params) (hpost : ∀ c ∈ post, c.ok m.params) :
    parseCmd (toCmd m) (renderOpts pre ++ (renderPos pargs ++ (renderPos sargs ++ renderOpts post)))
      = some (.act (.call m.name
          (m.params.map fun p => (p.name, argFor (finalState singles starL pargs sargs (pre ++ post)) p)))) := by
  have h := parseCmd_roundtrip_items hfun hok hpos hsing hstar hp hs (pre := pre.map .one) (post := post.map .one)
    (by intro it hit; obtain ⟨c, hc, rfl⟩ := List.mem_map.mp hit; exact hpre c hc)
    (by intro it hit; obtain ⟨c, hc, rfl⟩ := List.mem_map.mp hit; exact hpost c hc)
  rw [← List.map_append, itemChoices_one, renderItems_one, renderItems_one] at h
  exact h

/-- the round trip with the separator `--` somewhere in or in front of the positional strings: it changes nothing (as
long as there is a positional parameter that takes it in) -/
theorem parseCmd_roundtrip_sep {m : Member} (hfun : m.kind = .function) (hok : paramsOk m.params = true)
    {singles starL : List Param} (hpos : m.params.filter Param.isPos = singles ++ starL)
    (hsing : ∀ p ∈ singles, p.kind = .positional)
    (hstar : starL = [] ∨ ∃ sp, starL = [sp] ∧ sp.kind = .varPositional)
    {pargs sargs : List PosArg} (hp : posOk singles pargs) (hs : ∀ x ∈ sargs, ∃ sp ∈ starL, x.ok sp)
    {pre : List Item} (hpre : ∀ c ∈ pre, c.ok m.params)
    (w1 w2 : List Tok) (hsplit : w1 ++ w2 = renderPos pargs ++ renderPos sargs)
    (htake : w1 ≠ [] ∨ singles ++ starL ≠ []) :
    parseCmd (toCmd m) (renderItems pre ++ (w1 ++ .sep :: w2))
      = some (.act (.call m.name
          (m.params.map fun p => (p.name, argFor (finalState singles starL pargs sargs (itemChoices pre)) p)))) := by
  have hwords : ∀ t ∈ w1 ++ w2, Tok.isWord t = true := by
    intro t ht
    rw [hsplit] at ht
    rcases List.mem_append.mp ht with h | h <;> exact isWord_renderPos _ t h
  have hw1 : ∀ t ∈ w1, Tok.isWord t = true := fun t ht => hwords t (List.mem_append_left _ ht)
  have hw2 : ∀ t ∈ w2, Tok.isWord t = true := fun t ht => hwords t (List.mem_append_right _ ht)
  have hnoamb : ∀ t, Tok.isWord t = true → ambiguousTok (optTable m.params) t = false := by
    intro t ht; cases t <;> simp_all [Tok.isWord, ambiguousTok]
  have hany : (renderItems pre ++ (w1 ++ .sep :: w2)).any (ambiguousTok (optTable m.params)) = false := by
    rw [List.any_eq_false]
    intro t ht
    simp only [List.mem_append, List.mem_cons] at ht
    have : ambiguousTok (optTable m.params) t = false := by
      rcases ht with h | h | rfl | h
      · exact (plain_renderItems hok hpre t h).1
      · exact hnoamb t (hw1 t h)
      · rfl
      · exact hnoamb t (hw2 t h)
    simp [this]
  have hsep : sepOk (renderItems pre ++ (w1 ++ .sep :: w2)) = true := by
    rw [sepOk_append_noSep _ _ (fun t ht => (plain_renderItems hok hpre t ht).2.2),
      sepOk_append_noSep _ _ (fun t ht hs => by subst hs; simpa [Tok.isWord] using hw1 _ ht)]
    simpa [sepOk, List.all_eq_true] using hw2
  have hfin : ∀ st : PState, st.posLeft = starL → st.extras = false →
      finish m st = some (.act (.call m.name (m.params.map fun p => (p.name, argFor st p)))) := by
    intro st h1 h2
    have : st.posLeft.any (fun p => p.kind == .positional) = false := by
      rw [h1]
      rcases hstar with rfl | ⟨sp, rfl, hk⟩ <;> simp [*]
    simp [finish, hfun, this, h2]
  simp only [parseCmd, toCmd, hany, hsep]
  rw [scanOpts_renderItems hok m.name pre hpre]
  have hpl : (addOpts (initState m) (itemChoices pre)).posLeft = singles ++ starL := by simp [addOpts_eq, initState, hpos]
  have hstop : ∀ st, scanOpts m.name (optTable m.params) (w1 ++ .sep :: w2) st = .cont st (w1 ++ .sep :: w2) := by
    intro st
    cases w1 with
    | nil => simp [scanOpts]
    | cons t ts =>
      have := hw1 t (by simp)
      cases t <;> simp_all [scanOpts, Tok.isWord]
  have hrun : startsRun (w1 ++ .sep :: w2) = true := by
    cases w1 with
    | nil => simp [startsRun]
    | cons t ts =>
      have := hw1 t (by simp)
      cases t <;> simp_all [startsRun, Tok.isWord]
  have hlead : sepLeads (w1 ++ .sep :: w2) (addOpts (initState m) (itemChoices pre)) = addOpts (initState m) (itemChoices pre) := by
    cases w1 with
    | nil =>
      have hne : singles ++ starL ≠ [] := by
        rcases htake with h | h
        · exact absurd rfl h
        · exact h
      simp [sepLeads, hpl, hne]
    | cons t ts =>
      have := hw1 t (by simp)
      cases t <;> simp_all [sepLeads, Tok.isWord]
  rw [hstop]
  have hcanon := canonicalPos_of_split singles starL hsing hstar
  simp only [hrun, hlead, hpl, hcanon, Bool.not_true, Bool.and_false, Bool.false_eq_true, if_false]
  rw [bindWords_skip_sep w1 hw1, hsplit]
  have hb := bindWords_all hsing hstar hp hs [] rfl (addOpts (initState m) (itemChoices pre)) hpl
    (by simp [addOpts_eq, initState]) (by simp [addOpts_eq, initState])
  simp only [List.append_nil] at hb
  rw [hb]
  simp only [scanOpts, afterOpts]
  rw [hfin _ (by simp [addOpts_eq]) (by simp [addOpts_eq, initState])]
  simp [addOpts_eq, initState, finalState, optEntries]


/-! ### reading the final namespace -/

theorem lookupArg_unique {l : List (Str × ArgVal)} (hn : (l.map (·.1)).Nodup) {n : Str} {v : ArgVal} (h : (n, v) ∈ l) :
    lookupArg l n = some v := by
  unfold lookupArg
  rw [find?_unique (o := (n, v)) h (by simp)]
  · rfl
  · intro x hx hq
    exact nodup_map_inj hn x hx (n, v) h (by simpa using hq)

theorem lookupArg_none {l : List (Str × ArgVal)} {n : Str} (h : ∀ a ∈ l, a.1 ≠ n) : lookupArg l n = none := by
  unfold lookupArg
  rw [List.find?_eq_none.mpr]
  · rfl
  · intro a ha
    simpa using h a ha

theorem optEntries_names (cs : List Choice) : (optEntries cs).map (·.1) = (cs.map (·.p.name)).reverse := by
  simp [optEntries, List.map_reverse, List.map_map, Function.comp_def]

theorem zip_bound_names : ∀ (singles : List Param) (pargs : List PosArg), posOk singles pargs →
    ((singles.zip pargs).map (fun x => ((x.1.name, ArgVal.one x.2.a) : Str × ArgVal))).map (·.1) = singles.map (·.name)
  | [], [], _ => rfl
  | [], _ :: _, h => by simp [posOk] at h
  | _ :: _, [], h => by simp [posOk] at h
  | p :: ps, x :: xs, h => by
    have ih := zip_bound_names ps xs h.2
    simp only [List.zip_cons_cons, List.map_cons, ih]

/-! ### dispatch -/

theorem dispatch_aligned (ps : List Param) (val : Param → ArgVal) :
    dispatch ps (ps.map fun p => (p.name, val p))
      = { pos := (ps.filter fun p => p.pass == .byPosition).map val,
          star := ((ps.filter fun p => p.pass == .byStar).map fun p => starOf (val p)).flatten,
          kw := (ps.filter fun p => p.pass == .byKeyword).map fun p => (p.name, val p) } := by
  have hz : ∀ l : List Param, l.zip (l.map fun p => (p.name, val p)) = l.map fun p => (p, (p.name, val p)) := by
    intro l
    induction l with
    | nil => rfl
    | cons a l ih => simp [ih]
  simp only [dispatch, hz, List.filter_map, List.map_map, Function.comp_def]

theorem pass_partition : ∀ (ps : List Param),
    (ps.filter fun p => p.pass == .byPosition).length + (ps.filter fun p => p.pass == .byStar).length
      + (ps.filter fun p => p.pass == .byKeyword).length = ps.length
  | [] => rfl
  | p :: ps => by
    have ih := pass_partition ps
    cases hp : p.pass <;> simp [hp] <;> omega

end Taskpool.Control
