import Taskpool.Inv.Control
/-! Assembly of the round trip: `parseCmd` on a written command line. -/
namespace Taskpool.Control

theorem canonicalPos_of_split : ∀ (singles starL : List Param), (∀ p ∈ singles, p.kind = .positional) →
    (starL = [] ∨ ∃ sp, starL = [sp] ∧ sp.kind = .varPositional) → canonicalPos (singles ++ starL) = true
  | [], starL, _, hs => by
    rcases hs with rfl | ⟨sp, rfl, hk⟩
    · rfl
    · simp [canonicalPos, hk]
  | p :: singles, starL, h, hs => by
    have hp : p.kind = .positional := h p (by simp)
    have ih := canonicalPos_of_split singles starL (fun q hq => h q (List.mem_cons_of_mem _ hq)) hs
    simp [canonicalPos, hp, ih]

theorem startsWithWord_renderOpts (cs : List Choice) (r : List Tok) (hr : startsWithWord r = false) :
    startsWithWord (renderOpts cs ++ r) = false := by
  cases cs with
  | nil => simpa [renderOpts] using hr
  | cons c cs =>
    simp only [renderOpts, List.flatMap_cons, Choice.render, Choice.tok]
    cases c.short <;> cases c.eq <;> split <;> simp [startsWithWord]

theorem render_ne_nil (c : Choice) : c.render ≠ [] := by
  simp only [Choice.render]
  cases c.short <;> cases c.eq <;> split <;> simp

/-- what a choice writes is neither an ambiguous abbreviation nor outside the token alphabet -/
theorem choice_toks_fine {ps : List Param} (hok : paramsOk ps = true) {c : Choice} (hc : c.ok ps) :
    ∀ t ∈ c.render, ambiguousTok (optTable ps) t = false ∧ Tok.isOther t = false := by
  obtain ⟨hne, g, hres⟩ := resolve_choice hok hc
  have hl : ambiguousTok (optTable ps) (.long c.longName) = false ∧ Tok.isOther (.long c.longName) = false := by
    refine ⟨by simp [ambiguousTok, hres, Resolved.isAmbiguous], ?_⟩
    cases hn : c.longName with
    | nil => exact absurd hn hne
    | cons a l => rfl
  have he : ambiguousTok (optTable ps) (.eq c.longName c.w) = false ∧ Tok.isOther (.eq c.longName c.w) = false :=
    ⟨by simp [ambiguousTok, hres, Resolved.isAmbiguous], rfl⟩
  intro t ht
  simp only [Choice.render, Choice.tok] at ht
  cases hs : c.short <;> cases hq : c.eq <;> simp only [hs, hq] at ht <;> split at ht <;> simp at ht
  all_goals (first | (rcases ht with rfl | rfl) | subst ht)
  all_goals first | exact hl | exact he | exact ⟨rfl, rfl⟩

theorem ambiguousTok_renderOpts {ps : List Param} (hok : paramsOk ps = true) {cs : List Choice}
    (h : ∀ c ∈ cs, c.ok ps) : ∀ t ∈ renderOpts cs, ambiguousTok (optTable ps) t = false ∧ Tok.isOther t = false := by
  intro t ht
  simp only [renderOpts, List.mem_flatMap] at ht
  obtain ⟨c, hc, htc⟩ := ht
  exact choice_toks_fine hok (h c hc) t htc

theorem ambiguousTok_renderPos (tbl : List OptSpec) (xs : List PosArg) :
    ∀ t ∈ renderPos xs, ambiguousTok tbl t = false ∧ Tok.isOther t = false := by
  intro t ht
  simp only [renderPos, List.mem_map] at ht
  obtain ⟨x, _, rfl⟩ := ht
  exact ⟨rfl, rfl⟩

/-- the positional run of a written command line is bound completely -/
theorem bindWords_all {singles starL : List Param} (hsing : ∀ p ∈ singles, p.kind = .positional)
    (hstar : starL = [] ∨ ∃ sp, starL = [sp] ∧ sp.kind = .varPositional)
    {pargs sargs : List PosArg} (hp : posOk singles pargs) (hs : ∀ x ∈ sargs, ∃ sp ∈ starL, x.ok sp)
    (r : List Tok) (hr : startsWithWord r = false) (st : PState) (hst : st.posLeft = singles ++ starL)
    (hb : st.bound = []) (hst' : st.star = []) :
    bindWords (renderPos pargs ++ (renderPos sargs ++ r)) st
      = .cont { st with posLeft := starL, bound := (singles.zip pargs).map (fun x => (x.1.name, .one x.2.a)),
                        star := sargs.map (·.a) } r := by
  rw [bindWords_singles hp (fun p hp' => by simp [hsing p hp']) starL _ st hst]
  rcases hstar with rfl | ⟨sp, rfl, hk⟩
  · have : sargs = [] := by
      cases sargs with
      | nil => rfl
      | cons x xs => obtain ⟨sp, hsp, _⟩ := hs x (by simp); simp at hsp
    subst this
    simp only [renderPos, List.map_nil, List.nil_append]
    rw [bindWords_stop _ hr]
    simp [hb, hst']
  · have hs' : ∀ x ∈ sargs, x.ok sp := by
      intro x hx
      obtain ⟨sp', hsp', hok⟩ := hs x hx
      simp at hsp'
      exact hsp' ▸ hok
    rw [bindWords_star hk sargs hs' r _ rfl, bindWords_stop _ hr]
    simp [hb, hst']

theorem parseCmd_roundtrip {m : Member} (hfun : m.kind = .function) (hok : paramsOk m.params = true)
    {singles starL : List Param} (hpos : m.params.filter Param.isPos = singles ++ starL)
    (hsing : ∀ p ∈ singles, p.kind = .positional)
    (hstar : starL = [] ∨ ∃ sp, starL = [sp] ∧ sp.kind = .varPositional)
    {pargs sargs : List PosArg} (hp : posOk singles pargs) (hs : ∀ x ∈ sargs, ∃ sp ∈ starL, x.ok sp)
    {pre post : List Choice} (hpre : ∀ c ∈ pre, c.ok m.params) (hpost : ∀ c ∈ post, c.ok m.params) :
    parseCmd (toCmd m) (renderOpts pre ++ (renderPos pargs ++ (renderPos sargs ++ renderOpts post)))
      = some (.act (.call m.name
          (m.params.map fun p => (p.name, argFor (finalState singles starL pargs sargs (pre ++ post)) p)))) := by
  have hany : (renderOpts pre ++ (renderPos pargs ++ (renderPos sargs ++ renderOpts post))).any
      (ambiguousTok (optTable m.params)) = false := by
    rw [List.any_eq_false]
    intro t ht
    simp only [List.mem_append] at ht
    have : ambiguousTok (optTable m.params) t = false := by
      rcases ht with h | h | h | h
      · exact (ambiguousTok_renderOpts hok hpre t h).1
      · exact (ambiguousTok_renderPos _ _ t h).1
      · exact (ambiguousTok_renderPos _ _ t h).1
      · exact (ambiguousTok_renderOpts hok hpost t h).1
    simp [this]
  have hfin : ∀ st : PState, st.posLeft = starL → st.extras = false →
      finish m st = some (.act (.call m.name (m.params.map fun p => (p.name, argFor st p)))) := by
    intro st h1 h2
    have : st.posLeft.any (fun p => p.kind == .positional) = false := by
      rw [h1]
      rcases hstar with rfl | ⟨sp, rfl, hk⟩ <;> simp [*]
    simp [finish, hfun, this, h2]
  have hpostW : startsWithWord (renderOpts post ++ []) = false := startsWithWord_renderOpts post [] rfl
  simp only [parseCmd, toCmd, hany]
  rw [scanOpts_render hok m.name pre hpre]
  cases hw : renderPos pargs ++ (renderPos sargs ++ renderOpts post) with
  | nil =>
    -- no positional strings at all: nothing to bind, and no option was written after them
    have hpa : pargs = [] := by
      cases pargs with
      | nil => rfl
      | cons x xs => simp [renderPos] at hw
    have hsa : sargs = [] := by
      subst hpa
      cases sargs with
      | nil => rfl
      | cons x xs => simp [renderPos] at hw
    have hpo : renderOpts post = [] := by subst hpa hsa; simpa [renderPos] using hw
    have hsi : singles = [] := by
      subst hpa
      cases singles with
      | nil => rfl
      | cons p ps => simp [posOk] at hp
    subst hpa hsa hsi
    have hpost' : post = [] := by
      cases post with
      | nil => rfl
      | cons c cs =>
        simp only [renderOpts, List.flatMap_cons, List.append_eq_nil_iff] at hpo
        exact absurd hpo.1 (render_ne_nil c)
    subst hpost'
    simp only [scanOpts, startsWithWord, Bool.false_and, bindWords, List.isEmpty_nil, if_true]
    simp only [Bool.false_eq_true, if_false]
    rw [hfin _ (by simp [addOpts_eq, initState, hpos]) (by simp [addOpts_eq, initState])]
    simp [addOpts_eq, initState, finalState, hpos, argFor]
  | cons t ts =>
    rw [← hw]
    by_cases hnw : pargs = [] ∧ sargs = []
    · -- only options after the options: they are all consumed by the first scan
      obtain ⟨rfl, rfl⟩ := hnw
      have hsi : singles = [] := by
        cases singles with
        | nil => rfl
        | cons p ps => simp [posOk] at hp
      subst hsi
      have := scanOpts_render hok m.name post hpost [] (addOpts (initState m) pre)
      simp only [renderPos, List.map_nil, List.nil_append, List.append_nil] at this ⊢
      rw [this]
      simp only [scanOpts, startsWithWord, Bool.false_and, bindWords, List.isEmpty_nil, if_true]
      simp only [Bool.false_eq_true, if_false]
      rw [hfin _ (by simp [addOpts_eq, initState, hpos]) (by simp [addOpts_eq, initState])]
      simp [addOpts_eq, initState, finalState, hpos, optEntries]
    · -- a positional run: first scan stops in front of it
      have hsw : startsWithWord (renderPos pargs ++ (renderPos sargs ++ renderOpts post)) = true := by
        cases pargs with
        | cons x xs => simp [renderPos, startsWithWord]
        | nil =>
          cases sargs with
          | cons x xs => simp [renderPos, startsWithWord]
          | nil => simp at hnw
      have hstop : ∀ st, scanOpts m.name (optTable m.params)
          (renderPos pargs ++ (renderPos sargs ++ renderOpts post)) st
            = .cont st (renderPos pargs ++ (renderPos sargs ++ renderOpts post)) := by
        intro st
        rw [hw] at hsw ⊢
        cases t <;> simp_all [scanOpts, startsWithWord]
      rw [hstop]
      have hcanon := canonicalPos_of_split singles starL hsing hstar
      have hpl : (addOpts (initState m) pre).posLeft = singles ++ starL := by simp [addOpts_eq, initState, hpos]
      simp only [hsw, hpl, hcanon, Bool.not_true, Bool.and_false, Bool.false_eq_true, if_false]
      have hb := bindWords_all hsing hstar hp hs (renderOpts post ++ []) hpostW (addOpts (initState m) pre) hpl
        (by simp [addOpts_eq, initState]) (by simp [addOpts_eq, initState])
      simp only [List.append_nil] at hb
      rw [hb]
      have := scanOpts_render hok m.name post hpost []
      simp only [List.append_nil] at this
      simp only [this, scanOpts, List.isEmpty_nil, if_true]
      rw [hfin _ (by simp [addOpts_eq]) (by simp [addOpts_eq, initState])]
      simp [addOpts_eq, initState, finalState, optEntries]


/-! ### reading the final namespace -/

theorem lookupArg_unique {l : List (Str × ArgVal)} (hn : (l.map (·.1)).Nodup) {n : Str} {v : ArgVal} (h : (n, v) ∈ l) :
    lookupArg l n = some v := by
  unfold lookupArg
  rw [find?_unique (o := (n, v)) h (by simp)]
  · rfl
  · intro x hx hq
    exact nodup_map_inj hn x hx (n, v) h (by simpa using hq)

theorem lookupArg_none {l : List (Str × ArgVal)} {n : Str} (h : ∀ a ∈ l, a.1 ≠ n) : lookupArg l n = none := by
  unfold lookupArg
  rw [List.find?_eq_none.mpr]
  · rfl
  · intro a ha
    simpa using h a ha

theorem optEntries_names (cs : List Choice) : (optEntries cs).map (·.1) = (cs.map (·.p.name)).reverse := by
  simp [optEntries, List.map_reverse, List.map_map, Function.comp_def]

theorem zip_bound_names : ∀ (singles : List Param) (pargs : List PosArg), posOk singles pargs →
    ((singles.zip pargs).map (fun x => ((x.1.name, ArgVal.one x.2.a) : Str × ArgVal))).map (·.1) = singles.map (·.name)
  | [], [], _ => rfl
  | [], _ :: _, h => by simp [posOk] at h
  | _ :: _, [], h => by simp [posOk] at h
  | p :: ps, x :: xs, h => by
    have ih := zip_bound_names ps xs h.2
    simp only [List.zip_cons_cons, List.map_cons, ih]

/-! ### dispatch -/

theorem dispatch_aligned (ps : List Param) (val : Param → ArgVal) :
    dispatch ps (ps.map fun p => (p.name, val p))
      = { pos := (ps.filter fun p => p.pass == .byPosition).map val,
          star := ((ps.filter fun p => p.pass == .byStar).map fun p => starOf (val p)).flatten,
          kw := (ps.filter fun p => p.pass == .byKeyword).map fun p => (p.name, val p) } := by
  have hz : ∀ l : List Param, l.zip (l.map fun p => (p.name, val p)) = l.map fun p => (p, (p.name, val p)) := by
    intro l
    induction l with
    | nil => rfl
    | cons a l ih => simp [ih]
  simp only [dispatch, hz, List.filter_map, List.map_map, Function.comp_def]

theorem pass_partition : ∀ (ps : List Param),
    (ps.filter fun p => p.pass == .byPosition).length + (ps.filter fun p => p.pass == .byStar).length
      + (ps.filter fun p => p.pass == .byKeyword).length = ps.length
  | [] => rfl
  | p :: ps => by
    have ih := pass_partition ps
    cases hp : p.pass <;> simp [hp] <;> omega

end Taskpool.Control
