import Taskpool.Inv.NonInt2
import Taskpool.Inv.Gather
import Taskpool.Inv.ApiWantWalk
/-! **Noninterference (C12): the side invariant.**  As long as every `flush` / `gather_and_close` of the history is
called with `return_exceptions=True`, every background call and every gather of every pool collects exceptions
(`AllColl`): a gather is only ever started by such a call with the call's own flag (the first gather of
`gather_and_close` always collects). -/
namespace Taskpool

/-- the operations the noninterference theorem admits: `flush` / `gather_and_close` collect exceptions -/
def Op.collecting : Op → Bool
  | .flush re => re
  | .gac re => re
  | _ => true

namespace Pool

/-- the kinds of the background calls, in order -/
def kinds (p : Pool) : List ApiKind := p.apis.map (·.kind)

def KColl (p : Pool) : Prop := ∀ k ∈ kinds p, k.coll = true

theorem allColl_of {p : Pool} (hg : Coll p) (hk : KColl p) : AllColl p := by
  refine ⟨hg, ?_⟩
  intro a A hA
  exact hk A.kind (List.mem_map.mpr ⟨A, List.mem_of_getElem? hA, rfl⟩)

theorem AllColl.kcoll {p : Pool} (h : AllColl p) : KColl p := by
  intro k hk
  obtain ⟨A, hA, rfl⟩ := List.mem_map.mp hk
  obtain ⟨a, hlt, ha⟩ := List.getElem_of_mem hA
  exact h.apis a A (by rw [List.getElem?_eq_getElem hlt, ha])

theorem AllColl.of_eq {p q : Pool} (h : AllColl p) (hg : q.gathers = p.gathers) (ha : q.apis = p.apis) : AllColl q :=
  allColl_of (h.gathers.of_gathers hg) (by intro k hk; exact h.kcoll k (by simpa [kinds, ha] using hk))

/-! ### the kinds of the background calls never change -/

theorem kinds_modApi (p : Pool) (a : Nat) (f : Api → Api) (hf : ∀ x, (f x).kind = x.kind) : kinds (p.modApi a f) = kinds p := by
  simp only [kinds, modApi]
  exact map_modify_of _ _ _ _ hf

theorem kinds_of_apis {p q : Pool} (h : q.apis = p.apis) : kinds q = kinds p := by simp only [kinds, h]

theorem kinds_schedApi (p : Pool) (a : Nat) : kinds (p.schedApi a) = kinds p := by
  unfold schedApi
  exact (kinds_of_apis rfl).trans (kinds_modApi _ _ _ (fun _ => rfl))

theorem kinds_gatherChildDone (p : Pool) (g i : Nat) (v : Bool) : kinds (p.gatherChildDone g i v) = kinds p := by
  unfold gatherChildDone
  splits <;> first | rfl | exact kinds_schedApi _ _

theorem kinds_registerChild (p : Pool) (c : Child) (g i : Nat) : kinds (p.registerChild c g i) = kinds p := by
  cases c <;> rfl

theorem kinds_gatherScan (g : Nat) (cs : List Child) (i : Nat) (p : Pool) : kinds (gatherScan g cs i p) = kinds p := by
  induction cs generalizing i p with
  | nil => rfl
  | cons c cs ih =>
    simp only [gatherScan]
    split
    · rw [ih, kinds_gatherChildDone]
    · rw [ih, kinds_registerChild]

theorem kinds_gatherStart (p : Pool) (cs : List Child) (re : Bool) (owner n : Nat) :
    kinds (p.gatherStart cs re owner n).1 = kinds p := by
  unfold gatherStart
  simp only
  rw [kinds_gatherScan]
  rfl

theorem kinds_finishApi (p : Pool) (a : Nat) (o : Outcome) : kinds (p.finishApi a o) = kinds p :=
  kinds_modApi _ _ _ (fun _ => rfl)

theorem kinds_flushAfter2 (p : Pool) (a : Nat) (o : Outcome) : kinds (p.flushAfter2 a o) = kinds p := by
  unfold flushAfter2
  split
  · rw [kinds_finishApi]; rfl
  · rw [kinds_finishApi]

theorem kinds_flushAfter1 (p : Pool) (a : Nat) (re : Bool) (o : Outcome) : kinds (p.flushAfter1 a re o) = kinds p := by
  unfold flushAfter1
  split
  · rw [kinds_finishApi]
  · simp only
    split
    · rw [kinds_flushAfter2, kinds_gatherStart, kinds_modApi _ _ _ (by intro x; rfl)]; rfl
    · rw [kinds_modApi _ _ _ (by intro x; rfl), kinds_gatherStart, kinds_modApi _ _ _ (by intro x; rfl)]; rfl

theorem kinds_flushStage1 (p : Pool) (a : Nat) (re : Bool) : kinds (p.flushStage1 a re) = kinds p := by
  unfold flushStage1
  simp only
  split
  · rw [kinds_flushAfter1, kinds_gatherStart]; rfl
  · rw [kinds_modApi _ _ _ (by intro x; rfl), kinds_gatherStart]; rfl

theorem kinds_foldl_schedApi (ws : List Nat) (p : Pool) : kinds (ws.foldl (fun p w => p.schedApi w) p) = kinds p := by
  induction ws generalizing p with
  | nil => rfl
  | cons w ws ih => simp only [List.foldl_cons]; rw [ih, kinds_schedApi]

theorem kinds_gacAfter2 (p : Pool) (a : Nat) (o : Outcome) : kinds (p.gacAfter2 a o) = kinds p := by
  unfold gacAfter2
  split
  · rw [kinds_finishApi, kinds_foldl_schedApi]; rfl
  · rw [kinds_finishApi]

theorem kinds_gacAfter1 (p : Pool) (a : Nat) (re : Bool) (g : Nat) : kinds (p.gacAfter1 a re g) = kinds p := by
  unfold gacAfter1
  simp only
  split
  · rw [kinds_finishApi]
  · split
    · rw [kinds_gacAfter2, kinds_gatherStart]; rfl
    · rw [kinds_modApi _ _ _ (by intro x; rfl), kinds_gatherStart]; rfl

theorem kinds_gacStage1 (p : Pool) (a : Nat) (re : Bool) : kinds (p.gacStage1 a re) = kinds p := by
  unfold gacStage1
  simp only
  split
  · rw [kinds_gacAfter1, kinds_gatherStart]; rfl
  · rw [kinds_modApi _ _ _ (by intro x; rfl), kinds_gatherStart]; rfl

theorem kinds_untilClosedStart (p : Pool) (a : Nat) : kinds (p.untilClosedStart a) = kinds p := by
  unfold untilClosedStart
  split
  · rw [kinds_finishApi]
  · rw [kinds_modApi _ _ _ (by intro x; rfl)]; rfl

theorem kinds_stepApi (p : Pool) (a : Nat) : kinds (p.stepApi a) = kinds p := by
  unfold stepApi
  split
  · rfl
  · split
    · rfl
    · have h0 : kinds (p.modApi a fun x => { x with sched := false }) = kinds p := kinds_modApi _ _ _ (fun _ => rfl)
      simp only
      split <;> (try split) <;>
        first
        | exact h0
        | (rw [kinds_flushStage1]; exact h0)
        | (rw [kinds_gacStage1]; exact h0)
        | (rw [kinds_untilClosedStart]; exact h0)
        | (rw [kinds_finishApi]; exact h0)
        | (rw [kinds_flushAfter1]; exact h0)
        | (rw [kinds_gacAfter1]; exact h0)
        | (rw [kinds_flushAfter2]; exact h0)
        | (rw [kinds_gacAfter2]; exact h0)

/-! ### the invariant -/

theorem allColl_init (size : Cap) (simple : Option SpawnSpec) : AllColl (Pool.init size simple) :=
  ⟨fun g G hG => by simp [Pool.init] at hG, fun a A hA => by simp [Pool.init] at hA⟩

theorem allColl_runRef {p : Pool} (h : AllColl p) (r : Ref) : AllColl (p.runRef r) := by
  cases r with
  | task t => exact h.of_eq (congrArg GV.gathers (gv_stepTask p t)) (afr_stepTask (X := fun _ => False) p t).apis
  | spawner m => exact h.of_eq (congrArg GV.gathers (gv_stepMeta p m)) (afr_stepMeta (X := fun _ => False) p m).apis
  | api a =>
    refine allColl_of (stepApi_er (t := 0) p a h.gathers (h.apis a)).2 ?_
    intro k hk
    simp only [runRef, kinds_stepApi] at hk
    exact h.kcoll k hk
  | gchild g i =>
    refine allColl_of (gatherChildDone_coll h.gathers g i true) ?_
    intro k hk
    simp only [runRef, kinds_gatherChildDone] at hk
    exact h.kcoll k hk

theorem allColl_addApi {p : Pool} (h : AllColl p) (k : ApiKind) (hk : k.coll = true) : AllColl (p.addApi k) := by
  refine allColl_of (h.gathers.of_gathers rfl) ?_
  intro k' hk'
  simp only [kinds, addApi, emitRef, List.map_append, List.mem_append, List.map_cons, List.map_nil, List.mem_singleton] at hk'
  rcases hk' with hk' | rfl
  · exact h.kcoll k' hk'
  · exact hk

theorem allColl_applyOp {p : Pool} (h : AllColl p) (op : Op) (hop : op.collecting = true) : AllColl (p.applyOp op).1 := by
  have hg : (p.applyOp op).1.gathers = p.gathers := congrArg GV.gathers (gv_applyOp p op)
  cases op with
  | apply num group sp => exact h.of_eq hg (afr_doApply (X := fun _ => False) p num group sp).apis
  | map stars items nc group sp => exact h.of_eq hg (afr_doMap (X := fun _ => False) p stars items nc group sp).apis
  | start num => exact h.of_eq hg (afr_doStart (X := fun _ => False) p num).apis
  | stop n => exact h.of_eq hg (afr_doStop (X := fun _ => False) p n).apis
  | stopAll => exact h.of_eq hg (afr_doStop (X := fun _ => False) p _).apis
  | cancel ids => exact h.of_eq hg (afr_doCancel (X := fun _ => False) p ids).apis
  | cancelGroup g => exact h.of_eq hg (afr_doCancelGroup (X := fun _ => False) p g).apis
  | cancelAll => exact h.of_eq hg (afr_doCancelAll (X := fun _ => False) p).apis
  | lock => exact h.of_eq rfl rfl
  | unlock => exact h.of_eq rfl rfl
  | setSize v => exact h.of_eq hg (afr_doSetSize (X := fun _ => False) p v).apis
  | getIds names => exact h
  | flush re => exact allColl_addApi h _ hop
  | gac re => exact allColl_addApi h _ hop
  | untilClosed => exact allColl_addApi h _ rfl
  | gate t o => exact h.of_eq hg (afr_doGate (X := fun _ => False) p t o).apis

end Pool

/-- **every gather and every background call collects**, in every pool after every history whose `flush` /
`gather_and_close` calls all pass `return_exceptions=True` -/
theorem allCollInvariant : PoolInvariant (fun _ p => Pool.AllColl p) Op.collecting where
  init := fun _ _ _ => Pool.allColl_init _ _
  op := fun _ p orders o ho h => Pool.allColl_applyOp (p := { p with orders := orders }) (h.of_eq rfl rfl) o ho
  run := fun _ p orders r h => Pool.allColl_runRef (p := { p with orders := orders }) (h.of_eq rfl rfl) r
  drain := fun _ _ h => h.of_eq rfl rfl

end Taskpool
