import Taskpool.Model.Queue
/-! C20 core: every taken item is marked processed exactly once (view-based proof). -/
namespace Taskpool.QueueM

def isInBlock (c : Consumer) : Bool := match c.phase with | .inBlock _ => true | _ => false

/-- the accounting view of a queue state -/
structure V where
  items : Nat
  unf   : Nat
  blk   : Nat
  puts  : Nat
  exits : Nat
  ve    : Bool
deriving DecidableEq, Repr

def view (q : Q) : V :=
  { items := q.items.length, unf := q.unfinished, blk := q.consumers.countP isInBlock, puts := q.puts,
    exits := q.exits, ve := q.log.contains .valueError }

def V.ok (v : V) : Prop := v.unf = v.items + v.blk ∧ v.puts = v.exits + v.unf ∧ v.ve = false

theorem countP_modify_same (cs : List Consumer) (c : Nat) (f : Consumer → Consumer)
    (h : ∀ x, isInBlock (f x) = isInBlock x) : (cs.modify c f).countP isInBlock = cs.countP isInBlock := by
  induction cs generalizing c with
  | nil => simp
  | cons a as ih =>
    cases c with
    | zero => simp [List.countP_cons, h]
    | succ n => simp only [List.modify_succ_cons, List.countP_cons, ih n]

theorem countP_modify_at (cs : List Consumer) (c : Nat) (k : Consumer) (f : Consumer → Consumer) (hk : cs[c]? = some k) :
    (cs.modify c f).countP isInBlock + (if isInBlock k then 1 else 0)
      = cs.countP isInBlock + (if isInBlock (f k) then 1 else 0) := by
  induction cs generalizing c with
  | nil => simp at hk
  | cons a as ih =>
    cases c with
    | zero =>
      simp at hk; subst hk
      simp only [List.modify_zero_cons, List.countP_cons]; omega
    | succ n =>
      simp at hk
      have := ih n hk
      simp only [List.modify_succ_cons, List.countP_cons] at this ⊢; omega

namespace Q

@[simp] theorem view_modJ (q : Q) (j f) : view (q.modJ j f) = view q := rfl
@[simp] theorem view_schedJ (q : Q) (j) : view (q.schedJ j) = view q := rfl

theorem view_modC_same (q : Q) (c : Nat) (f : Consumer → Consumer) (h : ∀ x, isInBlock (f x) = isInBlock x) :
    view (q.modC c f) = view q := by
  simp [view, modC, countP_modify_same _ _ _ h]

@[simp] theorem view_schedC (q : Q) (c) : view (q.schedC c) = view q := by
  simp [view, schedC, modC, countP_modify_same _ _ _ (fun x => (rfl : isInBlock { x with sched := true } = isInBlock x))]

theorem view_logEv (q : Q) (e : Ev) (he : e ≠ .valueError) : view (q.logEv e) = view q := by
  simp only [view, logEv, V.mk.injEq, true_and]
  simp [List.contains_append]
  intro h; exact absurd h.symm he

theorem view_setFinished (q : Q) : view q.setFinished = view q := by
  unfold setFinished
  have : ∀ (ws : List Nat) (qq : Q),
      view (ws.foldl (fun q j => (q.modJ j fun x => { x with fut := .woken }).schedJ j) qq) = view qq := by
    intro ws
    induction ws with
    | nil => intro qq; rfl
    | cons w ws ih => intro qq; simp only [List.foldl_cons]; rw [ih]; simp
  rw [this]; rfl

theorem view_wakeGetter (q : Q) : view q.wakeGetter = view q := by
  unfold wakeGetter
  simp only
  split
  · rfl
  · rw [view_schedC, view_modC_same _ _ _ (fun x => by simp [isInBlock])]; rfl

theorem view_taskDoneOk (q : Q) : view q.taskDoneOk = { view q with unf := q.unfinished - 1 } := by
  unfold taskDoneOk
  simp only
  split
  · rw [view_setFinished, view_logEv _ _ (by simp)]; rfl
  · rw [view_logEv _ _ (by simp)]; rfl

/-- `task_done()` with a positive counter: it drops by one and no `ValueError` appears -/
theorem view_taskDone_pos (q : Q) (h : 0 < q.unfinished) : view q.taskDone = { view q with unf := q.unfinished - 1 } := by
  unfold taskDone
  have : ¬ q.unfinished = 0 := by omega
  simp only [this, if_false]
  exact view_taskDoneOk q

theorem ok_put (q : Q) (x : Nat) (h : (view q).ok) : (view (q.put x)).ok := by
  unfold put
  rw [view_wakeGetter]
  obtain ⟨a, b, c⟩ := h
  simp only [view] at a b c ⊢
  refine ⟨by simp; omega, by simp; omega, c⟩

/-- leaving the block of a consumer that is in its block keeps the books balanced -/
theorem ok_exitBlock (q : Q) (c : Nat) (k : Consumer) (e : Exit) (h : (view q).ok) (hk : q.consumers[c]? = some k)
    (hb : isInBlock k = true) : (view (q.exitBlock c e)).ok := by
  obtain ⟨a, b, cve⟩ := h
  have hcnt := countP_modify_at q.consumers c k (fun x => { x with phase := .done e, suspended := false }) hk
  have h2 : isInBlock ({ k with phase := .done e, suspended := false } : Consumer) = false := rfl
  rw [hb, h2] at hcnt
  simp only [if_true, Bool.false_eq_true, if_false, Nat.add_zero] at hcnt
  simp only [view] at a b cve
  have hpos : 0 < q.unfinished := by omega
  unfold exitBlock
  -- consumers are untouched until the final `modC`
  have hcons : ((({ q with exits := q.exits + 1 } : Q).logEv (.exited c)).taskDone).consumers = q.consumers := by
    unfold taskDone taskDoneOk setFinished
    have fold : ∀ (ws : List Nat) (qq : Q),
        (ws.foldl (fun q j => (q.modJ j fun x => { x with fut := .woken }).schedJ j) qq).consumers = qq.consumers := by
      intro ws
      induction ws with
      | nil => intro qq; rfl
      | cons w ws ih => intro qq; simp only [List.foldl_cons]; rw [ih]; rfl
    split
    · rfl
    · simp only
      split
      · rw [fold]; rfl
      · rfl
  have hv := view_taskDone_pos (({ q with exits := q.exits + 1 } : Q).logEv (.exited c)) hpos
  rw [view_logEv _ _ (by simp)] at hv
  have hv' : view ((((({ q with exits := q.exits + 1 } : Q).logEv (.exited c)).taskDone).modC c
      fun x => { x with phase := .done e, suspended := false })) =
      { (view (({ q with exits := q.exits + 1 } : Q).logEv (.exited c)).taskDone) with
        blk := (q.consumers.modify c fun x => { x with phase := .done e, suspended := false }).countP isInBlock } := by
    simp only [view, modC, hcons]
  rw [hv', hv]
  simp only [view, V.ok]
  refine ⟨?_, ?_, cve⟩
  · simp only [logEv]; omega
  · simp only [logEv]; omega

end Q
end Taskpool.QueueM
