import Taskpool.Model.Queue
/-! C20, part 1: the invariant of the accounting core `K` and its preservation by every core operation.

`Inv k` = the counting equations (`V.ok`, proved through the view `K.view` + `omega`), the per-consumer mark
discipline (`CoreOK`) and the `join()` discipline (`JOK`). -/
namespace Taskpool.QueueM

/-- every `task_done()` a consumer makes belongs to the one exit of its block -/
def CoreOK (x : Core) : Prop := x.marks = if x.tookDone then 1 else 0

/-- the accounting view of a state -/
structure V where
  items : Nat
  unf   : Nat
  blk   : Nat
  dn    : Nat
  puts  : Nat
  exits : Nat
  td    : Nat
  ve    : Nat
  takes : Nat
deriving DecidableEq, Repr

def K.view (k : K) : V :=
  { items := k.items.length, unf := k.unfinished, blk := k.cores.countP Core.inBlock, dn := k.cores.countP Core.tookDone,
    puts := k.puts, exits := k.exits, td := k.tdCalls, ve := k.valueErrors, takes := k.takes }

def V.ok (v : V) : Prop :=
  v.unf = v.items + v.blk ∧ v.puts = v.exits + v.takes + v.unf ∧ v.ve = 0 ∧ v.td = v.exits + v.takes ∧ v.exits = v.dn

/-! ### list lemmas -/

theorem countP_modify_at {α} (p : α → Bool) (l : List α) (c : Nat) (a : α) (f : α → α) (h : l[c]? = some a) :
    (l.modify c f).countP p + (if p a then 1 else 0) = l.countP p + (if p (f a) then 1 else 0) := by
  induction l generalizing c with
  | nil => simp at h
  | cons b bs ih =>
    cases c with
    | zero =>
      simp at h; subst h
      simp only [List.modify_zero_cons, List.countP_cons]; omega
    | succ n =>
      simp at h
      have := ih n h
      simp only [List.modify_succ_cons, List.countP_cons] at this ⊢; omega

theorem countP_modify_same {α} (p : α → Bool) (l : List α) (c : Nat) (f : α → α) (h : ∀ x, p (f x) = p x) :
    (l.modify c f).countP p = l.countP p := by
  induction l generalizing c with
  | nil => simp
  | cons a as ih =>
    cases c with
    | zero => simp [List.countP_cons, h]
    | succ n => simp only [List.modify_succ_cons, List.countP_cons, ih n]

theorem mem_modify {α} (l : List α) (c : Nat) (f : α → α) (x : α) (hx : x ∈ l.modify c f) :
    x ∈ l ∨ ∃ y, l[c]? = some y ∧ x = f y := by
  induction l generalizing c with
  | nil => simp at hx
  | cons a as ih =>
    cases c with
    | zero =>
      simp only [List.modify_zero_cons, List.mem_cons] at hx
      rcases hx with h | h
      · right; exact ⟨a, by simp, h⟩
      · left; simp [h]
    | succ n =>
      simp only [List.modify_succ_cons, List.mem_cons] at hx
      rcases hx with h | h
      · left; simp [h]
      · rcases ih n h with h' | ⟨y, hy, hxy⟩
        · left; simp [h']
        · right; exact ⟨y, by simpa using hy, hxy⟩

/-! ### the invariant -/

/-- the `join()` discipline -/
structure K.JOK (k : K) : Prop where
  fin   : k.finished = true ↔ k.unfinished = 0
  wait  : ∀ (j : Nat) (x : Joiner), k.joiners[j]? = some x → x.phase = .waiting → x.fut = .pending →
            j ∈ k.evWaiters ∧ x.sched = false ∧ 0 < k.unfinished
  woken : ∀ (j : Nat) (x : Joiner), k.joiners[j]? = some x → x.phase = .waiting → x.fut ≠ .pending →
            x.fut = .woken ∧ x.sched = true
  fresh : ∀ (j : Nat) (x : Joiner), k.joiners[j]? = some x → x.phase = .notStarted →
            x.fut = .pending ∧ x.sched = true ∧ j ∉ k.evWaiters
  bound : ∀ j ∈ k.evWaiters, j < k.joiners.length

structure K.Inv (k : K) : Prop where
  cnt  : k.view.ok
  core : ∀ x ∈ k.cores, CoreOK x
  jn   : k.JOK

theorem K.inv_initN (n : Nat) : (K.initN n).Inv := by
  refine ⟨by simp [K.initN, K.view, V.ok], by simp [K.initN], ?_⟩
  constructor <;> simp [K.initN]

theorem K.inv_init : K.init.Inv := K.inv_initN 0

/-- the invariant does not look at the producers, `maxsize` or the ghost counter `hputs` -/
theorem K.Inv.of_eq {k k' : K} (hi : k.Inv) (h1 : k'.items = k.items) (h2 : k'.unfinished = k.unfinished)
    (h3 : k'.finished = k.finished) (h4 : k'.evWaiters = k.evWaiters) (h5 : k'.cores = k.cores)
    (h6 : k'.joiners = k.joiners) (h7 : k'.puts = k.puts) (h8 : k'.exits = k.exits) (h9 : k'.takes = k.takes)
    (h10 : k'.tdCalls = k.tdCalls) (h11 : k'.valueErrors = k.valueErrors) : k'.Inv := by
  cases k; cases k'
  simp only at h1 h2 h3 h4 h5 h6 h7 h8 h9 h10 h11
  subst h1 h2 h3 h4 h5 h6 h7 h8 h9 h10 h11
  obtain ⟨a, b, c⟩ := hi
  exact ⟨a, b, ⟨c.fin, c.wait, c.woken, c.fresh, c.bound⟩⟩

/-- one core operation, with the guard under which the shell performs it -/
inductive KStep : K → K → Prop
  | refl (k : K) : KStep k k
  | put (k : K) (x : Nat) : k.full = false → KStep k (k.put x)
  | spawn (k : K) : KStep k k.spawn
  | join (k : K) : KStep k k.join
  | wait (k : K) (c : Nat) (x : Core) : k.cores[c]? = some x → preBlock x.phase = true → KStep k (k.wait c)
  | take (k : K) (c : Nat) (x : Core) : k.cores[c]? = some x → preBlock x.phase = true → KStep k (k.take c)
  | abort (k : K) (c : Nat) (x : Core) : k.cores[c]? = some x → preBlock x.phase = true → KStep k (k.abort c)
  | exit (k : K) (c : Nat) (x : Core) (e : Exit) : k.cores[c]? = some x → isInBlock x.phase = true → KStep k (k.exit c e)
  | stepJ (k : K) (j : Nat) : KStep k (k.stepJoiner j)
  | handTake (k : K) : KStep k k.handTake
  | produce (k : K) (x : Nat) : KStep k (k.produce x)
  | pwait (k : K) (j : Nat) (p : Prod) : k.prods[j]? = some p → prePut p.phase = true → k.full = true → KStep k (k.pwait j)
  | pput (k : K) (j : Nat) (p : Prod) : k.prods[j]? = some p → prePut p.phase = true → k.full = false → KStep k (k.pput j)
  | pabort (k : K) (j : Nat) (p : Prod) : k.prods[j]? = some p → prePut p.phase = true → KStep k (k.pabort j)

/-! ### counting and marks -/

theorem cores_setPhase_pre (k : K) (c : Nat) (x : Core) (p : CPhase) (h : k.cores[c]? = some x)
    (hx : preBlock x.phase = true) (hp : tookDone p = false) :
    (k.setPhase c p).view = { k.view with blk := k.view.blk + (if isInBlock p then 1 else 0) } := by
  have h1 := countP_modify_at Core.inBlock k.cores c x (fun y => { y with phase := p }) h
  have h2 := countP_modify_at Core.tookDone k.cores c x (fun y => { y with phase := p }) h
  have a : x.inBlock = false := by cases x with | mk ph m => cases ph <;> simp_all [Core.inBlock, isInBlock, preBlock]
  have b : x.tookDone = false := by cases x with | mk ph m => cases ph <;> simp_all [Core.tookDone, tookDone, preBlock]
  simp only [Core.inBlock, Core.tookDone] at h1 h2 a b
  simp only [a, b, hp, Bool.false_eq_true, if_false, Nat.add_zero] at h1 h2
  simp only [K.view, K.setPhase, V.mk.injEq, true_and, and_true]
  exact ⟨h1, h2⟩

theorem coreOK_setPhase (k : K) (c : Nat) (p : CPhase) (hp : tookDone p = false)
    (hc : ∀ y ∈ k.cores, CoreOK y) (hpre : ∀ x, k.cores[c]? = some x → x.tookDone = false) :
    ∀ y ∈ (k.setPhase c p).cores, CoreOK y := by
  intro y hy
  rcases mem_modify _ _ _ _ hy with h | ⟨z, hz, rfl⟩
  · exact hc y h
  · have hz' := hc z (List.mem_of_getElem? hz)
    have := hpre z hz
    simp_all [CoreOK, Core.tookDone]

theorem pre_not_tookDone (x : Core) (h : preBlock x.phase = true) : x.tookDone = false := by
  cases x with | mk ph m => cases ph <;> simp_all [Core.tookDone, tookDone, preBlock]

theorem inBlock_not_tookDone (x : Core) (h : isInBlock x.phase = true) : x.tookDone = false := by
  cases x with | mk ph m => cases ph <;> simp_all [Core.tookDone, tookDone, isInBlock]

/-- phase changes of a consumer that holds no item keep the whole invariant, given the counting part -/
theorem inv_setPhase_pre (k : K) (c : Nat) (x : Core) (p : CPhase) (h : k.cores[c]? = some x)
    (hx : preBlock x.phase = true) (hp : tookDone p = false) (hb : isInBlock p = false) (hi : k.Inv) : (k.setPhase c p).Inv := by
  refine ⟨?_, coreOK_setPhase k c p hp hi.core (fun z hz => ?_), ?_⟩
  · rw [cores_setPhase_pre k c x p h hx hp]; simpa [hb] using hi.cnt
  · rw [h] at hz; cases hz; exact pre_not_tookDone x hx
  · exact ⟨hi.jn.fin, hi.jn.wait, hi.jn.woken, hi.jn.fresh, hi.jn.bound⟩

/-! ### preservation, operation by operation -/

theorem K.inv_put (k : K) (x : Nat) (hi : k.Inv) : (k.put x).Inv := by
  obtain ⟨⟨a, b, c, d, e⟩, hc, hj⟩ := hi
  refine ⟨?_, hc, ?_⟩
  · simp only [K.view, K.put, V.ok, List.length_append, List.length_singleton] at a b c d e ⊢
    omega
  · refine ⟨by simp [K.put], ?_, hj.woken, hj.fresh, hj.bound⟩
    intro j y h1 h2 h3
    have := hj.wait j y h1 h2 h3
    exact ⟨this.1, this.2.1, by simp [K.put]⟩

theorem K.inv_spawn (k : K) (hi : k.Inv) : k.spawn.Inv := by
  obtain ⟨hv, hc, hj⟩ := hi
  refine ⟨?_, ?_, ⟨hj.fin, hj.wait, hj.woken, hj.fresh, hj.bound⟩⟩
  · simpa [K.view, K.spawn, V.ok, List.countP_append, Core.inBlock, Core.tookDone, isInBlock, tookDone] using hv
  · intro y hy
    simp only [K.spawn, List.mem_append, List.mem_singleton] at hy
    rcases hy with h | rfl
    · exact hc y h
    · simp [CoreOK, Core.tookDone, tookDone]

theorem K.inv_join (k : K) (hi : k.Inv) : k.join.Inv := by
  obtain ⟨hv, hc, hj⟩ := hi
  refine ⟨hv, hc, ?_⟩
  have hb := hj.bound
  constructor
  · exact hj.fin
  · intro j y h; have := hj.wait j y; simp only [K.join] at h ⊢; grind
  · intro j y h; have := hj.woken j y; simp only [K.join] at h ⊢; grind
  · intro j y h; have := hj.fresh j y; have := hb j; simp only [K.join] at h ⊢; grind
  · intro j h; have := hb j h; simp only [K.join, List.length_append] at h ⊢; omega

theorem K.inv_wait (k : K) (c : Nat) (x : Core) (h : k.cores[c]? = some x) (hx : preBlock x.phase = true) (hi : k.Inv) :
    (k.wait c).Inv := inv_setPhase_pre k c x _ h hx rfl rfl hi

theorem K.inv_abort (k : K) (c : Nat) (x : Core) (h : k.cores[c]? = some x) (hx : preBlock x.phase = true) (hi : k.Inv) :
    (k.abort c).Inv := inv_setPhase_pre k c x _ h hx rfl rfl hi

theorem K.inv_take (k : K) (c : Nat) (x : Core) (h : k.cores[c]? = some x) (hx : preBlock x.phase = true) (hi : k.Inv) :
    (k.take c).Inv := by
  unfold K.take
  split
  · exact hi
  · rename_i it rest hit
    obtain ⟨⟨a, b, c', d, e⟩, hc, hj⟩ := hi
    refine ⟨?_, coreOK_setPhase _ c _ rfl hc (fun z hz => ?_), ⟨hj.fin, hj.wait, hj.woken, hj.fresh, hj.bound⟩⟩
    · rw [cores_setPhase_pre ({ k with items := rest } : K) c x (.inBlock it) h hx rfl]
      simp only [K.view, V.ok, hit, List.length_cons, isInBlock, if_true] at a b c' d e ⊢
      omega
    · have hz' : k.cores[c]? = some z := hz
      rw [h] at hz'; cases hz'; exact pre_not_tookDone x hx

/-- `_finished.set()` touches only the joiners and the event -/
theorem K.JOK_taskDone (k : K) (hpos : 0 < k.unfinished) (hj : k.JOK) : k.taskDone.JOK := by
  have hne : ¬ k.unfinished = 0 := by omega
  unfold K.taskDone K.taskDoneOk
  simp only [hne, if_false]
  split
  · rename_i h0
    constructor
    · simp [K.setFinished, h0]
    · intro j y h1 h2 h3
      simp only [K.setFinished, List.getElem?_mapIdx] at h1
      cases hx : k.joiners[j]? with
      | none => simp [hx] at h1
      | some x =>
        simp only [hx, Option.map_some, Option.some.injEq] at h1
        have hw := hj.wait j x hx
        simp only [K.wakes] at h1
        grind
    · intro j y h1 h2 h3
      simp only [K.setFinished, List.getElem?_mapIdx] at h1
      cases hx : k.joiners[j]? with
      | none => simp [hx] at h1
      | some x =>
        simp only [hx, Option.map_some, Option.some.injEq] at h1
        have hw := hj.woken j x hx
        grind
    · intro j y h1 h2
      simp only [K.setFinished, List.getElem?_mapIdx] at h1
      cases hx : k.joiners[j]? with
      | none => simp [hx] at h1
      | some x =>
        simp only [hx, Option.map_some, Option.some.injEq] at h1
        have hw := hj.fresh j x hx
        simp only [K.wakes] at h1
        simp only [K.setFinished]
        grind
    · intro j h; have := hj.bound j h; simpa [K.setFinished] using this
  · rename_i h0
    have hf := hj.fin
    refine ⟨?_, ?_, hj.woken, hj.fresh, hj.bound⟩
    · simp only at h0 ⊢
      constructor
      · intro h; have := hf.1 h; omega
      · intro h; omega
    · intro j y h1 h2 h3
      have := hj.wait j y h1 h2 h3
      simp only at h0 ⊢
      exact ⟨this.1, this.2.1, by omega⟩

theorem K.cores_taskDone (k : K) : k.taskDone.cores = k.cores := by
  unfold K.taskDone K.taskDoneOk K.setFinished
  simp only
  split
  · rfl
  · split <;> rfl

theorem K.view_taskDone (k : K) (hpos : 0 < k.unfinished) :
    k.taskDone.view = { k.view with unf := k.unfinished - 1, td := k.tdCalls + 1 } := by
  have hne : ¬ k.unfinished = 0 := by omega
  unfold K.taskDone K.taskDoneOk K.setFinished
  simp only [hne, if_false]
  split <;> rfl

theorem K.cores_exit (k : K) (c : Nat) (e : Exit) :
    (k.exit c e).cores = k.cores.modify c fun y => { phase := .done e true, marks := y.marks + 1 } := by
  simp only [K.exit, K.setPhase, K.addMark, K.cores_taskDone, List.modify_modify_eq]
  rfl

theorem K.view_exit (k : K) (c : Nat) (e : Exit) (hpos : 0 < k.unfinished) :
    (k.exit c e).view = { k.view with unf := k.unfinished - 1, td := k.tdCalls + 1, exits := k.exits + 1,
                                      blk := (k.exit c e).cores.countP Core.inBlock,
                                      dn := (k.exit c e).cores.countP Core.tookDone } := by
  have hv := K.view_taskDone ({ k with exits := k.exits + 1 } : K) hpos
  simp only [K.view, V.mk.injEq] at hv
  obtain ⟨v1, v2, v3, v4, v5, v6, v7, v8, v9⟩ := hv
  simp only [K.view, V.mk.injEq, K.exit, K.setPhase, K.addMark]
  exact ⟨v1, v2, trivial, trivial, v5, v6, v7, v8, v9⟩

theorem K.inv_exit (k : K) (c : Nat) (x : Core) (e : Exit) (h : k.cores[c]? = some x) (hx : isInBlock x.phase = true)
    (hi : k.Inv) : (k.exit c e).Inv := by
  obtain ⟨⟨a, b, c', d, e'⟩, hc, hj⟩ := hi
  have h1 := countP_modify_at Core.inBlock k.cores c x (fun y => { phase := .done e true, marks := y.marks + 1 }) h
  have h2 := countP_modify_at Core.tookDone k.cores c x (fun y => { phase := .done e true, marks := y.marks + 1 }) h
  have hnt := inBlock_not_tookDone x hx
  have hib : x.inBlock = true := hx
  have e1 : Core.inBlock { phase := .done e true, marks := x.marks + 1 } = false := rfl
  have e2 : Core.tookDone { phase := .done e true, marks := x.marks + 1 } = true := rfl
  simp only [hnt, hib, e1, e2, if_true, Bool.false_eq_true, if_false, Nat.add_zero] at h1 h2
  simp only [K.view] at a b c' d e'
  have hpos : 0 < k.unfinished := by omega
  refine ⟨?_, ?_, ?_⟩
  · rw [K.view_exit k c e hpos, K.cores_exit]
    simp only [K.view, V.ok]
    omega
  · intro y hy
    rw [K.cores_exit] at hy
    rcases mem_modify _ _ _ _ hy with h' | ⟨z, hz, rfl⟩
    · exact hc y h'
    · rw [h] at hz; cases hz
      have := hc x (List.mem_of_getElem? h)
      simp only [CoreOK, hnt, Bool.false_eq_true, if_false] at this
      simp [CoreOK, Core.tookDone, tookDone, this]
  · have := K.JOK_taskDone ({ k with exits := k.exits + 1 } : K) hpos ⟨hj.fin, hj.wait, hj.woken, hj.fresh, hj.bound⟩
    exact ⟨this.fin, this.wait, this.woken, this.fresh, this.bound⟩

/-- `get_nowait()` on an empty queue changes nothing; otherwise the head is popped and marked by one `task_done()` -/
theorem K.handTake_cases (k : K) :
    (k.items = [] ∧ k.handTake = k) ∨
    ∃ x rest, k.items = x :: rest ∧ k.handTake = ({ k with items := rest, takes := k.takes + 1 } : K).taskDone := by
  unfold K.handTake
  cases h : k.items with
  | nil => exact .inl ⟨rfl, rfl⟩
  | cons x rest => exact .inr ⟨x, rest, rfl, rfl⟩

/-- a hand mark touches no consumer -/
theorem K.cores_handTake (k : K) : k.handTake.cores = k.cores := by
  rcases K.handTake_cases k with ⟨_, e⟩ | ⟨x, rest, _, e⟩ <;> rw [e]
  rw [K.cores_taskDone]

/-- an item in the queue is unfinished work -/
theorem K.Inv.pos_of_items {k : K} (hi : k.Inv) (x : Nat) (rest : List Nat) (h : k.items = x :: rest) : 0 < k.unfinished := by
  obtain ⟨a, _, _, _, _⟩ := hi.cnt
  simp only [K.view, h, List.length_cons] at a
  omega

theorem K.inv_handTake (k : K) (hi : k.Inv) : k.handTake.Inv := by
  rcases K.handTake_cases k with ⟨_, e⟩ | ⟨x, rest, hit, e⟩ <;> rw [e]
  · exact hi
  · have hpos : 0 < ({ k with items := rest, takes := k.takes + 1 } : K).unfinished := hi.pos_of_items x rest hit
    obtain ⟨⟨a, b, c', d, e'⟩, hc, hj⟩ := hi
    refine ⟨?_, ?_, ?_⟩
    · rw [K.view_taskDone _ hpos]
      simp only [K.view, V.ok, hit, List.length_cons] at a b c' d e' hpos ⊢
      omega
    · rw [K.cores_taskDone]; exact hc
    · exact K.JOK_taskDone _ hpos ⟨hj.fin, hj.wait, hj.woken, hj.fresh, hj.bound⟩

theorem K.view_stepJoiner (k : K) (j : Nat) : (k.stepJoiner j).view = k.view ∧ (k.stepJoiner j).cores = k.cores := by
  unfold K.stepJoiner K.joinStart K.joinWake K.modJ
  repeat' (first | split | exact ⟨rfl, rfl⟩)

theorem K.JOK_stepJoiner (k : K) (j : Nat) (hj : k.JOK) : (k.stepJoiner j).JOK := by
  unfold K.stepJoiner
  split
  · exact hj
  · rename_i x hx
    split
    · exact hj
    · rename_i hs
      have hw := hj.wait; have hwk := hj.woken; have hf := hj.fresh; have hb := hj.bound; have hfin := hj.fin
      have hlt : j < k.joiners.length := by
        have := List.getElem?_eq_some_iff.1 hx; exact this.1
      split
      · -- notStarted
        rename_i hp
        unfold K.joinStart
        split
        · rename_i hcond
          constructor
          · exact hfin
          · intro i y h; have := hw i y; have := hf j x hx hp
            simp only [K.modJ, List.getElem?_modify] at h ⊢; grind
          · intro i y h; have := hwk i y; have := hf j x hx hp
            simp only [K.modJ, List.getElem?_modify] at h ⊢; grind
          · intro i y h; have := hf i y
            simp only [K.modJ, List.getElem?_modify] at h ⊢; grind
          · intro i h; have := hb i
            simp only [K.modJ, List.length_modify, List.mem_append, List.mem_singleton] at h ⊢; grind
        · constructor
          · exact hfin
          · intro i y h; have := hw i y
            simp only [K.modJ, List.getElem?_modify] at h ⊢; grind
          · intro i y h; have := hwk i y
            simp only [K.modJ, List.getElem?_modify] at h ⊢; grind
          · intro i y h; have := hf i y
            simp only [K.modJ, List.getElem?_modify] at h ⊢; grind
          · intro i h; have := hb i
            simp only [K.modJ, List.length_modify] at h ⊢; grind
      · -- waiting
        rename_i hp
        unfold K.joinWake
        constructor
        · exact hfin
        · intro i y h; have := hw i y; have := hw j x hx hp
          simp only [K.modJ, List.getElem?_modify] at h ⊢; grind
        · intro i y h; have := hwk i y
          simp only [K.modJ, List.getElem?_modify] at h ⊢; grind
        · intro i y h; have := hf i y
          simp only [K.modJ, List.getElem?_modify] at h ⊢; grind [List.mem_of_mem_erase]
        · intro i h; have := hb i (List.mem_of_mem_erase h)
          simp only [K.modJ, List.length_modify] at h ⊢; grind
      · constructor
        · exact hfin
        · intro i y h; have := hw i y
          simp only [K.modJ, List.getElem?_modify] at h ⊢; grind
        · intro i y h; have := hwk i y
          simp only [K.modJ, List.getElem?_modify] at h ⊢; grind
        · intro i y h; have := hf i y
          simp only [K.modJ, List.getElem?_modify] at h ⊢; grind
        · intro i h; have := hb i
          simp only [K.modJ, List.length_modify] at h ⊢; grind

theorem K.inv_stepJoiner (k : K) (j : Nat) (hi : k.Inv) : (k.stepJoiner j).Inv := by
  obtain ⟨hv, hc, hj⟩ := hi
  have := K.view_stepJoiner k j
  exact ⟨this.1 ▸ hv, this.2 ▸ hc, K.JOK_stepJoiner k j hj⟩

theorem K.inv_pput (k : K) (j : Nat) (hi : k.Inv) : (k.pput j).Inv := by
  unfold K.pput
  split
  · exact hi
  · rename_i p _
    exact (K.inv_put k p.item hi).of_eq rfl rfl rfl rfl rfl rfl rfl rfl rfl rfl rfl

/-- every core operation, performed under its guard, preserves the invariant -/
theorem KStep.inv {k k' : K} (h : KStep k k') (hi : k.Inv) : k'.Inv := by
  cases h with
  | refl => exact hi
  | put x _ => exact K.inv_put k x hi
  | spawn => exact K.inv_spawn k hi
  | join => exact K.inv_join k hi
  | wait c x h hx => exact K.inv_wait k c x h hx hi
  | take c x h hx => exact K.inv_take k c x h hx hi
  | abort c x h hx => exact K.inv_abort k c x h hx hi
  | exit c x e h hx => exact K.inv_exit k c x e h hx hi
  | stepJ j => exact K.inv_stepJoiner k j hi
  | handTake => exact K.inv_handTake k hi
  | produce x => exact hi.of_eq rfl rfl rfl rfl rfl rfl rfl rfl rfl rfl rfl
  | pwait j p _ _ _ => exact hi.of_eq rfl rfl rfl rfl rfl rfl rfl rfl rfl rfl rfl
  | pput j p _ _ _ => exact K.inv_pput k j hi
  | pabort j p _ _ => exact hi.of_eq rfl rfl rfl rfl rfl rfl rfl rfl rfl rfl rfl

end Taskpool.QueueM
