import Taskpool.Inv.GatherInv
import Taskpool.Inv.MetaValid
/-! `flush`, `gather_and_close`, `until_closed` keep the counting invariant of the gathers (`PInv`). -/
namespace Taskpool
namespace Pool

/-- the ids in the three registries are ids of existing tasks -/
def RegValid (p : Pool) : Prop :=
  ∀ t : Nat, (t ∈ p.ended ∨ t ∈ p.cancelledR ∨ t ∈ p.running) → ∃ k : PTask, p.tasks[t]? = some k

theorem Good.regValid {cap : Cap} {L R : Bool} {p : Pool} (h : Good cap L R p) : RegValid p := by
  intro t ht
  rcases ht with h1 | h1 | h1
  · obtain ⟨k, hk, _⟩ := h.reg.fin t h1; exact ⟨k, hk⟩
  · obtain ⟨k, hk, _⟩ := h.reg.can t h1; exact ⟨k, hk⟩
  · obtain ⟨k, hk, _⟩ := h.reg.run t h1; exact ⟨k, hk⟩

structure AInv (R : Nat × Nat → Nat) (p : Pool) : Prop where
  pinv : PInv R p
  ofin : OutFin p
  rv : RegValid p

/-- a step that leaves `gv`, the task records alone and forgets at most registry entries -/
theorem AInv.of_frame {R} {p q : Pool} (h : AInv R p) (hgv : gv q = gv p) (ht : q.tasks = p.tasks)
    (hr : ∀ t, t ∈ q.running → t ∈ p.running := by intro _ h; exact h)
    (hc : ∀ t, t ∈ q.cancelledR → t ∈ p.cancelledR := by intro _ h; exact h)
    (he : ∀ t, t ∈ q.ended → t ∈ p.ended := by intro _ h; exact h)
    (hq : ∀ (m : Nat) (r : Req), p.reqs[m]? = some r → ∃ r' : Req, q.reqs[m]? = some r' ∧ r'.outcome = r.outcome := by
      intro m r h; exact ⟨r, h, rfl⟩) : AInv R q := by
  obtain ⟨hg, _, hd, hrc⟩ := gv_fields hgv
  have hW := W_of_gv hgv R
  refine ⟨⟨?_, ?_, ?_, ?_, ?_, ?_, ?regS, ?cmp⟩, ?_, ?_⟩
  case regS =>
    intro g G i m hG hc
    rw [hg] at hG
    obtain ⟨r, hr, hreg⟩ := h.pinv.regS g G i m hG hc
    obtain ⟨r', hr', ho⟩ := hq m r hr
    refine ⟨r', hr', fun hnone => ?_⟩
    have e1 := rcb_eq q m r' hr'
    have e2 := rcb_eq p m r hr
    rw [← e1, congrFun hrc m, e2]
    exact hreg (by rw [← ho]; exact hnone)
  case cmp =>
    intro g G; rw [hg]; exact h.pinv.cmp g G
  · intro g i; rw [hW, hg]; exact h.pinv.dom g i
  · intro g G; rw [hW, hg]; exact h.pinv.cnt g G
  · intro g G i t; rw [hg, ht]; exact h.pinv.reg g G i t
  · intro g G; rw [hg]; exact h.pinv.fin g G
  · intro t g i; rw [hd, hg]; exact h.pinv.ownT t g i
  · intro m g i; rw [hrc, hg]; exact h.pinv.ownS m g i
  · intro t k; rw [ht]; exact h.ofin t k
  · intro t hm
    rw [ht]
    apply h.rv t
    rcases hm with h1 | h1 | h1
    · exact Or.inl (he t h1)
    · exact Or.inr (Or.inl (hc t h1))
    · exact Or.inr (Or.inr (hr t h1))

/-- the requests rewritten one by one, outcomes kept -/
theorem reqs_map_outcome (l : List Req) (f : Req → Req) (hf : ∀ r, (f r).outcome = r.outcome) (m : Nat) (r : Req)
    (h : l[m]? = some r) : ∃ r' : Req, (l.map f)[m]? = some r' ∧ r'.outcome = r.outcome :=
  ⟨f r, by rw [List.getElem?_map, h]; rfl, hf r⟩

theorem OutFin.tame {p q : Pool} (h : OutFin p) (t : Tame p q) : OutFin q := by
  intro i k' hk' ho
  obtain ⟨k, hk, hs⟩ := t.soft i k' hk'
  have h1 : k'.phase = k.phase := congrArg SoftP.phase hs
  have h2 : k'.outcome.isSome = k.outcome.isSome := congrArg SoftP.hasOut hs
  rw [h1]; exact h i k hk (by rw [← h2]; exact ho)

theorem RegValid.tame {p q : Pool} (h : RegValid p) (t : Tame p q) : RegValid q := by
  intro i hi
  rw [t.fin, t.can, t.run] at hi
  obtain ⟨k, hk⟩ := h i hi
  have : i < q.tasks.length := by rw [t.len]; exact (List.getElem?_eq_some_iff.mp hk).1
  exact ⟨q.tasks[i], by simp [this]⟩

theorem AInv.gatherStart {R} {p : Pool} (h : AInv R p) (cs : List Child) (re : Bool) (owner n : Nat)
    (hv : ∀ (i t : Nat), cs[i]? = some (.task t) → ∃ k : PTask, p.tasks[t]? = some k)
    (hvs : ∀ (i m : Nat), cs[i]? = some (.spawner m) → m < p.reqs.length) :
    AInv R (p.gatherStart cs re owner n).1 :=
  ⟨h.pinv.gatherStart h.ofin cs re owner n hv hvs, h.ofin.tame (tame_gatherStart p cs re owner n),
    h.rv.tame (tame_gatherStart p cs re owner n)⟩

@[simp] theorem gv_finishApi (p : Pool) (a : Nat) (o : Outcome) : gv (p.finishApi a o) = gv p := gv_modApi _ _ _

theorem AInv.modApi {R} {p : Pool} (h : AInv R p) (a : Nat) (f : Api → Api) : AInv R (p.modApi a f) :=
  h.of_frame (gv_modApi _ _ _) rfl

theorem AInv.finishApi {R} {p : Pool} (h : AInv R p) (a : Nat) (o : Outcome) : AInv R (p.finishApi a o) :=
  h.modApi a _

theorem AInv.flushAfter2 {R} {p : Pool} (h : AInv R p) (a : Nat) (o : Outcome) : AInv R (p.flushAfter2 a o) := by
  unfold Pool.flushAfter2
  split
  · refine AInv.finishApi ?_ a .ok
    exact h.of_frame (gv_of rfl rfl rfl rfl) rfl (fun _ x => x) (fun _ x => (List.mem_filter.mp x).1)
      (fun _ x => (List.mem_filter.mp x).1)
  · exact h.finishApi a _

theorem valid_of_regs (p : Pool) (h : RegValid p) (cs : List Child)
    (hcs : ∀ t, Child.task t ∈ cs → (t ∈ p.ended ∨ t ∈ p.cancelledR ∨ t ∈ p.running)) :
    ∀ (i t : Nat), cs[i]? = some (.task t) → ∃ k : PTask, p.tasks[t]? = some k :=
  fun _ t hi => h t (hcs t (List.mem_of_getElem? hi))

/-- a gather over tasks only has no spawner child -/
theorem task_children_noS (cs : List Child) (hcs : ∀ c ∈ cs, ∃ t, c = Child.task t) (n : Nat) :
    ∀ (i m : Nat), cs[i]? = some (Child.spawner m) → m < n := by
  intro i m hi
  obtain ⟨t, ht⟩ := hcs _ (List.mem_of_getElem? hi)
  cases ht

theorem AInv.flushAfter1 {R} {p : Pool} (h : AInv R p) (a : Nat) (re : Bool) (o : Outcome) :
    AInv R (p.flushAfter1 a re o) := by
  unfold Pool.flushAfter1
  split
  · exact h.finishApi a _
  · simp only
    have h1 : AInv R ({ p with metaCancelled := [], reqs := p.reqs.map fun (r : Req) => { r with inCancelled := false } } : Pool) :=
      h.of_frame (gv_mapReqs p (fun (r : Req) => { r with inCancelled := false }) (fun _ => ⟨rfl, rfl⟩) _ rfl rfl rfl rfl) rfl
        (hq := reqs_map_outcome _ _ (fun _ => rfl))
    have h2 := h1.modApi a (fun x => { x with snapE := p.ended, snapC := p.cancelledR })
    have h3 := h2.gatherStart (p.ended.map Child.task ++ p.cancelledR.map Child.task) re a 0
      (valid_of_regs _ h2.rv _ (by
        intro t ht
        simp only [List.mem_append, List.mem_map, Child.task.injEq, exists_eq_right] at ht
        rcases ht with x | x
        · exact Or.inl x
        · exact Or.inr (Or.inl x)))
      (task_children_noS _ (by
        intro c hc
        simp only [List.mem_append, List.mem_map] at hc
        rcases hc with ⟨t, _, rfl⟩ | ⟨t, _, rfl⟩ <;> exact ⟨t, rfl⟩) _)
    split
    · exact h3.flushAfter2 a _
    · exact h3.modApi a _

theorem no_task_children (a b : List Nat) : ∀ (i t : Nat),
    (a.map Child.spawner ++ b.map Child.spawner)[i]? = some (Child.task t) → ∃ k : PTask, (none : Option PTask) = some k := by
  intro i t hi
  have := List.mem_of_getElem? hi
  simp at this

theorem spawner_children_valid (p : Pool) (a b : List Nat) : ∀ (i t : Nat),
    (a.map Child.spawner ++ b.map Child.spawner)[i]? = some (Child.task t) → ∃ k : PTask, p.tasks[t]? = some k := by
  intro i t hi
  have := List.mem_of_getElem? hi
  simp at this

/-- the children of a gather over spawners exist: the cancelled ones by `MC`, the others as indices of the request list -/
theorem spawner_children_lt (a b : List Nat) (n : Nat) (ha : ∀ m ∈ a, m < n) (hb : ∀ m ∈ b, m < n) : ∀ (i m : Nat),
    (a.map Child.spawner ++ b.map Child.spawner)[i]? = some (Child.spawner m) → m < n := by
  intro i m hi
  have := List.mem_of_getElem? hi
  simp only [List.mem_append, List.mem_map, Child.spawner.injEq, exists_eq_right] at this
  rcases this with x | x
  · exact ha m x
  · exact hb m x

theorem AInv.flushStage1 {R} {p : Pool} (h : AInv R p) (hmc : MC p) (a : Nat) (re : Bool) : AInv R (p.flushStage1 a re) := by
  unfold Pool.flushStage1
  simp only
  have h1 : AInv R ({ p with reqs := p.reqs.map fun (r : Req) =>
      if r.inRunning && r.outcome.isSome then { r with inRunning := false } else r } : Pool) :=
    h.of_frame (gv_mapReqs p (fun (r : Req) => if r.inRunning && r.outcome.isSome then { r with inRunning := false } else r)
      (fun r => by split <;> exact ⟨rfl, rfl⟩) _ rfl rfl rfl rfl) rfl
      (hq := reqs_map_outcome _ _ (fun r => by split <;> rfl))
  have h2 := h1.gatherStart
    (p.metaCancelled.map Child.spawner ++ (indicesWhere p.reqs fun r => r.inRunning && r.outcome.isSome).map Child.spawner)
    re a (p.metaCancelled.map Child.spawner ++ (indicesWhere p.reqs fun r => r.inRunning && r.outcome.isSome).map Child.spawner).length
    (spawner_children_valid _ _ _)
    (spawner_children_lt _ _ _ (fun m hm => by simp only [List.length_map]; exact hmc m hm)
      (fun m hm => by simp only [List.length_map]; exact mem_indicesWhere_lt _ _ m hm))
  split
  · exact h2.flushAfter1 a re _
  · exact h2.modApi a _

theorem AInv.schedApis {R} (ws : List Nat) {p : Pool} (h : AInv R p) : AInv R (ws.foldl (fun p w => p.schedApi w) p) := by
  induction ws generalizing p with
  | nil => exact h
  | cons w ws ih =>
    simp only [List.foldl_cons]
    exact ih (h.of_frame (gv_schedApi _ _) rfl)

theorem AInv.gacAfter2 {R} {p : Pool} (h : AInv R p) (a : Nat) (o : Outcome) : AInv R (p.gacAfter2 a o) := by
  unfold Pool.gacAfter2
  split
  · simp only
    refine AInv.finishApi (AInv.schedApis _ ?_) a .ok
    exact h.of_frame (gv_of rfl rfl rfl rfl) rfl (fun _ x => by cases x) (fun _ x => by cases x) (fun _ x => by cases x)
  · exact h.finishApi a _

theorem AInv.gacAfter1 {R} {p : Pool} (h : AInv R p) (a : Nat) (re : Bool) (g : Nat) : AInv R (p.gacAfter1 a re g) := by
  unfold Pool.gacAfter1
  simp only
  split
  · exact h.finishApi a _
  · have h1 : AInv R ({ p with metaCancelled := [], reqs := p.reqs.map fun (r : Req) =>
        { r with inCancelled := false, inRunning := false } } : Pool) :=
      h.of_frame (gv_mapReqs p (fun (r : Req) => { r with inCancelled := false, inRunning := false })
        (fun _ => ⟨rfl, rfl⟩) _ rfl rfl rfl rfl) rfl
        (hq := reqs_map_outcome _ _ (fun _ => rfl))
    have h3 := h1.gatherStart (p.ended.map Child.task ++ p.cancelledR.map Child.task ++ p.running.map Child.task) re a 0
      (valid_of_regs _ h1.rv _ (by
        intro t ht
        simp only [List.mem_append, List.mem_map, Child.task.injEq, exists_eq_right] at ht
        rcases ht with (x | x) | x
        · exact Or.inl x
        · exact Or.inr (Or.inl x)
        · exact Or.inr (Or.inr x)))
      (task_children_noS _ (by
        intro c hc
        simp only [List.mem_append, List.mem_map] at hc
        rcases hc with (⟨t, _, rfl⟩ | ⟨t, _, rfl⟩) | ⟨t, _, rfl⟩ <;> exact ⟨t, rfl⟩) _)
    split
    · exact h3.gacAfter2 a _
    · exact h3.modApi a _

theorem AInv.gacStage1 {R} {p : Pool} (h : AInv R p) (hmc : MC p) (a : Nat) (re : Bool) : AInv R (p.gacStage1 a re) := by
  unfold Pool.gacStage1
  simp only
  have h1 : AInv R ({ ({ p with locked := true } : Pool) with ambiguous := p.ambiguous ||
      (!re && decide ((({ p with locked := true } : Pool).failKindsExc
        ((p.metaCancelled.map Child.spawner ++ (indicesWhere p.reqs fun r => r.inRunning).map Child.spawner).take p.metaCancelled.length)).length > 1)) } : Pool) :=
    h.of_frame (gv_of rfl rfl rfl rfl) rfl
  have h2 := h1.gatherStart
    (p.metaCancelled.map Child.spawner ++ (indicesWhere p.reqs fun r => r.inRunning).map Child.spawner) true a 0
    (spawner_children_valid _ _ _)
    (spawner_children_lt _ _ _ (fun m hm => hmc m hm) (fun m hm => mem_indicesWhere_lt _ _ m hm))
  split
  · exact h2.gacAfter1 a re _
  · exact h2.modApi a _

theorem AInv.untilClosedStart {R} {p : Pool} (h : AInv R p) (a : Nat) : AInv R (p.untilClosedStart a) := by
  unfold Pool.untilClosedStart
  split
  · exact h.finishApi a _
  · have h1 : AInv R ({ p with closedWaiters := p.closedWaiters ++ [a] } : Pool) :=
      h.of_frame (gv_of rfl rfl rfl rfl) rfl
    exact h1.modApi a _

/-- **a step of a background call** (`flush`, `gather_and_close`, `until_closed`) keeps the invariant -/
theorem AInv.stepApi {R} {p : Pool} (h : AInv R p) (hmc : MC p) (a : Nat) : AInv R (p.stepApi a) := by
  unfold Pool.stepApi
  split
  · exact h
  · split
    · exact h
    · simp only
      have h0 := h.modApi a (fun x => { x with sched := false })
      split
      · exact h0
      · exact h0.flushStage1 hmc a _
      · exact h0.gacStage1 hmc a _
      · exact h0.untilClosedStart a
      · exact h0.finishApi a _
      · split
        · exact h0.flushAfter1 a _ _
        · exact h0
      · split
        · exact h0.gacAfter1 a _ _
        · exact h0
      · split
        · exact h0.flushAfter2 a _
        · exact h0
      · split
        · exact h0.gacAfter2 a _
        · exact h0
      · exact h0

end Pool
end Taskpool
