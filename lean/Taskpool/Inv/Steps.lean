import Taskpool.Inv.Spawner
/-! Every handle and every external operation (except `pool_size = …`) preserves `Good`;
hence C01's bound for all histories and all schedules. -/
namespace Taskpool
namespace Pool

/-- the spawner's waiter entry is taken out of the deque -/
def dropWaiter (p : Pool) (m : Nat) : Pool :=
  { p with sem := { p.sem with waiters := (removeWaiterL m p.sem.waiters).2 } }

theorem removeWaiterL_sub (m : Nat) (ws : List Waiter) : ∀ w, w ∈ (removeWaiterL m ws).2 → w ∈ ws := by
  induction ws with
  | nil => intro w hw; simp [removeWaiterL] at hw
  | cons w0 ws ih =>
    intro w hw
    unfold removeWaiterL at hw
    split at hw
    · exact List.mem_cons_of_mem _ hw
    · simp only at hw
      rcases List.mem_cons.mp hw with rfl | h
      · exact List.mem_cons_self
      · exact List.mem_cons_of_mem _ (ih w h)

theorem wakeNext_regs (p : Pool) :
    let q := (({ p with sem := p.sem.wakeNext.1 } : Pool).schedOpt p.sem.wakeNext.2)
    q.running = p.running ∧ q.cancelledR = p.cancelledR ∧ q.ended = p.ended ∧ q.lost = p.lost := by
  simp

theorem wakeNext_apis (p : Pool) :
    (({ p with sem := p.sem.wakeNext.1 } : Pool).schedOpt p.sem.wakeNext.2).apis = p.apis := by simp

theorem wakeNext_tasks (p : Pool) :
    (({ p with sem := p.sem.wakeNext.1 } : Pool).schedOpt p.sem.wakeNext.2).tasks = p.tasks := by simp

theorem wakeNext_inf (p : Pool) (hv : p.sem.value = .inf) (hw : p.sem.waiters = []) :
    (({ p with sem := p.sem.wakeNext.1 } : Pool).schedOpt p.sem.wakeNext.2).sem.value = .inf ∧
    (({ p with sem := p.sem.wakeNext.1 } : Pool).schedOpt p.sem.wakeNext.2).sem.waiters = [] := by
  unfold Sem.wakeNext
  simp [hv, hw, wakeNextL]

theorem reqsLen_createTask (p : Pool) (m : Nat) (isMap : Bool) : (p.createTask m isMap).reqs.length = p.reqs.length := by
  unfold createTask
  simp [emitRef, modReq]

theorem wakeNext_mapFrame (p : Pool) :
    MapFrame p (({ p with sem := p.sem.wakeNext.1 } : Pool).schedOpt p.sem.wakeNext.2) :=
  (MapFrame.of_tasks p ({ p with sem := p.sem.wakeNext.1 } : Pool) rfl rfl (fun t tk' h => ⟨tk', h, rfl, rfl⟩)).trans
    (tame_schedOpt _ _).mapFrame

/-- the books of a spawner that was waiting for room: apply/start — the invocation in hand is still counted in
`remaining`; map — one element is in hand -/
def PW : Cnt → MFrame → Prop := fun c fr =>
  (c.kind = .apply → c.created + c.skipped + c.remaining = c.n0 ∧ 1 ≤ c.remaining) ∧ (c.kind = .map → PM c.left 1 c fr)

theorem PW.ff : FrameFree PW := fun _ _ _ h => h

theorem PW.created {r : Req} (h : PW r.cnt r.frame) :
    PC ({ r with created := r.created + 1 } : Req).cnt ({ r with created := r.created + 1 } : Req).frame := by
  refine ⟨fun hk => ?_, fun hk => ?_⟩
  · have := h.1 hk
    show r.created + 1 + r.skipped + (r.remaining - 1) = r.n0
    have a : r.created + r.skipped + r.remaining = r.n0 := this.1
    have b : 1 ≤ r.remaining := this.2
    omega
  · obtain ⟨a, b, c, d⟩ := h.2 hk
    exact ⟨a, b, by show r.pulled = r.created + 1 + r.skipped + 0; have : r.pulled = r.created + r.skipped + 1 := c; omega, rfl⟩

/-- `acquire()` returned in `_start_task`: the task is created; `k` = the map slot the spawner carried (1 for a map
request, 0 otherwise) is now in flight and goes to the new task -/
theorem roomGranted_tail {cap : Cap} {L R : Bool} (p : Pool) (m : Nat) (isMap : Bool) (hph : PhaseOK p) (hreg : RegOK p)
    (hgrp : GroupsOK p) (hlife : LifeOK p) (hpre : SlotPre cap p) (hst : Strict L R p)
    (hmap : MapMid p m (if isMap then 1 else 0)) (hlt : m < p.reqs.length) (hfl : FlushOK p) (hacc : AccAt p m PW)
    (hnw : ∀ r, p.reqs[m]? = some r → r.frame ≠ .waitRoom) (hcn : CancEx (· = m) p) (hsn : SnapNone p m) :
    Good cap L R (((if (!p.sem.value.isZero) = true then (({ p with sem := p.sem.wakeNext.1 } : Pool).schedOpt p.sem.wakeNext.2) else p).createTask m
      isMap).continueSpawner m) := by
  have snapCreate : ∀ q : Pool, SnapNone q m → SnapNone (q.createTask m isMap) m := by
    intro q hq r hr
    unfold createTask at hr
    simp only [emitRef, modReq] at hr
    obtain ⟨x, hx, rfl⟩ := getElem?_modify_some q.reqs m m _ r hr
    simp only [if_true]
    exact hq x hx
  split
  · rename_i hz
    have hcn1 : CancEx (· = m) (({ p with sem := p.sem.wakeNext.1 } : Pool).schedOpt p.sem.wakeNext.2) :=
      (tame_schedOpt _ _).cok _ (hcn.frame (fun i x => Sem.wakeNext_own p.sem i x) (fun _ r' a => Or.inl ⟨r', a, CSame.refl r'⟩))
    have hsn1 : SnapNone (({ p with sem := p.sem.wakeNext.1 } : Pool).schedOpt p.sem.wakeNext.2) m := by
      intro r' hr'
      rcases (tame_schedOpt ({ p with sem := p.sem.wakeNext.1 } : Pool) p.sem.wakeNext.2).rq m r' hr' with ⟨r, a, b⟩ | ⟨hge, _⟩
      · cases ho : p.sem.wakeNext.2 with
        | none => rw [ho] at hr'; exact hsn r' hr'
        | some w =>
          rw [ho] at hr'
          simp only [schedOpt, schedMeta, emitRef, modReq] at hr'
          obtain ⟨x, hx, rfl⟩ := getElem?_modify_some p.reqs w m _ r' hr'
          split
          · exact hsn x hx
          · exact hsn x hx
      · have : m < p.reqs.length := hlt
        exact absurd hge (by simpa using this)
    have h3 := wakeNext_tasks p
    obtain ⟨r1, r2, r3, r4⟩ := wakeNext_regs p
    have hlt' : m < (({ p with sem := p.sem.wakeNext.1 } : Pool).schedOpt p.sem.wakeNext.2).reqs.length :=
      Nat.lt_of_lt_of_le hlt (wakeNext_mapFrame p).rql
    -- `_wake_up_next` re-establishes the no-lost-wake-up invariant outright
    have hwk' : WakeOK (({ p with sem := p.sem.wakeNext.1 } : Pool).schedOpt p.sem.wakeNext.2) := by
      intro _ v _ _ hgr
      have hs : (({ p with sem := p.sem.wakeNext.1 } : Pool).schedOpt p.sem.wakeNext.2).sem = p.sem.wakeNext.1 := by simp
      rw [hs] at hgr ⊢
      exact Sem.wakeNext_wake p.sem hgr
    refine good_continueSpawner _ m ⟨good0_createTask_afterTake _ m _ ?_ (hreg.of_eq h3 r1 r2 r3 r4)
      (hgrp.of_eq (by simp) (by rw [h3])) (hlife.of_eq h3 r4) ?_ (hst.of_eq r4 (wakeNext_apis p) (by simp))
      (hfl.frame (by simp) (wakeNext_apis p) (fun t ⟨tk, a, b⟩ => ⟨tk, by rw [h3]; exact a, b⟩)) hwk',
      (mapOK_createTask isMap ((wakeNext_mapFrame p).mid hmap hlt) hlt').mid m,
      accAt_createTask isMap ((wakeNext_mapFrame p).accFrame.atReq hacc hlt (fun c fr fr' x _ => PW.ff c fr fr' x)) hlt'
        (fun r _ hp => PW.created hp),
      by rw [reqsLen_createTask]; exact hlt', fun r' hr' => by
        obtain ⟨r0, a, b⟩ := frame_createTask _ m isMap m r' hr'
        rw [b]
        rcases (wakeNext_mapFrame p).rq m r0 a with ⟨r1, a1, b1⟩ | ⟨hge, _⟩
        · rcases b1.fr with e | e
          · rw [e]; exact hnw r1 a1
          · rw [e]; intro x; cases x
        · omega, cancEx_createTask isMap hcn1 hsn1⟩ (snapCreate _ hsn1)
    · intro i tk h hn; rw [h3] at h; exact hph i tk h hn
    · cases cap with
      | fin n =>
        obtain ⟨v, hv, hs⟩ := hpre
        have hpos : 0 < v := by
          rcases Nat.eq_zero_or_pos v with rfl | h
          · rw [hv] at hz; simp [Cap.isZero] at hz
          · exact h
        obtain ⟨v', h1, h2, _⟩ := wakeNext_effect p v hv hpos
        exact ⟨v', h1, by rw [h3]; omega⟩
      | inf => exact wakeNext_inf p hpre.1 hpre.2
  · rename_i hz
    refine good_continueSpawner _ m ⟨good0_createTask_afterTake p m _ hph hreg hgrp hlife hpre hst hfl ?_,
      (mapOK_createTask isMap hmap hlt).mid m, accAt_createTask isMap hacc hlt (fun r _ hp => PW.created hp),
      by rw [reqsLen_createTask]; exact hlt, fun r' hr' => by
        obtain ⟨r0, a, b⟩ := frame_createTask _ m isMap m r' hr'
        rw [b]; exact hnw r0 a, cancEx_createTask isMap hcn hsn⟩ (snapCreate _ hsn)
    -- no free slot: nothing to show
    intro _ v hv hpos
    rw [hv] at hz
    cases v with
    | zero => omega
    | succ n => simp [Cap.isZero] at hz

theorem roomGranted_good {cap : Cap} {L R : Bool} (p : Pool) (m : Nat) (r : Req) (hph : PhaseOK p) (hreg : RegOK p)
    (hgrp : GroupsOK p) (hlife : LifeOK p) (hpre : SlotPre cap p) (hst : Strict L R p)
    (hmap : MapOK p) (hlt : m < p.reqs.length)
    (hfr : ReqAt p m (fun x => x.frame = .waitRoom ∧ x.kind = r.kind)) (hfl : FlushOK p) (hacc : AccOK p)
    (hcn : CancEx (· = m) p) (hsn : SnapNone p m) :
    Good cap L R (p.roomGranted m r) := by
  unfold roomGranted
  simp only
  refine roomGranted_tail (p.modReq m fun x => { x with frame := MFrame.running }) m (r.kind == .map) hph
    (hreg.of_eq rfl rfl rfl rfl rfl) (hgrp.of_eq rfl rfl) (hlife.of_eq rfl rfl) hpre (hst.of_eq rfl rfl) ?_ (by simpa [modReq] using hlt)
    (hfl.frame rfl rfl (fun _ h => h)) ?_ ?_ (hcn.modReqSelf _ (fun _ _ => ⟨rfl, Or.inl ⟨rfl, rfl⟩⟩))
    (ReqAt.modReq hsn _ (fun _ hx => hx))
  rotate_left
  · -- the books of a spawner that was suspended in `_start_task`
    refine (hacc.atReq m).modReq _ (fun _ => rfl) ?_
    intro x hx hp
    have hfx := (hfr x hx).1
    refine ⟨fun hk => ?_, fun hk => ?_⟩
    · have a := (hp.1 hk).1
      have b := (hp.1 hk).2.1 hfx
      have a' : ((x.created + x.skipped + x.remaining : Nat) : Int) = x.n0 + 0 := a
      exact ⟨by show x.created + x.skipped + x.remaining = x.n0; omega, b⟩
    · obtain ⟨a, b, c, d, _⟩ := hp.2 hk
      exact ⟨hk, a, d (Or.inl hfx), rfl⟩
  · intro r' hr'
    simp only [modReq] at hr'
    obtain ⟨x, hx, rfl⟩ := getElem?_modify_some p.reqs m m _ r' hr'
    simp
  -- the ghost frame: the map slot a map spawner carried is now in flight
  refine (hmap.mid m).modReq _ _ ?_ (fun _ => rfl) (fun _ _ _ _ hf => by cases hf)
  intro x v hx hv
  have hp : Req.pend { x with frame := MFrame.running } = 0 := by simp [Req.pend]
  have hw : ({ x with frame := MFrame.running } : Req).mapSem.waiters = x.mapSem.waiters := rfl
  obtain ⟨hf, hk⟩ := hfr x hx
  have key : ((v + grantsL x.mapSem.waiters + 0 : Nat) : Int) + (if (r.kind == ReqKind.map) = true then 1 else 0)
      = ((v + grantsL x.mapSem.waiters + x.pend : Nat) : Int) + 0 := by
    by_cases hkm : r.kind = .map
    · have hacq := hmap.acq m x hx (hk.trans hkm) hf
      have hpx : x.pend = 1 := by simp [Req.pend, hk.trans hkm, hacq, hf]
      rw [hpx]; simp [hkm]
    · have : (r.kind == ReqKind.map) = false := by simpa using hkm
      have hpx : x.pend = 0 := by
        have : (x.kind == ReqKind.map) = false := by rw [hk]; exact this
        simp [Req.pend, this]
      rw [hpx]; simp [this]
  refine ⟨v, hv, ?_, fun ho => ⟨ho, ?_⟩⟩
  · rw [hp, hw]; omega
  · rw [hp, hw]; omega

/-- slot conservation while a removed waiter entry may still carry a granted slot -/
def SlotGrant (cap : Cap) (p : Pool) (st : Option WaitSt) : Prop :=
  match cap with
  | .fin n => ∃ v, p.sem.value = .fin v ∧
      v + heldL p.tasks + (grantsL p.sem.waiters + (if st = some .granted then 1 else 0)) = n
  | .inf => p.sem.value = .inf ∧ p.sem.waiters = []

theorem reqAt_schedOpt {p : Pool} {m : Nat} {P : Req → Prop} (h : ReqAt p m P) (o : Option Nat)
    (hP : ∀ x, P x → P { x with sched := true }) : ReqAt (p.schedOpt o) m P := by
  cases o with
  | none => exact h
  | some w =>
    intro r hr
    simp only [schedOpt, schedMeta, emitRef, modReq] at hr
    obtain ⟨x, hx, rfl⟩ := getElem?_modify_some p.reqs w m _ r hr
    split
    · exact hP x (h x hx)
    · exact h x hx

theorem reqAt_releasePool {p : Pool} {m : Nat} {P : Req → Prop} (h : ReqAt p m P)
    (hP : ∀ x, P x → P { x with sched := true }) : ReqAt p.releasePool m P := by
  unfold releasePool
  exact reqAt_schedOpt (p := ({ p with sem := p.sem.release.1 } : Pool)) h _ hP

theorem reqAt_releaseMap {p : Pool} {m : Nat} {P : Req → Prop} (h : ReqAt p m P)
    (hP : ∀ x, P x → P { x with sched := true }) (hS : ∀ x s, P x → P { x with mapSem := s }) :
    ReqAt (p.releaseMap m) m P := by
  unfold releaseMap
  split
  · exact h
  · exact reqAt_schedOpt (h.modReq _ (fun x hx => hS x _ hx)) _ hP

/-- a spawner that ends while it carries a map slot it has just handed back: the books balance again -/
theorem mapOK_finishMeta_carried {p : Pool} {m : Nat} (o : Outcome) (h : MapMid p m (-1))
    (hat : ReqAt p m (fun x => x.pend = 1)) : MapOK (p.finishMeta m o) := by
  unfold finishMeta
  split
  · rename_i hn
    refine ⟨h.ref, ?_, h.wk, h.acq⟩
    intro m' r hr
    obtain ⟨v, hv, hs, hs2⟩ := h.le m' r hr
    have : m' ≠ m := by intro e; subst e; rw [hn] at hr; cases hr
    simp only [this, if_false] at hs hs2
    exact ⟨v, hv, by omega, fun ho => by have := hs2 ho; omega⟩
  · rename_i r hr
    refine Tame.map (tame_emitChildren _ _) ?_
    refine MapMid.ok (m := m) (k := 0) ?_
    refine h.modReq _ 0 ?_ (fun _ => rfl) (fun _ _ _ _ hf => by cases hf)
    intro x v hx hv
    refine ⟨v, hv, ?_, fun ho => by cases ho⟩
    have hp : Req.pend { x with frame := MFrame.done, outcome := some (if (o == Outcome.ok && r.mustCancel) = true then Outcome.cancelled else o), sched := false, mustCancel := false } = 0 := by
      simp [Req.pend]
    have hw : ({ x with frame := MFrame.done, outcome := some (if (o == Outcome.ok && r.mustCancel) = true then Outcome.cancelled else o), sched := false, mustCancel := false } : Req).mapSem.waiters = x.mapSem.waiters := rfl
    rw [hp, hw, hat x hx]; omega

/-- `CancelledError` inside `_enough_room.acquire()`: a granted pool slot goes back, and so does the map slot a map
spawner carried -/
theorem roomWaitCancelled_good {cap : Cap} {L R : Bool} (p : Pool) (m : Nat) (r : Req) (st : Option WaitSt) (hph : PhaseOK p)
    (hreg : RegOK p) (hgrp : GroupsOK p) (hlife : LifeOK p) (hsg : SlotGrant cap p st) (hst' : Strict L R p)
    (hmap : MapOK p) (hlt : m < p.reqs.length)
    (hfr : ReqAt p m (fun x => x.frame = .waitRoom ∧ x.kind = r.kind ∧ x.acquired = r.acquired)) (hfl : FlushOK p)
    (hwk : st ≠ some .granted → WakeOK p) (hacc : AccOK p) (hcn : CancEx (· = m) p) :
    Good cap L R (p.roomWaitCancelled m r st) := by
  unfold roomWaitCancelled
  simp only
  have key : (Good0 cap L R (if (st == some WaitSt.granted) = true then p.releasePool else p) ∧
      MapOK (if (st == some WaitSt.granted) = true then p.releasePool else p) ∧
      AccOK (if (st == some WaitSt.granted) = true then p.releasePool else p) ∧
      CancEx (· = m) (if (st == some WaitSt.granted) = true then p.releasePool else p)) ∧
      ReqAt (if (st == some WaitSt.granted) = true then p.releasePool else p) m
        (fun x => x.frame = .waitRoom ∧ x.kind = r.kind ∧ x.acquired = r.acquired) ∧
      m < (if (st == some WaitSt.granted) = true then p.releasePool else p).reqs.length := by
    split
    · rename_i h
      have hst : st = some .granted := by simpa using h
      have h3 := releasePool_tasks' p
      obtain ⟨r1, r2, r3, r4⟩ := releasePool_regs p
      refine ⟨⟨⟨?_, ?_, hreg.of_eq h3 r1 r2 r3 r4, hgrp.of_eq (releasePool_groups p) (by rw [h3]), hlife.of_eq h3 r4,
        hfl.frame (releasePool_gathers p) (releasePool_apis p) (fun t ⟨tk, a, b⟩ => ⟨tk, by rw [h3]; exact a, b⟩),
        wakeOK_releasePool p,
        (hst'.of_eq r4 (releasePool_apis p) (releasePool_resized p)).rz, (hst'.of_eq r4 (releasePool_apis p) (releasePool_resized p)).ll, (hst'.of_eq r4 (releasePool_apis p) (releasePool_resized p)).al⟩,
        (mapFrame_releasePool p).map hmap, (mapFrame_releasePool p).acc hacc, cancOK_releasePool p hcn⟩, reqAt_releasePool hfr (fun _ h => h),
        Nat.lt_of_lt_of_le hlt (mapFrame_releasePool p).rql⟩
      · cases cap with
        | fin n =>
          obtain ⟨v, hv, hs⟩ := hsg
          obtain ⟨v', h1, h2, _⟩ := releasePool_effect p v hv
          refine ⟨v', h1, ?_⟩
          rw [h3]; simp [hst] at hs; omega
        | inf => exact releasePool_inf p hsg.1 hsg.2
      · intro i tk h hn; rw [h3] at h; exact hph i tk h hn
    · rename_i h
      have hst : ¬ st = some .granted := by simpa using h
      refine ⟨⟨⟨?_, hph, hreg, hgrp, hlife, hfl, hwk hst, hst'.rz, hst'.ll, hst'.al⟩, hmap, hacc, hcn⟩, hfr, hlt⟩
      cases cap with
      | fin n =>
        obtain ⟨v, hv, hs⟩ := hsg
        exact ⟨v, hv, by simp [hst] at hs; omega⟩
      | inf => exact hsg
  obtain ⟨⟨k0, kmap, kacc, kcn⟩, kat, klt⟩ := key
  split
  · rename_i hc
    have hkm : r.kind = .map ∧ r.acquired = true := by simpa using hc
    refine ⟨(Tame0.trans (tame0_releaseMap _ m) (tame_finishMeta _ m _).toTame0).good0 k0, ?_,
      ((accFrame_releaseMap _ m).trans (tame_finishMeta _ m _).accFrame).acc kacc,
      CancEx.close ((tame_finishMeta _ m _).cok _ (cancOK_releaseMap _ m kcn)) (fun x _ _ hx _ => Or.inl (finishMeta_frame _ m _ x hx))⟩
    refine mapOK_finishMeta_carried _ (mapMid_releaseMap (k := -1) (kmap.mid m) klt) ?_
    refine reqAt_releaseMap ?_ (fun _ h => h) (fun _ _ h => h)
    intro x hx
    obtain ⟨a, b, c⟩ := kat x hx
    simp [Req.pend, a, b.trans hkm.1, c.trans hkm.2]
  · exact ⟨(tame_finishMeta _ m _).toTame0.good0 k0, (tame_finishMeta _ m _).map kmap, (tame_finishMeta _ m _).acc kacc,
      CancEx.close ((tame_finishMeta _ m _).cok _ kcn) (fun x _ _ hx _ => Or.inl (finishMeta_frame _ m _ x hx))⟩

theorem good_wakeWaitRoomCore {cap : Cap} {L R : Bool} (p : Pool) (m : Nat) (r : Req) (hg : Good cap L R p)
    (hlt : m < p.reqs.length)
    (hfr : ReqAt p m (fun x => x.frame = .waitRoom ∧ x.kind = r.kind ∧ x.acquired = r.acquired))
    (hmc : ReqAt p m (fun x => x.mustCancel = r.mustCancel)) :
    Good cap L R (p.wakeWaitRoomCore m r) := by
  unfold wakeWaitRoomCore
  simp only
  have hrm := removeWaiterL_grants m p.sem.waiters
  -- the pool after the waiter was removed and `mustCancel` cleared
  have hph : PhaseOK (({ p with sem := { p.sem with waiters := (removeWaiterL m p.sem.waiters).2 } } : Pool).modReq m
      fun x => { x with mustCancel := false }) := fun i tk h hn => hg.phase i tk h hn
  have hreg : RegOK (({ p with sem := { p.sem with waiters := (removeWaiterL m p.sem.waiters).2 } } : Pool).modReq m
      fun x => { x with mustCancel := false }) := hg.reg.of_eq rfl rfl rfl rfl rfl
  have hgrp : GroupsOK (({ p with sem := { p.sem with waiters := (removeWaiterL m p.sem.waiters).2 } } : Pool).modReq m
      fun x => { x with mustCancel := false }) := hg.grp.of_eq rfl rfl
  have hlife : LifeOK (({ p with sem := { p.sem with waiters := (removeWaiterL m p.sem.waiters).2 } } : Pool).modReq m
      fun x => { x with mustCancel := false }) := hg.life.of_eq rfl rfl
  have hstr : Strict L R (({ p with sem := { p.sem with waiters := (removeWaiterL m p.sem.waiters).2 } } : Pool).modReq m
      fun x => { x with mustCancel := false }) := hg.strict.of_eq rfl rfl
  have hmp : MapOK (({ p with sem := { p.sem with waiters := (removeWaiterL m p.sem.waiters).2 } } : Pool).modReq m
      fun x => { x with mustCancel := false }) :=
    (mapFrame_modReq _ m _).map (hg.map.of_eq rfl rfl)
  have hfl : FlushOK (({ p with sem := { p.sem with waiters := (removeWaiterL m p.sem.waiters).2 } } : Pool).modReq m
      fun x => { x with mustCancel := false }) := hg.fl.frame rfl rfl (fun _ h => h)
  have hac : AccOK (({ p with sem := { p.sem with waiters := (removeWaiterL m p.sem.waiters).2 } } : Pool).modReq m
      fun x => { x with mustCancel := false }) :=
    (mapFrame_modReq _ m _).acc (hg.acc.of_eq rfl rfl)
  have hlt2 : m < (({ p with sem := { p.sem with waiters := (removeWaiterL m p.sem.waiters).2 } } : Pool).modReq m
      fun x => { x with mustCancel := false }).reqs.length := by simpa [modReq] using hlt
  have hfr2 : ReqAt (({ p with sem := { p.sem with waiters := (removeWaiterL m p.sem.waiters).2 } } : Pool).modReq m
      fun x => { x with mustCancel := false }) m (fun x => x.frame = .waitRoom ∧ x.kind = r.kind ∧ x.acquired = r.acquired) :=
    ReqAt.modReq (p := ({ p with sem := { p.sem with waiters := (removeWaiterL m p.sem.waiters).2 } } : Pool)) hfr _ (fun _ h => h)
  -- cancelled spawners: everybody else's waiter entry stays, `m` itself is exempt while it runs
  have hcn2 : CancEx (· = m) (({ p with sem := { p.sem with waiters := (removeWaiterL m p.sem.waiters).2 } } : Pool).modReq m
      fun x => { x with mustCancel := false }) := by
    refine (hg.canc.ex (· = m)).frameAt (fun i hne x => ownCancelled_remove m i _ (fun e => hne e.symm) x) ?_
    intro i r' h'
    simp only [modReq] at h'
    obtain ⟨x, hx, rfl⟩ := getElem?_modify_some p.reqs m i _ r' h'
    refine Or.inl ⟨x, hx, ?_⟩
    split
    · rename_i e; exact Or.inr ⟨e.symm, rfl, rfl, rfl⟩
    · rename_i e; exact Or.inl ⟨fun e' => e e'.symm, CSame.refl x⟩
  -- if the wake-up was not a cancellation, the spawner has never been cancelled while it waited
  have hsn2 : ¬ ((removeWaiterL m p.sem.waiters).1 = some .cancelled ∨ r.mustCancel = true) → r.sched = r.sched →
      ReqAt p m (fun x => x.mustCancel = r.mustCancel) →
      SnapNone (({ p with sem := { p.sem with waiters := (removeWaiterL m p.sem.waiters).2 } } : Pool).modReq m
        fun x => { x with mustCancel := false }) m := by
    intro hnc _ hmc
    refine ReqAt.modReq (p := ({ p with sem := { p.sem with waiters := (removeWaiterL m p.sem.waiters).2 } } : Pool)) ?_ _ (fun _ hx => hx)
    intro x hx
    cases hs : x.cancelSnap with
    | none => rfl
    | some cu =>
      exfalso
      obtain ⟨_, _, hd⟩ := hg.canc m x cu.1 cu.2 hx (by rw [hs])
      have hfx := (hfr x hx).1
      rcases hd with hd | hd | hd | ⟨hd, hd2⟩ | ⟨hd, _⟩
      · exact hd
      · rw [hfx] at hd; cases hd
      · exact hnc (Or.inr (by rw [← hmc x hx]; exact hd))
      · exact hnc (Or.inl hd2)
      · rw [hfx] at hd; cases hd
  -- without a granted slot in the removed entry the invariant carries over (fewer waiters, same grants)
  have hwk : (removeWaiterL m p.sem.waiters).1 ≠ some .granted →
      WakeOK (({ p with sem := { p.sem with waiters := (removeWaiterL m p.sem.waiters).2 } } : Pool).modReq m
        fun x => { x with mustCancel := false }) := by
    intro hng a v b c d w hw
    have hsub : ∀ w, w ∈ (removeWaiterL m p.sem.waiters).2 → w ∈ p.sem.waiters := removeWaiterL_sub m p.sem.waiters
    have hgr : grantsL p.sem.waiters = 0 := by
      have d' : grantsL (removeWaiterL m p.sem.waiters).2 = 0 := d
      simp [hng] at hrm; omega
    exact hg.wk a v b c hgr w (hsub w hw)
  split
  · refine roomWaitCancelled_good _ m r _ hph hreg hgrp hlife ?_ hstr hmp hlt2 hfr2 hfl hwk hac hcn2
    cases cap with
    | fin n =>
      obtain ⟨v, hv, hs⟩ := hg.slot
      exact ⟨v, hv, by simp only [modReq_sem, modReq_tasks]; omega⟩
    | inf =>
      obtain ⟨hv, hw⟩ := hg.slot
      exact ⟨hv, by simp [modReq, hw, removeWaiterL]⟩
  · rename_i hnc0
    have hnc : ¬ ((removeWaiterL m p.sem.waiters).1 = some .cancelled ∨ r.mustCancel = true) := by
      simpa using hnc0
    split
    · rename_i hgr
      have hst : (removeWaiterL m p.sem.waiters).1 = some .granted := by simpa using hgr
      refine roomGranted_good _ m r hph hreg hgrp hlife ?_ hstr hmp hlt2 (fun x hx => ⟨(hfr2 x hx).1, (hfr2 x hx).2.1⟩) hfl hac
        hcn2 (hsn2 hnc rfl hmc)
      cases cap with
      | fin n =>
        obtain ⟨v, hv, hs⟩ := hg.slot
        exact ⟨v, hv, by simp only [modReq_sem, modReq_tasks]; simp [hst] at hrm; omega⟩
      | inf =>
      obtain ⟨hv, hw⟩ := hg.slot
      exact ⟨hv, by simp [modReq, hw, removeWaiterL]⟩
    · rename_i hgr
      have hst : ¬ (removeWaiterL m p.sem.waiters).1 = some .granted := by simpa using hgr
      refine ⟨⟨?_, hph, hreg, hgrp, hlife, hfl, hwk hst, hstr.rz, hstr.ll, hstr.al⟩, hmp, hac,
        hcn2.close (hsn2 hnc rfl hmc).hcm⟩
      cases cap with
      | fin n =>
        obtain ⟨v, hv, hs⟩ := hg.slot
        exact ⟨v, hv, by simp only [modReq_sem, modReq_tasks]; simp [hst] at hrm; omega⟩
      | inf =>
      obtain ⟨hv, hw⟩ := hg.slot
      exact ⟨hv, by simp [modReq, hw, removeWaiterL]⟩

theorem good_wakeWaitRoom {cap : Cap} {L R : Bool} (p : Pool) (m : Nat) (r : Req) (hg : Good cap L R p)
    (hlt : m < p.reqs.length)
    (hfr : ReqAt p m (fun x => x.frame = .waitRoom ∧ x.kind = r.kind ∧ x.acquired = r.acquired))
    (hmc : ReqAt p m (fun x => x.mustCancel = r.mustCancel)) :
    Good cap L R (p.wakeWaitRoom m r) := by
  unfold wakeWaitRoom
  split
  · exact good_wakeWaitRoomCore p m r hg hlt hfr hmc
  · exact hg

/-- the call's own semaphore handed the spawner a slot: it is in flight until the task is created or the spawner
starts waiting for room; one element is in hand -/
theorem good_mapSemGranted {cap : Cap} {L R : Bool} (p : Pool) (m : Nat) (r : Req)
    (h : SpSt cap L R p m 1 (PM r.items.length 1)) (hsn : SnapNone p m) : Good cap L R (p.mapSemGranted m r) := by
  unfold mapSemGranted
  simp only
  have h1 : SpSt cap L R (p.modReq m fun x => { x with acquired := true, frame := MFrame.running }) m 1 (PM r.items.length 1) := by
    refine h.modReq' _ _ (fun x => ⟨rfl, rfl, Or.inr rfl, fun h => h⟩) (fun _ _ _ _ hf => by cases hf) (fun _ => rfl)
      (fun x _ hp => hp)
  have hacq : ReqAt (p.modReq m fun x => { x with acquired := true, frame := MFrame.running }) m (fun r => r.acquired = true) :=
    reqAt_modReq_new _ m _ _ (fun _ => rfl)
  have hsn1 : SnapNone (p.modReq m fun x => { x with acquired := true, frame := MFrame.running }) m :=
    ReqAt.modReq hsn _ (fun _ hx => hx)
  split
  · rename_i hb
    obtain ⟨h2, hsn2⟩ := spSt_mapStartTask _ m _ h1 hsn1 hb
    exact good_mapLoop m _ _ h2 hsn2
  · rename_i hb
    exact good_mapStartTask _ m _ h1 hacq hsn1 (by simpa using hb)

/-- `_wake_up_next` keeps `value + grants` when the counter is positive -/
theorem _root_.Taskpool.Sem.wakeNext_effect (s : Sem) (v : Nat) (hv : s.value = .fin v) (hpos : 0 < v) :
    ∃ v', s.wakeNext.1.value = .fin v' ∧ v' + grantsL s.wakeNext.1.waiters = v + grantsL s.waiters := by
  unfold Sem.wakeNext
  simp only [hv]
  generalize hr : wakeNextL (Cap.fin v) s.waiters = r
  obtain ⟨c, ws', o⟩ := r
  obtain ⟨v', h1, h2⟩ := wakeNextL_sum v s.waiters hpos c ws' o hr
  exact ⟨v', by simp [h1], by simp [h2]⟩

/-- the tail of `acquire()` of the call's own semaphore after the wake-up (`g`: the entry had been granted, `c`: the
spawner was cancelled): the books change by the slot that is now in flight, and no wake-up is lost -/
theorem mapWake_facts (s : Sem) (m : Nat) (c : Bool) (v : Nat) (hv : s.value = .fin v) (hw : s.WakeInv) :
    ∃ v', (if ((removeWaiterL m s.waiters).1 == some .granted) = true then
            (if c = true then ({ s with waiters := (removeWaiterL m s.waiters).2 } : Sem).release
             else if (!({ s with waiters := (removeWaiterL m s.waiters).2 } : Sem).value.isZero) = true then
               ({ s with waiters := (removeWaiterL m s.waiters).2 } : Sem).wakeNext
             else (({ s with waiters := (removeWaiterL m s.waiters).2 } : Sem), none))
          else (({ s with waiters := (removeWaiterL m s.waiters).2 } : Sem), none)).1.value = .fin v' ∧
      ((v' + grantsL (if ((removeWaiterL m s.waiters).1 == some .granted) = true then
            (if c = true then ({ s with waiters := (removeWaiterL m s.waiters).2 } : Sem).release
             else if (!({ s with waiters := (removeWaiterL m s.waiters).2 } : Sem).value.isZero) = true then
               ({ s with waiters := (removeWaiterL m s.waiters).2 } : Sem).wakeNext
             else (({ s with waiters := (removeWaiterL m s.waiters).2 } : Sem), none))
          else (({ s with waiters := (removeWaiterL m s.waiters).2 } : Sem), none)).1.waiters : Nat) : Int) +
        (if ((removeWaiterL m s.waiters).1 == some .granted && !c) = true then 1 else 0) = (v + grantsL s.waiters : Nat) ∧
      (if ((removeWaiterL m s.waiters).1 == some .granted) = true then
            (if c = true then ({ s with waiters := (removeWaiterL m s.waiters).2 } : Sem).release
             else if (!({ s with waiters := (removeWaiterL m s.waiters).2 } : Sem).value.isZero) = true then
               ({ s with waiters := (removeWaiterL m s.waiters).2 } : Sem).wakeNext
             else (({ s with waiters := (removeWaiterL m s.waiters).2 } : Sem), none))
          else (({ s with waiters := (removeWaiterL m s.waiters).2 } : Sem), none)).1.WakeInv := by
  have hrm := removeWaiterL_grants m s.waiters
  have hv1 : ({ s with waiters := (removeWaiterL m s.waiters).2 } : Sem).value = .fin v := hv
  by_cases hg : (removeWaiterL m s.waiters).1 = some .granted
  · have hgb : ((removeWaiterL m s.waiters).1 == some .granted) = true := by simp [hg]
    simp only [hgb, if_true, Bool.true_and]
    simp only [hg, if_true] at hrm
    cases c with
    | true =>
      obtain ⟨v', a, b⟩ := Sem.release_effect _ v hv1
      simp only [if_true]
      refine ⟨v', a, ?_, fun _ _ _ hgr => Sem.release_wake _ hgr⟩
      simp only [Bool.not_true, Bool.false_eq_true, if_false]
      have b' : v' + grantsL ({ s with waiters := (removeWaiterL m s.waiters).2 } : Sem).release.1.waiters
          = v + 1 + grantsL (removeWaiterL m s.waiters).2 := b
      omega
    | false =>
      simp only [Bool.false_eq_true, if_false, Bool.not_false, if_true]
      by_cases hz : v = 0
      · subst hz
        have : ({ s with waiters := (removeWaiterL m s.waiters).2 } : Sem).value.isZero = true := by rw [hv1]; rfl
        simp only [this, Bool.not_true, Bool.false_eq_true, if_false]
        refine ⟨0, hv1, ?_, fun v' hv' hp => ?_⟩
        · show ((0 + grantsL (removeWaiterL m s.waiters).2 : Nat) : Int) + 1 = _
          omega
        · rw [hv1] at hv'; cases hv'; omega
      · have hz' : ({ s with waiters := (removeWaiterL m s.waiters).2 } : Sem).value.isZero = false := by
          rw [hv1]; cases v with | zero => omega | succ n => rfl
        simp only [hz', Bool.not_false, if_true]
        obtain ⟨v', a, b⟩ := Sem.wakeNext_effect _ v hv1 (by omega)
        refine ⟨v', a, ?_, fun _ _ _ hgr => Sem.wakeNext_wake _ hgr⟩
        have b' : v' + grantsL ({ s with waiters := (removeWaiterL m s.waiters).2 } : Sem).wakeNext.1.waiters
            = v + grantsL (removeWaiterL m s.waiters).2 := b
        omega
  · have hgb : ((removeWaiterL m s.waiters).1 == some .granted) = false := by simpa using hg
    simp only [hgb, Bool.false_eq_true, if_false, Bool.false_and]
    simp only [hg, if_false] at hrm
    refine ⟨v, hv1, ?_, Sem.wakeInv_remove s m hw hg⟩
    show ((v + grantsL (removeWaiterL m s.waiters).2 : Nat) : Int) + 0 = _
    omega

theorem good_wakeWaitMapSemCore {cap : Cap} {L R : Bool} (p : Pool) (m : Nat) (r : Req) (hg : Good cap L R p)
    (hlt : m < p.reqs.length)
    (hat : ReqAt p m (fun x => x.mapSem = r.mapSem ∧ x.frame = .waitMapSem ∧ x.items.length = r.items.length ∧ x.kind = r.kind))
    (hmc : ReqAt p m (fun x => x.mustCancel = r.mustCancel)) :
    Good cap L R (p.wakeWaitMapSemCore m r) := by
  unfold wakeWaitMapSemCore
  simp only
  generalize hc : ((removeWaiterL m r.mapSem.waiters).1 == some WaitSt.cancelled || r.mustCancel) = c
  obtain ⟨x0, hx0⟩ : ∃ x, p.reqs[m]? = some x := ⟨p.reqs[m], List.getElem?_eq_getElem hlt⟩
  obtain ⟨v0, hv0, _⟩ := hg.map.le m x0 hx0
  have hv0' : r.mapSem.value = .fin v0 := by rw [← (hat x0 hx0).1]; exact hv0
  have hw0 : r.mapSem.WakeInv := by rw [← (hat x0 hx0).1]; exact hg.map.wk m x0 hx0
  obtain ⟨v', f1, f2, f3⟩ := mapWake_facts r.mapSem m c v0 hv0' hw0
  generalize hs2 : (if ((removeWaiterL m r.mapSem.waiters).1 == some WaitSt.granted) = true then
            (if c = true then ({ r.mapSem with waiters := (removeWaiterL m r.mapSem.waiters).2 } : Sem).release
             else if (!({ r.mapSem with waiters := (removeWaiterL m r.mapSem.waiters).2 } : Sem).value.isZero) = true then
               ({ r.mapSem with waiters := (removeWaiterL m r.mapSem.waiters).2 } : Sem).wakeNext
             else (({ r.mapSem with waiters := (removeWaiterL m r.mapSem.waiters).2 } : Sem), none))
          else (({ r.mapSem with waiters := (removeWaiterL m r.mapSem.waiters).2 } : Sem), none)) = s2 at f1 f2 f3 ⊢
  have h0 : SpSt cap L R ((p.modReq m fun x => { x with mapSem := s2.1, mustCancel := false }).schedOpt s2.2) m
      (if ((removeWaiterL m r.mapSem.waiters).1 == some .granted && !c) = true then 1 else 0)
      (fun c fr => AccReq c fr 0 ∧ fr = .waitMapSem ∧ c.left = r.items.length) := by
    refine SpSt.schedOpt ?_ _
    refine (hg.sp m hlt (fun x hx => by rw [(hat x hx).2.1]; intro e; cases e)).modReq _ _ _ ?_ (fun _ => rfl)
      (fun _ _ ha => ha) (fun _ => rfl) ?_ (fun _ h => h) (fun _ _ _ => f3)
    · intro x v hx hv
      have hp : Req.pend { x with mapSem := s2.1, mustCancel := false } = x.pend := rfl
      have hw : ({ x with mapSem := s2.1, mustCancel := false } : Req).mapSem.waiters = s2.1.waiters := rfl
      have hxm := (hat x hx).1
      rw [hxm] at hv
      rw [hv0'] at hv; cases hv
      refine ⟨v', f1, ?_, fun ho => ⟨ho, ?_⟩⟩
      all_goals
      rw [hp, hw, hxm]
      omega
    · intro x hx hp
      have := hat x hx
      exact ⟨hp, this.2.1, this.2.2.1⟩
  -- if the wake-up was not a cancellation, the spawner has never been cancelled while it waited
  have hsnF : c = false → SnapNone ((p.modReq m fun x => { x with mapSem := s2.1, mustCancel := false }).schedOpt s2.2) m := by
    intro hcf
    rw [hcf] at hc
    simp only [Bool.or_eq_false_iff, beq_eq_false_iff_ne, ne_eq] at hc
    suffices a : SnapNone p m from
      reqAt_schedOpt (ReqAt.modReq a (fun x => { x with mapSem := s2.1, mustCancel := false }) (fun _ hx => hx)) _ (fun _ hx => hx)
    intro x hx
    cases hs : x.cancelSnap with
    | none => rfl
    | some cu =>
      exfalso
      obtain ⟨_, _, hd⟩ := hg.canc m x cu.1 cu.2 hx (by rw [hs])
      have hfx := (hat x hx).2.1
      rcases hd with hd | hd | hd | ⟨hd, _⟩ | ⟨_, hd2⟩
      · exact hd
      · rw [hfx] at hd; cases hd
      · rw [hmc x hx, hc.2] at hd; cases hd
      · rw [hfx] at hd; cases hd
      · rw [(hat x hx).1] at hd2; exact hc.1 hd2
  cases c with
  | true =>
    -- cancelled while waiting for its own semaphore: a granted slot went back inside `acquire()`, the spawner ends
    simp only [Bool.not_true, Bool.and_false, Bool.false_eq_true, if_false] at h0
    simp only [if_true]
    exact good_finishMetaSp _ m _ h0 (Int.le_refl 0) (fun c fr x => x.1.frame (Or.inr (Or.inl rfl)))
  | false =>
    simp only [Bool.false_eq_true, if_false]
    split
    · rename_i hgr
      simp only [hgr, Bool.not_false, Bool.and_true, if_true] at h0
      refine good_mapSemGranted _ m r (h0.weaken ?_) (hsnF rfl)
      intro c fr hp
      -- suspended on its own semaphore: a map request with one element in hand
      obtain ⟨ha, hf, hl⟩ := hp
      subst hf
      have hkm : c.kind = .map := by
        cases hk : c.kind with
        | map => rfl
        | apply => exact absurd rfl (ha.1 hk).2.2
      obtain ⟨a, b, c', d, _⟩ := ha.2 hkm
      exact ⟨hkm, a, d (Or.inr rfl), hl⟩
    · rename_i hgr
      have : ((removeWaiterL m r.mapSem.waiters).1 == some WaitSt.granted) = false := by simpa using hgr
      simp only [this, Bool.false_and, Bool.false_eq_true, if_false] at h0
      exact h0.good rfl (fun c fr x => x.1) (hsnF rfl).hcm

theorem good_wakeWaitMapSem {cap : Cap} {L R : Bool} (p : Pool) (m : Nat) (r : Req) (hg : Good cap L R p)
    (hlt : m < p.reqs.length)
    (hat : ReqAt p m (fun x => x.mapSem = r.mapSem ∧ x.frame = .waitMapSem ∧ x.items.length = r.items.length ∧ x.kind = r.kind))
    (hmc : ReqAt p m (fun x => x.mustCancel = r.mustCancel)) :
    Good cap L R (p.wakeWaitMapSem m r) := by
  unfold wakeWaitMapSem
  split
  · exact good_wakeWaitMapSemCore p m r hg hlt hat hmc
  · exact hg

theorem good_stepMeta {cap : Cap} {L R : Bool} (p : Pool) (m : Nat) (hg : Good cap L R p) : Good cap L R (p.stepMeta m) := by
  unfold stepMeta
  split
  · exact hg
  · rename_i r hr
    have hlt : m < p.reqs.length := (List.getElem?_eq_some_iff.mp hr).1
    split
    · exact hg
    · simp only
      have hg0 := (tame_modReq p m (fun x => { x with sched := false })).good hg
      have hlt0 : m < (p.modReq m fun x => { x with sched := false }).reqs.length := by simpa [modReq] using hlt
      have hat : ∀ P : Req → Prop, P { r with sched := false } → ReqAt (p.modReq m fun x => { x with sched := false }) m P := by
        intro P hP x hx
        simp only [modReq] at hx
        obtain ⟨y, hy, rfl⟩ := getElem?_modify_some p.reqs m m _ x hx
        rw [hr] at hy; cases hy
        simpa using hP
      split
      · exact hg0
      · exact hg0
      · rename_i hf
        unfold stepMetaNotStarted
        split
        · exact (tame_finishMeta _ m _).good hg0
        · rename_i hnm
          -- not cancelled before it began: no snapshot
          have hsn : SnapNone (p.modReq m fun x => { x with sched := false }) m := by
            intro x hx
            have e := hat (fun y => y.frame = r.frame ∧ y.mustCancel = r.mustCancel) ⟨rfl, rfl⟩ x hx
            cases hs : x.cancelSnap with
            | none => rfl
            | some cu =>
              exfalso
              obtain ⟨_, _, hd⟩ := hg0.canc m x cu.1 cu.2 hx (by rw [hs])
              rcases hd with hd | hd | hd | ⟨hd, _⟩ | ⟨hd, _⟩
              · exact hd
              · rw [e.1, hf] at hd; cases hd
              · rw [e.2] at hd; exact hnm hd
              · rw [e.1, hf] at hd; cases hd
              · rw [e.1, hf] at hd; cases hd
          split
          · rename_i hk
            refine good_applyLoop m _ _ ⟨hg0.toGood0, hg0.map.mid m, ⟨hg0.acc.ref, hg0.acc.tk, fun m' r' a _ => hg0.acc.rq m' r' a, ?_⟩, hlt0,
              (fun x hx => by have e := hat (fun y => y.frame = r.frame) rfl x hx; rw [e, hf]; intro c; cases c), hg0.canc.ex _⟩ hsn
            · intro x hx
              have e := hat (fun y => y.kind = r.kind ∧ y.remaining = r.remaining) ⟨rfl, rfl⟩ x hx
              have ha := hg0.acc.rq m x hx
              have hka : x.kind = .apply := e.1.trans hk
              have := (ha.1 hka).1
              have this' : ((x.created + x.skipped + x.remaining : Nat) : Int) = x.n0 + 0 := this
              exact ⟨hka, by show x.created + x.skipped + r.remaining = x.n0; rw [← e.2]; omega⟩
          · rename_i hk
            refine good_mapLoop m _ _ ⟨hg0.toGood0, hg0.map.mid m, ⟨hg0.acc.ref, hg0.acc.tk, fun m' r' a _ => hg0.acc.rq m' r' a, ?_⟩, hlt0,
              (fun x hx => by have e := hat (fun y => y.frame = r.frame) rfl x hx; rw [e, hf]; intro c; cases c), hg0.canc.ex _⟩ hsn
            intro x hx
            have e := hat (fun y => y.kind = r.kind ∧ y.items = r.items ∧ y.frame = r.frame) ⟨rfl, rfl, rfl⟩ x hx
            have ha := hg0.acc.rq m x hx
            have hkm : x.kind = .map := by
              rw [e.1]; cases hkk : r.kind <;> simp_all
            obtain ⟨a, b, c, d, f⟩ := ha.2 hkm
            exact ⟨hkm, a, by have := f (e.2.2.trans hf); omega, by show x.items.length = r.items.length; rw [e.2.1]⟩
      · rename_i hf
        exact good_wakeWaitRoom _ m r hg0 hlt0 (hat _ ⟨hf, rfl, rfl⟩) (hat _ rfl)
      · rename_i hf
        exact good_wakeWaitMapSem _ m r hg0 hlt0 (hat _ ⟨rfl, hf, rfl, rfl⟩) (hat _ rfl)

/-! ### gather, flush, gather_and_close, until_closed: no slot moves -/

theorem childFinished_taskFin (p : Pool) (cs : List Child) (h : cs.all p.childFinished = true) :
    ∀ t, Child.task t ∈ cs → TaskFin p t := by
  intro t ht
  have := List.all_eq_true.mp h _ ht
  simp only [childFinished] at this
  split at this
  · rename_i k hk
    exact ⟨k, hk, by simpa using this⟩
  · cases this

/-- `_done_callback` of a gather: the count goes up; the outer future completes normally only when every child task
has finished -/
theorem tame_gatherChildDone (p : Pool) (g i b) : Tame p (p.gatherChildDone g i b) := by
  unfold gatherChildDone
  split
  · exact Tame.refl p
  · rename_i G hG
    split
    · exact Tame.refl p
    · rename_i c hc
      simp only
      have t1 : Tame p (p.modGather g fun x => { x with nfinished := x.nfinished + 1 }) :=
        tame_modGather p g _ (fun _ => rfl) (fun _ _ h => Or.inl h)
      split
      · exact t1
      · split
        · exact t1
        · rename_i o ho
          split
          · exact t1
          · rename_i hdef
            have hall : o = .ok → G.children.all p.childFinished = true := by
              intro e
              subst e
              simpa using hdef
            have t2 : Tame (p.modGather g fun x => { x with nfinished := x.nfinished + 1 })
                ((p.modGather g fun x => { x with nfinished := x.nfinished + 1 }).modGather g fun x => { x with outer := some o }) := by
              refine tame_modGather _ g _ (fun _ => rfl) ?_
              intro G1 hG1 hok
              right
              have e : o = .ok := by simpa using hok
              have hch : G1.children = G.children := by
                simp only [modGather, List.getElem?_modify, hG, Option.map_some, if_true] at hG1
                have : G1 = { G with nfinished := G.nfinished + 1 } := by simpa using hG1.symm
                rw [this]
              rw [hch]
              exact childFinished_taskFin p _ (hall e)
            split
            · exact (t1.trans t2).trans (tame_schedApi _ _)
            · exact t1.trans t2

theorem tame_registerChild (p : Pool) (c g i) : Tame p (p.registerChild c g i) := by
  unfold registerChild
  split
  · exact tame_modTask p _ _
  · exact tame_modReq p _ _

theorem tame_gatherScan (g : Nat) (cs : List Child) (i : Nat) (p : Pool) : Tame p (gatherScan g cs i p) := by
  induction cs generalizing i p with
  | nil => exact Tame.refl p
  | cons c cs ih =>
    unfold gatherScan
    refine Tame.trans ?_ (ih _ _)
    split
    · exact tame_gatherChildDone p g i false
    · exact tame_registerChild p c g i

/-- a new gather is appended: it has not completed unless it has no children at all -/
theorem tame_addGather (p : Pool) (G : Gather) (amb : Bool) (hG : G.outer = some .ok → G.children = []) :
    Tame p ({ p with gathers := p.gathers ++ [G], ambiguous := amb } : Pool) := by
  refine ⟨⟨rfl, rfl, rfl, rfl, rfl, rfl, rfl, fun h => h, List.Sublist.refl _, fun _ tk' h => ⟨tk', h, rfl⟩, rfl, ?_,
    fun h => h.of_eq rfl rfl, rfl⟩, Nat.le_refl _, fun _ r' h => Or.inl ⟨r', h, MSigLe.refl r'⟩, fun _ h => h.of_eq rfl rfl,
    Mono.of_eq _ _ rfl rfl rfl⟩
  intro h
  refine ⟨?_, ?_⟩
  · intro g G' hg hok t ht
    have hg' : (p.gathers ++ [G])[g]? = some G' := hg
    rw [List.getElem?_append] at hg'
    split at hg'
    · exact h.gth g G' hg' hok t ht
    · rcases Nat.lt_or_ge (g - p.gathers.length) 1 with h1 | h1
      · have : g - p.gathers.length = 0 := by omega
        rw [this] at hg'; simp at hg'; subst hg'
        rw [hG hok] at ht; cases ht
      · rw [List.getElem?_eq_none (by simpa using h1)] at hg'; cases hg'
  · intro a A g ha hfr hk
    obtain ⟨G0, hG0, hsub⟩ := h.api a A g ha hfr hk
    refine ⟨G0, ?_, hsub⟩
    show (p.gathers ++ [G])[g]? = some G0
    rw [List.getElem?_append_left (List.getElem?_eq_some_iff.mp hG0).1]; exact hG0

theorem tame_gatherStart (p : Pool) (cs re owner n) : Tame p (p.gatherStart cs re owner n).1 := by
  unfold gatherStart
  simp only
  refine Tame.trans ?_ (tame_gatherScan _ _ _ _)
  refine tame_addGather p _ _ ?_
  intro h
  simp only at h
  split at h
  · rename_i he; simpa using he
  · cases h

/-- the gather just started sits at the returned index and has the given children; the background calls are untouched -/
theorem gatherScan_facts (g : Nat) (cs : List Child) (i : Nat) (p : Pool) (ch : List Child) (G : Gather)
    (hG : p.gathers[g]? = some G) (hch : G.children = ch) :
    (∃ G', (gatherScan g cs i p).gathers[g]? = some G' ∧ G'.children = ch) ∧ (gatherScan g cs i p).apis = p.apis := by
  induction cs generalizing i p G with
  | nil => exact ⟨⟨G, hG, hch⟩, rfl⟩
  | cons c cs ih =>
    unfold gatherScan
    split
    · -- an already finished child: `gatherChildDone … false`
      have key : (∃ G', (p.gatherChildDone g i false).gathers[g]? = some G' ∧ G'.children = ch) ∧
          (p.gatherChildDone g i false).apis = p.apis := by
        unfold gatherChildDone
        simp only [hG]
        split
        · exact ⟨⟨G, hG, hch⟩, rfl⟩
        · have h1 : (p.modGather g fun x => { x with nfinished := x.nfinished + 1 }).gathers[g]? =
              some { G with nfinished := G.nfinished + 1 } := by
            simp only [modGather]; exact getElem?_modify_eq _ _ _ _ hG
          split
          · exact ⟨⟨_, h1, hch⟩, rfl⟩
          · split
            · exact ⟨⟨_, h1, hch⟩, rfl⟩
            · split
              · exact ⟨⟨_, h1, hch⟩, rfl⟩
              · split
                · rename_i hb; cases hb
                · rename_i o _ _ _
                  refine ⟨⟨{ G with nfinished := G.nfinished + 1, outer := some o }, ?_, hch⟩, rfl⟩
                  exact getElem?_modify_eq _ _ (fun x => { x with outer := some o }) _ h1
      obtain ⟨⟨G1, a, b⟩, c1⟩ := key
      obtain ⟨x, y⟩ := ih (i+1) _ G1 a b
      exact ⟨x, y.trans c1⟩
    · have key : (p.registerChild c g i).gathers = p.gathers ∧ (p.registerChild c g i).apis = p.apis := by
        unfold registerChild; split <;> exact ⟨rfl, rfl⟩
      obtain ⟨x, y⟩ := ih (i+1) _ G (by rw [key.1]; exact hG) hch
      exact ⟨x, y.trans key.2⟩

theorem gatherStart_facts (p : Pool) (cs : List Child) (re : Bool) (owner n : Nat) :
    (∃ G', (p.gatherStart cs re owner n).1.gathers[(p.gatherStart cs re owner n).2]? = some G' ∧ G'.children = cs) ∧
    (p.gatherStart cs re owner n).1.apis = p.apis := by
  unfold gatherStart
  simp only
  exact gatherScan_facts _ cs 0 _ cs
    { children := cs, nfinished := 0, owner := owner, retExc := re, outer := if cs.isEmpty then some .ok else none }
    (by simp) rfl

theorem tame_finishApi (p : Pool) (a o) : Tame p (p.finishApi a o) := tame_modApi p a _

/-- a fact about background call `a` -/
def ApiAt (p : Pool) (a : Nat) (P : Api → Prop) : Prop := ∀ x, p.apis[a]? = some x → P x

/-- the last step of `flush`: nothing is lost, because every task of the cancelled snapshot has finished — hence has
handed back its slot and left the cancelled registry -/
theorem good_flushAfter2 {cap : Cap} {L R : Bool} (p : Pool) (a o) (hg : Good cap L R p)
    (hdone : o = .ok → ∀ t ∈ (p.apis[a]?.getD default).snapC, TaskFin p t) : Good cap L R (p.flushAfter2 a o) := by
  unfold flushAfter2
  split
  · simp only
    refine (tame_finishApi _ a _).good ?_
    have hnone : p.lost = false → (p.cancelledR.any fun t => (p.apis[a]?.getD default).snapC.contains t && p.heldB t) = false := by
      intro hl
      rw [List.any_eq_false]
      intro t ht hc
      simp only [Bool.and_eq_true] at hc
      obtain ⟨tk, a1, b1⟩ := hdone rfl t (by simpa using hc.1)
      have hrel : tk.released = true := ((hg.life t tk a1).fin b1 hl).1
      obtain ⟨tk', a2, b2, _⟩ := hg.reg.can t ht
      rw [a1] at a2; cases a2
      rw [hrel] at b2; cases b2
    refine ⟨⟨hg.slot, hg.phase, ?_, hg.grp.of_eq rfl rfl, hg.life.lostMono rfl (fun h => by simp [h]),
      hg.fl.frame rfl rfl (fun _ h => h), hg.wk.of_eq rfl rfl, hg.rz,
      fun h => by show (p.lost || _) = false; rw [hg.ll h, hnone (hg.ll h)]; rfl, hg.al⟩, hg.map.of_eq rfl rfl,
      hg.acc.of_eq rfl rfl, hg.canc.of_eq rfl rfl⟩
    exact hg.reg.flushForget _ _ _ rfl rfl rfl rfl (by simp)
  · exact (tame_finishApi p a _).good hg

/-- the second half of `flush`, from the start of its second gather -/
theorem flush_tail {cap : Cap} {L R : Bool} (P : Pool) (a : Nat) (re : Bool) (cs1 cs2 : List Nat) (hg : Good cap L R P)
    (hsn : ApiAt P a (fun x => x.snapC = cs2 ∧ x.kind.isGac = false)) :
    Good cap L R (match (P.gatherStart (cs1.map Child.task ++ cs2.map Child.task) re a 0).1.gatherOuter
        (P.gatherStart (cs1.map Child.task ++ cs2.map Child.task) re a 0).2 with
      | some o => (P.gatherStart (cs1.map Child.task ++ cs2.map Child.task) re a 0).1.flushAfter2 a o
      | none => (P.gatherStart (cs1.map Child.task ++ cs2.map Child.task) re a 0).1.modApi a fun x =>
          { x with frame := .gather2 (P.gatherStart (cs1.map Child.task ++ cs2.map Child.task) re a 0).2 }) := by
  have hq := (tame_gatherStart P (cs1.map Child.task ++ cs2.map Child.task) re a 0).good hg
  obtain ⟨⟨G', hG', hch⟩, hap⟩ := gatherStart_facts P (cs1.map Child.task ++ cs2.map Child.task) re a 0
  generalize P.gatherStart (cs1.map Child.task ++ cs2.map Child.task) re a 0 = q at *
  have hsn' : ApiAt q.1 a (fun x => x.snapC = cs2 ∧ x.kind.isGac = false) := by
    intro x hx; rw [hap] at hx; exact hsn x hx
  split
  · rename_i o ho
    refine good_flushAfter2 _ a o hq ?_
    intro e t ht
    subst e
    have hout : G'.outer = some .ok := by
      unfold gatherOuter at ho; rw [hG'] at ho; exact ho
    refine hq.fl.gth _ G' hG' hout t ?_
    rw [hch]
    cases hx : q.1.apis[a]? with
    | none =>
      rw [hx] at ht
      have : (default : Api).snapC = [] := rfl
      simp [this] at ht
    | some x =>
      rw [hx] at ht
      simp only [Option.getD_some] at ht
      rw [(hsn' x hx).1] at ht
      exact List.mem_append_right _ (List.mem_map.mpr ⟨t, ht, rfl⟩)
  · refine (tame_modApi_of _ a (fun x => { x with frame := AFrame.gather2 q.2 }) (fun _ => rfl) ?_).good hq
    intro hf
    refine ⟨hf.gth, ?_⟩
    intro i A' g hi hfr' hk
    simp only [modApi] at hi
    obtain ⟨x, hx, rfl⟩ := getElem?_modify_some _ a i _ A' hi
    by_cases e : a = i
    · subst e
      simp only [if_true] at hfr' ⊢
      have hg' : q.2 = g := by injection hfr'
      subst hg'
      refine ⟨G', hG', ?_⟩
      intro t ht
      have ht' : t ∈ x.snapC := ht
      rw [(hsn' x hx).1] at ht'
      rw [hch]
      exact List.mem_append_right _ (List.mem_map.mpr ⟨t, ht', rfl⟩)
    · simp only [e, if_false] at hfr' hk ⊢
      exact hf.api i x g hx hfr' hk

theorem good_flushAfter1 {cap : Cap} {L R : Bool} (p : Pool) (a re o) (hg : Good cap L R p)
    (hfr : ApiAt p a (fun x => (∀ g, x.frame ≠ .gather2 g) ∧ x.kind.isGac = false)) :
    Good cap L R (p.flushAfter1 a re o) := by
  unfold flushAfter1
  split
  · exact (tame_finishApi p a _).good hg
  · simp only
    have h1 : Tame p ({ p with metaCancelled := [], reqs := p.reqs.map fun (r : Req) => { r with inCancelled := false } } : Pool) :=
      tame_of_map _ _ _ rfl rfl rfl (fun x => ⟨rfl, rfl, rfl, Nat.le_refl _, fun h => h, rfl, Or.inl rfl, fun h => h, fun h => h, fun _ => rfl, fun _ => Nat.le_refl _⟩)
    have h2 := tame_modApi ({ p with metaCancelled := [], reqs := p.reqs.map fun (r : Req) => { r with inCancelled := false } } : Pool) a
      (fun x => { x with snapE := p.ended, snapC := p.cancelledR }) (fun _ => rfl)
      (fun x hx g h => absurd h ((hfr x hx).1 g))
    refine flush_tail _ a re p.ended p.cancelledR ((h1.trans h2).good hg) ?_
    intro x hx
    simp only [modApi] at hx
    obtain ⟨y, hy, rfl⟩ := getElem?_modify_some p.apis a a _ x hx
    rw [if_pos rfl]
    exact ⟨rfl, (hfr y hy).2⟩

theorem good_flushStage1 {cap : Cap} {L R : Bool} (p : Pool) (a re) (hg : Good cap L R p)
    (hfr : ApiAt p a (fun x => (∀ g, x.frame ≠ .gather2 g) ∧ x.kind.isGac = false)) :
    Good cap L R (p.flushStage1 a re) := by
  unfold flushStage1
  simp only
  have h1 : Tame p ({ p with reqs := p.reqs.map fun (r : Req) => if r.inRunning && r.outcome.isSome then { r with inRunning := false } else r } : Pool) :=
    tame_of_map _ _ _ rfl rfl rfl (fun x => by split <;> exact ⟨rfl, rfl, rfl, Nat.le_refl _, fun h => h, rfl, Or.inl rfl, fun h => h, fun h => h, fun _ => rfl, fun _ => Nat.le_refl _⟩)
  split
  · refine good_flushAfter1 _ a re _ ((Tame.trans h1 (tame_gatherStart _ _ _ _ _)).good hg) ?_
    intro x hx
    rw [(gatherStart_facts _ _ _ _ _).2] at hx
    exact hfr x hx
  · exact (Tame.trans (Tame.trans h1 (tame_gatherStart _ _ _ _ _)) (tame_modApi _ a _)).good hg

/-- a gather that has completed normally and has every task filed as running or cancelled among its children: none of
those tasks still holds its slot (all have finished, hence — no task was lost so far — handed it back) -/
theorem noHeld_of_gather {cap : Cap} {L R : Bool} {p : Pool} (hg : Good cap L R p) (hl : p.lost = false) (g : Nat) (G : Gather)
    (hG : p.gathers[g]? = some G) (ho : G.outer = some .ok)
    (hsub : ∀ t ∈ p.running ++ p.cancelledR, Child.task t ∈ G.children) :
    (p.running ++ p.cancelledR).any p.heldB = false := by
  rw [List.any_eq_false]
  intro t ht hc
  obtain ⟨tk, a1, b1⟩ := hg.fl.gth g G hG ho t (hsub t ht)
  have hrel : tk.released = true := ((hg.life t tk a1).fin b1 hl).1
  simp [heldB, a1, hrel] at hc

/-- the closing step; in the strict variant it needs that nothing it drops still holds its slot -/
theorem good_gacAfter2 {cap : Cap} {L R : Bool} (p : Pool) (a o) (hg : Good cap L R p)
    (hsafe : L = false → o = .ok → (p.running ++ p.cancelledR).any p.heldB = false) : Good cap L R (p.gacAfter2 a o) := by
  unfold gacAfter2
  split
  · simp only
    refine (tame_finishApi _ a _).good ?_
    refine (tame_foldl _ _ (fun p w => tame_schedApi p w) _).good ?_
    exact ⟨⟨hg.slot, hg.phase, hg.reg.gacClear _ rfl rfl rfl rfl rfl, hg.grp.of_eq rfl rfl,
      hg.life.lostMono rfl (fun h => by simp [h]), hg.fl.frame rfl rfl (fun _ h => h), hg.wk.of_eq rfl rfl, hg.rz,
      fun h => by show (p.lost || _) = false; rw [hg.ll h, hsafe h rfl]; rfl, hg.al⟩,
      hg.map.of_eq rfl rfl, hg.acc.of_eq rfl rfl, hg.canc.of_eq rfl rfl⟩
  · exact (tame_finishApi p a _).good hg

/-- putting a `gather_and_close` call into its second gather: nothing to show for its snapshot -/
theorem tame_gacGather2 (p : Pool) (a g : Nat) (hk : ApiAt p a (fun x => x.kind.isGac = true)) :
    Tame p (p.modApi a fun x => { x with frame := .gather2 g }) := by
  refine tame_modApi_of p a _ (fun _ => rfl) ?_
  intro hf
  refine ⟨hf.gth, ?_⟩
  intro i A' g' hi hfr' hkind
  simp only [modApi] at hi
  obtain ⟨x, hx, rfl⟩ := getElem?_modify_some _ a i _ A' hi
  by_cases e : a = i
  · subst e
    simp only [if_true] at hkind
    rw [show ({ x with frame := AFrame.gather2 g } : Api).kind = x.kind from rfl, hk x hx] at hkind
    cases hkind
  · simp only [e, if_false] at hfr' hkind ⊢
    exact hf.api i x g' hx hfr' hkind

theorem good_gacAfter1 {cap : Cap} {L R : Bool} (p : Pool) (a re g) (hg : Good cap L R p)
    (hk : ApiAt p a (fun x => x.kind.isGac = true)) : Good cap L R (p.gacAfter1 a re g) := by
  unfold gacAfter1
  simp only
  split
  · exact (tame_finishApi p a _).good hg
  · have h1 : Tame p ({ p with metaCancelled := [], reqs := p.reqs.map fun (r : Req) => { r with inCancelled := false, inRunning := false } } : Pool) :=
      tame_of_map _ _ _ rfl rfl rfl (fun x => ⟨rfl, rfl, rfl, Nat.le_refl _, fun h => h, rfl, Or.inl rfl, fun h => h, fun h => h, fun _ => rfl, fun _ => Nat.le_refl _⟩)
    split
    · rename_i o ho
      have ht2 := Tame.trans h1 (tame_gatherStart
        ({ p with metaCancelled := [], reqs := p.reqs.map fun (r : Req) => { r with inCancelled := false, inRunning := false } } : Pool)
        (p.ended.map Child.task ++ p.cancelledR.map Child.task ++ p.running.map Child.task) re a 0)
      have hgq := ht2.good hg
      refine good_gacAfter2 _ a _ hgq ?_
      -- the second gather was complete at once: all its children — every task the registries hold — have finished
      intro hl e
      subst e
      obtain ⟨⟨G', hG', hch⟩, _⟩ := gatherStart_facts
        ({ p with metaCancelled := [], reqs := p.reqs.map fun (r : Req) => { r with inCancelled := false, inRunning := false } } : Pool)
        (p.ended.map Child.task ++ p.cancelledR.map Child.task ++ p.running.map Child.task) re a 0
      refine noHeld_of_gather hgq (hgq.ll hl) _ G' hG' ?_ ?_
      · simp only [gatherOuter, hG'] at ho; exact ho
      · intro t ht
        rw [hch]
        rw [ht2.toTame0.run, ht2.toTame0.can] at ht
        rcases List.mem_append.mp ht with h | h
        · exact List.mem_append_right _ (List.mem_map.mpr ⟨t, h, rfl⟩)
        · exact List.mem_append_left _ (List.mem_append_right _ (List.mem_map.mpr ⟨t, h, rfl⟩))
    · refine (Tame.trans (Tame.trans h1 (tame_gatherStart _ _ _ _ _)) (tame_gacGather2 _ a _ ?_)).good hg
      intro x hx
      rw [(gatherStart_facts _ _ _ _ _).2] at hx
      exact hk x hx

theorem good_gacStage1 {cap : Cap} {L R : Bool} (p : Pool) (a re) (hg : Good cap L R p)
    (hk : ApiAt p a (fun x => x.kind.isGac = true)) : Good cap L R (p.gacStage1 a re) := by
  unfold gacStage1
  simp only
  split
  · refine good_gacAfter1 _ a re _ (Tame.good (Tame.trans ?_ (tame_gatherStart _ _ _ _ _)) hg) ?_
    · exact tame_of_eq _ _ rfl rfl
    · intro x hx
      rw [(gatherStart_facts _ _ _ _ _).2] at hx
      exact hk x hx
  · refine Tame.good (Tame.trans (Tame.trans ?_ (tame_gatherStart _ _ _ _ _)) (tame_modApi _ a _)) hg
    exact tame_of_eq _ _ rfl rfl

theorem tame_untilClosedStart (p : Pool) (a) : Tame p (p.untilClosedStart a) := by
  unfold untilClosedStart
  split
  · exact tame_finishApi p a _
  · refine Tame.trans ?_ (tame_modApi _ a _)
    exact tame_of_eq _ _ rfl rfl

/-- what the closing stage of a `gather_and_close` needs in the strict variant: its second gather has every task that
is filed as running or cancelled among its children (`SealOK.g2`, `Inv/Seal.lean`) -/
def GacAwaitsAll (p : Pool) : Prop :=
  ∀ (a : Nat) (A : Api) (g : Nat), p.apis[a]? = some A → A.kind.isGac = true → A.frame = .gather2 g →
    ∃ G : Gather, p.gathers[g]? = some G ∧ ∀ t ∈ p.running ++ p.cancelledR, Child.task t ∈ G.children

theorem good_stepApi {cap : Cap} {L R : Bool} (p : Pool) (a) (hg : Good cap L R p)
    (h5 : L = false → R = true → GacAwaitsAll p) : Good cap L R (p.stepApi a) := by
  unfold stepApi
  split
  · exact hg
  · rename_i A hA
    split
    · exact hg
    · simp only
      have hg0 : Good cap L R (p.modApi a fun x => { x with sched := false }) := (tame_modApi p a _).good hg
      have hat : ∀ P : Api → Prop, P { A with sched := false } → ApiAt (p.modApi a fun x => { x with sched := false }) a P := by
        intro P hP x hx
        simp only [modApi] at hx
        obtain ⟨y, hy, rfl⟩ := getElem?_modify_some p.apis a a _ x hx
        rw [hA] at hy; cases hy
        simpa using hP
      -- in the strict variant there is no `gather_and_close` call
      have hnogac : L = false → R = false → A.kind.isGac = false := fun h h' => hg.al h h' A (List.mem_of_getElem? hA)
      split
      · exact hg0
      · rename_i re hf hk
        refine good_flushStage1 _ a re hg0 (hat _ ⟨fun g h => ?_, ?_⟩)
        · rw [show ({ A with sched := false } : Api).frame = A.frame from rfl, hf] at h; cases h
        · rw [show ({ A with sched := false } : Api).kind = A.kind from rfl, hk]; rfl
      · rename_i re hf hk
        exact good_gacStage1 _ a re hg0 (hat _ (by rw [show ({ A with sched := false } : Api).kind = A.kind from rfl, hk]; rfl))
      · exact (tame_untilClosedStart _ _).good hg0
      · exact (tame_finishApi _ _ _).good hg0
      · rename_i g re hf hk
        split
        · refine good_flushAfter1 _ a re _ hg0 (hat _ ⟨fun g' h => ?_, ?_⟩)
          · rw [show ({ A with sched := false } : Api).frame = A.frame from rfl, hf] at h; cases h
          · rw [show ({ A with sched := false } : Api).kind = A.kind from rfl, hk]; rfl
        · exact hg0
      · rename_i g re hf hk
        split
        · exact good_gacAfter1 _ a re g hg0 (hat _ (by rw [show ({ A with sched := false } : Api).kind = A.kind from rfl, hk]; rfl))
        · exact hg0
      · rename_i g re hf hk
        split
        · rename_i o ho
          refine good_flushAfter2 _ a o hg0 ?_
          intro e t ht
          subst e
          -- the call is suspended in its second gather, which has completed normally
          have hx : (p.modApi a fun x => { x with sched := false }).apis[a]? = some { A with sched := false } := by
            simp only [modApi]; exact getElem?_modify_eq _ _ _ _ hA
          rw [hx] at ht
          simp only [Option.getD_some] at ht
          obtain ⟨G, hG, hsub⟩ := hg0.fl.api a _ g hx hf (by rw [show ({ A with sched := false } : Api).kind = A.kind from rfl, hk]; rfl)
          have hout : G.outer = some .ok := by simp only [gatherOuter, hG] at ho; exact ho
          exact hg0.fl.gth g G hG hout t (hsub t ht)
        · exact hg0
      · rename_i g re hf hk
        split
        · rename_i o ho
          refine good_gacAfter2 _ a o hg0 ?_
          intro hl e
          subst e
          cases R with
          | false => have := hnogac hl rfl; rw [hk] at this; cases this
          | true =>
            -- the call is suspended in its second gather, which has completed normally and awaits every task filed
            obtain ⟨G, hG, hsub⟩ := h5 hl rfl a A g hA (by rw [hk]; rfl) hf
            have hout : G.outer = some .ok := by
              simp only [gatherOuter, show (p.modApi a fun x => { x with sched := false }).gathers = p.gathers from rfl, hG] at ho
              exact ho
            exact noHeld_of_gather hg0 (hg0.ll hl) g G hG hout hsub
        · exact hg0
      · exact hg0

/-- running any handle preserves `Good` -/
theorem good_runRef {cap : Cap} {L R : Bool} (p : Pool) (r : Ref) (hg : Good cap L R p)
    (h5 : L = false → R = true → GacAwaitsAll p) : Good cap L R (p.runRef r) := by
  cases r with
  | task t => exact good_stepTask p t hg
  | spawner m => exact good_stepMeta p m hg
  | api a => exact good_stepApi p a hg h5
  | gchild g i => exact (tame_gatherChildDone p g i true).good hg

/-- registering a `flush` / `gather_and_close` / `until_closed` call -/
theorem good_addApi {cap : Cap} {L R : Bool} (p : Pool) (k : ApiKind) (hg : Good cap L R p) (hk : L = false → R = false → k.isGac = false) :
    Good cap L R (p.addApi k) := by
  refine ⟨⟨hg.slot, hg.phase, hg.reg.of_eq rfl rfl rfl rfl rfl, hg.grp.of_eq rfl rfl, hg.life.of_eq rfl rfl, ?_,
    hg.wk.of_eq rfl rfl, hg.rz, hg.ll, ?_⟩, hg.map.of_eq rfl rfl, hg.acc.of_eq rfl rfl, hg.canc.of_eq rfl rfl⟩
  · refine ⟨hg.fl.gth, ?_⟩
    intro a A g ha hfr hkind
    have ha' : (p.apis ++ [{ kind := k, frame := AFrame.notStarted, sched := true, outcome := none }])[a]? = some A := ha
    rw [List.getElem?_append] at ha'
    split at ha'
    · exact hg.fl.api a A g ha' hfr hkind
    · rcases Nat.lt_or_ge (a - p.apis.length) 1 with h1 | h1
      · have : a - p.apis.length = 0 := by omega
        rw [this] at ha'; simp at ha'; subst ha'; cases hfr
      · rw [List.getElem?_eq_none (by simpa using h1)] at ha'; cases ha'
  · intro hl hr A hA
    have hA' : A ∈ p.apis ++ [{ kind := k, frame := AFrame.notStarted, sched := true, outcome := none }] := hA
    rcases List.mem_append.mp hA' with h | h
    · exact hg.al hl hr A h
    · simp at h; subst h; exact hk hl hr

theorem tame_doGate (p : Pool) (t o) : Tame p (p.doGate t o).1 := by
  unfold doGate
  split
  · refine Tame.trans ?_ (tame_schedTask _ t)
    exact tame_modTask p t _
  · exact Tame.refl p

theorem tame_setOrders (p : Pool) (orders) : Tame p ({ p with orders := orders } : Pool) := tame_of_eq _ _ rfl rfl

def _root_.Taskpool.Op.isSetSize : Op → Bool
  | .setSize _ => true
  | _ => false

/-- the calls that run in the background of the caller: `flush`, `gather_and_close`, `until_closed` -/
def _root_.Taskpool.Op.isAsync : Op → Bool
  | .flush _ => true
  | .gac _ => true
  | .untilClosed => true
  | _ => false

/-- every external operation other than an assignment to `pool_size` and the background calls is tame -/
theorem tame_applyOp (p : Pool) (op : Op) (hn : op.isSetSize = false) (ha : op.isAsync = false) : Tame p (p.applyOp op).1 := by
  cases op with
  | apply num group sp => exact tame_doApply _ num group sp
  | map stars items nc group sp => exact tame_doMap _ stars items nc group sp
  | start num => exact tame_doStart _ num
  | stop n => exact tame_doStop _ n
  | stopAll => exact tame_doStop _ _
  | cancel ids => exact tame_doCancel _ ids
  | cancelGroup g => exact tame_doCancelGroup _ g
  | cancelAll => exact tame_doCancelAll _
  | lock => exact tame_of_eq _ _ rfl rfl
  | unlock => exact tame_of_eq _ _ rfl rfl
  | setSize v => simp [Op.isSetSize] at hn
  | getIds names => exact Tame.refl _
  | flush re => simp [Op.isAsync] at ha
  | gac re => simp [Op.isAsync] at ha
  | untilClosed => simp [Op.isAsync] at ha
  | gate t o => exact tame_doGate _ t o

/-- `gather_and_close` -/
def _root_.Taskpool.Op.isGac : Op → Bool
  | .gac _ => true
  | _ => false

/-- every external operation except `pool_size = …` preserves `Good`; the strict variant with `pool_size` assignments
(`L = false`, `R = false`) excludes `gather_and_close` -/
theorem good_applyOp {cap : Cap} {L R : Bool} (p : Pool) (op : Op) (hn : op.isSetSize = false)
    (ha : L = false → R = false → op.isGac = false) (hg : Good cap L R p) : Good cap L R (p.applyOp op).1 := by
  by_cases h : op.isAsync = true
  · cases op with
    | flush re => exact good_addApi _ _ hg (fun _ _ => rfl)
    | gac re => exact good_addApi _ _ hg (fun hl hr => by have := ha hl hr; simp [Op.isGac] at this)
    | untilClosed => exact good_addApi _ _ hg (fun _ _ => rfl)
    | _ => simp [Op.isAsync] at h
  · exact (tame_applyOp p op hn (by simpa using h)).good hg

end Pool
end Taskpool
