import Taskpool.Inv.Tame
/-! Every synchronous pool call except `pool_size = …` is tame; hence so is user code made of such calls. -/
namespace Taskpool
namespace Pool

theorem flat_addGroupIfMissing (gs : List (String × List Nat)) (g : String) : flat (addGroupIfMissing gs g) = flat gs := by
  unfold addGroupIfMissing
  split
  · rfl
  · simp

theorem freshReq_newReq (kind stars group sp remaining items nc)
    (h1 : kind = .apply → items = []) (h2 : kind = .map → remaining = 0) :
    FreshReq (newReq kind stars group sp remaining items nc) :=
  ⟨⟨nc, rfl, by simp [newReq, grantsL, Req.pend], by simp [newReq, grantsL, Req.pend],
      fun _ _ _ _ w hw => by simp [newReq] at hw⟩, fun _ h => by simp [newReq] at h,
    ⟨rfl, rfl, rfl, rfl, fun h => by simp [Req.cnt, newReq, h1 h], fun h => h2 h⟩, Or.inl rfl⟩

/-- registering a request whose own books are balanced -/
theorem tame_register (p : Pool) (r : Req) (hr : FreshReq r) (hs : r.cancelSnap = none := by rfl) : Tame p (p.register r) := by
  refine ⟨⟨rfl, rfl, rfl, rfl, rfl, rfl, rfl, fun h => h, ?_, fun _ tk' h => ⟨tk', h, rfl⟩, rfl,
    fun h => h.of_soft rfl rfl rfl (fun _ tk' h => ⟨tk', h, rfl⟩), fun h => h.of_eq rfl rfl, rfl⟩, by simp [register, emitRef], ?_, ?_, ?_⟩
  rotate_left 3
  · refine ⟨Nat.le_refl _, fun _ tk a b => ⟨tk, a, b⟩, by simp [register, emitRef], ?_, fun h => h⟩
    intro m x a
    refine ⟨x, ?_, Nat.le_refl _, Nat.le_refl _, fun _ h => h, fun h => h⟩
    show (p.reqs ++ [r])[m]? = some x
    rw [List.getElem?_append_left (List.getElem?_eq_some_iff.mp a).1]; exact a
  rotate_left 2
  · intro E hk
    refine hk.frame (fun _ x => x) ?_
    intro m r' h
    have h' : (p.reqs ++ [r])[m]? = some r' := h
    rw [List.getElem?_append] at h'
    split at h'
    · exact Or.inl ⟨r', h', CSame.refl r'⟩
    · right
      have : m - p.reqs.length = 0 := by
        rcases Nat.lt_or_ge (m - p.reqs.length) 1 with h1 | h1
        · omega
        · rw [List.getElem?_eq_none (by simpa using h1)] at h'; cases h'
      rw [this] at h'; simp at h'; subst h'; exact hs
  · show (flat (addGroupIfMissing p.groups r.group)).Sublist (flat p.groups)
    rw [flat_addGroupIfMissing]; exact List.Sublist.refl _
  · intro m r' h
    have h' : (p.reqs ++ [r])[m]? = some r' := h
    rw [List.getElem?_append] at h'
    split at h'
    · exact Or.inl ⟨r', h', MSigLe.refl r'⟩
    · rename_i hge
      refine Or.inr ⟨by omega, ?_⟩
      have : m - p.reqs.length = 0 := by
        rcases Nat.lt_or_ge (m - p.reqs.length) 1 with h1 | h1
        · omega
        · rw [List.getElem?_eq_none (by simpa using h1)] at h'; cases h'
      rw [this] at h'; simp at h'; subst h'; exact hr

theorem tame_doApply (p : Pool) (num group sp) : Tame p (p.doApply num group sp).1 := by
  unfold doApply
  repeat' (first | exact Tame.refl _ | exact tame_register _ _ (freshReq_newReq _ _ _ _ _ _ _ (by simp) (by simp)) | split | dsimp only)

theorem tame_doMap (p : Pool) (stars items nc group sp) : Tame p (p.doMap stars items nc group sp).1 := by
  unfold doMap
  repeat' (first | exact Tame.refl _ | exact tame_register _ _ (freshReq_newReq _ _ _ _ _ _ _ (by simp) (by simp)) | split | dsimp only)

theorem tame_doStart (p : Pool) (num) : Tame p (p.doStart num).1 := by
  unfold doStart
  repeat' (first | exact Tame.refl _ | (refine Tame.trans ?_ (tame_register _ _ (freshReq_newReq _ _ _ _ _ _ _ (by simp) (by simp))); exact tame_of_eq _ _ rfl rfl) | split | dsimp only)

theorem tame_doCancel (p : Pool) (ids) : Tame p (p.doCancel ids).1 := by
  unfold doCancel
  split
  · exact Tame.refl p
  · exact tame_foldl ids _ (fun p id => tame_cancelTask p _) p

theorem tame_doStop (p : Pool) (n) : Tame p (p.doStop n).1 := by
  unfold doStop
  split
  · exact Tame.refl p
  · exact tame_doCancel p _

theorem tame_popOrder (p : Pool) : Tame p p.popOrder.1 := by
  unfold popOrder
  split
  · exact Tame.refl p
  · exact tame_of_eq _ _ rfl rfl

theorem tame_cancelGroupMetas (p : Pool) (g) : Tame p (p.cancelGroupMetas g) := by
  unfold cancelGroupMetas
  simp only
  refine Tame.trans (tame_foldl _ _ (fun p m => tame_metaCancel p m) p) (tame_of_map _ _ _ rfl rfl rfl ?_)
  intro x
  split <;> exact ⟨rfl, rfl, rfl, Nat.le_refl _, fun h => h, rfl, Or.inl rfl, fun h => h, fun h => h, fun _ => rfl, fun _ => Nat.le_refl _⟩

theorem tame_cancelGroupBody (p p' : Pool) (g ids order) (h : p.cancelGroupBody g ids order = some p') : Tame p p' := by
  unfold cancelGroupBody at h
  simp only at h
  split at h
  · simp at h
  · simp only [Option.some.injEq] at h
    subst h
    exact Tame.trans (tame_cancelGroupMetas p g) (tame_foldl _ _ (fun p t => tame_cancelTask p t) _)

theorem tame_dropGroup (p : Pool) (g : String) :
    Tame p ({ p.popOrder.1 with groups := p.popOrder.1.groups.filter (·.1 != g) } : Pool) :=
  Tame.trans (tame_popOrder p) (tame_of_eq _ _ rfl rfl rfl rfl rfl rfl (flat_filter_sublist _ _))

theorem tame_doCancelGroup (p : Pool) (g) : Tame p (p.doCancelGroup g).1 := by
  unfold doCancelGroup
  split
  · exact Tame.refl p
  · simp only
    split
    · exact Tame.refl p
    · rename_i p2 h
      exact Tame.trans (tame_dropGroup p g) (tame_cancelGroupBody _ _ _ _ _ h)

theorem tame_cancelAllLoop (gs : List (String × List Nat)) (order : List Nat) (p p' : Pool)
    (h : cancelAllLoop gs order p = some p') : Tame p p' := by
  induction gs generalizing p with
  | nil => simp [cancelAllLoop] at h; subst h; exact Tame.refl p
  | cons x xs ih =>
    obtain ⟨g, ids⟩ := x
    unfold cancelAllLoop at h
    split at h
    · simp at h
    · rename_i q hq
      exact Tame.trans (tame_cancelGroupBody _ _ _ _ _ hq) (ih q h)

theorem tame_dropGroups (p : Pool) : Tame p ({ p.popOrder.1 with groups := [] } : Pool) :=
  Tame.trans (tame_popOrder p) (tame_of_eq _ _ rfl rfl rfl rfl rfl rfl (by simp))

theorem tame_doCancelAll (p : Pool) : Tame p p.doCancelAll.1 := by
  unfold doCancelAll
  simp only
  split
  · exact Tame.refl p
  · rename_i p2 h
    exact Tame.trans (tame_dropGroups p) (tame_cancelAllLoop _ _ _ _ h)

theorem tame_doHook (p : Pool) (ctx : Nat) (h : HookOp) : Tame p (p.doHook ctx h).1 := by
  cases h with
  | cancel ids => exact tame_doCancel p ids
  | cancelGroup g => exact tame_doCancelGroup p g
  | cancelOwn =>
    simp only [doHook]
    split
    · exact tame_doCancelGroup p _
    · exact Tame.refl p
  | cancelAll => exact tame_doCancelAll p
  | lock => exact tame_of_eq _ _ rfl rfl
  | unlock => exact tame_of_eq _ _ rfl rfl
  | stop n => exact tame_doStop p n
  | applyG num =>
    simp only [doHook]
    split
    · exact Tame.refl p
    · exact tame_doApply p _ _ _

/-- user code made of synchronous pool calls neither moves a slot nor revives a task -/
theorem tame_runHooks (p : Pool) (ctx : Nat) (hs : List HookOp) : Tame p (p.runHooks ctx hs) := by
  unfold runHooks
  induction hs generalizing p with
  | nil => exact Tame.refl p
  | cons h hs ih =>
    simp only [List.foldl_cons]
    exact Tame.trans (Tame.trans (tame_doHook p ctx h) (tame_logEv _ _)) (ih _)

end Pool
end Taskpool
