import Taskpool.Inv.Sched
import Taskpool.Inv.Lift
/-! **Whoever has something to do is flagged as scheduled** — the pool-local half of "nothing is ever left waiting for
the pool itself" (the other half, `Inv/Sched*.lean`: whoever is flagged has a handle in the loop).

`WantOK E p` speaks about every task and spawner except the one whose handle is being run (`E`):

* a task whose asyncio Task is not done and whose wrapper is not suspended on a *pending* future of the environment
  (`quiet`) is flagged; the transient phase `wrapUp` never survives a step; a finished wrapper has completed its Task;
* a spawner that has not taken its first step is flagged; `running` never survives a step; `done` means an outcome;
* the waiter queue of the pool's semaphore holds at most one entry per spawner, every entry belongs to a live spawner
  suspended in `_enough_room.acquire()` and every such spawner has one; an entry that is no longer pending (slot handed
  over, or cancelled) has its owner flagged; the same for each call's own `num_concurrent` semaphore. -/
namespace Taskpool

/-- nothing of the pool's has to run for this task: its asyncio Task is done, or its wrapper is suspended on a future
of the environment (the worker's own, or that of a coroutine callback) which is still pending -/
def PTask.quiet (k : PTask) : Bool :=
  k.outcome.isSome || ((k.phase == .inWorker || k.phase == .inCancelCb || k.phase == .inEndCb) && k.fut == .pending)

def owners (ws : List Waiter) : List Nat := ws.map (·.owner)

namespace Pool

structure WantOK (E : Ref → Prop) (p : Pool) : Prop where
  tq : ∀ t k, p.tasks[t]? = some k → ¬ E (.task t) → k.quiet = false → k.sched = true
  tw : ∀ t k, p.tasks[t]? = some k → ¬ E (.task t) →
         k.phase ≠ .wrapUp ∧ (k.phase = .finished → k.outcome.isSome = true)
  rs : ∀ m r, p.reqs[m]? = some r → ¬ E (.spawner m) → r.outcome = none →
         (r.frame = .notStarted → r.sched = true) ∧ r.frame ≠ .running ∧ r.frame ≠ .done
  pn : (owners p.sem.waiters).Nodup
  pw : ∀ w ∈ p.sem.waiters, ∃ r, p.reqs[w.owner]? = some r ∧
         (¬ E (.spawner w.owner) → r.frame = .waitRoom ∧ r.outcome = none ∧ (w.st ≠ .pending → r.sched = true))
  pe : ∀ m r, p.reqs[m]? = some r → ¬ E (.spawner m) → r.outcome = none → r.frame = .waitRoom →
         m ∈ owners p.sem.waiters
  mn : ∀ (m : Nat) (r : Req), p.reqs[m]? = some r → r.mapSem.waiters.length ≤ 1
  mw : ∀ m r, p.reqs[m]? = some r → ∀ w ∈ r.mapSem.waiters, w.owner = m ∧
         (¬ E (.spawner m) → r.frame = .waitMapSem ∧ r.outcome = none ∧ (w.st ≠ .pending → r.sched = true))
  me : ∀ m r, p.reqs[m]? = some r → ¬ E (.spawner m) → r.outcome = none → r.frame = .waitMapSem →
         r.mapSem.waiters ≠ []
  /-- a spawner whose asyncio Task is done has left its coroutine (`finishMeta` sets both at once; without this clause
  a request with an outcome but frame `notStarted`/`waitRoom`/`waitMapSem` — unreachable, but allowed by the other clauses —
  could queue a waiter entry in `waitRoom`/`waitMapSem`, breaking `pw`/`mw`) -/
  od : ∀ m r, p.reqs[m]? = some r → ¬ E (.spawner m) → r.outcome.isSome = true → r.frame = .done
  /-- a spawner whose handle is being run (past the removal of its waiter entry) has no entry anywhere -/
  ce : ∀ m, E (.spawner m) → m ∉ owners p.sem.waiters ∧ ∀ (r : Req), p.reqs[m]? = some r → r.mapSem.waiters = []

/-- nobody exempt: the state between two steps -/
abbrev Want (p : Pool) : Prop := WantOK (fun _ => False) p

end Pool
end Taskpool
