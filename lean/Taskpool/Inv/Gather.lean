import Taskpool.Inv.Mono
/-! The gather callbacks of the pool machine are **conserved**: a callback slot `(g, i)` registered on a child that
has not completed, or already queued as a handle, stays exactly that until its handle is run — no step of the
machine other than the gather functions themselves creates, duplicates or drops one.

`gv p` is the part of a pool the gather bookkeeping depends on: the gathers, the *callback potential* `pot` (per slot:
queued handles + registrations on uncompleted children) and the registrations per task and per spawner.  This file walks every step
function outside the gather family once and shows `gv (step p) = gv p`. -/
namespace Taskpool

/-- the handle of callback slot `gi` -/
def isCb (gi : Nat × Nat) : Ref → Bool
  | .gchild g i => g == gi.1 && i == gi.2
  | _ => false

/-- registrations of slot `gi` on one child: they count as long as the child has not completed -/
def regOf (gi : Nat × Nat) (o : Option Outcome) (cbs : List (Nat × Nat)) : Nat :=
  if o.isNone then cbs.count gi else 0

namespace Pool

/-- callback potential of slot `gi`: handles queued by this pool during the current step + registrations on children
that have not completed -/
def pot (p : Pool) (gi : Nat × Nat) : Nat :=
  p.emit.countP (isCb gi)
  + (p.tasks.map fun k => regOf gi k.outcome k.doneCbs).sum
  + (p.reqs.map fun r => regOf gi r.outcome r.doneCbs).sum

/-- the callback slots registered on task `t` -/
def dcb (p : Pool) (t : Nat) : List (Nat × Nat) :=
  match p.tasks[t]? with
  | some k => k.doneCbs
  | none => []

/-- the callback slots registered on spawner `m` -/
def rcb (p : Pool) (m : Nat) : List (Nat × Nat) :=
  match p.reqs[m]? with
  | some r => r.doneCbs
  | none => []

structure GV where
  gathers : List Gather
  pot : Nat × Nat → Nat
  dcb : Nat → List (Nat × Nat)
  rcb : Nat → List (Nat × Nat)

def gv (p : Pool) : GV := ⟨p.gathers, p.pot, p.dcb, p.rcb⟩

theorem gv_mk {p q : Pool} (hg : q.gathers = p.gathers) (hp : ∀ gi, q.pot gi = p.pot gi) (hd : ∀ t, q.dcb t = p.dcb t)
    (hr : ∀ m, q.rcb m = p.rcb m) : gv q = gv p := by
  have a : q.pot = p.pot := funext hp
  have b : q.dcb = p.dcb := funext hd
  have c : q.rcb = p.rcb := funext hr
  simp only [gv, hg, a, b, c]

/-- a change outside gathers, queue, tasks and requests -/
theorem gv_of {p q : Pool} (hg : q.gathers = p.gathers) (he : q.emit = p.emit) (ht : q.tasks = p.tasks)
    (hr : q.reqs = p.reqs) : gv q = gv p :=
  gv_mk hg (fun gi => by simp only [pot, he, ht, hr]) (fun t => by simp only [dcb, ht]) (fun m => by simp only [rcb, hr])

theorem map_modify_of {α β} (l : List α) (t : Nat) (f : α → α) (g : α → β) (h : ∀ k, g (f k) = g k) :
    (l.modify t f).map g = l.map g := by
  induction l generalizing t with
  | nil => simp
  | cons a as ih =>
    cases t with
    | zero => simp [h]
    | succ n => simp [ih]

theorem gv_modTask (p : Pool) (t : Nat) (f : PTask → PTask)
    (hf : ∀ k, (f k).outcome = k.outcome ∧ (f k).doneCbs = k.doneCbs) : gv (p.modTask t f) = gv p := by
  refine gv_mk rfl ?_ ?_ (fun _ => rfl)
  · intro gi
    simp only [pot, modTask]
    rw [map_modify_of _ _ _ _ (fun k => by rw [(hf k).1, (hf k).2])]
  · intro i
    simp only [dcb, modTask, List.getElem?_modify]
    cases h : p.tasks[i]? with
    | none => simp
    | some k =>
      by_cases e : t = i
      · simp [e, (hf k).2]
      · simp [e]

theorem rcb_modReq (p : Pool) (m : Nat) (f : Req → Req) (hf : ∀ r, (f r).doneCbs = r.doneCbs) (i : Nat) :
    (p.modReq m f).rcb i = p.rcb i := by
  simp only [rcb, modReq, List.getElem?_modify]
  cases h : p.reqs[i]? with
  | none => simp
  | some k =>
    by_cases e : m = i
    · simp [e, hf k]
    · simp [e]

theorem gv_modReq (p : Pool) (m : Nat) (f : Req → Req)
    (hf : ∀ r, (f r).outcome = r.outcome ∧ (f r).doneCbs = r.doneCbs) : gv (p.modReq m f) = gv p := by
  refine gv_mk rfl ?_ (fun _ => rfl) (rcb_modReq p m f (fun r => (hf r).2))
  intro gi
  simp only [pot, modReq]
  rw [map_modify_of _ _ _ _ (fun k => by rw [(hf k).1, (hf k).2])]

theorem gv_mapReqs (p : Pool) (f : Req → Req) (hf : ∀ r, (f r).outcome = r.outcome ∧ (f r).doneCbs = r.doneCbs)
    (q : Pool) (hg : q.gathers = p.gathers) (he : q.emit = p.emit) (ht : q.tasks = p.tasks) (hr : q.reqs = p.reqs.map f) :
    gv q = gv p := by
  refine gv_mk hg ?_ (fun t => by simp only [dcb, ht]) ?_
  rotate_left
  · intro m
    simp only [rcb, hr, List.getElem?_map]
    cases p.reqs[m]? with
    | none => rfl
    | some r => simp [(hf r).2]
  intro gi
  simp only [pot, he, ht, hr, List.map_map]
  congr 2
  apply List.map_congr_left
  intro r _
  simp [Function.comp, (hf r).1, (hf r).2]

theorem gv_emitRef (p : Pool) (r : Ref) (hr : ∀ g i, r ≠ .gchild g i) : gv (p.emitRef r) = gv p := by
  refine gv_mk rfl ?_ (fun _ => rfl) (fun _ => rfl)
  intro gi
  have : isCb gi r = false := by
    cases r with
    | gchild g i => exact absurd rfl (hr g i)
    | _ => rfl
  simp [pot, emitRef, List.countP_append, this]

/-! ### completion: registrations become queued handles, one for one -/

theorem emitChildren_fields (p : Pool) (cbs : List (Nat × Nat)) :
    (p.emitChildren cbs).emit = p.emit ++ cbs.map (fun gi => Ref.gchild gi.1 gi.2) ∧
    (p.emitChildren cbs).gathers = p.gathers ∧ (p.emitChildren cbs).tasks = p.tasks ∧
    (p.emitChildren cbs).reqs = p.reqs := by
  unfold emitChildren
  induction cbs generalizing p with
  | nil => simp
  | cons c cs ih =>
    simp only [List.foldl_cons, List.map_cons]
    obtain ⟨a, b, c', d⟩ := ih (p.emitRef (.gchild c.1 c.2))
    refine ⟨by rw [a]; simp [emitRef], by rw [b]; rfl, by rw [c']; rfl, by rw [d]; rfl⟩

theorem countP_isCb_map (gi : Nat × Nat) (cbs : List (Nat × Nat)) :
    (cbs.map (fun x => Ref.gchild x.1 x.2)).countP (isCb gi) = cbs.count gi := by
  induction cbs with
  | nil => rfl
  | cons c cs ih =>
    simp only [List.map_cons, List.countP_cons, List.count_cons, ih]
    congr 1

theorem sum_map_modify {α} (l : List α) (t : Nat) (f : α → α) (g : α → Nat) (k : α) (h : l[t]? = some k) :
    ((l.modify t f).map g).sum + g k = (l.map g).sum + g (f k) := by
  induction l generalizing t with
  | nil => simp at h
  | cons a as ih =>
    cases t with
    | zero =>
      simp at h; subst h
      simp only [List.modify_zero_cons, List.map_cons, List.sum_cons]
      try omega
    | succ n =>
      simp at h
      have := ih n h
      simp only [List.modify_succ_cons, List.map_cons, List.sum_cons]; omega

theorem dcb_modTask (p : Pool) (t : Nat) (f : PTask → PTask) (hf : ∀ k, (f k).doneCbs = k.doneCbs) (i : Nat) :
    (p.modTask t f).dcb i = p.dcb i := by
  simp only [dcb, modTask, List.getElem?_modify]
  cases h : p.tasks[i]? with
  | none => simp
  | some k =>
    by_cases e : t = i
    · simp [e, hf k]
    · simp [e]

theorem gv_completeTask (p : Pool) (t : Nat) (o : Outcome) : gv (p.completeTask t o) = gv p := by
  unfold completeTask
  split
  · rfl
  · rename_i tk htk
    obtain ⟨he, hg, ht, hr⟩ := emitChildren_fields
      (p.modTask t fun x => { x with phase := .finished, outcome := some o, sched := false, mustCancel := false })
      (if tk.outcome.isSome then [] else tk.doneCbs)
    refine gv_mk (by rw [hg]; rfl) ?_ ?_ (fun m => by simp only [rcb, hr]; rfl)
    · intro gi
      simp only [pot, he, ht, hr, List.countP_append, countP_isCb_map]
      have hs := sum_map_modify p.tasks t
        (fun x => { x with phase := .finished, outcome := some o, sched := false, mustCancel := false })
        (fun k => regOf gi k.outcome k.doneCbs) tk htk
      simp only [modTask] at hs ⊢
      cases ho : tk.outcome with
      | some o' => simp [regOf, ho] at hs ⊢; omega
      | none => simp [regOf, ho] at hs ⊢; omega
    · intro i
      have := dcb_modTask p t
        (fun x => { x with phase := .finished, outcome := some o, sched := false, mustCancel := false }) (fun _ => rfl) i
      simp only [dcb, ht] at this ⊢
      exact this

theorem gv_finishMeta (p : Pool) (m : Nat) (o : Outcome) : gv (p.finishMeta m o) = gv p := by
  unfold finishMeta
  split
  · rfl
  · rename_i r hr0
    simp only
    generalize (if (o == Outcome.ok && r.mustCancel) = true then Outcome.cancelled else o) = o1
    obtain ⟨he, hg, ht, hr⟩ := emitChildren_fields
      (p.modReq m fun x => { x with frame := .done, outcome := some o1, sched := false, mustCancel := false })
      (if r.outcome.isSome then [] else r.doneCbs)
    refine gv_mk (by rw [hg]; rfl) ?_ (fun i => by simp only [dcb, ht]; rfl) ?_
    rotate_left
    · intro i
      have := rcb_modReq p m
        (fun x => { x with frame := .done, outcome := some o1, sched := false, mustCancel := false }) (fun _ => rfl) i
      simp only [rcb, hr] at this ⊢
      exact this
    intro gi
    simp only [pot, he, ht, hr, List.countP_append, countP_isCb_map]
    have hs := sum_map_modify p.reqs m
      (fun x => { x with frame := .done, outcome := some o1, sched := false, mustCancel := false })
      (fun k => regOf gi k.outcome k.doneCbs) r hr0
    simp only [modReq] at hs ⊢
    cases ho : r.outcome with
    | some o' => simp [regOf, ho] at hs ⊢; omega
    | none => simp [regOf, ho] at hs ⊢; omega

/-! ### the walk: every step function outside the gather family leaves `gv` alone -/

attribute [simp] gv_modTask gv_modReq gv_emitRef gv_completeTask gv_finishMeta

theorem gv_foldl {α} (f : Pool → α → Pool) (h : ∀ p a, gv (f p a) = gv p) (l : List α) (p : Pool) :
    gv (l.foldl f p) = gv p := by
  induction l generalizing p with
  | nil => rfl
  | cons a as ih => simp only [List.foldl_cons]; rw [ih, h]

@[simp] theorem gv_logEv (p : Pool) (e : Ev) : gv (p.logEv e) = gv p := gv_of rfl rfl rfl rfl
@[simp] theorem gv_modApi (p : Pool) (a : Nat) (f : Api → Api) : gv (p.modApi a f) = gv p := gv_of rfl rfl rfl rfl
@[simp] theorem gv_schedTask (p : Pool) (t : Nat) : gv (p.schedTask t) = gv p := by simp [schedTask]
@[simp] theorem gv_schedMeta (p : Pool) (m : Nat) : gv (p.schedMeta m) = gv p := by simp [schedMeta]
@[simp] theorem gv_schedApi (p : Pool) (a : Nat) : gv (p.schedApi a) = gv p := by simp [schedApi]
@[simp] theorem gv_schedOpt (p : Pool) (o : Option Nat) : gv (p.schedOpt o) = gv p := by cases o <;> simp [schedOpt]

@[simp] theorem gv_releasePool (p : Pool) : gv p.releasePool = gv p := by
  unfold releasePool; simp only [gv_schedOpt]; exact gv_of rfl rfl rfl rfl

@[simp] theorem gv_releaseMap (p : Pool) (m : Nat) : gv (p.releaseMap m) = gv p := by
  unfold releaseMap; split <;> simp

@[simp] theorem gv_taskCancel (p : Pool) (t : Nat) : gv (p.taskCancel t) = gv p := by
  unfold taskCancel; split
  · rfl
  · split
    · rfl
    · split <;> simp

@[simp] theorem gv_cancelTask (p : Pool) (t : Nat) : gv (p.cancelTask t) = gv p := by
  unfold cancelTask; split
  · rfl
  · split <;> simp

theorem snapReq_gkeeps (x : Req) : (snapReq x).outcome = x.outcome ∧ (snapReq x).doneCbs = x.doneCbs := by
  unfold snapReq; split <;> exact ⟨rfl, rfl⟩

@[simp] theorem gv_metaCancel (p : Pool) (m : Nat) : gv (p.metaCancel m) = gv p := by
  unfold metaCancel; split
  · rfl
  · split
    · rfl
    · split
      · simp only [gv_schedMeta]
        rw [gv_modReq _ _ _ snapReq_gkeeps]; exact gv_of rfl rfl rfl rfl
      · split
        · simp only [gv_schedMeta]
          exact gv_modReq _ _ _ (fun r => snapReq_gkeeps _)
        · exact gv_modReq _ _ _ (fun r => snapReq_gkeeps _)

/-- a new request: no outcome, no registrations -/
theorem gv_addReq (p q : Pool) (r : Req) (hg : q.gathers = p.gathers) (he : q.emit = p.emit) (ht : q.tasks = p.tasks)
    (hr : q.reqs = p.reqs ++ [r]) (h0 : r.doneCbs = []) : gv q = gv p := by
  refine gv_mk hg ?_ (fun t => by simp only [dcb, ht]) ?_
  · intro gi
    simp [pot, he, ht, hr, regOf, h0]
  · intro i
    simp only [rcb, hr]
    by_cases hlt : i < p.reqs.length
    · rw [List.getElem?_append_left hlt]
    · rw [List.getElem?_append_right (by omega), List.getElem?_eq_none (l := p.reqs) (by omega)]
      cases hi : i - p.reqs.length with
      | zero => simp [h0]
      | succ n => simp

@[simp] theorem gv_register (p : Pool) (kind stars group sp remaining items nc) :
    gv (p.register (newReq kind stars group sp remaining items nc)) = gv p := by
  unfold register
  simp only
  rw [gv_emitRef _ _ (fun _ _ h => by cases h)]
  exact gv_addReq p _ _ rfl rfl rfl rfl rfl

theorem gv_ite_fst {c : Prop} [Decidable c] (a b : Pool × Res) (p : Pool) (ha : gv a.1 = gv p) (hb : gv b.1 = gv p) :
    gv (if c then a else b).1 = gv p := by split <;> assumption

@[simp] theorem gv_doApply (p : Pool) (num group sp) : gv (p.doApply num group sp).1 = gv p := by
  unfold doApply
  repeat' split
  all_goals first | rfl | exact gv_ite_fst _ _ _ rfl (by simp)

@[simp] theorem gv_doMap (p : Pool) (stars items nc group sp) : gv (p.doMap stars items nc group sp).1 = gv p := by
  unfold doMap
  repeat' split
  all_goals first | rfl | exact gv_ite_fst _ _ _ rfl (by simp)

@[simp] theorem gv_doStart (p : Pool) (num) : gv (p.doStart num).1 = gv p := by
  unfold doStart; split
  · rfl
  · split
    · rfl
    · simp only [gv_register]; exact gv_of rfl rfl rfl rfl

@[simp] theorem gv_doCancel (p : Pool) (ids) : gv (p.doCancel ids).1 = gv p := by
  unfold doCancel; split
  · rfl
  · exact gv_foldl _ (fun q id => gv_cancelTask q _) _ _

@[simp] theorem gv_doStop (p : Pool) (n) : gv (p.doStop n).1 = gv p := by
  unfold doStop; split
  · rfl
  · simp

theorem gv_popOrder (p : Pool) : gv p.popOrder.1 = gv p := by
  unfold popOrder; split
  · rfl
  · exact gv_of rfl rfl rfl rfl

@[simp] theorem gv_cancelGroupMetas (p : Pool) (g : String) : gv (p.cancelGroupMetas g) = gv p := by
  unfold cancelGroupMetas
  simp only
  have h1 := gv_foldl (fun q m => q.metaCancel m) (fun q m => gv_metaCancel q m)
    (indicesWhere p.reqs fun r => r.inRunning && r.group == g) p
  refine Eq.trans ?_ h1
  refine gv_mapReqs _ (fun (r : Req) => if r.inRunning && r.group == g then { r with inRunning := false, inCancelled := true, everCancelled := true } else r)
    ?_ _ rfl rfl rfl rfl
  intro r; split <;> exact ⟨rfl, rfl⟩

theorem gv_cancelGroupBody (p : Pool) (g ids order) (q : Pool) (h : p.cancelGroupBody g ids order = some q) :
    gv q = gv p := by
  unfold cancelGroupBody at h
  simp only at h
  split at h
  · cases h
  · simp only [Option.some.injEq] at h
    subst h
    exact (gv_foldl _ (fun q t => gv_cancelTask q t) _ _).trans (gv_cancelGroupMetas p g)

@[simp] theorem gv_doCancelGroup (p : Pool) (g : String) : gv (p.doCancelGroup g).1 = gv p := by
  unfold doCancelGroup; split
  · rfl
  · simp only; split
    · rfl
    · rename_i p2 h2
      exact (gv_cancelGroupBody _ _ _ _ _ h2).trans ((gv_of rfl rfl rfl rfl).trans (gv_popOrder p))

theorem gv_cancelAllLoop (gs : List (String × List Nat)) (order : List Nat) (p q : Pool)
    (h : cancelAllLoop gs order p = some q) : gv q = gv p := by
  induction gs generalizing p with
  | nil => simp [cancelAllLoop] at h; subst h; rfl
  | cons x xs ih =>
    obtain ⟨g, ids⟩ := x
    simp only [cancelAllLoop] at h
    split at h
    · cases h
    · rename_i p1 h1
      exact (ih _ h).trans (gv_cancelGroupBody _ _ _ _ _ h1)

@[simp] theorem gv_doCancelAll (p : Pool) : gv p.doCancelAll.1 = gv p := by
  unfold doCancelAll; simp only; split
  · rfl
  · rename_i p2 h2
    exact (gv_cancelAllLoop _ _ _ _ h2).trans ((gv_of rfl rfl rfl rfl).trans (gv_popOrder p))

@[simp] theorem gv_doSetSize (p : Pool) (v : Int) : gv (p.doSetSize v).1 = gv p := by
  unfold doSetSize; split
  · rfl
  · exact gv_of rfl rfl rfl rfl

@[simp] theorem gv_doHook (p : Pool) (ctx : Nat) (h : HookOp) : gv (p.doHook ctx h).1 = gv p := by
  cases h <;> simp only [doHook] <;> try simp
  · split <;> simp
  · exact gv_of rfl rfl rfl rfl
  · exact gv_of rfl rfl rfl rfl
  · split <;> simp

@[simp] theorem gv_runHooks (p : Pool) (ctx : Nat) (hs : List HookOp) : gv (p.runHooks ctx hs) = gv p := by
  unfold runHooks
  exact gv_foldl _ (fun q h => by simp) _ _

/-! #### the wrapper of a pool task -/

@[simp] theorem gv_finishTask (p : Pool) (t : Nat) : gv (p.finishTask t) = gv p := by
  unfold finishTask; split <;> simp

@[simp] theorem gv_suspendTask (p : Pool) (t : Nat) (ph : Phase) : gv (p.suspendTask t ph) = gv p := by
  unfold suspendTask; split
  · rfl
  · split <;> simp

theorem cbCount_gkeeps (isEnd : Bool) (k : PTask) :
    (cbCount isEnd k).outcome = k.outcome ∧ (cbCount isEnd k).doneCbs = k.doneCbs := by
  unfold cbCount; split <;> exact ⟨rfl, rfl⟩

@[simp] theorem gv_cbBegin (p : Pool) (t : Nat) (tk : PTask) (isEnd : Bool) : gv (p.cbBegin t tk isEnd) = gv p := by
  unfold cbBegin
  simp only [gv_runHooks, gv_logEv]
  exact gv_modTask _ _ _ (cbCount_gkeeps isEnd)

@[simp] theorem gv_runCb (p : Pool) (t : Nat) (tk : PTask) (isEnd : Bool) : gv (p.runCb t tk isEnd).1 = gv p := by
  unfold runCb; split <;> simp

theorem gv_moveToEnded (p q : Pool) (t : Nat) (h : p.moveToEnded t = some q) : gv q = gv p := by
  unfold moveToEnded at h
  split at h
  · simp only [Option.some.injEq] at h; subst h; exact gv_of rfl rfl rfl rfl
  · split at h
    · simp only [Option.some.injEq] at h; subst h; exact gv_of rfl rfl rfl rfl
    · cases h

@[simp] theorem gv_releaseMapSlot (p : Pool) (t : Nat) (tk : PTask) : gv (p.releaseMapSlot t tk) = gv p := by
  unfold releaseMapSlot; split <;> simp

@[simp] theorem gv_endCallback (p : Pool) (t : Nat) (tk : PTask) : gv (p.endCallback t tk) = gv p := by
  unfold endCallback; simp only; split <;> simp

@[simp] theorem gv_endingTail (p : Pool) (t : Nat) (tk : PTask) : gv (p.endingTail t tk) = gv p := by
  unfold endingTail; simp

@[simp] theorem gv_keyErrorFinish (p : Pool) (t : Nat) : gv (p.keyErrorFinish t) = gv p := by
  unfold keyErrorFinish; simp only [gv_finishTask]
  exact (gv_modTask _ _ _ (by intro k; exact ⟨rfl, rfl⟩)).trans (gv_of rfl rfl rfl rfl)

@[simp] theorem gv_taskEnding (p : Pool) (t : Nat) : gv (p.taskEnding t) = gv p := by
  unfold taskEnding; split
  · rfl
  · split
    · simp
    · rename_i p1 h1
      simp only [gv_endingTail]; exact gv_moveToEnded _ _ _ h1

@[simp] theorem gv_cancelCallback (p : Pool) (t : Nat) (tk : PTask) : gv (p.cancelCallback t tk) = gv p := by
  unfold cancelCallback; simp only; split <;> simp

@[simp] theorem gv_taskCancellation (p : Pool) (t : Nat) (tk : PTask) : gv (p.taskCancellation t tk) = gv p := by
  unfold taskCancellation; split
  · simp only [gv_cancelCallback]
    exact (gv_modTask _ _ _ (by intro k; exact ⟨rfl, rfl⟩)).trans (gv_of rfl rfl rfl rfl)
  · simp only [gv_taskEnding]
    exact (gv_modTask _ _ _ (by intro k; exact ⟨rfl, rfl⟩)).trans (gv_of rfl rfl rfl rfl)

@[simp] theorem gv_afterWorker (p : Pool) (t : Nat) (e : Option Err) : gv (p.afterWorker t e) = gv p := by
  unfold afterWorker; split <;> simp

@[simp] theorem gv_stepCreated (p : Pool) (t : Nat) (tk : PTask) : gv (p.stepCreated t tk) = gv p := by
  unfold stepCreated; split
  · simp
  · simp only; split <;> simp

@[simp] theorem gv_workerCancelled (p : Pool) (t : Nat) (tk : PTask) : gv (p.workerCancelled t tk) = gv p := by
  unfold workerCancelled; split
  · simp
  · simp only; split <;> simp

@[simp] theorem gv_workerNext (p : Pool) (t : Nat) (tk : PTask) : gv (p.workerNext t tk) = gv p := by
  unfold workerNext; simp

@[simp] theorem gv_stepInWorker (p : Pool) (t : Nat) (tk : PTask) : gv (p.stepInWorker t tk) = gv p := by
  unfold stepInWorker; split
  · simp
  · split
    · split <;> simp
    · simp
    · simp

@[simp] theorem gv_stepInCancelCb (p : Pool) (t : Nat) (tk : PTask) : gv (p.stepInCancelCb t tk) = gv p := by
  unfold stepInCancelCb; split <;> simp

@[simp] theorem gv_stepInEndCb (p : Pool) (t : Nat) (tk : PTask) : gv (p.stepInEndCb t tk) = gv p := by
  unfold stepInEndCb; split <;> simp

theorem gv_stepTask (p : Pool) (t : Nat) : gv (p.stepTask t) = gv p := by
  unfold stepTask; split
  · rfl
  · split
    · rfl
    · simp only; split <;> simp

/-! #### spawners -/

/-- a new task: no outcome, no registrations -/
theorem gv_addTask (p q : Pool) (k : PTask) (hg : q.gathers = p.gathers) (he : q.emit = p.emit) (hr : q.reqs = p.reqs)
    (ht : q.tasks = p.tasks ++ [k]) (h0 : k.doneCbs = []) : gv q = gv p := by
  refine gv_mk hg ?_ ?_ (fun m => by simp only [rcb, hr])
  · intro gi
    simp [pot, he, ht, hr, regOf, h0]
  · intro i
    simp only [dcb, ht]
    by_cases hlt : i < p.tasks.length
    · rw [List.getElem?_append_left hlt]
    · rw [List.getElem?_append_right (by omega), List.getElem?_eq_none (l := p.tasks) (by omega)]
      cases hi : i - p.tasks.length with
      | zero => simp [h0]
      | succ n => simp

@[simp] theorem gv_createTask (p : Pool) (m : Nat) (isMap : Bool) : gv (p.createTask m isMap) = gv p := by
  unfold createTask
  simp only
  refine (gv_emitRef _ _ (by intro g i h; cases h)).trans ?_
  refine (gv_modReq _ _ _ (by intro k; exact ⟨rfl, rfl⟩)).trans ?_
  exact gv_addTask p _ _ rfl rfl rfl rfl rfl

@[simp] theorem gv_takeSlotAndCreate (p : Pool) (m : Nat) (isMap : Bool) : gv (p.takeSlotAndCreate m isMap) = gv p := by
  unfold takeSlotAndCreate; simp only [gv_createTask]; exact gv_of rfl rfl rfl rfl

@[simp] theorem gv_waitRoom (p : Pool) (m : Nat) : gv (p.waitRoom m) = gv p := by
  unfold waitRoom; simp only
  split
  · simp only [gv_schedMeta]
    exact (gv_modReq _ _ _ (by intro k; exact ⟨rfl, rfl⟩)).trans (gv_of rfl rfl rfl rfl)
  · exact (gv_modReq _ _ _ (by intro k; exact ⟨rfl, rfl⟩)).trans (gv_of rfl rfl rfl rfl)

@[simp] theorem gv_waitMapSem (p : Pool) (m : Nat) : gv (p.waitMapSem m) = gv p := by
  unfold waitMapSem; simp only; split <;> simp

theorem gv_applyLoop (m : Nat) (n : Nat) (p : Pool) : gv (applyLoop m n p) = gv p := by
  induction n generalizing p with
  | zero => simp [applyLoop]
  | succ n ih =>
    simp only [applyLoop]
    split
    · rw [ih]; simp
    · split
      · simp
      · split
        · simp
        · split
          · simp
          · rw [ih]; simp

@[simp] theorem gv_mapStartTask (p : Pool) (m : Nat) : gv (p.mapStartTask m).1 = gv p := by
  unfold mapStartTask; split
  · simp
  · split <;> simp

@[simp] theorem gv_pullItem (p : Pool) (m : Nat) (rest : List Item) : gv (p.pullItem m rest) = gv p := by
  unfold pullItem; simp

@[simp] theorem gv_takeMapSlot (p : Pool) (m : Nat) : gv (p.takeMapSlot m) = gv p := by
  unfold takeMapSlot; simp

theorem gv_mapLoop (m : Nat) (items : List Item) (p : Pool) : gv (mapLoop m items p) = gv p := by
  induction items generalizing p with
  | nil => simp [mapLoop]
  | cons it rest ih =>
    simp only [mapLoop]
    split
    · simp
    · split
      · rw [ih]; simp
      · split
        · simp
        · split
          · rw [ih]; simp
          · simp

attribute [simp] gv_applyLoop gv_mapLoop

@[simp] theorem gv_continueSpawner (p : Pool) (m : Nat) : gv (p.continueSpawner m) = gv p := by
  unfold continueSpawner; simp only; split <;> simp

@[simp] theorem gv_stepMetaNotStarted (p : Pool) (m : Nat) (r : Req) : gv (p.stepMetaNotStarted m r) = gv p := by
  unfold stepMetaNotStarted; split
  · simp
  · split <;> simp

@[simp] theorem gv_roomWaitCancelled (p : Pool) (m : Nat) (r : Req) (st : Option WaitSt) :
    gv (p.roomWaitCancelled m r st) = gv p := by
  unfold roomWaitCancelled; simp only [gv_finishMeta]
  split <;> split <;> simp

@[simp] theorem gv_roomGranted (p : Pool) (m : Nat) (r : Req) : gv (p.roomGranted m r) = gv p := by
  unfold roomGranted; simp only [gv_continueSpawner, gv_createTask]
  have h0 : gv (p.modReq m fun x => { x with frame := .running }) = gv p :=
    gv_modReq _ _ _ (by intro k; exact ⟨rfl, rfl⟩)
  split
  · simp only [gv_schedOpt]
    exact Eq.trans (gv_of rfl rfl rfl rfl) h0
  · exact h0

@[simp] theorem gv_wakeWaitRoomCore (p : Pool) (m : Nat) (r : Req) : gv (p.wakeWaitRoomCore m r) = gv p := by
  unfold wakeWaitRoomCore; simp only
  have h0 : gv (({ p with sem := { p.sem with waiters := (removeWaiterL m p.sem.waiters).2 } } : Pool).modReq m
      fun x => { x with mustCancel := false }) = gv p :=
    (gv_modReq _ _ _ (by intro k; exact ⟨rfl, rfl⟩)).trans (gv_of rfl rfl rfl rfl)
  split
  · simp only [gv_roomWaitCancelled]; exact h0
  · split
    · simp only [gv_roomGranted]; exact h0
    · exact h0

@[simp] theorem gv_wakeWaitRoom (p : Pool) (m : Nat) (r : Req) : gv (p.wakeWaitRoom m r) = gv p := by
  unfold wakeWaitRoom; split <;> simp

@[simp] theorem gv_mapSemGranted (p : Pool) (m : Nat) (r : Req) : gv (p.mapSemGranted m r) = gv p := by
  unfold mapSemGranted; simp only; split <;> simp

@[simp] theorem gv_wakeWaitMapSemCore (p : Pool) (m : Nat) (r : Req) : gv (p.wakeWaitMapSemCore m r) = gv p := by
  unfold wakeWaitMapSemCore; simp only
  split
  · simp
  · split <;> simp

@[simp] theorem gv_wakeWaitMapSem (p : Pool) (m : Nat) (r : Req) : gv (p.wakeWaitMapSem m r) = gv p := by
  unfold wakeWaitMapSem; split <;> simp

theorem gv_stepMeta (p : Pool) (m : Nat) : gv (p.stepMeta m) = gv p := by
  unfold stepMeta; split
  · rfl
  · split
    · rfl
    · simp only; split <;> simp

/-! #### external operations -/

@[simp] theorem gv_addApi (p : Pool) (k : ApiKind) : gv (p.addApi k) = gv p := by
  unfold addApi
  simp only
  refine (gv_emitRef _ _ (by intro g i h; cases h)).trans ?_
  exact gv_of rfl rfl rfl rfl

@[simp] theorem gv_doGate (p : Pool) (t : Nat) (o : FutSt) : gv (p.doGate t o).1 = gv p := by
  unfold doGate; split <;> simp

theorem gv_applyOp (p : Pool) (op : Op) : gv (p.applyOp op).1 = gv p := by
  cases op <;> simp only [applyOp] <;> try simp
  · exact gv_of rfl rfl rfl rfl
  · exact gv_of rfl rfl rfl rfl

theorem gv_orders (p : Pool) (orders : List (List Nat)) : gv ({ p with orders := orders } : Pool) = gv p :=
  gv_of rfl rfl rfl rfl

theorem gv_drainless (p : Pool) : ({ p with emit := [] } : Pool).gathers = p.gathers ∧
    (∀ t, ({ p with emit := [] } : Pool).dcb t = p.dcb t) := ⟨rfl, fun _ => rfl⟩

end Pool
end Taskpool
