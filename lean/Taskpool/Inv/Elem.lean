import Taskpool.Inv.Tame
/-! **Each element once, in order; each invocation with the request's own arguments.**

`ElemOK p`: a task of an `apply` / `start` request was called with the request's arguments (`ArgD.apply`); a task of a
map-style request was called with one element of the iterable, passed in the star variant of *its* request
(`ArgD.elem r.stars i`), whose index `i` lies among the elements the request has already turned into tasks or skipped
(`i < created + skipped`, so `i < pulled`); and within one request the element indices **increase strictly with the
task ids** — no element is handed to two tasks, and the tasks of a call see the elements in iteration order. -/
namespace Taskpool
namespace Pool

structure ElemOK (p : Pool) : Prop where
  ap : ∀ (t : Nat) (k : PTask), p.tasks[t]? = some k → k.isMap = false → k.arg = .apply
  el : ∀ (t : Nat) (k : PTask), p.tasks[t]? = some k → k.isMap = true →
         ∃ (r : Req) (i : Nat), p.reqs[k.req]? = some r ∧ r.kind = .map ∧ k.arg = .elem r.stars i ∧ i < r.created + r.skipped
  km : ∀ (t : Nat) (k : PTask) (r : Req), p.tasks[t]? = some k → p.reqs[k.req]? = some r → (k.isMap = true ↔ r.kind = .map)
  ord : ∀ (t1 t2 : Nat) (k1 k2 : PTask) (s1 s2 i1 i2 : Nat), t1 < t2 → p.tasks[t1]? = some k1 → p.tasks[t2]? = some k2 →
          k1.req = k2.req → k1.arg = .elem s1 i1 → k2.arg = .elem s2 i2 → i1 < i2

def elemBit (p : Pool) : Bool :=
  (p.tasks.all fun k => match p.reqs[k.req]? with
    | some r => (k.isMap == (r.kind == .map)) &&
        (if k.isMap then (match k.arg with | .elem s i => s == r.stars && i < r.created + r.skipped | .apply => false)
         else k.arg == .apply)
    | none => false) &&
  (p.tasks.zipIdx.all fun (k1, t1) => p.tasks.zipIdx.all fun (k2, t2) =>
    !(t1 < t2 && k1.req == k2.req) || (match k1.arg, k2.arg with | .elem _ i1, .elem _ i2 => i1 < i2 | _, _ => true))

end Pool
end Taskpool
