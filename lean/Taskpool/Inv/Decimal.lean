/-! Decimal rendering of natural numbers is injective — the one fact about text that `C10_generated_fresh` used to assume.
Core only (`Init/Data/Nat/ToString.lean` has `toDigits_eq_if`, `length_toDigits_pos`, `toList_repr`). -/
namespace Taskpool

theorem digitChar_inj10 : ∀ a b : Fin 10, Nat.digitChar a.val = Nat.digitChar b.val → a = b := by decide

theorem digitChar_inj {n m : Nat} (hn : n < 10) (hm : m < 10) (h : Nat.digitChar n = Nat.digitChar m) : n = m := by
  have := digitChar_inj10 ⟨n, hn⟩ ⟨m, hm⟩ h
  exact Fin.val_eq_of_eq this

theorem toDigits10_inj : ∀ n m : Nat, Nat.toDigits 10 n = Nat.toDigits 10 m → n = m := by
  intro n
  induction n using Nat.strongRecOn with
  | ind n ih =>
    intro m h
    rw [Nat.toDigits_eq_if (by omega) (n := n), Nat.toDigits_eq_if (by omega) (n := m)] at h
    by_cases hn : n < 10
    · by_cases hm : m < 10
      · simp only [hn, hm, if_true, List.cons.injEq, and_true] at h
        exact digitChar_inj hn hm h
      · simp only [hn, hm, if_true, if_false] at h
        have hl := congrArg List.length h
        have := @Nat.length_toDigits_pos 10 (m / 10)
        simp at hl
    · by_cases hm : m < 10
      · simp only [hn, hm, if_true, if_false] at h
        have hl := congrArg List.length h
        have := @Nat.length_toDigits_pos 10 (n / 10)
        simp at hl
      · simp only [hn, hm, if_false] at h
        have hl : (Nat.toDigits 10 (n / 10)).length = (Nat.toDigits 10 (m / 10)).length := by
          have := congrArg List.length h
          simp at this
          exact this
        obtain ⟨h1, h2⟩ := List.append_inj h hl
        have e1 := ih (n / 10) (by omega) (m / 10) h1
        have e2 := digitChar_inj (Nat.mod_lt n (by omega)) (Nat.mod_lt m (by omega)) (by simpa using h2)
        omega

theorem toString_nat_inj {n m : Nat} (h : toString n = toString m) : n = m := by
  apply toDigits10_inj
  have := congrArg String.toList h
  simpa using this

/-- a common prefix can be cancelled -/
theorem string_append_cancel_left (a x y : String) (h : a ++ x = a ++ y) : x = y := by
  have := congrArg String.toList h
  simp only [String.toList_append] at this
  exact String.toList_inj.mp (List.append_cancel_left this)

/-- what `C10_generated_fresh` needs: names built from one prefix and different numbers differ -/
theorem generated_names_inj (pre : String) (i j : Nat)
    (h : pre ++ "-worker-group-" ++ toString i = pre ++ "-worker-group-" ++ toString j) : i = j := by
  apply toString_nat_inj
  exact string_append_cancel_left (pre ++ "-worker-group-") _ _ h

end Taskpool
