import Taskpool.Model.Control
/-! Helper lemmas for C16/C17: distinctness, the dash renaming, flag assignment, option lookup. -/
namespace Taskpool.Control

/-! ### `distinctB` is `Nodup` -/

theorem distinctB_iff {α} [BEq α] [LawfulBEq α] (l : List α) : distinctB l = true ↔ l.Nodup := by
  induction l with
  | nil => simp [distinctB]
  | cons a l ih => simp [distinctB, List.nodup_cons, ih]

/-! ### dash renaming -/

theorem dashChar_inj {c d : Char} (hc : c ≠ '-') (hd : d ≠ '-') (h : dashChar c = dashChar d) : c = d := by
  unfold dashChar at h
  split at h <;> split at h
  · simp_all
  · exact absurd h.symm hd
  · exact absurd h hc
  · exact h

theorem identChar_ne_dash {c : Char} (h : isIdentChar c = true) : c ≠ '-' := by
  intro hc
  subst hc
  revert h
  decide

theorem dash_inj_of_noDash : ∀ {a b : Str}, (∀ c ∈ a, c ≠ '-') → (∀ c ∈ b, c ≠ '-') → dash a = dash b → a = b
  | [], [], _, _, _ => rfl
  | [], _ :: _, _, _, h => by simp [dash] at h
  | _ :: _, [], _, _, h => by simp [dash] at h
  | x :: a, y :: b, ha, hb, h => by
    simp only [dash, List.map_cons, List.cons.injEq] at h
    have hx := dashChar_inj (ha x (by simp)) (hb y (by simp)) h.1
    have := dash_inj_of_noDash (a := a) (b := b) (fun c hc => ha c (by simp [hc])) (fun c hc => hb c (by simp [hc])) h.2
    simp [hx, this]

theorem ident_noDash {a : Str} (h : isIdent a = true) : ∀ c ∈ a, c ≠ '-' := by
  intro c hc
  simp only [isIdent, Bool.and_eq_true, List.all_eq_true] at h
  exact identChar_ne_dash (h.2 c hc)

theorem dash_inj {a b : Str} (ha : isIdent a = true) (hb : isIdent b = true) (h : dash a = dash b) : a = b :=
  dash_inj_of_noDash (ident_noDash ha) (ident_noDash hb) h


theorem nodup_map_dash : ∀ {l : List Str}, (∀ n ∈ l, isIdent n = true) → l.Nodup → (l.map dash).Nodup
  | [], _, _ => by simp
  | a :: l, hid, hn => by
    rw [List.nodup_cons] at hn
    rw [List.map_cons, List.nodup_cons]
    refine ⟨?_, nodup_map_dash (fun n hn' => hid n (by simp [hn'])) hn.2⟩
    intro hmem
    obtain ⟨b, hb, hab⟩ := List.mem_map.mp hmem
    have := dash_inj (hid b (by simp [hb])) (hid a (by simp)) hab
    exact hn.1 (this ▸ hb)

/-! ### flags -/

theorem toUpper_ne_h (c : Char) : c.toUpper ≠ 'h' := by
  intro h
  have := congrArg Char.toNat h
  simp only [Char.toUpper] at this
  split at this
  · rename_i hc
    have h1 := UInt32.le_iff_toNat_le.mp hc.1
    have h2 := UInt32.le_iff_toNat_le.mp hc.2
    unfold Char.toNat at this
    simp [UInt32.toNat_add] at this h1 h2
    omega
  · rename_i hc
    apply hc
    have : c = 'h' := Char.toNat_inj.mp this
    subst this
    decide

theorem pickFlag_ne_h {used : List Char} {l f : Char} (h : pickFlag used l = some f) : f ≠ 'h' := by
  unfold pickFlag at h
  split at h
  · rename_i hc; cases h; exact hc.1
  · split at h
    · cases h; exact toUpper_ne_h l
    · cases h

theorem pickFlag_fresh {used : List Char} {l f : Char} (h : pickFlag used l = some f) : f ∉ used := by
  unfold pickFlag at h
  split at h
  · rename_i hc; cases h; exact hc.2
  · split at h
    · rename_i hc; cases h; exact hc
    · cases h

def flagsOf (l : List (Param × Option Char)) : List Char := l.filterMap (·.2)

theorem assignFlags_spec : ∀ (ps : List Param) (used : List Char),
    (∀ f ∈ flagsOf (assignFlags ps used), f ≠ 'h' ∧ f ∉ used) ∧ (flagsOf (assignFlags ps used)).Nodup
  | [], used => by simp [assignFlags, flagsOf]
  | p :: ps, used => by
    have ih0 := assignFlags_spec ps used
    unfold assignFlags
    split
    · split
      · simpa [flagsOf] using ih0
      · rename_i l hl
        split
        · rename_i f hf
          have ih := assignFlags_spec ps (f :: used)
          have hne := pickFlag_ne_h hf
          have hfr := pickFlag_fresh hf
          simp only [flagsOf, List.filterMap_cons] at ih ⊢
          refine ⟨?_, ?_⟩
          · intro g hg
            rcases List.mem_cons.mp hg with rfl | hg
            · exact ⟨hne, hfr⟩
            · have := ih.1 g hg
              exact ⟨this.1, fun hu => this.2 (List.mem_cons_of_mem _ hu)⟩
          · rw [List.nodup_cons]
            exact ⟨fun hm => (ih.1 f hm).2 (by simp), ih.2⟩
        · simpa [flagsOf] using ih0
    · simpa [flagsOf] using ih0

theorem assignFlags_fst : ∀ (ps : List Param) (used : List Char), (assignFlags ps used).map (·.1) = ps
  | [], _ => by simp [assignFlags]
  | p :: ps, used => by
    unfold assignFlags
    split
    · split
      · simp [assignFlags_fst ps used]
      · split <;> simp [assignFlags_fst ps _]
    · simp [assignFlags_fst ps used]

theorem assignFlags_nonopt : ∀ (ps : List Param) (used : List Char) (pf : Param × Option Char),
    pf ∈ assignFlags ps used → pf.1.isOpt = false → pf.2 = none
  | [], _, _, h, _ => by simp [assignFlags] at h
  | p :: ps, used, pf, h, hn => by
    unfold assignFlags at h
    split at h
    · rename_i hp
      split at h
      · rcases List.mem_cons.mp h with rfl | h
        · rfl
        · exact assignFlags_nonopt ps _ pf h hn
      · split at h
        · rcases List.mem_cons.mp h with rfl | h
          · simp [hp] at hn
          · exact assignFlags_nonopt ps _ pf h hn
        · rcases List.mem_cons.mp h with rfl | h
          · rfl
          · exact assignFlags_nonopt ps _ pf h hn
    · rcases List.mem_cons.mp h with rfl | h
      · rfl
      · exact assignFlags_nonopt ps _ pf h hn


/-! ### the option table of a sub-parser -/

theorem paramOpts_shorts_aux : ∀ (l : List (Param × Option Char)), (∀ pf ∈ l, pf.1.isOpt = false → pf.2 = none) →
    (l.filterMap paramOpt).filterMap (·.short) = l.filterMap (·.2)
  | [], _ => rfl
  | pf :: l, h => by
    have ih := paramOpts_shorts_aux l (fun x hx => h x (List.mem_cons_of_mem _ hx))
    by_cases hp : pf.1.isOpt = true
    · simp only [List.filterMap_cons, paramOpt, hp, if_true]
      cases hs : pf.2 <;> simp [ih]
    · have hp' : pf.1.isOpt = false := by simpa using hp
      have := h pf (by simp) hp'
      simp [paramOpt, hp', this, ih]

theorem paramOpts_shorts (ps : List Param) : (paramOpts ps).filterMap (·.short) = flagsOf (assignFlags ps []) :=
  paramOpts_shorts_aux _ (fun pf h => assignFlags_nonopt ps [] pf h)

theorem paramOpts_longs_aux : ∀ (l : List (Param × Option Char)),
    (l.filterMap paramOpt).map (·.long) = ((l.map (·.1)).filter Param.isOpt).map (fun p => dash p.name)
  | [] => rfl
  | pf :: l => by
    have ih := paramOpts_longs_aux l
    by_cases hp : pf.1.isOpt = true
    · simp [paramOpt, hp, ih]
    · have hp' : pf.1.isOpt = false := by simpa using hp
      simp [paramOpt, hp', ih]

theorem paramOpts_longs (ps : List Param) :
    (paramOpts ps).map (·.long) = (ps.filter Param.isOpt).map (fun p => dash p.name) := by
  unfold paramOpts
  rw [paramOpts_longs_aux, assignFlags_fst]

theorem optsOk_optTable {ps : List Param} (h : paramsOk ps = true) : optsOk (optTable ps) = true := by
  simp only [paramsOk, Bool.and_eq_true, List.all_eq_true] at h
  obtain ⟨⟨⟨⟨hid, hdis⟩, hhelp⟩, _⟩, _⟩ := h
  have hdis := (distinctB_iff _).mp hdis
  simp only [optsOk, Bool.and_eq_true, distinctB_iff]
  constructor
  · simp only [optTable, List.filterMap_cons, helpOpt, paramOpts_shorts]
    have sp := assignFlags_spec ps []
    rw [List.nodup_cons]
    exact ⟨fun hm => (sp.1 'h' hm).1 rfl, sp.2⟩
  · simp only [optTable, List.map_cons, helpOpt, paramOpts_longs]
    rw [List.nodup_cons]
    constructor
    · intro hm
      obtain ⟨p, hp, hpn⟩ := List.mem_map.mp hm
      have hp' := List.mem_filter.mp hp
      have := hhelp p hp'.1
      simp [hp'.2, hpn] at this
    · have : (ps.filter Param.isOpt).map (fun p => dash p.name) = ((ps.filter Param.isOpt).map (·.name)).map dash := by
        simp [List.map_map]
      rw [this]
      apply nodup_map_dash
      · intro n hn
        obtain ⟨p, hp, rfl⟩ := List.mem_map.mp hn
        exact hid p (List.mem_filter.mp hp).1
      · exact List.Nodup.sublist (List.Sublist.map _ List.filter_sublist) hdis

/-! ### looking options up -/

theorem find?_unique {α} {l : List α} {q : α → Bool} {o : α} (ho : o ∈ l) (hq : q o = true)
    (hu : ∀ x ∈ l, q x = true → x = o) : l.find? q = some o := by
  cases hf : l.find? q with
  | none => exact absurd hq (by simpa using List.find?_eq_none.mp hf o ho)
  | some x => exact congrArg some (hu x (List.mem_of_find?_eq_some hf) (List.find?_some hf))

theorem nodup_map_inj {α β} {f : α → β} : ∀ {l : List α}, (l.map f).Nodup → ∀ x ∈ l, ∀ y ∈ l, f x = f y → x = y
  | [], _, x, hx, _, _, _ => by simp at hx
  | a :: l, hn, x, hx, y, hy, hxy => by
    rw [List.map_cons, List.nodup_cons] at hn
    rcases List.mem_cons.mp hx with rfl | hx' <;> rcases List.mem_cons.mp hy with rfl | hy'
    · rfl
    · exact absurd (List.mem_map.mpr ⟨y, hy', hxy.symm⟩) hn.1
    · exact absurd (List.mem_map.mpr ⟨x, hx', hxy⟩) hn.1
    · exact nodup_map_inj hn.2 x hx' y hy' hxy

theorem nodup_filterMap_inj {α β} {f : α → Option β} : ∀ {l : List α}, (l.filterMap f).Nodup →
    ∀ x ∈ l, ∀ y ∈ l, ∀ b, f x = some b → f y = some b → x = y
  | [], _, x, hx, _, _, _, _, _ => by simp at hx
  | a :: l, hn, x, hx, y, hy, b, hxb, hyb => by
    rcases List.mem_cons.mp hx with rfl | hx' <;> rcases List.mem_cons.mp hy with rfl | hy'
    · rfl
    · rw [List.filterMap_cons, hxb, List.nodup_cons] at hn
      exact absurd (List.mem_filterMap.mpr ⟨y, hy', hyb⟩) hn.1
    · rw [List.filterMap_cons, hyb, List.nodup_cons] at hn
      exact absurd (List.mem_filterMap.mpr ⟨x, hx', hxb⟩) hn.1
    · have hn' : (l.filterMap f).Nodup := by
        rw [List.filterMap_cons] at hn
        split at hn
        · exact hn
        · exact (List.nodup_cons.mp hn).2
      exact nodup_filterMap_inj hn' x hx' y hy' b hxb hyb

theorem findShort_of_mem {tbl : List OptSpec} (hok : optsOk tbl = true) {o : OptSpec} (ho : o ∈ tbl) {f : Char}
    (hf : o.short = some f) : findShort tbl f = some o := by
  simp only [optsOk, Bool.and_eq_true, distinctB_iff] at hok
  apply find?_unique ho (by simp [hf])
  intro x hx hq
  exact nodup_filterMap_inj hok.1 x hx o ho f (by simpa using hq) hf

theorem findLong_of_mem {tbl : List OptSpec} (hok : optsOk tbl = true) {o : OptSpec} (ho : o ∈ tbl) :
    findLong tbl o.long = some o := by
  simp only [optsOk, Bool.and_eq_true, distinctB_iff] at hok
  apply find?_unique ho (by simp)
  intro x hx hq
  exact nodup_map_inj hok.2 x hx o ho (by simpa using hq)

def specOf (p : Param) (f : Option Char) : OptSpec := { param := some p, short := f, long := dash p.name }

theorem spec_mem {ps : List Param} {p : Param} {f : Option Char} (h : (p, f) ∈ assignFlags ps []) (hp : p.isOpt = true) :
    specOf p f ∈ optTable ps := by
  simp only [optTable, List.mem_cons]
  right
  exact List.mem_filterMap.mpr ⟨(p, f), h, by simp [paramOpt, hp, specOf]⟩

theorem exists_flag {ps : List Param} {p : Param} (h : p ∈ ps) : ∃ f, (p, f) ∈ assignFlags ps [] := by
  have := assignFlags_fst ps []
  rw [← this] at h
  obtain ⟨pf, hpf, rfl⟩ := List.mem_map.mp h
  exact ⟨pf.2, hpf⟩


/-! ### abbreviations of long options -/

theorem longMatches_unique : ∀ {tbl : List OptSpec}, (tbl.map (·.long)).Nodup → ∀ {o : OptSpec}, o ∈ tbl → ∀ {n : Str},
    n <+: o.long → (∀ x ∈ tbl, n <+: x.long → x.long = o.long) → longMatches tbl n = [o]
  | [], _, _, ho, _, _, _ => by simp at ho
  | b :: tbl, hnd, o, ho, n, hn, hu => by
    rw [List.map_cons, List.nodup_cons] at hnd
    have hrest : ∀ x ∈ tbl, n <+: x.long → x.long = o.long := fun x hx => hu x (List.mem_cons_of_mem _ hx)
    rcases List.mem_cons.mp ho with rfl | ho'
    · have hnil : longMatches tbl n = [] := by
        simp only [longMatches, List.filter_eq_nil_iff]
        intro x hx hq
        have := hrest x hx (List.isPrefixOf_iff_prefix.mp hq)
        exact hnd.1 (List.mem_map.mpr ⟨x, hx, this⟩)
      have hq : n.isPrefixOf o.long = true := List.isPrefixOf_iff_prefix.mpr hn
      simp only [longMatches] at hnil ⊢
      simp [hq, hnil]
    · have hb : n.isPrefixOf b.long = false := by
        cases hq : n.isPrefixOf b.long with
        | false => rfl
        | true =>
          have := hu b (by simp) (List.isPrefixOf_iff_prefix.mp hq)
          exact absurd (List.mem_map.mpr ⟨o, ho', this.symm⟩) hnd.1
      have ih := longMatches_unique hnd.2 ho' hn hrest
      simp only [longMatches] at ih ⊢
      simp [hb, ih]

/-- a prefix of exactly one long option string resolves to that option -/
theorem resolveLong_of_abbrev {tbl : List OptSpec} (hok : optsOk tbl = true) {o : OptSpec} (ho : o ∈ tbl) {n : Str}
    (hn : n <+: o.long) (hu : ∀ x ∈ tbl, n <+: x.long → x.long = o.long) : resolveLong tbl n = .one o := by
  have hok' := hok
  simp only [optsOk, Bool.and_eq_true, distinctB_iff] at hok'
  unfold resolveLong
  cases hf : findLong tbl n with
  | some x =>
    have hx := List.mem_of_find?_eq_some hf
    have hq : x.long = n := by simpa using List.find?_some hf
    have := hu x hx (hq ▸ List.prefix_refl _)
    simp [nodup_map_inj hok'.2 x hx o ho this]
  | none => simp [longMatches_unique hok'.2 ho hn hu]

/-- an exact option string resolves to its option, whatever else it is a prefix of -/
theorem resolveLong_exact {tbl : List OptSpec} (hok : optsOk tbl = true) {o : OptSpec} (ho : o ∈ tbl) :
    resolveLong tbl o.long = .one o := by
  simp [resolveLong, findLong_of_mem hok ho]

theorem dash_ne_nil {n : Str} (h : isIdent n = true) : dash n ≠ [] := by
  cases n with
  | nil => simp [isIdent] at h
  | cons a l => simp [dash]

theorem paramsOk_ident {ps : List Param} (h : paramsOk ps = true) {p : Param} (hp : p ∈ ps) : isIdent p.name = true := by
  simp only [paramsOk, Bool.and_eq_true, List.all_eq_true] at h
  exact h.1.1.1.1 p hp

/-! ### scanning written options -/

def addOpts (st : PState) (cs : List Choice) : PState := cs.foldl (fun st c => st.addOpt c.p.name c.val) st

/-- the name a choice writes behind `--` (in full or abbreviated) is not empty and resolves to the choice's option -/
theorem resolve_choice {ps : List Param} (hok : paramsOk ps = true) {c : Choice} (hc : c.ok ps) :
    c.longName ≠ [] ∧ ∃ f, resolveLong (optTable ps) c.longName = .one (specOf c.p f) := by
  obtain ⟨hmem, hopt, _, _, habbr, _⟩ := hc
  have hT := optsOk_optTable hok
  obtain ⟨f, hf⟩ := exists_flag hmem
  have hsp := spec_mem hf hopt
  cases ha : c.abbr with
  | none =>
    have := resolveLong_exact hT hsp
    simp only [specOf] at this
    exact ⟨by simpa [Choice.longName, ha] using dash_ne_nil (paramsOk_ident hok hmem), f, by simpa [Choice.longName, ha, specOf] using this⟩
  | some n =>
    obtain ⟨hne, hpre, hu⟩ := habbr n ha
    have := resolveLong_of_abbrev hT hsp (n := n) (by simpa [specOf] using hpre) (by simpa [specOf] using hu)
    exact ⟨by simpa [Choice.longName, ha] using hne, f, by simpa [Choice.longName, ha] using this⟩

theorem scanOpts_long_cons {me : Str} {tbl : List OptSpec} {n : Str} (hn : n ≠ []) (rest : List Tok) (st : PState) :
    scanOpts me tbl (.long n :: rest) st =
      match resolveLong tbl n with
      | .unknown => scanOpts me tbl rest { st with extras := true }
      | .ambiguous => .stop (some (.error .ambiguous))
      | .one o =>
        match o.param with
        | none => .stop (some (.help (some me)))
        | some p =>
          if p.kind = .flag then scanOpts me tbl rest (st.addOpt p.name (.flag true))
          else match rest with
            | .word v :: rest' =>
              match convert p.conv v with
              | none => .stop (some (.error .badValue))
              | some a => scanOpts me tbl rest' (st.addOpt p.name (.one a))
            | _ => .stop (some (.error .needsValue)) := by
  cases n with
  | nil => exact absurd rfl hn
  | cons a l => rw [scanOpts] <;> first | rfl | (intro h; cases h)

theorem scanOpts_choice {ps : List Param} (hok : paramsOk ps = true) (me : Str) {c : Choice} (hc : c.ok ps)
    (rest : List Tok) (st : PState) :
    scanOpts me (optTable ps) (c.render ++ rest) st = scanOpts me (optTable ps) rest (st.addOpt c.p.name c.val) := by
  obtain ⟨hne, g, hres⟩ := resolve_choice hok hc
  obtain ⟨hmem, hopt, hshort, hconv, _, hdd, hgl⟩ := hc
  have hT := optsOk_optTable hok
  cases hs : c.short with
  | some f =>
    have hsp := spec_mem (hshort f hs) hopt
    have hfind := findShort_of_mem hT hsp (f := f) rfl
    by_cases hk : c.p.kind = .flag
    · simp [Choice.render, Choice.tok, Choice.val, hs, hk, scanOpts, hfind, specOf]
    · cases hg : c.glued with
      | none => simp [Choice.render, Choice.val, hs, hk, hg, scanOpts, hfind, specOf, hconv hk]
      | some e =>
        have hw : c.w.text ≠ dashdash := hgl (by simp [hg])
        have hwalk : walk (optTable ps) c.tail (specOf c.p (some f)) (some c.w) [] = .done [] (some (c.p, some c.w)) := by
          unfold walk
          simp [OptSpec.valued, specOf, hk]
        simp [Choice.render, Choice.val, hs, hk, hg, scanOpts, hfind, hwalk, PState.addFlags, hconv hk, hw]
  | none =>
    by_cases hk : c.p.kind = .flag
    · simp only [Choice.render, Choice.tok, hs, hk, if_true, List.cons_append, List.nil_append]
      rw [scanOpts_long_cons hne, hres]
      simp [Choice.val, hk, specOf]
    · by_cases he : c.eq = true
      · simp [Choice.render, Choice.val, hs, hk, he, scanOpts, hres, specOf, hconv hk, hdd he]
      · have he' : c.eq = false := by simpa using he
        simp only [Choice.render, hs, hk, he', if_false, Bool.false_eq_true, List.cons_append, List.nil_append]
        rw [scanOpts_long_cons hne, hres]
        simp [Choice.val, hk, specOf, hconv hk]

theorem scanOpts_render {ps : List Param} (hok : paramsOk ps = true) (me : Str) :
    ∀ (cs : List Choice), (∀ c ∈ cs, c.ok ps) → ∀ (rest : List Tok) (st : PState),
    scanOpts me (optTable ps) (renderOpts cs ++ rest) st = scanOpts me (optTable ps) rest (addOpts st cs)
  | [], _, rest, st => by simp [renderOpts, addOpts]
  | c :: cs, h, rest, st => by
    have ih := scanOpts_render hok me cs (fun x hx => h x (List.mem_cons_of_mem _ hx)) rest (st.addOpt c.p.name c.val)
    simp only [renderOpts, List.flatMap_cons, List.append_assoc] at ih ⊢
    rw [scanOpts_choice hok me (h c (by simp))]
    simpa [addOpts] using ih

/-! ### several options in one single-dash string -/

theorem addOpts_append (st : PState) (a b : List Choice) : addOpts st (a ++ b) = addOpts (addOpts st a) b := by
  simp [addOpts, List.foldl_append]

/-- a flag written by its letter: the letter finds the flag's option, which takes no value -/
theorem okFlag_find {ps : List Param} (hok : paramsOk ps = true) {f : Choice} (hf : f.okFlag ps) :
    findShort (optTable ps) f.letter = some (specOf f.p (some f.letter))
    ∧ (specOf f.p (some f.letter)).valued = none ∧ (specOf f.p (some f.letter)).isHelp = false := by
  obtain ⟨⟨_, hopt, hshort, _⟩, hk, hs⟩ := hf
  cases hl : f.short with
  | none => simp [hl] at hs
  | some l =>
    have hsp := spec_mem (hshort l hl) hopt
    have := findShort_of_mem (optsOk_optTable hok) hsp (f := l) rfl
    simp [Choice.letter, hl, this, OptSpec.valued, OptSpec.isHelp, specOf, hk]

/-- an option written by its letter (flag or not) -/
theorem ok_find {ps : List Param} (hok : paramsOk ps = true) {c : Choice} (hc : c.ok ps) (hs : c.short.isSome = true) :
    findShort (optTable ps) c.letter = some (specOf c.p (some c.letter)) := by
  obtain ⟨_, hopt, hshort, _⟩ := hc
  cases hl : c.short with
  | none => simp [hl] at hs
  | some l =>
    have hsp := spec_mem (hshort l hl) hopt
    simpa [Choice.letter, hl] using findShort_of_mem (optsOk_optTable hok) hsp (f := l) rfl

def flagSpecs (cs : List Choice) : List OptSpec := cs.map fun c => specOf c.p (some c.letter)

/-- the walk over the flags of a cluster arrives at its last letter with all of them noted -/
theorem walk_flags {ps : List Param} (hok : paramsOk ps = true) (lc : Char) (la : Option Word) (oc : OptSpec)
    (hlast : findShort (optTable ps) lc = some oc) (tail : List (Char × Option Word)) :
    ∀ (fs : List (Choice × Word)), (∀ x ∈ fs, x.1.okFlag ps) → ∀ (o : OptSpec), o.valued = none → ∀ (j : Word) (acc : List OptSpec),
    walk (optTable ps) (fs.map (fun x => (x.1.letter, some x.2)) ++ ((lc, la) :: tail)) o (some j) acc
      = walk (optTable ps) tail oc la (acc ++ o :: flagSpecs (fs.map (·.1)))
  | [], _, o, ho, j, acc => by
    rw [walk.eq_def]
    simp [ho, hlast, flagSpecs]
  | x :: fs, h, o, ho, j, acc => by
    obtain ⟨hfx, hvx, _⟩ := okFlag_find hok (h x (by simp))
    have ih := walk_flags hok lc la oc hlast tail fs (fun y hy => h y (List.mem_cons_of_mem _ hy))
      (specOf x.1.p (some x.1.letter)) hvx x.2 (acc ++ [o])
    rw [walk.eq_def]
    simp only [ho, List.map_cons, List.cons_append, hfx]
    rw [ih]
    simp [flagSpecs, List.append_assoc]

theorem addFlags_specs : ∀ (cs : List Choice), (∀ c ∈ cs, c.p.kind = .flag) → ∀ (st : PState),
    st.addFlags (flagSpecs cs) = addOpts st cs
  | [], _, st => rfl
  | c :: cs, h, st => by
    have ih := addFlags_specs cs (fun x hx => h x (List.mem_cons_of_mem _ hx)) (st.addOpt c.p.name (.flag true))
    have hk := h c (by simp)
    simp only [PState.addFlags, flagSpecs, addOpts, List.map_cons, List.foldl_cons, specOf, Choice.val, hk, if_true] at ih ⊢
    exact ih

theorem flagSpecs_noHelp (cs : List Choice) : (flagSpecs cs).any OptSpec.isHelp = false := by
  simp [flagSpecs, OptSpec.isHelp, specOf]

theorem scanOpts_item {ps : List Param} (hok : paramsOk ps = true) (me : Str) {it : Item} (hit : it.ok ps)
    (rest : List Tok) (st : PState) :
    scanOpts me (optTable ps) (it.render ++ rest) st = scanOpts me (optTable ps) rest (addOpts st it.choices) := by
  cases it with
  | one c => simpa [Item.render, Item.choices, addOpts] using scanOpts_choice hok me hit rest st
  | cluster f jf fs c =>
    obtain ⟨hf, hfs, hc, hcs⟩ := hit
    obtain ⟨hff, hfv, _⟩ := okFlag_find hok hf
    have hcf := ok_find hok hc hcs
    have hflags : ∀ x ∈ f :: fs.map (·.1), x.p.kind = .flag := by
      intro x hx
      rcases List.mem_cons.mp hx with rfl | hx
      · exact hf.2.1
      · obtain ⟨y, hy, rfl⟩ := List.mem_map.mp hx
        exact (hfs y hy).2.1
    have hw := walk_flags hok c.letter c.lastArg _ hcf c.tail fs hfs _ hfv jf []
    simp only [List.nil_append] at hw
    have hspecs : specOf f.p (some f.letter) :: flagSpecs (fs.map (·.1)) = flagSpecs (f :: fs.map (·.1)) := rfl
    rw [hspecs] at hw
    obtain ⟨_, _, _, hconv, _, _, hgl⟩ := hc
    by_cases hk : c.p.kind = .flag
    · -- the last letter is a flag as well
      have hend : walk (optTable ps) c.tail (specOf c.p (some c.letter)) c.lastArg (flagSpecs (f :: fs.map (·.1)))
          = .done (flagSpecs (f :: (fs.map (·.1) ++ [c]))) none := by
        rw [walk.eq_def]
        simp [OptSpec.valued, specOf, hk, Choice.lastArg, flagSpecs]
      have hall : ∀ x ∈ f :: (fs.map (·.1) ++ [c]), x.p.kind = .flag := by
        intro x hx
        rw [← List.cons_append] at hx
        rcases List.mem_append.mp hx with hx | hx
        · exact hflags x hx
        · simp at hx; exact hx ▸ hk
      have hwalk := hw.trans hend
      simp only [Item.render, List.cons_append, scanOpts, hff, hwalk]
      simp [hk, flagSpecs_noHelp, addFlags_specs _ hall, Item.choices]
    · have hend : walk (optTable ps) c.tail (specOf c.p (some c.letter)) c.lastArg (flagSpecs (f :: fs.map (·.1)))
          = .done (flagSpecs (f :: fs.map (·.1))) (some (c.p, c.lastArg)) := by
        rw [walk.eq_def]
        simp [OptSpec.valued, specOf, hk]
      have hcv : c.val = .one c.a := by simp [Choice.val, hk]
      have hadd : ∀ st : PState, (st.addFlags (flagSpecs (f :: fs.map (·.1)))).addOpt c.p.name (.one c.a)
          = addOpts st (f :: (fs.map (·.1) ++ [c])) := by
        intro st
        rw [addFlags_specs _ hflags, ← List.cons_append, addOpts_append]
        simp [addOpts, hcv]
      have hwalk := hw.trans hend
      cases hg : c.glued with
      | some e =>
        have hw' : c.w.text ≠ dashdash := hgl (by simp [hg])
        have hla : c.lastArg = some c.w := by simp [Choice.lastArg, hk, hg]
        simp only [Item.render, List.cons_append, scanOpts, hff, hwalk]
        simp only [hla]
        simp [hk, hg, flagSpecs_noHelp, hw', hconv hk, hadd, Item.choices]
      | none =>
        have hla : c.lastArg = none := by simp [Choice.lastArg, hk, hg]
        simp only [Item.render, hk, hg, Option.isSome_none, Bool.false_eq_true, or_self, if_false, List.cons_append,
          List.nil_append, scanOpts, hff, hwalk]
        simp only [hla]
        simp [flagSpecs_noHelp, hconv hk, hadd, Item.choices]

theorem scanOpts_renderItems {ps : List Param} (hok : paramsOk ps = true) (me : Str) :
    ∀ (l : List Item), (∀ it ∈ l, it.ok ps) → ∀ (rest : List Tok) (st : PState),
    scanOpts me (optTable ps) (renderItems l ++ rest) st = scanOpts me (optTable ps) rest (addOpts st (itemChoices l))
  | [], _, rest, st => by simp [renderItems, itemChoices, addOpts]
  | it :: l, h, rest, st => by
    have ih := scanOpts_renderItems hok me l (fun x hx => h x (List.mem_cons_of_mem _ hx)) rest (addOpts st it.choices)
    simp only [renderItems, itemChoices, List.flatMap_cons, List.append_assoc] at ih ⊢
    rw [scanOpts_item hok me (h it (by simp)), ih, addOpts_append]

theorem addOpts_eq : ∀ (cs : List Choice) (st : PState), addOpts st cs = { st with opts := optEntries cs ++ st.opts }
  | [], st => by cases st; simp [addOpts, optEntries]
  | c :: cs, st => by
    have ih := addOpts_eq cs (st.addOpt c.p.name c.val)
    simp only [addOpts, List.foldl_cons] at ih ⊢
    rw [ih]
    cases st
    simp [optEntries, PState.addOpt]

/-! ### binding the positional run -/

theorem bindWords_stop {r : List Tok} (st : PState) (h : startsRun r = false) : bindWords r st = .cont st r := by
  cases r with
  | nil => simp [bindWords]
  | cons t r => cases t <;> simp_all [bindWords, startsRun]

theorem bindWords_singles : ∀ {singles : List Param} {pargs : List PosArg}, posOk singles pargs →
    (∀ p ∈ singles, p.kind ≠ .varPositional) → ∀ (tail : List Param) (r : List Tok) (st : PState),
    st.posLeft = singles ++ tail →
    bindWords (renderPos pargs ++ r) st
      = bindWords r { st with posLeft := tail, bound := st.bound ++ (singles.zip pargs).map (fun x => (x.1.name, .one x.2.a)) }
  | [], [], _, _, tail, r, st, hst => by
    cases st; simp_all [renderPos]
  | [], _ :: _, hf, _, _, _, _, _ => by simp [posOk] at hf
  | _ :: _, [], hf, _, _, _, _, _ => by simp [posOk] at hf
  | p :: singles, x :: pargs, hf, hk, tail, r, st, hst => by
    obtain ⟨hx, hrest⟩ := hf
    have hpk : p.kind ≠ .varPositional := hk p (by simp)
    obtain ⟨pl, b, sr, o, e⟩ := st
    simp only at hst
    subst hst
    have ih := bindWords_singles hrest (fun q hq => hk q (List.mem_cons_of_mem _ hq)) tail r
      { posLeft := singles ++ tail, bound := b ++ [(p.name, .one x.a)], star := sr, opts := o, extras := e } rfl
    simp only [renderPos, List.map_cons, List.cons_append] at ih ⊢
    rw [bindWords]
    unfold PosArg.ok at hx
    simp only [hx, hpk, if_false]
    rw [ih]
    simp [List.append_assoc]

theorem bindWords_star {sp : Param} (hk : sp.kind = .varPositional) : ∀ (sargs : List PosArg), (∀ x ∈ sargs, x.ok sp) →
    ∀ (r : List Tok) (st : PState), st.posLeft = [sp] →
    bindWords (renderPos sargs ++ r) st = bindWords r { st with star := st.star ++ sargs.map (·.a) }
  | [], _, r, st, _ => by cases st; simp [renderPos]
  | x :: sargs, h, r, st, hst => by
    have hx : convert sp.conv x.w = some x.a := h x (by simp)
    obtain ⟨pl, b, sr, o, e⟩ := st
    simp only at hst
    subst hst
    have ih := bindWords_star hk sargs (fun y hy => h y (List.mem_cons_of_mem _ hy)) r
      { posLeft := [sp], bound := b, star := sr ++ [x.a], opts := o, extras := e } rfl
    simp only [renderPos, List.map_cons, List.cons_append] at ih ⊢
    rw [bindWords]
    simp only [hx, hk, if_true]
    rw [ih]
    simp [List.append_assoc]


/-! ### the command table -/

theorem wf_names {ms : List Member} (h : wellFormed ms = true) : (ms.map (·.name)).Nodup := by
  simp only [wellFormed, Bool.and_eq_true] at h
  exact (distinctB_iff _).mp h.2

theorem wf_ident {ms : List Member} (h : wellFormed ms = true) {m : Member} (hm : m ∈ ms) : isIdent m.name = true := by
  simp only [wellFormed, Bool.and_eq_true, List.all_eq_true] at h
  have := h.1 m hm
  simp only [Member.ok, Bool.and_eq_true] at this
  exact this.1

theorem wf_params {ms : List Member} (h : wellFormed ms = true) {m : Member} (hm : m ∈ ms) (he : m.exposed = true) :
    paramsOk m.params = true := by
  simp only [wellFormed, Bool.and_eq_true, List.all_eq_true] at h
  have := h.1 m hm
  simp only [Member.ok, Bool.and_eq_true, Bool.or_eq_true, Bool.not_eq_true'] at this
  rcases this.2 with h1 | h1
  · simp [he] at h1
  · exact h1

theorem mem_commandTable {ms : List Member} {c : Cmd} :
    c ∈ commandTable ms ↔ ∃ m ∈ ms, m.exposed = true ∧ c = toCmd m := by
  simp only [commandTable, List.mem_map, List.mem_filter]
  constructor
  · rintro ⟨m, ⟨hm, he⟩, rfl⟩; exact ⟨m, hm, he, rfl⟩
  · rintro ⟨m, hm, he, rfl⟩; exact ⟨m, ⟨hm, he⟩, rfl⟩

theorem lookupCmd_exposed {ms : List Member} (hwf : wellFormed ms = true) {m : Member} (hm : m ∈ ms)
    (he : m.exposed = true) : lookupCmd (commandTable ms) (dash m.name) = some (toCmd m) := by
  apply find?_unique (mem_commandTable.mpr ⟨m, hm, he, rfl⟩) (by simp [toCmd])
  intro x hx hq
  obtain ⟨m', hm', _, rfl⟩ := mem_commandTable.mp hx
  have hd : dash m'.name = dash m.name := by simpa [toCmd] using hq
  have hn := dash_inj (wf_ident hwf hm') (wf_ident hwf hm) hd
  have := nodup_map_inj (wf_names hwf) m' hm' m hm hn
  rw [this]

theorem buildOk_of_wf {ms : List Member} (hwf : wellFormed ms = true) : buildOk (commandTable ms) = true := by
  simp only [buildOk, Bool.and_eq_true, distinctB_iff, List.all_eq_true]
  constructor
  · have : (commandTable ms).map (·.name) = ((ms.filter Member.exposed).map (·.name)).map dash := by
      simp [commandTable, toCmd, List.map_map, Function.comp_def]
    rw [this]
    apply nodup_map_dash
    · intro n hn
      obtain ⟨m, hm, rfl⟩ := List.mem_map.mp hn
      exact wf_ident hwf (List.mem_filter.mp hm).1
    · exact List.Nodup.sublist (List.Sublist.map _ List.filter_sublist) (wf_names hwf)
  · intro c hc
    obtain ⟨m, hm, he, rfl⟩ := mem_commandTable.mp hc
    exact optsOk_optTable (wf_params hwf hm he)

end Taskpool.Control
