import Taskpool.Inv.Steps
import Taskpool.Inv.Lift
/-! `Good` (slot conservation ∧ phase invariant) as a pool invariant of every reachable world. -/
namespace Taskpool

/-- slot conservation against the size the pool was constructed with (for an unbounded pool: the counter stays
unbounded), the phase invariant and the registry invariant -/
def GoodC (c : Cfg) (p : Pool) : Prop := Good c.size0 true true p

/-- the same without reference to the configured size: it survives assignments to `pool_size` -/
def BaseC (_ : Cfg) (p : Pool) : Prop := ∃ cap : Cap, Good cap true false p

/-- the strict variant: additionally no task was ever lost (no `KeyError` in a wrapper, nothing dropped while it held
a slot) and no `gather_and_close` call exists; an invariant of histories without `gather_and_close` -/
def StrictC (_ : Cfg) (p : Pool) : Prop := ∃ cap : Cap, Good cap false false p

def noAsync : Op → Bool := fun o => !o.isAsync

/-- histories without `gather_and_close` (any number of concurrent `flush` and `until_closed` calls allowed) -/
def noGac : Op → Bool := fun o => !o.isGac

theorem noGac_of_noAsync (o : Op) (h : noAsync o = true) : noGac o = true := by
  cases o <;> simp_all [noAsync, noGac, Op.isAsync, Op.isGac]

def noSetSize : Op → Bool := fun o => !o.isSetSize

theorem good_init (cap : Cap) (L R : Bool) (simple : Option SpawnSpec) : Good cap L R (Pool.init cap simple) :=
  ⟨⟨by cases cap with
      | fin n => exact ⟨n, rfl, by simp [Pool.init, heldL, grantsL]⟩
      | inf => exact ⟨rfl, rfl⟩,
   fun i tk h _ => by simp [Pool.init] at h,
   ⟨by simp [Pool.init], fun t h => by simp [Pool.init] at h, fun t h => by simp [Pool.init] at h,
    fun t h => by simp [Pool.init] at h, fun _ t tk h _ => by simp [Pool.init] at h⟩,
   ⟨by simp [Pool.init], fun i hi => by simp [Pool.init] at hi⟩,
   fun t tk h => by simp [Pool.init] at h,
   ⟨fun g G h => by simp [Pool.init] at h, fun a A g h => by simp [Pool.init] at h⟩,
   fun _ v _ _ _ w hw => by simp [Pool.init] at hw, fun _ => rfl,
   fun _ => rfl, fun _ _ A hA => by simp [Pool.init] at hA⟩,
   ⟨fun t tk h _ => by simp [Pool.init] at h, fun m r h => by simp [Pool.init] at h,
    fun m r h => by simp [Pool.init] at h, fun m r h => by simp [Pool.init] at h⟩,
   ⟨fun t tk h => by simp [Pool.init] at h, fun m r h => by simp [Pool.init] at h,
    fun m r h => by simp [Pool.init] at h⟩,
   fun m r c u h => by simp [Pool.init] at h⟩

theorem goodC_invariant : PoolInvariant GoodC noSetSize where
  init := by
    intro c simple _
    exact good_init c.size0 true true simple
  op := by
    intro c p orders o ho hg
    have h1 := (Pool.tame_setOrders p orders).good hg
    exact Pool.good_applyOp _ o (by simpa [noSetSize] using ho) (fun h _ => Bool.noConfusion h) h1
  run := by
    intro c p orders r hg
    exact Pool.good_runRef _ r ((Pool.tame_setOrders p orders).good hg) (fun h => Bool.noConfusion h)
  drain := by
    intro c p hg
    exact (tame_of_eq p { p with emit := [] } rfl rfl).good hg

/-- an assignment to `pool_size` re-bases slot conservation; phase and registry invariants do not care -/
theorem good_setSize {cap : Cap} {L : Bool} (p : Pool) (v : Int) (hg : Good cap L false p) :
    ∃ cap', Good cap' L false (p.doSetSize v).1 := by
  unfold Pool.doSetSize
  split
  · exact ⟨cap, hg⟩
  · exact ⟨.fin (v.toNat + heldL p.tasks + grantsL p.sem.waiters), ⟨⟨v.toNat, rfl, rfl⟩, hg.phase,
      hg.reg.of_eq rfl rfl rfl rfl rfl, hg.grp.of_eq rfl rfl, hg.life.of_eq rfl rfl, hg.fl.frame rfl rfl (fun _ h => h), fun h => Bool.noConfusion h, fun h => Bool.noConfusion h, hg.ll, hg.al⟩, hg.map.of_eq rfl rfl, hg.acc.of_eq rfl rfl, hg.canc.of_eq rfl rfl⟩

/-- phase and registry invariants (with *some* slot conservation) hold in every pool after **every** history,
assignments to `pool_size` included -/
theorem baseC_invariant : PoolInvariant BaseC allOps where
  init := by
    intro c simple _
    exact ⟨c.size0, good_init c.size0 true false simple⟩
  op := by
    intro c p orders o _ ⟨cap, hg⟩
    have h1 := (Pool.tame_setOrders p orders).good hg
    by_cases hs : o.isSetSize = true
    · cases o with
      | setSize v => exact good_setSize _ v h1
      | _ => simp [Op.isSetSize] at hs
    · exact ⟨cap, Pool.good_applyOp _ o (by simpa using hs) (fun h _ => Bool.noConfusion h) h1⟩
  run := by
    intro c p orders r ⟨cap, hg⟩
    exact ⟨cap, Pool.good_runRef _ r ((Pool.tame_setOrders p orders).good hg) (fun _ h => Bool.noConfusion h)⟩
  drain := by
    intro c p ⟨cap, hg⟩
    exact ⟨cap, (tame_of_eq p { p with emit := [] } rfl rfl).good hg⟩

/-- without `gather_and_close` the strict variant holds after every history (assignments to `pool_size` included) -/
theorem strictC_invariant : PoolInvariant StrictC noGac where
  init := by
    intro c simple _
    exact ⟨c.size0, good_init c.size0 false false simple⟩
  op := by
    intro c p orders o ho ⟨cap, hg⟩
    have h1 := (Pool.tame_setOrders p orders).good hg
    by_cases hs : o.isSetSize = true
    · cases o with
      | setSize v => exact good_setSize _ v h1
      | _ => simp [Op.isSetSize] at hs
    · exact ⟨cap, Pool.good_applyOp _ o (by simpa using hs) (fun _ _ => by simpa [noGac] using ho) h1⟩
  run := by
    intro c p orders r ⟨cap, hg⟩
    exact ⟨cap, Pool.good_runRef _ r ((Pool.tame_setOrders p orders).good hg) (fun _ h => Bool.noConfusion h)⟩
  drain := by
    intro c p ⟨cap, hg⟩
    exact ⟨cap, (tame_of_eq p { p with emit := [] } rfl rfl).good hg⟩

/-- every pool of every world reachable without an assignment to `pool_size`, if constructed with the finite size `n` -/
theorem goodFin (base : Nat) (h : History) (hn : ∀ x ∈ h, x.admits noSetSize = true) (i : Nat) (c : Cfg) (p : Pool)
    (n : Nat) (hc : ((World.init base).run h).cfgs[i]? = some c) (hp : ((World.init base).run h).pools[i]? = some p)
    (hsz : c.size0 = .fin n) : Good (.fin n) true true p := by
  have := (World.reachable goodC_invariant base h hn).inv i c p hc hp
  unfold GoodC at this
  rw [hsz] at this
  exact this

/-- … and if constructed unbounded -/
theorem goodInf (base : Nat) (h : History) (hn : ∀ x ∈ h, x.admits noSetSize = true) (i : Nat) (c : Cfg) (p : Pool)
    (hc : ((World.init base).run h).cfgs[i]? = some c) (hp : ((World.init base).run h).pools[i]? = some p)
    (hsz : c.size0 = .inf) : Good .inf true true p := by
  have := (World.reachable goodC_invariant base h hn).inv i c p hc hp
  unfold GoodC at this
  rw [hsz] at this
  exact this

/-- every pool of every reachable world, whatever the history (assignments to `pool_size` included) -/
theorem baseAll (base : Nat) (h : History) (i : Nat) (c : Cfg) (p : Pool)
    (hc : ((World.init base).run h).cfgs[i]? = some c) (hp : ((World.init base).run h).pools[i]? = some p) :
    PhaseOK p ∧ RegOK p := by
  obtain ⟨cap, hg⟩ := (World.reachable baseC_invariant base h (fun x _ => admits_all x)).inv i c p hc hp
  exact ⟨hg.phase, hg.reg⟩

/-- the callback life cycle of every task of every pool of every reachable world -/
theorem lifeAll (base : Nat) (h : History) (i : Nat) (c : Cfg) (p : Pool)
    (hc : ((World.init base).run h).cfgs[i]? = some c) (hp : ((World.init base).run h).pools[i]? = some p) :
    LifeOK p := by
  obtain ⟨cap, hg⟩ := (World.reachable baseC_invariant base h (fun x _ => admits_all x)).inv i c p hc hp
  exact hg.life

/-- groups partition the tasks they file, in every pool of every reachable world, whatever the history -/
theorem groupsAll (base : Nat) (h : History) (i : Nat) (c : Cfg) (p : Pool)
    (hc : ((World.init base).run h).cfgs[i]? = some c) (hp : ((World.init base).run h).pools[i]? = some p) :
    GroupsOK p := by
  obtain ⟨cap, hg⟩ := (World.reachable baseC_invariant base h (fun x _ => admits_all x)).inv i c p hc hp
  exact hg.grp

/-- **no task is ever lost** in a history without `gather_and_close`: no wrapper ever hits the `KeyError` of a missing
registry entry and no `flush` — however many run concurrently — ever forgets a task that still holds its slot,
whatever the mix of returns, exceptions, cancellations, callbacks and resizes -/
theorem strictAll (base : Nat) (h : History) (hn : ∀ x ∈ h, x.admits noGac = true) (i : Nat) (c : Cfg) (p : Pool)
    (hc : ((World.init base).run h).cfgs[i]? = some c) (hp : ((World.init base).run h).pools[i]? = some p) :
    p.lost = false ∧ RegOK p ∧ LifeOK p := by
  obtain ⟨cap, hg⟩ := (World.reachable strictC_invariant base h hn).inv i c p hc hp
  exact ⟨hg.ll rfl, hg.reg, hg.life⟩

/-- the books of every call's own `num_concurrent` semaphore, in every pool of every reachable world, whatever the
history (assignments to `pool_size` included) -/
theorem mapAll (base : Nat) (h : History) (i : Nat) (c : Cfg) (p : Pool)
    (hc : ((World.init base).run h).cfgs[i]? = some c) (hp : ((World.init base).run h).pools[i]? = some p) :
    MapOK p := by
  obtain ⟨cap, hg⟩ := (World.reachable baseC_invariant base h (fun x _ => admits_all x)).inv i c p hc hp
  exact hg.map

/-- request accounting, in every pool of every reachable world, whatever the history -/
theorem accAll (base : Nat) (h : History) (i : Nat) (c : Cfg) (p : Pool)
    (hc : ((World.init base).run h).cfgs[i]? = some c) (hp : ((World.init base).run h).pools[i]? = some p) :
    AccOK p := by
  obtain ⟨cap, hg⟩ := (World.reachable baseC_invariant base h (fun x _ => admits_all x)).inv i c p hc hp
  exact hg.acc

/-- cancelled spawners stay stopped, in every pool of every reachable world, whatever the history -/
theorem cancAll (base : Nat) (h : History) (i : Nat) (c : Cfg) (p : Pool)
    (hc : ((World.init base).run h).cfgs[i]? = some c) (hp : ((World.init base).run h).pools[i]? = some p) :
    CancOK p := by
  obtain ⟨cap, hg⟩ := (World.reachable baseC_invariant base h (fun x _ => admits_all x)).inv i c p hc hp
  exact hg.canc

/-- the number of workers that have begun and not finished -/
def Pool.live (p : Pool) : Nat := p.tasks.countP (fun t => t.phase == .inWorker)

theorem live_le_held (p : Pool) (hp : PhaseOK p) : p.live ≤ heldL p.tasks := by
  unfold Pool.live heldL
  apply List.countP_mono_left
  intro tk hmem hph
  obtain ⟨i, hi, rfl⟩ := List.getElem_of_mem hmem
  have := hp i p.tasks[i] (by simp [hi]) (by simp [NYR]; simp at hph; simp [hph])
  simp [this]

end Taskpool
