import Taskpool.Inv.Steps
import Taskpool.Inv.Lift
/-! `Good` (slot conservation ∧ phase invariant) as a pool invariant of every reachable world. -/
namespace Taskpool

/-- for a pool constructed with a finite size `n`: slot conservation against `n`, and the phase invariant -/
def GoodC (c : Cfg) (p : Pool) : Prop := ∀ n, c.size0 = .fin n → Good n p

def noSetSize : Op → Bool := fun o => !o.isSetSize

theorem good_init (n : Nat) (simple : Option SpawnSpec) : Good n (Pool.init (.fin n) simple) :=
  ⟨⟨n, rfl, by simp [Pool.init, heldL, grantsL]⟩, fun i tk h _ => by simp [Pool.init] at h,
   ⟨by simp [Pool.init], fun t h => by simp [Pool.init] at h, fun t h => by simp [Pool.init] at h,
    fun t h => by simp [Pool.init] at h, fun _ t tk h _ => by simp [Pool.init] at h⟩⟩

theorem goodC_invariant : PoolInvariant GoodC noSetSize where
  init := by
    intro c simple _ n hn
    rw [hn]; exact good_init n simple
  op := by
    intro c p orders o ho hg n hn
    have h1 := (Pool.tame_setOrders p orders).good (hg n hn)
    exact (Pool.tame_applyOp _ o (by simpa [noSetSize] using ho)).good h1
  run := by
    intro c p orders r hg n hn
    exact Pool.good_runRef _ r ((Pool.tame_setOrders p orders).good (hg n hn))
  drain := by
    intro c p hg n hn
    exact (tame_of_eq p { p with emit := [] } rfl rfl).good (hg n hn)

/-- the number of workers that have begun and not finished -/
def Pool.live (p : Pool) : Nat := p.tasks.countP (fun t => t.phase == .inWorker)

theorem live_le_held (p : Pool) (hp : PhaseOK p) : p.live ≤ heldL p.tasks := by
  unfold Pool.live heldL
  apply List.countP_mono_left
  intro tk hmem hph
  obtain ⟨i, hi, rfl⟩ := List.getElem_of_mem hmem
  have := hp i p.tasks[i] (by simp [hi]) (by simp [NYR]; simp at hph; simp [hph])
  simp [this]

end Taskpool
