import Taskpool.Inv.Seal
/-! **A task inside its end callback stays filed as ended, and whoever waits for the ended tasks waits for all of them**
(pools that nobody unlocks).

The registry invariant (`RegOK`, with `lost = false`) says that a task which still *holds its slot* is filed as running
or cancelled — so neither `flush()` nor the closing step of `gather_and_close()` forgets a task that is running or inside
its cancel callback.  A task inside a coroutine **end** callback has handed its slot back; what keeps `flush()` from
forgetting *it* — and `gather_and_close()` from returning before it has finished — is this invariant:

* `ef` — a task suspended in its end callback is filed as ended;
* `fe` — a `flush()` suspended in its second gather has every id of its ended-registry snapshot among the children of
  that gather (the cancelled-registry snapshot is `FlushOK.api`), so with `FlushOK.gth` the ids it forgets in its last
  step belong to finished tasks;
* `ge` — a `gather_and_close()` suspended in its second gather has every id filed as ended among the children of that
  gather, at every moment of the wait (ids enter the ended registry only from the running / cancelled registries, which
  `SealOK.g2` keeps among the children).

`E t`: the task whose handle is being run is exempt from `ef` (inside its step it passes through the transient phase
`wrapUp`; the registry move and the phase change are not simultaneous). -/
namespace Taskpool
namespace Pool

structure EndOK (E : Nat → Prop) (p : Pool) : Prop where
  ef : ∀ (t : Nat) (k : PTask), p.tasks[t]? = some k → ¬ E t → k.phase = .inEndCb → t ∈ p.ended
  fe : ∀ (a : Nat) (A : Api) (g : Nat), p.apis[a]? = some A → A.frame = .gather2 g → A.kind.isGac = false →
         ∃ G : Gather, p.gathers[g]? = some G ∧ ∀ t ∈ A.snapE, Child.task t ∈ G.children
  ge : ∀ (a : Nat) (A : Api) (g : Nat), p.apis[a]? = some A → A.frame = .gather2 g → A.kind.isGac = true →
         ∃ G : Gather, p.gathers[g]? = some G ∧ ∀ t ∈ p.ended, Child.task t ∈ G.children

/-- nobody exempt: the state between two steps -/
abbrev EndFiled (p : Pool) : Prop := EndOK (fun _ => False) p

/-- Boolean restatement for the driver (a cross-check on the states actually reached) -/
def endBit (p : Pool) : Bool :=
  (p.tasks.zipIdx.all fun (k, t) => k.phase != .inEndCb || p.ended.contains t) &&
  (p.apis.all fun A => match A.frame with
    | .gather2 g => (match p.gathers[g]? with
        | some G => if A.kind.isGac then p.ended.all fun t => G.children.contains (.task t)
                    else A.snapE.all fun t => G.children.contains (.task t)
        | none => false)
    | _ => true)

end Pool
end Taskpool
