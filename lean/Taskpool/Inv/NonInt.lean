import Taskpool.Model.World
/-! **Noninterference (C12), the walk — part 1: the erasure and the functions that commute with it.**

`er t p` forgets *how* task `t` of pool `p` ended: the exception the future it awaited completed with, the exception
that is about to leave its wrapper, the value of its outcome and which of `raised t` / `returned t` (resp. the
callback events) was logged.  Everything else — every other task, the registries, the semaphores, the spawners, the
gathers, the background calls, the queued handles — is kept.

This file shows that every step function outside the wrapper of a pool task **commutes** with the erasure:
`f (er t p) = er t (f p)` (oriented this way for `simp`: the erasure is pulled outwards, reads through it disappear).
Part 2 (`NonInt2.lean`) walks the wrapper, where the erased fields are written: there `f` only *respects* the erasure,
`er t p = er t q → er t (f p) = er t (f q)`. -/
namespace Taskpool

/-- an exception in the awaited future is forgotten -/
def erFut : FutSt → FutSt
  | .exc _ => .ok
  | x => x

@[simp] theorem erFut_pending : erFut .pending = .pending := rfl
@[simp] theorem erFut_ok : erFut .ok = .ok := rfl
@[simp] theorem erFut_cancelled : erFut .cancelled = .cancelled := rfl
@[simp] theorem erFut_exc (e : Err) : erFut (.exc e) = .ok := rfl
@[simp] theorem erFut_erFut (f : FutSt) : erFut (erFut f) = erFut f := by cases f <;> rfl
@[simp] theorem erFut_eq_pending (f : FutSt) : (erFut f == .pending) = (f == .pending) := by cases f <;> rfl
@[simp] theorem erFut_eq_cancelled (f : FutSt) : (erFut f == .cancelled) = (f == .cancelled) := by cases f <;> rfl

/-- forget how the task ended.  The state of the future it awaits is kept while the worker has a further suspension
point ahead of it (`phase = .inWorker ∧ awaitsLeft ≠ 0`): there a normal completion makes the worker go on and an
exception ends it, the two runs diverge (see the hypothesis of `C12_noninterference`) -/
def erTask (k : PTask) : PTask :=
  { k with fut := if k.phase = .inWorker ∧ k.awaitsLeft ≠ 0 then k.fut else erFut k.fut,
           pendingExc := none,
           outcome := k.outcome.map fun _ => Outcome.ok }

/-- the erasure at index `t'` of the task list when task `t` is erased -/
def erAt (t t' : Nat) (k : PTask) : PTask := if t = t' then erTask k else k

/-- `raised t ↦ returned t`, `cancelCbRaised t ↦ cancelCbDone t`, `endCbRaised t ↦ endCbDone t` -/
def erEv (t : Nat) : Ev → Ev
  | .raised t' => if t' = t then .returned t' else .raised t'
  | .cancelCbRaised t' => if t' = t then .cancelCbDone t' else .cancelCbRaised t'
  | .endCbRaised t' => if t' = t then .endCbDone t' else .endCbRaised t'
  | e => e

@[simp] theorem erEv_erEv (t : Nat) (e : Ev) : erEv t (erEv t e) = erEv t e := by
  cases e with
  | raised t' => by_cases h : t' = t <;> simp [erEv, h]
  | cancelCbRaised t' => by_cases h : t' = t <;> simp [erEv, h]
  | endCbRaised t' => by_cases h : t' = t <;> simp [erEv, h]
  | _ => rfl

@[simp] theorem erTask_erTask (k : PTask) : erTask (erTask k) = erTask k := by
  cases k
  simp only [erTask, PTask.mk.injEq, true_and, and_true, Option.map_map]
  refine ⟨?_, ?_⟩
  · split <;> simp
  · rename_i o _ _ _ _ _ _ _ _ _ _ _; cases o <;> rfl

@[simp] theorem erAt_erAt (t t' : Nat) (k : PTask) : erAt t t' (erAt t t' k) = erAt t t' k := by
  unfold erAt; split <;> simp


/-! what the erasure keeps of a task record -/
@[simp] theorem erAt_req (t t' : Nat) (k : PTask) : (erAt t t' k).req = k.req := by unfold erAt; split <;> rfl
@[simp] theorem erAt_arg (t t' : Nat) (k : PTask) : (erAt t t' k).arg = k.arg := by unfold erAt; split <;> rfl
@[simp] theorem erAt_phase (t t' : Nat) (k : PTask) : (erAt t t' k).phase = k.phase := by unfold erAt; split <;> rfl
@[simp] theorem erAt_released (t t' : Nat) (k : PTask) : (erAt t t' k).released = k.released := by unfold erAt; split <;> rfl
@[simp] theorem erAt_isMap (t t' : Nat) (k : PTask) : (erAt t t' k).isMap = k.isMap := by unfold erAt; split <;> rfl
@[simp] theorem erAt_mapHeld (t t' : Nat) (k : PTask) : (erAt t t' k).mapHeld = k.mapHeld := by unfold erAt; split <;> rfl
@[simp] theorem erAt_mustCancel (t t' : Nat) (k : PTask) : (erAt t t' k).mustCancel = k.mustCancel := by unfold erAt; split <;> rfl
@[simp] theorem erAt_sched (t t' : Nat) (k : PTask) : (erAt t t' k).sched = k.sched := by unfold erAt; split <;> rfl
@[simp] theorem erAt_sawCancel (t t' : Nat) (k : PTask) : (erAt t t' k).sawCancel = k.sawCancel := by unfold erAt; split <;> rfl
@[simp] theorem erAt_unstarted (t t' : Nat) (k : PTask) : (erAt t t' k).unstarted = k.unstarted := by unfold erAt; split <;> rfl
@[simp] theorem erAt_cancelledEarly (t t' : Nat) (k : PTask) : (erAt t t' k).cancelledEarly = k.cancelledEarly := by unfold erAt; split <;> rfl
@[simp] theorem erAt_doneCbs (t t' : Nat) (k : PTask) : (erAt t t' k).doneCbs = k.doneCbs := by unfold erAt; split <;> rfl
@[simp] theorem erAt_endCb (t t' : Nat) (k : PTask) : (erAt t t' k).endCb = k.endCb := by unfold erAt; split <;> rfl
@[simp] theorem erAt_cancelCb (t t' : Nat) (k : PTask) : (erAt t t' k).cancelCb = k.cancelCb := by unfold erAt; split <;> rfl
@[simp] theorem erAt_nEC (t t' : Nat) (k : PTask) : (erAt t t' k).nEC = k.nEC := by unfold erAt; split <;> rfl
@[simp] theorem erAt_nCC (t t' : Nat) (k : PTask) : (erAt t t' k).nCC = k.nCC := by unfold erAt; split <;> rfl
@[simp] theorem erAt_wasCancelled (t t' : Nat) (k : PTask) : (erAt t t' k).wasCancelled = k.wasCancelled := by unfold erAt; split <;> rfl
@[simp] theorem erAt_nSaw (t t' : Nat) (k : PTask) : (erAt t t' k).nSaw = k.nSaw := by unfold erAt; split <;> rfl
@[simp] theorem erAt_awaitsLeft (t t' : Nat) (k : PTask) : (erAt t t' k).awaitsLeft = k.awaitsLeft := by unfold erAt; split <;> rfl
@[simp] theorem erAt_outcome_isSome (t t' : Nat) (k : PTask) : (erAt t t' k).outcome.isSome = k.outcome.isSome := by
  unfold erAt; split
  · simp [erTask]
  · rfl
@[simp] theorem erAt_outcome_isNone (t t' : Nat) (k : PTask) : (erAt t t' k).outcome.isNone = k.outcome.isNone := by
  unfold erAt; split
  · simp [erTask]
  · rfl
@[simp] theorem erAt_fut_pending (t t' : Nat) (k : PTask) : ((erAt t t' k).fut == .pending) = (k.fut == .pending) := by
  unfold erAt; split
  · simp only [erTask]; split <;> simp
  · rfl
@[simp] theorem erAt_fut_cancelled (t t' : Nat) (k : PTask) : ((erAt t t' k).fut == .cancelled) = (k.fut == .cancelled) := by
  unfold erAt; split
  · simp only [erTask]; split <;> simp
  · rfl

/-! ### lists -/

theorem modify_modify_same {α} (l : List α) (i : Nat) (f g : α → α) : (l.modify i f).modify i g = l.modify i (g ∘ f) := by
  apply List.ext_getElem?
  intro j
  simp only [List.getElem?_modify]
  cases l[j]? with
  | none => rfl
  | some a => by_cases h : i = j <;> simp [h]

theorem modify_congr {α} (l : List α) (i : Nat) (f g : α → α) (h : ∀ a, f a = g a) : l.modify i f = l.modify i g := by
  have : f = g := funext h
  rw [this]

theorem modify_comm {α} (l : List α) (i j : Nat) (f g : α → α) (h : i = j → ∀ a, g (f a) = f (g a)) :
    (l.modify i f).modify j g = (l.modify j g).modify i f := by
  apply List.ext_getElem?
  intro n
  simp only [List.getElem?_modify]
  cases l[n]? with
  | none => rfl
  | some a =>
    by_cases h1 : i = n <;> by_cases h2 : j = n <;> simp [h1, h2]
    exact h (h1.trans h2.symm) a

theorem modify_append_one {α} (l : List α) (a : α) (i : Nat) (f : α → α) (h : f a = a) :
    (l ++ [a]).modify i f = l.modify i f ++ [a] := by
  apply List.ext_getElem?
  intro n
  by_cases hn : n < l.length
  · rw [List.getElem?_modify, List.getElem?_append_left hn, List.getElem?_append_left (by simpa using hn),
      List.getElem?_modify]
  · rw [List.getElem?_modify, List.getElem?_append_right (by omega), List.getElem?_append_right (by simp; omega),
      List.length_modify]
    cases hd : n - l.length with
    | zero => by_cases h1 : i = n <;> simp [h1, h]
    | succ m => simp

namespace Pool

/-- **the erasure**: forget how task `t` itself ended -/
def er (t : Nat) (p : Pool) : Pool :=
  { p with tasks := p.tasks.modify t erTask, log := p.log.map (erEv t) }

variable {t : Nat}

/-! ### reads through the erasure -/

@[simp] theorem er_simple (p : Pool) : (er t p).simple = p.simple := rfl
@[simp] theorem er_startCalls (p : Pool) : (er t p).startCalls = p.startCalls := rfl
@[simp] theorem er_sem (p : Pool) : (er t p).sem = p.sem := rfl
@[simp] theorem er_locked (p : Pool) : (er t p).locked = p.locked := rfl
@[simp] theorem er_closed (p : Pool) : (er t p).closed = p.closed := rfl
@[simp] theorem er_reqs (p : Pool) : (er t p).reqs = p.reqs := rfl
@[simp] theorem er_groups (p : Pool) : (er t p).groups = p.groups := rfl
@[simp] theorem er_running (p : Pool) : (er t p).running = p.running := rfl
@[simp] theorem er_cancelledR (p : Pool) : (er t p).cancelledR = p.cancelledR := rfl
@[simp] theorem er_ended (p : Pool) : (er t p).ended = p.ended := rfl
@[simp] theorem er_metaCancelled (p : Pool) : (er t p).metaCancelled = p.metaCancelled := rfl
@[simp] theorem er_apis (p : Pool) : (er t p).apis = p.apis := rfl
@[simp] theorem er_gathers (p : Pool) : (er t p).gathers = p.gathers := rfl
@[simp] theorem er_closedWaiters (p : Pool) : (er t p).closedWaiters = p.closedWaiters := rfl
@[simp] theorem er_emit (p : Pool) : (er t p).emit = p.emit := rfl
@[simp] theorem er_names (p : Pool) : (er t p).names = p.names := rfl
@[simp] theorem er_orders (p : Pool) : (er t p).orders = p.orders := rfl
@[simp] theorem er_ambiguous (p : Pool) : (er t p).ambiguous = p.ambiguous := rfl
@[simp] theorem er_lost (p : Pool) : (er t p).lost = p.lost := rfl
@[simp] theorem er_resized (p : Pool) : (er t p).resized = p.resized := rfl
@[simp] theorem er_tasks_length (p : Pool) : (er t p).tasks.length = p.tasks.length := by simp [er]

theorem er_tasks (p : Pool) : (er t p).tasks = p.tasks.modify t erTask := rfl
theorem er_log (p : Pool) : (er t p).log = p.log.map (erEv t) := rfl

@[simp] theorem er_tasks_get (p : Pool) (j : Nat) : (er t p).tasks[j]? = (p.tasks[j]?).map (erAt t j) := by
  simp only [er, List.getElem?_modify]
  cases p.tasks[j]? with
  | none => rfl
  | some k => simp only [erAt, Option.map_eq_map, Option.map_some]

/-- a record update that touches neither the tasks nor the log commutes with the erasure (refolding lemma for `simp`:
the other fields have been read through the erasure already) -/
@[simp] theorem er_mk (p : Pool) (simple startCalls sem locked closed reqs groups running cancelledR ended metaCancelled apis gathers
    closedWaiters emit names orders ambiguous lost resized) :
    (Pool.mk simple startCalls sem locked closed (er t p).tasks reqs groups running cancelledR ended metaCancelled apis gathers
      closedWaiters emit (er t p).log names orders ambiguous lost resized) =
    er t (Pool.mk simple startCalls sem locked closed p.tasks reqs groups running cancelledR ended metaCancelled apis gathers
      closedWaiters emit p.log names orders ambiguous lost resized) := rfl

@[simp] theorem er_er (p : Pool) : er t (er t p) = er t p := by
  simp only [er, modify_modify_same, List.map_map]
  congr 1
  · exact modify_congr _ _ _ _ (fun a => erTask_erTask a)
  · apply List.map_congr_left; intro e _; exact erEv_erEv t e

/-- two pools have the same erasure -/
theorem er_eq_iff (p q : Pool) : er t p = er t q ↔
    (q = { p with tasks := q.tasks, log := q.log } ∧ p.tasks.modify t erTask = q.tasks.modify t erTask ∧
      p.log.map (erEv t) = q.log.map (erEv t)) := by
  cases p; cases q
  simp only [er, Pool.mk.injEq]
  constructor
  · intro h; simp only [h, and_self]
  · intro h; simp only [h, and_self]

/-! ### plumbing -/

@[simp] theorem modReq_er (p : Pool) (m : Nat) (f : Req → Req) : (er t p).modReq m f = er t (p.modReq m f) := rfl
@[simp] theorem modApi_er (p : Pool) (a : Nat) (f : Api → Api) : (er t p).modApi a f = er t (p.modApi a f) := rfl
@[simp] theorem modGather_er (p : Pool) (g : Nat) (f : Gather → Gather) : (er t p).modGather g f = er t (p.modGather g f) := rfl
@[simp] theorem emitRef_er (p : Pool) (r : Ref) : (er t p).emitRef r = er t (p.emitRef r) := rfl

/-- an event that is not about how `t` ended -/
theorem logEv_er (p : Pool) (e : Ev) (he : erEv t e = e) : (er t p).logEv e = er t (p.logEv e) := by
  simp only [logEv, er, List.map_append, List.map_cons, List.map_nil, he]

/-- a change of a task record that commutes with the erasure of a task -/
theorem modTask_er (p : Pool) (t' : Nat) (f : PTask → PTask) (hf : ∀ k, f (erTask k) = erTask (f k)) :
    (er t p).modTask t' f = er t (p.modTask t' f) := by
  simp only [modTask, er]
  congr 1
  exact modify_comm _ _ _ _ _ (fun _ a => hf a)

/-- discharges `∀ k, f (erTask k) = erTask (f k)` for a record update `f` -/
macro "ertac" : tactic =>
  `(tactic| (intro k; first | rfl | (cases k; simp only [erTask, PTask.mk.injEq, true_and, and_true]; (try split) <;> simp [Function.comp_def])))

/-- case analysis down to leaves that hold by computation -/
macro "splits" : tactic =>
  `(tactic| repeat' (first | rfl | (split <;> try simp only [*, ↓reduceIte, if_true, if_false, Bool.false_eq_true])))

@[simp] theorem schedTask_er (p : Pool) (t' : Nat) : (er t p).schedTask t' = er t (p.schedTask t') := by
  unfold schedTask; rw [modTask_er _ _ _ (by ertac)]; rfl

@[simp] theorem schedMeta_er (p : Pool) (m : Nat) : (er t p).schedMeta m = er t (p.schedMeta m) := rfl
@[simp] theorem schedApi_er (p : Pool) (a : Nat) : (er t p).schedApi a = er t (p.schedApi a) := rfl

@[simp] theorem schedOpt_er (p : Pool) (o : Option Nat) : (er t p).schedOpt o = er t (p.schedOpt o) := by
  cases o <;> rfl

theorem foldl_er {α} (f : Pool → α → Pool) (h : ∀ p a, f (er t p) a = er t (f p a)) (l : List α) (p : Pool) :
    l.foldl f (er t p) = er t (l.foldl f p) := by
  induction l generalizing p with
  | nil => rfl
  | cons a as ih => simp only [List.foldl_cons]; rw [h, ih]

@[simp] theorem emitChildren_er (p : Pool) (cbs : List (Nat × Nat)) : (er t p).emitChildren cbs = er t (p.emitChildren cbs) := by
  unfold emitChildren; exact foldl_er _ (fun _ _ => rfl) _ _

@[simp] theorem releasePool_er (p : Pool) : (er t p).releasePool = er t p.releasePool := by
  unfold releasePool; simp

@[simp] theorem releaseMap_er (p : Pool) (m : Nat) : (er t p).releaseMap m = er t (p.releaseMap m) := by
  unfold releaseMap; simp only [er_reqs]; split <;> simp

@[simp] theorem heldB_er (p : Pool) : (er t p).heldB = p.heldB := by
  funext j
  unfold heldB; simp only [er_tasks_get]
  cases p.tasks[j]? with
  | none => rfl
  | some k => simp only [Option.map_some, erAt]; split <;> rfl

@[simp] theorem counters_er (p : Pool) : (er t p).counters = p.counters := rfl
@[simp] theorem groupIds_er (p : Pool) (g : String) : (er t p).groupIds g = p.groupIds g := rfl

/-- a result of a synchronous call, the pool erased -/
def erR (t : Nat) (r : Pool × Res) : Pool × Res := (er t r.1, r.2)

@[simp] theorem erR_fst (r : Pool × Res) : (erR t r).1 = er t r.1 := rfl
@[simp] theorem erR_snd (r : Pool × Res) : (erR t r).2 = r.2 := rfl
@[simp] theorem erR_mk (p : Pool) (r : Res) : (er t p, r) = erR t (p, r) := rfl

/-! ### asyncio `Task.cancel()` -/

@[simp] theorem wakesOnCancel_er (p : Pool) : (er t p).wakesOnCancel = p.wakesOnCancel := by
  funext j
  unfold wakesOnCancel; simp only [er_tasks_get]
  cases p.tasks[j]? with
  | none => rfl
  | some k => simp

@[simp] theorem taskCancel_er (p : Pool) (j : Nat) : (er t p).taskCancel j = er t (p.taskCancel j) := by
  unfold taskCancel; simp only [er_tasks_get, wakesOnCancel_er]
  cases p.tasks[j]? with
  | none => rfl
  | some k =>
    simp only [Option.map_some, erAt_outcome_isSome]
    split
    · rfl
    · split
      · rw [modTask_er _ _ _ (by ertac)]; simp
      · rw [modTask_er _ _ _ (by ertac)]

@[simp] theorem cancelTask_er (p : Pool) (j : Nat) : (er t p).cancelTask j = er t (p.cancelTask j) := by
  unfold cancelTask; simp only [er_tasks_get]
  cases p.tasks[j]? with
  | none => rfl
  | some k =>
    simp only [Option.map_some, erAt_unstarted]
    split
    · rw [modTask_er _ _ _ (by ertac)]
    · simp

@[simp] theorem metaCancel_er (p : Pool) (m : Nat) : (er t p).metaCancel m = er t (p.metaCancel m) := by
  unfold metaCancel; simp only [er_reqs, er_sem]
  split
  · rfl
  · split
    · rfl
    · split
      · simp
      · split <;> simp

/-! ### synchronous API -/

@[simp] theorem genName_er (p : Pool) (pre : String) : (er t p).genName pre = p.genName pre := rfl
@[simp] theorem checkStart_er (p : Pool) (b : Bool) : (er t p).checkStart b = p.checkStart b := rfl

@[simp] theorem register_er (p : Pool) (r : Req) : (er t p).register r = er t (p.register r) := rfl

@[simp] theorem doApply_er (p : Pool) (num group sp) : (er t p).doApply num group sp = erR t (p.doApply num group sp) := by
  unfold doApply; simp only [checkStart_er, genName_er, groupIds_er]
  splits

@[simp] theorem doMap_er (p : Pool) (stars items nc group sp) :
    (er t p).doMap stars items nc group sp = erR t (p.doMap stars items nc group sp) := by
  unfold doMap; simp only [checkStart_er, genName_er, groupIds_er]
  splits

@[simp] theorem doStart_er (p : Pool) (num) : (er t p).doStart num = erR t (p.doStart num) := by
  unfold doStart; simp only [er_simple, checkStart_er]
  split
  · rfl
  · split
    · rfl
    · simp

@[simp] theorem lookupRunning_er (p : Pool) (id : Int) : (er t p).lookupRunning id = p.lookupRunning id := rfl

@[simp] theorem firstErr_er (p : Pool) (ids : List Int) : (er t p).firstErr ids = p.firstErr ids := by
  induction ids with
  | nil => rfl
  | cons id rest ih => simp only [firstErr, lookupRunning_er, ih]

@[simp] theorem doCancel_er (p : Pool) (ids) : (er t p).doCancel ids = erR t (p.doCancel ids) := by
  unfold doCancel; simp only [firstErr_er]
  split
  · rfl
  · rw [foldl_er (fun p (id : Int) => p.cancelTask id.toNat) (fun q id => cancelTask_er q _)]; rfl

@[simp] theorem doStop_er (p : Pool) (n) : (er t p).doStop n = erR t (p.doStop n) := by
  unfold doStop; simp only [er_simple, er_running, doCancel_er, erR_fst]
  split <;> rfl

@[simp] theorem popOrder_er_fst (p : Pool) : (er t p).popOrder.1 = er t p.popOrder.1 := by
  unfold popOrder; simp only [er_orders]; split <;> rfl
@[simp] theorem popOrder_er_snd (p : Pool) : (er t p).popOrder.2 = p.popOrder.2 := by
  unfold popOrder; simp only [er_orders]; split <;> rfl

@[simp] theorem cancelGroupMetas_er (p : Pool) (g : String) : (er t p).cancelGroupMetas g = er t (p.cancelGroupMetas g) := by
  unfold cancelGroupMetas
  simp only [er_reqs]
  rw [foldl_er _ (fun q m => metaCancel_er q m)]
  simp

@[simp] theorem cancelGroupBody_er (p : Pool) (g ids order) :
    (er t p).cancelGroupBody g ids order = (p.cancelGroupBody g ids order).map (er t) := by
  unfold cancelGroupBody
  simp only [cancelGroupMetas_er, er_running, wakesOnCancel_er]
  split
  · rfl
  · rw [foldl_er _ (fun q j => cancelTask_er q j)]; rfl

theorem match_map_er (o : Option Pool) (p : Pool) (r1 r2 : Res) :
    (match o.map (er t) with | none => (er t p, r1) | some p2 => (p2, r2)) =
      erR t (match o with | none => (p, r1) | some p2 => (p2, r2)) := by
  cases o <;> rfl

@[simp] theorem doCancelGroup_er (p : Pool) (g : String) : (er t p).doCancelGroup g = erR t (p.doCancelGroup g) := by
  unfold doCancelGroup; simp only [groupIds_er]
  split
  · rfl
  · simp only [popOrder_er_fst, popOrder_er_snd, er_groups, er_mk, cancelGroupBody_er]
    exact match_map_er _ _ _ _

@[simp] theorem cancelAllLoop_er (gs : List (String × List Nat)) (order : List Nat) (p : Pool) :
    cancelAllLoop gs order (er t p) = (cancelAllLoop gs order p).map (er t) := by
  induction gs generalizing p with
  | nil => rfl
  | cons x xs ih =>
    obtain ⟨g, ids⟩ := x
    simp only [cancelAllLoop, cancelGroupBody_er]
    cases p.cancelGroupBody g ids order with
    | none => rfl
    | some q => simp only [Option.map_some]; exact ih q

@[simp] theorem doCancelAll_er (p : Pool) : (er t p).doCancelAll = erR t p.doCancelAll := by
  unfold doCancelAll
  simp only [popOrder_er_fst, popOrder_er_snd, er_groups, er_mk, cancelAllLoop_er]
  exact match_map_er _ _ _ _

@[simp] theorem doSetSize_er (p : Pool) (v : Int) : (er t p).doSetSize v = erR t (p.doSetSize v) := by
  unfold doSetSize; split <;> rfl

@[simp] theorem doHook_er (p : Pool) (ctx : Nat) (h : HookOp) : (er t p).doHook ctx h = erR t (p.doHook ctx h) := by
  cases h <;> simp only [doHook, doCancel_er, doCancelGroup_er, doCancelAll_er, doStop_er, er_reqs, er_simple, doApply_er]
  · split <;> rfl
  · rfl
  · rfl
  · split <;> rfl

@[simp] theorem runHooks_er (p : Pool) (ctx : Nat) (hs : List HookOp) : (er t p).runHooks ctx hs = er t (p.runHooks ctx hs) := by
  unfold runHooks
  exact foldl_er _ (fun q h => by simp only [doHook_er, erR_fst, erR_snd]; exact logEv_er _ _ rfl) _ _

/-! ### spawners -/

@[simp] theorem finishMeta_er (p : Pool) (m : Nat) (o : Outcome) : (er t p).finishMeta m o = er t (p.finishMeta m o) := by
  unfold finishMeta; simp only [er_reqs]; split <;> simp

theorem erTask_newTask (m : Nat) (isMap : Bool) (arg : ArgD) (ecb ccb : CbSpec) :
    erTask (newTask m isMap arg ecb ccb) = newTask m isMap arg ecb ccb := by
  simp [erTask, newTask, erFut]

/-- appending a task record the erasure leaves alone -/
theorem er_mk_append (p : Pool) (nt : PTask) (h : erTask nt = nt) (simple startCalls sem locked closed reqs groups running cancelledR
    ended metaCancelled apis gathers closedWaiters emit names orders ambiguous lost resized) :
    (Pool.mk simple startCalls sem locked closed ((er t p).tasks ++ [nt]) reqs groups running cancelledR ended metaCancelled apis
      gathers closedWaiters emit (er t p).log names orders ambiguous lost resized) =
    er t (Pool.mk simple startCalls sem locked closed (p.tasks ++ [nt]) reqs groups running cancelledR ended metaCancelled apis
      gathers closedWaiters emit p.log names orders ambiguous lost resized) := by
  simp only [er, modify_append_one _ _ _ _ h]

@[simp] theorem createTask_er (p : Pool) (m : Nat) (isMap : Bool) : (er t p).createTask m isMap = er t (p.createTask m isMap) := by
  unfold createTask
  simp only [er_tasks_length, er_reqs, er_groups, er_running]
  rw [er_mk_append _ _ (erTask_newTask _ _ _ _ _)]
  rfl

@[simp] theorem takeSlotAndCreate_er (p : Pool) (m : Nat) (isMap : Bool) :
    (er t p).takeSlotAndCreate m isMap = er t (p.takeSlotAndCreate m isMap) := by
  unfold takeSlotAndCreate; simp

@[simp] theorem waitRoom_er (p : Pool) (m : Nat) : (er t p).waitRoom m = er t (p.waitRoom m) := by
  unfold waitRoom; simp; splits

@[simp] theorem waitMapSem_er (p : Pool) (m : Nat) : (er t p).waitMapSem m = er t (p.waitMapSem m) := by
  unfold waitMapSem; simp; splits

@[simp] theorem groupHasRunningMeta_er (p : Pool) (m : Nat) : (er t p).groupHasRunningMeta m = p.groupHasRunningMeta m := rfl

@[simp] theorem applyLoop_er (m n : Nat) (p : Pool) : applyLoop m n (er t p) = er t (applyLoop m n p) := by
  induction n generalizing p with
  | zero => simp [applyLoop]
  | succ n ih => simp [applyLoop, ih]; splits

/-- a spawner step with a flag, the pool erased -/
def erB (t : Nat) (r : Pool × Bool) : Pool × Bool := (er t r.1, r.2)
@[simp] theorem erB_fst (r : Pool × Bool) : (erB t r).1 = er t r.1 := rfl
@[simp] theorem erB_snd (r : Pool × Bool) : (erB t r).2 = r.2 := rfl
@[simp] theorem erB_mk (p : Pool) (b : Bool) : (er t p, b) = erB t (p, b) := rfl

@[simp] theorem mapStartTask_er (p : Pool) (m : Nat) : (er t p).mapStartTask m = erB t (p.mapStartTask m) := by
  unfold mapStartTask; simp; splits

@[simp] theorem pullItem_er (p : Pool) (m : Nat) (rest : List Item) : (er t p).pullItem m rest = er t (p.pullItem m rest) := by
  unfold pullItem; simp only [er_reqs, modReq_er]
  rw [logEv_er _ _ rfl]; simp

@[simp] theorem takeMapSlot_er (p : Pool) (m : Nat) : (er t p).takeMapSlot m = er t (p.takeMapSlot m) := rfl

@[simp] theorem mapLoop_er (m : Nat) (items : List Item) (p : Pool) : mapLoop m items (er t p) = er t (mapLoop m items p) := by
  induction items generalizing p with
  | nil => simp [mapLoop]
  | cons it rest ih => simp [mapLoop, ih]; splits

@[simp] theorem continueSpawner_er (p : Pool) (m : Nat) : (er t p).continueSpawner m = er t (p.continueSpawner m) := by
  unfold continueSpawner; simp; splits

@[simp] theorem stepMetaNotStarted_er (p : Pool) (m : Nat) (r : Req) :
    (er t p).stepMetaNotStarted m r = er t (p.stepMetaNotStarted m r) := by
  unfold stepMetaNotStarted; simp; splits

@[simp] theorem roomWaitCancelled_er (p : Pool) (m : Nat) (r : Req) (st : Option WaitSt) :
    (er t p).roomWaitCancelled m r st = er t (p.roomWaitCancelled m r st) := by
  unfold roomWaitCancelled; splits <;> simp

@[simp] theorem roomGranted_er (p : Pool) (m : Nat) (r : Req) : (er t p).roomGranted m r = er t (p.roomGranted m r) := by
  unfold roomGranted; simp; splits <;> simp

@[simp] theorem wakeWaitRoomCore_er (p : Pool) (m : Nat) (r : Req) : (er t p).wakeWaitRoomCore m r = er t (p.wakeWaitRoomCore m r) := by
  unfold wakeWaitRoomCore; simp; splits

@[simp] theorem wakeWaitRoom_er (p : Pool) (m : Nat) (r : Req) : (er t p).wakeWaitRoom m r = er t (p.wakeWaitRoom m r) := by
  unfold wakeWaitRoom; simp; splits

@[simp] theorem mapSemGranted_er (p : Pool) (m : Nat) (r : Req) : (er t p).mapSemGranted m r = er t (p.mapSemGranted m r) := by
  unfold mapSemGranted; simp; splits

@[simp] theorem wakeWaitMapSemCore_er (p : Pool) (m : Nat) (r : Req) :
    (er t p).wakeWaitMapSemCore m r = er t (p.wakeWaitMapSemCore m r) := by
  unfold wakeWaitMapSemCore; simp; splits

@[simp] theorem wakeWaitMapSem_er (p : Pool) (m : Nat) (r : Req) : (er t p).wakeWaitMapSem m r = er t (p.wakeWaitMapSem m r) := by
  unfold wakeWaitMapSem; simp; splits

@[simp] theorem stepMeta_er (p : Pool) (m : Nat) : (er t p).stepMeta m = er t (p.stepMeta m) := by
  unfold stepMeta; simp; splits

/-! ### gather: a collecting gather does not look at *how* a child ended -/

/-- every gather of the pool collects exceptions (`return_exceptions=True`) -/
def Coll (p : Pool) : Prop := ∀ (g : Nat) (G : Gather), p.gathers[g]? = some G → G.retExc = true

theorem Coll.er {p : Pool} (h : Coll p) : Coll (er t p) := h
theorem Coll.of_gathers {p q : Pool} (h : Coll p) (e : q.gathers = p.gathers) : Coll q := by
  intro g G hG; rw [e] at hG; exact h g G hG

theorem Coll.modGather {p : Pool} (h : Coll p) (g : Nat) (f : Gather → Gather) (hf : ∀ G, (f G).retExc = G.retExc) :
    Coll (p.modGather g f) := by
  intro j G hG
  simp only [Pool.modGather, List.getElem?_modify] at hG
  cases hj : p.gathers[j]? with
  | none => rw [hj] at hG; cases hG
  | some G0 =>
    rw [hj] at hG
    simp only [Option.map_eq_map, Option.map_some, Option.some.injEq] at hG
    subst hG
    split
    · rw [hf]; exact h j G0 hj
    · exact h j G0 hj

theorem Coll.append {p q : Pool} (hc : Coll p) (G : Gather) (hG : G.retExc = true) (hq : q.gathers = p.gathers ++ [G]) : Coll q := by
  intro j G' hG'
  rw [hq] at hG'
  simp only [List.getElem?_append] at hG'
  split at hG'
  · exact hc j G' hG'
  · cases hj : j - p.gathers.length with
    | zero => rw [hj] at hG'; simp at hG'; subst hG'; exact hG
    | succ k => rw [hj] at hG'; simp at hG'

/-- with `return_exceptions=True` the verdict depends on the count alone -/
theorem gatherVerdict_coll (G : Gather) (co co' : Option Outcome) (h : G.retExc = true) :
    gatherVerdict G co = gatherVerdict G co' := by
  simp [gatherVerdict, h]

@[simp] theorem childOutcome_er_isSome (p : Pool) (c : Child) : ((er t p).childOutcome c).isSome = (p.childOutcome c).isSome := by
  cases c with
  | task j =>
    simp only [childOutcome, er_tasks_get]
    cases p.tasks[j]? with
    | none => rfl
    | some k => simp
  | spawner m => rfl

@[simp] theorem childFinished_er (p : Pool) : (er t p).childFinished = p.childFinished := by
  funext c
  cases c with
  | task j =>
    simp only [childFinished, er_tasks_get]
    cases p.tasks[j]? with
    | none => rfl
    | some k => simp
  | spawner m => rfl

theorem gatherChildDone_er (p : Pool) (g i : Nat) (v : Bool) (hc : Coll p) :
    (er t p).gatherChildDone g i v = er t (p.gatherChildDone g i v) := by
  unfold gatherChildDone; simp only [er_gathers]
  cases hG : p.gathers[g]? with
  | none => rfl
  | some G =>
    simp only
    cases G.children[i]? with
    | none => rfl
    | some c =>
      simp only [gatherVerdict_coll G ((er t p).childOutcome c) (p.childOutcome c) (hc g G hG), childFinished_er, modGather_er]
      splits <;> simp

theorem gatherChildDone_coll {p : Pool} (hc : Coll p) (g i : Nat) (v : Bool) : Coll (p.gatherChildDone g i v) := by
  unfold gatherChildDone
  have h1 : Coll (p.modGather g fun x => { x with nfinished := x.nfinished + 1 }) := hc.modGather _ _ (fun _ => rfl)
  have h2 : ∀ o, Coll ((p.modGather g fun x => { x with nfinished := x.nfinished + 1 }).modGather g fun x => { x with outer := some o }) :=
    fun o => h1.modGather _ _ (fun _ => rfl)
  splits <;> first | exact hc | exact h1 | exact h2 _ | exact (h2 _).of_gathers rfl

@[simp] theorem registerChild_er (p : Pool) (c : Child) (g i : Nat) : (er t p).registerChild c g i = er t (p.registerChild c g i) := by
  cases c with
  | task j => simp only [registerChild]; rw [modTask_er _ _ _ (by ertac)]
  | spawner m => rfl

theorem registerChild_coll {p : Pool} (hc : Coll p) (c : Child) (g i : Nat) : Coll (p.registerChild c g i) := by
  cases c <;> exact hc.of_gathers rfl

theorem gatherScan_er (g : Nat) (cs : List Child) (i : Nat) (p : Pool) (hc : Coll p) :
    gatherScan g cs i (er t p) = er t (gatherScan g cs i p) ∧ Coll (gatherScan g cs i p) := by
  induction cs generalizing i p with
  | nil => exact ⟨rfl, hc⟩
  | cons c cs ih =>
    simp only [gatherScan, childOutcome_er_isSome]
    split
    · rw [gatherChildDone_er _ _ _ _ hc]; exact ih _ _ (gatherChildDone_coll hc _ _ _)
    · rw [registerChild_er]; exact ih _ _ (registerChild_coll hc _ _ _)

/-- a new collecting gather -/
theorem gatherStart_er (p : Pool) (cs : List Child) (owner n : Nat) (hc : Coll p) :
    ((er t p).gatherStart cs true owner n).1 = er t (p.gatherStart cs true owner n).1 ∧
    ((er t p).gatherStart cs true owner n).2 = (p.gatherStart cs true owner n).2 ∧
    Coll (p.gatherStart cs true owner n).1 := by
  unfold gatherStart
  simp only [Bool.not_true, Bool.false_and, Bool.or_false]
  let G0 : Gather := ⟨cs, 0, if cs.isEmpty then some Outcome.ok else none, owner, true⟩
  let q : Pool := { p with gathers := p.gathers ++ [G0], ambiguous := p.ambiguous }
  have h0 : Coll q := hc.append G0 rfl rfl
  exact ⟨(gatherScan_er _ _ _ q h0).1, rfl, (gatherScan_er (t := t) _ _ _ q h0).2⟩

@[simp] theorem gatherOuter_er (p : Pool) (g : Nat) : (er t p).gatherOuter g = p.gatherOuter g := rfl

/-! ### flush / gather_and_close / until_closed: the collecting calls -/

theorem gatherStart_er' (p p0 : Pool) (cs : List Child) (owner n : Nat) (hc : Coll p0) (e : p.gathers = p0.gathers) :
    ((er t p).gatherStart cs true owner n).1 = er t (p.gatherStart cs true owner n).1 ∧
    ((er t p).gatherStart cs true owner n).2 = (p.gatherStart cs true owner n).2 ∧
    Coll (p.gatherStart cs true owner n).1 := gatherStart_er p cs owner n (hc.of_gathers e)

@[simp] theorem finishApi_er (p : Pool) (a : Nat) (o : Outcome) : (er t p).finishApi a o = er t (p.finishApi a o) := rfl

theorem flushAfter2_er (p : Pool) (a : Nat) (o : Outcome) : (er t p).flushAfter2 a o = er t (p.flushAfter2 a o) := by
  unfold flushAfter2; split <;> simp

theorem flushAfter2_gathers (p : Pool) (a : Nat) (o : Outcome) : (p.flushAfter2 a o).gathers = p.gathers := by
  unfold flushAfter2; split <;> rfl

theorem flushAfter1_er (p : Pool) (a : Nat) (o : Outcome) (hc : Coll p) :
    (er t p).flushAfter1 a true o = er t (p.flushAfter1 a true o) ∧ Coll (p.flushAfter1 a true o) := by
  unfold flushAfter1
  split
  · exact ⟨rfl, hc⟩
  · simp
    rw [(gatherStart_er' _ p _ a 0 hc (by rfl)).1, (gatherStart_er' _ p _ a 0 hc (by rfl)).2.1]
    simp only [gatherOuter_er]
    constructor
    · split
      · exact flushAfter2_er _ _ _
      · rfl
    · split
      · exact Coll.of_gathers (gatherStart_er' (t := t) _ p _ a 0 hc (by rfl)).2.2 (flushAfter2_gathers _ _ _)
      · exact Coll.of_gathers (gatherStart_er' (t := t) _ p _ a 0 hc (by rfl)).2.2 rfl

theorem flushStage1_er (p : Pool) (a : Nat) (hc : Coll p) :
    (er t p).flushStage1 a true = er t (p.flushStage1 a true) ∧ Coll (p.flushStage1 a true) := by
  unfold flushStage1
  simp
  rw [(gatherStart_er' _ p _ a _ hc (by rfl)).1, (gatherStart_er' _ p _ a _ hc (by rfl)).2.1]
  simp only [gatherOuter_er]
  have hq : ∀ (X : Pool) cs n, X.gathers = p.gathers → Coll (X.gatherStart cs true a n).1 :=
    fun X cs n e => (gatherStart_er' (t := t) X p cs a n hc e).2.2
  have hq2 : ∀ (X : Pool) cs n (f : Api → Api), X.gathers = p.gathers → Coll ((X.gatherStart cs true a n).1.modApi a f) :=
    fun X cs n f e => (hq X cs n e).of_gathers rfl
  split
  · exact flushAfter1_er _ _ _ (hq _ _ _ rfl)
  · exact ⟨rfl, hq2 _ _ _ _ rfl⟩

theorem foldl_schedApi_gathers (ws : List Nat) (p : Pool) : (ws.foldl (fun p w => p.schedApi w) p).gathers = p.gathers := by
  induction ws generalizing p with
  | nil => rfl
  | cons w ws ih => simp only [List.foldl_cons]; rw [ih]; rfl

theorem gacAfter2_er (p : Pool) (a : Nat) (o : Outcome) : (er t p).gacAfter2 a o = er t (p.gacAfter2 a o) := by
  unfold gacAfter2; split
  · simp [foldl_er (fun p w => p.schedApi w) (fun _ _ => rfl)]
  · rfl

theorem gacAfter2_gathers (p : Pool) (a : Nat) (o : Outcome) : (p.gacAfter2 a o).gathers = p.gathers := by
  unfold gacAfter2; split
  · simp only [finishApi, modApi]; rw [foldl_schedApi_gathers]
  · rfl


theorem gacAfter1_er (p : Pool) (a g : Nat) (hc : Coll p) :
    (er t p).gacAfter1 a true g = er t (p.gacAfter1 a true g) ∧ Coll (p.gacAfter1 a true g) := by
  unfold gacAfter1
  simp
  rw [(gatherStart_er' _ p _ a _ hc (by rfl)).1, (gatherStart_er' _ p _ a _ hc (by rfl)).2.1]
  simp only [gatherOuter_er]
  have hq : ∀ (X : Pool) cs n, X.gathers = p.gathers → Coll (X.gatherStart cs true a n).1 :=
    fun X cs n e => (gatherStart_er' (t := t) X p cs a n hc e).2.2
  have hq2 : ∀ (X : Pool) cs n (f : Api → Api), X.gathers = p.gathers → Coll ((X.gatherStart cs true a n).1.modApi a f) :=
    fun X cs n f e => (hq X cs n e).of_gathers rfl
  have hq3 : ∀ (X : Pool) cs n o, X.gathers = p.gathers → Coll ((X.gatherStart cs true a n).1.gacAfter2 a o) :=
    fun X cs n o e => (hq X cs n e).of_gathers (gacAfter2_gathers _ _ _)
  split
  · exact ⟨gacAfter2_er _ _ _, hq3 _ _ _ _ rfl⟩
  · exact ⟨rfl, hq2 _ _ _ _ rfl⟩

theorem gacStage1_er (p : Pool) (a : Nat) (hc : Coll p) :
    (er t p).gacStage1 a true = er t (p.gacStage1 a true) ∧ Coll (p.gacStage1 a true) := by
  unfold gacStage1
  simp
  rw [(gatherStart_er' _ p _ a _ hc (by rfl)).1, (gatherStart_er' _ p _ a _ hc (by rfl)).2.1]
  simp only [gatherOuter_er]
  have hq : ∀ (X : Pool) cs n, X.gathers = p.gathers → Coll (X.gatherStart cs true a n).1 :=
    fun X cs n e => (gatherStart_er' (t := t) X p cs a n hc e).2.2
  have hq2 : ∀ (X : Pool) cs n (f : Api → Api), X.gathers = p.gathers → Coll ((X.gatherStart cs true a n).1.modApi a f) :=
    fun X cs n f e => (hq X cs n e).of_gathers rfl
  split
  · exact gacAfter1_er _ _ _ (hq _ _ _ rfl)
  · exact ⟨rfl, hq2 _ _ _ _ rfl⟩

theorem untilClosedStart_er (p : Pool) (a : Nat) : (er t p).untilClosedStart a = er t (p.untilClosedStart a) := by
  unfold untilClosedStart; simp; splits

theorem untilClosedStart_gathers (p : Pool) (a : Nat) : (p.untilClosedStart a).gathers = p.gathers := by
  unfold untilClosedStart; splits

/-- the kind of a background call collects exceptions -/
def _root_.Taskpool.ApiKind.coll : ApiKind → Bool
  | .flush re => re
  | .gac re => re
  | .untilClosed => true

theorem stepApi_er (p : Pool) (a : Nat) (hc : Coll p) (ha : ∀ A, p.apis[a]? = some A → A.kind.coll = true) :
    (er t p).stepApi a = er t (p.stepApi a) ∧ Coll (p.stepApi a) := by
  unfold stepApi
  simp only [er_apis]
  cases hA : p.apis[a]? with
  | none => exact ⟨rfl, hc⟩
  | some A =>
    have hk := ha A hA
    obtain ⟨kind, frame, sched, oc, sE, sC⟩ := A
    simp only at hk ⊢
    split
    · exact ⟨rfl, hc⟩
    · simp only [modApi_er, gatherOuter_er]
      have h1 : Coll (p.modApi a fun x => { x with sched := false }) := hc.of_gathers rfl
      cases frame <;> cases kind <;> simp only [ApiKind.coll] at hk <;> (try subst hk) <;> simp only [] <;>
        first
        | exact ⟨rfl, h1⟩
        | exact ⟨trivial, h1⟩
        | exact flushStage1_er _ _ h1
        | exact gacStage1_er _ _ h1
        | exact ⟨untilClosedStart_er _ _, h1.of_gathers (untilClosedStart_gathers _ _)⟩
        | (split <;> first
            | exact ⟨rfl, h1⟩
            | exact ⟨trivial, h1⟩
            | exact flushAfter1_er _ _ _ h1
            | exact gacAfter1_er _ _ _ h1
            | exact ⟨flushAfter2_er _ _ _, h1.of_gathers (flushAfter2_gathers _ _ _)⟩
            | exact ⟨gacAfter2_er _ _ _, h1.of_gathers (gacAfter2_gathers _ _ _)⟩)

end Pool
end Taskpool
