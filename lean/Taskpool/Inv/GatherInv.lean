import Taskpool.Inv.Gather
/-! The counting invariant of `asyncio.gather` as the pool machine uses it (`flush`, `gather_and_close`):
every callback slot of every gather is *outstanding exactly once* — registered on its child, queued, or in the loop's
ready queue — or has been run, and `nfinished` counts the slots that have been run: nothing is ever dropped.  Consequently a gather whose count
is complete has no outstanding slot, every child task has finished, and the outer future has been completed: the
defensive test in `gatherChildDone` ("complete normally only if every child task has finished") never fails on a
reachable state.  The same for child spawners (`regS`) of a gather that collects exceptions (`cmp`: such a gather is
completed with the last count only): once its outer future is completed every child spawner has finished
(`Inv/GatherSpawners.lean`).

`R` is the number of handles per slot in the loop's ready queue (a property of the world, not of the pool). -/
namespace Taskpool

/-! ### sums over `range` -/

def rsum (n : Nat) (f : Nat → Nat) : Nat := ((List.range n).map f).sum

theorem rsum_succ (n : Nat) (f : Nat → Nat) : rsum (n + 1) f = rsum n f + f n := by
  simp [rsum, List.range_succ]

theorem rsum_le (n : Nat) (f g : Nat → Nat) (h : ∀ i, i < n → f i ≤ g i) : rsum n f ≤ rsum n g := by
  induction n with
  | zero => simp [rsum]
  | succ n ih =>
    rw [rsum_succ, rsum_succ]
    have := ih (fun i hi => h i (by omega))
    have := h n (by omega)
    omega

theorem rsum_congr (n : Nat) (f g : Nat → Nat) (h : ∀ i, i < n → f i = g i) : rsum n f = rsum n g :=
  Nat.le_antisymm (rsum_le n f g (fun i hi => by rw [h i hi]; exact Nat.le_refl _))
    (rsum_le n g f (fun i hi => by rw [h i hi]; exact Nat.le_refl _))

theorem rsum_ge_one (n : Nat) (f : Nat → Nat) (i : Nat) (hi : i < n) : f i ≤ rsum n f := by
  induction n with
  | zero => omega
  | succ n ih =>
    rw [rsum_succ]
    by_cases e : i = n
    · subst e; omega
    · have := ih (by omega); omega

theorem rsum_ge_two (n : Nat) (f : Nat → Nat) (i j : Nat) (hi : i < n) (hj : j < n) (hne : i ≠ j) :
    f i + f j ≤ rsum n f := by
  induction n with
  | zero => omega
  | succ n ih =>
    rw [rsum_succ]
    by_cases ei : i = n
    · subst ei
      have := rsum_ge_one i f j (by omega); omega
    · by_cases ej : j = n
      · subst ej
        have := rsum_ge_one j f i (by omega); omega
      · have := ih (by omega) (by omega); omega

/-- lowering one summand by one lowers the sum by one -/
theorem rsum_dec (n : Nat) (f g : Nat → Nat) (i : Nat) (hi : i < n) (hgi : g i + 1 = f i) (hg : ∀ j, j ≠ i → g j = f j) :
    rsum n g + 1 = rsum n f := by
  induction n with
  | zero => omega
  | succ n ih =>
    rw [rsum_succ, rsum_succ]
    by_cases e : i = n
    · subst e
      have := rsum_congr i g f (fun j hj => hg j (by omega))
      omega
    · have := ih (by omega)
      have := hg n (fun h => e h.symm)
      omega

/-- raising one summand by at most one raises the sum by at most one -/
theorem rsum_inc (n : Nat) (f g : Nat → Nat) (i : Nat) (hgi : g i ≤ f i + 1) (hg : ∀ j, j ≠ i → g j = f j) :
    rsum n g ≤ rsum n f + 1 := by
  induction n with
  | zero => simp [rsum]
  | succ n ih =>
    rw [rsum_succ, rsum_succ]
    by_cases e : i = n
    · subst e
      have := rsum_congr i g f (fun j hj => hg j (by omega))
      omega
    · have := hg n (fun h => e h.symm)
      omega

namespace Pool

/-- weight of a callback slot: handles in the ready queue + the pool's own potential -/
def W (R : Nat × Nat → Nat) (p : Pool) (gi : Nat × Nat) : Nat := R gi + p.pot gi

structure PInv (R : Nat × Nat → Nat) (p : Pool) : Prop where
  /-- outstanding slots belong to existing gathers -/
  dom : ∀ (g i : Nat), 0 < W R p (g, i) → ∃ G : Gather, p.gathers[g]? = some G ∧ i < G.children.length
  /-- slots run so far + slots outstanding are all the slots: every slot is either counted, or queued as a handle, or
  registered on a child that has not completed -/
  cnt : ∀ (g : Nat) (G : Gather), p.gathers[g]? = some G →
          G.nfinished + rsum G.children.length (fun i => W R p (g, i)) = G.children.length
  /-- a child task whose wrapper has not returned carries its slot's registration -/
  reg : ∀ (g : Nat) (G : Gather) (i t : Nat), p.gathers[g]? = some G → G.children[i]? = some (.task t) →
          ∃ k : PTask, p.tasks[t]? = some k ∧ (k.phase ≠ .finished → (g, i) ∈ k.doneCbs)
  /-- a complete count has completed the outer future -/
  fin : ∀ (g : Nat) (G : Gather), p.gathers[g]? = some G → G.children.length ≤ G.nfinished → G.outer.isSome = true
  /-- a registration of slot `(g, i)` on a task sits on the `i`-th child of gather `g` -/
  ownT : ∀ (t g i : Nat), (g, i) ∈ p.dcb t → ∃ G : Gather, p.gathers[g]? = some G ∧ G.children[i]? = some (.task t)
  /-- a registration of slot `(g, i)` on a spawner sits on the `i`-th child of gather `g` -/
  ownS : ∀ (m g i : Nat), (g, i) ∈ p.rcb m → ∃ G : Gather, p.gathers[g]? = some G ∧ G.children[i]? = some (.spawner m)
  /-- a child spawner is an existing request; as long as it has not completed it carries its slot's registration -/
  regS : ∀ (g : Nat) (G : Gather) (i m : Nat), p.gathers[g]? = some G → G.children[i]? = some (.spawner m) →
          ∃ r : Req, p.reqs[m]? = some r ∧ (r.outcome = none → (g, i) ∈ r.doneCbs)
  /-- an exception-collecting gather whose outer future has been completed has a complete count -/
  cmp : ∀ (g : Nat) (G : Gather), p.gathers[g]? = some G → G.retExc = true → G.outer.isSome = true →
          G.children.length ≤ G.nfinished

/-- an asyncio Task that has completed belongs to a pool task whose wrapper has returned (`OKs.out`) -/
def OutFin (p : Pool) : Prop := ∀ (t : Nat) (k : PTask), p.tasks[t]? = some k → k.outcome.isSome = true → k.phase = .finished

theorem Good.outFin {cap : Cap} {L R : Bool} {p : Pool} (h : Good cap L R p) : OutFin p :=
  fun t k hk ho => (h.life t k hk).out ho

theorem gv_fields {p q : Pool} (h : gv q = gv p) : q.gathers = p.gathers ∧ q.pot = p.pot ∧ q.dcb = p.dcb ∧ q.rcb = p.rcb := by
  simp only [gv, GV.mk.injEq] at h; exact h

theorem W_of_gv {p q : Pool} (h : gv q = gv p) (R) : W R q = W R p := by
  funext gi; simp only [W, (gv_fields h).2.1]

theorem dcb_eq (p : Pool) (t : Nat) (k : PTask) (h : p.tasks[t]? = some k) : p.dcb t = k.doneCbs := by
  simp [dcb, h]

theorem rcb_eq (p : Pool) (m : Nat) (r : Req) (h : p.reqs[m]? = some r) : p.rcb m = r.doneCbs := by
  simp [rcb, h]

/-- **every step outside the gather family** keeps the invariant -/
theorem PInv.frame {R} {p q : Pool} (h : PInv R p) (hgv : gv q = gv p) (hm : Mono p q) : PInv R q := by
  obtain ⟨hg, _, hd, hrc⟩ := gv_fields hgv
  have hW := W_of_gv hgv R
  refine ⟨?_, ?_, ?_, ?_, ?_, ?_, ?_, ?_⟩
  rotate_left 4
  · intro t g i; rw [hd, hg]; exact h.ownT t g i
  · intro m g i; rw [hrc, hg]; exact h.ownS m g i
  · intro g G i m hG hc
    rw [hg] at hG
    obtain ⟨r, hr, hreg⟩ := h.regS g G i m hG hc
    obtain ⟨r', hr', _, _, _, hout⟩ := hm.rq m r hr
    refine ⟨r', hr', fun hnone => ?_⟩
    have e1 := rcb_eq q m r' hr'
    have e2 := rcb_eq p m r hr
    rw [← e1, congrFun hrc m, e2]
    apply hreg
    cases hro : r.outcome with
    | none => rfl
    | some o =>
      have := hout (by rw [hro]; rfl)
      rw [hnone] at this; cases this
  · intro g G; rw [hg]; exact h.cmp g G
  · intro g i; rw [hW, hg]; exact h.dom g i
  · intro g G; rw [hW, hg]; exact h.cnt g G
  · intro g G i t hG hc
    rw [hg] at hG
    obtain ⟨k, hk, hr⟩ := h.reg g G i t hG hc
    have hlt : t < q.tasks.length := Nat.lt_of_lt_of_le (List.getElem?_eq_some_iff.mp hk).1 hm.tl
    refine ⟨q.tasks[t], by simp [hlt], ?_⟩
    intro hnf
    have hk' : q.tasks[t]? = some q.tasks[t] := by simp [hlt]
    have e1 := dcb_eq q t _ hk'
    have e2 := dcb_eq p t k hk
    rw [← e1, congrFun hd t, e2]
    apply hr
    intro hf
    obtain ⟨k'', a, b⟩ := hm.fin t k hk hf
    rw [hk'] at a; cases a
    exact hnf b
  · intro g G; rw [hg]; exact h.fin g G

/-- the invariant reads the ready queue through the number of handles per slot only (with the count an equality, the
invariant is no longer monotone in `R`: a handle that left the ready queue without being run would be a lost slot) -/
theorem PInv.congr_R {R R'} {p : Pool} (h : PInv R p) (he : ∀ gi, R' gi = R gi) : PInv R' p := by
  have : R' = R := funext he
  rw [this]; exact h

/-- moving the handles queued during a step to the loop's ready queue -/
theorem PInv.drain {R} {p : Pool} (h : PInv R p) :
    PInv (fun gi => R gi + p.emit.countP (isCb gi)) ({ p with emit := [] } : Pool) := by
  have hW : W (fun gi => R gi + p.emit.countP (isCb gi)) ({ p with emit := [] } : Pool) = W R p := by
    funext gi; simp only [W, pot, List.countP_nil]; omega
  refine ⟨?_, ?_, h.reg, h.fin, h.ownT, h.ownS, h.regS, h.cmp⟩
  · intro g i; rw [hW]; exact h.dom g i
  · intro g G hG; rw [hW]; exact h.cnt g G hG

theorem mem_le_sum (l : List Nat) (x : Nat) (h : x ∈ l) : x ≤ l.sum := by
  induction l with
  | nil => cases h
  | cons a as ih =>
    simp only [List.sum_cons]
    rcases List.mem_cons.mp h with rfl | h'
    · omega
    · have := ih h'; omega

theorem pot_ge_reg (p : Pool) (t : Nat) (k : PTask) (hk : p.tasks[t]? = some k) (ho : k.outcome = none)
    (gi : Nat × Nat) (hm : gi ∈ k.doneCbs) : 1 ≤ p.pot gi := by
  have h1 : regOf gi k.outcome k.doneCbs ≤ (p.tasks.map fun k => regOf gi k.outcome k.doneCbs).sum := by
    apply mem_le_sum
    exact List.mem_map.mpr ⟨k, List.mem_of_getElem? hk, rfl⟩
  have h2 : 1 ≤ regOf gi k.outcome k.doneCbs := by
    simp only [regOf, ho, Option.isNone_none, if_true]
    exact List.count_pos_iff.mpr hm
  simp only [pot]; omega

theorem pot_ge_regS (p : Pool) (m : Nat) (r : Req) (hr : p.reqs[m]? = some r) (ho : r.outcome = none)
    (gi : Nat × Nat) (hm : gi ∈ r.doneCbs) : 1 ≤ p.pot gi := by
  have h1 : regOf gi r.outcome r.doneCbs ≤ (p.reqs.map fun r => regOf gi r.outcome r.doneCbs).sum := by
    apply mem_le_sum
    exact List.mem_map.mpr ⟨r, List.mem_of_getElem? hr, rfl⟩
  have h2 : 1 ≤ regOf gi r.outcome r.doneCbs := by
    simp only [regOf, ho, Option.isNone_none, if_true]
    exact List.count_pos_iff.mpr hm
  simp only [pot]; omega

/-- **the counting argument**: if all but one slot have been run and a handle of the remaining slot is in the ready
queue, every child task has finished -/
theorem PInv.all_finished {R} {p : Pool} (h : PInv R p) (ho : OutFin p) (g : Nat) (G : Gather) (hG : p.gathers[g]? = some G)
    (i : Nat) (hR : 0 < R (g, i)) (hn : G.children.length ≤ G.nfinished + 1) :
    ∀ (j t : Nat), G.children[j]? = some (.task t) → ∃ k : PTask, p.tasks[t]? = some k ∧ k.phase = .finished := by
  intro j t hj
  obtain ⟨k, hk, hr⟩ := h.reg g G j t hG hj
  refine ⟨k, hk, ?_⟩
  apply Classical.byContradiction
  intro hnf
  have hmem := hr hnf
  have hout : k.outcome = none := by
    cases hko : k.outcome with
    | none => rfl
    | some o => exact absurd (ho t k hk (by simp [hko])) hnf
  have hp := pot_ge_reg p t k hk hout (g, j) hmem
  have hcnt := h.cnt g G hG
  obtain ⟨G', hG', hi⟩ := h.dom g i (by simp only [W]; omega)
  rw [hG] at hG'; cases hG'
  have hjl : j < G.children.length := (List.getElem?_eq_some_iff.mp hj).1
  have hwi : W R p (g, i) = R (g, i) + p.pot (g, i) := rfl
  have hwj : W R p (g, j) = R (g, j) + p.pot (g, j) := rfl
  by_cases e : i = j
  · subst e
    have h1 : W R p (g, i) ≤ rsum G.children.length (fun i => W R p (g, i)) :=
      rsum_ge_one G.children.length (fun i => W R p (g, i)) i hi
    omega
  · have h2 : W R p (g, i) + W R p (g, j) ≤ rsum G.children.length (fun i => W R p (g, i)) :=
      rsum_ge_two G.children.length (fun i => W R p (g, i)) i j hi hjl e
    omega

/-! ### the `_done_callback` of a gather -/

theorem W_modGather (R) (p : Pool) (g : Nat) (f : Gather → Gather) : W R (p.modGather g f) = W R p := rfl

theorem modGather_children (p : Pool) (g : Nat) (f : Gather → Gather) (hc : ∀ G, (f G).children = G.children)
    (g0 i : Nat) (c : Child) (h : ∃ G : Gather, p.gathers[g0]? = some G ∧ G.children[i]? = some c) :
    ∃ G : Gather, (p.modGather g f).gathers[g0]? = some G ∧ G.children[i]? = some c := by
  obtain ⟨G, hG, hi⟩ := h
  by_cases e : g = g0
  · subst e
    exact ⟨f G, getElem?_modify_eq _ _ _ _ hG, by rw [hc]; exact hi⟩
  · exact ⟨G, by simp only [Pool.modGather, List.getElem?_modify, e, if_false, hG]; rfl, hi⟩

/-- an update of gather `g` that keeps its children -/
theorem PInv.modGather {R R'} {p : Pool} (h : PInv R p) (g : Nat) (f : Gather → Gather)
    (hc : ∀ G, (f G).children = G.children) (hle : ∀ gi, R' gi ≤ R gi)
    (heq : ∀ g0 i, g0 ≠ g → R' (g0, i) = R (g0, i))
    (hcnt : ∀ G, p.gathers[g]? = some G →
      (f G).nfinished + rsum G.children.length (fun i => W R' p (g, i)) = G.children.length)
    (hfin : ∀ G, p.gathers[g]? = some G → G.children.length ≤ (f G).nfinished → (f G).outer.isSome = true)
    (hcmp : ∀ G, p.gathers[g]? = some G → (f G).retExc = true → (f G).outer.isSome = true →
      G.children.length ≤ (f G).nfinished) :
    PInv R' (p.modGather g f) := by
  have hown := modGather_children p g f hc
  refine ⟨?_, ?_, ?_, ?_, fun t g0 i hm => hown g0 i _ (h.ownT t g0 i hm), fun m g0 i hm => hown g0 i _ (h.ownS m g0 i hm),
    ?_, ?_⟩
  rotate_right 2
  · intro g0 G' i m hG' hch
    obtain ⟨G, hG, rfl⟩ := getElem?_modify_some p.gathers g g0 f G' hG'
    have hch' : G.children[i]? = some (.spawner m) := by
      split at hch
      · rw [hc] at hch; exact hch
      · exact hch
    exact h.regS g0 G i m hG hch'
  · intro g0 G' hG' hre hout
    obtain ⟨G, hG, rfl⟩ := getElem?_modify_some p.gathers g g0 f G' hG'
    by_cases e : g = g0
    · subst e
      simp only [if_true] at hre hout ⊢
      rw [hc]; exact hcmp G hG hre hout
    · simp only [e, if_false] at hre hout ⊢
      exact h.cmp g0 G hG hre hout
  · intro g0 i hp
    rw [W_modGather] at hp
    have hp' : 0 < W R p (g0, i) := by
      have := hle (g0, i); simp only [W] at hp ⊢; omega
    obtain ⟨G, hG, hi⟩ := h.dom g0 i hp'
    by_cases e : g = g0
    · subst e
      exact ⟨f G, getElem?_modify_eq _ _ _ _ hG, by rw [hc]; exact hi⟩
    · exact ⟨G, by simp only [Pool.modGather, List.getElem?_modify, e, if_false, hG]; rfl, hi⟩
  · intro g0 G' hG'
    obtain ⟨G, hG, rfl⟩ := getElem?_modify_some p.gathers g g0 f G' hG'
    rw [W_modGather]
    split
    · rename_i e; subst e
      rw [hc]; exact hcnt G hG
    · rename_i e
      have := h.cnt g0 G hG
      have he : rsum G.children.length (fun i => W R' p (g0, i)) = rsum G.children.length (fun i => W R p (g0, i)) :=
        rsum_congr _ _ _ (fun i _ => by simp only [W, heq g0 i (fun x => e x.symm)])
      rw [he]; exact this
  · intro g0 G' i t hG' hch
    obtain ⟨G, hG, rfl⟩ := getElem?_modify_some p.gathers g g0 f G' hG'
    have hch' : G.children[i]? = some (.task t) := by
      split at hch
      · rw [hc] at hch; exact hch
      · exact hch
    exact h.reg g0 G i t hG hch'
  · intro g0 G' hG' hn
    obtain ⟨G, hG, rfl⟩ := getElem?_modify_some p.gathers g g0 f G' hG'
    by_cases e : g = g0
    · subst e
      simp only [if_true] at hn ⊢
      rw [hc] at hn; exact hfin G hG hn
    · simp only [e, if_false] at hn ⊢
      exact h.fin g0 G hG hn

theorem modify_modify_same {α} (l : List α) (g : Nat) (f1 f2 : α → α) :
    (l.modify g f1).modify g f2 = l.modify g (fun x => f2 (f1 x)) := by
  induction l generalizing g with
  | nil => simp
  | cons a as ih =>
    cases g with
    | zero => simp
    | succ n => simp [ih]

theorem verdict_ok_count (G : Gather) (co : Option Outcome) (h : gatherVerdict G co = some .ok) :
    G.nfinished + 1 = G.children.length := by
  unfold gatherVerdict at h
  split at h
  · cases h
  · split at h
    · cases h
    · split at h
      · rename_i e; simpa using e
      · cases h

theorem verdict_none_count (G : Gather) (co : Option Outcome) (h : gatherVerdict G co = none) :
    G.nfinished + 1 ≠ G.children.length := by
  unfold gatherVerdict at h
  split at h
  · cases h
  · split at h
    · cases h
    · split at h
      · cases h
      · rename_i e; simpa using e

/-- an exception-collecting gather completes with the last count only -/
theorem verdict_retExc_count (G : Gather) (co : Option Outcome) (o : Outcome) (hre : G.retExc = true)
    (h : gatherVerdict G co = some o) : G.nfinished + 1 = G.children.length := by
  unfold gatherVerdict at h
  split at h
  · rename_i e; simp [hre] at e
  · split at h
    · rename_i heq
      simp [hre] at heq
    · split at h
      · rename_i e; simpa using e
      · cases h

/-- one handle of slot `(g, i)` leaves the ready queue -/
def decAt (R : Nat × Nat → Nat) (g i : Nat) : Nat × Nat → Nat := fun gi => if gi = (g, i) then R gi - 1 else R gi

theorem decAt_le (R) (g i gi) : decAt R g i gi ≤ R gi := by
  unfold decAt; split <;> omega

theorem decAt_other (R) (g i g0 j : Nat) (h : g0 ≠ g) : decAt R g i (g0, j) = R (g0, j) := by
  have : (g0, j) ≠ (g, i) := fun e => h (by cases e; rfl)
  simp only [decAt, this, if_false]

theorem all_childFinished (p : Pool) (G : Gather)
    (h : ∀ (j t : Nat), G.children[j]? = some (.task t) → ∃ k : PTask, p.tasks[t]? = some k ∧ k.phase = .finished) :
    G.children.all p.childFinished = true := by
  rw [List.all_eq_true]
  intro c hc
  obtain ⟨j, hj, hjc⟩ := List.getElem_of_mem hc
  cases c with
  | spawner m => rfl
  | task t =>
    obtain ⟨k, hk, hf⟩ := h j t (by rw [List.getElem?_eq_getElem hj, hjc])
    simp [childFinished, hk, hf]

/-- **running a gather callback handle** keeps the invariant; in particular the defensive test does not fail -/
theorem PInv.gchild {R} {p : Pool} (h : PInv R p) (ho : OutFin p) (g i : Nat) (hR : 0 < R (g, i)) :
    PInv (decAt R g i) (p.gatherChildDone g i true) := by
  obtain ⟨G1, hG1, hi1⟩ := h.dom g i (by simp only [W]; omega)
  unfold gatherChildDone
  split
  · rename_i hG; rw [hG] at hG1; cases hG1
  · rename_i G hG
    have e : G = G1 := Option.some.inj (hG.symm.trans hG1)
    subst e
    split
    · rename_i hc
      rw [List.getElem?_eq_getElem hi1] at hc; cases hc
    · rename_i c hc
      have hi : i < G.children.length := (List.getElem?_eq_some_iff.mp hc).1
      have hcnt0 := h.cnt g G hG
      -- the sum over the slots of `g` drops by one
      have hdec : rsum G.children.length (fun j => W (decAt R g i) p (g, j)) + 1
          = rsum G.children.length (fun j => W R p (g, j)) := by
        apply rsum_dec _ _ _ i hi
        · simp only [W, decAt, if_true]; omega
        · intro j hj
          have : (g, j) ≠ (g, i) := fun e => hj (by cases e; rfl)
          simp only [W, decAt, this, if_false]
      have hge1 : 1 ≤ rsum G.children.length (fun j => W R p (g, j)) := by omega
      -- step 1: the count goes up
      have h1 : PInv (decAt R g i) (p.modGather g fun x => { x with nfinished := x.nfinished + 1 }) ∨
          (G.outer = none ∧ G.children.length ≤ G.nfinished + 1) := by
        by_cases hdone : G.outer.isSome = true ∨ G.nfinished + 1 < G.children.length
        · left
          refine h.modGather g _ (fun _ => rfl) (decAt_le R g i) (fun g0 j hne => decAt_other R g i g0 j hne) ?_ ?_ ?_
          · intro G0 hG0; rw [hG] at hG0; cases hG0
            show G.nfinished + 1 + _ = _; omega
          · intro G0 hG0 hn; rw [hG] at hG0; cases hG0
            rcases hdone with hs | hl
            · exact hs
            · have : G.children.length ≤ G.nfinished + 1 := hn
              omega
          · intro G0 hG0 hre hout; rw [hG] at hG0; cases hG0
            have := h.cmp g G hG hre hout
            show G.children.length ≤ G.nfinished + 1; omega
        · right
          constructor
          · cases ho' : G.outer with
            | none => rfl
            | some o => exact absurd (Or.inl (by simp [ho'])) hdone
          · have : ¬ G.nfinished + 1 < G.children.length := fun hl => hdone (Or.inr hl)
            omega
      simp only
      split
      · -- the outer future was completed before
        rename_i hs
        rcases h1 with h1 | ⟨hn, _⟩
        · exact h1
        · rw [hn] at hs; cases hs
      · split
        · -- no verdict yet
          rename_i hv
          rcases h1 with h1 | ⟨_, hl⟩
          · exact h1
          · have := verdict_none_count G _ hv; omega
        · rename_i o hv
          -- with the verdict: the gather completes
          have hfinal : PInv (decAt R g i)
              ((p.modGather g fun x => { x with nfinished := x.nfinished + 1 }).modGather g fun x => { x with outer := some o }) := by
            have hcomp : ((p.modGather g fun x => { x with nfinished := x.nfinished + 1 }).modGather g fun x => { x with outer := some o })
                = p.modGather g fun x => { x with nfinished := x.nfinished + 1, outer := some o } := by
              simp only [Pool.modGather, modify_modify_same]
            rw [hcomp]
            refine h.modGather g _ (fun _ => rfl) (decAt_le R g i) (fun g0 j hne => decAt_other R g i g0 j hne) ?_
              (fun _ _ _ => rfl) ?_
            · intro G0 hG0; rw [hG] at hG0; cases hG0
              show G.nfinished + 1 + _ = _; omega
            · intro G0 hG0 hre _; rw [hG] at hG0; cases hG0
              have := verdict_retExc_count G _ o hre hv
              show G.children.length ≤ G.nfinished + 1; omega
          split
          · -- the defensive test: cannot fail
            rename_i hdef
            exfalso
            have hok : o = .ok := by
              have : (o == Outcome.ok) = true := by
                cases hx : (o == Outcome.ok) with
                | true => rfl
                | false => simp [hx] at hdef
              exact eq_of_beq this
            subst hok
            have hcntv := verdict_ok_count G _ hv
            have hall := all_childFinished p G (h.all_finished ho g G hG i hR (by omega))
            simp [hall] at hdef
          · rw [if_pos trivial]
            exact hfinal.frame (gv_schedApi _ _) (tame_schedApi _ _).mono

/-! ### starting a gather: the scan over the children -/

theorem count_append_single (gi x : Nat × Nat) (l : List (Nat × Nat)) :
    (l ++ [x]).count gi = l.count gi + (if x = gi then 1 else 0) := by
  rw [List.count_append]
  by_cases e : x = gi
  · subst e; simp
  · have : (x == gi) = false := by simpa using e
    simp [List.count_cons, this, e]

theorem regOf_append (gi : Nat × Nat) (o : Option Outcome) (l : List (Nat × Nat)) (x : Nat × Nat) :
    regOf gi o l ≤ regOf gi o (l ++ [x]) ∧ regOf gi o (l ++ [x]) ≤ regOf gi o l + (if x = gi then 1 else 0) := by
  unfold regOf
  rw [count_append_single]
  split <;> (split <;> omega)

/-- registering slot `(g, j)` on a child raises the potential of that slot by at most one and of no other slot -/
theorem pot_registerChild (p : Pool) (c : Child) (g j : Nat) (gi : Nat × Nat) :
    p.pot gi ≤ (p.registerChild c g j).pot gi ∧
    (p.registerChild c g j).pot gi ≤ p.pot gi + (if (g, j) = gi then 1 else 0) := by
  cases c with
  | task t =>
    simp only [registerChild, pot, modTask]
    cases hk : p.tasks[t]? with
    | none =>
      have : p.tasks.modify t (fun k => { k with doneCbs := k.doneCbs ++ [(g, j)] }) = p.tasks := by
        apply List.ext_getElem?
        intro n
        rw [List.getElem?_modify]
        by_cases e : t = n
        · subst e; simp [hk]
        · simp [e]
      rw [this]; constructor <;> omega
    | some k =>
      have hs : ((p.tasks.modify t (fun k => { k with doneCbs := k.doneCbs ++ [(g, j)] })).map
            (fun k => regOf gi k.outcome k.doneCbs)).sum + regOf gi k.outcome k.doneCbs
          = (p.tasks.map (fun k => regOf gi k.outcome k.doneCbs)).sum + regOf gi k.outcome (k.doneCbs ++ [(g, j)]) :=
        sum_map_modify p.tasks t (fun k => { k with doneCbs := k.doneCbs ++ [(g, j)] })
          (fun k => regOf gi k.outcome k.doneCbs) k hk
      have e1 := regOf_append gi k.outcome k.doneCbs (g, j)
      constructor <;> omega
  | spawner m =>
    simp only [registerChild, pot, modReq]
    cases hk : p.reqs[m]? with
    | none =>
      have : p.reqs.modify m (fun k => { k with doneCbs := k.doneCbs ++ [(g, j)] }) = p.reqs := by
        apply List.ext_getElem?
        intro n
        rw [List.getElem?_modify]
        by_cases e : m = n
        · subst e; simp [hk]
        · simp [e]
      rw [this]; constructor <;> omega
    | some k =>
      have hs : ((p.reqs.modify m (fun k => { k with doneCbs := k.doneCbs ++ [(g, j)] })).map
            (fun k => regOf gi k.outcome k.doneCbs)).sum + regOf gi k.outcome k.doneCbs
          = (p.reqs.map (fun k => regOf gi k.outcome k.doneCbs)).sum + regOf gi k.outcome (k.doneCbs ++ [(g, j)]) :=
        sum_map_modify p.reqs m (fun k => { k with doneCbs := k.doneCbs ++ [(g, j)] })
          (fun k => regOf gi k.outcome k.doneCbs) k hk
      have e1 := regOf_append gi k.outcome k.doneCbs (g, j)
      constructor <;> omega

theorem regOf_append_self (gi : Nat × Nat) (l : List (Nat × Nat)) : regOf gi none (l ++ [gi]) = regOf gi none l + 1 := by
  simp [regOf]

/-- … and by exactly one if the child exists and has not completed: the slot is not dropped -/
theorem pot_registerChild_eq (p : Pool) (c : Child) (g j : Nat)
    (hT : ∀ t, c = .task t → t < p.tasks.length) (hS : ∀ m, c = .spawner m → m < p.reqs.length)
    (hno : p.childOutcome c = none) : (p.registerChild c g j).pot (g, j) = p.pot (g, j) + 1 := by
  cases c with
  | task t =>
    have hlt := hT t rfl
    have hk : p.tasks[t]? = some p.tasks[t] := by simp [hlt]
    have ho : p.tasks[t].outcome = none := by simpa [childOutcome, hk] using hno
    have hs : ((p.tasks.modify t (fun k => { k with doneCbs := k.doneCbs ++ [(g, j)] })).map
          (fun k => regOf (g, j) k.outcome k.doneCbs)).sum + regOf (g, j) p.tasks[t].outcome p.tasks[t].doneCbs
        = (p.tasks.map (fun k => regOf (g, j) k.outcome k.doneCbs)).sum
          + regOf (g, j) p.tasks[t].outcome (p.tasks[t].doneCbs ++ [(g, j)]) :=
      sum_map_modify p.tasks t (fun k => { k with doneCbs := k.doneCbs ++ [(g, j)] })
        (fun k => regOf (g, j) k.outcome k.doneCbs) _ hk
    rw [ho, regOf_append_self] at hs
    simp only [registerChild, pot, modTask]
    omega
  | spawner m =>
    have hlt := hS m rfl
    have hk : p.reqs[m]? = some p.reqs[m] := by simp [hlt]
    have ho : p.reqs[m].outcome = none := by simpa [childOutcome, hk] using hno
    have hs : ((p.reqs.modify m (fun k => { k with doneCbs := k.doneCbs ++ [(g, j)] })).map
          (fun k => regOf (g, j) k.outcome k.doneCbs)).sum + regOf (g, j) p.reqs[m].outcome p.reqs[m].doneCbs
        = (p.reqs.map (fun k => regOf (g, j) k.outcome k.doneCbs)).sum
          + regOf (g, j) p.reqs[m].outcome (p.reqs[m].doneCbs ++ [(g, j)]) :=
      sum_map_modify p.reqs m (fun k => { k with doneCbs := k.doneCbs ++ [(g, j)] })
        (fun k => regOf (g, j) k.outcome k.doneCbs) _ hk
    rw [ho, regOf_append_self] at hs
    simp only [registerChild, pot, modReq]
    omega

theorem dcb_modTask_ne (p : Pool) (t' t : Nat) (f : PTask → PTask) (h : t' ≠ t) : (p.modTask t' f).dcb t = p.dcb t := by
  simp only [dcb, modTask, List.getElem?_modify]
  cases p.tasks[t]? with
  | none => simp
  | some k => simp [h]

theorem rcb_modReq_ne (p : Pool) (m' m : Nat) (f : Req → Req) (h : m' ≠ m) : (p.modReq m' f).rcb m = p.rcb m := by
  simp only [rcb, modReq, List.getElem?_modify]
  cases p.reqs[m]? with
  | none => simp
  | some k => simp [h]

/-- the only registration `registerChild c g j` adds is slot `(g, j)` on `c` -/
theorem dcb_registerChild (p : Pool) (c : Child) (g j t : Nat) (x : Nat × Nat) (hx : x ∈ (p.registerChild c g j).dcb t) :
    x ∈ p.dcb t ∨ (x = (g, j) ∧ c = .task t) := by
  cases c with
  | spawner m => exact Or.inl hx
  | task t' =>
    by_cases e : t' = t
    · subst e
      cases hk : p.tasks[t']? with
      | none =>
        have : (p.registerChild (.task t') g j).dcb t' = [] := by
          simp [registerChild, dcb, modTask, hk]
        rw [this] at hx; cases hx
      | some k =>
        have h1 : (p.registerChild (.task t') g j).dcb t' = k.doneCbs ++ [(g, j)] := by
          simp only [registerChild, dcb, modTask]
          rw [getElem?_modify_eq _ _ _ _ hk]
        have h2 : p.dcb t' = k.doneCbs := by simp [dcb, hk]
        rw [h1] at hx; rw [h2]
        rcases List.mem_append.mp hx with h | h
        · exact Or.inl h
        · exact Or.inr ⟨List.mem_singleton.mp h, rfl⟩
    · left
      have := dcb_modTask_ne p t' t (fun k => { k with doneCbs := k.doneCbs ++ [(g, j)] }) e
      simp only [registerChild] at hx
      rwa [this] at hx

theorem rcb_registerChild (p : Pool) (c : Child) (g j m : Nat) (x : Nat × Nat) (hx : x ∈ (p.registerChild c g j).rcb m) :
    x ∈ p.rcb m ∨ (x = (g, j) ∧ c = .spawner m) := by
  cases c with
  | task t => exact Or.inl hx
  | spawner m' =>
    by_cases e : m' = m
    · subst e
      cases hk : p.reqs[m']? with
      | none =>
        have : (p.registerChild (.spawner m') g j).rcb m' = [] := by
          simp [registerChild, rcb, modReq, hk]
        rw [this] at hx; cases hx
      | some k =>
        have h1 : (p.registerChild (.spawner m') g j).rcb m' = k.doneCbs ++ [(g, j)] := by
          simp only [registerChild, rcb, modReq]
          rw [getElem?_modify_eq _ _ _ _ hk]
        have h2 : p.rcb m' = k.doneCbs := by simp [rcb, hk]
        rw [h1] at hx; rw [h2]
        rcases List.mem_append.mp hx with h | h
        · exact Or.inl h
        · exact Or.inr ⟨List.mem_singleton.mp h, rfl⟩
    · left
      have := rcb_modReq_ne p m' m (fun k => { k with doneCbs := k.doneCbs ++ [(g, j)] }) e
      simp only [registerChild] at hx
      rwa [this] at hx

theorem registerChild_reqs_length (p : Pool) (c : Child) (g j : Nat) : (p.registerChild c g j).reqs.length = p.reqs.length := by
  cases c <;> simp [registerChild, modTask, modReq]

theorem registerChild_gathers (p : Pool) (c : Child) (g j : Nat) : (p.registerChild c g j).gathers = p.gathers := by
  cases c <;> rfl

theorem registerChild_tasks (p : Pool) (c : Child) (g j : Nat) (t : Nat) (k : PTask) (hk : p.tasks[t]? = some k) :
    ∃ k', (p.registerChild c g j).tasks[t]? = some k' ∧ k'.phase = k.phase ∧ k'.outcome = k.outcome ∧
      (∀ x ∈ k.doneCbs, x ∈ k'.doneCbs) ∧ (c = .task t → (g, j) ∈ k'.doneCbs) := by
  cases c with
  | spawner m => exact ⟨k, hk, rfl, rfl, fun _ h => h, fun h => by cases h⟩
  | task t' =>
    by_cases e : t' = t
    · subst e
      refine ⟨{ k with doneCbs := k.doneCbs ++ [(g, j)] }, ?_, rfl, rfl, fun x hx => by simp [hx], fun _ => by simp⟩
      exact getElem?_modify_eq _ _ _ _ hk
    · refine ⟨k, ?_, rfl, rfl, fun _ h => h, fun h => by cases h; exact absurd rfl e⟩
      simp only [registerChild, modTask, List.getElem?_modify, e, if_false, hk]
      rfl

theorem registerChild_reqs (p : Pool) (c : Child) (g j : Nat) (m : Nat) (r : Req) (hr : p.reqs[m]? = some r) :
    ∃ r', (p.registerChild c g j).reqs[m]? = some r' ∧ r'.outcome = r.outcome ∧
      (∀ x ∈ r.doneCbs, x ∈ r'.doneCbs) ∧ (c = .spawner m → (g, j) ∈ r'.doneCbs) := by
  cases c with
  | task t => exact ⟨r, hr, rfl, fun _ h => h, fun h => by cases h⟩
  | spawner m' =>
    by_cases e : m' = m
    · subst e
      refine ⟨{ r with doneCbs := r.doneCbs ++ [(g, j)] }, ?_, rfl, fun x hx => by simp [hx], fun _ => by simp⟩
      exact getElem?_modify_eq _ _ _ _ hr
    · refine ⟨r, ?_, rfl, fun _ h => h, fun h => by cases h; exact absurd rfl e⟩
      simp only [registerChild, modReq, List.getElem?_modify, e, if_false, hr]
      rfl

theorem registerChild_outcome (p : Pool) (c : Child) (g j : Nat) (c' : Child) :
    (p.registerChild c g j).childOutcome c' = p.childOutcome c' := by
  cases c with
  | task t =>
    cases c' with
    | spawner m => rfl
    | task t' =>
      simp only [registerChild, childOutcome, modTask, List.getElem?_modify]
      cases p.tasks[t']? with
      | none => simp
      | some k => by_cases e : t = t' <;> simp [e]
  | spawner m =>
    cases c' with
    | task t' => rfl
    | spawner m' =>
      simp only [registerChild, childOutcome, modReq, List.getElem?_modify]
      cases p.reqs[m']? with
      | none => simp
      | some k => by_cases e : m = m' <;> simp [e]

/-- `_done_callback` called directly by `gather()` for a child that is done already: an update of the gather's own
record, nothing else -/
theorem gatherChildDone_false' (q : Pool) (g j : Nat) (G : Gather) (c : Child) (hG : q.gathers[g]? = some G)
    (hc : G.children[j]? = some c) (hlt : G.nfinished + 1 ≤ G.children.length)
    (hall : G.nfinished + 1 = G.children.length → G.children.all q.childFinished = true) :
    ∃ F : Gather → Gather, q.gatherChildDone g j false = q.modGather g F ∧ (∀ G, (F G).children = G.children) ∧
      (F G).nfinished = G.nfinished + 1 ∧ (G.children.length ≤ G.nfinished + 1 → (F G).outer.isSome = true) ∧
      (F G).retExc = G.retExc ∧
      (G.retExc = true → (F G).outer.isSome = true → G.outer.isSome = true ∨ G.nfinished + 1 = G.children.length) := by
  unfold gatherChildDone
  simp only [hG, hc]
  split
  · rename_i hs
    exact ⟨fun x => { x with nfinished := x.nfinished + 1 }, rfl, fun _ => rfl, rfl, fun _ => hs, rfl, fun _ ho => Or.inl ho⟩
  · split
    · rename_i hv
      refine ⟨fun x => { x with nfinished := x.nfinished + 1 }, rfl, fun _ => rfl, rfl, fun hl => ?_, rfl, fun _ ho => Or.inl ho⟩
      have := verdict_none_count G _ hv; omega
    · rename_i o hv
      split
      · rename_i hdef
        exfalso
        have hok : o = .ok := by
          have : (o == Outcome.ok) = true := by
            cases hx : (o == Outcome.ok) with
            | true => rfl
            | false => simp [hx] at hdef
          exact eq_of_beq this
        subst hok
        have := hall (verdict_ok_count G _ hv)
        simp [this] at hdef
      · refine ⟨fun x => { x with nfinished := x.nfinished + 1, outer := some o }, ?_, fun _ => rfl, rfl, fun _ => rfl, rfl,
          fun hre _ => Or.inr (verdict_retExc_count G _ o hre hv)⟩
        simp only [Bool.false_eq_true, if_false, Pool.modGather, modify_modify_same]

theorem gatherChildDone_false (q : Pool) (g j : Nat) (G : Gather) (c : Child) (hG : q.gathers[g]? = some G)
    (hc : G.children[j]? = some c) (hlt : G.nfinished + 1 ≤ G.children.length)
    (hall : G.nfinished + 1 = G.children.length → G.children.all q.childFinished = true) :
    ∃ F : Gather → Gather, q.gatherChildDone g j false = q.modGather g F ∧ (∀ G, (F G).children = G.children) ∧
      (F G).nfinished = G.nfinished + 1 ∧ (G.children.length ≤ G.nfinished + 1 → (F G).outer.isSome = true) := by
  obtain ⟨F, a, b, c', d, _⟩ := gatherChildDone_false' q g j G c hG hc hlt hall
  exact ⟨F, a, b, c', d⟩

/-- the state of a scan that has handled the first `j` children of gather `g` (children `cs`); `p0` is the pool the
scan started from (child outcomes do not change during a scan) -/
structure ScanInv (R : Nat × Nat → Nat) (p0 : Pool) (g : Nat) (cs : List Child) (j : Nat) (q : Pool) : Prop where
  out : ∀ c, q.childOutcome c = p0.childOutcome c
  ofin : OutFin q
  gG : ∃ G : Gather, q.gathers[g]? = some G ∧ G.children = cs
  dom : ∀ (g0 i : Nat), 0 < W R q (g0, i) → ∃ G : Gather, q.gathers[g0]? = some G ∧ i < G.children.length
  cntO : ∀ (g0 : Nat) (G : Gather), g0 ≠ g → q.gathers[g0]? = some G →
          G.nfinished + rsum G.children.length (fun i => W R q (g0, i)) = G.children.length
  cntG : ∀ G : Gather, q.gathers[g]? = some G →
          G.nfinished + rsum cs.length (fun i => W R q (g, i)) = j ∧
          ((∃ (i : Nat) (c : Child), i < j ∧ cs[i]? = some c ∧ p0.childOutcome c = none) → G.nfinished + 1 ≤ j)
  regO : ∀ (g0 : Nat) (G : Gather) (i t : Nat), g0 ≠ g → q.gathers[g0]? = some G → G.children[i]? = some (.task t) →
          ∃ k : PTask, q.tasks[t]? = some k ∧ (k.phase ≠ .finished → (g0, i) ∈ k.doneCbs)
  regG : ∀ (i t : Nat), i < j → cs[i]? = some (.task t) →
          ∃ k : PTask, q.tasks[t]? = some k ∧ (k.phase ≠ .finished → (g, i) ∈ k.doneCbs)
  finO : ∀ (g0 : Nat) (G : Gather), g0 ≠ g → q.gathers[g0]? = some G → G.children.length ≤ G.nfinished →
          G.outer.isSome = true
  finG : ∀ G : Gather, q.gathers[g]? = some G → cs.length ≤ G.nfinished → G.outer.isSome = true
  valid : ∀ (i t : Nat), cs[i]? = some (.task t) → ∃ k : PTask, q.tasks[t]? = some k
  validS : ∀ (i m : Nat), cs[i]? = some (.spawner m) → m < q.reqs.length
  ownT : ∀ (t g0 i : Nat), (g0, i) ∈ q.dcb t → ∃ G : Gather, q.gathers[g0]? = some G ∧ G.children[i]? = some (.task t)
  ownS : ∀ (m g0 i : Nat), (g0, i) ∈ q.rcb m → ∃ G : Gather, q.gathers[g0]? = some G ∧ G.children[i]? = some (.spawner m)
  regSO : ∀ (g0 : Nat) (G : Gather) (i m : Nat), g0 ≠ g → q.gathers[g0]? = some G → G.children[i]? = some (.spawner m) →
          ∃ r : Req, q.reqs[m]? = some r ∧ (r.outcome = none → (g0, i) ∈ r.doneCbs)
  regSG : ∀ (i m : Nat), i < j → cs[i]? = some (.spawner m) →
          ∃ r : Req, q.reqs[m]? = some r ∧ (r.outcome = none → (g, i) ∈ r.doneCbs)
  cmpO : ∀ (g0 : Nat) (G : Gather), g0 ≠ g → q.gathers[g0]? = some G → G.retExc = true → G.outer.isSome = true →
          G.children.length ≤ G.nfinished
  cmpG : ∀ G : Gather, q.gathers[g]? = some G → G.retExc = true → G.outer.isSome = true → cs.length ≤ G.nfinished

theorem ScanInv.done {R p0 g cs q} (h : ScanInv R p0 g cs cs.length q) : PInv R q := by
  obtain ⟨G, hG, hcs⟩ := h.gG
  refine ⟨h.dom, ?_, ?_, ?_, h.ownT, h.ownS, ?_, ?_⟩
  rotate_right 2
  · intro g0 G0 i m hG0 hc
    by_cases e : g0 = g
    · subst e; rw [hG] at hG0; cases hG0
      rw [hcs] at hc
      exact h.regSG i m (List.getElem?_eq_some_iff.mp hc).1 hc
    · exact h.regSO g0 G0 i m e hG0 hc
  · intro g0 G0 hG0 hre hout
    by_cases e : g0 = g
    · subst e; rw [hG] at hG0; cases hG0
      rw [hcs]; exact h.cmpG G hG hre hout
    · exact h.cmpO g0 G0 e hG0 hre hout
  · intro g0 G0 hG0
    by_cases e : g0 = g
    · subst e; rw [hG] at hG0; cases hG0
      rw [hcs]; exact (h.cntG G hG).1
    · exact h.cntO g0 G0 e hG0
  · intro g0 G0 i t hG0 hc
    by_cases e : g0 = g
    · subst e; rw [hG] at hG0; cases hG0
      rw [hcs] at hc
      exact h.regG i t (List.getElem?_eq_some_iff.mp hc).1 hc
    · exact h.regO g0 G0 i t e hG0 hc
  · intro g0 G0 hG0 hn
    by_cases e : g0 = g
    · subst e; rw [hG] at hG0; cases hG0
      rw [hcs] at hn; exact h.finG G hG hn
    · exact h.finO g0 G0 e hG0 hn

theorem registerChild_tasks_back (p : Pool) (c : Child) (g j : Nat) (t : Nat) (k' : PTask)
    (hk' : (p.registerChild c g j).tasks[t]? = some k') :
    ∃ k, p.tasks[t]? = some k ∧ k'.phase = k.phase ∧ k'.outcome = k.outcome := by
  have hlen : (p.registerChild c g j).tasks.length = p.tasks.length := by
    cases c <;> simp [registerChild, modTask, modReq]
  have hlt : t < p.tasks.length := by rw [← hlen]; exact (List.getElem?_eq_some_iff.mp hk').1
  obtain ⟨k'', a, b, c', _, _⟩ := registerChild_tasks p c g j t p.tasks[t] (by simp [hlt])
  rw [hk'] at a; cases a
  exact ⟨p.tasks[t], by simp [hlt], b, c'⟩

theorem childOutcome_modGather (q : Pool) (g : Nat) (F : Gather → Gather) (c : Child) :
    (q.modGather g F).childOutcome c = q.childOutcome c := by cases c <;> rfl

/-- one child of the scan -/
theorem ScanInv.step {R p0 g cs j q} (h : ScanInv R p0 g cs j q) (c : Child) (hc : cs[j]? = some c) :
    ScanInv R p0 g cs (j + 1)
      (if (q.childOutcome c).isSome then q.gatherChildDone g j false else q.registerChild c g j) := by
  obtain ⟨G, hG, hcs⟩ := h.gG
  have hjl : j < cs.length := (List.getElem?_eq_some_iff.mp hc).1
  obtain ⟨hcnt, hund⟩ := h.cntG G hG
  split
  · -- the child is done already: its callback is called at once
    rename_i hdone
    have hcG : G.children[j]? = some c := by rw [hcs]; exact hc
    have hlt : G.nfinished + 1 ≤ G.children.length := by rw [hcs]; omega
    have hall : G.nfinished + 1 = G.children.length → G.children.all q.childFinished = true := by
      intro hn
      rw [hcs] at hn
      have hnj : G.nfinished = j := by omega
      apply all_childFinished
      intro i t hi
      rw [hcs] at hi
      obtain ⟨k, hk⟩ := h.valid i t hi
      refine ⟨k, hk, h.ofin t k hk ?_⟩
      have hil : i < cs.length := (List.getElem?_eq_some_iff.mp hi).1
      have hco : q.childOutcome (.task t) = k.outcome := by simp [childOutcome, hk]
      by_cases e : i = j
      · subst e
        rw [hc] at hi; cases hi
        rw [← hco]; exact hdone
      · have hij : i < j := by omega
        cases hko : k.outcome with
        | some o => rfl
        | none =>
          exfalso
          have := hund ⟨i, .task t, hij, hi, by rw [← h.out, hco, hko]⟩
          omega
    obtain ⟨F, hF, hFc, hFn, hFo, hFr, hFcmp⟩ := gatherChildDone_false' q g j G c hG hcG hlt hall
    rw [hF]
    have hG' : (q.modGather g F).gathers[g]? = some (F G) := getElem?_modify_eq _ _ _ _ hG
    have hother : ∀ (g0 : Nat) (G0 : Gather), g0 ≠ g → (q.modGather g F).gathers[g0]? = some G0 → q.gathers[g0]? = some G0 := by
      intro g0 G0 hne h0
      obtain ⟨G1, h1, rfl⟩ := getElem?_modify_some q.gathers g g0 F G0 h0
      simp only [show ¬ g = g0 from fun e => hne e.symm, if_false]; exact h1
    refine ⟨fun c' => (childOutcome_modGather q g F c').trans (h.out c'), h.ofin, ⟨F G, hG', by rw [hFc, hcs]⟩, ?_, ?_, ?_, ?_, ?_,
      ?_, ?_, h.valid, h.validS, fun t g0 i hm => modGather_children q g F hFc g0 i _ (h.ownT t g0 i hm),
      fun m g0 i hm => modGather_children q g F hFc g0 i _ (h.ownS m g0 i hm), ?_, ?_, ?_, ?_⟩
    rotate_right 4
    · intro g0 G0 i m hne h0 hch
      exact h.regSO g0 G0 i m hne (hother g0 G0 hne h0) hch
    · intro i m hi hci
      by_cases e : i = j
      · subst e
        rw [hc] at hci; cases hci
        have hlt' := h.validS i m hc
        refine ⟨q.reqs[m], by show q.reqs[m]? = _; simp [hlt'], fun hnone => ?_⟩
        have hco : q.childOutcome (.spawner m) = q.reqs[m].outcome := by simp [childOutcome, hlt']
        rw [hco, hnone] at hdone; cases hdone
      · exact h.regSG i m (by omega) hci
    · intro g0 G0 hne h0 hre hout
      exact h.cmpO g0 G0 hne (hother g0 G0 hne h0) hre hout
    · intro G0 h0 hre hout
      rw [hG'] at h0; cases h0
      rw [hFn]
      rw [hFr] at hre
      rcases hFcmp hre hout with hs | hn
      · have := h.cmpG G hG hre hs; omega
      · rw [hcs] at hn; omega
    · intro g0 i hp
      rw [W_modGather] at hp
      obtain ⟨G0, hG0, hi⟩ := h.dom g0 i hp
      by_cases e : g0 = g
      · subst e; rw [hG] at hG0; cases hG0
        exact ⟨F G, hG', by rw [hFc]; exact hi⟩
      · refine ⟨G0, ?_, hi⟩
        simp only [Pool.modGather, List.getElem?_modify, show ¬ g = g0 from fun x => e x.symm, if_false, hG0]; rfl
    · intro g0 G0 hne h0
      rw [W_modGather]; exact h.cntO g0 G0 hne (hother g0 G0 hne h0)
    · intro G0 h0
      rw [hG'] at h0; cases h0
      rw [W_modGather, hFn]
      refine ⟨by omega, ?_⟩
      rintro ⟨i, c', hi, hci, hnone⟩
      by_cases e : i = j
      · subst e
        rw [hc] at hci; cases hci
        rw [← h.out, ] at hnone
        rw [hnone] at hdone; cases hdone
      · have := hund ⟨i, c', by omega, hci, hnone⟩
        omega
    · intro g0 G0 i t hne h0 hch
      exact h.regO g0 G0 i t hne (hother g0 G0 hne h0) hch
    · intro i t hi hci
      by_cases e : i = j
      · subst e
        rw [hc] at hci; cases hci
        obtain ⟨k, hk⟩ := h.valid i t hc
        refine ⟨k, hk, fun hnf => absurd (h.ofin t k hk ?_) hnf⟩
        have hco : q.childOutcome (.task t) = k.outcome := by simp [childOutcome, hk]
        rw [← hco]; exact hdone
      · exact h.regG i t (by omega) hci
    · intro g0 G0 hne h0 hn
      exact h.finO g0 G0 hne (hother g0 G0 hne h0) hn
    · intro G0 h0 hn
      rw [hG'] at h0; cases h0
      rw [hFn] at hn
      exact hFo (by rw [hcs]; exact hn)
  · -- the child is pending: the callback slot is registered on it
    rename_i hpend
    have hWle : ∀ gi, W R (q.registerChild c g j) gi ≤ W R q gi + (if (g, j) = gi then 1 else 0) := by
      intro gi; have := (pot_registerChild q c g j gi).2; simp only [W]; omega
    have hWge : ∀ gi, W R q gi ≤ W R (q.registerChild c g j) gi := by
      intro gi; have := (pot_registerChild q c g j gi).1; simp only [W]; omega
    have hWeq : ∀ gi, (g, j) ≠ gi → W R (q.registerChild c g j) gi = W R q gi := by
      intro gi hne
      have a := hWle gi; have b := hWge gi
      simp only [hne, if_false] at a; omega
    have hgs := registerChild_gathers q c g j
    have hno : q.childOutcome c = none := by
      cases hx : q.childOutcome c with
      | none => rfl
      | some o => rw [hx] at hpend; exact absurd rfl hpend
    have hW1 : W R (q.registerChild c g j) (g, j) = W R q (g, j) + 1 := by
      have := pot_registerChild_eq q c g j
        (fun t e => by
          subst e
          obtain ⟨k, hk⟩ := h.valid j t hc
          exact (List.getElem?_eq_some_iff.mp hk).1)
        (fun m e => by subst e; exact h.validS j m hc) hno
      simp only [W]; omega
    refine ⟨fun c' => (registerChild_outcome q c g j c').trans (h.out c'), ?_, ⟨G, by rw [hgs]; exact hG, hcs⟩, ?_, ?_, ?_, ?_, ?_,
      ?_, ?_, ?_, ?_, ?_, ?_, ?_, ?_, ?_, ?_⟩
    rotate_right 7
    · intro i m hci
      rw [registerChild_reqs_length]; exact h.validS i m hci
    · intro t g0 i hm
      rw [hgs]
      rcases dcb_registerChild q c g j t _ hm with hm' | ⟨e1, e2⟩
      · exact h.ownT t g0 i hm'
      · cases e1; subst e2
        exact ⟨G, hG, by rw [hcs]; exact hc⟩
    · intro m g0 i hm
      rw [hgs]
      rcases rcb_registerChild q c g j m _ hm with hm' | ⟨e1, e2⟩
      · exact h.ownS m g0 i hm'
      · cases e1; subst e2
        exact ⟨G, hG, by rw [hcs]; exact hc⟩
    · intro g0 G0 i m hne h0 hch
      rw [hgs] at h0
      obtain ⟨r, hr, hreg⟩ := h.regSO g0 G0 i m hne h0 hch
      obtain ⟨r', a, b, d, _⟩ := registerChild_reqs q c g j m r hr
      exact ⟨r', a, fun hnone => d _ (hreg (by rw [← b]; exact hnone))⟩
    · intro i m hi hci
      by_cases e : i = j
      · subst e
        rw [hc] at hci; cases hci
        have hlt' := h.validS i m hc
        obtain ⟨r', a, _, _, f⟩ := registerChild_reqs q (.spawner m) g i m q.reqs[m] (by simp [hlt'])
        exact ⟨r', a, fun _ => f rfl⟩
      · obtain ⟨r, hr, hreg⟩ := h.regSG i m (by omega) hci
        obtain ⟨r', a, b, d, _⟩ := registerChild_reqs q c g j m r hr
        exact ⟨r', a, fun hnone => d _ (hreg (by rw [← b]; exact hnone))⟩
    · intro g0 G0 hne h0 hre hout
      rw [hgs] at h0; exact h.cmpO g0 G0 hne h0 hre hout
    · intro G0 h0 hre hout
      rw [hgs] at h0; exact h.cmpG G0 h0 hre hout
    · intro t k' hk' ho
      obtain ⟨k, hk, hp, hoo⟩ := registerChild_tasks_back q c g j t k' hk'
      rw [hp]; exact h.ofin t k hk (by rw [← hoo]; exact ho)
    · intro g0 i hp
      rw [hgs]
      by_cases e : (g, j) = (g0, i)
      · cases e
        exact ⟨G, hG, by rw [hcs]; exact hjl⟩
      · rw [hWeq _ e] at hp; exact h.dom g0 i hp
    · intro g0 G0 hne h0
      rw [hgs] at h0
      have := h.cntO g0 G0 hne h0
      have he : rsum G0.children.length (fun i => W R (q.registerChild c g j) (g0, i))
          = rsum G0.children.length (fun i => W R q (g0, i)) :=
        rsum_congr _ _ _ (fun i _ => hWeq (g0, i) (fun e => by cases e; exact hne rfl))
      omega
    · intro G0 h0
      rw [hgs, hG] at h0; cases h0
      have hinc : rsum cs.length (fun i => W R q (g, i)) + 1 = rsum cs.length (fun i => W R (q.registerChild c g j) (g, i)) := by
        apply rsum_dec _ _ _ j hjl
        · exact hW1.symm
        · intro i hi
          exact (hWeq (g, i) (fun e => by cases e; exact hi rfl)).symm
      refine ⟨by omega, fun _ => by omega⟩
    · intro g0 G0 i t hne h0 hch
      rw [hgs] at h0
      obtain ⟨k, hk, hr⟩ := h.regO g0 G0 i t hne h0 hch
      obtain ⟨k', a, b, _, d, _⟩ := registerChild_tasks q c g j t k hk
      exact ⟨k', a, fun hnf => d _ (hr (by rw [← b]; exact hnf))⟩
    · intro i t hi hci
      by_cases e : i = j
      · subst e
        rw [hc] at hci; cases hci
        obtain ⟨k, hk⟩ := h.valid i t hc
        obtain ⟨k', a, _, _, _, f⟩ := registerChild_tasks q (.task t) g i t k hk
        exact ⟨k', a, fun _ => f rfl⟩
      · obtain ⟨k, hk, hr⟩ := h.regG i t (by omega) hci
        obtain ⟨k', a, b, _, d, _⟩ := registerChild_tasks q c g j t k hk
        exact ⟨k', a, fun hnf => d _ (hr (by rw [← b]; exact hnf))⟩
    · intro g0 G0 hne h0 hn
      rw [hgs] at h0; exact h.finO g0 G0 hne h0 hn
    · intro G0 h0 hn
      rw [hgs] at h0; exact h.finG G0 h0 hn
    · intro i t hci
      obtain ⟨k, hk⟩ := h.valid i t hci
      obtain ⟨k', a, _⟩ := registerChild_tasks q c g j t k hk
      exact ⟨k', a⟩

theorem ScanInv.scan {R p0 g cs} (rest : List Child) (j : Nat) (q : Pool)
    (hrest : ∀ (n : Nat) (c : Child), rest[n]? = some c → cs[j + n]? = some c) (hlen : j + rest.length = cs.length)
    (h : ScanInv R p0 g cs j q) : ScanInv R p0 g cs cs.length (gatherScan g rest j q) := by
  induction rest generalizing j q with
  | nil =>
    simp only [gatherScan]
    have : j = cs.length := by simpa using hlen
    subst this; exact h
  | cons c rest ih =>
    simp only [gatherScan]
    refine ih (j + 1) _ ?_ ?_ (h.step c (by simpa using hrest 0 c (by simp)))
    · intro n c' hn
      have := hrest (n + 1) c' (by simpa using hn)
      rw [show j + 1 + n = j + (n + 1) by omega]; exact this
    · simp only [List.length_cons] at hlen; omega

theorem rsum_const_zero (n : Nat) : rsum n (fun _ => 0) = 0 := by
  induction n with
  | zero => simp [rsum]
  | succ n ih => rw [rsum_succ, ih]

theorem rsum_zero (n : Nat) (f : Nat → Nat) (h : ∀ i, i < n → f i = 0) : rsum n f = 0 := by
  have := rsum_le n f (fun _ => 0) (fun i hi => by rw [h i hi]; exact Nat.le_refl _)
  have h0 := rsum_const_zero n
  omega

/-- a new gather is appended: nothing of it is outstanding yet -/
theorem ScanInv.init {R} {p : Pool} (h : PInv R p) (ho : OutFin p) (cs : List Child) (G0 : Gather) (amb : Bool)
    (hc : G0.children = cs) (hn : G0.nfinished = 0) (hout : cs = [] → G0.outer.isSome = true)
    (hout' : G0.retExc = true → G0.outer.isSome = true → cs = [])
    (hv : ∀ (i t : Nat), cs[i]? = some (.task t) → ∃ k : PTask, p.tasks[t]? = some k)
    (hvs : ∀ (i m : Nat), cs[i]? = some (.spawner m) → m < p.reqs.length) :
    ScanInv R ({ p with gathers := p.gathers ++ [G0], ambiguous := amb } : Pool) p.gathers.length cs 0
      ({ p with gathers := p.gathers ++ [G0], ambiguous := amb } : Pool) := by
  have hW : W R ({ p with gathers := p.gathers ++ [G0], ambiguous := amb } : Pool) = W R p := rfl
  have hold : ∀ (g0 : Nat) (G : Gather), g0 ≠ p.gathers.length → (p.gathers ++ [G0])[g0]? = some G → p.gathers[g0]? = some G := by
    intro g0 G hne hg
    rw [List.getElem?_append] at hg
    split at hg
    · exact hg
    · rename_i hge
      have : g0 - p.gathers.length ≠ 0 := by omega
      cases hx : g0 - p.gathers.length with
      | zero => exact absurd hx this
      | succ n => rw [hx] at hg; simp at hg
  have hnew : (p.gathers ++ [G0])[p.gathers.length]? = some G0 := by simp
  have hzero : ∀ i, W R p (p.gathers.length, i) = 0 := by
    intro i
    cases hw : W R p (p.gathers.length, i) with
    | zero => rfl
    | succ n =>
      obtain ⟨G, hG, _⟩ := h.dom p.gathers.length i (by omega)
      rw [List.getElem?_eq_none (Nat.le_refl _)] at hG; cases hG
  have hkeep : ∀ (g0 i : Nat) (c : Child), (∃ G : Gather, p.gathers[g0]? = some G ∧ G.children[i]? = some c) →
      ∃ G : Gather, (p.gathers ++ [G0])[g0]? = some G ∧ G.children[i]? = some c := by
    rintro g0 i c ⟨G, hG, hi⟩
    exact ⟨G, by rw [List.getElem?_append_left (List.getElem?_eq_some_iff.mp hG).1]; exact hG, hi⟩
  refine ⟨fun _ => rfl, ho, ⟨G0, hnew, hc⟩, ?_, ?_, ?_, ?_, ?_, ?_, ?_, hv, hvs,
    fun t g0 i hm => hkeep g0 i _ (h.ownT t g0 i hm), fun m g0 i hm => hkeep g0 i _ (h.ownS m g0 i hm), ?_, ?_, ?_, ?_⟩
  rotate_right 4
  · intro g0 G i m hne hg hch
    exact h.regS g0 G i m (hold g0 G hne hg) hch
  · intro i m hi; exact absurd hi (Nat.not_lt_zero _)
  · intro g0 G hne hg hre hout2
    exact h.cmp g0 G (hold g0 G hne hg) hre hout2
  · intro G hg hre hout2
    have hg' : (p.gathers ++ [G0])[p.gathers.length]? = some G := hg
    rw [hnew] at hg'; cases hg'
    have := hout' hre hout2
    subst this; exact Nat.zero_le _
  · intro g0 i hp
    rw [hW] at hp
    obtain ⟨G, hG, hi⟩ := h.dom g0 i hp
    exact ⟨G, by show (p.gathers ++ [G0])[g0]? = some G; rw [List.getElem?_append_left (List.getElem?_eq_some_iff.mp hG).1]; exact hG, hi⟩
  · intro g0 G hne hg
    rw [hW]; exact h.cnt g0 G (hold g0 G hne hg)
  · intro G hg
    have hg' : (p.gathers ++ [G0])[p.gathers.length]? = some G := hg
    rw [hnew] at hg'; cases hg'
    rw [hW, hn, rsum_zero _ _ (fun i _ => hzero i)]
    exact ⟨rfl, fun ⟨i, _, hi, _⟩ => absurd hi (Nat.not_lt_zero _)⟩
  · intro g0 G i t hne hg hch
    exact h.reg g0 G i t (hold g0 G hne hg) hch
  · intro i t hi; exact absurd hi (Nat.not_lt_zero _)
  · intro g0 G hne hg hl
    exact h.fin g0 G (hold g0 G hne hg) hl
  · intro G hg hl
    have hg' : (p.gathers ++ [G0])[p.gathers.length]? = some G := hg
    rw [hnew] at hg'; cases hg'
    exact hout (List.length_eq_zero_iff.mp (by omega))

/-- **starting a gather** keeps the invariant -/
theorem PInv.gatherStart {R} {p : Pool} (h : PInv R p) (ho : OutFin p) (cs : List Child) (re : Bool) (owner n : Nat)
    (hv : ∀ (i t : Nat), cs[i]? = some (.task t) → ∃ k : PTask, p.tasks[t]? = some k)
    (hvs : ∀ (i m : Nat), cs[i]? = some (.spawner m) → m < p.reqs.length) :
    PInv R (p.gatherStart cs re owner n).1 := by
  unfold Pool.gatherStart
  simp only
  have h0 := ScanInv.init h ho cs
    { children := cs, nfinished := 0, owner := owner, retExc := re, outer := (if cs.isEmpty then some .ok else none) }
    (p.ambiguous || (!re && decide ((p.failKinds (cs.take n)).length > 1))) rfl rfl (fun e => by simp [e])
    (fun _ ho' => by cases cs with | nil => rfl | cons a as => simp at ho') hv hvs
  exact (ScanInv.scan cs 0 _ (fun n c hn => by simpa using hn) (by simp) h0).done

end Pool
end Taskpool
