import Taskpool.Inv.Lift
/-! **A background call (`flush`, `gather_and_close`, `until_closed`) that has something to do is flagged.**

`ApiOK E p` (`E a` = the call whose handle is being run, exempt): a call that has not taken its first step is flagged;
it has an outcome exactly when its frame is `done`; a call suspended on a gather is the owner of that gather and is
flagged as soon as the gather's outer future has completed; a call suspended in `until_closed()` is in the list of
waiters of the closing event or flagged, and that list is empty once the pool is closed.  Plus the bookkeeping that
makes the children of every gather existing tasks / spawners of the pool. -/
namespace Taskpool
namespace Pool

def childExists (p : Pool) : Child → Prop
  | .task t => t < p.tasks.length
  | .spawner m => m < p.reqs.length

structure ApiOK (E : Nat → Prop) (p : Pool) : Prop where
  ns : ∀ (a : Nat) (A : Api), p.apis[a]? = some A → ¬ E a → A.frame = .notStarted → A.sched = true
  dn : ∀ (a : Nat) (A : Api), p.apis[a]? = some A → ¬ E a → (A.outcome.isSome = true ↔ A.frame = .done)
  gw : ∀ (a : Nat) (A : Api) (g : Nat), p.apis[a]? = some A → ¬ E a → (A.frame = .gather1 g ∨ A.frame = .gather2 g) →
         ∃ G : Gather, p.gathers[g]? = some G ∧ G.owner = a ∧ (G.outer.isSome = true → A.sched = true)
  /-- only `flush` and `gather_and_close` suspend on a gather (`stepApi` does not resume any other kind from such a
  frame: without this clause the flag of an `until_closed` call put in a gather frame could be consumed for nothing) -/
  kd : ∀ (a : Nat) (A : Api) (g : Nat), p.apis[a]? = some A → ¬ E a → (A.frame = .gather1 g ∨ A.frame = .gather2 g) →
         A.kind ≠ .untilClosed
  cw : ∀ (a : Nat) (A : Api), p.apis[a]? = some A → ¬ E a → A.frame = .waitClosed → a ∈ p.closedWaiters ∨ A.sched = true
  cl : p.closed = true → p.closedWaiters = []
  /-- the registries file existing tasks, the set of cancelled meta tasks existing spawners -/
  rg : ∀ t, (t ∈ p.running ∨ t ∈ p.cancelledR ∨ t ∈ p.ended) → t < p.tasks.length
  mc : ∀ m ∈ p.metaCancelled, m < p.reqs.length
  /-- the children of every gather exist -/
  ch : ∀ (g : Nat) (G : Gather), p.gathers[g]? = some G → ∀ c ∈ G.children, p.childExists c

/-- nobody exempt: the state between two steps -/
abbrev ApiWant (p : Pool) : Prop := ApiOK (fun _ => False) p

end Pool
end Taskpool
