import Taskpool.Inv.Blame
import Taskpool.Inv.Lift
/-! **What a `flush()` / `gather_and_close()` raises is the outcome of one of the pool's own tasks or spawners** — the
walk, part 1: the walking invariant `BlameX`, the frame relation `Bfr` and every step function that is neither the
wrapper of a task, a spawner, a gather nor a background call.

`BlameX p` is `BlameOK p` plus what makes it inductive for the total machine:

* `to` — a task whose asyncio Task is done has finished (so `stepTask` is a no-op on it: its outcome is never rewritten);
* `ro` — a spawner that is done is in frame `done` (likewise for `stepMeta`);
* `g2` — the gather the second stage of a background call waits on exists and all its children are *tasks*
  (`CancelledError` reaches a call only through that gather).

`Bfr p q` ("`q` is `p` up to changes `BlameX` does not read"): background calls and gathers are the same, tasks and
requests are only appended (new ones have no outcome) and every old one keeps its outcome and its phase / frame.  Every
synchronous call and all user code (hooks) satisfy it.  The lemmas are in continuation form `Bfr p0 p → Bfr p0 (f p)`
so that they chain backwards (`bfw`). -/
namespace Taskpool
namespace Pool

/-- `childOutcome` on the lists it reads -/
def coL (ts : List PTask) (rs : List Req) : Child → Option Outcome
  | .task t => match ts[t]? with | some k => k.outcome | none => none
  | .spawner m => match rs[m]? with | some r => r.outcome | none => none

theorem childOutcome_coL (p : Pool) (c : Child) : p.childOutcome c = coL p.tasks p.reqs c := by cases c <;> rfl

/-- the walking invariant on the four lists it reads -/
structure BlameL (ts : List PTask) (rs : List Req) (as : List Api) (gs : List Gather) : Prop where
  ge : ∀ (g : Nat) (G : Gather) (e : Err), gs[g]? = some G → G.outer = some (.exc e) →
         ∃ c ∈ G.children, coL ts rs c = some (.exc e)
  gc : ∀ (g : Nat) (G : Gather), gs[g]? = some G → G.outer = some .cancelled →
         G.retExc = false ∧ ∃ c ∈ G.children, coL ts rs c = some .cancelled
  ae : ∀ (a : Nat) (A : Api) (e : Err), as[a]? = some A → A.outcome = some (.exc e) →
         (∃ (t : Nat) (k : PTask), ts[t]? = some k ∧ k.outcome = some (.exc e)) ∨
         (∃ (m : Nat) (r : Req), rs[m]? = some r ∧ r.outcome = some (.exc e))
  ac : ∀ (a : Nat) (A : Api), as[a]? = some A → A.outcome = some .cancelled →
         ∃ (t : Nat) (k : PTask), ts[t]? = some k ∧ k.outcome = some .cancelled
  /-- a task whose asyncio Task is done has finished -/
  to : ∀ (t : Nat) (k : PTask), ts[t]? = some k → k.outcome.isSome = true → k.phase = .finished
  /-- a spawner that is done is in frame `done` -/
  ro : ∀ (m : Nat) (r : Req), rs[m]? = some r → r.outcome.isSome = true → r.frame = .done
  /-- the gather the second stage of a background call waits on exists, and its children are tasks -/
  g2 : ∀ (a : Nat) (A : Api) (g : Nat), as[a]? = some A → A.frame = .gather2 g →
         ∃ G : Gather, gs[g]? = some G ∧ ∀ c ∈ G.children, ∃ t : Nat, c = .task t

/-- the walking invariant: `BlameOK` plus what makes it inductive (`to`, `ro`, `g2` of `BlameL`) -/
def BlameX (p : Pool) : Prop := BlameL p.tasks p.reqs p.apis p.gathers

theorem BlameX.ok {p : Pool} (h : BlameX p) : BlameOK p := by
  refine ⟨?_, ?_, h.ae, h.ac⟩
  · intro g G e hG ho
    obtain ⟨c, hc, hco⟩ := h.ge g G e hG ho
    exact ⟨c, hc, by rw [childOutcome_coL]; exact hco⟩
  · intro g G hG ho
    obtain ⟨hr, c, hc, hco⟩ := h.gc g G hG ho
    exact ⟨hr, c, hc, by rw [childOutcome_coL]; exact hco⟩

/-! ### the frame relation -/

structure BfrL (t0 : List PTask) (r0 : List Req) (a0 : List Api) (g0 : List Gather)
    (t1 : List PTask) (r1 : List Req) (a1 : List Api) (g1 : List Gather) : Prop where
  apis : a1 = a0
  gathers : g1 = g0
  tl : t0.length ≤ t1.length
  tk : ∀ (t : Nat) (k' : PTask), t1[t]? = some k' →
        (∃ k, t0[t]? = some k ∧ k'.outcome = k.outcome ∧ k'.phase = k.phase) ∨ (t0.length ≤ t ∧ k'.outcome = none)
  rl : r0.length ≤ r1.length
  rq : ∀ (m : Nat) (r' : Req), r1[m]? = some r' →
        (∃ r, r0[m]? = some r ∧ r'.outcome = r.outcome ∧ r'.frame = r.frame) ∨ (r0.length ≤ m ∧ r'.outcome = none)

/-- `q` is `p` up to changes `BlameX` does not read -/
def Bfr (p q : Pool) : Prop := BfrL p.tasks p.reqs p.apis p.gathers q.tasks q.reqs q.apis q.gathers

theorem Bfr.refl (p : Pool) : Bfr p p :=
  ⟨rfl, rfl, Nat.le_refl _, fun _ k' h => Or.inl ⟨k', h, rfl, rfl⟩, Nat.le_refl _, fun _ r' h => Or.inl ⟨r', h, rfl, rfl⟩⟩

theorem bw_lt_of_some {α} {l : List α} {i : Nat} {x : α} (h : l[i]? = some x) : i < l.length :=
  (List.getElem?_eq_some_iff.mp h).1

theorem bw_some_of_lt {α} {l : List α} {i : Nat} (h : i < l.length) : ∃ x, l[i]? = some x :=
  ⟨l[i], List.getElem?_eq_getElem h⟩

/-- an old task keeps its outcome and its phase -/
theorem Bfr.fwdT {p q : Pool} (h : Bfr p q) {t : Nat} {k : PTask} (hk : p.tasks[t]? = some k) :
    ∃ k', q.tasks[t]? = some k' ∧ k'.outcome = k.outcome ∧ k'.phase = k.phase := by
  have hlt := bw_lt_of_some hk
  obtain ⟨k', hk'⟩ := bw_some_of_lt (Nat.lt_of_lt_of_le hlt h.tl)
  rcases h.tk t k' hk' with ⟨k0, hk0, a, b⟩ | ⟨c, _⟩
  · rw [hk] at hk0; cases hk0; exact ⟨k', hk', a, b⟩
  · omega

/-- an old request keeps its outcome and its frame -/
theorem Bfr.fwdR {p q : Pool} (h : Bfr p q) {m : Nat} {r : Req} (hr : p.reqs[m]? = some r) :
    ∃ r', q.reqs[m]? = some r' ∧ r'.outcome = r.outcome ∧ r'.frame = r.frame := by
  have hlt := bw_lt_of_some hr
  obtain ⟨r', hr'⟩ := bw_some_of_lt (Nat.lt_of_lt_of_le hlt h.rl)
  rcases h.rq m r' hr' with ⟨r0, hr0, a, b⟩ | ⟨c, _⟩
  · rw [hr] at hr0; cases hr0; exact ⟨r', hr', a, b⟩
  · omega

theorem Bfr.fwdC {p q : Pool} (h : Bfr p q) {c : Child} {o : Outcome} (hc : coL p.tasks p.reqs c = some o) :
    coL q.tasks q.reqs c = some o := by
  cases c with
  | task t =>
    simp only [coL] at hc ⊢
    cases hk : p.tasks[t]? with
    | none => simp [hk] at hc
    | some k =>
      simp only [hk] at hc
      obtain ⟨k', hk', a, _⟩ := h.fwdT hk
      simp only [hk', a, hc]
  | spawner m =>
    simp only [coL] at hc ⊢
    cases hk : p.reqs[m]? with
    | none => simp [hk] at hc
    | some r =>
      simp only [hk] at hc
      obtain ⟨r', hr', a, _⟩ := h.fwdR hk
      simp only [hr', a, hc]

theorem Bfr.trans {p q r : Pool} (h1 : Bfr p q) (h2 : Bfr q r) : Bfr p r := by
  refine ⟨h2.apis.trans h1.apis, h2.gathers.trans h1.gathers, Nat.le_trans h1.tl h2.tl, ?_, Nat.le_trans h1.rl h2.rl, ?_⟩
  · intro t k'' hk''
    rcases h2.tk t k'' hk'' with ⟨k', hk', a, b⟩ | ⟨c, d⟩
    · rcases h1.tk t k' hk' with ⟨k, hk, a', b'⟩ | ⟨c', d'⟩
      · exact Or.inl ⟨k, hk, a.trans a', b.trans b'⟩
      · exact Or.inr ⟨c', a.trans d'⟩
    · exact Or.inr ⟨Nat.le_trans h1.tl c, d⟩
  · intro m r'' hr''
    rcases h2.rq m r'' hr'' with ⟨r', hr', a, b⟩ | ⟨c, d⟩
    · rcases h1.rq m r' hr' with ⟨r0, hr0, a', b'⟩ | ⟨c', d'⟩
      · exact Or.inl ⟨r0, hr0, a.trans a', b.trans b'⟩
      · exact Or.inr ⟨c', a.trans d'⟩
    · exact Or.inr ⟨Nat.le_trans h1.rl c, d⟩

/-- **transfer**: the walking invariant is carried along the frame relation -/
theorem BlameX.bfr {p q : Pool} (h : BlameX p) (hr : Bfr p q) : BlameX q := by
  refine ⟨?_, ?_, ?_, ?_, ?_, ?_, ?_⟩
  · intro g G e hG ho
    have hG' : p.gathers[g]? = some G := by rw [← hr.gathers]; exact hG
    obtain ⟨c, hc, hco⟩ := h.ge g G e hG' ho
    exact ⟨c, hc, hr.fwdC hco⟩
  · intro g G hG ho
    have hG' : p.gathers[g]? = some G := by rw [← hr.gathers]; exact hG
    obtain ⟨hre, c, hc, hco⟩ := h.gc g G hG' ho
    exact ⟨hre, c, hc, hr.fwdC hco⟩
  · intro a A e hA ho
    have hA' : p.apis[a]? = some A := by rw [← hr.apis]; exact hA
    rcases h.ae a A e hA' ho with ⟨t, k, hk, hko⟩ | ⟨m, r, hm, hro⟩
    · obtain ⟨k', hk', a', _⟩ := hr.fwdT hk
      exact Or.inl ⟨t, k', hk', a'.trans hko⟩
    · obtain ⟨r', hr', a', _⟩ := hr.fwdR hm
      exact Or.inr ⟨m, r', hr', a'.trans hro⟩
  · intro a A hA ho
    have hA' : p.apis[a]? = some A := by rw [← hr.apis]; exact hA
    obtain ⟨t, k, hk, hko⟩ := h.ac a A hA' ho
    obtain ⟨k', hk', a', _⟩ := hr.fwdT hk
    exact ⟨t, k', hk', a'.trans hko⟩
  · intro t k' hk' ho
    rcases hr.tk t k' hk' with ⟨k, hk, a, b⟩ | ⟨_, d⟩
    · rw [b]; exact h.to t k hk (a ▸ ho)
    · rw [d] at ho; cases ho
  · intro m r' hr' ho
    rcases hr.rq m r' hr' with ⟨r, hm, a, b⟩ | ⟨_, d⟩
    · rw [b]; exact h.ro m r hm (a ▸ ho)
    · rw [d] at ho; cases ho
  · intro a A g hA hf
    have hA' : p.apis[a]? = some A := by rw [← hr.apis]; exact hA
    obtain ⟨G, hG, hc⟩ := h.g2 a A g hA' hf
    exact ⟨G, by rw [hr.gathers]; exact hG, hc⟩

/-! ### the two "live" predicates of the walks over the wrapper of a task and over a spawner -/

/-- the invariant holds and the asyncio Task of task `t` is not done (so its record may be rewritten) -/
def BL (p : Pool) (t : Nat) : Prop := BlameX p ∧ ∀ k, p.tasks[t]? = some k → k.outcome = none

/-- the invariant holds and spawner `m` is not done -/
def BM (p : Pool) (m : Nat) : Prop := BlameX p ∧ ∀ r, p.reqs[m]? = some r → r.outcome = none

theorem BL.bfr {p q : Pool} {t : Nat} (h : BL p t) (hr : Bfr p q) : BL q t := by
  refine ⟨h.1.bfr hr, fun k' hk' => ?_⟩
  rcases hr.tk t k' hk' with ⟨k, hk, a, _⟩ | ⟨_, d⟩
  · rw [a]; exact h.2 k hk
  · exact d

theorem BM.bfr {p q : Pool} {m : Nat} (h : BM p m) (hr : Bfr p q) : BM q m := by
  refine ⟨h.1.bfr hr, fun r' hr' => ?_⟩
  rcases hr.rq m r' hr' with ⟨r, hm, a, _⟩ | ⟨_, d⟩
  · rw [a]; exact h.2 r hm
  · exact d

/-! ### primitives of the frame walk (continuation form) -/

/-- a record update that keeps `tasks`, `reqs`, `apis`, `gathers`: `simp only [bfr_mk]` strips it -/
theorem bfr_mk (p0 x : Pool) (simple : Option SpawnSpec) (startCalls : Nat) (sem : Sem) (locked closed : Bool)
    (groups : List (String × List Nat)) (running cancelledR ended metaCancelled : List Nat)
    (closedWaiters : List Nat) (emit : List Ref) (log : List Ev)
    (names : List String) (orders : List (List Nat)) (ambiguous lost resized : Bool) :
    Bfr p0 { simple := simple, startCalls := startCalls, sem := sem, locked := locked, closed := closed, tasks := x.tasks,
             reqs := x.reqs, groups := groups, running := running, cancelledR := cancelledR, ended := ended,
             metaCancelled := metaCancelled, apis := x.apis, gathers := x.gathers, closedWaiters := closedWaiters, emit := emit,
             log := log, names := names, orders := orders, ambiguous := ambiguous, lost := lost, resized := resized } ↔
    Bfr p0 x := Iff.rfl

theorem Bfr.of_eq {p0 p q : Pool} (h : Bfr p0 p) (ht : q.tasks = p.tasks) (hr : q.reqs = p.reqs) (ha : q.apis = p.apis)
    (hg : q.gathers = p.gathers) : Bfr p0 q := by
  unfold Bfr at h ⊢
  rw [ht, hr, ha, hg]; exact h

theorem bfr_modTask {p0 : Pool} (p : Pool) (t : Nat) (f : PTask → PTask)
    (hf : ∀ k, (f k).outcome = k.outcome ∧ (f k).phase = k.phase) (h : Bfr p0 p) : Bfr p0 (p.modTask t f) := by
  refine h.trans ⟨rfl, rfl, by simp [modTask], ?_, Nat.le_refl _, fun _ r' hr => Or.inl ⟨r', hr, rfl, rfl⟩⟩
  intro i k' hk'
  obtain ⟨x, hx, e⟩ := getElem?_modify_some _ _ _ _ _ hk'
  refine Or.inl ⟨x, hx, ?_⟩
  subst e
  split
  · exact hf x
  · exact ⟨rfl, rfl⟩

theorem bfr_modReq {p0 : Pool} (p : Pool) (m : Nat) (f : Req → Req)
    (hf : ∀ r, (f r).outcome = r.outcome ∧ (f r).frame = r.frame) (h : Bfr p0 p) : Bfr p0 (p.modReq m f) := by
  refine h.trans ⟨rfl, rfl, Nat.le_refl _, fun _ k' hk => Or.inl ⟨k', hk, rfl, rfl⟩, by simp [modReq], ?_⟩
  intro i r' hr'
  obtain ⟨x, hx, e⟩ := getElem?_modify_some _ _ _ _ _ hr'
  refine Or.inl ⟨x, hx, ?_⟩
  subst e
  split
  · exact hf x
  · exact ⟨rfl, rfl⟩

/-- every request is rewritten by `f` -/
theorem Bfr.mapReqs {p0 p q : Pool} (h : Bfr p0 p) (f : Req → Req)
    (hf : ∀ r, (f r).outcome = r.outcome ∧ (f r).frame = r.frame) (ht : q.tasks = p.tasks) (hr : q.reqs = p.reqs.map f)
    (ha : q.apis = p.apis) (hg : q.gathers = p.gathers) : Bfr p0 q := by
  refine h.trans ⟨ha, hg, by rw [ht]; exact Nat.le_refl _, fun _ k' hk => Or.inl ⟨k', by rw [← ht]; exact hk, rfl, rfl⟩,
    by rw [hr]; simp, ?_⟩
  intro i r' hr'
  rw [hr, List.getElem?_map] at hr'
  cases hx : p.reqs[i]? with
  | none => simp [hx] at hr'
  | some x =>
    simp [hx] at hr'
    subst hr'
    exact Or.inl ⟨x, rfl, hf x⟩

theorem bw_append_get {α} {l : List α} {a x : α} {i : Nat} (h : (l ++ [a])[i]? = some x) :
    l[i]? = some x ∨ (i = l.length ∧ x = a) := by
  rcases Nat.lt_or_ge i l.length with c | c
  · rw [List.getElem?_append_left c] at h; exact Or.inl h
  · rw [List.getElem?_append_right c] at h
    cases hi : i - l.length with
    | zero => rw [hi] at h; simp at h; exact Or.inr ⟨by omega, h.symm⟩
    | succ n => rw [hi] at h; simp at h

/-- a new request, not done -/
theorem Bfr.appendReq {p0 p q : Pool} (h : Bfr p0 p) (r : Req) (ho : r.outcome = none) (ht : q.tasks = p.tasks)
    (hr : q.reqs = p.reqs ++ [r]) (ha : q.apis = p.apis) (hg : q.gathers = p.gathers) : Bfr p0 q := by
  refine h.trans ⟨ha, hg, by rw [ht]; exact Nat.le_refl _, fun _ k' hk => Or.inl ⟨k', by rw [← ht]; exact hk, rfl, rfl⟩,
    by rw [hr]; simp, ?_⟩
  intro i r' hr'
  rw [hr] at hr'
  rcases bw_append_get hr' with hx | ⟨e1, e2⟩
  · exact Or.inl ⟨r', hx, rfl, rfl⟩
  · subst e2; exact Or.inr ⟨by omega, ho⟩

/-- a new task, not done -/
theorem Bfr.appendTask {p0 p q : Pool} (h : Bfr p0 p) (k : PTask) (ho : k.outcome = none) (ht : q.tasks = p.tasks ++ [k])
    (hr : q.reqs = p.reqs) (ha : q.apis = p.apis) (hg : q.gathers = p.gathers) : Bfr p0 q := by
  refine h.trans ⟨ha, hg, by rw [ht]; simp, ?_, by rw [hr]; exact Nat.le_refl _,
    fun _ r' hx => Or.inl ⟨r', by rw [← hr]; exact hx, rfl, rfl⟩⟩
  intro i k' hk'
  rw [ht] at hk'
  rcases bw_append_get hk' with hx | ⟨e1, e2⟩
  · exact Or.inl ⟨k', hx, rfl, rfl⟩
  · subst e2; exact Or.inr ⟨by omega, ho⟩

theorem snapReq_keepsB (x : Req) : (snapReq x).outcome = x.outcome ∧ (snapReq x).frame = x.frame := by
  unfold snapReq
  split <;> exact ⟨rfl, rfl⟩

/-- side goals "`f` keeps outcome and phase / frame" for the rewrites the model uses -/
macro "bfr_keeps" : tactic =>
  `(tactic| first
    | exact fun _ => ⟨rfl, rfl⟩
    | exact fun _ => ⟨trivial, trivial⟩
    | exact fun _ => snapReq_keepsB _
    | (intro x; dsimp only; split <;> exact ⟨rfl, rfl⟩))

open Lean in
/-- backward chaining through the given step lemmas, splitting `if` / `match` where stuck -/
macro "bfw" "[" ls:term,* "]" : tactic => do
  let alts ← ls.getElems.mapM fun l => `(tactic| with_reducible apply $l)
  `(tactic| repeat' (first | with_reducible assumption $[| $alts:tactic]* | simp only [bfr_mk] | bfr_keeps | split | dsimp only | assumption))

/-! ### plumbing -/

theorem bfr_emitRef {p0 : Pool} (p : Pool) (r : Ref) (h : Bfr p0 p) : Bfr p0 (p.emitRef r) := h
theorem bfr_logEv {p0 : Pool} (p : Pool) (e : Ev) (h : Bfr p0 p) : Bfr p0 (p.logEv e) := h

theorem bfr_foldl {p0 : Pool} {α} (f : Pool → α → Pool) (hf : ∀ p a, Bfr p0 p → Bfr p0 (f p a)) (l : List α) (p : Pool)
    (h : Bfr p0 p) : Bfr p0 (l.foldl f p) := by
  induction l generalizing p with
  | nil => exact h
  | cons a as ih => exact ih _ (hf p a h)

theorem bfr_schedTask {p0 : Pool} (p : Pool) (t : Nat) (h : Bfr p0 p) : Bfr p0 (p.schedTask t) := by
  unfold schedTask
  bfw [bfr_emitRef, bfr_modTask]

theorem bfr_schedMeta {p0 : Pool} (p : Pool) (m : Nat) (h : Bfr p0 p) : Bfr p0 (p.schedMeta m) := by
  unfold schedMeta
  bfw [bfr_emitRef, bfr_modReq]

theorem bfr_schedOpt {p0 : Pool} (p : Pool) (o : Option Nat) (h : Bfr p0 p) : Bfr p0 (p.schedOpt o) := by
  unfold schedOpt
  bfw [bfr_schedMeta]

theorem bfr_emitChildren {p0 : Pool} (p : Pool) (cbs : List (Nat × Nat)) (h : Bfr p0 p) : Bfr p0 (p.emitChildren cbs) :=
  bfr_foldl _ (fun p _ h => bfr_emitRef p _ h) cbs p h

theorem bfr_releasePool {p0 : Pool} (p : Pool) (h : Bfr p0 p) : Bfr p0 p.releasePool := by
  unfold releasePool
  bfw [bfr_schedOpt]

theorem bfr_releaseMap {p0 : Pool} (p : Pool) (m : Nat) (h : Bfr p0 p) : Bfr p0 (p.releaseMap m) := by
  unfold releaseMap
  bfw [bfr_schedOpt, bfr_modReq]

theorem bfr_taskCancel {p0 : Pool} (p : Pool) (t : Nat) (h : Bfr p0 p) : Bfr p0 (p.taskCancel t) := by
  unfold taskCancel
  bfw [bfr_schedTask, bfr_modTask]

theorem bfr_cancelTask {p0 : Pool} (p : Pool) (t : Nat) (h : Bfr p0 p) : Bfr p0 (p.cancelTask t) := by
  unfold cancelTask
  bfw [bfr_taskCancel, bfr_modTask]

theorem bfr_metaCancel {p0 : Pool} (p : Pool) (m : Nat) (h : Bfr p0 p) : Bfr p0 (p.metaCancel m) := by
  unfold metaCancel
  bfw [bfr_schedMeta, bfr_modReq]

/-- the plumbing lemmas, plus the ones given -/
macro "bf1" "[" ls:term,* "]" : tactic =>
  `(tactic| bfw [bfr_modTask, bfr_emitRef, bfr_logEv, bfr_modReq, bfr_schedTask,
    bfr_schedMeta, bfr_schedOpt, bfr_emitChildren, bfr_releasePool, bfr_releaseMap, bfr_taskCancel,
    bfr_cancelTask, bfr_metaCancel, $ls,*])

/-! ### synchronous API -/

theorem bfr_register {p0 : Pool} (p : Pool) (r : Req) (hr : r.outcome = none) (h : Bfr p0 p) : Bfr p0 (p.register r) :=
  h.appendReq r hr rfl rfl rfl rfl

theorem bfr_doApply {p0 : Pool} (p : Pool) (num : Int) (group : Option String) (sp : SpawnSpec) (h : Bfr p0 p) :
    Bfr p0 (p.doApply num group sp).1 := by
  unfold doApply
  bf1 [bfr_register]
  all_goals rfl

theorem bfr_doMap {p0 : Pool} (p : Pool) (stars : Nat) (items : List Item) (nc : Int) (group : Option String) (sp : SpawnSpec)
    (h : Bfr p0 p) : Bfr p0 (p.doMap stars items nc group sp).1 := by
  unfold doMap
  bf1 [bfr_register]
  all_goals rfl

theorem bfr_doStart {p0 : Pool} (p : Pool) (num : Int) (h : Bfr p0 p) : Bfr p0 (p.doStart num).1 := by
  unfold doStart
  split
  · exact h
  · split
    · exact h
    · exact bfr_register _ _ rfl (h.of_eq rfl rfl rfl rfl)

theorem bfr_doCancel {p0 : Pool} (p : Pool) (ids : List Int) (h : Bfr p0 p) : Bfr p0 (p.doCancel ids).1 := by
  unfold doCancel
  split
  · exact h
  · exact bfr_foldl _ (fun p _ h => bfr_cancelTask p _ h) ids p h

theorem bfr_doStop {p0 : Pool} (p : Pool) (n : Int) (h : Bfr p0 p) : Bfr p0 (p.doStop n).1 := by
  unfold doStop
  split
  · exact h
  · exact bfr_doCancel p _ h

theorem bfr_popOrder {p0 : Pool} (p : Pool) (h : Bfr p0 p) : Bfr p0 p.popOrder.1 := by
  unfold popOrder
  split
  · exact h
  · exact h.of_eq rfl rfl rfl rfl

theorem bfr_cancelGroupMetas {p0 : Pool} (p : Pool) (g : String) (h : Bfr p0 p) : Bfr p0 (p.cancelGroupMetas g) := by
  unfold cancelGroupMetas
  refine Bfr.mapReqs (bfr_foldl _ (fun p m h => bfr_metaCancel p m h) _ p h) _ ?_ rfl rfl rfl rfl
  intro r; split <;> exact ⟨rfl, rfl⟩

theorem bfr_cancelGroupBody {p0 : Pool} (p : Pool) (g : String) (ids order : List Nat) (h : Bfr p0 p) (q : Pool)
    (e : p.cancelGroupBody g ids order = some q) : Bfr p0 q := by
  unfold cancelGroupBody at e
  dsimp only at e
  split at e
  · cases e
  · cases e
    exact bfr_foldl _ (fun p t h => bfr_cancelTask p t h) _ _ (bfr_cancelGroupMetas p g h)

theorem bfr_doCancelGroup {p0 : Pool} (p : Pool) (g : String) (h : Bfr p0 p) : Bfr p0 (p.doCancelGroup g).1 := by
  unfold doCancelGroup
  split
  · exact h
  · dsimp only
    split
    · exact h
    · rename_i p2 e
      refine bfr_cancelGroupBody _ g _ _ ?_ p2 e
      exact (bfr_popOrder p h).of_eq rfl rfl rfl rfl

theorem bfr_cancelAllLoop {p0 : Pool} (gs : List (String × List Nat)) (order : List Nat) (p : Pool) (h : Bfr p0 p) (q : Pool)
    (e : cancelAllLoop gs order p = some q) : Bfr p0 q := by
  induction gs generalizing p with
  | nil => unfold cancelAllLoop at e; cases e; exact h
  | cons x xs ih =>
    obtain ⟨g, ids⟩ := x
    unfold cancelAllLoop at e
    split at e
    · cases e
    · rename_i p1 e1
      exact ih p1 (bfr_cancelGroupBody p g ids order h p1 e1) e

theorem bfr_doCancelAll {p0 : Pool} (p : Pool) (h : Bfr p0 p) : Bfr p0 p.doCancelAll.1 := by
  unfold doCancelAll
  dsimp only
  split
  · exact h
  · rename_i p2 e
    refine bfr_cancelAllLoop _ _ _ ?_ p2 e
    exact (bfr_popOrder p h).of_eq rfl rfl rfl rfl

theorem bfr_doSetSize {p0 : Pool} (p : Pool) (v : Int) (h : Bfr p0 p) : Bfr p0 (p.doSetSize v).1 := by
  unfold doSetSize
  split
  · exact h
  · exact h.of_eq rfl rfl rfl rfl

theorem bfr_doHook {p0 : Pool} (p : Pool) (ctx : Nat) (o : HookOp) (h : Bfr p0 p) : Bfr p0 (p.doHook ctx o).1 := by
  unfold doHook
  bf1 [bfr_doCancel, bfr_doCancelGroup, bfr_doCancelAll, bfr_doStop, bfr_doApply]

theorem bfr_runHooks {p0 : Pool} (p : Pool) (ctx : Nat) (hs : List HookOp) (h : Bfr p0 p) : Bfr p0 (p.runHooks ctx hs) :=
  bfr_foldl _ (fun p o h => bfr_logEv _ _ (bfr_doHook p ctx o h)) hs p h

theorem bfr_doGate {p0 : Pool} (p : Pool) (t : Nat) (o : FutSt) (h : Bfr p0 p) : Bfr p0 (p.doGate t o).1 := by
  unfold doGate
  bf1 []

theorem bfr_registerChild {p0 : Pool} (p : Pool) (c : Child) (g i : Nat) (h : Bfr p0 p) : Bfr p0 (p.registerChild c g i) := by
  unfold registerChild
  bf1 []

/-! ### a spawner creates a task -/

theorem bfr_createTask {p0 : Pool} (p : Pool) (m : Nat) (isMap : Bool) (h : Bfr p0 p) : Bfr p0 (p.createTask m isMap) := by
  unfold createTask
  dsimp only
  refine bfr_emitRef _ _ (bfr_modReq _ _ _ (fun _ => ⟨rfl, rfl⟩) ?_)
  exact h.appendTask _ rfl rfl rfl rfl rfl

theorem bfr_takeSlotAndCreate {p0 : Pool} (p : Pool) (m : Nat) (isMap : Bool) (h : Bfr p0 p) :
    Bfr p0 (p.takeSlotAndCreate m isMap) := by
  unfold takeSlotAndCreate
  exact bfr_createTask _ m isMap (h.of_eq rfl rfl rfl rfl)

end Pool
end Taskpool
