import Taskpool.Inv.SealWalk
import Taskpool.Inv.GatherSpawners
import Taskpool.Inv.Mono
/-! **Pools that nobody unlocks**: the strict invariant (no task is ever lost) for every history without `unlock()` and
without assignment to `pool_size` — `gather_and_close()` included, in any number, overlapping with anything.

`SealedC c p` = `Good c.size0 false true p` (slot conservation against the configured size, registries complete,
`lost = false`, …) ∧ `Want p` ∧ `Seal p`.  The three parts need each other: the closing stage of `gather_and_close`
preserves `lost = false` because (`SealOK.g2`) its second gather has every filed task among its children; `Seal` is
preserved because (`Good`) the registries mean what they say and (`Want`) the waiter queues are duplicate-free; and the
step from the first to the second gather needs a fact about the loop's ready queue — every spawner child of a completed
collecting gather has finished (`World.spawnersWaited_run`, from the counting invariant of the gathers) — which is why
the lifting is done here over worlds and not through `PoolInvariant`. -/
namespace Taskpool

/-- what the theorems about sealed pools admit: no `unlock()` (caller or user code), no assignment to `pool_size` -/
def Op.sealOk (o : Op) : Bool := o.noUnlock && !o.isSetSize

def WOp.sealOk : WOp → Bool
  | .mkpool _ simple _ => mkNoUnlock simple
  | .on _ _ op => op.sealOk
  | .run _ _ => true

def SealedC (c : Cfg) (p : Pool) : Prop := Good c.size0 false true p ∧ Pool.Want p ∧ Pool.Seal p

/-- every variant of `Good` implies the laxest one -/
theorem Good.lax {cap : Cap} {L R : Bool} {p : Pool} (h : Good cap L R p) : Good cap true false p :=
  ⟨⟨h.slot, h.phase, h.reg, h.grp, h.life, h.fl, h.wk, fun e => Bool.noConfusion e, fun e => Bool.noConfusion e,
    fun e => Bool.noConfusion e⟩, h.map, h.acc, h.canc⟩

theorem Pool.Seal.gacAwaitsAll {p : Pool} (h : Pool.Seal p) : Pool.GacAwaitsAll p :=
  fun a A g hA hk hf => (h.g2 a A g hA hk hf).2

theorem sealedC_init (c : Cfg) (simple : Option SpawnSpec) (hs : c.isSimple = simple.isSome)
    (hm : mkNoUnlock simple = true) : SealedC c (Pool.init c.size0 simple) :=
  ⟨good_init c.size0 false true simple, Pool.want_init c.size0 simple, Pool.seal_init c.size0 simple hm⟩

theorem sealedC_op (c : Cfg) (p : Pool) (orders : List (List Nat)) (o : Op) (ho : o.sealOk = true) (h : SealedC c p) :
    SealedC c (({ p with orders := orders } : Pool).applyOp o).1 := by
  obtain ⟨hg, hw, hs⟩ := h
  simp only [Op.sealOk, Bool.and_eq_true, Bool.not_eq_true'] at ho
  have hg1 : Good c.size0 false true ({ p with orders := orders } : Pool) := (Pool.tame_setOrders p orders).good hg
  have hw1 : Pool.Want ({ p with orders := orders } : Pool) :=
    ⟨hw.tq, hw.tw, hw.rs, hw.pn, hw.pw, hw.pe, hw.mn, hw.mw, hw.me, hw.od, hw.ce⟩
  exact ⟨Pool.good_applyOp _ o ho.2 (fun _ e => Bool.noConfusion e) hg1, Pool.want_applyOp p orders o hw,
    Pool.seal_applyOp _ o ho.1 hg1.lax hw1 (Pool.seal_orders p orders hs)⟩

theorem sealedC_run (c : Cfg) (p : Pool) (orders : List (List Nat)) (r : Ref) (h : SealedC c p)
    (h0 : p.SpawnersWaited)
    (h1 : ∀ a re, ((({ p with orders := orders } : Pool).modApi a fun x => { x with sched := false }).gacStage1Pre a re).1.SpawnersWaited) :
    SealedC c (({ p with orders := orders } : Pool).runRef r) := by
  obtain ⟨hg, hw, hs⟩ := h
  have hg1 : Good c.size0 false true ({ p with orders := orders } : Pool) := (Pool.tame_setOrders p orders).good hg
  have hs1 := Pool.seal_orders p orders hs
  have hw1 : Pool.Want ({ p with orders := orders } : Pool) :=
    ⟨hw.tq, hw.tw, hw.rs, hw.pn, hw.pw, hw.pe, hw.mn, hw.mw, hw.me, hw.od, hw.ce⟩
  exact ⟨Pool.good_runRef _ r hg1 (fun _ _ => hs1.gacAwaitsAll), Pool.want_runRef p orders r hw,
    Pool.seal_runRef _ r hg1.lax hw1 hs1 (fun g G hG => h0 g G hG) h1⟩

theorem sealedC_drain (c : Cfg) (p : Pool) (h : SealedC c p) : SealedC c { p with emit := [] } :=
  ⟨(tame_of_eq p { p with emit := [] } rfl rfl).good h.1, Pool.want_drain p h.2.1, Pool.seal_drain p h.2.2⟩

/-- one input of a world all of whose pools are sealed; `hsw`: the world-level fact about completed gathers -/
theorem World.sealed_next (w : World) (x : WOp) (hx : x.sealOk = true) (hw : w.All SealedC)
    (hsw : ∀ (i : Nat) (p : Pool), w.pools[i]? = some p → p.SpawnersWaited ∧ ∀ orders a re,
      ((({ p with orders := orders } : Pool).modApi a fun x => { x with sched := false }).gacStage1Pre a re).1.SpawnersWaited) :
    (w.next x).All SealedC := by
  have hstep : (w.step x).1.All SealedC := by
    cases x with
    | mkpool size simple name =>
      simp only [World.step, World.mkpool]
      split
      · exact hw
      · split
        · exact ⟨hw.len, hw.inv⟩
        · refine ⟨by simp [hw.len], ?_⟩
          intro i c p hc hp
          simp only at hc hp
          rw [List.getElem?_append] at hc hp
          split at hp
          · rename_i hlt
            rw [if_pos (by rw [hw.len]; exact hlt)] at hc
            exact hw.inv i c p hc hp
          · rename_i hge
            rw [if_neg (by rw [hw.len]; exact hge)] at hc
            rw [hw.len] at hc
            cases hi : i - w.pools.length with
            | zero =>
              rw [hi] at hc hp
              simp at hc hp
              subst hc; subst hp
              exact sealedC_init _ simple rfl hx
            | succ n => rw [hi] at hp; simp at hp
    | on i orders op =>
      simp only [World.step]
      split
      · exact hw
      · rename_i p hp
        exact hw.set i p _ hp (fun c hc => sealedC_op c p orders op hx (hw.inv i c p hc hp)) _ rfl rfl
    | run k orders =>
      simp only [World.step]
      split
      · exact hw
      · split
        · exact ⟨hw.len, hw.inv⟩
        · rename_i i r _ p hp
          exact hw.set _ p _ hp (fun c hc => sealedC_run c p orders _ (hw.inv _ c p hc hp) (hsw _ p hp).1
            (fun a re => (hsw _ p hp).2 orders a re)) _ rfl rfl
  show (w.step x).1.drain.All SealedC
  refine ⟨by simp [World.drain, hstep.len], ?_⟩
  intro i c p hc hp
  simp only [World.drain, List.getElem?_map] at hc hp
  cases hq : (w.step x).1.pools[i]? with
  | none => simp [hq] at hp
  | some q =>
    simp [hq] at hp
    subst hp
    exact sealedC_drain c q (hstep.inv i c q hc hq)

/-- **every pool of every world reachable without `unlock()` and without assignment to `pool_size`** is sealed -/
theorem World.sealed_run (base : Nat) (h : History) (hh : ∀ x ∈ h, x.sealOk = true) :
    ((World.init base).run h).All SealedC := by
  have key : ∀ (suf pre : History), ((World.init base).run pre).All SealedC → (∀ x ∈ suf, x.sealOk = true) →
      ((World.init base).run (pre ++ suf)).All SealedC := by
    intro suf
    induction suf with
    | nil => intro pre hp _; simpa using hp
    | cons x xs ih =>
      intro pre hp hx
      have e : pre ++ x :: xs = (pre ++ [x]) ++ xs := by simp
      rw [e]
      refine ih (pre ++ [x]) ?_ (fun y hy => hx y (by simp [hy]))
      rw [World.run_append]
      show (((World.init base).run pre).next x).All SealedC
      exact World.sealed_next _ x (hx x (by simp)) hp (fun i p hq =>
        ⟨World.spawnersWaited_run base pre i p hq, fun orders a re => World.spawnersWaited_stage1 base pre i p hq orders a re⟩)
  simpa using key h [] (World.all_init SealedC base) hh

/-- **no task is ever lost** in a history without `unlock()` and without assignment to `pool_size` — with any number of
`gather_and_close()` and `flush()` calls, overlapping in any way -/
theorem sealedAll (base : Nat) (h : History) (hh : ∀ x ∈ h, x.sealOk = true) (i : Nat) (c : Cfg) (p : Pool)
    (hc : ((World.init base).run h).cfgs[i]? = some c) (hp : ((World.init base).run h).pools[i]? = some p) :
    p.lost = false ∧ RegOK p ∧ LifeOK p ∧ Pool.Seal p := by
  obtain ⟨hg, _, hs⟩ := (World.sealed_run base h hh).inv i c p hc hp
  exact ⟨hg.ll rfl, hg.reg, hg.life, hs⟩

end Taskpool
