import Taskpool.Inv.WantWalk
/-! **Whoever has something to do is flagged — the walk, part 2.**  The wrapper of a pool task (`completeTask` …
`stepTask`) with that task exempt, the spawners (`finishMeta` … `stepMeta`) with that spawner exempt, and the assembly:
`want_init`, `want_applyOp`, `want_runRef`, `want_drain`, `wantInvariant`. -/
namespace Taskpool
namespace Pool

/-- nobody exempt: the state between two steps -/
abbrev WK0 (p : Pool) : Prop := WK (fun _ => False) p

/-- the task whose handle is being run -/
abbrev ET (t : Nat) : Ref → Prop := fun x => x = Ref.task t
/-- the spawner whose handle is being run -/
abbrev ES (m : Nat) : Ref → Prop := fun x => x = Ref.spawner m

/-! ### the wrapper of a pool task -/

theorem modTask_self_some {p : Pool} {t : Nat} {f : PTask → PTask} {k : PTask}
    (h : (p.modTask t f).tasks[t]? = some k) : ∃ k0, p.tasks[t]? = some k0 ∧ k = f k0 := by
  obtain ⟨k0, hk0⟩ := getElem?_some_of_length_eq (l := (p.modTask t f).tasks) (l' := p.tasks) (by simp [modTask]) h
  have e := modify_some hk0 h
  rw [if_pos rfl] at e
  exact ⟨k0, hk0, e⟩

/-- the last change to the task whose handle is being run: afterwards it satisfies its clauses again -/
theorem wk0_modTask_close {p : Pool} {t : Nat} (h : WK (ET t) p) (f : PTask → PTask)
    (hf : ∀ k, p.tasks[t]? = some k → TG (f k)) : WK0 (p.modTask t f) := by
  refine (wk_close_task (wk_modTask_ex h t f rfl) ?_).wk
  intro k hk
  obtain ⟨k0, hk0, rfl⟩ := modTask_self_some hk
  exact hf k0 hk0

theorem wk0_of_none {p : Pool} {t : Nat} (h : WK (ET t) p) (hn : p.tasks[t]? = none) : WK0 p :=
  (wk_close_task h (fun k hk => by rw [hn] at hk; cases hk)).wk

theorem wk0_completeTask {p : Pool} {t : Nat} (h : WK (ET t) p) (o : Outcome) : WK0 (p.completeTask t o) := by
  unfold completeTask
  split
  · rename_i hn; exact wk0_of_none h hn
  · refine wk_emitChildren (wk0_modTask_close h _ ?_) _
    intro k _
    exact ⟨fun hq => by simp [PTask.quiet] at hq, by simp, fun _ => rfl⟩

theorem wk0_finishTask {p : Pool} {t : Nat} (h : WK (ET t) p) : WK0 (p.finishTask t) := by
  unfold finishTask
  split
  · rename_i hn; exact wk0_of_none h hn
  · exact wk0_completeTask h _

/-- a phase in which the wrapper is suspended on a future of the environment -/
def Susp (ph : Phase) : Prop := ph = .inWorker ∨ ph = .inCancelCb ∨ ph = .inEndCb

theorem wk0_suspendTask {p : Pool} {t : Nat} (h : WK (ET t) p) (ph : Phase) (hph : Susp ph) :
    WK0 (p.suspendTask t ph) := by
  unfold suspendTask
  split
  · rename_i hn; exact wk0_of_none h hn
  · split
    · rw [modTask_schedTask]
      refine wk_emitRef (wk0_modTask_close h _ ?_) _
      intro k _
      refine ⟨fun _ => rfl, ?_, ?_⟩
      · show ph ≠ .wrapUp
        rcases hph with e | e | e <;> rw [e] <;> simp
      · show ph = .finished → _
        rcases hph with e | e | e <;> rw [e] <;> simp
    · refine wk0_modTask_close h _ ?_
      intro k _
      refine ⟨fun hq => ?_, ?_, ?_⟩
      · rcases hph with e | e | e <;> simp [PTask.quiet, e] at hq
      · show ph ≠ .wrapUp
        rcases hph with e | e | e <;> rw [e] <;> simp
      · show ph = .finished → _
        rcases hph with e | e | e <;> rw [e] <;> simp

theorem wk_cbBegin {p : Pool} {t : Nat} (h : WK (ET t) p) (tk : PTask) (isEnd : Bool) :
    WK (ET t) (p.cbBegin t tk isEnd) := by
  unfold cbBegin
  simp only
  exact wk_runHooks (wk_logEv (wk_modTask_ex h t _ rfl) _) _ _

/-- a user callback: either the wrapper is suspended inside it (and the step is over), or it goes on -/
theorem wk_runCb {p : Pool} {t : Nat} (h : WK (ET t) p) (tk : PTask) (isEnd : Bool) :
    ((p.runCb t tk isEnd).2 = true → WK0 (p.runCb t tk isEnd).1) ∧
    ((p.runCb t tk isEnd).2 = false → WK (ET t) (p.runCb t tk isEnd).1) := by
  unfold runCb
  split
  · exact ⟨fun e => (by cases e), fun _ => h⟩
  · exact ⟨fun e => (by cases e), fun _ => wk_logEv (wk_cbBegin h tk isEnd) _⟩
  · exact ⟨fun e => (by cases e), fun _ => wk_modTask_ex (wk_logEv (wk_cbBegin h tk isEnd) _) t _ rfl⟩
  · refine ⟨fun _ => wk0_suspendTask (wk_cbBegin h tk isEnd) _ ?_, fun e => by cases e⟩
    cases isEnd
    · exact Or.inr (Or.inl rfl)
    · exact Or.inr (Or.inr rfl)

theorem wk_moveToEnded {E : Ref → Prop} {p : Pool} (h : WK E p) (t : Nat) (q : Pool) (hq : p.moveToEnded t = some q) :
    WK E q := by
  unfold moveToEnded at hq
  split at hq
  · simp only [Option.some.injEq] at hq; subst hq; exact wk_of_eq h rfl rfl rfl
  · split at hq
    · simp only [Option.some.injEq] at hq; subst hq; exact wk_of_eq h rfl rfl rfl
    · cases hq

theorem wk_releaseMapSlot {p : Pool} {t : Nat} (h : WK (ET t) p) (tk : PTask) : WK (ET t) (p.releaseMapSlot t tk) := by
  unfold releaseMapSlot
  split
  · exact wk_modTask_ex (wk_releaseMap h _) t _ rfl
  · exact h

theorem wk0_endCallback {p : Pool} {t : Nat} (h : WK (ET t) p) (tk : PTask) : WK0 (p.endCallback t tk) := by
  unfold endCallback
  simp only
  have hr := wk_runCb (wk_releaseMapSlot h tk) tk true
  split
  · rename_i c; exact hr.1 c
  · rename_i c; exact wk0_finishTask (hr.2 (by simpa using c))

theorem wk0_endingTail {p : Pool} {t : Nat} (h : WK (ET t) p) (tk : PTask) : WK0 (p.endingTail t tk) := by
  unfold endingTail
  exact wk0_endCallback (wk_modTask_ex (wk_releasePool h) t _ rfl) tk

theorem wk0_keyErrorFinish {p : Pool} {t : Nat} (h : WK (ET t) p) : WK0 (p.keyErrorFinish t) := by
  unfold keyErrorFinish
  exact wk0_finishTask (wk_modTask_ex (wk_of_eq h (by rfl) (by rfl) (by rfl)) t _ rfl)

theorem wk0_taskEnding {p : Pool} {t : Nat} (h : WK (ET t) p) : WK0 (p.taskEnding t) := by
  unfold taskEnding
  split
  · rename_i hn; exact wk0_of_none h hn
  · split
    · exact wk0_keyErrorFinish h
    · rename_i p1 hm
      exact wk0_endingTail (wk_moveToEnded h t p1 hm) _

theorem wk0_cancelCallback {p : Pool} {t : Nat} (h : WK (ET t) p) (tk : PTask) : WK0 (p.cancelCallback t tk) := by
  unfold cancelCallback
  simp only
  have hr := wk_runCb h tk false
  split
  · rename_i c; exact hr.1 c
  · rename_i c; exact wk0_taskEnding (hr.2 (by simpa using c))

theorem wk0_taskCancellation {p : Pool} {t : Nat} (h : WK (ET t) p) (tk : PTask) :
    WK0 (p.taskCancellation t tk) := by
  unfold taskCancellation
  split
  · exact wk0_cancelCallback (wk_modTask_ex (wk_of_eq h (by rfl) (by rfl) (by rfl)) t _ rfl) tk
  · exact wk0_taskEnding (wk_modTask_ex (wk_of_eq h (by rfl) (by rfl) (by rfl)) t _ rfl)

theorem wk0_afterWorker {p : Pool} {t : Nat} (h : WK (ET t) p) (e : Option Err) : WK0 (p.afterWorker t e) := by
  unfold afterWorker
  split
  · exact wk0_taskEnding (wk_modTask_ex (wk_logEv h _) t _ rfl)
  · exact wk0_taskEnding (wk_modTask_ex (wk_logEv h _) t _ rfl)

theorem wk0_stepCreated {p : Pool} {t : Nat} (h : WK (ET t) p) (tk : PTask) : WK0 (p.stepCreated t tk) := by
  unfold stepCreated
  split
  · exact wk0_taskCancellation (wk_modTask_ex h t _ rfl) tk
  · simp only
    have h0 : WK (ET t) (((p.logEv (.started t tk.arg)).modTask t fun k => { k with phase := .inWorker, fut := .ok, unstarted := false }).runHooks tk.req (p.reqOf tk).hooks.start) :=
      wk_runHooks (wk_modTask_ex (wk_logEv h _) t _ rfl) _ _
    split
    · exact wk0_afterWorker h0 _
    · exact wk0_afterWorker h0 _
    · exact wk0_suspendTask h0 _ (Or.inl rfl)

theorem wk0_workerCancelled {p : Pool} {t : Nat} (h : WK (ET t) p) (tk : PTask) : WK0 (p.workerCancelled t tk) := by
  unfold workerCancelled
  split
  · exact wk0_suspendTask (wk_modTask_ex (wk_logEv h _) t _ rfl) _ (Or.inl rfl)
  · simp only
    have h0 : WK (ET t) ((p.logEv (.sawCancel t)).modTask t fun k => { k with sawCancel := true, phase := .wrapUp, nSaw := k.nSaw + 1 }) :=
      wk_modTask_ex (wk_logEv h _) t _ rfl
    split
    · exact wk0_afterWorker h0 _
    · exact wk0_taskCancellation h0 tk

/-- the task as it is filed in the pool while its handle runs: the record read at the start, flag cleared -/
theorem wk0_still_quiet {p : Pool} {t : Nat} (h : WK (ET t) p) (tk : PTask)
    (hk : p.tasks[t]? = some { tk with sched := false }) (hph : Susp tk.phase) (hf : tk.fut = .pending) : WK0 p := by
  refine (wk_close_task h ?_).wk
  intro k hk'
  rw [hk] at hk'; cases hk'
  refine ⟨fun hq => ?_, ?_, ?_⟩
  · rcases hph with e | e | e <;> simp [PTask.quiet, e, hf] at hq
  · show tk.phase ≠ .wrapUp
    rcases hph with e | e | e <;> rw [e] <;> simp
  · show tk.phase = .finished → _
    rcases hph with e | e | e <;> rw [e] <;> simp

theorem wk0_stepInWorker {p : Pool} {t : Nat} (h : WK (ET t) p) (tk : PTask)
    (hk : p.tasks[t]? = some { tk with sched := false }) (hph : tk.phase = .inWorker) : WK0 (p.stepInWorker t tk) := by
  unfold stepInWorker
  split
  · exact wk0_workerCancelled (wk_modTask_ex h t _ rfl) tk
  · rename_i hc
    split
    · exact wk0_afterWorker h _
    · exact wk0_afterWorker h _
    · rename_i h1 h2
      refine wk0_still_quiet h tk hk (Or.inl hph) ?_
      cases hf : tk.fut with
      | pending => rfl
      | ok => exact absurd hf (h1)
      | exc e => exact absurd hf (h2 e)
      | cancelled => simp [hf] at hc

theorem wk0_stepInCancelCb {p : Pool} {t : Nat} (h : WK (ET t) p) (tk : PTask)
    (hk : p.tasks[t]? = some { tk with sched := false }) (hph : tk.phase = .inCancelCb) :
    WK0 (p.stepInCancelCb t tk) := by
  unfold stepInCancelCb
  split
  · exact wk0_taskEnding (wk_modTask_ex (wk_logEv h _) t _ rfl)
  · exact wk0_taskEnding (wk_modTask_ex (wk_logEv h _) t _ rfl)
  · exact wk0_taskEnding (wk_modTask_ex (wk_logEv h _) t _ rfl)
  · rename_i hf
    exact wk0_still_quiet h tk hk (Or.inr (Or.inl hph)) hf

theorem wk0_stepInEndCb {p : Pool} {t : Nat} (h : WK (ET t) p) (tk : PTask)
    (hk : p.tasks[t]? = some { tk with sched := false }) (hph : tk.phase = .inEndCb) : WK0 (p.stepInEndCb t tk) := by
  unfold stepInEndCb
  split
  · exact wk0_finishTask (wk_logEv h _)
  · exact wk0_finishTask (wk_modTask_ex (wk_logEv h _) t _ rfl)
  · exact wk0_finishTask (wk_modTask_ex (wk_logEv h _) t _ rfl)
  · rename_i hf
    exact wk0_still_quiet h tk hk (Or.inr (Or.inr hph)) hf

theorem wk0_stepTask {p : Pool} (h : WK0 p) (t : Nat) : WK0 (p.stepTask t) := by
  unfold stepTask
  split
  · exact h
  · rename_i tk htk
    split
    · exact h
    · simp only
      have h1 : WK (ET t) (p.modTask t fun k => { k with sched := false }) :=
        wk_modTask_ex (wk_enter_task h t) t _ rfl
      have hk1 : (p.modTask t fun k => { k with sched := false }).tasks[t]? = some { tk with sched := false } := by
        simp [modTask, htk]
      have htg := h.tg t tk htk (fun f => f)
      split
      · exact wk0_stepCreated h1 tk
      · rename_i hph; exact absurd hph htg.2.1
      · rename_i hph; exact wk0_stepInWorker h1 tk hk1 hph
      · rename_i hph; exact wk0_stepInCancelCb h1 tk hk1 hph
      · rename_i hph; exact wk0_stepInEndCb h1 tk hk1 hph
      · rename_i hph
        refine (wk_close_task h1 ?_).wk
        intro k hk'
        rw [hk1] at hk'; cases hk'
        have ho := htg.2.2 hph
        exact ⟨fun hq => by simp [PTask.quiet, ho] at hq, htg.2.1, fun _ => ho⟩

/-! ### spawners: leaving and entering the exempt mode -/

theorem nodup_of_length_le_one {α} (l : List α) (h : l.length ≤ 1) : l.Nodup := by
  match l, h with
  | [], _ => exact List.nodup_nil
  | [a], _ => simp
  | _ :: _ :: _, h => simp only [List.length_cons] at h; omega

theorem wk_modReq_sem (p : Pool) (m : Nat) (f : Req → Req) : (p.modReq m f).sem = p.sem := rfl

theorem modReq_get_ne (p : Pool) (m : Nat) (f : Req → Req) (i : Nat) (h : i ≠ m) :
    (p.modReq m f).reqs[i]? = p.reqs[i]? := by
  exact List.getElem?_modify_ne f p.reqs (Ne.symm h)

theorem modReq_get_self (p : Pool) (m : Nat) (f : Req → Req) (r : Req) (hp : p.reqs[m]? = some r) :
    (p.modReq m f).reqs[m]? = some (f r) := by
  simp [modReq, hp]

/-- the end of a spawner's step: `q` is `p` up to the spawner's own record and waiter entries of its own appended to
the pool's queue, and the spawner satisfies its clauses again -/
theorem wk0_close_spawner {p : Pool} {m : Nat} (h : WK (ES m) p) (q : Pool) (ws' : List Waiter) (r' : Req)
    (ht : q.tasks = p.tasks) (hs : q.sem.waiters = p.sem.waiters ++ ws')
    (hne : ∀ i, i ≠ m → q.reqs[i]? = p.reqs[i]?)
    (hm : q.reqs[m]? = some r')
    (c_rs : r'.outcome = none → (r'.frame = .notStarted → r'.sched = true) ∧ r'.frame ≠ .running ∧ r'.frame ≠ .done)
    (c_pn : ws'.length ≤ 1)
    (c_pw : ∀ w ∈ ws', w.owner = m ∧ r'.frame = .waitRoom ∧ r'.outcome = none ∧ (w.st ≠ .pending → r'.sched = true))
    (c_pe : r'.outcome = none → r'.frame = .waitRoom → ws' ≠ [])
    (c_mn : r'.mapSem.waiters.length ≤ 1)
    (c_mw : ∀ w ∈ r'.mapSem.waiters, w.owner = m ∧ r'.frame = .waitMapSem ∧ r'.outcome = none ∧
      (w.st ≠ .pending → r'.sched = true))
    (c_me : r'.outcome = none → r'.frame = .waitMapSem → r'.mapSem.waiters ≠ [])
    (c_od : r'.outcome.isSome = true → r'.frame = .done) : WK0 q := by
  have hE : ∀ i, i ≠ m → ¬ (Ref.spawner i = Ref.spawner m) := fun i c e => c (by cases e; rfl)
  have hnm : m ∉ owners p.sem.waiters := (h.ce m rfl).1
  refine { tq := ?_, tw := ?_, rs := ?_, pn := ?_, pw := ?_, pe := ?_, mn := ?_, mw := ?_, me := ?_, od := ?_,
           ce := fun _ f => f.elim, alive := fun _ f => f.elim }
  · rw [ht]; exact fun i k hik _ => h.tq i k hik (by simp)
  · rw [ht]; exact fun i k hik _ => h.tw i k hik (by simp)
  · intro i r1 hq _ ho
    by_cases c : i = m
    · subst c; rw [hm] at hq; cases hq; exact c_rs ho
    · rw [hne i c] at hq; exact h.rs i r1 hq (hE i c) ho
  · rw [hs, owners_append, List.nodup_append]
    refine ⟨h.pn, nodup_of_length_le_one _ (by rw [owners_length]; exact c_pn), ?_⟩
    intro a ha b hb e
    obtain ⟨w, hw, hwo⟩ := mem_owners.mp hb
    rw [(c_pw w hw).1] at hwo
    rw [e, ← hwo] at ha
    exact hnm ha
  · intro w hw
    rw [hs, List.mem_append] at hw
    rcases hw with hw | hw
    · obtain ⟨r1, hp1, hc⟩ := h.pw w hw
      have c : w.owner ≠ m := fun e => hnm (mem_owners.mpr ⟨w, hw, e⟩)
      exact ⟨r1, by rw [hne _ c]; exact hp1, fun _ => hc (hE _ c)⟩
    · obtain ⟨a, b⟩ := c_pw w hw
      exact ⟨r', by rw [a]; exact hm, fun _ => b⟩
  · intro i r1 hq _ ho hf
    rw [hs, owners_append, List.mem_append]
    by_cases c : i = m
    · subst c; rw [hm] at hq; cases hq
      right
      cases hws : ws' with
      | nil => exact absurd hws (c_pe ho hf)
      | cons w ws =>
        have := (c_pw w (by rw [hws]; exact List.mem_cons_self)).1
        rw [owners_cons, this]; exact List.mem_cons_self
    · rw [hne i c] at hq; left; exact h.pe i r1 hq (hE i c) ho hf
  · intro i r1 hq
    by_cases c : i = m
    · subst c; rw [hm] at hq; cases hq; exact c_mn
    · rw [hne i c] at hq; exact h.mn i r1 hq
  · intro i r1 hq w hw
    by_cases c : i = m
    · subst c; rw [hm] at hq; cases hq
      obtain ⟨a, b⟩ := c_mw w hw
      exact ⟨a, fun _ => b⟩
    · rw [hne i c] at hq
      obtain ⟨a, b⟩ := h.mw i r1 hq w hw
      exact ⟨a, fun _ => b (hE i c)⟩
  · intro i r1 hq _ ho hf
    by_cases c : i = m
    · subst c; rw [hm] at hq; cases hq; exact c_me ho hf
    · rw [hne i c] at hq; exact h.me i r1 hq (hE i c) ho hf
  · intro i r1 hq _ ho
    by_cases c : i = m
    · subst c; rw [hm] at hq; cases hq; exact c_od ho
    · rw [hne i c] at hq; exact h.od i r1 hq (hE i c) ho

/-- the start of a spawner's step: its waiter entry (if any) is gone from the pool's queue, nobody waits on its own
semaphore, its asyncio Task is not done -/
theorem wk_enter_gen {p0 : Pool} {m : Nat} (h0 : WK0 p0) (q : Pool) (ht : q.tasks = p0.tasks)
    (hne : ∀ i, i ≠ m → q.reqs[i]? = p0.reqs[i]?)
    (hsub : q.sem.waiters.Sublist p0.sem.waiters) (hnm : m ∉ owners q.sem.waiters)
    (hoth : ∀ x ∈ owners p0.sem.waiters, x ≠ m → x ∈ owners q.sem.waiters)
    (hm : ∃ r', q.reqs[m]? = some r' ∧ r'.mapSem.waiters = [] ∧ r'.outcome = none) : WK (ES m) q := by
  obtain ⟨r', hq', hw', ho'⟩ := hm
  have hE : ∀ i, ¬ (Ref.spawner i = Ref.spawner m) → i ≠ m := fun i c e => c (by rw [e])
  refine { tq := ?_, tw := ?_, rs := ?_, pn := ?_, pw := ?_, pe := ?_, mn := ?_, mw := ?_, me := ?_, od := ?_,
           ce := ?_, alive := ?_ }
  · rw [ht]; exact fun i k hik _ => h0.tq i k hik id
  · rw [ht]; exact fun i k hik _ => h0.tw i k hik id
  · intro i r1 hq c ho
    rw [hne i (hE i c)] at hq; exact h0.rs i r1 hq id ho
  · exact List.Nodup.sublist (owners_sublist hsub) h0.pn
  · intro w hw
    have c : w.owner ≠ m := fun e => hnm (mem_owners.mpr ⟨w, hw, e⟩)
    obtain ⟨r1, hp1, hc⟩ := h0.pw w (hsub.subset hw)
    exact ⟨r1, by rw [hne _ c]; exact hp1, fun _ => hc id⟩
  · intro i r1 hq c ho hf
    rw [hne i (hE i c)] at hq
    exact hoth i (h0.pe i r1 hq id ho hf) (hE i c)
  · intro i r1 hq
    by_cases c : i = m
    · subst c; rw [hq'] at hq; cases hq; rw [hw']; simp
    · rw [hne i c] at hq; exact h0.mn i r1 hq
  · intro i r1 hq w hw
    by_cases c : i = m
    · subst c; rw [hq'] at hq; cases hq; rw [hw'] at hw; cases hw
    · rw [hne i c] at hq
      obtain ⟨a, b⟩ := h0.mw i r1 hq w hw
      exact ⟨a, fun _ => b id⟩
  · intro i r1 hq c ho hf
    rw [hne i (hE i c)] at hq; exact h0.me i r1 hq id ho hf
  · intro i r1 hq c ho
    rw [hne i (hE i c)] at hq; exact h0.od i r1 hq id ho
  · intro i hi
    cases hi
    exact ⟨hnm, fun r1 hq => by rw [hq'] at hq; cases hq; exact hw'⟩
  · intro i hi
    cases hi
    exact ⟨r', hq', ho'⟩

/-- a step of a spawner that only clears its flag: nothing was waiting for it -/
theorem wk0_clearSched {p0 : Pool} {m : Nat} {r : Req} (h0 : WK0 p0) (hp : p0.reqs[m]? = some r)
    (h1 : r.frame ≠ .notStarted) (h2 : ∀ w ∈ p0.sem.waiters, w.owner = m → w.st = .pending)
    (h3 : ∀ w ∈ r.mapSem.waiters, w.st = .pending) : WK0 (p0.modReq m fun x => { x with sched := false }) := by
  refine wk_reqs h0 _ rfl rfl (by simp [modReq]) ?_ ?_
  · intro i r1 r' hp1 hq
    have e := modify_some hp1 hq
    by_cases c : m = i
    · subst c; rw [if_pos rfl] at e; subst e
      rw [hp] at hp1; cases hp1
      exact ⟨rfl, rfl, fun _ => ⟨rfl, fun _ hf => absurd hf h1, fun w' hw' hn => absurd (h3 w' hw') hn⟩⟩
    · rw [if_neg c] at e; subst e
      exact ⟨rfl, rfl, fun hE => ⟨rfl, (h0.req_ok hp1 hE).1, (h0.req_ok hp1 hE).2⟩⟩
  · intro w' hw' hE hn r' hq
    by_cases c : w'.owner = m
    · exact absurd (h2 w' hw' c) hn
    · rw [modReq_get_ne _ _ _ _ c] at hq
      exact h0.pw_ok hw' hE hn hq

/-! ### spawners: the walk -/

theorem wk0_finishMeta {p : Pool} {m : Nat} (h : WK (ES m) p) (o : Outcome) : WK0 (p.finishMeta m o) := by
  obtain ⟨r, hp, _⟩ := h.alive m rfl
  have hw := (h.ce m rfl).2 r hp
  unfold finishMeta
  rw [hp]
  simp only
  refine wk_emitChildren (wk0_close_spawner h _ [] _ (by rfl) (by exact (List.append_nil _).symm)
    (by exact fun i hi => modReq_get_ne _ _ _ _ hi) (by exact modReq_get_self _ _ _ r hp) ?_ ?_ ?_ ?_ ?_ ?_ ?_ ?_) _
  · intro ho; cases ho
  · simp
  · intro w hw'; cases hw'
  · intro ho; cases ho
  · rw [hw]; simp
  · intro w hw'; rw [hw] at hw'; cases hw'
  · intro ho; cases ho
  · intro _; rfl

theorem wk0_waitRoom {p : Pool} {m : Nat} (h : WK (ES m) p) : WK0 (p.waitRoom m) := by
  obtain ⟨r, hp, ho⟩ := h.alive m rfl
  have hw := (h.ce m rfl).2 r hp
  unfold waitRoom
  simp only [hp, Option.getD_some]
  cases hmc : r.mustCancel
  · simp only [Bool.false_eq_true, if_false]
    refine wk0_close_spawner h _ [_] _ (by rfl) (by rfl)
      (by exact fun i hi => modReq_get_ne _ _ _ _ hi) (by exact modReq_get_self _ _ _ r hp) ?_ ?_ ?_ ?_ ?_ ?_ ?_ ?_
    · intro _; exact ⟨fun e => (by cases e), (by simp), (by simp)⟩
    · simp
    · intro w hw'
      rw [List.mem_singleton] at hw'; subst hw'
      exact ⟨rfl, rfl, ho, fun hn => absurd rfl hn⟩
    · intro _ _; simp
    · rw [hw]; simp
    · intro w hw'; rw [hw] at hw'; cases hw'
    · intro _ e; cases e
    · intro e; rw [ho] at e; cases e
  · simp only [if_true]
    rw [modReq_schedMeta]
    refine wk_emitRef (wk0_close_spawner h _ [_] _ (by rfl) (by rfl)
      (by exact fun i hi => modReq_get_ne _ _ _ _ hi) (by exact modReq_get_self _ _ _ r hp) ?_ ?_ ?_ ?_ ?_ ?_ ?_ ?_) _
    · intro _; exact ⟨fun _ => rfl, by simp, by simp⟩
    · simp
    · intro w hw'
      rw [List.mem_singleton] at hw'; subst hw'
      exact ⟨rfl, rfl, ho, fun _ => rfl⟩
    · intro _ _; simp
    · rw [hw]; simp
    · intro w hw'; rw [hw] at hw'; cases hw'
    · intro _ e; cases e
    · intro e; rw [ho] at e; cases e

theorem wk0_waitMapSem {p : Pool} {m : Nat} (h : WK (ES m) p) : WK0 (p.waitMapSem m) := by
  obtain ⟨r, hp, ho⟩ := h.alive m rfl
  have hw := (h.ce m rfl).2 r hp
  unfold waitMapSem
  simp only [hp, Option.getD_some]
  cases hmc : r.mustCancel
  · simp only [Bool.false_eq_true, if_false]
    refine wk0_close_spawner h _ [] _ (by rfl) (by exact (List.append_nil _).symm)
      (by exact fun i hi => modReq_get_ne _ _ _ _ hi) (by exact modReq_get_self _ _ _ r hp) ?_ ?_ ?_ ?_ ?_ ?_ ?_ ?_
    · intro _; exact ⟨fun e => (by cases e), (by simp), (by simp)⟩
    · simp
    · intro w hw'; cases hw'
    · intro _ e; cases e
    · rw [hw]; simp
    · intro w hw'
      rw [hw, List.nil_append, List.mem_singleton] at hw'; subst hw'
      exact ⟨rfl, rfl, ho, fun hn => absurd rfl hn⟩
    · intro _ _; simp
    · intro e; rw [ho] at e; cases e
  · simp only [if_true]
    rw [modReq_schedMeta]
    refine wk_emitRef (wk0_close_spawner h _ [] _ (by rfl) (by exact (List.append_nil _).symm)
      (by exact fun i hi => modReq_get_ne _ _ _ _ hi) (by exact modReq_get_self _ _ _ r hp) ?_ ?_ ?_ ?_ ?_ ?_ ?_ ?_) _
    · intro _; exact ⟨fun _ => rfl, by simp, by simp⟩
    · simp
    · intro w hw'; cases hw'
    · intro _ e; cases e
    · rw [hw]; simp
    · intro w hw'
      rw [hw, List.nil_append, List.mem_singleton] at hw'; subst hw'
      exact ⟨rfl, rfl, ho, fun _ => rfl⟩
    · intro _ _; simp
    · intro e; rw [ho] at e; cases e

end Pool
end Taskpool
