import Taskpool.Inv.WantWalk
/-! **Whoever has something to do is flagged — the walk, part 2.**  The wrapper of a pool task (`completeTask` …
`stepTask`) with that task exempt, the spawners (`finishMeta` … `stepMeta`) with that spawner exempt, and the assembly:
`want_init`, `want_applyOp`, `want_runRef`, `want_drain`, `wantInvariant`. -/
namespace Taskpool
namespace Pool

/-- nobody exempt: the state between two steps -/
abbrev WK0 (p : Pool) : Prop := WK (fun _ => False) p

/-- the task whose handle is being run -/
abbrev ET (t : Nat) : Ref → Prop := fun x => x = Ref.task t
/-- the spawner whose handle is being run -/
abbrev ES (m : Nat) : Ref → Prop := fun x => x = Ref.spawner m

/-! ### the wrapper of a pool task -/

theorem modTask_self_some {p : Pool} {t : Nat} {f : PTask → PTask} {k : PTask}
    (h : (p.modTask t f).tasks[t]? = some k) : ∃ k0, p.tasks[t]? = some k0 ∧ k = f k0 := by
  obtain ⟨k0, hk0⟩ := getElem?_some_of_length_eq (l := (p.modTask t f).tasks) (l' := p.tasks) (by simp [modTask]) h
  have e := modify_some hk0 h
  rw [if_pos rfl] at e
  exact ⟨k0, hk0, e⟩

/-- the last change to the task whose handle is being run: afterwards it satisfies its clauses again -/
theorem wk0_modTask_close {p : Pool} {t : Nat} (h : WK (ET t) p) (f : PTask → PTask)
    (hf : ∀ k, p.tasks[t]? = some k → TG (f k)) : WK0 (p.modTask t f) := by
  refine (wk_close_task (wk_modTask_ex h t f rfl) ?_).wk
  intro k hk
  obtain ⟨k0, hk0, rfl⟩ := modTask_self_some hk
  exact hf k0 hk0

theorem wk0_of_none {p : Pool} {t : Nat} (h : WK (ET t) p) (hn : p.tasks[t]? = none) : WK0 p :=
  (wk_close_task h (fun k hk => by rw [hn] at hk; cases hk)).wk

theorem wk0_completeTask {p : Pool} {t : Nat} (h : WK (ET t) p) (o : Outcome) : WK0 (p.completeTask t o) := by
  unfold completeTask
  split
  · rename_i hn; exact wk0_of_none h hn
  · refine wk_emitChildren (wk0_modTask_close h _ ?_) _
    intro k _
    exact ⟨fun hq => by simp [PTask.quiet] at hq, by simp, fun _ => rfl⟩

theorem wk0_finishTask {p : Pool} {t : Nat} (h : WK (ET t) p) : WK0 (p.finishTask t) := by
  unfold finishTask
  split
  · rename_i hn; exact wk0_of_none h hn
  · exact wk0_completeTask h _

/-- a phase in which the wrapper is suspended on a future of the environment -/
def Susp (ph : Phase) : Prop := ph = .inWorker ∨ ph = .inCancelCb ∨ ph = .inEndCb

theorem wk0_suspendTask {p : Pool} {t : Nat} (h : WK (ET t) p) (ph : Phase) (hph : Susp ph) :
    WK0 (p.suspendTask t ph) := by
  unfold suspendTask
  split
  · rename_i hn; exact wk0_of_none h hn
  · split
    · rw [modTask_schedTask]
      refine wk_emitRef (wk0_modTask_close h _ ?_) _
      intro k _
      refine ⟨fun _ => rfl, ?_, ?_⟩
      · show ph ≠ .wrapUp
        rcases hph with e | e | e <;> rw [e] <;> simp
      · show ph = .finished → _
        rcases hph with e | e | e <;> rw [e] <;> simp
    · refine wk0_modTask_close h _ ?_
      intro k _
      refine ⟨fun hq => ?_, ?_, ?_⟩
      · rcases hph with e | e | e <;> simp [PTask.quiet, e] at hq
      · show ph ≠ .wrapUp
        rcases hph with e | e | e <;> rw [e] <;> simp
      · show ph = .finished → _
        rcases hph with e | e | e <;> rw [e] <;> simp

theorem wk_cbBegin {p : Pool} {t : Nat} (h : WK (ET t) p) (tk : PTask) (isEnd : Bool) :
    WK (ET t) (p.cbBegin t tk isEnd) := by
  unfold cbBegin
  simp only
  exact wk_runHooks (wk_logEv (wk_modTask_ex h t _ rfl) _) _ _

/-- a user callback: either the wrapper is suspended inside it (and the step is over), or it goes on -/
theorem wk_runCb {p : Pool} {t : Nat} (h : WK (ET t) p) (tk : PTask) (isEnd : Bool) :
    ((p.runCb t tk isEnd).2 = true → WK0 (p.runCb t tk isEnd).1) ∧
    ((p.runCb t tk isEnd).2 = false → WK (ET t) (p.runCb t tk isEnd).1) := by
  unfold runCb
  split
  · exact ⟨fun e => (by cases e), fun _ => h⟩
  · exact ⟨fun e => (by cases e), fun _ => wk_logEv (wk_cbBegin h tk isEnd) _⟩
  · exact ⟨fun e => (by cases e), fun _ => wk_modTask_ex (wk_logEv (wk_cbBegin h tk isEnd) _) t _ rfl⟩
  · refine ⟨fun _ => wk0_suspendTask (wk_cbBegin h tk isEnd) _ ?_, fun e => by cases e⟩
    cases isEnd
    · exact Or.inr (Or.inl rfl)
    · exact Or.inr (Or.inr rfl)

theorem wk_moveToEnded {E : Ref → Prop} {p : Pool} (h : WK E p) (t : Nat) (q : Pool) (hq : p.moveToEnded t = some q) :
    WK E q := by
  unfold moveToEnded at hq
  split at hq
  · simp only [Option.some.injEq] at hq; subst hq; exact wk_of_eq h rfl rfl rfl
  · split at hq
    · simp only [Option.some.injEq] at hq; subst hq; exact wk_of_eq h rfl rfl rfl
    · cases hq

theorem wk_releaseMapSlot {p : Pool} {t : Nat} (h : WK (ET t) p) (tk : PTask) : WK (ET t) (p.releaseMapSlot t tk) := by
  unfold releaseMapSlot
  split
  · exact wk_modTask_ex (wk_releaseMap h _) t _ rfl
  · exact h

theorem wk0_endCallback {p : Pool} {t : Nat} (h : WK (ET t) p) (tk : PTask) : WK0 (p.endCallback t tk) := by
  unfold endCallback
  simp only
  have hr := wk_runCb (wk_releaseMapSlot h tk) tk true
  split
  · rename_i c; exact hr.1 c
  · rename_i c; exact wk0_finishTask (hr.2 (by simpa using c))

theorem wk0_endingTail {p : Pool} {t : Nat} (h : WK (ET t) p) (tk : PTask) : WK0 (p.endingTail t tk) := by
  unfold endingTail
  exact wk0_endCallback (wk_modTask_ex (wk_releasePool h) t _ rfl) tk

theorem wk0_keyErrorFinish {p : Pool} {t : Nat} (h : WK (ET t) p) : WK0 (p.keyErrorFinish t) := by
  unfold keyErrorFinish
  exact wk0_finishTask (wk_modTask_ex (wk_of_eq h (by rfl) (by rfl) (by rfl)) t _ rfl)

theorem wk0_taskEnding {p : Pool} {t : Nat} (h : WK (ET t) p) : WK0 (p.taskEnding t) := by
  unfold taskEnding
  split
  · rename_i hn; exact wk0_of_none h hn
  · split
    · exact wk0_keyErrorFinish h
    · rename_i p1 hm
      exact wk0_endingTail (wk_moveToEnded h t p1 hm) _

theorem wk0_cancelCallback {p : Pool} {t : Nat} (h : WK (ET t) p) (tk : PTask) : WK0 (p.cancelCallback t tk) := by
  unfold cancelCallback
  simp only
  have hr := wk_runCb h tk false
  split
  · rename_i c; exact hr.1 c
  · rename_i c; exact wk0_taskEnding (hr.2 (by simpa using c))

theorem wk0_taskCancellation {p : Pool} {t : Nat} (h : WK (ET t) p) (tk : PTask) :
    WK0 (p.taskCancellation t tk) := by
  unfold taskCancellation
  split
  · exact wk0_cancelCallback (wk_modTask_ex (wk_of_eq h (by rfl) (by rfl) (by rfl)) t _ rfl) tk
  · exact wk0_taskEnding (wk_modTask_ex (wk_of_eq h (by rfl) (by rfl) (by rfl)) t _ rfl)

theorem wk0_afterWorker {p : Pool} {t : Nat} (h : WK (ET t) p) (e : Option Err) : WK0 (p.afterWorker t e) := by
  unfold afterWorker
  split
  · exact wk0_taskEnding (wk_modTask_ex (wk_logEv h _) t _ rfl)
  · exact wk0_taskEnding (wk_modTask_ex (wk_logEv h _) t _ rfl)

theorem wk0_stepCreated {p : Pool} {t : Nat} (h : WK (ET t) p) (tk : PTask) : WK0 (p.stepCreated t tk) := by
  unfold stepCreated
  split
  · exact wk0_taskCancellation (wk_modTask_ex h t _ rfl) tk
  · simp only
    have h0 : WK (ET t) (((p.logEv (.started t tk.arg)).modTask t fun k => { k with phase := .inWorker, fut := .ok, unstarted := false }).runHooks tk.req (p.reqOf tk).hooks.start) :=
      wk_runHooks (wk_modTask_ex (wk_logEv h _) t _ rfl) _ _
    split
    · exact wk0_afterWorker h0 _
    · exact wk0_afterWorker h0 _
    · exact wk0_suspendTask (wk_modTask_ex h0 t _ rfl) _ (Or.inl rfl)

theorem wk0_workerNext {p : Pool} {t : Nat} (h : WK (ET t) p) (tk : PTask) : WK0 (p.workerNext t tk) := by
  unfold workerNext
  exact wk0_suspendTask (wk_runHooks (wk_modTask_ex (wk_logEv h _) t _ rfl) _ _) _ (Or.inl rfl)

theorem wk0_workerCancelled {p : Pool} {t : Nat} (h : WK (ET t) p) (tk : PTask) : WK0 (p.workerCancelled t tk) := by
  unfold workerCancelled
  split
  · exact wk0_suspendTask (wk_modTask_ex (wk_logEv h _) t _ rfl) _ (Or.inl rfl)
  · simp only
    have h0 : WK (ET t) ((p.logEv (.sawCancel t)).modTask t fun k => { k with sawCancel := true, phase := .wrapUp, nSaw := k.nSaw + 1 }) :=
      wk_modTask_ex (wk_logEv h _) t _ rfl
    split
    · exact wk0_afterWorker h0 _
    · exact wk0_taskCancellation h0 tk

/-- the task as it is filed in the pool while its handle runs: the record read at the start, flag cleared -/
theorem wk0_still_quiet {p : Pool} {t : Nat} (h : WK (ET t) p) (tk : PTask)
    (hk : p.tasks[t]? = some { tk with sched := false }) (hph : Susp tk.phase) (hf : tk.fut = .pending) : WK0 p := by
  refine (wk_close_task h ?_).wk
  intro k hk'
  rw [hk] at hk'; cases hk'
  refine ⟨fun hq => ?_, ?_, ?_⟩
  · rcases hph with e | e | e <;> simp [PTask.quiet, e, hf] at hq
  · show tk.phase ≠ .wrapUp
    rcases hph with e | e | e <;> rw [e] <;> simp
  · show tk.phase = .finished → _
    rcases hph with e | e | e <;> rw [e] <;> simp

theorem wk0_stepInWorker {p : Pool} {t : Nat} (h : WK (ET t) p) (tk : PTask)
    (hk : p.tasks[t]? = some { tk with sched := false }) (hph : tk.phase = .inWorker) : WK0 (p.stepInWorker t tk) := by
  unfold stepInWorker
  split
  · exact wk0_workerCancelled (wk_modTask_ex h t _ rfl) tk
  · rename_i hc
    split
    · split
      · exact wk0_workerNext h tk
      · exact wk0_afterWorker h _
    · exact wk0_afterWorker h _
    · rename_i h1 h2
      refine wk0_still_quiet h tk hk (Or.inl hph) ?_
      cases hf : tk.fut with
      | pending => rfl
      | ok => exact absurd hf (h1)
      | exc e => exact absurd hf (h2 e)
      | cancelled => simp [hf] at hc

theorem wk0_stepInCancelCb {p : Pool} {t : Nat} (h : WK (ET t) p) (tk : PTask)
    (hk : p.tasks[t]? = some { tk with sched := false }) (hph : tk.phase = .inCancelCb) :
    WK0 (p.stepInCancelCb t tk) := by
  unfold stepInCancelCb
  split
  · exact wk0_taskEnding (wk_modTask_ex (wk_logEv h _) t _ rfl)
  · exact wk0_taskEnding (wk_modTask_ex (wk_logEv h _) t _ rfl)
  · exact wk0_taskEnding (wk_modTask_ex (wk_logEv h _) t _ rfl)
  · rename_i hf
    exact wk0_still_quiet h tk hk (Or.inr (Or.inl hph)) hf

theorem wk0_stepInEndCb {p : Pool} {t : Nat} (h : WK (ET t) p) (tk : PTask)
    (hk : p.tasks[t]? = some { tk with sched := false }) (hph : tk.phase = .inEndCb) : WK0 (p.stepInEndCb t tk) := by
  unfold stepInEndCb
  split
  · exact wk0_finishTask (wk_logEv h _)
  · exact wk0_finishTask (wk_modTask_ex (wk_logEv h _) t _ rfl)
  · exact wk0_finishTask (wk_modTask_ex (wk_logEv h _) t _ rfl)
  · rename_i hf
    exact wk0_still_quiet h tk hk (Or.inr (Or.inr hph)) hf

theorem wk0_stepTask {p : Pool} (h : WK0 p) (t : Nat) : WK0 (p.stepTask t) := by
  unfold stepTask
  split
  · exact h
  · rename_i tk htk
    split
    · exact h
    · simp only
      have h1 : WK (ET t) (p.modTask t fun k => { k with sched := false }) :=
        wk_modTask_ex (wk_enter_task h t) t _ rfl
      have hk1 : (p.modTask t fun k => { k with sched := false }).tasks[t]? = some { tk with sched := false } := by
        simp [modTask, htk]
      have htg := h.tg t tk htk (fun f => f)
      split
      · exact wk0_stepCreated h1 tk
      · rename_i hph; exact absurd hph htg.2.1
      · rename_i hph; exact wk0_stepInWorker h1 tk hk1 hph
      · rename_i hph; exact wk0_stepInCancelCb h1 tk hk1 hph
      · rename_i hph; exact wk0_stepInEndCb h1 tk hk1 hph
      · rename_i hph
        refine (wk_close_task h1 ?_).wk
        intro k hk'
        rw [hk1] at hk'; cases hk'
        have ho := htg.2.2 hph
        exact ⟨fun hq => by simp [PTask.quiet, ho] at hq, htg.2.1, fun _ => ho⟩

/-! ### spawners: leaving and entering the exempt mode -/

theorem nodup_of_length_le_one {α} (l : List α) (h : l.length ≤ 1) : l.Nodup := by
  match l, h with
  | [], _ => exact List.nodup_nil
  | [a], _ => simp
  | _ :: _ :: _, h => simp only [List.length_cons] at h; omega

theorem wk_modReq_sem (p : Pool) (m : Nat) (f : Req → Req) : (p.modReq m f).sem = p.sem := rfl

theorem modReq_get_ne (p : Pool) (m : Nat) (f : Req → Req) (i : Nat) (h : i ≠ m) :
    (p.modReq m f).reqs[i]? = p.reqs[i]? := by
  exact List.getElem?_modify_ne f p.reqs (Ne.symm h)

theorem modReq_get_self (p : Pool) (m : Nat) (f : Req → Req) (r : Req) (hp : p.reqs[m]? = some r) :
    (p.modReq m f).reqs[m]? = some (f r) := by
  simp [modReq, hp]

/-- the end of a spawner's step: `q` is `p` up to the spawner's own record and waiter entries of its own appended to
the pool's queue, and the spawner satisfies its clauses again -/
theorem wk0_close_spawner {p : Pool} {m : Nat} (h : WK (ES m) p) (q : Pool) (ws' : List Waiter) (r' : Req)
    (ht : q.tasks = p.tasks) (hs : q.sem.waiters = p.sem.waiters ++ ws')
    (hne : ∀ i, i ≠ m → q.reqs[i]? = p.reqs[i]?)
    (hm : q.reqs[m]? = some r')
    (c_rs : r'.outcome = none → (r'.frame = .notStarted → r'.sched = true) ∧ r'.frame ≠ .running ∧ r'.frame ≠ .done)
    (c_pn : ws'.length ≤ 1)
    (c_pw : ∀ w ∈ ws', w.owner = m ∧ r'.frame = .waitRoom ∧ r'.outcome = none ∧ (w.st ≠ .pending → r'.sched = true))
    (c_pe : r'.outcome = none → r'.frame = .waitRoom → ws' ≠ [])
    (c_mn : r'.mapSem.waiters.length ≤ 1)
    (c_mw : ∀ w ∈ r'.mapSem.waiters, w.owner = m ∧ r'.frame = .waitMapSem ∧ r'.outcome = none ∧
      (w.st ≠ .pending → r'.sched = true))
    (c_me : r'.outcome = none → r'.frame = .waitMapSem → r'.mapSem.waiters ≠ [])
    (c_od : r'.outcome.isSome = true → r'.frame = .done) : WK0 q := by
  have hE : ∀ i, i ≠ m → ¬ (Ref.spawner i = Ref.spawner m) := fun i c e => c (by cases e; rfl)
  have hnm : m ∉ owners p.sem.waiters := (h.ce m rfl).1
  refine { tq := ?_, tw := ?_, rs := ?_, pn := ?_, pw := ?_, pe := ?_, mn := ?_, mw := ?_, me := ?_, od := ?_,
           ce := fun _ f => f.elim, alive := fun _ f => f.elim }
  · rw [ht]; exact fun i k hik _ => h.tq i k hik (by simp)
  · rw [ht]; exact fun i k hik _ => h.tw i k hik (by simp)
  · intro i r1 hq _ ho
    by_cases c : i = m
    · subst c; rw [hm] at hq; cases hq; exact c_rs ho
    · rw [hne i c] at hq; exact h.rs i r1 hq (hE i c) ho
  · rw [hs, owners_append, List.nodup_append]
    refine ⟨h.pn, nodup_of_length_le_one _ (by rw [owners_length]; exact c_pn), ?_⟩
    intro a ha b hb e
    obtain ⟨w, hw, hwo⟩ := mem_owners.mp hb
    rw [(c_pw w hw).1] at hwo
    rw [e, ← hwo] at ha
    exact hnm ha
  · intro w hw
    rw [hs, List.mem_append] at hw
    rcases hw with hw | hw
    · obtain ⟨r1, hp1, hc⟩ := h.pw w hw
      have c : w.owner ≠ m := fun e => hnm (mem_owners.mpr ⟨w, hw, e⟩)
      exact ⟨r1, by rw [hne _ c]; exact hp1, fun _ => hc (hE _ c)⟩
    · obtain ⟨a, b⟩ := c_pw w hw
      exact ⟨r', by rw [a]; exact hm, fun _ => b⟩
  · intro i r1 hq _ ho hf
    rw [hs, owners_append, List.mem_append]
    by_cases c : i = m
    · subst c; rw [hm] at hq; cases hq
      right
      cases hws : ws' with
      | nil => exact absurd hws (c_pe ho hf)
      | cons w ws =>
        have := (c_pw w (by rw [hws]; exact List.mem_cons_self)).1
        rw [owners_cons, this]; exact List.mem_cons_self
    · rw [hne i c] at hq; left; exact h.pe i r1 hq (hE i c) ho hf
  · intro i r1 hq
    by_cases c : i = m
    · subst c; rw [hm] at hq; cases hq; exact c_mn
    · rw [hne i c] at hq; exact h.mn i r1 hq
  · intro i r1 hq w hw
    by_cases c : i = m
    · subst c; rw [hm] at hq; cases hq
      obtain ⟨a, b⟩ := c_mw w hw
      exact ⟨a, fun _ => b⟩
    · rw [hne i c] at hq
      obtain ⟨a, b⟩ := h.mw i r1 hq w hw
      exact ⟨a, fun _ => b (hE i c)⟩
  · intro i r1 hq _ ho hf
    by_cases c : i = m
    · subst c; rw [hm] at hq; cases hq; exact c_me ho hf
    · rw [hne i c] at hq; exact h.me i r1 hq (hE i c) ho hf
  · intro i r1 hq _ ho
    by_cases c : i = m
    · subst c; rw [hm] at hq; cases hq; exact c_od ho
    · rw [hne i c] at hq; exact h.od i r1 hq (hE i c) ho

/-- the start of a spawner's step: its waiter entry (if any) is gone from the pool's queue, nobody waits on its own
semaphore, its asyncio Task is not done -/
theorem wk_enter_gen {p0 : Pool} {m : Nat} (h0 : WK0 p0) (q : Pool) (ht : q.tasks = p0.tasks)
    (hne : ∀ i, i ≠ m → q.reqs[i]? = p0.reqs[i]?)
    (hsub : q.sem.waiters.Sublist p0.sem.waiters) (hnm : m ∉ owners q.sem.waiters)
    (hoth : ∀ x ∈ owners p0.sem.waiters, x ≠ m → x ∈ owners q.sem.waiters)
    (hm : ∃ r', q.reqs[m]? = some r' ∧ r'.mapSem.waiters = [] ∧ r'.outcome = none) : WK (ES m) q := by
  obtain ⟨r', hq', hw', ho'⟩ := hm
  have hE : ∀ i, ¬ (Ref.spawner i = Ref.spawner m) → i ≠ m := fun i c e => c (by rw [e])
  refine { tq := ?_, tw := ?_, rs := ?_, pn := ?_, pw := ?_, pe := ?_, mn := ?_, mw := ?_, me := ?_, od := ?_,
           ce := ?_, alive := ?_ }
  · rw [ht]; exact fun i k hik _ => h0.tq i k hik id
  · rw [ht]; exact fun i k hik _ => h0.tw i k hik id
  · intro i r1 hq c ho
    rw [hne i (hE i c)] at hq; exact h0.rs i r1 hq id ho
  · exact List.Nodup.sublist (owners_sublist hsub) h0.pn
  · intro w hw
    have c : w.owner ≠ m := fun e => hnm (mem_owners.mpr ⟨w, hw, e⟩)
    obtain ⟨r1, hp1, hc⟩ := h0.pw w (hsub.subset hw)
    exact ⟨r1, by rw [hne _ c]; exact hp1, fun _ => hc id⟩
  · intro i r1 hq c ho hf
    rw [hne i (hE i c)] at hq
    exact hoth i (h0.pe i r1 hq id ho hf) (hE i c)
  · intro i r1 hq
    by_cases c : i = m
    · subst c; rw [hq'] at hq; cases hq; rw [hw']; simp
    · rw [hne i c] at hq; exact h0.mn i r1 hq
  · intro i r1 hq w hw
    by_cases c : i = m
    · subst c; rw [hq'] at hq; cases hq; rw [hw'] at hw; cases hw
    · rw [hne i c] at hq
      obtain ⟨a, b⟩ := h0.mw i r1 hq w hw
      exact ⟨a, fun _ => b id⟩
  · intro i r1 hq c ho hf
    rw [hne i (hE i c)] at hq; exact h0.me i r1 hq id ho hf
  · intro i r1 hq c ho
    rw [hne i (hE i c)] at hq; exact h0.od i r1 hq id ho
  · intro i hi
    cases hi
    exact ⟨hnm, fun r1 hq => by rw [hq'] at hq; cases hq; exact hw'⟩
  · intro i hi
    cases hi
    exact ⟨r', hq', ho'⟩

/-- a step of a spawner that only clears its flag: nothing was waiting for it -/
theorem wk0_clearSched {p0 : Pool} {m : Nat} {r : Req} (h0 : WK0 p0) (hp : p0.reqs[m]? = some r)
    (h1 : r.frame ≠ .notStarted) (h2 : ∀ w ∈ p0.sem.waiters, w.owner = m → w.st = .pending)
    (h3 : ∀ w ∈ r.mapSem.waiters, w.st = .pending) : WK0 (p0.modReq m fun x => { x with sched := false }) := by
  refine wk_reqs h0 _ rfl rfl (by simp [modReq]) ?_ ?_
  · intro i r1 r' hp1 hq
    have e := modify_some hp1 hq
    by_cases c : m = i
    · subst c; rw [if_pos rfl] at e; subst e
      rw [hp] at hp1; cases hp1
      exact ⟨rfl, rfl, fun _ => ⟨rfl, fun _ hf => absurd hf h1, fun w' hw' hn => absurd (h3 w' hw') hn⟩⟩
    · rw [if_neg c] at e; subst e
      exact ⟨rfl, rfl, fun hE => ⟨rfl, (h0.req_ok hp1 hE).1, (h0.req_ok hp1 hE).2⟩⟩
  · intro w' hw' hE hn r' hq
    by_cases c : w'.owner = m
    · exact absurd (h2 w' hw' c) hn
    · rw [modReq_get_ne _ _ _ _ c] at hq
      exact h0.pw_ok hw' hE hn hq

/-! ### spawners: the walk -/

theorem wk0_finishMeta {p : Pool} {m : Nat} (h : WK (ES m) p) (o : Outcome) : WK0 (p.finishMeta m o) := by
  obtain ⟨r, hp, _⟩ := h.alive m rfl
  have hw := (h.ce m rfl).2 r hp
  unfold finishMeta
  rw [hp]
  simp only
  refine wk_emitChildren (wk0_close_spawner h _ [] _ (by rfl) (by exact (List.append_nil _).symm)
    (by exact fun i hi => modReq_get_ne _ _ _ _ hi) (by exact modReq_get_self _ _ _ r hp) ?_ ?_ ?_ ?_ ?_ ?_ ?_ ?_) _
  · intro ho; cases ho
  · simp
  · intro w hw'; cases hw'
  · intro ho; cases ho
  · rw [hw]; simp
  · intro w hw'; rw [hw] at hw'; cases hw'
  · intro ho; cases ho
  · intro _; rfl

theorem wk0_waitRoom {p : Pool} {m : Nat} (h : WK (ES m) p) : WK0 (p.waitRoom m) := by
  obtain ⟨r, hp, ho⟩ := h.alive m rfl
  have hw := (h.ce m rfl).2 r hp
  unfold waitRoom
  simp only [hp, Option.getD_some]
  cases hmc : r.mustCancel
  · simp only [Bool.false_eq_true, if_false]
    refine wk0_close_spawner h _ [_] _ (by rfl) (by rfl)
      (by exact fun i hi => modReq_get_ne _ _ _ _ hi) (by exact modReq_get_self _ _ _ r hp) ?_ ?_ ?_ ?_ ?_ ?_ ?_ ?_
    · intro _; exact ⟨fun e => (by cases e), (by simp), (by simp)⟩
    · simp
    · intro w hw'
      rw [List.mem_singleton] at hw'; subst hw'
      exact ⟨rfl, rfl, ho, fun hn => absurd rfl hn⟩
    · intro _ _; simp
    · rw [hw]; simp
    · intro w hw'; rw [hw] at hw'; cases hw'
    · intro _ e; cases e
    · intro e; rw [ho] at e; cases e
  · simp only [if_true]
    rw [modReq_schedMeta]
    refine wk_emitRef (wk0_close_spawner h _ [_] _ (by rfl) (by rfl)
      (by exact fun i hi => modReq_get_ne _ _ _ _ hi) (by exact modReq_get_self _ _ _ r hp) ?_ ?_ ?_ ?_ ?_ ?_ ?_ ?_) _
    · intro _; exact ⟨fun _ => rfl, by simp, by simp⟩
    · simp
    · intro w hw'
      rw [List.mem_singleton] at hw'; subst hw'
      exact ⟨rfl, rfl, ho, fun _ => rfl⟩
    · intro _ _; simp
    · rw [hw]; simp
    · intro w hw'; rw [hw] at hw'; cases hw'
    · intro _ e; cases e
    · intro e; rw [ho] at e; cases e

theorem wk0_waitMapSem {p : Pool} {m : Nat} (h : WK (ES m) p) : WK0 (p.waitMapSem m) := by
  obtain ⟨r, hp, ho⟩ := h.alive m rfl
  have hw := (h.ce m rfl).2 r hp
  unfold waitMapSem
  simp only [hp, Option.getD_some]
  cases hmc : r.mustCancel
  · simp only [Bool.false_eq_true, if_false]
    refine wk0_close_spawner h _ [] _ (by rfl) (by exact (List.append_nil _).symm)
      (by exact fun i hi => modReq_get_ne _ _ _ _ hi) (by exact modReq_get_self _ _ _ r hp) ?_ ?_ ?_ ?_ ?_ ?_ ?_ ?_
    · intro _; exact ⟨fun e => (by cases e), (by simp), (by simp)⟩
    · simp
    · intro w hw'; cases hw'
    · intro _ e; cases e
    · rw [hw]; simp
    · intro w hw'
      rw [hw, List.nil_append, List.mem_singleton] at hw'; subst hw'
      exact ⟨rfl, rfl, ho, fun hn => absurd rfl hn⟩
    · intro _ _; simp
    · intro e; rw [ho] at e; cases e
  · simp only [if_true]
    rw [modReq_schedMeta]
    refine wk_emitRef (wk0_close_spawner h _ [] _ (by rfl) (by exact (List.append_nil _).symm)
      (by exact fun i hi => modReq_get_ne _ _ _ _ hi) (by exact modReq_get_self _ _ _ r hp) ?_ ?_ ?_ ?_ ?_ ?_ ?_ ?_) _
    · intro _; exact ⟨fun _ => rfl, by simp, by simp⟩
    · simp
    · intro w hw'; cases hw'
    · intro _ e; cases e
    · rw [hw]; simp
    · intro w hw'
      rw [hw, List.nil_append, List.mem_singleton] at hw'; subst hw'
      exact ⟨rfl, rfl, ho, fun _ => rfl⟩
    · intro _ _; simp
    · intro e; rw [ho] at e; cases e

theorem wk_createTask {p : Pool} {m : Nat} (h : WK (ES m) p) (isMap : Bool) : WK (ES m) (p.createTask m isMap) := by
  unfold createTask
  simp only
  refine wk_emitRef (wk_modReq_ex (wk_tasks h _ (by rfl) (by rfl) ?_) m _ rfl (fun _ => ⟨by rfl, by rfl⟩)) _
  intro i k' hq _ hg
  rcases append_some hq with hk | ⟨_, rfl⟩
  · exact hg k' hk
  · exact ⟨fun _ => rfl, by simp [newTask], by simp [newTask]⟩

theorem wk_takeSlotAndCreate {p : Pool} {m : Nat} (h : WK (ES m) p) (isMap : Bool) :
    WK (ES m) (p.takeSlotAndCreate m isMap) := by
  unfold takeSlotAndCreate
  exact wk_createTask (wk_of_eq h (by rfl) (by rfl) (by rfl)) isMap

theorem wk0_applyLoop (m n : Nat) (p : Pool) (h : WK (ES m) p) : WK0 (applyLoop m n p) := by
  induction n generalizing p with
  | zero =>
    unfold applyLoop
    exact wk0_finishMeta (wk_modReq_ex h m _ rfl (fun _ => ⟨by rfl, by rfl⟩)) _
  | succ n ih =>
    unfold applyLoop
    simp only
    have h0 : WK (ES m) (p.modReq m fun x => { x with remaining := n + 1 }) :=
      wk_modReq_ex h m _ rfl (fun _ => ⟨by rfl, by rfl⟩)
    split
    · exact ih _ (wk_modReq_ex h0 m _ rfl (fun _ => ⟨by rfl, by rfl⟩))
    · split
      · exact wk0_finishMeta h0 _
      · split
        · exact wk0_finishMeta h0 _
        · split
          · exact wk0_waitRoom h0
          · exact ih _ (wk_takeSlotAndCreate h0 false)

/-- `_start_task` for a map element: either the task was created (and the spawner goes on), or the step is over -/
theorem wk_mapStartTask {p : Pool} {m : Nat} (h : WK (ES m) p) :
    ((p.mapStartTask m).2 = true → WK (ES m) (p.mapStartTask m).1) ∧
    ((p.mapStartTask m).2 = false → WK0 (p.mapStartTask m).1) := by
  unfold mapStartTask
  split
  · exact ⟨fun e => (by cases e), fun _ => wk0_finishMeta h _⟩
  · split
    · exact ⟨fun e => (by cases e), fun _ => wk0_waitRoom h⟩
    · exact ⟨fun _ => wk_takeSlotAndCreate h true, fun e => (by cases e)⟩

theorem wk_pullItem {p : Pool} {m : Nat} (h : WK (ES m) p) (rest : List Item) : WK (ES m) (p.pullItem m rest) := by
  unfold pullItem
  simp only
  exact wk_runHooks (wk_logEv (wk_modReq_ex h m _ rfl (fun _ => ⟨by rfl, by rfl⟩)) _) _ _

theorem wk_takeMapSlot {p : Pool} {m : Nat} (h : WK (ES m) p) : WK (ES m) (p.takeMapSlot m) := by
  unfold takeMapSlot
  exact wk_modReq_ex h m _ rfl (fun _ => ⟨by rfl, by rfl⟩)

theorem wk0_mapLoop (m : Nat) (items : List Item) (p : Pool) (h : WK (ES m) p) : WK0 (mapLoop m items p) := by
  induction items generalizing p with
  | nil =>
    unfold mapLoop
    exact wk0_finishMeta (wk_modReq_ex h m _ rfl (fun _ => ⟨by rfl, by rfl⟩)) _
  | cons it rest ih =>
    unfold mapLoop
    simp only
    have h0 := wk_pullItem h rest
    split
    · exact wk0_finishMeta h0 _
    · split
      · exact ih _ (wk_modReq_ex h0 m _ rfl (fun _ => ⟨by rfl, by rfl⟩))
      · split
        · exact wk0_waitMapSem h0
        · have h1 := wk_mapStartTask (wk_takeMapSlot h0)
          split
          · rename_i c; exact ih _ (h1.1 c)
          · rename_i c; exact h1.2 (by simpa using c)

theorem wk0_continueSpawner {p : Pool} {m : Nat} (h : WK (ES m) p) : WK0 (p.continueSpawner m) := by
  unfold continueSpawner
  simp only
  split
  · exact wk0_applyLoop m _ p h
  · exact wk0_mapLoop m _ p h

theorem wk0_stepMetaNotStarted {p : Pool} {m : Nat} (h : WK (ES m) p) (r : Req) : WK0 (p.stepMetaNotStarted m r) := by
  unfold stepMetaNotStarted
  split
  · exact wk0_finishMeta h _
  · split
    · exact wk0_applyLoop m _ p h
    · exact wk0_mapLoop m _ p h

theorem wk0_roomWaitCancelled {p : Pool} {m : Nat} (h : WK (ES m) p) (r : Req) (st : Option WaitSt) :
    WK0 (p.roomWaitCancelled m r st) := by
  unfold roomWaitCancelled
  simp only
  refine wk0_finishMeta ?_ _
  have h1 : WK (ES m) (if (st == some WaitSt.granted) = true then p.releasePool else p) := by
    split
    · exact wk_releasePool h
    · exact h
  generalize (if (st == some WaitSt.granted) = true then p.releasePool else p) = q at h1 ⊢
  split
  · exact wk_releaseMap h1 m
  · exact h1

theorem wk0_roomGranted {p : Pool} {m : Nat} (h : WK (ES m) p) (r : Req) : WK0 (p.roomGranted m r) := by
  unfold roomGranted
  simp only
  refine wk0_continueSpawner (wk_createTask ?_ _)
  have h0 : WK (ES m) (p.modReq m fun x => { x with frame := MFrame.running }) :=
    wk_modReq_ex h m _ rfl (fun _ => ⟨by rfl, by rfl⟩)
  split
  · exact wk_wake h0 _ rfl
  · exact h0

theorem wk0_wakeWaitRoomCore {p0 : Pool} {m : Nat} {r : Req} (h0 : WK0 p0) (hp : p0.reqs[m]? = some r)
    (hfr : r.frame = .waitRoom)
    (hc : ((removeWaiterL m p0.sem.waiters).1 == some .cancelled || r.mustCancel ||
      (removeWaiterL m p0.sem.waiters).1 == some .granted) = true) :
    WK0 ((p0.modReq m fun x => { x with sched := false }).wakeWaitRoomCore m r) := by
  have ho : r.outcome = none := by
    cases hout : r.outcome with
    | none => rfl
    | some o => have := h0.od m r hp id (by simp [hout]); rw [hfr] at this; cases this
  have hw : r.mapSem.waiters = [] := by
    cases hl : r.mapSem.waiters with
    | nil => rfl
    | cons w ws =>
      have := ((h0.mw m r hp w (by rw [hl]; exact List.mem_cons_self)).2 id).1
      rw [hfr] at this; cases this
  have h2 : WK (ES m) (({ (p0.modReq m fun x => { x with sched := false }) with
      sem := { p0.sem with waiters := (removeWaiterL m p0.sem.waiters).2 } } : Pool).modReq m
        fun x => { x with mustCancel := false }) := by
    refine wk_enter_gen h0 _ rfl ?_ (removeWaiterL_sublist _ _) (removeWaiterL_not_mem _ _ h0.pn)
      (fun x hx hne => removeWaiterL_mem_other _ _ _ hx hne) ⟨_, modReq_get_self _ _ _ _ (modReq_get_self _ _ _ r hp), hw, ho⟩
    intro i hi
    rw [modReq_get_ne _ _ _ _ hi]
    exact modReq_get_ne _ _ _ _ hi
  unfold wakeWaitRoomCore
  simp only
  split
  · exact wk0_roomWaitCancelled h2 r _
  · split
    · exact wk0_roomGranted h2 r
    · rename_i c1 c2
      have hc' : ((removeWaiterL m p0.sem.waiters).1 == some .cancelled || r.mustCancel) = true ∨
          ((removeWaiterL m p0.sem.waiters).1 == some .granted) = true := by
        simpa only [Bool.or_eq_true] using hc
      rcases hc' with a | a
      · exact absurd a c1
      · exact absurd a c2

theorem wk0_wakeWaitRoom {p0 : Pool} {m : Nat} {r : Req} (h0 : WK0 p0) (hp : p0.reqs[m]? = some r)
    (hfr : r.frame = .waitRoom) : WK0 ((p0.modReq m fun x => { x with sched := false }).wakeWaitRoom m r) := by
  unfold wakeWaitRoom
  split
  · rename_i hc; exact wk0_wakeWaitRoomCore h0 hp hfr hc
  · rename_i hc
    refine wk0_clearSched h0 hp (by rw [hfr]; simp) ?_ ?_
    · intro w hw hwo
      have e := removeWaiterL_fst_of_mem _ h0.pn w hw
      rw [hwo] at e
      simp only [wk_modReq_sem, e] at hc
      cases hst : w.st with
      | pending => rfl
      | granted => simp [hst] at hc
      | cancelled => simp [hst] at hc
    · intro w hw
      have := ((h0.mw m r hp w hw).2 id).1
      rw [hfr] at this; cases this

theorem wk0_mapSemGranted {p : Pool} {m : Nat} (h : WK (ES m) p) (r : Req) : WK0 (p.mapSemGranted m r) := by
  unfold mapSemGranted
  simp only
  have h1 := wk_mapStartTask (wk_modReq_ex h m (fun x => { x with acquired := true, frame := MFrame.running }) rfl
    (fun _ => ⟨rfl, rfl⟩))
  split
  · rename_i c; exact wk0_mapLoop m _ _ (h1.1 c)
  · rename_i c; exact h1.2 (by simpa using c)

/-- nobody waits on the semaphore any more: whatever `acquire()` does on its way out wakes nobody -/
theorem wk_s2_nil (s1 : Sem) (h : s1.waiters = []) (b c : Bool) :
    (if b = true then (if c = true then s1.release else if (!s1.value.isZero) = true then s1.wakeNext else (s1, none))
      else (s1, none)).1.waiters = [] ∧
    (if b = true then (if c = true then s1.release else if (!s1.value.isZero) = true then s1.wakeNext else (s1, none))
      else (s1, none)).2 = none := by
  cases b <;> cases c <;> cases s1.value.isZero <;> simp [Sem.release, Sem.wakeNext, wakeNextL, h]

theorem wk0_wakeWaitMapSemCore {p0 : Pool} {m : Nat} {r : Req} (h0 : WK0 p0) (hp : p0.reqs[m]? = some r)
    (hfr : r.frame = .waitMapSem)
    (hc : ((removeWaiterL m r.mapSem.waiters).1 == some .cancelled || r.mustCancel ||
      (removeWaiterL m r.mapSem.waiters).1 == some .granted) = true) :
    WK0 ((p0.modReq m fun x => { x with sched := false }).wakeWaitMapSemCore m r) := by
  have ho : r.outcome = none := by
    cases hout : r.outcome with
    | none => rfl
    | some o => have := h0.od m r hp id (by simp [hout]); rw [hfr] at this; cases this
  have hnm : m ∉ owners p0.sem.waiters := by
    intro hm
    obtain ⟨w, hw, hwo⟩ := mem_owners.mp hm
    obtain ⟨r1, hp1, hc1⟩ := h0.pw w hw
    rw [hwo, hp] at hp1; cases hp1
    have := (hc1 id).1
    rw [hfr] at this; cases this
  have hrm : (removeWaiterL m r.mapSem.waiters).2 = [] := by
    have hlen := h0.mn m r hp
    cases hl : r.mapSem.waiters with
    | nil => rfl
    | cons w ws =>
      have hwo := (h0.mw m r hp w (by rw [hl]; exact List.mem_cons_self)).1
      cases ws with
      | nil => simp [removeWaiterL, hwo]
      | cons _ _ => rw [hl] at hlen; simp at hlen
  unfold wakeWaitMapSemCore
  simp only
  have hs2 := wk_s2_nil { r.mapSem with waiters := (removeWaiterL m r.mapSem.waiters).2 } hrm
    ((removeWaiterL m r.mapSem.waiters).1 == some WaitSt.granted)
    ((removeWaiterL m r.mapSem.waiters).1 == some WaitSt.cancelled || r.mustCancel)
  generalize (if ((removeWaiterL m r.mapSem.waiters).1 == some WaitSt.granted) = true then _ else _ : Sem × Option Nat) = s2 at hs2 ⊢
  obtain ⟨s2a, s2b⟩ := s2
  obtain ⟨e1, e2⟩ := hs2
  simp only at e1 e2
  subst e2
  have h2 : WK (ES m) (((p0.modReq m fun x => { x with sched := false }).modReq m
      fun x => { x with mapSem := s2a, mustCancel := false }).schedOpt none) := by
    refine wk_enter_gen h0 _ rfl ?_ (List.Sublist.refl _) hnm (fun x hx _ => hx)
      ⟨_, modReq_get_self _ _ _ _ (modReq_get_self _ _ _ r hp), e1, ho⟩
    intro i hi
    show ((p0.modReq m _).modReq m _).reqs[i]? = _
    rw [modReq_get_ne _ _ _ _ hi]
    exact modReq_get_ne _ _ _ _ hi
  split
  · exact wk0_finishMeta h2 _
  · split
    · exact wk0_mapSemGranted h2 r
    · rename_i c1 c2
      simp only [Bool.or_eq_true, not_or] at c1 hc
      rcases hc with (a | a) | a
      · exact absurd a c1.1
      · exact absurd a c1.2
      · exact absurd a c2

theorem wk0_wakeWaitMapSem {p0 : Pool} {m : Nat} {r : Req} (h0 : WK0 p0) (hp : p0.reqs[m]? = some r)
    (hfr : r.frame = .waitMapSem) : WK0 ((p0.modReq m fun x => { x with sched := false }).wakeWaitMapSem m r) := by
  unfold wakeWaitMapSem
  split
  · rename_i hc; exact wk0_wakeWaitMapSemCore h0 hp hfr hc
  · rename_i hc
    refine wk0_clearSched h0 hp (by rw [hfr]; simp) ?_ ?_
    · intro w hw hwo
      obtain ⟨r1, hp1, hc1⟩ := h0.pw w hw
      rw [hwo, hp] at hp1; cases hp1
      have := (hc1 id).1
      rw [hfr] at this; cases this
    · intro w hw
      have hlen := h0.mn m r hp
      have hwo := (h0.mw m r hp w hw).1
      cases hl : r.mapSem.waiters with
      | nil => rw [hl] at hw; cases hw
      | cons w1 ws =>
        cases ws with
        | cons _ _ => rw [hl] at hlen; simp at hlen
        | nil =>
          rw [hl, List.mem_singleton] at hw; subst hw
          simp only [hl, removeWaiterL, hwo, if_true] at hc
          cases hst : w.st with
          | pending => rfl
          | granted => simp [hst] at hc
          | cancelled => simp [hst] at hc

theorem wk0_stepMeta {p : Pool} (h : WK0 p) (m : Nat) : WK0 (p.stepMeta m) := by
  unfold stepMeta
  split
  · exact h
  · rename_i r hp
    split
    · exact h
    · simp only
      have hpw : ∀ fr, r.frame = fr → fr ≠ .waitRoom → ∀ w ∈ p.sem.waiters, w.owner = m → w.st = .pending := by
        intro fr hfr hne w hw hwo
        obtain ⟨r1, hp1, hc1⟩ := h.pw w hw
        rw [hwo, hp] at hp1; cases hp1
        exact absurd ((hc1 id).1 ▸ hfr).symm hne
      have hmw : ∀ fr, r.frame = fr → fr ≠ .waitMapSem → ∀ w ∈ r.mapSem.waiters, w.st = .pending := by
        intro fr hfr hne w hw
        have := ((h.mw m r hp w hw).2 id).1
        exact absurd (this ▸ hfr).symm hne
      split
      · rename_i hfr
        exact wk0_clearSched h hp (by rw [hfr]; simp) (hpw _ hfr (by simp)) (hmw _ hfr (by simp))
      · rename_i hfr
        exact wk0_clearSched h hp (by rw [hfr]; simp) (hpw _ hfr (by simp)) (hmw _ hfr (by simp))
      · rename_i hfr
        have ho : r.outcome = none := by
          cases hout : r.outcome with
          | none => rfl
          | some o => have := h.od m r hp id (by simp [hout]); rw [hfr] at this; cases this
        have hn : m ∉ owners p.sem.waiters := by
          intro hm
          obtain ⟨w, hw, hwo⟩ := mem_owners.mp hm
          have := hpw _ hfr (by simp) w hw hwo
          obtain ⟨r1, hp1, hc1⟩ := h.pw w hw
          rw [hwo, hp] at hp1; cases hp1
          have := (hc1 id).1
          rw [hfr] at this; cases this
        have hw : r.mapSem.waiters = [] := by
          cases hl : r.mapSem.waiters with
          | nil => rfl
          | cons w ws =>
            have := ((h.mw m r hp w (by rw [hl]; exact List.mem_cons_self)).2 id).1
            rw [hfr] at this; cases this
        exact wk0_stepMetaNotStarted
          (wk_modReq_ex (wk_enter_spawner h m r hp hn hw ho) m _ rfl (fun _ => ⟨by rfl, by rfl⟩)) r
      · rename_i hfr; exact wk0_wakeWaitRoom h hp hfr
      · rename_i hfr; exact wk0_wakeWaitMapSem h hp hfr

/-! ### assembly -/

theorem wk0_runRef {p : Pool} (h : WK0 p) (r : Ref) : WK0 (p.runRef r) := by
  cases r with
  | task t => exact wk0_stepTask h t
  | spawner m => exact wk0_stepMeta h m
  | api a => exact wk_stepApi h a
  | gchild g i => exact wk_gatherChildDone h g i true

theorem want_init (size : Cap) (simple : Option SpawnSpec) : Want (Pool.init size simple) := by
  refine { tq := ?_, tw := ?_, rs := ?_, pn := ?_, pw := ?_, pe := ?_, mn := ?_, mw := ?_, me := ?_, od := ?_, ce := ?_ }
  all_goals simp [Pool.init, owners]

theorem want_applyOp (p : Pool) (orders : List (List Nat)) (o : Op) (h : Want p) :
    Want (({ p with orders := orders } : Pool).applyOp o).1 :=
  (wk_applyOp (wk_of_eq h.wk (by rfl) (by rfl) (by rfl)) o).toWantOK

theorem want_runRef (p : Pool) (orders : List (List Nat)) (r : Ref) (h : Want p) :
    Want (({ p with orders := orders } : Pool).runRef r) :=
  (wk0_runRef (wk_of_eq h.wk (by rfl) (by rfl) (by rfl)) r).toWantOK

theorem want_drain (p : Pool) (h : Want p) : Want { p with emit := [] } :=
  (wk_of_eq h.wk (q := { p with emit := [] }) rfl rfl rfl).toWantOK

/-- **whoever has something to do is flagged**, in every pool of every reachable world -/
theorem wantInvariant : PoolInvariant (fun _ p => Want p) allOps where
  init := fun c simple _ => want_init c.size0 simple
  op := fun _ p orders o _ h => want_applyOp p orders o h
  run := fun _ p orders r h => want_runRef p orders r h
  drain := fun _ p h => want_drain p h

end Pool
end Taskpool
