import Taskpool.Inv.WantWalk
/-! **Whoever has something to do is flagged — the walk, part 2.**  The wrapper of a pool task (`completeTask` …
`stepTask`) with that task exempt, the spawners (`finishMeta` … `stepMeta`) with that spawner exempt, and the assembly:
`want_init`, `want_applyOp`, `want_runRef`, `want_drain`, `wantInvariant`. -/
namespace Taskpool
namespace Pool

/-- nobody exempt: the state between two steps -/
abbrev WK0 (p : Pool) : Prop := WK (fun _ => False) p

/-- the task whose handle is being run -/
abbrev ET (t : Nat) : Ref → Prop := fun x => x = Ref.task t
/-- the spawner whose handle is being run -/
abbrev ES (m : Nat) : Ref → Prop := fun x => x = Ref.spawner m

/-! ### the wrapper of a pool task -/

theorem modTask_self_some {p : Pool} {t : Nat} {f : PTask → PTask} {k : PTask}
    (h : (p.modTask t f).tasks[t]? = some k) : ∃ k0, p.tasks[t]? = some k0 ∧ k = f k0 := by
  obtain ⟨k0, hk0⟩ := getElem?_some_of_length_eq (l := (p.modTask t f).tasks) (l' := p.tasks) (by simp [modTask]) h
  have e := modify_some hk0 h
  rw [if_pos rfl] at e
  exact ⟨k0, hk0, e⟩

/-- the last change to the task whose handle is being run: afterwards it satisfies its clauses again -/
theorem wk0_modTask_close {p : Pool} {t : Nat} (h : WK (ET t) p) (f : PTask → PTask)
    (hf : ∀ k, p.tasks[t]? = some k → TG (f k)) : WK0 (p.modTask t f) := by
  refine (wk_close_task (wk_modTask_ex h t f rfl) ?_).wk
  intro k hk
  obtain ⟨k0, hk0, rfl⟩ := modTask_self_some hk
  exact hf k0 hk0

theorem wk0_of_none {p : Pool} {t : Nat} (h : WK (ET t) p) (hn : p.tasks[t]? = none) : WK0 p :=
  (wk_close_task h (fun k hk => by rw [hn] at hk; cases hk)).wk

theorem wk0_completeTask {p : Pool} {t : Nat} (h : WK (ET t) p) (o : Outcome) : WK0 (p.completeTask t o) := by
  unfold completeTask
  split
  · rename_i hn; exact wk0_of_none h hn
  · refine wk_emitChildren (wk0_modTask_close h _ ?_) _
    intro k _
    exact ⟨fun hq => by simp [PTask.quiet] at hq, by simp, fun _ => rfl⟩

theorem wk0_finishTask {p : Pool} {t : Nat} (h : WK (ET t) p) : WK0 (p.finishTask t) := by
  unfold finishTask
  split
  · rename_i hn; exact wk0_of_none h hn
  · exact wk0_completeTask h _

/-- a phase in which the wrapper is suspended on a future of the environment -/
def Susp (ph : Phase) : Prop := ph = .inWorker ∨ ph = .inCancelCb ∨ ph = .inEndCb

theorem wk0_suspendTask {p : Pool} {t : Nat} (h : WK (ET t) p) (ph : Phase) (hph : Susp ph) :
    WK0 (p.suspendTask t ph) := by
  unfold suspendTask
  split
  · rename_i hn; exact wk0_of_none h hn
  · split
    · rw [modTask_schedTask]
      refine wk_emitRef (wk0_modTask_close h _ ?_) _
      intro k _
      refine ⟨fun _ => rfl, ?_, ?_⟩
      · show ph ≠ .wrapUp
        rcases hph with e | e | e <;> rw [e] <;> simp
      · show ph = .finished → _
        rcases hph with e | e | e <;> rw [e] <;> simp
    · refine wk0_modTask_close h _ ?_
      intro k _
      refine ⟨fun hq => ?_, ?_, ?_⟩
      · rcases hph with e | e | e <;> simp [PTask.quiet, e] at hq
      · show ph ≠ .wrapUp
        rcases hph with e | e | e <;> rw [e] <;> simp
      · show ph = .finished → _
        rcases hph with e | e | e <;> rw [e] <;> simp

theorem wk_cbBegin {p : Pool} {t : Nat} (h : WK (ET t) p) (tk : PTask) (isEnd : Bool) :
    WK (ET t) (p.cbBegin t tk isEnd) := by
  unfold cbBegin
  simp only
  exact wk_runHooks (wk_logEv (wk_modTask_ex h t _ rfl) _) _ _

/-- a user callback: either the wrapper is suspended inside it (and the step is over), or it goes on -/
theorem wk_runCb {p : Pool} {t : Nat} (h : WK (ET t) p) (tk : PTask) (isEnd : Bool) :
    ((p.runCb t tk isEnd).2 = true → WK0 (p.runCb t tk isEnd).1) ∧
    ((p.runCb t tk isEnd).2 = false → WK (ET t) (p.runCb t tk isEnd).1) := by
  unfold runCb
  split
  · exact ⟨fun e => by cases e, fun _ => h⟩
  · exact ⟨fun e => by cases e, fun _ => wk_logEv (wk_cbBegin h tk isEnd) _⟩
  · exact ⟨fun e => by cases e, fun _ => wk_modTask_ex (wk_logEv (wk_cbBegin h tk isEnd) _) t _ rfl⟩
  · refine ⟨fun _ => wk0_suspendTask (wk_cbBegin h tk isEnd) _ ?_, fun e => by cases e⟩
    cases isEnd
    · exact Or.inr (Or.inl rfl)
    · exact Or.inr (Or.inr rfl)

theorem wk_moveToEnded {E : Ref → Prop} {p : Pool} (h : WK E p) (t : Nat) (q : Pool) (hq : p.moveToEnded t = some q) :
    WK E q := by
  unfold moveToEnded at hq
  split at hq
  · simp only [Option.some.injEq] at hq; subst hq; exact wk_of_eq h rfl rfl rfl
  · split at hq
    · simp only [Option.some.injEq] at hq; subst hq; exact wk_of_eq h rfl rfl rfl
    · cases hq

theorem wk_releaseMapSlot {p : Pool} {t : Nat} (h : WK (ET t) p) (tk : PTask) : WK (ET t) (p.releaseMapSlot t tk) := by
  unfold releaseMapSlot
  split
  · exact wk_modTask_ex (wk_releaseMap h _) t _ rfl
  · exact h

theorem wk0_endCallback {p : Pool} {t : Nat} (h : WK (ET t) p) (tk : PTask) : WK0 (p.endCallback t tk) := by
  unfold endCallback
  simp only
  have hr := wk_runCb (wk_releaseMapSlot h tk) tk true
  split
  · rename_i c; exact hr.1 c
  · rename_i c; exact wk0_finishTask (hr.2 (by simpa using c))

theorem wk0_endingTail {p : Pool} {t : Nat} (h : WK (ET t) p) (tk : PTask) : WK0 (p.endingTail t tk) := by
  unfold endingTail
  exact wk0_endCallback (wk_modTask_ex (wk_releasePool h) t _ rfl) tk

theorem wk0_keyErrorFinish {p : Pool} {t : Nat} (h : WK (ET t) p) : WK0 (p.keyErrorFinish t) := by
  unfold keyErrorFinish
  exact wk0_finishTask (wk_modTask_ex (wk_of_eq h (by rfl) (by rfl) (by rfl)) t _ rfl)

theorem wk0_taskEnding {p : Pool} {t : Nat} (h : WK (ET t) p) : WK0 (p.taskEnding t) := by
  unfold taskEnding
  split
  · rename_i hn; exact wk0_of_none h hn
  · split
    · exact wk0_keyErrorFinish h
    · rename_i p1 hm
      exact wk0_endingTail (wk_moveToEnded h t p1 hm) _

theorem wk0_cancelCallback {p : Pool} {t : Nat} (h : WK (ET t) p) (tk : PTask) : WK0 (p.cancelCallback t tk) := by
  unfold cancelCallback
  simp only
  have hr := wk_runCb h tk false
  split
  · rename_i c; exact hr.1 c
  · rename_i c; exact wk0_taskEnding (hr.2 (by simpa using c))

theorem wk0_taskCancellation {p : Pool} {t : Nat} (h : WK (ET t) p) (tk : PTask) :
    WK0 (p.taskCancellation t tk) := by
  unfold taskCancellation
  split
  · exact wk0_cancelCallback (wk_modTask_ex (wk_of_eq h (by rfl) (by rfl) (by rfl)) t _ rfl) tk
  · exact wk0_taskEnding (wk_modTask_ex (wk_of_eq h (by rfl) (by rfl) (by rfl)) t _ rfl)

theorem wk0_afterWorker {p : Pool} {t : Nat} (h : WK (ET t) p) (e : Option Err) : WK0 (p.afterWorker t e) := by
  unfold afterWorker
  split
  · exact wk0_taskEnding (wk_modTask_ex (wk_logEv h _) t _ rfl)
  · exact wk0_taskEnding (wk_modTask_ex (wk_logEv h _) t _ rfl)

theorem wk0_stepCreated {p : Pool} {t : Nat} (h : WK (ET t) p) (tk : PTask) : WK0 (p.stepCreated t tk) := by
  unfold stepCreated
  split
  · exact wk0_taskCancellation (wk_modTask_ex h t _ rfl) tk
  · simp only
    have h0 : WK (ET t) (((p.logEv (.started t tk.arg)).modTask t fun k => { k with phase := .inWorker, fut := .ok, unstarted := false }).runHooks tk.req (p.reqOf tk).hooks.start) :=
      wk_runHooks (wk_modTask_ex (wk_logEv h _) t _ rfl) _ _
    split
    · exact wk0_afterWorker h0 _
    · exact wk0_afterWorker h0 _
    · exact wk0_suspendTask h0 _ (Or.inl rfl)

theorem wk0_workerCancelled {p : Pool} {t : Nat} (h : WK (ET t) p) (tk : PTask) : WK0 (p.workerCancelled t tk) := by
  unfold workerCancelled
  split
  · exact wk0_suspendTask (wk_modTask_ex (wk_logEv h _) t _ rfl) _ (Or.inl rfl)
  · simp only
    have h0 : WK (ET t) ((p.logEv (.sawCancel t)).modTask t fun k => { k with sawCancel := true, phase := .wrapUp, nSaw := k.nSaw + 1 }) :=
      wk_modTask_ex (wk_logEv h _) t _ rfl
    split
    · exact wk0_afterWorker h0 _
    · exact wk0_taskCancellation h0 tk

/-- the task as it is filed in the pool while its handle runs: the record read at the start, flag cleared -/
theorem wk0_still_quiet {p : Pool} {t : Nat} (h : WK (ET t) p) (tk : PTask)
    (hk : p.tasks[t]? = some { tk with sched := false }) (hph : Susp tk.phase) (hf : tk.fut = .pending) : WK0 p := by
  refine (wk_close_task h ?_).wk
  intro k hk'
  rw [hk] at hk'; cases hk'
  refine ⟨fun hq => ?_, ?_, ?_⟩
  · rcases hph with e | e | e <;> simp [PTask.quiet, e, hf] at hq
  · show tk.phase ≠ .wrapUp
    rcases hph with e | e | e <;> rw [e] <;> simp
  · show tk.phase = .finished → _
    rcases hph with e | e | e <;> rw [e] <;> simp

theorem wk0_stepInWorker {p : Pool} {t : Nat} (h : WK (ET t) p) (tk : PTask)
    (hk : p.tasks[t]? = some { tk with sched := false }) (hph : tk.phase = .inWorker) : WK0 (p.stepInWorker t tk) := by
  unfold stepInWorker
  split
  · exact wk0_workerCancelled (wk_modTask_ex h t _ rfl) tk
  · rename_i hc
    split
    · exact wk0_afterWorker h _
    · exact wk0_afterWorker h _
    · rename_i h1 h2
      refine wk0_still_quiet h tk hk (Or.inl hph) ?_
      cases hf : tk.fut with
      | pending => rfl
      | ok => exact absurd hf (h1)
      | exc e => exact absurd hf (h2 e)
      | cancelled => simp [hf] at hc

theorem wk0_stepInCancelCb {p : Pool} {t : Nat} (h : WK (ET t) p) (tk : PTask)
    (hk : p.tasks[t]? = some { tk with sched := false }) (hph : tk.phase = .inCancelCb) :
    WK0 (p.stepInCancelCb t tk) := by
  unfold stepInCancelCb
  split
  · exact wk0_taskEnding (wk_modTask_ex (wk_logEv h _) t _ rfl)
  · exact wk0_taskEnding (wk_modTask_ex (wk_logEv h _) t _ rfl)
  · exact wk0_taskEnding (wk_modTask_ex (wk_logEv h _) t _ rfl)
  · rename_i hf
    exact wk0_still_quiet h tk hk (Or.inr (Or.inl hph)) hf

theorem wk0_stepInEndCb {p : Pool} {t : Nat} (h : WK (ET t) p) (tk : PTask)
    (hk : p.tasks[t]? = some { tk with sched := false }) (hph : tk.phase = .inEndCb) : WK0 (p.stepInEndCb t tk) := by
  unfold stepInEndCb
  split
  · exact wk0_finishTask (wk_logEv h _)
  · exact wk0_finishTask (wk_modTask_ex (wk_logEv h _) t _ rfl)
  · exact wk0_finishTask (wk_modTask_ex (wk_logEv h _) t _ rfl)
  · rename_i hf
    exact wk0_still_quiet h tk hk (Or.inr (Or.inr hph)) hf

theorem wk0_stepTask {p : Pool} (h : WK0 p) (t : Nat) : WK0 (p.stepTask t) := by
  unfold stepTask
  split
  · exact h
  · rename_i tk htk
    split
    · exact h
    · simp only
      have h1 : WK (ET t) (p.modTask t fun k => { k with sched := false }) :=
        wk_modTask_ex (wk_enter_task h t) t _ rfl
      have hk1 : (p.modTask t fun k => { k with sched := false }).tasks[t]? = some { tk with sched := false } := by
        simp [modTask, List.getElem?_modify, htk]
      have htg := h.tg t tk htk (fun f => f)
      split
      · exact wk0_stepCreated h1 tk
      · rename_i hph; exact absurd hph htg.2.1
      · rename_i hph; exact wk0_stepInWorker h1 tk hk1 hph
      · rename_i hph; exact wk0_stepInCancelCb h1 tk hk1 hph
      · rename_i hph; exact wk0_stepInEndCb h1 tk hk1 hph
      · rename_i hph
        refine (wk_close_task h1 ?_).wk
        intro k hk'
        rw [hk1] at hk'; cases hk'
        have ho := htg.2.2 hph
        exact ⟨fun hq => by simp [PTask.quiet, ho] at hq, htg.2.1, fun _ => ho⟩

end Pool
end Taskpool
