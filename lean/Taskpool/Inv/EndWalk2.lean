import Taskpool.Inv.EndWalk
/-! **A task inside its end callback stays filed as ended — the walk, part 2 (`EndWalk2.lean`).**

The steps that are not frame steps (`EStep`, part 1):

* the step of a pool task `t`.  No entity has to be exempt: the registry move (`moveToEnded`) comes *before* the task
  suspends inside its end callback, so `EndFiled` holds at every intermediate state.  Walking predicate before the move:
  `TK t p` — `EndFiled p`, and every `gather_and_close()` suspended in its second gather awaits `t` as long as `t` is filed
  as running or cancelled (from `SealOK.g2` at the start of the step; kept by frame steps because gathers keep their
  children, `running ++ cancelledR` only shrinks up to new tasks, and nobody enters a `gather2` frame).  After the move:
  `EndFiled p ∧ t ∈ p.ended`.
* the stages of `flush()` / `gather_and_close()`: the last stages forget only ids of finished tasks (`FlushOK.gth` for the
  gather that has just completed normally, with `fe` + `FlushOK.api` resp. `ge` for "the forgotten ids are children"), and
  the frame change into `gather2` happens right after a gather over (at least) the ended registry was started. -/
namespace Taskpool
namespace Pool

/-! ### the step of a pool task -/

/-- every `gather_and_close()` suspended in its second gather awaits task `t` -/
def GacAwaits (t : Nat) (p : Pool) : Prop :=
  ∀ (a : Nat) (A : Api) (g : Nat), p.apis[a]? = some A → A.frame = .gather2 g → A.kind.isGac = true →
    ∃ G : Gather, p.gathers[g]? = some G ∧ Child.task t ∈ G.children

theorem GacAwaits.step {t : Nat} {p q : Pool} (h : GacAwaits t p) (s : EStep p q) : GacAwaits t q := by
  intro a A' g hq hf hk
  obtain ⟨A, hp, f, k, _⟩ := s.ap a A' g hq hf
  obtain ⟨G, hG, hc⟩ := h a A g hp f (by rw [k]; exact hk)
  obtain ⟨G', hG', e⟩ := s.ga g G hG
  exact ⟨G', hG', by rw [e]; exact hc⟩

/-- the walking predicate of the step of task `t`, before the task is filed as ended -/
structure TK (t : Nat) (p : Pool) : Prop where
  ok : EndFiled p
  lt : t < p.tasks.length
  aw : t ∈ p.running ++ p.cancelledR → GacAwaits t p

theorem TK.step {t : Nat} {p q : Pool} (h : TK t p) (s : EStep p q) : TK t q :=
  ⟨h.ok.step s, Nat.lt_of_lt_of_le h.lt s.tl, fun hm => by
    rcases s.ru t hm with a | a
    · exact (h.aw a).step s
    · have := h.lt; omega⟩

theorem tk_of_seal {t : Nat} {p : Pool} {tk : PTask} (hs : Seal p) (he : EndFiled p) (ht : p.tasks[t]? = some tk) :
    TK t p :=
  ⟨he, lt_of_getElem?_some ht, fun hm a A g hA hf hk => by
    obtain ⟨_, G, hG, hsub⟩ := hs.g2 a A g hA hk hf
    exact ⟨G, hG, hsub t hm⟩⟩

/-- a task that is filed as ended may be rewritten at will -/
theorem endFiled_modTask_ended {t : Nat} {p : Pool} (he : EndFiled p) (ht : t ∈ p.ended) (f : PTask → PTask) :
    EndFiled (p.modTask t f) where
  ef := fun i k' hq _ hph => by
    obtain ⟨k, hk, e⟩ := modify_inv (l := p.tasks) hq
    by_cases c : t = i
    · subst c; exact ht
    · rw [if_neg c] at e; subst e; exact he.ef i _ hk (fun x => x) hph
  fe := fun a A g hq => he.fe a A g hq
  ge := fun a A g hq => he.ge a A g hq

/-- … in particular it may suspend inside its end callback -/
theorem endFiled_suspendTask_ended {t : Nat} {p : Pool} (he : EndFiled p) (ht : t ∈ p.ended) (ph : Phase) :
    EndFiled (p.suspendTask t ph) := by
  unfold suspendTask
  split
  · exact he
  · split
    · exact (endFiled_modTask_ended he ht _).step (estep_schedTask _ _)
    · exact endFiled_modTask_ended he ht _

/-- task `t`, awaited by every closing `gather_and_close()`, is filed as ended -/
theorem endFiled_file {t : Nat} {p : Pool} (he : EndFiled p) (hg : GacAwaits t p) (q : Pool)
    (h1 : q.ended = p.ended ++ [t]) (h2 : q.tasks = p.tasks := by rfl) (h3 : q.apis = p.apis := by rfl)
    (h4 : q.gathers = p.gathers := by rfl) : EndFiled q where
  ef := fun i k hq _ hph => by
    rw [h2] at hq
    rw [h1]; exact List.mem_append_left _ (he.ef i k hq (fun x => x) hph)
  fe := fun a A g hq hf hk => by
    rw [h3] at hq; rw [h4]; exact he.fe a A g hq hf hk
  ge := fun a A g hq hf hk => by
    rw [h3] at hq
    obtain ⟨G, hG, hsub⟩ := he.ge a A g hq hf hk
    obtain ⟨G', hG', hc⟩ := hg a A g hq hf hk
    rw [hG] at hG'; cases hG'
    rw [h4]
    refine ⟨G, hG, fun x hx => ?_⟩
    rw [h1] at hx
    rcases List.mem_append.mp hx with b | b
    · exact hsub x b
    · rw [List.mem_singleton] at b; subst b; exact hc

/-- the registry move -/
theorem tk_moveToEnded {t : Nat} {p q : Pool} (h : TK t p) (hm : p.moveToEnded t = some q) :
    EndFiled q ∧ t ∈ q.ended := by
  unfold moveToEnded at hm
  split at hm
  · rename_i c
    simp only [Option.some.injEq] at hm; subst hm
    have hin : t ∈ p.running := by simpa using c
    exact ⟨endFiled_file h.ok (h.aw (List.mem_append_left _ hin)) _ rfl, by simp⟩
  · split at hm
    · rename_i c
      simp only [Option.some.injEq] at hm; subst hm
      have hin : t ∈ p.cancelledR := by simpa using c
      exact ⟨endFiled_file h.ok (h.aw (List.mem_append_right _ hin)) _ rfl, by simp⟩
    · cases hm

/-- the end callback of a task that is filed as ended -/
theorem te_runCb_end {t : Nat} {p : Pool} (tk : PTask) (he : EndFiled p) (ht : t ∈ p.ended) :
    EndFiled (p.runCb t tk true).1 := by
  unfold runCb
  split
  · exact he
  · exact he.step ((estep_cbBegin p t tk true).trans (estep_logEv _ _))
  · exact he.step ((estep_cbBegin p t tk true).trans ((estep_logEv _ _).trans (estep_modTask _ _ _)))
  · have s := estep_cbBegin p t tk true
    exact endFiled_suspendTask_ended (he.step s) (by rw [s.en]; exact ht) _

theorem te_endCallback {t : Nat} {p : Pool} (tk : PTask) (he : EndFiled p) (ht : t ∈ p.ended) :
    EndFiled (p.endCallback t tk) := by
  unfold endCallback
  simp only
  have s := estep_releaseMapSlot p t tk
  have hr := te_runCb_end (t := t) tk (he.step s) (by rw [s.en]; exact ht)
  split
  · exact hr
  · exact hr.step (estep_finishTask _ t)

theorem te_endingTail {t : Nat} {p : Pool} (tk : PTask) (he : EndFiled p) (ht : t ∈ p.ended) :
    EndFiled (p.endingTail t tk) := by
  unfold endingTail
  have s : EStep p ((p.releasePool).modTask t fun k => { k with released := true }) :=
    (estep_releasePool p).trans (estep_modTask _ _ _)
  exact te_endCallback tk (he.step s) (by rw [s.en]; exact ht)

theorem tk_taskEnding {t : Nat} {p : Pool} (h : TK t p) : EndFiled (p.taskEnding t) := by
  unfold taskEnding
  split
  · exact h.ok
  · split
    · exact h.ok.step (estep_keyErrorFinish p t)
    · rename_i p1 hm
      obtain ⟨a, b⟩ := tk_moveToEnded h hm
      exact te_endingTail _ a b

theorem tk_cancelCallback {t : Nat} {p : Pool} (tk : PTask) (h : TK t p) : EndFiled (p.cancelCallback t tk) := by
  unfold cancelCallback
  simp only
  have hr := h.step (estep_runCb_cancel p t tk)
  split
  · exact hr.ok
  · exact tk_taskEnding hr

theorem tk_taskCancellation {t : Nat} {p : Pool} (tk : PTask) (h : TK t p) : EndFiled (p.taskCancellation t tk) := by
  unfold taskCancellation
  split
  · rename_i c
    have h1 : EStep p ({ p with running := p.running.erase t, cancelledR := p.cancelledR ++ [t] } : Pool) :=
      { EStep.refl p with
        ru := fun x hx => by
          rcases List.mem_append.mp hx with a | a
          · exact Or.inl (List.mem_append_left _ (List.mem_of_mem_erase a))
          · rcases List.mem_append.mp a with b | b
            · exact Or.inl (List.mem_append_right _ b)
            · rw [List.mem_singleton] at b; subst b
              exact Or.inl (List.mem_append_left _ (by simpa using c)) }
    exact tk_cancelCallback tk (h.step (h1.trans (estep_modTask _ _ _)))
  · exact tk_taskEnding (h.step ((estep_of_eq p { p with lost := true }).trans (estep_modTask _ _ _)))

theorem tk_afterWorker {t : Nat} {p : Pool} (e : Option Err) (h : TK t p) : EndFiled (p.afterWorker t e) := by
  unfold afterWorker
  split
  · exact tk_taskEnding (h.step ((estep_logEv p _).trans (estep_modTask _ _ _)))
  · exact tk_taskEnding (h.step ((estep_logEv p _).trans (estep_modTask _ _ _)))

theorem tk_stepCreated {t : Nat} {p : Pool} (tk : PTask) (h : TK t p) : EndFiled (p.stepCreated t tk) := by
  unfold stepCreated
  split
  · exact tk_taskCancellation tk (h.step (estep_modTask p _ _))
  · simp only
    have h0 := h.step (((estep_logEv p (.started t tk.arg)).trans
      (estep_modTask _ t fun k => { k with phase := .inWorker, fut := .ok, unstarted := false })).trans
      (estep_runHooks _ tk.req (p.reqOf tk).hooks.start))
    split
    · exact tk_afterWorker _ h0
    · exact tk_afterWorker _ h0
    · exact (h0.step ((estep_modTask _ _ _).trans (estep_suspendTask _ _ _ (by simp)))).ok

theorem tk_workerCancelled {t : Nat} {p : Pool} (tk : PTask) (h : TK t p) : EndFiled (p.workerCancelled t tk) := by
  unfold workerCancelled
  split
  · exact h.ok.step (((estep_logEv p _).trans (estep_modTask _ _ _)).trans (estep_suspendTask _ _ _ (by simp)))
  · simp only
    have h0 := h.step ((estep_logEv p (.sawCancel t)).trans
      (estep_modTask _ t fun k => { k with sawCancel := true, phase := .wrapUp, nSaw := k.nSaw + 1 }))
    split
    · exact tk_afterWorker _ h0
    · exact tk_taskCancellation tk h0

theorem tk_stepInWorker {t : Nat} {p : Pool} (tk : PTask) (h : TK t p) : EndFiled (p.stepInWorker t tk) := by
  unfold stepInWorker
  split
  · exact tk_workerCancelled tk (h.step (estep_modTask p _ _))
  · split
    · split
      · exact h.ok.step (estep_workerNext p t tk)
      · exact tk_afterWorker _ h
    · exact tk_afterWorker _ h
    · exact h.ok

theorem tk_stepInCancelCb {t : Nat} {p : Pool} (tk : PTask) (h : TK t p) : EndFiled (p.stepInCancelCb t tk) := by
  unfold stepInCancelCb
  split
  · exact tk_taskEnding (h.step ((estep_logEv p _).trans (estep_modTask _ _ _)))
  · exact tk_taskEnding (h.step ((estep_logEv p _).trans (estep_modTask _ _ _)))
  · exact tk_taskEnding (h.step ((estep_logEv p _).trans (estep_modTask _ _ _)))
  · exact h.ok

/-- a pool task takes a step -/
theorem endFiled_stepTask (p : Pool) (t : Nat) (hs : Seal p) (he : EndFiled p) : EndFiled (p.stepTask t) := by
  unfold stepTask
  split
  · exact he
  · rename_i tk htk
    split
    · exact he
    · simp only
      have h1 : TK t (p.modTask t fun k => { k with sched := false }) :=
        (tk_of_seal hs he htk).step (estep_modTask p _ _)
      split
      · exact tk_stepCreated tk h1
      · exact h1.ok
      · exact tk_stepInWorker tk h1
      · exact tk_stepInCancelCb tk h1
      · exact h1.ok.step (estep_stepInEndCb _ t tk)
      · exact h1.ok

/-! ### flush / gather_and_close -/

/-- the last step of `flush`: the ids it forgets belong to finished tasks -/
theorem endFiled_flushAfter2 (p : Pool) (a : Nat) (o : Outcome) (he : EndFiled p)
    (hd : o = .ok → ∀ t, t ∈ (p.apis[a]?.getD default).snapE ∨ t ∈ (p.apis[a]?.getD default).snapC → TaskFin p t) :
    EndFiled (p.flushAfter2 a o) := by
  unfold flushAfter2
  split
  · simp only
    refine EndOK.step ?_ (estep_finishApi _ a _)
    refine ⟨fun t k hq _ hph => ?_, fun a' A g hq => he.fe a' A g hq, fun a' A g hq hf hk => ?_⟩
    · have hin := he.ef t k hq (fun x => x) hph
      refine List.mem_filter.mpr ⟨hin, ?_⟩
      cases hc : ((p.apis[a]?.getD default).snapE.contains t || (p.apis[a]?.getD default).snapC.contains t) with
      | false => rfl
      | true =>
        have hor : t ∈ (p.apis[a]?.getD default).snapE ∨ t ∈ (p.apis[a]?.getD default).snapC := by simpa using hc
        obtain ⟨k', hk', hfin⟩ := hd rfl t hor
        have hq' : p.tasks[t]? = some k := hq
        rw [hq'] at hk'; cases hk'; rw [hph] at hfin; cases hfin
    · obtain ⟨G, hG, hsub⟩ := he.ge a' A g hq hf hk
      exact ⟨G, hG, fun t ht => hsub t (List.mem_filter.mp ht).1⟩
  · exact he.step (estep_finishApi p a _)

/-- the closing step of `gather_and_close`: every task filed as ended has finished -/
theorem endFiled_gacAfter2 (p : Pool) (a : Nat) (o : Outcome) (he : EndFiled p)
    (hd : o = .ok → ∀ t ∈ p.ended, TaskFin p t) : EndFiled (p.gacAfter2 a o) := by
  unfold gacAfter2
  split
  · simp only
    refine EndOK.step ?_ (estep_finishApi _ a _)
    refine EndOK.step ?_ (estep_foldl _ _ (fun q w => estep_schedApi q w) _)
    refine ⟨fun t k hq _ hph => ?_, fun a' A g hq => he.fe a' A g hq, fun a' A g hq hf hk => ?_⟩
    · have hin := he.ef t k hq (fun x => x) hph
      obtain ⟨k', hk', hfin⟩ := hd rfl t hin
      have hq' : p.tasks[t]? = some k := hq
      rw [hq'] at hk'; cases hk'; rw [hph] at hfin; cases hfin
    · obtain ⟨G, hG, _⟩ := he.ge a' A g hq hf hk
      exact ⟨G, hG, fun t ht => nomatch ht⟩
  · exact he.step (estep_finishApi p a _)

/-- a background call enters its second gather, which has what the call's kind requires among its children -/
theorem endFiled_enterGather2 (p : Pool) (a g : Nat) (he : EndFiled p) (G : Gather) (hG : p.gathers[g]? = some G)
    (hfl : ∀ x, p.apis[a]? = some x → x.kind.isGac = false → ∀ t ∈ x.snapE, Child.task t ∈ G.children)
    (hgc : ∀ x, p.apis[a]? = some x → x.kind.isGac = true → ∀ t ∈ p.ended, Child.task t ∈ G.children) :
    EndFiled (p.modApi a fun x => { x with frame := .gather2 g }) := by
  refine ⟨fun t k hq => he.ef t k hq, fun i A' g' hq hf hk => ?_, fun i A' g' hq hf hk => ?_⟩
  · obtain ⟨A, hA, e⟩ := modify_inv (l := p.apis) hq
    by_cases c : a = i
    · subst c; rw [if_pos rfl] at e; subst e
      have : g = g' := by injection hf
      subst this
      exact ⟨G, hG, hfl A hA hk⟩
    · rw [if_neg c] at e; subst e
      exact he.fe i _ g' hA hf hk
  · obtain ⟨A, hA, e⟩ := modify_inv (l := p.apis) hq
    by_cases c : a = i
    · subst c; rw [if_pos rfl] at e; subst e
      have : g = g' := by injection hf
      subst this
      exact ⟨G, hG, hgc A hA hk⟩
    · rw [if_neg c] at e; subst e
      exact he.ge i _ g' hA hf hk

theorem gatherOuter_some {p : Pool} {g : Nat} {G : Gather} {o : Outcome} (hG : p.gathers[g]? = some G)
    (ho : p.gatherOuter g = some o) : G.outer = some o := by
  unfold gatherOuter at ho; rw [hG] at ho; exact ho

theorem endFiled_flushAfter1 (p : Pool) (a : Nat) (re : Bool) (o : Outcome) (he : EndFiled p) (hf : FlushOK p)
    (hfr : ApiAt p a (fun x => ∀ g, x.frame ≠ .gather2 g)) : EndFiled (p.flushAfter1 a re o) := by
  unfold flushAfter1
  split
  · exact he.step (estep_finishApi p a _)
  · simp only
    have s1 : EStep p ({ p with metaCancelled := [], reqs := p.reqs.map fun (r : Req) => { r with inCancelled := false } } : Pool) :=
      estep_of_eq _ _
    have f1 : FlushOK ({ p with metaCancelled := [], reqs := p.reqs.map fun (r : Req) => { r with inCancelled := false } } : Pool) :=
      hf.frame rfl rfl (fun _ h => h)
    have s2 := s1.trans (estep_modApi ({ p with metaCancelled := [], reqs := p.reqs.map fun (r : Req) => { r with inCancelled := false } } : Pool) a
      (fun x => { x with snapE := p.ended, snapC := p.cancelledR }) (fun x g hx h => absurd h (hfr x hx g)))
    have f2 := (tame_modApi ({ p with metaCancelled := [], reqs := p.reqs.map fun (r : Req) => { r with inCancelled := false } } : Pool) a
      (fun x => { x with snapE := p.ended, snapC := p.cancelledR }) (fun _ => rfl)
      (fun x hx g h => absurd h (hfr x hx g))).toTame0.fok f1
    -- what the snapshot of call `a` is now
    have hsn : ∀ x, (({ p with metaCancelled := [], reqs := p.reqs.map fun (r : Req) => { r with inCancelled := false } } : Pool).modApi a
        (fun x => { x with snapE := p.ended, snapC := p.cancelledR })).apis[a]? = some x →
        x.snapE = p.ended ∧ x.snapC = p.cancelledR := by
      intro x hx
      obtain ⟨y, _, e⟩ := modify_inv (l := p.apis) hx
      rw [if_pos rfl] at e; subst e
      exact ⟨rfl, rfl⟩
    have hen2 : (({ p with metaCancelled := [], reqs := p.reqs.map fun (r : Req) => { r with inCancelled := false } } : Pool).modApi a
        (fun x => { x with snapE := p.ended, snapC := p.cancelledR })).ended = p.ended := rfl
    have hca2 : (({ p with metaCancelled := [], reqs := p.reqs.map fun (r : Req) => { r with inCancelled := false } } : Pool).modApi a
        (fun x => { x with snapE := p.ended, snapC := p.cancelledR })).cancelledR = p.cancelledR := rfl
    generalize (({ p with metaCancelled := [], reqs := p.reqs.map fun (r : Req) => { r with inCancelled := false } } : Pool).modApi a
        (fun x => { x with snapE := p.ended, snapC := p.cancelledR })) = p2 at s2 f2 hsn hen2 hca2 ⊢
    rw [hen2, hca2]
    have s3 := s2.trans (estep_gatherStart p2 (p.ended.map Child.task ++ p.cancelledR.map Child.task) re a 0)
    have f3 := (tame_gatherStart p2 (p.ended.map Child.task ++ p.cancelledR.map Child.task) re a 0).toTame0.fok f2
    obtain ⟨⟨G', hG', hch⟩, hap⟩ := gatherStart_facts p2 (p.ended.map Child.task ++ p.cancelledR.map Child.task) re a 0
    generalize p2.gatherStart (p.ended.map Child.task ++ p.cancelledR.map Child.task) re a 0 = q at *
    have he3 := he.step s3
    split
    · rename_i o' ho
      refine endFiled_flushAfter2 q.1 a o' he3 (fun e t ht => ?_)
      subst e
      refine f3.gth _ G' hG' (gatherOuter_some hG' ho) t ?_
      rw [hch]
      cases hx : p2.apis[a]? with
      | none =>
        rw [hap, hx] at ht
        have e1 : (default : Api).snapE = [] := rfl
        have e2 : (default : Api).snapC = [] := rfl
        simp [e1, e2] at ht
      | some x =>
        rw [hap, hx] at ht
        simp only [Option.getD_some] at ht
        rw [(hsn x hx).1, (hsn x hx).2] at ht
        rcases ht with b | b
        · exact List.mem_append_left _ (List.mem_map.mpr ⟨t, b, rfl⟩)
        · exact List.mem_append_right _ (List.mem_map.mpr ⟨t, b, rfl⟩)
    · refine endFiled_enterGather2 q.1 a q.2 he3 G' hG' (fun x hx _ t ht => ?_) (fun x hx _ t ht => ?_)
      · rw [hap] at hx
        rw [(hsn x hx).1] at ht
        rw [hch]
        exact List.mem_append_left _ (List.mem_map.mpr ⟨t, ht, rfl⟩)
      · rw [s3.en] at ht
        rw [hch]
        exact List.mem_append_left _ (List.mem_map.mpr ⟨t, ht, rfl⟩)

theorem endFiled_flushStage1 (p : Pool) (a : Nat) (re : Bool) (he : EndFiled p) (hf : FlushOK p)
    (hfr : ApiAt p a (fun x => ∀ g, x.frame ≠ .gather2 g)) : EndFiled (p.flushStage1 a re) := by
  unfold flushStage1
  simp only
  have s1 : EStep p ({ p with reqs := p.reqs.map fun (r : Req) => if r.inRunning && r.outcome.isSome then { r with inRunning := false } else r } : Pool) :=
    estep_of_eq _ _
  have f1 : FlushOK ({ p with reqs := p.reqs.map fun (r : Req) => if r.inRunning && r.outcome.isSome then { r with inRunning := false } else r } : Pool) :=
    hf.frame rfl rfl (fun _ h => h)
  have s2 := s1.trans (estep_gatherStart _ (p.metaCancelled.map Child.spawner ++
    (indicesWhere p.reqs fun r => r.inRunning && r.outcome.isSome).map Child.spawner) re a
    (p.metaCancelled.map Child.spawner ++ (indicesWhere p.reqs fun r => r.inRunning && r.outcome.isSome).map Child.spawner).length)
  have f2 := (tame_gatherStart ({ p with reqs := p.reqs.map fun (r : Req) => if r.inRunning && r.outcome.isSome then { r with inRunning := false } else r } : Pool)
    (p.metaCancelled.map Child.spawner ++ (indicesWhere p.reqs fun r => r.inRunning && r.outcome.isSome).map Child.spawner) re a
    (p.metaCancelled.map Child.spawner ++ (indicesWhere p.reqs fun r => r.inRunning && r.outcome.isSome).map Child.spawner).length).toTame0.fok f1
  split
  · refine endFiled_flushAfter1 _ a re _ (he.step s2) f2 (fun x hx => ?_)
    rw [(gatherStart_facts _ _ _ _ _).2] at hx
    exact hfr x hx
  · exact he.step (s2.trans (estep_modApi_out _ a _ (fun _ _ h => nomatch h)))

theorem endFiled_gacAfter1 (p : Pool) (a : Nat) (re : Bool) (g : Nat) (he : EndFiled p) (hf : FlushOK p)
    (hk : ApiAt p a (fun x => x.kind.isGac = true)) : EndFiled (p.gacAfter1 a re g) := by
  unfold gacAfter1
  simp only
  split
  · exact he.step (estep_finishApi p a _)
  · have s1 : EStep p ({ p with metaCancelled := [], reqs := p.reqs.map fun (r : Req) => { r with inCancelled := false, inRunning := false } } : Pool) :=
      estep_of_eq _ _
    have f1 : FlushOK ({ p with metaCancelled := [], reqs := p.reqs.map fun (r : Req) => { r with inCancelled := false, inRunning := false } } : Pool) :=
      hf.frame rfl rfl (fun _ h => h)
    have hk1 : ApiAt ({ p with metaCancelled := [], reqs := p.reqs.map fun (r : Req) => { r with inCancelled := false, inRunning := false } } : Pool) a
      (fun x => x.kind.isGac = true) := hk
    generalize ({ p with metaCancelled := [], reqs := p.reqs.map fun (r : Req) => { r with inCancelled := false, inRunning := false } } : Pool) = p1 at s1 f1 hk1 ⊢
    have s2 := s1.trans (estep_gatherStart p1 (p.ended.map Child.task ++ p.cancelledR.map Child.task ++ p.running.map Child.task) re a 0)
    have f2 := (tame_gatherStart p1 (p.ended.map Child.task ++ p.cancelledR.map Child.task ++ p.running.map Child.task) re a 0).toTame0.fok f1
    obtain ⟨⟨G', hG', hch⟩, hap⟩ := gatherStart_facts p1 (p.ended.map Child.task ++ p.cancelledR.map Child.task ++ p.running.map Child.task) re a 0
    generalize p1.gatherStart (p.ended.map Child.task ++ p.cancelledR.map Child.task ++ p.running.map Child.task) re a 0 = q at *
    have he2 := he.step s2
    have hsub : ∀ t ∈ q.1.ended, Child.task t ∈ G'.children := fun t ht => by
      rw [s2.en] at ht
      rw [hch]
      exact List.mem_append_left _ (List.mem_append_left _ (List.mem_map.mpr ⟨t, ht, rfl⟩))
    split
    · rename_i o' ho
      refine endFiled_gacAfter2 q.1 a o' he2 (fun e t ht => ?_)
      subst e
      exact f2.gth _ G' hG' (gatherOuter_some hG' ho) t (hsub t ht)
    · refine endFiled_enterGather2 q.1 a q.2 he2 G' hG' (fun x hx hn => ?_) (fun x hx _ => hsub)
      rw [hap] at hx
      rw [hk1 x hx] at hn; cases hn

theorem endFiled_gacStage1 (p : Pool) (a : Nat) (re : Bool) (he : EndFiled p) (hf : FlushOK p)
    (hk : ApiAt p a (fun x => x.kind.isGac = true)) : EndFiled (p.gacStage1 a re) := by
  rw [gacStage1_eq]
  have s1 : EStep p (p.gacStage1Pre a re).1 := by
    unfold gacStage1Pre
    simp only
    exact (estep_of_eq p _).trans (estep_gatherStart _ _ _ _ _)
  have f1 : FlushOK (p.gacStage1Pre a re).1 := by
    unfold gacStage1Pre
    simp only
    exact (tame_gatherStart _ _ _ _ _).toTame0.fok (hf.frame rfl rfl (fun _ h => h))
  have hk1 : ApiAt (p.gacStage1Pre a re).1 a (fun x => x.kind.isGac = true) := by
    intro x hx
    unfold gacStage1Pre at hx
    simp only at hx
    rw [(gatherStart_facts _ _ _ _ _).2] at hx
    exact hk x hx
  split
  · exact endFiled_gacAfter1 _ a re _ (he.step s1) f1 hk1
  · exact he.step (s1.trans (estep_modApi_out _ a _ (fun _ _ h => nomatch h)))

/-- a background call takes a step -/
theorem endFiled_stepApi (p : Pool) (a : Nat) (hf : FlushOK p) (he : EndFiled p) : EndFiled (p.stepApi a) := by
  unfold stepApi
  split
  · exact he
  · rename_i A hA
    split
    · exact he
    · simp only
      have s0 : EStep p (p.modApi a fun x => { x with sched := false }) := estep_modApi_triv p a _
      have he0 := he.step s0
      have f0 : FlushOK (p.modApi a fun x => { x with sched := false }) := (tame_modApi p a _).toTame0.fok hf
      have hx : (p.modApi a fun x => { x with sched := false }).apis[a]? = some { A with sched := false } := by
        simp only [modApi]; exact getElem?_modify_eq _ _ _ _ hA
      have hat : ∀ P : Api → Prop, P { A with sched := false } → ApiAt (p.modApi a fun x => { x with sched := false }) a P := by
        intro P hP x hx'
        rw [hx] at hx'; cases hx'
        exact hP
      split
      · exact he0
      · rename_i re hfr hk
        refine endFiled_flushStage1 _ a re he0 f0 (hat _ (fun g h => ?_))
        rw [show ({ A with sched := false } : Api).frame = A.frame from rfl, hfr] at h; cases h
      · rename_i re hfr hk
        exact endFiled_gacStage1 _ a re he0 f0 (hat _ (by rw [show ({ A with sched := false } : Api).kind = A.kind from rfl, hk]; rfl))
      · exact he0.step (estep_untilClosedStart _ _)
      · exact he0.step (estep_finishApi _ _ _)
      · rename_i g re hfr hk
        split
        · refine endFiled_flushAfter1 _ a re _ he0 f0 (hat _ (fun g' h => ?_))
          rw [show ({ A with sched := false } : Api).frame = A.frame from rfl, hfr] at h; cases h
        · exact he0
      · rename_i g re hfr hk
        split
        · exact endFiled_gacAfter1 _ a re g he0 f0 (hat _ (by rw [show ({ A with sched := false } : Api).kind = A.kind from rfl, hk]; rfl))
        · exact he0
      · rename_i g re hfr hk
        split
        · rename_i o ho
          refine endFiled_flushAfter2 _ a o he0 (fun e t ht => ?_)
          subst e
          -- the call is suspended in its second gather, which has completed normally
          rw [hx] at ht
          simp only [Option.getD_some] at ht
          have hkind : ({ A with sched := false } : Api).kind.isGac = false := by
            rw [show ({ A with sched := false } : Api).kind = A.kind from rfl, hk]; rfl
          obtain ⟨G, hG, hsubE⟩ := he0.fe a _ g hx hfr hkind
          obtain ⟨G', hG', hsubC⟩ := f0.api a _ g hx hfr hkind
          rw [hG] at hG'; cases hG'
          have hout := gatherOuter_some hG ho
          rcases ht with b | b
          · exact f0.gth g G hG hout t (hsubE t b)
          · exact f0.gth g G hG hout t (hsubC t b)
        · exact he0
      · rename_i g re hfr hk
        split
        · rename_i o ho
          refine endFiled_gacAfter2 _ a o he0 (fun e t ht => ?_)
          subst e
          have hkind : ({ A with sched := false } : Api).kind.isGac = true := by
            rw [show ({ A with sched := false } : Api).kind = A.kind from rfl, hk]; rfl
          obtain ⟨G, hG, hsub⟩ := he0.ge a _ g hx hfr hkind
          exact f0.gth g G hG (gatherOuter_some hG ho) t (hsub t ht)
        · exact he0
      · exact he0

/-! ### the packaged theorems -/

theorem endFiled_init (cap : Cap) (simple : Option SpawnSpec) : EndFiled (Pool.init cap simple) where
  ef := fun t k h => by simp [Pool.init] at h
  fe := fun a A g h => by simp [Pool.init] at h
  ge := fun a A g h => by simp [Pool.init] at h

theorem endFiled_applyOp {cap : Cap} (p : Pool) (o : Op)
    (_hg : Good cap true false p) (_hs : Seal p) (he : EndFiled p) : EndFiled (p.applyOp o).1 :=
  he.step (estep_applyOp p o)

theorem endFiled_runRef {cap : Cap} (p : Pool) (r : Ref)
    (hg : Good cap true false p) (_hw : Want p) (hs : Seal p) (he : EndFiled p) : EndFiled (p.runRef r) := by
  cases r with
  | task t => exact endFiled_stepTask p t hs he
  | spawner m => exact he.step (estep_stepMeta p m)
  | api a => exact endFiled_stepApi p a hg.fl he
  | gchild g i => exact he.step (estep_gatherChildDone p g i true)

theorem endFiled_orders (p : Pool) (orders : List (List Nat)) (he : EndFiled p) :
    EndFiled { p with orders := orders } := he.step (estep_of_eq _ _)

theorem endFiled_drain (p : Pool) (he : EndFiled p) : EndFiled { p with emit := [] } := he.step (estep_of_eq _ _)

end Pool
end Taskpool
