import Taskpool.Inv.WantWalk2
/-! **A spawner that was never cancelled ends only when its work is done** (histories without `gather_and_close`).

`FinOK p`: no `gather_and_close` was ever called and the pool is not closed; whatever looks like a cancellation of a
spawner (its `must_cancel` flag, a cancelled entry of its in one of the waiter queues) goes back to a `cancel_group` /
`cancel_all` that filed it as cancelled (ghost `everCancelled`); a live spawner that was never cancelled is filed as
running (so `_start_task` ignores the lock for it); and a spawner that was never cancelled and has an outcome has
finished normally with **nothing left** — `remaining = 0`, `items = []`, and for a map-style request no pulled element
in hand (`pulled = created + skipped`) — or is a map-style request whose argument iterator raised. -/
namespace Taskpool
namespace Pool

structure FinOK (p : Pool) : Prop where
  nog : ∀ (a : Nat) (A : Api), p.apis[a]? = some A → ∀ re, A.kind ≠ .gac re
  ncl : p.closed = false
  cg : ∀ (m : Nat) (r : Req), p.reqs[m]? = some r → r.mustCancel = true → r.everCancelled = true
  cw : ∀ w ∈ p.sem.waiters, w.st = .cancelled → ∀ (r : Req), p.reqs[w.owner]? = some r → r.everCancelled = true
  cm : ∀ (m : Nat) (r : Req), p.reqs[m]? = some r → ∀ w ∈ r.mapSem.waiters, w.st = .cancelled → r.everCancelled = true
  ir : ∀ (m : Nat) (r : Req), p.reqs[m]? = some r → r.outcome = none → r.everCancelled = false → r.inRunning = true
  ok : ∀ (m : Nat) (r : Req), p.reqs[m]? = some r → r.everCancelled = false → ∀ o, r.outcome = some o →
         (o = .ok ∧ r.remaining = 0 ∧ r.items = [] ∧ (r.kind = .map → r.pulled = r.created + r.skipped)) ∨
         (r.kind = .map ∧ o = .exc (.user 4))
  /-- `map` rejects `num_concurrent < 1` (the ghost `nc` is the initial value of the call's own semaphore) -/
  nc1 : ∀ (m : Nat) (r : Req), p.reqs[m]? = some r → r.kind = .map → 1 ≤ r.nc
  /-- needed for `ok` to be inductive: an apply-style request has no argument iterator … -/
  ka : ∀ (m : Nat) (r : Req), p.reqs[m]? = some r → r.kind = .apply → r.items = []
  /-- … a map-style request no invocation counter … -/
  km : ∀ (m : Nat) (r : Req), p.reqs[m]? = some r → r.kind = .map → r.remaining = 0
  /-- … and only a map-style request waits for a call's own semaphore (`_arg_consumer` resumes from there) -/
  kw : ∀ (m : Nat) (r : Req), p.reqs[m]? = some r → r.frame = .waitMapSem → r.kind = .map
  /-- a live map-style spawner that has not begun has nothing in hand: every pulled element is a task or was skipped … -/
  pc0 : ∀ (m : Nat) (r : Req), p.reqs[m]? = some r → r.kind = .map → r.outcome = none → r.frame = .notStarted →
          r.pulled = r.created + r.skipped
  /-- … one that is suspended in an `acquire()` holds exactly one pulled element for which no task exists yet -/
  pc1 : ∀ (m : Nat) (r : Req), p.reqs[m]? = some r → r.kind = .map → r.outcome = none →
          r.frame = .waitRoom ∨ r.frame = .waitMapSem → r.pulled = r.created + r.skipped + 1

/-- the invariant that is lifted: `Want` (needed for "a spawner with an outcome is never stepped again") and `FinOK` -/
def WantFin (p : Pool) : Prop := Want p ∧ FinOK p

end Pool
end Taskpool
