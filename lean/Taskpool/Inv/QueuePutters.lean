import Taskpool.Inv.QueueShell
/-! C20, bounded queues, part 2: no lost putter wake-up — an invariant of the asyncio shell.

`PInvF q free`: every producer waiting in `put()` whose putter future is pending is registered in `_putters` and not
scheduled; every other waiting producer (future resolved by `get_nowait()`, or cancelled) is scheduled and its handle
is in the ready queue; and — the counting clause — if some putter future is pending, then there are at least `free`
producers whose wake-up is on its way.  `PInv q` = `PInvF q (maxsize − qsize)`.  Preserved by every step. -/
namespace Taskpool.QueueM

def isWaitingP : PPhase → Bool
  | .waiting => true
  | _ => false

/-- how many (producer, task bookkeeping) pairs satisfy `f` -/
def cnt2 (f : Prod → Aux → Bool) : List Prod → List Aux → Nat
  | p :: ps, a :: as => (if f p a then 1 else 0) + cnt2 f ps as
  | _, _ => 0

/-- waiting in `put()`, putter future pending -/
def pendW (p : Prod) (a : Aux) : Bool := isWaitingP p.phase && a.gate == .pending
/-- waiting in `put()`, putter future resolved: the wake-up is on its way -/
def wokenW (p : Prod) (a : Aux) : Bool := isWaitingP p.phase && a.gate == .woken

/-! ### counting over two lists -/

theorem cnt2_set_core (f : Prod → Aux → Bool) (ps : List Prod) (as : List Aux) (j : Nat) (p : Prod) (a : Aux) (p' : Prod)
    (a' : Aux) (hp : ps[j]? = some p) (ha : as[j]? = some a) :
    cnt2 f (ps.set j p') (as.set j a') + (if f p a then 1 else 0) = cnt2 f ps as + (if f p' a' then 1 else 0) := by
  induction ps generalizing as j with
  | nil => simp at hp
  | cons b bs ih =>
    cases as with
    | nil => simp at ha
    | cons c cs =>
      cases j with
      | zero =>
        simp at hp ha; subst hp; subst ha
        simp only [List.set_cons_zero, cnt2]; omega
      | succ n =>
        simp at hp ha
        have := ih cs n hp ha
        simp only [List.set_cons_succ, cnt2]; omega

theorem eq_set_of_pointwise {α} (l l' : List α) (j : Nat) (x x' : α) (h : l[j]? = some x)
    (hP : ∀ i, l'[i]? = if i = j then some x' else l[i]?) : l' = l.set j x' := by
  have hlt : j < l.length := (List.getElem?_eq_some_iff.1 h).1
  apply List.ext_getElem?
  intro i
  rw [hP i, List.getElem?_set]
  by_cases hij : i = j
  · subst hij; simp [hlt]
  · have : ¬ j = i := fun e => hij e.symm
    simp [hij, this]

theorem cnt2_set (f : Prod → Aux → Bool) (ps ps' : List Prod) (as as' : List Aux) (j : Nat) (p : Prod) (a : Aux)
    (p' : Prod) (a' : Aux) (hp : ps[j]? = some p) (ha : as[j]? = some a)
    (hP : ∀ i, ps'[i]? = if i = j then some p' else ps[i]?) (hA : ∀ i, as'[i]? = if i = j then some a' else as[i]?) :
    cnt2 f ps' as' + (if f p a then 1 else 0) = cnt2 f ps as + (if f p' a' then 1 else 0) := by
  rw [eq_set_of_pointwise ps ps' j p p' hp hP, eq_set_of_pointwise as as' j a a' ha hA]
  exact cnt2_set_core f ps as j p a p' a' hp ha

theorem cnt2_append (f : Prod → Aux → Bool) (ps : List Prod) (as : List Aux) (p : Prod) (a : Aux)
    (h : ps.length = as.length) : cnt2 f (ps ++ [p]) (as ++ [a]) = cnt2 f ps as + (if f p a then 1 else 0) := by
  induction ps generalizing as with
  | nil =>
    cases as with
    | nil => simp [cnt2]
    | cons c cs => simp at h
  | cons b bs ih =>
    cases as with
    | nil => simp at h
    | cons c cs =>
      simp at h
      have := ih cs h
      simp only [List.cons_append, cnt2, this]; omega

theorem cnt2_pos (f : Prod → Aux → Bool) (ps : List Prod) (as : List Aux) (h : 0 < cnt2 f ps as) :
    ∃ (j : Nat) (p : Prod) (a : Aux), ps[j]? = some p ∧ as[j]? = some a ∧ f p a = true := by
  induction ps generalizing as with
  | nil => simp [cnt2] at h
  | cons b bs ih =>
    cases as with
    | nil => simp [cnt2] at h
    | cons c cs =>
      simp only [cnt2] at h
      by_cases hf : f b c = true
      · exact ⟨0, b, c, by simp, by simp, hf⟩
      · simp only [hf, Bool.false_eq_true, if_false, Nat.zero_add] at h
        obtain ⟨j, p, a, h1, h2, h3⟩ := ih cs h
        exact ⟨j + 1, p, a, by simpa using h1, by simpa using h2, h3⟩

theorem cnt2_pos_of (f : Prod → Aux → Bool) (ps : List Prod) (as : List Aux) (j : Nat) (p : Prod) (a : Aux)
    (hp : ps[j]? = some p) (ha : as[j]? = some a) (hf : f p a = true) : 0 < cnt2 f ps as := by
  induction ps generalizing as j with
  | nil => simp at hp
  | cons b bs ih =>
    cases as with
    | nil => simp at ha
    | cons c cs =>
      cases j with
      | zero => simp at hp ha; subst hp; subst ha; simp only [cnt2, hf, if_true]; omega
      | succ n =>
        simp at hp ha
        have := ih cs n hp ha
        simp only [cnt2]; omega

/-! ### `_wakeup_next` -/

theorem wakeupNextBy_spec (g : Nat → FSt) (l : List Nat) :
    (∀ c, (Q.wakeupNextBy g l).2 = some c → g c = .pending ∧ c ∈ l)
    ∧ ((Q.wakeupNextBy g l).2 = none → ∀ i ∈ l, g i ≠ .pending)
    ∧ (∀ i ∈ l, g i = .pending → (Q.wakeupNextBy g l).2 = some i ∨ i ∈ (Q.wakeupNextBy g l).1)
    ∧ (∀ i ∈ (Q.wakeupNextBy g l).1, i ∈ l) := by
  induction l with
  | nil => simp [Q.wakeupNextBy]
  | cons c rest ih =>
    obtain ⟨i1, i2, i3, i4⟩ := ih
    unfold Q.wakeupNextBy
    by_cases hc : g c = .pending
    · simp only [hc, if_true]
      refine ⟨?_, ?_, ?_, ?_⟩
      · intro c' h; cases h; exact ⟨hc, by simp⟩
      · intro h; cases h
      · intro i hi _
        rcases List.mem_cons.1 hi with rfl | h
        · exact .inl rfl
        · exact .inr h
      · intro i hi; exact List.mem_cons_of_mem _ hi
    · simp only [hc, if_false]
      refine ⟨?_, ?_, ?_, ?_⟩
      · intro c' h; obtain ⟨a, b⟩ := i1 c' h; exact ⟨a, List.mem_cons_of_mem _ b⟩
      · intro h i hi
        rcases List.mem_cons.1 hi with rfl | h'
        · exact hc
        · exact i2 h i h'
      · intro i hi hp
        rcases List.mem_cons.1 hi with rfl | h'
        · exact absurd hp hc
        · exact i3 i h' hp
      · intro i hi; exact List.mem_cons_of_mem _ (i4 i hi)

/-! ### the invariant -/

structure PInvF (q : Q) (free : Nat) : Prop where
  len  : q.k.prods.length = q.paux.length
  pend : ∀ (j : Nat) (p : Prod) (a : Aux), q.k.prods[j]? = some p → q.paux[j]? = some a → p.phase = .waiting →
           a.gate = .pending → a.sched = false ∧ j ∈ q.putters
  fly  : ∀ (j : Nat) (p : Prod) (a : Aux), q.k.prods[j]? = some p → q.paux[j]? = some a → p.phase = .waiting →
           a.gate ≠ .pending → a.sched = true ∧ Ref.producer j ∈ q.ready
  mem  : ∀ j ∈ q.putters, ∃ p a, q.k.prods[j]? = some p ∧ q.paux[j]? = some a ∧ p.phase ≠ .notStarted ∧
           (a.gate = .pending → p.phase = .waiting)
  cnt  : 0 < cnt2 pendW q.k.prods q.paux → free ≤ cnt2 wokenW q.k.prods q.paux

/-- the number of free slots of a bounded queue (0 for an unbounded one, which is never full) -/
def Q.free (q : Q) : Nat := q.k.maxsize - q.k.items.length

def PInv (q : Q) : Prop := PInvF q q.free

theorem pinv_initN (n : Nat) : PInv (Q.initN n) := by
  constructor <;> simp [Q.initN, K.initN, cnt2]

/-- nothing about the producers changes (putters that are done may be dropped from `_putters`) -/
theorem PInvF.frame {q q' : Q} {f f' : Nat} (hI : PInvF q f) (h1 : q'.k.prods = q.k.prods) (h2 : q'.paux = q.paux)
    (hput : ∀ (i : Nat) (p : Prod) (a : Aux), q.k.prods[i]? = some p → q.paux[i]? = some a → p.phase = .waiting →
              a.gate = .pending → i ∈ q.putters → i ∈ q'.putters)
    (hput' : ∀ i ∈ q'.putters, i ∈ q.putters)
    (hR : ∀ (i : Nat) (p : Prod) (a : Aux), q.k.prods[i]? = some p → q.paux[i]? = some a → p.phase = .waiting →
            a.gate ≠ .pending → Ref.producer i ∈ q.ready → Ref.producer i ∈ q'.ready)
    (hf : 0 < cnt2 pendW q.k.prods q.paux → f' ≤ f) : PInvF q' f' := by
  constructor
  · rw [h1, h2]; exact hI.len
  · intro j p a hp ha hw hg
    rw [h1] at hp; rw [h2] at ha
    obtain ⟨x, y⟩ := hI.pend j p a hp ha hw hg
    exact ⟨x, hput j p a hp ha hw hg y⟩
  · intro j p a hp ha hw hg
    rw [h1] at hp; rw [h2] at ha
    obtain ⟨x, y⟩ := hI.fly j p a hp ha hw hg
    exact ⟨x, hR j p a hp ha hw hg y⟩
  · intro j hj
    rw [h1, h2]
    exact hI.mem j (hput' j hj)
  · rw [h1, h2]
    intro h
    have := hI.cnt h
    have := hf h
    omega

/-- same producers, same `_putters`, no producer handle removed from the ready queue -/
structure PSame (q q' : Q) : Prop where
  prods   : q'.k.prods = q.k.prods
  paux    : q'.paux = q.paux
  putters : q'.putters = q.putters
  ready   : ∀ i, Ref.producer i ∈ q.ready → Ref.producer i ∈ q'.ready
  free    : q'.free ≤ q.free

theorem PSame.refl (q : Q) : PSame q q := ⟨rfl, rfl, rfl, fun _ h => h, Nat.le_refl _⟩
theorem PSame.trans {a b c : Q} (h1 : PSame a b) (h2 : PSame b c) : PSame a c :=
  ⟨h2.prods.trans h1.prods, h2.paux.trans h1.paux, h2.putters.trans h1.putters, fun i h => h2.ready i (h1.ready i h),
   Nat.le_trans h2.free h1.free⟩

theorem PSame.pinvF {q q' : Q} {f : Nat} (h : PSame q q') (hI : PInvF q f) : PInvF q' f :=
  hI.frame h.prods h.paux (fun _ _ _ _ _ _ _ hi => h.putters ▸ hi) (fun _ hi => h.putters ▸ hi)
    (fun i _ _ _ _ _ _ hi => h.ready i hi) (fun _ => Nat.le_refl _)

theorem PInvF.mono {q : Q} {f f' : Nat} (hI : PInvF q f) (h : f' ≤ f) : PInvF q f' :=
  hI.frame rfl rfl (fun _ _ _ _ _ _ _ hi => hi) (fun _ hi => hi) (fun _ _ _ _ _ _ _ hi => hi) (fun _ => h)

theorem PSame.pinv {q q' : Q} (h : PSame q q') (hI : PInv q) : PInv q' := (h.pinvF hI).mono h.free

/-- one producer `j` changes from `(p, a)` to `(p', a')` -/
theorem PInvF.update {q q' : Q} {f f' : Nat} (hI : PInvF q f) (j : Nat) (p : Prod) (a : Aux) (p' : Prod) (a' : Aux)
    (hp : q.k.prods[j]? = some p) (ha : q.paux[j]? = some a)
    (hP : ∀ i, q'.k.prods[i]? = if i = j then some p' else q.k.prods[i]?)
    (hA : ∀ i, q'.paux[i]? = if i = j then some a' else q.paux[i]?)
    (hput : ∀ (i : Nat) (pi : Prod) (ai : Aux), i ≠ j → q.k.prods[i]? = some pi → q.paux[i]? = some ai →
              pi.phase = .waiting → ai.gate = .pending → i ∈ q.putters → i ∈ q'.putters)
    (hput' : ∀ i ∈ q'.putters, i = j ∨ i ∈ q.putters)
    (hR : ∀ i, i ≠ j → Ref.producer i ∈ q.ready → Ref.producer i ∈ q'.ready)
    (hj1 : p'.phase = .waiting → a'.gate = .pending → a'.sched = false ∧ j ∈ q'.putters)
    (hj2 : p'.phase = .waiting → a'.gate ≠ .pending → a'.sched = true ∧ Ref.producer j ∈ q'.ready)
    (hj3 : j ∈ q'.putters → p'.phase ≠ .notStarted ∧ (a'.gate = .pending → p'.phase = .waiting))
    (hc : ∀ P W P' W' : Nat, P' + (if pendW p a then 1 else 0) = P + (if pendW p' a' then 1 else 0) →
            W' + (if wokenW p a then 1 else 0) = W + (if wokenW p' a' then 1 else 0) →
            (0 < P → f ≤ W) → 0 < P' → f' ≤ W') : PInvF q' f' := by
  have c1 := cnt2_set pendW q.k.prods q'.k.prods q.paux q'.paux j p a p' a' hp ha hP hA
  have c2 := cnt2_set wokenW q.k.prods q'.k.prods q.paux q'.paux j p a p' a' hp ha hP hA
  constructor
  · rw [eq_set_of_pointwise _ _ j p p' hp hP, eq_set_of_pointwise _ _ j a a' ha hA]
    simp only [List.length_set]; exact hI.len
  · intro i pi ai hpi hai hw hg
    rw [hP i] at hpi; rw [hA i] at hai
    by_cases hij : i = j
    · subst hij
      simp only [if_true, Option.some.injEq] at hpi hai
      subst hpi; subst hai
      exact hj1 hw hg
    · simp only [hij, if_false] at hpi hai
      obtain ⟨x, y⟩ := hI.pend i pi ai hpi hai hw hg
      exact ⟨x, hput i pi ai hij hpi hai hw hg y⟩
  · intro i pi ai hpi hai hw hg
    rw [hP i] at hpi; rw [hA i] at hai
    by_cases hij : i = j
    · subst hij
      simp only [if_true, Option.some.injEq] at hpi hai
      subst hpi; subst hai
      exact hj2 hw hg
    · simp only [hij, if_false] at hpi hai
      obtain ⟨x, y⟩ := hI.fly i pi ai hpi hai hw hg
      exact ⟨x, hR i hij y⟩
  · intro i hi
    by_cases hij : i = j
    · subst hij
      obtain ⟨x, y⟩ := hj3 hi
      exact ⟨p', a', by rw [hP i]; simp, by rw [hA i]; simp, x, y⟩
    · rcases hput' i hi with h | h
      · exact absurd h hij
      · obtain ⟨pi, ai, x1, x2, x3, x4⟩ := hI.mem i h
        exact ⟨pi, ai, by rw [hP i]; simpa [hij] using x1, by rw [hA i]; simpa [hij] using x2, x3, x4⟩
  · exact hc _ _ _ _ c1 c2 hI.cnt

/-! ### `get_nowait()` wakes the next putter -/

theorem pgateOf_eq (q : Q) (j : Nat) (a : Aux) (h : q.paux[j]? = some a) : q.pgateOf j = a.gate := by
  simp [Q.pgateOf, h]

/-- `_wakeup_next(self._putters)` pays for one more free slot -/
theorem pinvF_wakePutter (q : Q) (f : Nat) (hI : PInvF q f) : PInvF q.wakePutter (f + 1) := by
  obtain ⟨s1, s2, s3, s4⟩ := wakeupNextBy_spec q.pgateOf q.putters
  unfold Q.wakePutter
  simp only
  split
  · rename_i hr
    refine hI.frame rfl rfl ?_ (fun i hi => s4 i hi) (fun _ _ _ _ _ _ _ h => h) ?_
    · intro i p a hp ha _ hg hi
      rcases s3 i hi (by rw [pgateOf_eq q i a ha]; exact hg) with h | h
      · rw [hr] at h; cases h
      · exact h
    · intro hpos
      exfalso
      obtain ⟨i, p, a, hp, ha, hf⟩ := cnt2_pos _ _ _ hpos
      simp only [pendW, Bool.and_eq_true, beq_iff_eq] at hf
      have hw : p.phase = .waiting := by
        cases hph : p.phase <;> simp_all [isWaitingP]
      have hi := (hI.pend i p a hp ha hw hf.2).2
      exact s2 hr i hi (by rw [pgateOf_eq q i a ha]; exact hf.2)
  · rename_i c hr
    obtain ⟨hg, hc⟩ := s1 c hr
    obtain ⟨p, a, hp, ha, _, hpw⟩ := hI.mem c hc
    have hga : a.gate = .pending := by rw [← pgateOf_eq q c a ha]; exact hg
    have hw : p.phase = .waiting := hpw hga
    refine hI.update c p a p { a with gate := .woken, suspended := false, sched := true } hp ha ?_ ?_ ?_ ?_ ?_ ?_ ?_ ?_ ?_
    · intro i
      by_cases hic : i = c
      · subst hic; simpa [Q.schedP, Q.modP] using hp
      · simp [Q.schedP, Q.modP, hic]
    · intro i
      by_cases hic : i = c
      · subst hic; simp [Q.schedP, Q.modP, ha]
      · have : ¬ c = i := fun e => hic e.symm
        simp [Q.schedP, Q.modP, hic, this]
    · intro i pi ai hic _ hai _ hgi hi
      rcases s3 i hi (by rw [pgateOf_eq q i ai hai]; exact hgi) with h | h
      · rw [hr] at h; cases h; exact absurd rfl hic
      · exact h
    · intro i hi; exact .inr (s4 i hi)
    · intro i _ hi; simp [Q.schedP, Q.modP, hi]
    · intro _ h; simp at h
    · intro _ _; simp [Q.schedP, Q.modP]
    · intro _; exact ⟨by simp [hw], fun h => by simp at h⟩
    · intro P W P' W' e1 e2 h0 _
      simp only [pendW, wokenW, hw, isWaitingP, hga, Bool.true_and, beq_self_eq_true, if_true] at e1 e2
      simp at e1 e2
      omega

end Taskpool.QueueM
