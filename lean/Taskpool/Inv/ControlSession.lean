import Taskpool.Model.Control.Session
/-! Ledger and buffer invariants of the session loop (C18). -/
namespace Taskpool.Control

def bump (b : Bool) : Nat := bif b then 0 else 1

theorem answerable_cons_some (t : List Tok) (ls : List Line) : answerable (some t :: ls) = answerable ls + 1 := by
  simp [answerable]

theorem answerable_cons_none (ls : List Line) : answerable (none :: ls) = 0 := by simp [answerable]

theorem hasBlank_cons_some (t : List Tok) (ls : List Line) : hasBlank (some t :: ls) = hasBlank ls := by
  simp [hasBlank]

theorem hasBlank_cons_none (ls : List Line) : hasBlank (none :: ls) = true := by simp [hasBlank]

theorem answerable_snoc : ∀ (ls : List Line) (l : Line),
    answerable (ls ++ [l]) = answerable ls + bump (hasBlank ls || l.isNone)
  | [], l => by cases l <;> simp [answerable, hasBlank, bump]
  | none :: ls, l => by
    rw [List.cons_append, answerable_cons_none, answerable_cons_none, hasBlank_cons_none]
    simp [bump]
  | some t :: ls, l => by
    rw [List.cons_append, answerable_cons_some, answerable_cons_some, hasBlank_cons_some, answerable_snoc ls l]
    omega

theorem hasBlank_snoc (ls : List Line) (l : Line) : hasBlank (ls ++ [l]) = (hasBlank ls || l.isNone) := by
  simp [hasBlank, List.any_append]

theorem unread_ended {ls : List Line} {s : Sess} (h : s.ended = true) : unread ls s = 0 := by simp [unread, h]
theorem unread_live {ls : List Line} {s : Sess} (h : s.ended = false) : unread ls s = answerable ls := by
  simp [unread, h]
theorem wcount_none {s : Sess} (h : s.waiting = none) : wcount s = 0 := by simp [wcount, h]
theorem wcount_some {s : Sess} {a : Action} (h : s.waiting = some a) : wcount s = 1 := by simp [wcount, h]

/-! ### one command -/

theorem handle_spec {σ} (cfg : Cfg σ) (pool : σ) (s : Sess) (toks : List Tok) (hw : s.waiting = none) :
    (handle cfg pool s toks).2.replies.length + wcount (handle cfg pool s toks).2 = s.replies.length + 1
      ∧ (handle cfg pool s toks).2.ended = s.ended ∧ (s.buf = [] → (handle cfg pool s toks).2.buf = []) := by
  simp only [handle]
  split
  · simp [respond, wcount, hw]
  · simp [respond, wcount, hw]
  · split
    · simp [wcount]
    · simp [respond, wcount, hw]

theorem handle_pool_of_no_act {σ} (cfg : Cfg σ) (pool : σ) (s : Sess) (toks : List Tok)
    (h : ∀ a, resolve cfg.rt cfg.table toks ≠ .act a) : (handle cfg pool s toks).1 = pool := by
  simp only [handle]
  split
  · rfl
  · rfl
  · rename_i a ha; exact absurd ha (h a)

/-! ### the read loop -/

theorem pump_spec {σ} (cfg : Cfg σ) : ∀ (ls : List Line) (pool : σ) (s : Sess),
    ledger (pump cfg ls pool s).2.inbox (pump cfg ls pool s).2 = ledger ls s
      ∧ blankSeen (pump cfg ls pool s).2.inbox (pump cfg ls pool s).2 = blankSeen ls s
      ∧ (s.buf = [] → (pump cfg ls pool s).2.buf = [])
  | [], pool, s => ⟨rfl, rfl, fun h => h⟩
  | l :: ls, pool, s => by
    simp only [pump]
    split
    · exact ⟨rfl, rfl, fun h => h⟩
    · rename_i hc
      simp only [Bool.or_eq_true, not_or, Bool.not_eq_true, Option.isSome_eq_false_iff, Option.isNone_iff_eq_none] at hc
      cases l with
      | none =>
        refine ⟨?_, ?_, fun h => h⟩
        · simp only [ledger]
          rw [unread_ended (s := { s with ended := true, inbox := ls }) rfl, unread_live hc.1, answerable_cons_none]
          rfl
        · simp [blankSeen, hasBlank_cons_none]
      | some toks =>
        have hh := handle_spec cfg pool s toks hc.2
        have ih := pump_spec cfg ls (handle cfg pool s toks).1 (handle cfg pool s toks).2
        refine ⟨?_, ?_, ?_⟩
        · rw [ih.1]
          have he : (handle cfg pool s toks).2.ended = false := by rw [hh.2.1]; exact hc.1
          simp only [ledger]
          rw [unread_live he, unread_live hc.1, answerable_cons_some, wcount_none hc.2]
          omega
        · rw [ih.2.1]
          simp [blankSeen, hh.2.1, hasBlank_cons_some]
        · intro hb
          exact ih.2.2 (hh.2.2 hb)

/-! ### sessions on one pool -/

@[simp] theorem upd_same (f : Nat → Sess) (i : Nat) (s : Sess) : upd f i s i = s := by simp [upd]
@[simp] theorem upd_other (f : Nat → Sess) {i j : Nat} (s : Sess) (h : j ≠ i) : upd f i s j = f j := by simp [upd, h]

theorem step_other {σ} (cfg : Cfg σ) (w : World σ) (x : In) (j : Nat)
    (h : match x with | .line i _ => j ≠ i | .done i _ => j ≠ i | .env _ => True) :
    (step cfg w x).sess j = w.sess j := by
  cases x with
  | line i l => simp only [step]; exact upd_other _ _ h
  | done i o =>
    simp only [step]
    split
    · rfl
    · exact upd_other _ _ h
  | env k => rfl

/-- ledger of session `i` against the lines it was sent -/
structure Booked {σ} (i : Nat) (base : Nat) (w : World σ) (sent : List Line) : Prop where
  count : ledger (w.sess i).inbox (w.sess i) = base + answerable sent
  blank : blankSeen (w.sess i).inbox (w.sess i) = hasBlank sent

theorem booked_step {σ} (cfg : Cfg σ) (i base : Nat) (w : World σ) (sent : List Line) (h : Booked i base w sent) (x : In) :
    Booked i base (step cfg w x) (sent ++ sentTo i [x]) := by
  cases x with
  | env k =>
    have : (step cfg w (.env k)).sess i = w.sess i := rfl
    constructor
    · rw [this]; simpa [sentTo] using h.count
    · rw [this]; simpa [sentTo] using h.blank
  | line j l =>
    by_cases hj : j = i
    · subst hj
      have hp := pump_spec cfg ((w.sess j).inbox ++ [l]) w.pool (w.sess j)
      have hc := h.count
      have hb := h.blank
      simp only [blankSeen] at hb
      constructor
      · simp only [step, upd_same, sentTo, if_true]
        rw [hp.1, answerable_snoc sent l, ← hb]
        simp only [ledger] at hc ⊢
        cases he : (w.sess j).ended
        · rw [unread_live he] at hc ⊢
          rw [answerable_snoc]
          simp only [Bool.false_or]
          omega
        · rw [unread_ended he] at hc ⊢
          simp only [Bool.true_or, bump, cond_true]
          omega
      · simp only [step, upd_same, sentTo, if_true]
        rw [hp.2.1, hasBlank_snoc sent l, ← hb]
        simp [blankSeen, hasBlank_snoc, Bool.or_assoc]
    · have : (step cfg w (.line j l)).sess i = w.sess i := step_other cfg w _ i (by simpa using fun h' => hj h'.symm)
      constructor
      · rw [this]; simpa [sentTo, hj] using h.count
      · rw [this]; simpa [sentTo, hj] using h.blank
  | done j o =>
    by_cases hj : j = i
    · subst hj
      simp only [sentTo, List.append_nil]
      cases hwt : (w.sess j).waiting with
      | none =>
        constructor
        · simpa [step, hwt] using h.count
        · simpa [step, hwt] using h.blank
      | some a =>
        have hp := pump_spec cfg (w.sess j).inbox (cfg.sem.complete a w.pool)
          (respond { w.sess j with waiting := none } (replyText a o))
        have hc := h.count
        have hb := h.blank
        have hin : (respond { w.sess j with waiting := none } (replyText a o)).inbox = (w.sess j).inbox := rfl
        constructor
        · simp only [step, hwt, upd_same]
          rw [hin, hp.1, ← hc]
          simp only [ledger]
          rw [wcount_some hwt, wcount_none (s := respond { w.sess j with waiting := none } (replyText a o)) rfl]
          have : unread (w.sess j).inbox (respond { w.sess j with waiting := none } (replyText a o))
              = unread (w.sess j).inbox (w.sess j) := rfl
          rw [this]
          simp [respond]
        · simp only [step, hwt, upd_same]
          rw [hin, hp.2.1, ← hb]
          rfl
    · have : (step cfg w (.done j o)).sess i = w.sess i := step_other cfg w _ i (by simpa using fun h' => hj h'.symm)
      constructor
      · rw [this]; simpa [sentTo] using h.count
      · rw [this]; simpa [sentTo] using h.blank

theorem sentTo_cons (i : Nat) (x : In) (ins : List In) : sentTo i (x :: ins) = sentTo i [x] ++ sentTo i ins := by
  cases x with
  | line j l => by_cases h : j = i <;> simp [sentTo, h]
  | done j o => simp [sentTo]
  | env k => simp [sentTo]

theorem booked_run {σ} (cfg : Cfg σ) (i base : Nat) : ∀ (ins : List In) (w : World σ) (sent : List Line),
    Booked i base w sent → Booked i base (run cfg w ins) (sent ++ sentTo i ins)
  | [], w, sent, h => by simpa [run, sentTo] using h
  | x :: ins, w, sent, h => by
    have := booked_run cfg i base ins (step cfg w x) (sent ++ sentTo i [x]) (booked_step cfg i base w sent h x)
    rw [sentTo_cons, ← List.append_assoc]
    simpa [run] using this

/-! ### the buffer is empty between commands -/

theorem buf_step {σ} (cfg : Cfg σ) (w : World σ) (h : ∀ i, (w.sess i).buf = []) (x : In) :
    ∀ i, ((step cfg w x).sess i).buf = [] := by
  intro i
  cases x with
  | env k => exact h i
  | line j l =>
    by_cases hj : i = j
    · subst hj
      simp only [step, upd_same]
      exact (pump_spec cfg _ _ _).2.2 (h i)
    · rw [step_other cfg w _ i (by simpa using hj)]; exact h i
  | done j o =>
    by_cases hj : i = j
    · subst hj
      simp only [step]
      split
      · exact h i
      · simp only [upd_same]
        exact (pump_spec cfg _ _ _).2.2 rfl
    · rw [step_other cfg w _ i (by simpa using hj)]; exact h i

theorem buf_run {σ} (cfg : Cfg σ) : ∀ (ins : List In) (w : World σ), (∀ i, (w.sess i).buf = []) →
    ∀ i, ((run cfg w ins).sess i).buf = []
  | [], _, h => h
  | x :: ins, w, h => by
    simp only [run, List.foldl_cons]
    exact buf_run cfg ins (step cfg w x) (buf_step cfg w h x)

end Taskpool.Control
