import Taskpool.Inv.QueueProd
/-! C20, part 2: the asyncio shell only ever performs guarded core operations (`KStep`), hence every state
reachable by any history satisfies the core invariant. -/
namespace Taskpool.QueueM
namespace Q

@[simp] theorem k_setK (q : Q) (k : K) : (q.setK k).k = k := rfl
@[simp] theorem k_modA (q : Q) (c : Nat) (f : Aux → Aux) : (q.modA c f).k = q.k := rfl
@[simp] theorem k_logEv (q : Q) (e : Ev) : (q.logEv e).k = q.k := rfl
@[simp] theorem k_schedC (q : Q) (c : Nat) : (q.schedC c).k = q.k := rfl

@[simp] theorem k_modP (q : Q) (j : Nat) (f : Aux → Aux) : (q.modP j f).k = q.k := rfl
@[simp] theorem k_schedP (q : Q) (j : Nat) : (q.schedP j).k = q.k := rfl

@[simp] theorem k_wakePutter (q : Q) : q.wakePutter.k = q.k := by
  unfold wakePutter
  simp only
  split <;> rfl

theorem aux_wakePutter (q : Q) : q.wakePutter.aux = q.aux := by
  unfold wakePutter
  simp only
  split <;> rfl

theorem getters_wakePutter (q : Q) : q.wakePutter.getters = q.getters := by
  unfold wakePutter
  simp only
  split <;> rfl

@[simp] theorem k_waitPutter (q : Q) (j : Nat) : (q.waitPutter j).k = q.k := rfl

@[simp] theorem k_wakeGetter (q : Q) : q.wakeGetter.k = q.k := by
  unfold wakeGetter
  simp only
  split <;> rfl

@[simp] theorem k_armGate (q : Q) (c : Nat) : (q.armGate c).k = q.k := by
  unfold armGate
  split
  · rfl
  · split <;> rfl

@[simp] theorem k_waitGetter (q : Q) (c : Nat) : (q.waitGetter c).k = q.k := by
  unfold waitGetter
  simp only
  split
  · rfl
  · split <;> rfl

theorem k_put (q : Q) (x : Nat) : (q.put x).k = if q.k.full then q.k else q.k.put x := by
  unfold put; split <;> simp

theorem k_tryGet (q : Q) (c : Nat) : (q.tryGet c).k = q.k.wait c ∨ (q.tryGet c).k = q.k.take c := by
  unfold tryGet
  split
  · left; simp
  · right; simp

@[simp] theorem k_exitBlock (q : Q) (c : Nat) (e : Exit) : (q.exitBlock c e).k = q.k.exit c e := rfl

@[simp] theorem k_abortGet (q : Q) (c : Nat) (w : Bool) : (q.abortGet c w).k = q.k.abort c := by
  unfold abortGet
  simp only
  split <;> simp

@[simp] theorem k_cancelConsumer (q : Q) (c : Nat) : (q.cancelConsumer c).k = q.k := by
  unfold cancelConsumer
  split
  · split
    · rfl
    · split <;> rfl
  · rfl

@[simp] theorem k_gate (q : Q) (c : Nat) (exc : Bool) : (q.gate c exc).k = q.k := by
  unfold gate
  split <;> rfl

@[simp] theorem k_handTake (q : Q) : q.handTake.k = q.k.handTake := by
  unfold handTake K.handTake
  split <;> simp_all

@[simp] theorem k_spawn (q : Q) : q.spawn.k = q.k.spawn := rfl
@[simp] theorem k_join (q : Q) : q.join.k = q.k.join := rfl
@[simp] theorem k_stepJoiner (q : Q) (j : Nat) : (q.stepJoiner j).k = q.k.stepJoiner j := rfl

theorem kstep_tryGet (q : Q) (c : Nat) (x : Core) (h : q.k.cores[c]? = some x) (hx : preBlock x.phase = true) :
    KStep q.k (q.tryGet c).k := by
  rcases k_tryGet q c with e | e <;> rw [e]
  · exact KStep.wait _ c x h hx
  · exact KStep.take _ c x h hx

theorem kstep_stepConsumer (q : Q) (c : Nat) : KStep q.k (q.stepConsumer c).k := by
  unfold stepConsumer
  split
  · rename_i kc a hk ha
    split
    · exact KStep.refl _
    · simp only
      split
      · rename_i hp
        unfold startConsumer
        split
        · simp only [k_setK, k_modA]
          exact KStep.abort _ c kc hk (by simp [hp, preBlock])
        · exact kstep_tryGet (q.modA c _) c kc hk (by simp [hp, preBlock])
      · rename_i hp
        unfold wakeWaiting
        simp only
        split
        · simp only [k_abortGet, k_modA]
          exact KStep.abort _ c kc hk (by simp [hp, preBlock])
        · exact kstep_tryGet (q.modA c _ |>.modA c _) c kc hk (by simp [hp, preBlock])
      · rename_i item hp
        unfold leaveBlock
        simp only
        split
        · simp only [k_exitBlock, k_logEv, k_modA]
          exact KStep.exit _ c kc _ hk (by simp [hp, isInBlock])
        · split
          · simp only [k_exitBlock, k_modA]
            exact KStep.exit _ c kc _ hk (by simp [hp, isInBlock])
          · simp only [k_exitBlock, k_modA]
            exact KStep.exit _ c kc _ hk (by simp [hp, isInBlock])
      · exact KStep.refl _
  · exact KStep.refl _

theorem k_tryPut (q : Q) (j x : Nat) : (q.tryPut j x).k = if q.k.full then q.k.pwait j else q.k.pput j := by
  unfold tryPut
  split <;> simp

@[simp] theorem k_abortPut (q : Q) (j : Nat) (w : Bool) : (q.abortPut j w).k = q.k.pabort j := by
  unfold abortPut
  simp only
  split <;> simp

@[simp] theorem k_cancelProducer (q : Q) (j : Nat) : (q.cancelProducer j).k = q.k := by
  unfold cancelProducer
  split
  · split
    · rfl
    · split <;> rfl
  · rfl

@[simp] theorem k_produce (q : Q) (x : Nat) : (q.produce x).k = q.k.produce x := rfl

theorem kstep_tryPut (q : Q) (j x : Nat) (p : Prod) (h : q.k.prods[j]? = some p) (hp : prePut p.phase = true) :
    KStep q.k (q.tryPut j x).k := by
  rw [k_tryPut]
  split
  · rename_i hf; exact KStep.pwait _ j p h hp hf
  · rename_i hf; exact KStep.pput _ j p h hp (by simpa using hf)

theorem kstep_stepProducer (q : Q) (j : Nat) : KStep q.k (q.stepProducer j).k := by
  unfold stepProducer
  split
  · rename_i p a hk ha
    split
    · exact KStep.refl _
    · simp only
      split
      · rename_i hp
        unfold startProducer
        split
        · simp only [k_setK, k_modP]
          exact KStep.pabort _ j p hk (by simp [hp, prePut])
        · exact kstep_tryPut (q.modP j _) j _ p hk (by simp [hp, prePut])
      · rename_i hp
        unfold wakeProducer
        simp only
        split
        · simp only [k_abortPut, k_modP]
          exact KStep.pabort _ j p hk (by simp [hp, prePut])
        · exact kstep_tryPut (q.modP j _ |>.modP j _) j _ p hk (by simp [hp, prePut])
      · exact KStep.refl _
  · exact KStep.refl _

theorem kstep_runRef (q : Q) (r : Ref) : KStep q.k (q.runRef r).k := by
  cases r with
  | consumer c => exact kstep_stepConsumer q c
  | joiner j => exact KStep.stepJ _ j
  | producer j => exact kstep_stepProducer q j

/-- **refinement**: whatever the input and the state of the shell, the core makes one guarded core step -/
theorem kstep_step (q : Q) (i : Input) : KStep q.k (q.step i).k := by
  cases i with
  | put x =>
    simp only [step, k_put]
    split
    · exact KStep.refl _
    · rename_i hf; exact KStep.put _ x (by simpa using hf)
  | produce x => exact KStep.produce _ x
  | cancelp j => simp only [step, k_cancelProducer]; exact KStep.refl _
  | spawn => exact KStep.spawn _
  | join => exact KStep.join _
  | cancel c => simp only [step, k_cancelConsumer]; exact KStep.refl _
  | gate c e => simp only [step, k_gate]; exact KStep.refl _
  | take => simp only [step, k_handTake]; exact KStep.handTake _
  | run n =>
    simp only [step]
    split
    · exact KStep.refl _
    · rename_i r hr
      exact kstep_runRef ({ q with ready := q.ready.eraseIdx n } : Q) r

theorem inv_step (q : Q) (i : Input) (h : q.k.Inv) : (q.step i).k.Inv := (kstep_step q i).inv h

theorem inv_run (q : Q) (ins : List Input) (h : q.k.Inv) : (q.run ins).k.Inv := by
  induction ins generalizing q with
  | nil => exact h
  | cons i is ih => exact ih _ (inv_step q i h)

/-- every state reachable from an initial one — `Queue(maxsize=n)`, `n = 0`: `Queue()` —, by any history, satisfies
the core invariant -/
theorem inv_reach (n : Nat) (ins : List Input) : ((Q.initN n).run ins).k.Inv := inv_run _ _ (K.inv_initN n)

theorem pok_step (q : Q) (i : Input) (h : q.k.POK) : (q.step i).k.POK := (kstep_step q i).pok h

theorem pok_run (q : Q) (ins : List Input) (h : q.k.POK) : (q.run ins).k.POK := by
  induction ins generalizing q with
  | nil => exact h
  | cons i is ih => exact ih _ (pok_step q i h)

/-- … and the producers' books -/
theorem pok_reach (n : Nat) (ins : List Input) : ((Q.initN n).run ins).k.POK := pok_run _ _ (K.pok_initN n)

theorem maxsize_run (q : Q) (ins : List Input) : (q.run ins).k.maxsize = q.k.maxsize := by
  induction ins generalizing q with
  | nil => rfl
  | cons i is ih => exact (ih _).trans (kstep_step q i).maxsize_eq

/-- `maxsize` is what the queue was created with -/
theorem maxsize_reach (n : Nat) (ins : List Input) : ((Q.initN n).run ins).k.maxsize = n := maxsize_run _ _

/-- a producer that is through `put()` stays as it is, whatever follows -/
theorem prod_final_run (q : Q) (ins : List Input) (j : Nat) (p : Prod) (h : q.k.prods[j]? = some p)
    (hd : isPDone p.phase = true) : (q.run ins).k.prods[j]? = some p := by
  induction ins generalizing q with
  | nil => exact h
  | cons i is ih =>
    obtain ⟨p', h1, _, h3⟩ := (kstep_step q i).prod_final j p h
    rw [h3 hd] at h1
    exact ih _ h1

theorem run_append (q : Q) (a b : List Input) : q.run (a ++ b) = (q.run a).run b := by
  simp [run, List.foldl_append]

end Q
end Taskpool.QueueM
