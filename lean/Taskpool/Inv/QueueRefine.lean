import Taskpool.Inv.QueueInv
/-! C20, part 2: the asyncio shell only ever performs guarded core operations (`KStep`), hence every state
reachable by any history satisfies the core invariant. -/
namespace Taskpool.QueueM
namespace Q

@[simp] theorem k_setK (q : Q) (k : K) : (q.setK k).k = k := rfl
@[simp] theorem k_modA (q : Q) (c : Nat) (f : Aux → Aux) : (q.modA c f).k = q.k := rfl
@[simp] theorem k_logEv (q : Q) (e : Ev) : (q.logEv e).k = q.k := rfl
@[simp] theorem k_schedC (q : Q) (c : Nat) : (q.schedC c).k = q.k := rfl

@[simp] theorem k_wakeGetter (q : Q) : q.wakeGetter.k = q.k := by
  unfold wakeGetter
  simp only
  split <;> rfl

@[simp] theorem k_armGate (q : Q) (c : Nat) : (q.armGate c).k = q.k := by
  unfold armGate
  split
  · rfl
  · split <;> rfl

@[simp] theorem k_waitGetter (q : Q) (c : Nat) : (q.waitGetter c).k = q.k := by
  unfold waitGetter
  simp only
  split
  · rfl
  · split <;> rfl

@[simp] theorem k_put (q : Q) (x : Nat) : (q.put x).k = q.k.put x := by simp [put]

theorem k_tryGet (q : Q) (c : Nat) : (q.tryGet c).k = q.k.wait c ∨ (q.tryGet c).k = q.k.take c := by
  unfold tryGet
  split
  · left; simp
  · right; simp

@[simp] theorem k_exitBlock (q : Q) (c : Nat) (e : Exit) : (q.exitBlock c e).k = q.k.exit c e := rfl

@[simp] theorem k_abortGet (q : Q) (c : Nat) (w : Bool) : (q.abortGet c w).k = q.k.abort c := by
  unfold abortGet
  simp only
  split <;> simp

@[simp] theorem k_cancelConsumer (q : Q) (c : Nat) : (q.cancelConsumer c).k = q.k := by
  unfold cancelConsumer
  split
  · split
    · rfl
    · split <;> rfl
  · rfl

@[simp] theorem k_gate (q : Q) (c : Nat) (exc : Bool) : (q.gate c exc).k = q.k := by
  unfold gate
  split <;> rfl

@[simp] theorem k_handTake (q : Q) : q.handTake.k = q.k.handTake := by
  unfold handTake K.handTake
  split <;> simp_all

@[simp] theorem k_spawn (q : Q) : q.spawn.k = q.k.spawn := rfl
@[simp] theorem k_join (q : Q) : q.join.k = q.k.join := rfl
@[simp] theorem k_stepJoiner (q : Q) (j : Nat) : (q.stepJoiner j).k = q.k.stepJoiner j := rfl

theorem kstep_tryGet (q : Q) (c : Nat) (x : Core) (h : q.k.cores[c]? = some x) (hx : preBlock x.phase = true) :
    KStep q.k (q.tryGet c).k := by
  rcases k_tryGet q c with e | e <;> rw [e]
  · exact KStep.wait _ c x h hx
  · exact KStep.take _ c x h hx

theorem kstep_stepConsumer (q : Q) (c : Nat) : KStep q.k (q.stepConsumer c).k := by
  unfold stepConsumer
  split
  · rename_i kc a hk ha
    split
    · exact KStep.refl _
    · simp only
      split
      · rename_i hp
        unfold startConsumer
        split
        · simp only [k_setK, k_modA]
          exact KStep.abort _ c kc hk (by simp [hp, preBlock])
        · exact kstep_tryGet (q.modA c _) c kc hk (by simp [hp, preBlock])
      · rename_i hp
        unfold wakeWaiting
        simp only
        split
        · simp only [k_abortGet, k_modA]
          exact KStep.abort _ c kc hk (by simp [hp, preBlock])
        · exact kstep_tryGet (q.modA c _ |>.modA c _) c kc hk (by simp [hp, preBlock])
      · rename_i item hp
        unfold leaveBlock
        simp only
        split
        · simp only [k_exitBlock, k_logEv, k_modA]
          exact KStep.exit _ c kc _ hk (by simp [hp, isInBlock])
        · split
          · simp only [k_exitBlock, k_modA]
            exact KStep.exit _ c kc _ hk (by simp [hp, isInBlock])
          · simp only [k_exitBlock, k_modA]
            exact KStep.exit _ c kc _ hk (by simp [hp, isInBlock])
      · exact KStep.refl _
  · exact KStep.refl _

theorem kstep_runRef (q : Q) (r : Ref) : KStep q.k (q.runRef r).k := by
  cases r with
  | consumer c => exact kstep_stepConsumer q c
  | joiner j => exact KStep.stepJ _ j

/-- **refinement**: whatever the input and the state of the shell, the core makes one guarded core step -/
theorem kstep_step (q : Q) (i : Input) : KStep q.k (q.step i).k := by
  cases i with
  | put x => simp only [step, k_put]; exact KStep.put _ x
  | spawn => exact KStep.spawn _
  | join => exact KStep.join _
  | cancel c => simp only [step, k_cancelConsumer]; exact KStep.refl _
  | gate c e => simp only [step, k_gate]; exact KStep.refl _
  | take => simp only [step, k_handTake]; exact KStep.handTake _
  | run n =>
    simp only [step]
    split
    · exact KStep.refl _
    · rename_i r hr
      exact kstep_runRef ({ q with ready := q.ready.eraseIdx n } : Q) r

theorem inv_step (q : Q) (i : Input) (h : q.k.Inv) : (q.step i).k.Inv := (kstep_step q i).inv h

theorem inv_run (q : Q) (ins : List Input) (h : q.k.Inv) : (q.run ins).k.Inv := by
  induction ins generalizing q with
  | nil => exact h
  | cons i is ih => exact ih _ (inv_step q i h)

/-- every state reachable from the initial one, by any history, satisfies the core invariant -/
theorem inv_reach (ins : List Input) : (Q.init.run ins).k.Inv := inv_run _ _ K.inv_init

theorem run_append (q : Q) (a b : List Input) : q.run (a ++ b) = (q.run a).run b := by
  simp [run, List.foldl_append]

end Q
end Taskpool.QueueM
