import Taskpool.Inv.EndOK
import Taskpool.Inv.SealWalk1
/-! **A task inside its end callback stays filed as ended — the walk, part 1 (`EndWalk.lean`): the frame relation.**

`EStep p q` relates a state `p` to a later state `q` reached by steps that keep everything `Pool.EndOK` reads:

* the ended registry is the same (`en`);
* no task *enters* the phase `inEndCb` (`tk`); tasks are only appended (`tl`);
* a background call that sits in frame `gather2 g` in `q` sat there in `p`, with the same kind and the same snapshot of
  the ended registry (`ap`);
* gathers keep their `children` (`ga`);
* an id filed as running or cancelled in `q` was filed so in `p`, or belongs to a task created since (`ru`).

The relation is hypothesis-free, reflexive and transitive, and `EndOK E` is preserved along it for every `E`
(`EndOK.step`).  Every function of the machine is such a step **except** `moveToEnded` (the ended registry grows),
`suspendTask · .inEndCb` (a task enters its end callback), the last stages `flushAfter2` / `gacAfter2` (the ended registry
shrinks) and the frame change into `gather2` (`flushAfter1` / `gacAfter1`): those are walked in part 2
(`EndWalk2.lean`). -/
namespace Taskpool
namespace Pool

structure EStep (p q : Pool) : Prop where
  en : q.ended = p.ended
  tl : p.tasks.length ≤ q.tasks.length
  tk : ∀ (t : Nat) (k' : PTask), q.tasks[t]? = some k' → k'.phase = .inEndCb →
        ∃ k, p.tasks[t]? = some k ∧ k.phase = .inEndCb
  ap : ∀ (a : Nat) (A' : Api) (g : Nat), q.apis[a]? = some A' → A'.frame = .gather2 g →
        ∃ A, p.apis[a]? = some A ∧ A.frame = .gather2 g ∧ A.kind = A'.kind ∧ A.snapE = A'.snapE
  ga : ∀ (g : Nat) (G : Gather), p.gathers[g]? = some G → ∃ G', q.gathers[g]? = some G' ∧ G'.children = G.children
  ru : ∀ t, t ∈ q.running ++ q.cancelledR → t ∈ p.running ++ p.cancelledR ∨ p.tasks.length ≤ t

theorem EStep.refl (p : Pool) : EStep p p where
  en := rfl
  tl := Nat.le_refl _
  tk := fun _ k' h hp => ⟨k', h, hp⟩
  ap := fun _ A' _ h hf => ⟨A', h, hf, rfl, rfl⟩
  ga := fun _ G h => ⟨G, h, rfl⟩
  ru := fun _ h => Or.inl h

theorem EStep.trans {p q s : Pool} (h1 : EStep p q) (h2 : EStep q s) : EStep p s where
  en := h2.en.trans h1.en
  tl := Nat.le_trans h1.tl h2.tl
  tk := fun t k'' h hp => by
    obtain ⟨k', hq, hp'⟩ := h2.tk t k'' h hp
    exact h1.tk t k' hq hp'
  ap := fun a A'' g h hf => by
    obtain ⟨A', hq, f', k', s'⟩ := h2.ap a A'' g h hf
    obtain ⟨A, hp, f, k, s⟩ := h1.ap a A' g hq f'
    exact ⟨A, hp, f, k.trans k', s.trans s'⟩
  ga := fun g G h => by
    obtain ⟨G', a, b⟩ := h1.ga g G h
    obtain ⟨G'', a', b'⟩ := h2.ga g G' a
    exact ⟨G'', a', b'.trans b⟩
  ru := fun t h => by
    rcases h2.ru t h with a | a
    · exact h1.ru t a
    · exact Or.inr (Nat.le_trans h1.tl a)

/-- the invariant is preserved along the frame relation, whoever is exempt -/
theorem EndOK.step {E : Nat → Prop} {p q : Pool} (h : EndOK E p) (s : EStep p q) : EndOK E q where
  ef := fun t k' hq hE hph => by
    obtain ⟨k, hp, hk⟩ := s.tk t k' hq hph
    rw [s.en]; exact h.ef t k hp hE hk
  fe := fun a A' g hq hf hk => by
    obtain ⟨A, hp, f, k, sn⟩ := s.ap a A' g hq hf
    obtain ⟨G, hG, hsub⟩ := h.fe a A g hp f (by rw [k]; exact hk)
    obtain ⟨G', hG', hc⟩ := s.ga g G hG
    exact ⟨G', hG', fun t ht => by rw [hc]; exact hsub t (by rw [sn]; exact ht)⟩
  ge := fun a A' g hq hf hk => by
    obtain ⟨A, hp, f, k, _⟩ := s.ap a A' g hq hf
    obtain ⟨G, hG, hsub⟩ := h.ge a A g hp f (by rw [k]; exact hk)
    obtain ⟨G', hG', hc⟩ := s.ga g G hG
    exact ⟨G', hG', fun t ht => by rw [hc]; exact hsub t (by rw [← s.en]; exact ht)⟩

theorem estep_foldl {α} (l : List α) (f : Pool → α → Pool) (h : ∀ p a, EStep p (f p a)) (p : Pool) :
    EStep p (l.foldl f p) := by
  induction l generalizing p with
  | nil => exact EStep.refl p
  | cons a as ih => exact (h p a).trans (ih _)

/-! ### constructors -/

/-- nothing the invariant reads has changed -/
theorem estep_of_eq (p q : Pool) (h1 : q.ended = p.ended := by rfl) (h2 : q.tasks = p.tasks := by rfl)
    (h3 : q.apis = p.apis := by rfl) (h4 : q.gathers = p.gathers := by rfl) (h5 : q.running = p.running := by rfl)
    (h6 : q.cancelledR = p.cancelledR := by rfl) : EStep p q where
  en := h1
  tl := by rw [h2]; exact Nat.le_refl _
  tk := fun _ k' h hp => by rw [h2] at h; exact ⟨k', h, hp⟩
  ap := fun _ A' _ h hf => by rw [h3] at h; exact ⟨A', h, hf, rfl, rfl⟩
  ga := fun _ G h => by rw [h4]; exact ⟨G, h, rfl⟩
  ru := fun _ h => by rw [h5, h6] at h; exact Or.inl h

/-- one task record changes, not into the phase `inEndCb` -/
theorem estep_modTask (p : Pool) (t : Nat) (f : PTask → PTask)
    (hf : ∀ k, (f k).phase = .inEndCb → k.phase = .inEndCb := by intro k h; first | exact h | cases h) :
    EStep p (p.modTask t f) :=
  { EStep.refl p with
    tl := by simp [modTask]
    tk := fun i k' h hp => by
      obtain ⟨k, hk, e⟩ := modify_inv (l := p.tasks) h
      subst e
      refine ⟨k, hk, ?_⟩
      split at hp
      · exact hf k hp
      · exact hp }

theorem estep_modReq (p : Pool) (m : Nat) (f : Req → Req) : EStep p (p.modReq m f) := estep_of_eq _ _
theorem estep_emitRef (p : Pool) (r : Ref) : EStep p (p.emitRef r) := estep_of_eq _ _
theorem estep_logEv (p : Pool) (e : Ev) : EStep p (p.logEv e) := estep_of_eq _ _

/-- one background call changes: if it ends up in a `gather2` frame it was there before, with the same kind and
snapshot -/
theorem estep_modApi (p : Pool) (a : Nat) (f : Api → Api)
    (hf : ∀ x g, p.apis[a]? = some x → (f x).frame = .gather2 g →
      x.frame = .gather2 g ∧ x.kind = (f x).kind ∧ x.snapE = (f x).snapE) : EStep p (p.modApi a f) :=
  { EStep.refl p with
    ap := fun i A' g h hfr => by
      obtain ⟨A, hA, e⟩ := modify_inv (l := p.apis) h
      subst e
      split at hfr
      · rename_i e; subst e
        obtain ⟨x, y, z⟩ := hf A g hA hfr
        rw [if_pos rfl]
        exact ⟨A, hA, x, y, z⟩
      · rename_i e
        rw [if_neg e]
        exact ⟨A, hA, hfr, rfl, rfl⟩ }

/-- a rewrite of a background call that keeps kind, frame and snapshot -/
theorem estep_modApi_triv (p : Pool) (a : Nat) (f : Api → Api) (hk : ∀ x, (f x).kind = x.kind := by intro x; rfl)
    (hfr : ∀ x, (f x).frame = x.frame := by intro x; rfl) (hs : ∀ x, (f x).snapE = x.snapE := by intro x; rfl) :
    EStep p (p.modApi a f) :=
  estep_modApi p a f (fun x g _ h => ⟨by rw [← hfr x]; exact h, (hk x).symm, (hs x).symm⟩)

/-- a background call leaves for a frame that is not `gather2` -/
theorem estep_modApi_out (p : Pool) (a : Nat) (f : Api → Api) (hfr : ∀ x g, (f x).frame ≠ .gather2 g) :
    EStep p (p.modApi a f) :=
  estep_modApi p a f (fun x g _ h => absurd h (hfr x g))

theorem estep_modGather (p : Pool) (g : Nat) (f : Gather → Gather)
    (hc : ∀ G, (f G).children = G.children := by intro G; rfl) : EStep p (p.modGather g f) :=
  { EStep.refl p with
    ga := fun i G h => by
      refine ⟨_, modify_get (l := p.gathers) (m := g) (f := f) h, ?_⟩
      split
      · exact hc G
      · rfl }

/-! ### plumbing -/

theorem estep_schedTask (p : Pool) (t : Nat) : EStep p (p.schedTask t) := by
  unfold schedTask; exact (estep_modTask p _ _).trans (estep_emitRef _ _)

theorem estep_schedMeta (p : Pool) (m : Nat) : EStep p (p.schedMeta m) := by
  unfold schedMeta; exact (estep_modReq p _ _).trans (estep_emitRef _ _)

theorem estep_schedApi (p : Pool) (a : Nat) : EStep p (p.schedApi a) := by
  unfold schedApi
  exact EStep.trans (q := p.modApi a fun x => { x with sched := true }) (estep_modApi_triv p a _) (estep_emitRef _ _)

theorem estep_schedOpt (p : Pool) (o : Option Nat) : EStep p (p.schedOpt o) := by
  cases o with
  | none => exact EStep.refl p
  | some m => exact estep_schedMeta p m

theorem estep_emitChildren (p : Pool) (cbs : List (Nat × Nat)) : EStep p (p.emitChildren cbs) := by
  unfold emitChildren
  exact estep_foldl _ _ (fun q gi => estep_emitRef q _) p

theorem estep_releasePool (p : Pool) : EStep p p.releasePool := by
  unfold releasePool
  exact EStep.trans (q := { p with sem := p.sem.release.1 }) (estep_of_eq _ _) (estep_schedOpt _ _)

theorem estep_releaseMap (p : Pool) (m : Nat) : EStep p (p.releaseMap m) := by
  unfold releaseMap
  split
  · exact EStep.refl p
  · exact (estep_modReq p m _).trans (estep_schedOpt _ _)

/-! ### asyncio `Task.cancel()` -/

theorem estep_taskCancel (p : Pool) (t : Nat) : EStep p (p.taskCancel t) := by
  unfold taskCancel
  split
  · exact EStep.refl p
  · split
    · exact EStep.refl p
    · split
      · exact (estep_modTask p _ _).trans (estep_schedTask _ _)
      · exact estep_modTask p _ _

theorem estep_cancelTask (p : Pool) (t : Nat) : EStep p (p.cancelTask t) := by
  unfold cancelTask
  split
  · exact EStep.refl p
  · split
    · exact estep_modTask p _ _
    · exact estep_taskCancel p t

theorem estep_metaCancel (p : Pool) (m : Nat) : EStep p (p.metaCancel m) := by
  unfold metaCancel
  split
  · exact EStep.refl p
  · split
    · exact EStep.refl p
    · split
      · exact ((estep_of_eq p { p with sem := { p.sem with waiters := cancelWaiterL m p.sem.waiters } }).trans
          (estep_modReq _ m _)).trans (estep_schedMeta _ m)
      · split
        · exact (estep_modReq p m _).trans (estep_schedMeta _ m)
        · exact estep_modReq p m _

/-! ### synchronous API -/

theorem estep_cancelGroupMetas (p : Pool) (g : String) : EStep p (p.cancelGroupMetas g) := by
  unfold cancelGroupMetas
  simp only
  exact (estep_foldl _ _ (fun q m => estep_metaCancel q m) p).trans (estep_of_eq _ _)

theorem estep_register (p : Pool) (r : Req) : EStep p (p.register r) := by
  unfold register
  exact EStep.trans (q := { p with reqs := p.reqs ++ [r], groups := addGroupIfMissing p.groups r.group, names := if p.names.contains r.group then p.names else p.names ++ [r.group] })
    (estep_of_eq _ _) (estep_emitRef _ _)

theorem estep_ite_fst {c : Prop} [Decidable c] (p : Pool) (a b : Pool × Res) (ha : EStep p a.1) (hb : EStep p b.1) :
    EStep p (if c then a else b).1 := by split <;> assumption

theorem estep_doApply (p : Pool) (num : Int) (group : Option String) (sp : SpawnSpec) :
    EStep p (p.doApply num group sp).1 := by
  unfold doApply
  split
  · exact EStep.refl p
  · exact estep_ite_fst p _ _ (EStep.refl p) (estep_register p _)

theorem estep_doMap (p : Pool) (stars : Nat) (items : List Item) (nc : Int) (group : Option String) (sp : SpawnSpec) :
    EStep p (p.doMap stars items nc group sp).1 := by
  unfold doMap
  simp only
  split
  · exact EStep.refl p
  · refine estep_ite_fst p _ _ (EStep.refl p) ?_
    exact estep_ite_fst p _ _ (EStep.refl p) (estep_register p _)

theorem estep_doStart (p : Pool) (num : Int) : EStep p (p.doStart num).1 := by
  unfold doStart
  split
  · exact EStep.refl p
  · split
    · exact EStep.refl p
    · simp only
      exact EStep.trans (q := { p with startCalls := p.startCalls + 1 }) (estep_of_eq _ _) (estep_register _ _)

theorem estep_doCancel (p : Pool) (ids : List Int) : EStep p (p.doCancel ids).1 := by
  unfold doCancel
  split
  · exact EStep.refl p
  · exact estep_foldl _ _ (fun q id => estep_cancelTask q _) p

theorem estep_doStop (p : Pool) (n : Int) : EStep p (p.doStop n).1 := by
  unfold doStop
  split
  · exact EStep.refl p
  · exact estep_doCancel p _

theorem estep_popOrder (p : Pool) : EStep p p.popOrder.1 := by
  unfold popOrder
  split
  · exact EStep.refl p
  · exact estep_of_eq _ _

theorem estep_cancelGroupBody (p : Pool) (g : String) (ids order : List Nat) (q : Pool)
    (hq : p.cancelGroupBody g ids order = some q) : EStep p q := by
  unfold cancelGroupBody at hq
  simp only at hq
  split at hq
  · cases hq
  · simp only [Option.some.injEq] at hq
    subst hq
    exact (estep_cancelGroupMetas p g).trans (estep_foldl _ _ (fun q t => estep_cancelTask q t) _)

theorem estep_doCancelGroup (p : Pool) (g : String) : EStep p (p.doCancelGroup g).1 := by
  unfold doCancelGroup
  split
  · exact EStep.refl p
  · simp only
    split
    · exact EStep.refl p
    · rename_i p2 h2
      refine ((estep_popOrder p).trans ?_).trans (estep_cancelGroupBody _ _ _ _ _ h2)
      exact estep_of_eq _ _

theorem estep_cancelAllLoop (gs : List (String × List Nat)) (order : List Nat) (p q : Pool)
    (hq : cancelAllLoop gs order p = some q) : EStep p q := by
  induction gs generalizing p with
  | nil => simp [cancelAllLoop] at hq; subst hq; exact EStep.refl p
  | cons x xs ih =>
    obtain ⟨g, ids⟩ := x
    simp only [cancelAllLoop] at hq
    split at hq
    · cases hq
    · rename_i p1 h1
      exact (estep_cancelGroupBody p _ _ _ _ h1).trans (ih _ hq)

theorem estep_doCancelAll (p : Pool) : EStep p p.doCancelAll.1 := by
  unfold doCancelAll
  simp only
  split
  · exact EStep.refl p
  · rename_i p2 h2
    refine ((estep_popOrder p).trans ?_).trans (estep_cancelAllLoop _ _ _ _ h2)
    exact estep_of_eq _ _

theorem estep_doSetSize (p : Pool) (v : Int) : EStep p (p.doSetSize v).1 := by
  unfold doSetSize
  split
  · exact EStep.refl p
  · exact estep_of_eq _ _

/-- a pool call from user code (`unlock()` included: the invariant does not read the lock) -/
theorem estep_doHook (p : Pool) (ctx : Nat) (x : HookOp) : EStep p (p.doHook ctx x).1 := by
  cases x <;> simp only [doHook]
  · exact estep_doCancel p _
  · exact estep_doCancelGroup p _
  · split
    · exact estep_doCancelGroup p _
    · exact EStep.refl p
  · exact estep_doCancelAll p
  · exact estep_of_eq _ _
  · exact estep_of_eq _ _
  · exact estep_doStop p _
  · split
    · exact EStep.refl p
    · exact estep_doApply p _ _ _

/-- user code run by the pool -/
theorem estep_runHooks (p : Pool) (ctx : Nat) (hs : List HookOp) : EStep p (p.runHooks ctx hs) := by
  unfold runHooks
  exact estep_foldl _ _ (fun q h => (estep_doHook q ctx h).trans (estep_logEv _ _)) p

/-! ### the wrapper of a pool task: the steps that neither file the task as ended nor enter the end callback -/

theorem estep_completeTask (p : Pool) (t : Nat) (o : Outcome) : EStep p (p.completeTask t o) := by
  unfold completeTask
  split
  · exact EStep.refl p
  · exact (estep_modTask p _ _).trans (estep_emitChildren _ _)

theorem estep_finishTask (p : Pool) (t : Nat) : EStep p (p.finishTask t) := by
  unfold finishTask
  split
  · exact EStep.refl p
  · exact estep_completeTask p _ _

/-- the task suspends anywhere but inside its end callback -/
theorem estep_suspendTask (p : Pool) (t : Nat) (ph : Phase) (hph : ph ≠ .inEndCb) : EStep p (p.suspendTask t ph) := by
  unfold suspendTask
  split
  · exact EStep.refl p
  · split
    · exact (estep_modTask p _ _ (fun _ h => absurd h hph)).trans (estep_schedTask _ _)
    · exact estep_modTask p _ _ (fun _ h => absurd h hph)

theorem cbCount_phase (isEnd : Bool) (k : PTask) : (cbCount isEnd k).phase = k.phase := by
  unfold cbCount; split <;> rfl

theorem estep_cbBegin (p : Pool) (t : Nat) (tk : PTask) (isEnd : Bool) : EStep p (p.cbBegin t tk isEnd) := by
  unfold cbBegin
  simp only
  exact ((estep_modTask p _ _ (fun k h => by rw [cbCount_phase] at h; exact h)).trans (estep_logEv _ _)).trans
    (estep_runHooks _ _ _)

/-- the cancel callback -/
theorem estep_runCb_cancel (p : Pool) (t : Nat) (tk : PTask) : EStep p (p.runCb t tk false).1 := by
  unfold runCb
  split
  · exact EStep.refl p
  · exact (estep_cbBegin p t tk false).trans (estep_logEv _ _)
  · exact (estep_cbBegin p t tk false).trans ((estep_logEv _ _).trans (estep_modTask _ _ _))
  · exact (estep_cbBegin p t tk false).trans (estep_suspendTask _ _ _ (by simp))

theorem estep_releaseMapSlot (p : Pool) (t : Nat) (tk : PTask) : EStep p (p.releaseMapSlot t tk) := by
  unfold releaseMapSlot
  split
  · exact (estep_releaseMap p _).trans (estep_modTask _ _ _)
  · exact EStep.refl p

theorem estep_keyErrorFinish (p : Pool) (t : Nat) : EStep p (p.keyErrorFinish t) := by
  unfold keyErrorFinish
  exact ((estep_of_eq p { p with lost := true }).trans (estep_modTask _ _ _)).trans (estep_finishTask _ t)

theorem estep_workerNext (p : Pool) (t : Nat) (tk : PTask) : EStep p (p.workerNext t tk) := by
  unfold workerNext
  exact (((estep_logEv p _).trans (estep_modTask _ _ _)).trans (estep_runHooks _ _ _)).trans
    (estep_suspendTask _ _ _ (by simp))

theorem estep_stepInEndCb (p : Pool) (t : Nat) (tk : PTask) : EStep p (p.stepInEndCb t tk) := by
  unfold stepInEndCb
  split
  · exact (estep_logEv p _).trans (estep_finishTask _ t)
  · exact ((estep_logEv p _).trans (estep_modTask _ _ _)).trans (estep_finishTask _ t)
  · exact ((estep_logEv p _).trans (estep_modTask _ _ _)).trans (estep_finishTask _ t)
  · exact EStep.refl p

/-! ### spawners: a spawner's step files no task as ended, and a new task begins in phase `created` -/

theorem estep_finishMeta (p : Pool) (m : Nat) (o : Outcome) : EStep p (p.finishMeta m o) := by
  unfold finishMeta
  split
  · exact EStep.refl p
  · simp only
    exact (estep_modReq p m _).trans (estep_emitChildren _ _)

theorem estep_createTask (p : Pool) (m : Nat) (isMap : Bool) : EStep p (p.createTask m isMap) := by
  unfold createTask
  simp only
  refine EStep.trans (q := { p with tasks := p.tasks ++ [newTask m isMap (if isMap then ArgD.elem (p.reqs[m]?.getD default).stars ((p.reqs[m]?.getD default).pulled - 1) else ArgD.apply) (p.reqs[m]?.getD default).endCb (p.reqs[m]?.getD default).cancelCb], groups := addToGroup p.groups (p.reqs[m]?.getD default).group p.tasks.length, running := p.running ++ [p.tasks.length] })
    ?_ ((estep_modReq _ m _).trans (estep_emitRef _ _))
  exact { EStep.refl p with
    tl := by simp
    tk := fun i k' h hp => by
      rcases append_some (l := p.tasks) h with hk | ⟨_, rfl⟩
      · exact ⟨k', hk, hp⟩
      · cases hp
    ru := fun x hx => by
      rcases List.mem_append.mp hx with a | a
      · rcases List.mem_append.mp a with b | b
        · exact Or.inl (List.mem_append_left _ b)
        · rw [List.mem_singleton] at b; subst b
          exact Or.inr (Nat.le_refl _)
      · exact Or.inl (List.mem_append_right _ a) }

theorem estep_takeSlotAndCreate (p : Pool) (m : Nat) (isMap : Bool) : EStep p (p.takeSlotAndCreate m isMap) := by
  unfold takeSlotAndCreate
  exact (estep_of_eq p _).trans (estep_createTask _ m isMap)

theorem estep_waitRoom (p : Pool) (m : Nat) : EStep p (p.waitRoom m) := by
  unfold waitRoom
  simp only
  have h0 : ∀ w : Waiter, EStep p (({ p with sem := { p.sem with waiters := p.sem.waiters ++ [w] } } : Pool).modReq m
      fun x => { x with frame := MFrame.waitRoom, mustCancel := false }) := fun w =>
    EStep.trans (q := ({ p with sem := { p.sem with waiters := p.sem.waiters ++ [w] } } : Pool)) (estep_of_eq _ _)
      (estep_modReq _ m _)
  split
  · exact (h0 _).trans (estep_schedMeta _ m)
  · exact h0 _

theorem estep_waitMapSem (p : Pool) (m : Nat) : EStep p (p.waitMapSem m) := by
  unfold waitMapSem
  simp only
  split
  · exact (estep_modReq p m _).trans (estep_schedMeta _ m)
  · exact estep_modReq p m _

theorem estep_applyLoop (m n : Nat) (p : Pool) : EStep p (applyLoop m n p) := by
  induction n generalizing p with
  | zero =>
    unfold applyLoop
    exact (estep_modReq p m _).trans (estep_finishMeta _ m _)
  | succ n ih =>
    unfold applyLoop
    simp only
    have h0 : EStep p (p.modReq m fun x => { x with remaining := n + 1 }) := estep_modReq p m _
    split
    · exact (h0.trans (estep_modReq _ m _)).trans (ih _)
    · split
      · exact h0.trans (estep_finishMeta _ m _)
      · split
        · exact h0.trans (estep_finishMeta _ m _)
        · split
          · exact h0.trans (estep_waitRoom _ m)
          · exact (h0.trans (estep_takeSlotAndCreate _ m false)).trans (ih _)

theorem estep_pullItem (p : Pool) (m : Nat) (rest : List Item) : EStep p (p.pullItem m rest) := by
  unfold pullItem
  simp only
  exact ((estep_modReq p m _).trans (estep_logEv _ _)).trans (estep_runHooks _ m _)

theorem estep_takeMapSlot (p : Pool) (m : Nat) : EStep p (p.takeMapSlot m) := by
  unfold takeMapSlot
  exact estep_modReq p m _

theorem estep_mapStartTask (p : Pool) (m : Nat) : EStep p (p.mapStartTask m).1 := by
  unfold mapStartTask
  split
  · exact estep_finishMeta p m _
  · split
    · exact estep_waitRoom p m
    · exact estep_takeSlotAndCreate p m true

theorem estep_mapLoop (m : Nat) (items : List Item) (p : Pool) : EStep p (mapLoop m items p) := by
  induction items generalizing p with
  | nil =>
    unfold mapLoop
    exact (estep_modReq p m _).trans (estep_finishMeta _ m _)
  | cons it rest ih =>
    unfold mapLoop
    simp only
    have h0 := estep_pullItem p m rest
    split
    · exact h0.trans (estep_finishMeta _ m _)
    · split
      · exact (h0.trans (estep_modReq _ m _)).trans (ih _)
      · split
        · exact h0.trans (estep_waitMapSem _ m)
        · have h1 := (h0.trans (estep_takeMapSlot _ m)).trans (estep_mapStartTask _ m)
          split
          · exact h1.trans (ih _)
          · exact h1

theorem estep_continueSpawner (p : Pool) (m : Nat) : EStep p (p.continueSpawner m) := by
  unfold continueSpawner
  simp only
  split
  · exact estep_applyLoop m _ p
  · exact estep_mapLoop m _ p

theorem estep_roomWaitCancelled (p : Pool) (m : Nat) (r : Req) (st : Option WaitSt) :
    EStep p (p.roomWaitCancelled m r st) := by
  unfold roomWaitCancelled
  simp only
  refine EStep.trans ?_ (estep_finishMeta _ m _)
  have h1 : EStep p (if (st == some WaitSt.granted) = true then p.releasePool else p) := by
    split
    · exact estep_releasePool p
    · exact EStep.refl p
  generalize (if (st == some WaitSt.granted) = true then p.releasePool else p) = q at h1 ⊢
  refine h1.trans ?_
  split
  · exact estep_releaseMap q m
  · exact EStep.refl q

theorem estep_roomGranted (p : Pool) (m : Nat) (r : Req) : EStep p (p.roomGranted m r) := by
  unfold roomGranted
  simp only
  refine EStep.trans ?_ (estep_continueSpawner _ m)
  refine EStep.trans ?_ (estep_createTask _ m _)
  have h0 : EStep p (p.modReq m fun x => { x with frame := MFrame.running }) := estep_modReq p m _
  refine h0.trans ?_
  split
  · exact (estep_of_eq _ _).trans (estep_schedOpt _ _)
  · exact EStep.refl _

theorem estep_wakeWaitRoomCore (p : Pool) (m : Nat) (r : Req) : EStep p (p.wakeWaitRoomCore m r) := by
  unfold wakeWaitRoomCore
  simp only
  have h0 : EStep p (({ p with sem := { p.sem with waiters := (removeWaiterL m p.sem.waiters).2 } } : Pool).modReq m
      fun x => { x with mustCancel := false }) :=
    EStep.trans (q := ({ p with sem := { p.sem with waiters := (removeWaiterL m p.sem.waiters).2 } } : Pool))
      (estep_of_eq _ _) (estep_modReq _ m _)
  split
  · exact h0.trans (estep_roomWaitCancelled _ m r _)
  · split
    · exact h0.trans (estep_roomGranted _ m r)
    · exact h0

theorem estep_wakeWaitRoom (p : Pool) (m : Nat) (r : Req) : EStep p (p.wakeWaitRoom m r) := by
  unfold wakeWaitRoom
  split
  · exact estep_wakeWaitRoomCore p m r
  · exact EStep.refl p

theorem estep_mapSemGranted (p : Pool) (m : Nat) (r : Req) : EStep p (p.mapSemGranted m r) := by
  unfold mapSemGranted
  simp only
  have h0 : EStep p (p.modReq m fun x => { x with acquired := true, frame := MFrame.running }) := estep_modReq p m _
  have h1 := h0.trans (estep_mapStartTask _ m)
  split
  · exact h1.trans (estep_mapLoop m _ _)
  · exact h1

theorem estep_wakeWaitMapSemCore (p : Pool) (m : Nat) (r : Req) : EStep p (p.wakeWaitMapSemCore m r) := by
  unfold wakeWaitMapSemCore
  simp only
  generalize (if ((removeWaiterL m r.mapSem.waiters).1 == some WaitSt.granted) = true then _ else _ : Sem × Option Nat) = s2
  have h0 : EStep p ((p.modReq m fun x => { x with mapSem := s2.1, mustCancel := false }).schedOpt s2.2) :=
    (estep_modReq p m _).trans (estep_schedOpt _ _)
  split
  · exact h0.trans (estep_finishMeta _ m _)
  · split
    · exact h0.trans (estep_mapSemGranted _ m r)
    · exact h0

theorem estep_wakeWaitMapSem (p : Pool) (m : Nat) (r : Req) : EStep p (p.wakeWaitMapSem m r) := by
  unfold wakeWaitMapSem
  split
  · exact estep_wakeWaitMapSemCore p m r
  · exact EStep.refl p

/-- a spawner takes a step -/
theorem estep_stepMeta (p : Pool) (m : Nat) : EStep p (p.stepMeta m) := by
  unfold stepMeta
  split
  · exact EStep.refl p
  · split
    · exact EStep.refl p
    · simp only
      have h0 : EStep p (p.modReq m fun x => { x with sched := false }) := estep_modReq p m _
      split
      · exact h0
      · exact h0
      · unfold stepMetaNotStarted
        split
        · exact h0.trans (estep_finishMeta _ m _)
        · split
          · exact h0.trans (estep_applyLoop m _ _)
          · exact h0.trans (estep_mapLoop m _ _)
      · exact h0.trans (estep_wakeWaitRoom _ m _)
      · exact h0.trans (estep_wakeWaitMapSem _ m _)

/-! ### gather -/

theorem estep_gatherChildDone (p : Pool) (g i : Nat) (viaHandle : Bool) : EStep p (p.gatherChildDone g i viaHandle) := by
  unfold gatherChildDone
  split
  · exact EStep.refl p
  · split
    · exact EStep.refl p
    · simp only
      have h1 : EStep p (p.modGather g fun x => { x with nfinished := x.nfinished + 1 }) := estep_modGather p g _
      split
      · exact h1
      · split
        · exact h1
        · split
          · exact h1
          · split
            · exact (h1.trans (estep_modGather _ _ _)).trans (estep_schedApi _ _)
            · exact h1.trans (estep_modGather _ _ _)

theorem estep_registerChild (p : Pool) (c : Child) (g i : Nat) : EStep p (p.registerChild c g i) := by
  unfold registerChild
  split
  · exact estep_modTask p _ _
  · exact estep_modReq p _ _

theorem estep_gatherScan (g : Nat) (cs : List Child) (i : Nat) (p : Pool) : EStep p (gatherScan g cs i p) := by
  induction cs generalizing i p with
  | nil => unfold gatherScan; exact EStep.refl p
  | cons c cs ih =>
    unfold gatherScan
    refine EStep.trans ?_ (ih _ _)
    split
    · exact estep_gatherChildDone p g i false
    · exact estep_registerChild p c g i

/-- a gather is appended -/
theorem estep_addGather (p : Pool) (G : Gather) (amb : Bool) :
    EStep p ({ p with gathers := p.gathers ++ [G], ambiguous := amb } : Pool) :=
  { EStep.refl p with
    ga := fun g G0 h => ⟨G0, by
      show (p.gathers ++ [G])[g]? = some G0
      rw [List.getElem?_append_left (lt_of_getElem?_some h)]; exact h, rfl⟩ }

theorem estep_gatherStart (p : Pool) (children : List Child) (re : Bool) (owner : Nat) (setPrefix : Nat) :
    EStep p (p.gatherStart children re owner setPrefix).1 := by
  unfold gatherStart
  simp only
  exact (estep_addGather p _ _).trans (estep_gatherScan _ _ _ _)

/-! ### background calls: the stages that touch neither the ended registry nor a `gather2` frame -/

theorem estep_finishApi (p : Pool) (a : Nat) (o : Outcome) : EStep p (p.finishApi a o) := by
  unfold finishApi
  exact estep_modApi_out p a _ (fun _ _ h => nomatch h)

theorem estep_untilClosedStart (p : Pool) (a : Nat) : EStep p (p.untilClosedStart a) := by
  unfold untilClosedStart
  split
  · exact estep_finishApi p a _
  · exact (estep_of_eq p { p with closedWaiters := p.closedWaiters ++ [a] }).trans
      (estep_modApi_out _ a _ (fun _ _ h => nomatch h))

theorem estep_addApi (p : Pool) (k : ApiKind) : EStep p (p.addApi k) := by
  unfold addApi
  refine EStep.trans (q := { p with apis := p.apis ++ [{ kind := k, frame := .notStarted, sched := true, outcome := none }] }) ?_ (estep_emitRef _ _)
  exact { EStep.refl p with
    ap := fun i A' g h hf => by
      rcases append_some (l := p.apis) h with hA | ⟨_, rfl⟩
      · exact ⟨A', hA, hf, rfl, rfl⟩
      · cases hf }

theorem estep_doGate (p : Pool) (t : Nat) (o : FutSt) : EStep p (p.doGate t o).1 := by
  unfold doGate
  split
  · exact (estep_modTask p _ _).trans (estep_schedTask _ _)
  · exact EStep.refl p

/-- every external operation -/
theorem estep_applyOp (p : Pool) (op : Op) : EStep p (p.applyOp op).1 := by
  cases op <;> simp only [applyOp]
  · exact estep_doApply p _ _ _
  · exact estep_doMap p _ _ _ _ _
  · exact estep_doStart p _
  · exact estep_doStop p _
  · exact estep_doStop p _
  · exact estep_doCancel p _
  · exact estep_doCancelGroup p _
  · exact estep_doCancelAll p
  · exact estep_of_eq _ _
  · exact estep_of_eq _ _
  · exact estep_doSetSize p _
  · exact EStep.refl p
  · exact estep_addApi p _
  · exact estep_addApi p _
  · exact estep_addApi p _
  · exact estep_doGate p _ _

end Pool
end Taskpool
