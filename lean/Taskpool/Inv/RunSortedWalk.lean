import Taskpool.Inv.Lift
/-! `RunSorted`: the running registry is strictly ascending and holds ids of existing tasks only.  Valid for ALL histories:
`running` is only changed by `createTask` (appends `tasks.length` while appending a task), by `erase` and by `:= []`;
`tasks` never shrinks.  The walk shows `RunSorted p → RunSorted (step p)` for every model function, bottom-up. -/
namespace Taskpool
namespace Pool

/-- the running registry (`_tasks_running`, a dict in insertion order) is strictly ascending and holds ids of existing tasks only -/
structure RunSorted (p : Pool) : Prop where
  asc : p.running.Pairwise (· < ·)
  bnd : ∀ t ∈ p.running, t < p.tasks.length

theorem RunSorted.of_eq {p q : Pool} (h : RunSorted p) (e : q.running = p.running) (hl : p.tasks.length ≤ q.tasks.length) :
    RunSorted q :=
  ⟨by rw [e]; exact h.asc, fun t ht => by rw [e] at ht; exact Nat.lt_of_lt_of_le (h.bnd t ht) hl⟩

theorem RunSorted.same {p q : Pool} (h : RunSorted p) (e : q.running = p.running) (e2 : q.tasks = p.tasks) : RunSorted q :=
  h.of_eq e (by rw [e2]; exact Nat.le_refl _)

theorem RunSorted.erase {p q : Pool} (h : RunSorted p) (t : Nat) (e : q.running = p.running.erase t)
    (e2 : q.tasks = p.tasks) : RunSorted q :=
  ⟨by rw [e]; exact List.Pairwise.sublist List.erase_sublist h.asc,
   fun x hx => by rw [e] at hx; rw [e2]; exact h.bnd x (List.mem_of_mem_erase hx)⟩

theorem RunSorted.clear {q : Pool} (e : q.running = []) : RunSorted q :=
  ⟨by rw [e]; exact List.Pairwise.nil, fun x hx => by rw [e] at hx; cases hx⟩

theorem RunSorted.push {p q : Pool} (h : RunSorted p) (x : PTask) (e1 : q.tasks = p.tasks ++ [x])
    (e2 : q.running = p.running ++ [p.tasks.length]) : RunSorted q := by
  constructor
  · rw [e2, List.pairwise_append]
    refine ⟨h.asc, by simp, fun a ha b hb => ?_⟩
    simp at hb; subst hb; exact h.bnd a ha
  · intro t ht
    rw [e2] at ht; rw [e1]
    simp at ht ⊢
    rcases ht with ht | ht
    · have := h.bnd t ht; omega
    · omega

/-- a record update that keeps `tasks` and `running`: `simp only [rs_mk]` strips it -/
theorem rs_mk (x : Pool) (simple : Option SpawnSpec) (startCalls : Nat) (sem : Sem) (locked closed : Bool)
    (reqs : List Req) (groups : List (String × List Nat)) (cancelledR ended metaCancelled : List Nat)
    (apis : List Api) (gathers : List Gather) (closedWaiters : List Nat) (emit : List Ref) (log : List Ev)
    (names : List String) (orders : List (List Nat)) (ambiguous lost resized : Bool) :
    RunSorted
        { simple := simple, startCalls := startCalls, sem := sem, locked := locked, closed := closed, tasks := x.tasks,
           reqs := reqs, groups := groups, running := x.running, cancelledR := cancelledR, ended := ended,
           metaCancelled := metaCancelled, apis := apis, gathers := gathers, closedWaiters := closedWaiters, emit := emit,
           log := log, names := names, orders := orders, ambiguous := ambiguous, lost := lost, resized := resized } ↔
    RunSorted x := ⟨fun h => ⟨h.asc, h.bnd⟩, fun h => ⟨h.asc, h.bnd⟩⟩

/-- `running := running.erase t`, `tasks` kept, other fields arbitrary -/
theorem rs_mk_erase (x : Pool) (t : Nat) (simple : Option SpawnSpec) (startCalls : Nat) (sem : Sem) (locked closed : Bool)
    (reqs : List Req) (groups : List (String × List Nat)) (cancelledR ended metaCancelled : List Nat)
    (apis : List Api) (gathers : List Gather) (closedWaiters : List Nat) (emit : List Ref) (log : List Ev)
    (names : List String) (orders : List (List Nat)) (ambiguous lost resized : Bool) (h : RunSorted x) :
    RunSorted
        { simple := simple, startCalls := startCalls, sem := sem, locked := locked, closed := closed, tasks := x.tasks,
           reqs := reqs, groups := groups, running := x.running.erase t, cancelledR := cancelledR, ended := ended,
           metaCancelled := metaCancelled, apis := apis, gathers := gathers, closedWaiters := closedWaiters, emit := emit,
           log := log, names := names, orders := orders, ambiguous := ambiguous, lost := lost, resized := resized } :=
  h.erase t rfl rfl

open Lean in
/-- backward chaining through the given step lemmas, splitting `if` / `match` where stuck; struct updates of other fields
are closed by `assumption` up to unfolding -/
macro "rsw" "[" ls:term,* "]" : tactic => do
  let alts ← ls.getElems.mapM fun l => `(tactic| with_reducible apply $l)
  `(tactic| repeat' (first | with_reducible assumption $[| $alts:tactic]* | simp only [rs_mk] | with_reducible apply rs_mk_erase | split | dsimp only | assumption))

/-! ### plumbing -/

theorem rs_modTask (p : Pool) (t : Nat) (f : PTask → PTask) (h : RunSorted p) : RunSorted (p.modTask t f) :=
  h.of_eq rfl (by simp [modTask])
theorem rs_modApi (p : Pool) (a : Nat) (f : Api → Api) (h : RunSorted p) : RunSorted (p.modApi a f) := h.same rfl rfl
theorem rs_modGather (p : Pool) (g : Nat) (f : Gather → Gather) (h : RunSorted p) : RunSorted (p.modGather g f) := h.same rfl rfl
theorem rs_emitRef (p : Pool) (r : Ref) (h : RunSorted p) : RunSorted (p.emitRef r) := h.same rfl rfl
theorem rs_logEv (p : Pool) (e : Ev) (h : RunSorted p) : RunSorted (p.logEv e) := h.same rfl rfl

theorem rs_modReq (p : Pool) (m : Nat) (f : Req → Req) (h : RunSorted p) : RunSorted (p.modReq m f) :=
  h.same rfl rfl

theorem rs_foldl {α} (f : Pool → α → Pool) (hf : ∀ p a, RunSorted p → RunSorted (f p a)) (l : List α) (p : Pool) (h : RunSorted p) :
    RunSorted (l.foldl f p) := by
  induction l generalizing p with
  | nil => exact h
  | cons a as ih => exact ih _ (hf p a h)

theorem rs_schedTask (p : Pool) (t : Nat) (h : RunSorted p) : RunSorted (p.schedTask t) :=
  rs_emitRef _ _ (rs_modTask _ _ _ h)
theorem rs_schedApi (p : Pool) (a : Nat) (h : RunSorted p) : RunSorted (p.schedApi a) := h.same rfl rfl

theorem rs_schedMeta (p : Pool) (m : Nat) (h : RunSorted p) : RunSorted (p.schedMeta m) := by
  unfold schedMeta
  rsw [rs_emitRef, rs_modReq]

theorem rs_schedOpt (p : Pool) (o : Option Nat) (h : RunSorted p) : RunSorted (p.schedOpt o) := by
  unfold schedOpt
  rsw [rs_schedMeta]

theorem rs_emitChildren (p : Pool) (cbs : List (Nat × Nat)) (h : RunSorted p) : RunSorted (p.emitChildren cbs) :=
  rs_foldl _ (fun p _ h => rs_emitRef p _ h) cbs p h

theorem rs_releasePool (p : Pool) (h : RunSorted p) : RunSorted p.releasePool := by
  unfold releasePool
  rsw [rs_schedOpt]

theorem rs_releaseMap (p : Pool) (m : Nat) (h : RunSorted p) : RunSorted (p.releaseMap m) := by
  unfold releaseMap
  rsw [rs_schedOpt, rs_modReq]

theorem rs_taskCancel (p : Pool) (t : Nat) (h : RunSorted p) : RunSorted (p.taskCancel t) := by
  unfold taskCancel
  rsw [rs_schedTask, rs_modTask]

theorem rs_cancelTask (p : Pool) (t : Nat) (h : RunSorted p) : RunSorted (p.cancelTask t) := by
  unfold cancelTask
  rsw [rs_taskCancel, rs_modTask]

theorem rs_metaCancel (p : Pool) (m : Nat) (h : RunSorted p) : RunSorted (p.metaCancel m) := by
  unfold metaCancel
  rsw [rs_schedMeta, rs_modReq]

/-- the plumbing lemmas, plus the ones given -/
macro "rs1" "[" ls:term,* "]" : tactic =>
  `(tactic| rsw [rs_modTask, rs_modApi, rs_modGather, rs_emitRef, rs_logEv, rs_modReq, rs_schedTask,
    rs_schedApi, rs_schedMeta, rs_schedOpt, rs_emitChildren, rs_releasePool, rs_releaseMap, rs_taskCancel,
    rs_cancelTask, rs_metaCancel, $ls,*])

/-! ### synchronous API -/

theorem rs_register (p : Pool) (r : Req) (h : RunSorted p) : RunSorted (p.register r) :=
  h.same rfl rfl

theorem rs_doApply (p : Pool) (num : Int) (group : Option String) (sp : SpawnSpec) (h : RunSorted p) :
    RunSorted (p.doApply num group sp).1 := by
  unfold doApply
  rs1 [rs_register]

theorem rs_doMap (p : Pool) (stars : Nat) (items : List Item) (nc : Int) (group : Option String) (sp : SpawnSpec)
    (h : RunSorted p) : RunSorted (p.doMap stars items nc group sp).1 := by
  unfold doMap
  rs1 [rs_register]

theorem rs_doStart (p : Pool) (num : Int) (h : RunSorted p) : RunSorted (p.doStart num).1 := by
  unfold doStart
  split
  · exact h
  · split
    · exact h
    · exact rs_register _ _ (h.same rfl rfl)

theorem rs_doCancel (p : Pool) (ids : List Int) (h : RunSorted p) : RunSorted (p.doCancel ids).1 := by
  unfold doCancel
  split
  · exact h
  · exact rs_foldl _ (fun p _ h => rs_cancelTask p _ h) ids p h

theorem rs_doStop (p : Pool) (n : Int) (h : RunSorted p) : RunSorted (p.doStop n).1 := by
  unfold doStop
  split
  · exact h
  · exact rs_doCancel p _ h

theorem rs_popOrder (p : Pool) (h : RunSorted p) : RunSorted p.popOrder.1 := by
  unfold popOrder
  split
  · exact h
  · exact h.same rfl rfl

theorem rs_cancelGroupMetas (p : Pool) (g : String) (h : RunSorted p) : RunSorted (p.cancelGroupMetas g) := by
  unfold cancelGroupMetas
  dsimp only
  exact (rs_foldl _ (fun p m h => rs_metaCancel p m h) _ p h).same rfl rfl

theorem rs_cancelGroupBody (p : Pool) (g : String) (ids order : List Nat) (h : RunSorted p) (q : Pool)
    (e : p.cancelGroupBody g ids order = some q) : RunSorted q := by
  unfold cancelGroupBody at e
  dsimp only at e
  split at e
  · cases e
  · cases e
    exact rs_foldl _ (fun p t h => rs_cancelTask p t h) _ _ (rs_cancelGroupMetas p g h)

theorem rs_doCancelGroup (p : Pool) (g : String) (h : RunSorted p) : RunSorted (p.doCancelGroup g).1 := by
  unfold doCancelGroup
  split
  · exact h
  · dsimp only
    split
    · exact h
    · rename_i p2 e
      refine rs_cancelGroupBody _ g _ _ ?_ p2 e
      exact (rs_popOrder p h).same rfl rfl

theorem rs_cancelAllLoop (gs : List (String × List Nat)) (order : List Nat) (p : Pool) (h : RunSorted p) (q : Pool)
    (e : cancelAllLoop gs order p = some q) : RunSorted q := by
  induction gs generalizing p with
  | nil => unfold cancelAllLoop at e; cases e; exact h
  | cons x xs ih =>
    obtain ⟨g, ids⟩ := x
    unfold cancelAllLoop at e
    split at e
    · cases e
    · rename_i p1 e1
      exact ih p1 (rs_cancelGroupBody p g ids order h p1 e1) e

theorem rs_doCancelAll (p : Pool) (h : RunSorted p) : RunSorted p.doCancelAll.1 := by
  unfold doCancelAll
  dsimp only
  split
  · exact h
  · rename_i p2 e
    refine rs_cancelAllLoop _ _ _ ?_ p2 e
    exact (rs_popOrder p h).same rfl rfl

theorem rs_doSetSize (p : Pool) (v : Int) (h : RunSorted p) : RunSorted (p.doSetSize v).1 := by
  unfold doSetSize
  split
  · exact h
  · exact h.same rfl rfl

theorem rs_doHook (p : Pool) (ctx : Nat) (o : HookOp) (h : RunSorted p) : RunSorted (p.doHook ctx o).1 := by
  unfold doHook
  rs1 [rs_doCancel, rs_doCancelGroup, rs_doCancelAll, rs_doStop, rs_doApply]

theorem rs_runHooks (p : Pool) (ctx : Nat) (hs : List HookOp) (h : RunSorted p) : RunSorted (p.runHooks ctx hs) :=
  rs_foldl _ (fun p o h => rs_logEv _ _ (rs_doHook p ctx o h)) hs p h

/-- plumbing and the synchronous API, plus the lemmas given -/
macro "rs2" "[" ls:term,* "]" : tactic =>
  `(tactic| rs1 [rs_doCancel, rs_doCancelGroup, rs_doCancelAll, rs_doStop, rs_doApply, rs_doHook,
    rs_runHooks, $ls,*])

/-! ### the wrapper of a pool task -/

theorem rs_completeTask (p : Pool) (t : Nat) (o : Outcome) (h : RunSorted p) : RunSorted (p.completeTask t o) := by
  unfold completeTask
  rs2 []

theorem rs_finishTask (p : Pool) (t : Nat) (h : RunSorted p) : RunSorted (p.finishTask t) := by
  unfold finishTask
  split
  · exact h
  · exact rs_completeTask p t _ h

theorem rs_suspendTask (p : Pool) (t : Nat) (ph : Phase) (h : RunSorted p) : RunSorted (p.suspendTask t ph) := by
  unfold suspendTask
  rs2 []

theorem rs_cbBegin (p : Pool) (t : Nat) (tk : PTask) (isEnd : Bool) (h : RunSorted p) : RunSorted (p.cbBegin t tk isEnd) := by
  unfold cbBegin
  dsimp only
  exact rs_runHooks _ _ _ (rs_logEv _ _ (rs_modTask p t _ h))

theorem rs_runCb (p : Pool) (t : Nat) (tk : PTask) (isEnd : Bool) (h : RunSorted p) : RunSorted (p.runCb t tk isEnd).1 := by
  unfold runCb
  rs2 [rs_cbBegin, rs_suspendTask]

theorem rs_moveToEnded (p : Pool) (t : Nat) (h : RunSorted p) (q : Pool) (e : p.moveToEnded t = some q) : RunSorted q := by
  unfold moveToEnded at e
  split at e
  · cases e; exact h.erase t rfl rfl
  · split at e
    · cases e; exact h.same rfl rfl
    · cases e

theorem rs_releaseMapSlot (p : Pool) (t : Nat) (tk : PTask) (h : RunSorted p) : RunSorted (p.releaseMapSlot t tk) := by
  unfold releaseMapSlot
  rs2 []

theorem rs_endCallback (p : Pool) (t : Nat) (tk : PTask) (h : RunSorted p) : RunSorted (p.endCallback t tk) := by
  unfold endCallback
  rs2 [rs_runCb, rs_releaseMapSlot, rs_finishTask]

theorem rs_endingTail (p : Pool) (t : Nat) (tk : PTask) (h : RunSorted p) : RunSorted (p.endingTail t tk) := by
  unfold endingTail
  rs2 [rs_endCallback]

theorem rs_keyErrorFinish (p : Pool) (t : Nat) (h : RunSorted p) : RunSorted (p.keyErrorFinish t) := by
  unfold keyErrorFinish
  rs2 [rs_finishTask]

theorem rs_taskEnding (p : Pool) (t : Nat) (h : RunSorted p) : RunSorted (p.taskEnding t) := by
  unfold taskEnding
  split
  · exact h
  · split
    · exact rs_keyErrorFinish p t h
    · rename_i p1 e
      exact rs_endingTail p1 t _ (rs_moveToEnded p t h p1 e)

theorem rs_cancelCallback (p : Pool) (t : Nat) (tk : PTask) (h : RunSorted p) : RunSorted (p.cancelCallback t tk) := by
  unfold cancelCallback
  rs2 [rs_runCb, rs_taskEnding]

theorem rs_taskCancellation (p : Pool) (t : Nat) (tk : PTask) (h : RunSorted p) : RunSorted (p.taskCancellation t tk) := by
  unfold taskCancellation
  rs2 [rs_cancelCallback, rs_taskEnding]

theorem rs_afterWorker (p : Pool) (t : Nat) (e : Option Err) (h : RunSorted p) : RunSorted (p.afterWorker t e) := by
  unfold afterWorker
  rs2 [rs_taskEnding]

theorem rs_stepCreated (p : Pool) (t : Nat) (tk : PTask) (h : RunSorted p) : RunSorted (p.stepCreated t tk) := by
  unfold stepCreated
  rs2 [rs_taskCancellation, rs_afterWorker, rs_suspendTask]

theorem rs_workerCancelled (p : Pool) (t : Nat) (tk : PTask) (h : RunSorted p) : RunSorted (p.workerCancelled t tk) := by
  unfold workerCancelled
  rs2 [rs_taskCancellation, rs_afterWorker, rs_suspendTask]

theorem rs_workerNext (p : Pool) (t : Nat) (tk : PTask) (h : RunSorted p) : RunSorted (p.workerNext t tk) := by
  unfold workerNext
  rs2 [rs_suspendTask]

theorem rs_stepInWorker (p : Pool) (t : Nat) (tk : PTask) (h : RunSorted p) : RunSorted (p.stepInWorker t tk) := by
  unfold stepInWorker
  rs2 [rs_workerCancelled, rs_workerNext, rs_afterWorker]

theorem rs_stepInCancelCb (p : Pool) (t : Nat) (tk : PTask) (h : RunSorted p) : RunSorted (p.stepInCancelCb t tk) := by
  unfold stepInCancelCb
  rs2 [rs_taskEnding]

theorem rs_stepInEndCb (p : Pool) (t : Nat) (tk : PTask) (h : RunSorted p) : RunSorted (p.stepInEndCb t tk) := by
  unfold stepInEndCb
  rs2 [rs_finishTask]

theorem rs_stepTask (p : Pool) (t : Nat) (h : RunSorted p) : RunSorted (p.stepTask t) := by
  unfold stepTask
  rs2 [rs_stepCreated, rs_stepInWorker, rs_stepInCancelCb, rs_stepInEndCb]

/-! ### spawners -/

theorem rs_finishMeta (p : Pool) (m : Nat) (o : Outcome) (h : RunSorted p) : RunSorted (p.finishMeta m o) := by
  unfold finishMeta
  rs2 []

theorem rs_createTask (p : Pool) (m : Nat) (isMap : Bool) (h : RunSorted p) : RunSorted (p.createTask m isMap) := by
  unfold createTask
  dsimp only
  exact rs_emitRef _ _ (rs_modReq _ _ _ (h.push _ rfl rfl))

theorem rs_takeSlotAndCreate (p : Pool) (m : Nat) (isMap : Bool) (h : RunSorted p) : RunSorted (p.takeSlotAndCreate m isMap) := by
  unfold takeSlotAndCreate
  rs2 [rs_createTask]

theorem rs_waitRoom (p : Pool) (m : Nat) (h : RunSorted p) : RunSorted (p.waitRoom m) := by
  unfold waitRoom
  rs2 []

theorem rs_waitMapSem (p : Pool) (m : Nat) (h : RunSorted p) : RunSorted (p.waitMapSem m) := by
  unfold waitMapSem
  rs2 []

theorem rs_applyLoop (m n : Nat) (p : Pool) (h : RunSorted p) : RunSorted (applyLoop m n p) := by
  induction n generalizing p with
  | zero =>
    unfold applyLoop
    rs2 [rs_finishMeta]
  | succ n ih =>
    unfold applyLoop
    rs2 [rs_finishMeta, rs_waitRoom, rs_takeSlotAndCreate, ih]

theorem rs_mapStartTask (p : Pool) (m : Nat) (h : RunSorted p) : RunSorted (p.mapStartTask m).1 := by
  unfold mapStartTask
  rs2 [rs_finishMeta, rs_waitRoom, rs_takeSlotAndCreate]

theorem rs_pullItem (p : Pool) (m : Nat) (rest : List Item) (h : RunSorted p) : RunSorted (p.pullItem m rest) := by
  unfold pullItem
  rs2 []

theorem rs_takeMapSlot (p : Pool) (m : Nat) (h : RunSorted p) : RunSorted (p.takeMapSlot m) := by
  unfold takeMapSlot
  rs2 []

theorem rs_mapLoop (m : Nat) (items : List Item) (p : Pool) (h : RunSorted p) : RunSorted (mapLoop m items p) := by
  induction items generalizing p with
  | nil =>
    unfold mapLoop
    rs2 [rs_finishMeta]
  | cons it rest ih =>
    unfold mapLoop
    rs2 [rs_finishMeta, rs_waitMapSem, rs_mapStartTask, rs_takeMapSlot, rs_pullItem, ih]

theorem rs_continueSpawner (p : Pool) (m : Nat) (h : RunSorted p) : RunSorted (p.continueSpawner m) := by
  unfold continueSpawner
  rs2 [rs_applyLoop, rs_mapLoop]

theorem rs_stepMetaNotStarted (p : Pool) (m : Nat) (r : Req) (h : RunSorted p) : RunSorted (p.stepMetaNotStarted m r) := by
  unfold stepMetaNotStarted
  rs2 [rs_finishMeta, rs_applyLoop, rs_mapLoop]

theorem rs_roomWaitCancelled (p : Pool) (m : Nat) (r : Req) (st : Option WaitSt) (h : RunSorted p) :
    RunSorted (p.roomWaitCancelled m r st) := by
  unfold roomWaitCancelled
  rs2 [rs_finishMeta]

theorem rs_roomGranted (p : Pool) (m : Nat) (r : Req) (h : RunSorted p) : RunSorted (p.roomGranted m r) := by
  unfold roomGranted
  rs2 [rs_continueSpawner, rs_createTask]

theorem rs_wakeWaitRoomCore (p : Pool) (m : Nat) (r : Req) (h : RunSorted p) : RunSorted (p.wakeWaitRoomCore m r) := by
  unfold wakeWaitRoomCore
  rs2 [rs_roomWaitCancelled, rs_roomGranted]

theorem rs_wakeWaitRoom (p : Pool) (m : Nat) (r : Req) (h : RunSorted p) : RunSorted (p.wakeWaitRoom m r) := by
  unfold wakeWaitRoom
  rs2 [rs_wakeWaitRoomCore]

theorem rs_mapSemGranted (p : Pool) (m : Nat) (r : Req) (h : RunSorted p) : RunSorted (p.mapSemGranted m r) := by
  unfold mapSemGranted
  rs2 [rs_mapLoop, rs_mapStartTask]

theorem rs_wakeWaitMapSemCore (p : Pool) (m : Nat) (r : Req) (h : RunSorted p) : RunSorted (p.wakeWaitMapSemCore m r) := by
  unfold wakeWaitMapSemCore
  dsimp only
  generalize (if ((removeWaiterL m r.mapSem.waiters).1 == some WaitSt.granted) = true then _ else _ : Sem × Option Nat) = s2
  rs2 [rs_finishMeta, rs_mapSemGranted]

theorem rs_wakeWaitMapSem (p : Pool) (m : Nat) (r : Req) (h : RunSorted p) : RunSorted (p.wakeWaitMapSem m r) := by
  unfold wakeWaitMapSem
  rs2 [rs_wakeWaitMapSemCore]

theorem rs_stepMeta (p : Pool) (m : Nat) (h : RunSorted p) : RunSorted (p.stepMeta m) := by
  unfold stepMeta
  rs2 [rs_stepMetaNotStarted, rs_wakeWaitRoom, rs_wakeWaitMapSem]

/-! ### gather -/

theorem rs_gatherChildDone (p : Pool) (g i : Nat) (v : Bool) (h : RunSorted p) : RunSorted (p.gatherChildDone g i v) := by
  unfold gatherChildDone
  rs2 []

theorem rs_registerChild (p : Pool) (c : Child) (g i : Nat) (h : RunSorted p) : RunSorted (p.registerChild c g i) := by
  unfold registerChild
  rs2 []

theorem rs_gatherScan (g : Nat) (cs : List Child) (i : Nat) (p : Pool) (h : RunSorted p) : RunSorted (gatherScan g cs i p) := by
  induction cs generalizing i p with
  | nil => unfold gatherScan; exact h
  | cons c cs ih =>
    unfold gatherScan
    rs2 [ih, rs_gatherChildDone, rs_registerChild]

theorem rs_gatherStart (p : Pool) (children : List Child) (re : Bool) (owner sp : Nat) (h : RunSorted p) :
    RunSorted (p.gatherStart children re owner sp).1 := by
  unfold gatherStart
  rs2 [rs_gatherScan]

/-! ### flush / gather_and_close / until_closed -/

theorem rs_finishApi (p : Pool) (a : Nat) (o : Outcome) (h : RunSorted p) : RunSorted (p.finishApi a o) := h.same rfl rfl

theorem rs_flushAfter2 (p : Pool) (a : Nat) (o : Outcome) (h : RunSorted p) : RunSorted (p.flushAfter2 a o) := by
  unfold flushAfter2
  rs2 [rs_finishApi]

theorem rs_flushAfter1 (p : Pool) (a : Nat) (re : Bool) (o : Outcome) (h : RunSorted p) : RunSorted (p.flushAfter1 a re o) := by
  unfold flushAfter1
  rs2 [rs_finishApi, rs_flushAfter2, rs_gatherStart]

theorem rs_flushStage1 (p : Pool) (a : Nat) (re : Bool) (h : RunSorted p) : RunSorted (p.flushStage1 a re) := by
  unfold flushStage1
  rs2 [rs_flushAfter1, rs_gatherStart]

theorem rs_gacAfter2 (p : Pool) (a : Nat) (o : Outcome) (h : RunSorted p) : RunSorted (p.gacAfter2 a o) := by
  unfold gacAfter2
  split
  · dsimp only
    refine rs_finishApi _ a _ (rs_foldl _ (fun p w h => rs_schedApi p w h) _ _ ?_)
    exact RunSorted.clear rfl
  · exact rs_finishApi p a _ h

theorem rs_gacAfter1 (p : Pool) (a : Nat) (re : Bool) (g : Nat) (h : RunSorted p) : RunSorted (p.gacAfter1 a re g) := by
  unfold gacAfter1
  rs2 [rs_finishApi, rs_gacAfter2, rs_gatherStart]

theorem rs_gacStage1 (p : Pool) (a : Nat) (re : Bool) (h : RunSorted p) : RunSorted (p.gacStage1 a re) := by
  unfold gacStage1
  rs2 [rs_gacAfter1, rs_gatherStart]

theorem rs_untilClosedStart (p : Pool) (a : Nat) (h : RunSorted p) : RunSorted (p.untilClosedStart a) := by
  unfold untilClosedStart
  rs2 [rs_finishApi]

theorem rs_stepApi (p : Pool) (a : Nat) (h : RunSorted p) : RunSorted (p.stepApi a) := by
  unfold stepApi
  rs2 [rs_finishApi, rs_flushStage1, rs_gacStage1, rs_untilClosedStart, rs_flushAfter1, rs_flushAfter2,
    rs_gacAfter1, rs_gacAfter2]

/-! ### every handle, every operation -/

theorem rs_runRef (p : Pool) (r : Ref) (h : RunSorted p) : RunSorted (p.runRef r) := by
  cases r with
  | task t => exact rs_stepTask p t h
  | spawner m => exact rs_stepMeta p m h
  | api a => exact rs_stepApi p a h
  | gchild g i => exact rs_gatherChildDone p g i true h

theorem rs_addApi (p : Pool) (k : ApiKind) (h : RunSorted p) : RunSorted (p.addApi k) := h.same rfl rfl

theorem rs_doGate (p : Pool) (t : Nat) (o : FutSt) (h : RunSorted p) : RunSorted (p.doGate t o).1 := by
  unfold doGate
  rs2 []

theorem rs_doLock (p : Pool) (h : RunSorted p) : RunSorted p.doLock := h.same rfl rfl
theorem rs_doUnlock (p : Pool) (h : RunSorted p) : RunSorted p.doUnlock := h.same rfl rfl

theorem rs_applyOp (p : Pool) (op : Op) (h : RunSorted p) : RunSorted (p.applyOp op).1 := by
  unfold applyOp
  rs2 [rs_doMap, rs_doStart, rs_doSetSize, rs_addApi, rs_doGate, rs_doLock, rs_doUnlock]

theorem rs_init (size : Cap) (simple : Option SpawnSpec) : RunSorted (Pool.init size simple) :=
  RunSorted.clear rfl

theorem runSorted_init (size : Cap) (simple : Option SpawnSpec) : RunSorted (Pool.init size simple) := rs_init size simple
theorem runSorted_applyOp (p : Pool) (op : Op) (h : RunSorted p) : RunSorted (p.applyOp op).1 := rs_applyOp p op h
theorem runSorted_runRef (p : Pool) (r : Ref) (h : RunSorted p) : RunSorted (p.runRef r) := rs_runRef p r h

/-- **`RunSorted` holds in every pool of every reachable world**: established by the constructor, preserved by every
operation, every handle and the drain -/
theorem runSortedInvariant : PoolInvariant (fun _ p => RunSorted p) allOps where
  init := fun c simple _ => rs_init c.size0 simple
  op := fun _ _ _ o _ h => rs_applyOp _ o (h.same rfl rfl)
  run := fun _ _ _ r h => rs_runRef _ r (h.same rfl rfl)
  drain := fun _ _ h => h.same rfl rfl

end Pool

/-- every pool of every reachable world, whatever the history -/
theorem World.runSorted_run (base : Nat) (h : History) (i : Nat) (c : Cfg) (p : Pool)
    (hc : ((World.init base).run h).cfgs[i]? = some c) (hp : ((World.init base).run h).pools[i]? = some p) : p.RunSorted :=
  (World.reachable Pool.runSortedInvariant base h (fun x _ => by cases x <;> rfl)).inv i c p hc hp
