import Taskpool.Inv.FinS
import Taskpool.Inv.FinWalk
import Taskpool.Inv.SealWalk2
/-! **A spawner that was never cancelled ends only when its work is done, in pools that nobody unlocks — the walk.**
`Pool.FinSOK` (`Inv/FinS.lean`) is preserved by every step of a sealed pool (`Inv/Seal.lean`).

The walking predicate `FKS M p` is `FK M p` of `Inv/FinWalk.lean` without its clauses `nog` / `ncl` and with `cl` instead:
once the pool is closed every live spawner was cancelled through the pool.  `cl` is preserved by every function of the
machine that does not close the pool (a new request is rejected by `_check_start` when the pool is closed; nothing
resets `everCancelled`, nothing takes an outcome back); with `cl` a spawner that was never cancelled never sees the
closed pool.  The two steps of `gather_and_close()` that need more — `gacAfter1` un-files every spawner, `gacAfter2`
closes the pool — run only when every live spawner was cancelled (`AllEC`): at the handle boundary this follows from
`Seal.g1` + `SpawnersWaited` resp. `Seal.g2`, and `ir`.

The per-request record `RG`, the pinning `PM`/`PK` and the lemmas about `metaCancel` / the waiter queues are those of
`Inv/FinWalk.lean`. -/
namespace Taskpool
namespace Pool

/-! ### the walking predicate -/

/-- every live spawner was cancelled through the pool -/
def AllEC (p : Pool) : Prop :=
  ∀ (m : Nat) (r : Req), p.reqs[m]? = some r → r.outcome = none → r.everCancelled = true

structure FKS (M : Nat → (PK → Prop) → Prop) (p : Pool) : Prop where
  cl : p.closed = true → AllEC p
  rg : ∀ (m : Nat) (r : Req), p.reqs[m]? = some r → RG r
  cw : ∀ w ∈ p.sem.waiters, w.st = .cancelled → ∃ r, p.reqs[w.owner]? = some r ∧ r.everCancelled = true
  pin : ∀ m Q, M m Q → ∃ r, p.reqs[m]? = some r ∧ Q r.pk

/-- nobody pinned: the state between two steps -/
abbrev FS0 (p : Pool) : Prop := FKS (fun _ _ => False) p
variable {M : Nat → (PK → Prop) → Prop}

theorem FKS.finSOK {p : Pool} (h : FKS M p) : FinSOK p where
  cl := h.cl
  cg := fun m r hp => (h.rg m r hp).cg
  cw := fun w hw hc r hp => by
    obtain ⟨r0, hp0, he⟩ := h.cw w hw hc
    rw [hp] at hp0; cases hp0; exact he
  cm := fun m r hp => (h.rg m r hp).cm
  ir := fun m r hp => (h.rg m r hp).ir
  ok := fun m r hp => (h.rg m r hp).ok
  nc1 := fun m r hp => (h.rg m r hp).kn
  ka := fun m r hp => (h.rg m r hp).ka
  km := fun m r hp => (h.rg m r hp).km
  kw := fun m r hp => (h.rg m r hp).kw
  pc0 := fun m r hp => (h.rg m r hp).pc0
  pc1 := fun m r hp => (h.rg m r hp).pc1

theorem fs_weaken {M' : Nat → (PK → Prop) → Prop} {p : Pool} (h : FKS M p) (hM : ∀ m Q, M' m Q → M m Q) : FKS M' p :=
  { h with pin := fun m Q hm => h.pin m Q (hM m Q hm) }

theorem FKS.zero {p : Pool} (h : FKS M p) : FS0 p := fs_weaken h (fun _ _ f => f.elim)

theorem FKS.pinned {p : Pool} {m : Nat} {Q : PK → Prop} (h : FKS (PM m Q) p) : ∃ r, p.reqs[m]? = some r ∧ Q r.pk :=
  h.pin m Q ⟨rfl, rfl⟩

/-- the requests are the same; every cancelled entry of the pool's queue was there before (or belongs to a request filed
as cancelled) -/
theorem fs_reqs_eq {p q : Pool} (h : FKS M p) (hc : q.closed = p.closed) (hr : q.reqs = p.reqs)
    (hw : ∀ w' ∈ q.sem.waiters, w'.st = .cancelled →
      w' ∈ p.sem.waiters ∨ ∃ r, p.reqs[w'.owner]? = some r ∧ r.everCancelled = true) : FKS M q := by
  refine { cl := ?_, rg := ?_, cw := ?_, pin := ?_ }
  · unfold AllEC; rw [hc, hr]; exact h.cl
  · rw [hr]; exact h.rg
  · intro w' hw' hst
    rw [hr]
    rcases hw w' hw' hst with a | a
    · exact h.cw w' a hst
    · exact a
  · rw [hr]; exact h.pin

/-- nothing the invariant reads has changed -/
theorem fs_of_eq {p q : Pool} (h : FKS M p) (hc : q.closed = p.closed) (hr : q.reqs = p.reqs)
    (hs : q.sem.waiters = p.sem.waiters) : FKS M q :=
  fs_reqs_eq h hc hr (fun _ hw' _ => Or.inl (hs ▸ hw'))

/-- one request record changes (`everCancelled` is not cleared, no outcome is taken back, the own fields of a pinned
spawner stay); every cancelled entry of the pool's queue was there before or belongs to a request filed as cancelled -/
theorem fs_mod {p q : Pool} (h : FKS M p) (hc : q.closed = p.closed) (m : Nat) (f : Req → Req)
    (hr : q.reqs = p.reqs.modify m f)
    (hf : ∀ r, p.reqs[m]? = some r → RG r → RG (f r) ∧ (r.everCancelled = true → (f r).everCancelled = true) ∧
      ((∃ Q, M m Q) → (f r).pk = r.pk))
    (hw : ∀ w' ∈ q.sem.waiters, w'.st = .cancelled →
      w' ∈ p.sem.waiters ∨ ∃ r, q.reqs[w'.owner]? = some r ∧ r.everCancelled = true)
    (ho : ∀ r, (f r).outcome = none → r.outcome = none) : FKS M q := by
  have hec : ∀ (i : Nat) (r : Req), p.reqs[i]? = some r → r.everCancelled = true →
      ∃ r' : Req, q.reqs[i]? = some r' ∧ r'.everCancelled = true := by
    intro i r hp he
    refine ⟨_, by rw [hr]; exact modify_get hp, ?_⟩
    split
    · rename_i e; subst e; exact (hf r hp (h.rg _ r hp)).2.1 he
    · exact he
  refine { cl := ?_, rg := ?_, cw := ?_, pin := ?_ }
  · intro hcl i r' hq hout
    rw [hc] at hcl
    rw [hr] at hq
    obtain ⟨r, hp, e⟩ := modify_inv hq
    subst e
    split at hout
    · rename_i e; subst e
      rw [if_pos rfl]
      exact (hf r hp (h.rg _ r hp)).2.1 (h.cl hcl _ r hp (ho r hout))
    · rename_i e
      rw [if_neg e]
      exact h.cl hcl i r hp hout
  · intro i r' hq
    rw [hr] at hq
    obtain ⟨r, hp, e⟩ := modify_inv hq
    subst e
    split
    · rename_i e; subst e; exact (hf r hp (h.rg _ r hp)).1
    · exact h.rg i r hp
  · intro w' hw' hst
    rcases hw w' hw' hst with a | a
    · obtain ⟨r, hp, he⟩ := h.cw w' a hst
      exact hec _ r hp he
    · exact a
  · intro i Q hi
    obtain ⟨r, hp, hQ⟩ := h.pin i Q hi
    refine ⟨_, by rw [hr]; exact modify_get hp, ?_⟩
    split
    · rename_i e; subst e
      obtain ⟨_, _, ab⟩ := hf r hp (h.rg _ r hp)
      rw [ab ⟨Q, hi⟩]; exact hQ
    · exact hQ

/-- discharges "no outcome is taken back" for a record update that is visible in the goal -/
macro "fs_out" : tactic => `(tactic| (intro r; first | exact id | exact fun e => nomatch e))

theorem fs_modReq {p : Pool} (h : FKS M p) (m : Nat) (f : Req → Req)
    (hf : ∀ r, p.reqs[m]? = some r → RG r → RG (f r) ∧ (r.everCancelled = true → (f r).everCancelled = true) ∧
      ((∃ Q, M m Q) → (f r).pk = r.pk))
    (ho : ∀ r, (f r).outcome = none → r.outcome = none := by fs_out) : FKS M (p.modReq m f) :=
  fs_mod h rfl m f rfl hf (fun _ hw' _ => Or.inl hw') ho

/-- a change to one request in fields the invariant does not read -/
theorem fs_modReq_triv {p : Pool} (h : FKS M p) (m : Nat) (f : Req → Req)
    (e1 : ∀ r, (f r).mustCancel = true → r.mustCancel = true) (e2 : ∀ r, (f r).everCancelled = r.everCancelled)
    (e3 : ∀ r, ∀ w ∈ (f r).mapSem.waiters, w.st = .cancelled → w ∈ r.mapSem.waiters) (e4 : ∀ r, (f r).outcome = r.outcome)
    (e5 : ∀ r, (f r).inRunning = r.inRunning) (e6 : ∀ r, (f r).remaining = r.remaining)
    (e7 : ∀ r, (f r).items = r.items) (e8 : ∀ r, (f r).kind = r.kind)
    (e10 : ∀ r, (f r).nc = r.nc) (e9 : ∀ r, (f r).pk = r.pk) :
    FKS M (p.modReq m f) :=
  fs_modReq h m f (fun r _ hg =>
    ⟨rg_of_eq hg (e1 r) (e2 r) (e3 r) (e4 r) (e5 r) (e6 r) (e7 r) (e8 r) (Or.inl (congrArg PK.frame (e9 r))) (e10 r)
      (congrArg PK.pulled (e9 r)) (congrArg PK.created (e9 r)) (congrArg PK.skipped (e9 r)),
      fun a => (e2 r).symm ▸ a, fun _ => e9 r⟩) (fun r a => (e4 r) ▸ a)

/-- `fs_modReq_triv` for a rewriting function that is visible in the goal -/
macro "fs_mr" h:term : term =>
  `(fs_modReq_triv $h _ _ (fun _ a => by first | exact a | cases a) (fun _ => rfl) (fun _ _ a _ => a) (fun _ => rfl) (fun _ => rfl)
      (fun _ => rfl) (fun _ => rfl) (fun _ => rfl) (fun _ => rfl) (fun _ => rfl))

/-- the pool's waiter queue changes; every cancelled entry was there before -/
theorem fs_sem {p : Pool} (h : FKS M p) (s : Sem) (hw : ∀ w' ∈ s.waiters, w'.st = .cancelled → w' ∈ p.sem.waiters) :
    FKS M ({ p with sem := s } : Pool) :=
  fs_reqs_eq h rfl rfl (fun w' hw' hst => Or.inl (hw w' hw' hst))

/-- every request rewritten by the same function -/
theorem fs_mapReqs {p q : Pool} (h : FKS M p) (f : Req → Req) (hc : q.closed = p.closed)
    (hs : q.sem.waiters = p.sem.waiters) (hr : q.reqs = p.reqs.map f)
    (hf : ∀ (i : Nat) (r : Req), p.reqs[i]? = some r → RG r →
      RG (f r) ∧ (r.everCancelled = true → (f r).everCancelled = true) ∧ (f r).pk = r.pk) :
    FKS M q := by
  refine { cl := ?_, rg := ?_, cw := ?_, pin := ?_ }
  · intro hcl i r' hq hout
    rw [hc] at hcl
    rw [hr, List.getElem?_map] at hq
    cases hp : p.reqs[i]? with
    | none => simp [hp] at hq
    | some r =>
      simp [hp] at hq; subst hq
      obtain ⟨_, a, b⟩ := hf i r hp (h.rg i r hp)
      have b' : (f r).outcome = r.outcome := congrArg PK.outcome b
      exact a (h.cl hcl i r hp (b' ▸ hout))
  · intro i r' hq
    rw [hr, List.getElem?_map] at hq
    cases hp : p.reqs[i]? with
    | none => simp [hp] at hq
    | some r =>
      simp [hp] at hq; subst hq
      exact (hf i r hp (h.rg i r hp)).1
  · intro w' hw' hst
    rw [hs] at hw'
    obtain ⟨r, hp, he⟩ := h.cw w' hw' hst
    exact ⟨f r, by rw [hr, List.getElem?_map, hp]; rfl, (hf _ r hp (h.rg _ r hp)).2.1 he⟩
  · intro i Q hi
    obtain ⟨r, hp, hQ⟩ := h.pin i Q hi
    obtain ⟨_, _, a⟩ := hf _ r hp (h.rg _ r hp)
    exact ⟨f r, by rw [hr, List.getElem?_map, hp]; rfl, a ▸ hQ⟩

/-- a new request: the pool is not closed -/
theorem fs_appendReq {p q : Pool} (h : FKS M p) (r0 : Req) (hnc : p.closed = false) (hc : q.closed = p.closed)
    (hs : q.sem.waiters = p.sem.waiters) (hr : q.reqs = p.reqs ++ [r0]) (h0 : RG r0) : FKS M q := by
  have hold : ∀ i r, p.reqs[i]? = some r → q.reqs[i]? = some r := fun i r hp => by
    rw [hr, List.getElem?_append_left (lt_of_getElem?_some hp)]; exact hp
  refine { cl := ?_, rg := ?_, cw := ?_, pin := ?_ }
  · intro hcl
    rw [hc, hnc] at hcl; cases hcl
  · intro i r hq
    rw [hr] at hq
    rcases append_some hq with hp | ⟨_, rfl⟩
    · exact h.rg i r hp
    · exact h0
  · intro w' hw' hst
    rw [hs] at hw'
    obtain ⟨r, hp, he⟩ := h.cw w' hw' hst
    exact ⟨r, hold _ r hp, he⟩
  · intro i Q hi
    obtain ⟨r, hp, hk⟩ := h.pin i Q hi
    exact ⟨r, hold _ r hp, hk⟩

/-! ### plumbing -/

theorem fs_emitRef {p : Pool} (h : FKS M p) (r : Ref) : FKS M (p.emitRef r) := fs_of_eq h rfl rfl rfl
theorem fs_logEv {p : Pool} (h : FKS M p) (e : Ev) : FKS M (p.logEv e) := fs_of_eq h rfl rfl rfl
theorem fs_modTask {p : Pool} (h : FKS M p) (t : Nat) (f : PTask → PTask) : FKS M (p.modTask t f) :=
  fs_of_eq h rfl rfl rfl
theorem fs_modGather {p : Pool} (h : FKS M p) (g : Nat) (f : Gather → Gather) : FKS M (p.modGather g f) :=
  fs_of_eq h rfl rfl rfl

/-- a rewrite of a background call -/
theorem fs_modApi {p : Pool} (h : FKS M p) (a : Nat) (f : Api → Api) : FKS M (p.modApi a f) :=
  fs_of_eq h rfl rfl rfl

theorem fs_schedTask {p : Pool} (h : FKS M p) (t : Nat) : FKS M (p.schedTask t) := by
  unfold schedTask; exact fs_emitRef (fs_modTask h _ _) _

theorem fs_schedApi {p : Pool} (h : FKS M p) (a : Nat) : FKS M (p.schedApi a) := by
  unfold schedApi
  refine fs_emitRef ?_ _
  exact fs_modApi h a _

theorem fs_schedMeta {p : Pool} (h : FKS M p) (m : Nat) : FKS M (p.schedMeta m) := by
  unfold schedMeta
  refine fs_emitRef (p := p.modReq m fun x => { x with sched := true }) ?_ _
  exact fs_mr h

theorem fs_schedOpt {p : Pool} (h : FKS M p) (o : Option Nat) : FKS M (p.schedOpt o) := by
  cases o with
  | none => exact h
  | some m => exact fs_schedMeta h m

theorem fs_foldl {α} (f : Pool → α → Pool) (hf : ∀ p a, FKS M p → FKS M (f p a)) (l : List α) (p : Pool) (h : FKS M p) :
    FKS M (l.foldl f p) := by
  induction l generalizing p with
  | nil => exact h
  | cons a as ih => exact ih _ (hf p a h)

theorem fs_emitChildren {p : Pool} (h : FKS M p) (cbs : List (Nat × Nat)) : FKS M (p.emitChildren cbs) := by
  unfold emitChildren
  exact fs_foldl _ (fun q gi hq => fs_emitRef hq _) _ _ h

theorem fs_wake {p : Pool} (h : FKS M p) (s : Sem) (hs : s.waiters = p.sem.waiters) :
    FKS M (({ p with sem := s.wakeNext.1 } : Pool).schedOpt s.wakeNext.2) := by
  refine fs_schedOpt (fs_sem h _ (fun w' hw' hc => ?_)) _
  rw [wakeNext_waiters] at hw'
  rw [← hs]
  exact wakeNextL_cancelled _ _ _ hw' hc

theorem fs_releasePool {p : Pool} (h : FKS M p) : FKS M p.releasePool := by
  unfold releasePool Sem.release
  exact fs_wake h _ rfl

theorem fs_releaseMap {p : Pool} (h : FKS M p) (m : Nat) : FKS M (p.releaseMap m) := by
  unfold releaseMap
  split
  · exact h
  · rename_i r hp
    refine fs_schedOpt (fs_modReq h m _ (fun r0 hp0 hg => ?_)) _
    rw [hp] at hp0; cases hp0
    refine ⟨rg_of_eq hg id rfl (fun w hw hc => ?_) rfl rfl rfl rfl rfl (Or.inl rfl) rfl rfl rfl rfl, id, fun _ => rfl⟩
    exact wakeNextL_cancelled _ _ _ hw hc

/-! ### asyncio `Task.cancel()` -/

theorem fs_taskCancel {p : Pool} (h : FKS M p) (t : Nat) : FKS M (p.taskCancel t) := by
  unfold taskCancel
  split
  · exact h
  · split
    · exact h
    · split
      · exact fs_schedTask (fs_modTask h _ _) _
      · exact fs_modTask h _ _

theorem fs_cancelTask {p : Pool} (h : FKS M p) (t : Nat) : FKS M (p.cancelTask t) := by
  unfold cancelTask
  split
  · exact h
  · split
    · exact fs_modTask h _ _
    · exact fs_taskCancel h t

/-! ### `cancel_group`: the spawners of the group are cancelled, then filed as cancelled -/

/-- `FKS` up to the requests about to be filed as cancelled -/
structure FSx (M : Nat → (PK → Prop) → Prop) (g : String) (p : Pool) : Prop where
  cl : p.closed = true → AllEC p
  rg : ∀ (m : Nat) (r : Req), p.reqs[m]? = some r → RGx g r
  cw : ∀ w ∈ p.sem.waiters, w.st = .cancelled →
         ∃ r, p.reqs[w.owner]? = some r ∧ (r.everCancelled = true ∨ Exc g r)
  pin : ∀ m Q, M m Q → ∃ r, p.reqs[m]? = some r ∧ Q r.pk

theorem FKS.toX {p : Pool} (h : FKS M p) (g : String) : FSx M g p where
  cl := h.cl
  rg := fun m r hp =>
    have hg := h.rg m r hp
    ⟨fun a => Or.inl (hg.cg a), fun w hw hc => Or.inl (hg.cm w hw hc), hg.ir, hg.ok, hg.ka, hg.km, hg.kw, hg.kn,
      hg.pc0, hg.pc1⟩
  cw := fun w hw hc => by
    obtain ⟨r, hp, he⟩ := h.cw w hw hc
    exact ⟨r, hp, Or.inl he⟩
  pin := h.pin

/-- request `m`, which is about to be filed as cancelled, changes in `mustCancel` / its own waiter queue; new cancelled
entries of the pool's queue are its own -/
theorem fsx_mod {g : String} {p q : Pool} (h : FSx M g p) (hc : q.closed = p.closed) (m : Nat)
    (f : Req → Req) (hr : q.reqs = p.reqs.modify m f) (hf : ∀ r, Same r (f r))
    (hm : ∃ r, p.reqs[m]? = some r ∧ Exc g r)
    (hw : ∀ w' ∈ q.sem.waiters, w'.st = .cancelled → w' ∈ p.sem.waiters ∨ w'.owner = m) : FSx M g q := by
  obtain ⟨rm, hpm, hem⟩ := hm
  have hqm : q.reqs[m]? = some (f rm) := by
    rw [hr]; have := modify_get (m := m) (f := f) hpm; rwa [if_pos rfl] at this
  refine { cl := ?_, rg := ?_, cw := ?_, pin := ?_ }
  · intro hcl i r' hq hout
    rw [hc] at hcl
    rw [hr] at hq
    obtain ⟨r, hp, e⟩ := modify_inv hq
    subst e
    split at hout
    · rename_i e; subst e
      rw [if_pos rfl, (hf r).e_ec]
      rw [(hf r).e_out] at hout
      exact h.cl hcl _ r hp hout
    · rename_i e
      rw [if_neg e]
      exact h.cl hcl i r hp hout
  · intro i r' hq
    rw [hr] at hq
    obtain ⟨r, hp, e⟩ := modify_inv hq
    subst e
    split
    · rename_i e; subst e
      rw [hpm] at hp; cases hp
      have hg := h.rg _ _ hpm
      have hs := hf rm
      have hx : Exc g (f rm) := hs.exc hem
      refine ⟨fun _ => Or.inr hx, fun _ _ _ => Or.inr hx, ?_, ?_, ?_, ?_, ?_, ?_, ?_, ?_⟩
      · rw [hs.e_out, hs.e_ec, hs.e_ir]; exact hg.ir
      · rw [hs.e_out, hs.e_ec, hs.e_rem, hs.e_items, hs.e_kind, hs.e_pul, hs.e_cre, hs.e_ski]; exact hg.ok
      · rw [hs.e_kind, hs.e_items]; exact hg.ka
      · rw [hs.e_kind, hs.e_rem]; exact hg.km
      · rw [hs.e_kind, hs.e_frame]; exact hg.kw
      · rw [hs.e_kind, hs.e_nc]; exact hg.kn
      · rw [hs.e_kind, hs.e_out, hs.e_frame, hs.e_pul, hs.e_cre, hs.e_ski]; exact hg.pc0
      · rw [hs.e_kind, hs.e_out, hs.e_frame, hs.e_pul, hs.e_cre, hs.e_ski]; exact hg.pc1
    · exact h.rg i r hp
  · intro w' hw' hst
    rcases hw w' hw' hst with a | a
    · obtain ⟨r, hp, he⟩ := h.cw w' a hst
      refine ⟨_, by rw [hr]; exact modify_get hp, ?_⟩
      split
      · exact (hf r).ecx he
      · exact he
    · rw [a]; exact ⟨_, hqm, Or.inr ((hf rm).exc hem)⟩
  · intro i Q hi
    obtain ⟨r, hp, hQ⟩ := h.pin i Q hi
    refine ⟨_, by rw [hr]; exact modify_get hp, ?_⟩
    split
    · rw [(hf r).pk]; exact hQ
    · exact hQ

theorem fsx_metaCancel {g : String} {p : Pool} (h : FSx M g p) (m : Nat) (hm : ∃ r, p.reqs[m]? = some r ∧ Exc g r) :
    FSx M g (p.metaCancel m) := by
  unfold metaCancel
  split
  · exact h
  · split
    · exact h
    · split
      · rw [modReq_schedMeta]
        refine fsx_mod h (by rfl) m _ (by rfl) (fun x => ?_) hm ?_
        · have hs := same_snapReq x
          exact ⟨hs.e_out, hs.e_ec, hs.e_ir, hs.e_rem, hs.e_items, hs.e_kind, hs.e_frame, hs.e_group, hs.e_nc, hs.e_pul,
            hs.e_cre, hs.e_ski⟩
        · exact fun w' hw' _ => mem_cancelWaiterL _ _ _ hw'
      · split
        · rw [modReq_schedMeta]
          refine fsx_mod h (by rfl) m _ (by rfl) (fun x => ?_) hm (fun _ hw' _ => Or.inl hw')
          have hs := same_snapReq { x with mapSem := { x.mapSem with waiters := cancelWaiterL m x.mapSem.waiters } }
          exact ⟨hs.e_out, hs.e_ec, hs.e_ir, hs.e_rem, hs.e_items, hs.e_kind, hs.e_frame, hs.e_group, hs.e_nc, hs.e_pul,
            hs.e_cre, hs.e_ski⟩
        · refine fsx_mod h (by rfl) m _ (by rfl) (fun x => ?_) hm (fun _ hw' _ => Or.inl hw')
          have hs := same_snapReq { x with mustCancel := true }
          exact ⟨hs.e_out, hs.e_ec, hs.e_ir, hs.e_rem, hs.e_items, hs.e_kind, hs.e_frame, hs.e_group, hs.e_nc, hs.e_pul,
            hs.e_cre, hs.e_ski⟩

theorem fsx_foldl_metaCancel {g : String} (ms : List Nat) (p : Pool) (h : FSx M g p)
    (hms : ∀ i ∈ ms, ∃ r, p.reqs[i]? = some r ∧ Exc g r) :
    FSx M g (ms.foldl (fun p m => p.metaCancel m) p) := by
  induction ms generalizing p with
  | nil => exact h
  | cons m ms ih =>
    refine ih _ (fsx_metaCancel h m (hms m List.mem_cons_self)) (fun i hi => ?_)
    obtain ⟨r, hp, he⟩ := hms i (List.mem_cons_of_mem _ hi)
    obtain ⟨r', hq, hs⟩ := metaCancel_same p m i r hp
    exact ⟨r', hq, hs.exc he⟩

theorem fs_cancelGroupMetas {p : Pool} (h : FKS M p) (g : String) : FKS M (p.cancelGroupMetas g) := by
  unfold cancelGroupMetas
  simp only
  have h1 := fsx_foldl_metaCancel (indicesWhere p.reqs fun r => r.inRunning && r.group == g) p (h.toX g)
    (fun i hi => mem_indicesWhere hi)
  generalize (indicesWhere p.reqs fun r => r.inRunning && r.group == g).foldl (fun p m => p.metaCancel m) p = q at h1 ⊢
  refine { cl := ?_, rg := ?_, cw := ?_, pin := ?_ }
  · intro hcl i r' hq hout
    simp only [List.getElem?_map] at hq
    cases hp : q.reqs[i]? with
    | none => simp [hp] at hq
    | some r =>
      simp only [hp, Option.map_some, Option.some.injEq] at hq
      by_cases c : (r.inRunning && r.group == g) = true
      · rw [if_pos c] at hq; subst hq; rfl
      · rw [if_neg c] at hq; subst hq
        exact h1.cl hcl i r hp hout
  · intro i r' hq
    simp only [List.getElem?_map] at hq
    cases hp : q.reqs[i]? with
    | none => simp [hp] at hq
    | some r =>
      simp only [hp, Option.map_some, Option.some.injEq] at hq
      have hg := h1.rg i r hp
      by_cases c : (r.inRunning && r.group == g) = true
      · rw [if_pos c] at hq; subst hq
        exact ⟨fun _ => rfl, fun _ _ _ => rfl, fun _ e => (nomatch e), fun e => (nomatch e), hg.ka, hg.km, hg.kw, hg.kn,
          hg.pc0, hg.pc1⟩
      · rw [if_neg c] at hq; subst hq
        refine ⟨fun a => ?_, fun w hw hc => ?_, hg.ir, hg.ok, hg.ka, hg.km, hg.kw, hg.kn, hg.pc0, hg.pc1⟩
        · exact (hg.cg a).resolve_right c
        · exact (hg.cm w hw hc).resolve_right c
  · intro w hw hst
    obtain ⟨r, hp, he⟩ := h1.cw w hw hst
    refine ⟨_, by simp only [List.getElem?_map, hp, Option.map_some]; rfl, ?_⟩
    by_cases c : (r.inRunning && r.group == g) = true
    · rw [if_pos c]
    · rw [if_neg c]; exact he.resolve_right c
  · intro i Q hi
    obtain ⟨r, hp, hQ⟩ := h1.pin i Q hi
    refine ⟨_, by simp only [List.getElem?_map, hp, Option.map_some]; rfl, ?_⟩
    by_cases c : (r.inRunning && r.group == g) = true
    · rw [if_pos c]; exact hQ
    · rw [if_neg c]; exact hQ

/-! ### synchronous API -/

theorem checkStart_open {p : Pool} {b : Bool} (h : p.checkStart b = none) : p.closed = false := by
  unfold checkStart at h
  cases hc : p.closed with
  | false => rfl
  | true =>
    rw [hc] at h
    split at h
    · cases h
    · simp at h

/-- a new request is registered: the pool is not closed -/
theorem fs_register {p : Pool} (h : FKS M p) (r : Req) (hnc : p.closed = false) (hr : RG r) : FKS M (p.register r) := by
  unfold register
  exact fs_appendReq h r hnc rfl rfl rfl hr

theorem fs_ite_fst {c : Prop} [Decidable c] (a b : Pool × Res) (ha : FKS M a.1) (hb : FKS M b.1) :
    FKS M (if c then a else b).1 := by split <;> assumption

theorem fs_doApply {p : Pool} (h : FKS M p) (num : Int) (group : Option String) (sp : SpawnSpec) :
    FKS M (p.doApply num group sp).1 := by
  unfold doApply
  split
  · exact h
  · rename_i hcs
    simp only
    exact fs_ite_fst _ _ h (fs_register h _ (checkStart_open hcs) (rg_newReq_apply _ _ _ _ _))

theorem fs_doMap {p : Pool} (h : FKS M p) (stars : Nat) (items : List Item) (nc : Int) (group : Option String)
    (sp : SpawnSpec) : FKS M (p.doMap stars items nc group sp).1 := by
  unfold doMap
  simp only
  cases hcs : p.checkStart sp.isCoro with
  | some e => exact h
  | none =>
    simp only
    by_cases hnc : nc < 1
    · rw [if_pos hnc]; exact h
    · rw [if_neg hnc]
      exact fs_ite_fst _ _ h (fs_register h _ (checkStart_open hcs) (rg_newReq_map _ _ _ _ _ (by omega)))

theorem fs_doStart {p : Pool} (h : FKS M p) (num : Int) : FKS M (p.doStart num).1 := by
  unfold doStart
  split
  · exact h
  · split
    · exact h
    · rename_i hcs
      simp only
      exact fs_register (fs_of_eq h (by rfl) (by rfl) (by rfl)) _ (checkStart_open hcs) (rg_newReq_apply _ _ _ _ _)

theorem fs_doCancel {p : Pool} (h : FKS M p) (ids : List Int) : FKS M (p.doCancel ids).1 := by
  unfold doCancel
  split
  · exact h
  · exact fs_foldl _ (fun q id hq => fs_cancelTask hq _) _ _ h

theorem fs_doStop {p : Pool} (h : FKS M p) (n : Int) : FKS M (p.doStop n).1 := by
  unfold doStop
  split
  · exact h
  · exact fs_doCancel h _

theorem fs_popOrder {p : Pool} (h : FKS M p) : FKS M p.popOrder.1 := by
  unfold popOrder
  split
  · exact h
  · exact fs_of_eq h rfl rfl rfl

theorem fs_cancelGroupBody {p : Pool} (h : FKS M p) (g : String) (ids order : List Nat) (q : Pool)
    (hq : p.cancelGroupBody g ids order = some q) : FKS M q := by
  unfold cancelGroupBody at hq
  simp only at hq
  split at hq
  · cases hq
  · simp only [Option.some.injEq] at hq
    subst hq
    exact fs_foldl _ (fun q t hq => fs_cancelTask hq t) _ _ (fs_cancelGroupMetas h g)

theorem fs_doCancelGroup {p : Pool} (h : FKS M p) (g : String) : FKS M (p.doCancelGroup g).1 := by
  unfold doCancelGroup
  split
  · exact h
  · simp only
    split
    · exact h
    · rename_i p2 h2
      exact fs_cancelGroupBody (fs_of_eq (fs_popOrder h) (by rfl) (by rfl) (by rfl)) _ _ _ _ h2

theorem fs_cancelAllLoop (gs : List (String × List Nat)) (order : List Nat) (p q : Pool) (h : FKS M p)
    (hq : cancelAllLoop gs order p = some q) : FKS M q := by
  induction gs generalizing p with
  | nil => simp [cancelAllLoop] at hq; subst hq; exact h
  | cons x xs ih =>
    obtain ⟨g, ids⟩ := x
    simp only [cancelAllLoop] at hq
    split at hq
    · cases hq
    · rename_i p1 h1
      exact ih _ (fs_cancelGroupBody h _ _ _ _ h1) hq

theorem fs_doCancelAll {p : Pool} (h : FKS M p) : FKS M p.doCancelAll.1 := by
  unfold doCancelAll
  simp only
  split
  · exact h
  · rename_i p2 h2
    exact fs_cancelAllLoop _ _ _ _ (fs_of_eq (fs_popOrder h) (by rfl) (by rfl) (by rfl)) h2

theorem fs_doSetSize {p : Pool} (h : FKS M p) (v : Int) : FKS M (p.doSetSize v).1 := by
  unfold doSetSize
  split
  · exact h
  · exact fs_of_eq h rfl rfl rfl

theorem fs_doHook {p : Pool} (h : FKS M p) (ctx : Nat) (x : HookOp) : FKS M (p.doHook ctx x).1 := by
  cases x <;> simp only [doHook]
  · exact fs_doCancel h _
  · exact fs_doCancelGroup h _
  · split
    · exact fs_doCancelGroup h _
    · exact h
  · exact fs_doCancelAll h
  · exact fs_of_eq h rfl rfl rfl
  · exact fs_of_eq h rfl rfl rfl
  · exact fs_doStop h _
  · split
    · exact h
    · exact fs_doApply h _ _ _

/-- user code run by the pool (it can cancel, lock, start new requests — not close the pool) -/
theorem fs_runHooks {p : Pool} (h : FKS M p) (ctx : Nat) (hs : List HookOp) : FKS M (p.runHooks ctx hs) := by
  unfold runHooks
  exact fs_foldl _ (fun q x hq => fs_logEv (fs_doHook hq ctx x) _) _ _ h

/-! ### gather -/

theorem fs_gatherChildDone {p : Pool} (h : FKS M p) (g i : Nat) (viaHandle : Bool) :
    FKS M (p.gatherChildDone g i viaHandle) := by
  unfold gatherChildDone
  split
  · exact h
  · split
    · exact h
    · simp only
      have h1 := fs_modGather h g fun x => { x with nfinished := x.nfinished + 1 }
      split
      · exact h1
      · split
        · exact h1
        · split
          · exact h1
          · split
            · exact fs_schedApi (fs_modGather h1 _ _) _
            · exact fs_modGather h1 _ _

theorem fs_registerChild {p : Pool} (h : FKS M p) (c : Child) (g i : Nat) : FKS M (p.registerChild c g i) := by
  unfold registerChild
  split
  · exact fs_modTask h _ _
  · exact fs_mr h

theorem fs_gatherScan (g : Nat) (cs : List Child) (i : Nat) (p : Pool) (h : FKS M p) : FKS M (gatherScan g cs i p) := by
  induction cs generalizing i p with
  | nil => unfold gatherScan; exact h
  | cons c cs ih =>
    unfold gatherScan
    refine ih _ _ ?_
    split
    · exact fs_gatherChildDone h g i false
    · exact fs_registerChild h c g i

theorem fs_gatherStart {p : Pool} (h : FKS M p) (children : List Child) (re : Bool) (owner : Nat) (setPrefix : Nat) :
    FKS M (p.gatherStart children re owner setPrefix).1 := by
  unfold gatherStart
  simp only
  exact fs_gatherScan _ _ _ _ (fs_of_eq h (by rfl) (by rfl) (by rfl))

/-! ### flush / until_closed -/

theorem fs_finishApi {p : Pool} (h : FKS M p) (a : Nat) (o : Outcome) : FKS M (p.finishApi a o) := by
  unfold finishApi
  exact fs_modApi h _ _

theorem fs_flushAfter2 {p : Pool} (h : FKS M p) (a : Nat) (o : Outcome) : FKS M (p.flushAfter2 a o) := by
  unfold flushAfter2
  split
  · simp only
    exact fs_finishApi (fs_of_eq h (by rfl) (by rfl) (by rfl)) a _
  · exact fs_finishApi h a _

theorem fs_flushAfter1 {p : Pool} (h : FKS M p) (a : Nat) (re : Bool) (o : Outcome) : FKS M (p.flushAfter1 a re o) := by
  unfold flushAfter1
  split
  · exact fs_finishApi h a _
  · simp only
    have t1 : FKS M ({ p with metaCancelled := [], reqs := p.reqs.map fun (r : Req) => { r with inCancelled := false } } : Pool) :=
      fs_mapReqs h (fun (r : Req) => { r with inCancelled := false }) rfl rfl rfl
        (fun _ r _ hg => ⟨rg_of_eq hg id rfl (fun _ a _ => a) rfl rfl rfl rfl rfl (Or.inl rfl) rfl rfl rfl rfl, id, rfl⟩)
    split
    · exact fs_flushAfter2 (fs_gatherStart (fs_modApi t1 _ _ ) _ _ _ _) a _
    · exact fs_modApi (fs_gatherStart (fs_modApi t1 _ _) _ _ _ _) _ _

theorem fs_flushStage1 {p : Pool} (h : FKS M p) (a : Nat) (re : Bool) : FKS M (p.flushStage1 a re) := by
  unfold flushStage1
  simp only
  have t1 : FKS M ({ p with reqs := p.reqs.map fun (r : Req) => if r.inRunning && r.outcome.isSome then { r with inRunning := false } else r } : Pool) := by
    refine fs_mapReqs h (fun (r : Req) => if r.inRunning && r.outcome.isSome then { r with inRunning := false } else r)
      rfl rfl rfl (fun _ r _ hg => ?_)
    split
    · rename_i c
      refine ⟨⟨hg.cg, hg.cm, fun ho => ?_, hg.ok, hg.ka, hg.km, hg.kw, hg.kn, hg.pc0, hg.pc1⟩, id, rfl⟩
      have ho' : r.outcome = none := ho
      simp [ho'] at c
    · exact ⟨hg, id, rfl⟩
  split
  · exact fs_flushAfter1 (fs_gatherStart t1 _ _ _ _) a re _
  · exact fs_modApi (fs_gatherStart t1 _ _ _ _) _ _

theorem fs_untilClosedStart {p : Pool} (h : FKS M p) (a : Nat) : FKS M (p.untilClosedStart a) := by
  unfold untilClosedStart
  split
  · exact fs_finishApi h a _
  · exact fs_modApi (fs_of_eq h (by rfl) (by rfl) (by rfl)) _ _

/-! ### `gather_and_close` -/

/-- `q` has the requests of `p` up to fields other than `outcome` and `everCancelled` -/
def SameEC (p q : Pool) : Prop :=
  ∀ (i : Nat) (r' : Req), q.reqs[i]? = some r' →
    ∃ r, p.reqs[i]? = some r ∧ r'.outcome = r.outcome ∧ r'.everCancelled = r.everCancelled

theorem SameEC.refl (p : Pool) : SameEC p p := fun _ r' h => ⟨r', h, rfl, rfl⟩

theorem SameEC.trans {p q s : Pool} (h1 : SameEC p q) (h2 : SameEC q s) : SameEC p s := by
  intro i r'' hs
  obtain ⟨r', hq, a, b⟩ := h2 i r'' hs
  obtain ⟨r, hp, a', b'⟩ := h1 i r' hq
  exact ⟨r, hp, a.trans a', b.trans b'⟩

theorem SameEC.of_eq {p q : Pool} (hr : q.reqs = p.reqs) : SameEC p q := by
  intro i r' h; rw [hr] at h; exact ⟨r', h, rfl, rfl⟩

theorem sameEC_modReq (p : Pool) (m : Nat) (f : Req → Req) (h1 : ∀ r, (f r).outcome = r.outcome)
    (h2 : ∀ r, (f r).everCancelled = r.everCancelled) : SameEC p (p.modReq m f) := by
  intro i r' hq
  obtain ⟨r, hp, e⟩ := modify_inv (l := p.reqs) hq
  refine ⟨r, hp, ?_⟩
  subst e
  split
  · exact ⟨h1 r, h2 r⟩
  · exact ⟨rfl, rfl⟩

theorem AllEC.same {p q : Pool} (h : AllEC p) (s : SameEC p q) : AllEC q := by
  intro i r' hq ho
  obtain ⟨r, hp, a, b⟩ := s i r' hq
  rw [b]; exact h i r hp (a ▸ ho)

theorem sameEC_gatherChildDone (p : Pool) (g i : Nat) (viaHandle : Bool) : SameEC p (p.gatherChildDone g i viaHandle) := by
  refine SameEC.of_eq ?_
  unfold gatherChildDone
  split
  · rfl
  · split
    · rfl
    · simp only
      split
      · rfl
      · split
        · rfl
        · split
          · rfl
          · split <;> rfl

theorem sameEC_registerChild (p : Pool) (c : Child) (g i : Nat) : SameEC p (p.registerChild c g i) := by
  unfold registerChild
  split
  · exact SameEC.of_eq rfl
  · exact sameEC_modReq p _ _ (fun _ => rfl) (fun _ => rfl)

theorem sameEC_gatherScan (g : Nat) (cs : List Child) (i : Nat) (p : Pool) : SameEC p (gatherScan g cs i p) := by
  induction cs generalizing i p with
  | nil => unfold gatherScan; exact SameEC.refl p
  | cons c cs ih =>
    unfold gatherScan
    refine SameEC.trans ?_ (ih _ _)
    split
    · exact sameEC_gatherChildDone p g i false
    · exact sameEC_registerChild p c g i

theorem sameEC_gatherStart (p : Pool) (children : List Child) (re : Bool) (owner : Nat) (setPrefix : Nat) :
    SameEC p (p.gatherStart children re owner setPrefix).1 := by
  unfold gatherStart
  simp only
  exact SameEC.trans (SameEC.of_eq (by rfl)) (sameEC_gatherScan _ _ _ _)

/-- the pool is closed: every live spawner was cancelled through the pool -/
theorem fs_gacAfter2 {p : Pool} (h : FKS M p) (a : Nat) (o : Outcome) (hall : AllEC p) : FKS M (p.gacAfter2 a o) := by
  unfold gacAfter2
  split
  · simp only
    refine fs_finishApi (fs_foldl _ (fun q w hq => fs_schedApi hq w) _ _ ?_) a _
    exact { cl := fun _ => hall, rg := h.rg, cw := h.cw, pin := h.pin }
  · exact fs_finishApi h a _

theorem fs_gacTail {P : Pool} (h : FKS M P) (a : Nat) (re : Bool) (hall : AllEC P) : FKS M (gacTail P a re) := by
  unfold gacTail
  simp only
  have hs := sameEC_gatherStart P (P.ended.map Child.task ++ P.cancelledR.map Child.task ++ P.running.map Child.task) re a 0
  have hq := fs_gatherStart h (P.ended.map Child.task ++ P.cancelledR.map Child.task ++ P.running.map Child.task) re a 0
  generalize P.gatherStart (P.ended.map Child.task ++ P.cancelledR.map Child.task ++ P.running.map Child.task) re a 0 = q at hs hq ⊢
  split
  · exact fs_gacAfter2 hq a _ (hall.same hs)
  · exact fs_modApi hq _ _

/-- every spawner is un-filed: the live ones were all cancelled through the pool -/
theorem fs_gacAfter1 {p : Pool} (h : FKS M p) (a : Nat) (re : Bool) (g : Nat) (hall : AllEC p) :
    FKS M (p.gacAfter1 a re g) := by
  unfold gacAfter1
  simp only
  split
  · exact fs_finishApi h a _
  · refine fs_gacTail (P := { p with metaCancelled := [], reqs := p.reqs.map fun (r : Req) => { r with inCancelled := false, inRunning := false } }) ?_ a re ?_
    · refine fs_mapReqs h (fun (r : Req) => { r with inCancelled := false, inRunning := false }) rfl rfl rfl
        (fun i r hp hg => ⟨⟨hg.cg, hg.cm, fun ho hec => ?_, hg.ok, hg.ka, hg.km, hg.kw, hg.kn, hg.pc0, hg.pc1⟩, id, rfl⟩)
      have := hall i r hp ho
      have hec' : r.everCancelled = false := hec
      rw [hec'] at this; cases this
    · intro i r' hq ho
      simp only [List.getElem?_map] at hq
      cases hp : p.reqs[i]? with
      | none => simp [hp] at hq
      | some r =>
        simp only [hp, Option.map_some, Option.some.injEq] at hq
        subst hq
        exact hall i r hp ho

/-- the first gather of a `gather_and_close()` is complete: every spawner filed as running has been awaited, so (`ir`)
every live spawner was cancelled through the pool -/
theorem allEC_of_g1 {p : Pool} (h : FKS M p) (g : Nat)
    (hG : ∃ G : Gather, p.gathers[g]? = some G ∧ G.retExc = true ∧
      ∀ (m : Nat) (r : Req), p.reqs[m]? = some r → r.inRunning = true → Child.spawner m ∈ G.children)
    (ho : (p.gatherOuter g).isSome = true) (hsw : p.SpawnersWaited) : AllEC p := by
  obtain ⟨G, hG1, hre, hch⟩ := hG
  have hO : G.outer.isSome = true := by
    unfold gatherOuter at ho; rw [hG1] at ho; exact ho
  intro m r hr hout
  cases hec : r.everCancelled with
  | true => rfl
  | false =>
    have hin := (h.rg m r hr).ir hout hec
    obtain ⟨r0, hr0, x⟩ := hsw g G hG1 hre hO m (hch m r hr hin)
    rw [hr] at hr0; cases hr0
    rw [hout] at x; cases x

/-- no spawner is filed as running: (`ir`) every live spawner was cancelled through the pool -/
theorem allEC_of_g2 {p : Pool} (h : FKS M p)
    (hnr : ∀ (m : Nat) (r : Req), p.reqs[m]? = some r → r.inRunning = false) : AllEC p := by
  intro m r hr hout
  cases hec : r.everCancelled with
  | true => rfl
  | false =>
    have hin := (h.rg m r hr).ir hout hec
    rw [hnr m r hr] at hin; cases hin

theorem fs_gacStage1 {p : Pool} (h : FKS M p) (hs : SK none false p) (a : Nat) (re : Bool)
    (hsw : (p.gacStage1Pre a re).1.SpawnersWaited) : FKS M (p.gacStage1 a re) := by
  rw [gacStage1_eq]
  have hpre : ∃ G : Gather, (p.gacStage1Pre a re).1.gathers[(p.gacStage1Pre a re).2]? = some G ∧ G.retExc = true ∧
        ∀ (m : Nat) (r : Req), (p.gacStage1Pre a re).1.reqs[m]? = some r → r.inRunning = true →
          Child.spawner m ∈ G.children := by
    unfold gacStage1Pre
    exact (sk_gacPre (sk_step hs (pstep_of_eq_lock p _ rfl)) rfl a _).2.2
  have hq : FKS M (p.gacStage1Pre a re).1 := by
    unfold gacStage1Pre
    simp only
    exact fs_gatherStart (fs_of_eq h (by rfl) (by rfl) (by rfl)) _ _ _ _
  generalize p.gacStage1Pre a re = q at hpre hsw hq ⊢
  split
  · rename_i o ho
    exact fs_gacAfter1 hq a re q.2 (allEC_of_g1 hq q.2 hpre (by rw [ho]; rfl) hsw)
  · exact fs_modApi hq _ _

/-! ### background calls -/

/-- a background call takes a step; the Seal facts at the handle boundary decide the steps of `gather_and_close()` -/
theorem fs_stepApi {p : Pool} (h : FKS M p) (hs : Seal p) (a : Nat) (h0 : p.SpawnersWaited)
    (h1 : ∀ a re, ((p.modApi a fun x => { x with sched := false }).gacStage1Pre a re).1.SpawnersWaited) :
    FKS M (p.stepApi a) := by
  unfold stepApi
  split
  · exact h
  · rename_i A hA
    split
    · exact h
    · simp only
      have hp1 : SK none false (p.modApi a fun x => { x with sched := false }) :=
        sk_step (sk_of_seal hs) (pstep_modApi_triv p a _)
      have hf1 : FKS M (p.modApi a fun x => { x with sched := false }) := fs_modApi h _ _
      have hA1 : (p.modApi a fun x => { x with sched := false }).apis[a]? = some { A with sched := false } := by
        simp [modApi, hA]
      split
      · exact hf1
      · exact fs_flushStage1 hf1 a _
      · exact fs_gacStage1 hf1 hp1 a _ (h1 a _)
      · exact fs_untilClosedStart hf1 a
      · exact fs_finishApi hf1 a _
      · split
        · exact fs_flushAfter1 hf1 a _ _
        · exact hf1
      · rename_i g re hf hk
        split
        · rename_i o ho
          have hkg : ({ A with sched := false } : Api).kind.isGac = true := by
            show A.kind.isGac = true
            rw [hk]; rfl
          exact fs_gacAfter1 hf1 a re g (allEC_of_g1 hf1 g (hp1.g1 a _ g hA1 hkg hf) (by rw [ho]; rfl) h0)
        · exact hf1
      · split
        · exact fs_flushAfter2 hf1 a _
        · exact hf1
      · rename_i g re hf hk
        split
        · have hkg : ({ A with sched := false } : Api).kind.isGac = true := by
            show A.kind.isGac = true
            rw [hk]; rfl
          exact fs_gacAfter2 hf1 a _ (allEC_of_g2 hf1 (hp1.g2 a _ g hA1 hkg hf).1)
        · exact hf1
      · exact hf1

theorem fs_addApi {p : Pool} (h : FKS M p) (k : ApiKind) : FKS M (p.addApi k) := by
  unfold addApi
  exact fs_emitRef (p := { p with apis := p.apis ++ [{ kind := k, frame := .notStarted, sched := true, outcome := none }] })
    (fs_of_eq h rfl rfl rfl) _

theorem fs_doGate {p : Pool} (h : FKS M p) (t : Nat) (o : FutSt) : FKS M (p.doGate t o).1 := by
  unfold doGate
  split
  · exact fs_schedTask (fs_modTask h _ _) _
  · exact h

/-- every external operation -/
theorem fs_applyOp {p : Pool} (h : FKS M p) (op : Op) : FKS M (p.applyOp op).1 := by
  cases op <;> simp only [applyOp]
  · exact fs_doApply h _ _ _
  · exact fs_doMap h _ _ _ _ _
  · exact fs_doStart h _
  · exact fs_doStop h _
  · exact fs_doStop h _
  · exact fs_doCancel h _
  · exact fs_doCancelGroup h _
  · exact fs_doCancelAll h
  · exact fs_of_eq h rfl rfl rfl
  · exact fs_of_eq h rfl rfl rfl
  · exact fs_doSetSize h _
  · exact h
  · exact fs_addApi h _
  · exact fs_addApi h _
  · exact fs_addApi h _
  · exact fs_doGate h _ _

/-! ### the wrapper of a pool task -/

theorem fs_completeTask {p : Pool} (h : FKS M p) (t : Nat) (o : Outcome) : FKS M (p.completeTask t o) := by
  unfold completeTask
  split
  · exact h
  · exact fs_emitChildren (fs_modTask h _ _) _

theorem fs_finishTask {p : Pool} (h : FKS M p) (t : Nat) : FKS M (p.finishTask t) := by
  unfold finishTask
  split
  · exact h
  · exact fs_completeTask h _ _

theorem fs_suspendTask {p : Pool} (h : FKS M p) (t : Nat) (ph : Phase) : FKS M (p.suspendTask t ph) := by
  unfold suspendTask
  split
  · exact h
  · split
    · exact fs_schedTask (fs_modTask h _ _) _
    · exact fs_modTask h _ _

theorem fs_cbBegin {p : Pool} (h : FKS M p) (t : Nat) (tk : PTask) (isEnd : Bool) : FKS M (p.cbBegin t tk isEnd) := by
  unfold cbBegin
  simp only
  exact fs_runHooks (fs_logEv (fs_modTask h _ _) _) _ _

theorem fs_runCb {p : Pool} (h : FKS M p) (t : Nat) (tk : PTask) (isEnd : Bool) : FKS M (p.runCb t tk isEnd).1 := by
  unfold runCb
  split
  · exact h
  · exact fs_logEv (fs_cbBegin h t tk isEnd) _
  · exact fs_modTask (fs_logEv (fs_cbBegin h t tk isEnd) _) _ _
  · exact fs_suspendTask (fs_cbBegin h t tk isEnd) _ _

theorem fs_moveToEnded {p : Pool} (h : FKS M p) (t : Nat) (q : Pool) (hq : p.moveToEnded t = some q) : FKS M q := by
  unfold moveToEnded at hq
  split at hq
  · simp only [Option.some.injEq] at hq; subst hq; exact fs_of_eq h rfl rfl rfl
  · split at hq
    · simp only [Option.some.injEq] at hq; subst hq; exact fs_of_eq h rfl rfl rfl
    · cases hq

theorem fs_releaseMapSlot {p : Pool} (h : FKS M p) (t : Nat) (tk : PTask) : FKS M (p.releaseMapSlot t tk) := by
  unfold releaseMapSlot
  split
  · exact fs_modTask (fs_releaseMap h _) _ _
  · exact h

theorem fs_endCallback {p : Pool} (h : FKS M p) (t : Nat) (tk : PTask) : FKS M (p.endCallback t tk) := by
  unfold endCallback
  simp only
  have hr := fs_runCb (fs_releaseMapSlot h t tk) t tk true
  split
  · exact hr
  · exact fs_finishTask hr t

theorem fs_endingTail {p : Pool} (h : FKS M p) (t : Nat) (tk : PTask) : FKS M (p.endingTail t tk) := by
  unfold endingTail
  exact fs_endCallback (fs_modTask (fs_releasePool h) _ _) t tk

theorem fs_keyErrorFinish {p : Pool} (h : FKS M p) (t : Nat) : FKS M (p.keyErrorFinish t) := by
  unfold keyErrorFinish
  exact fs_finishTask (fs_modTask (fs_of_eq h (by rfl) (by rfl) (by rfl)) _ _) t

theorem fs_taskEnding {p : Pool} (h : FKS M p) (t : Nat) : FKS M (p.taskEnding t) := by
  unfold taskEnding
  split
  · exact h
  · split
    · exact fs_keyErrorFinish h t
    · rename_i p1 hm
      exact fs_endingTail (fs_moveToEnded h t p1 hm) t _

theorem fs_cancelCallback {p : Pool} (h : FKS M p) (t : Nat) (tk : PTask) : FKS M (p.cancelCallback t tk) := by
  unfold cancelCallback
  simp only
  have hr := fs_runCb h t tk false
  split
  · exact hr
  · exact fs_taskEnding hr t

theorem fs_taskCancellation {p : Pool} (h : FKS M p) (t : Nat) (tk : PTask) : FKS M (p.taskCancellation t tk) := by
  unfold taskCancellation
  split
  · exact fs_cancelCallback (fs_modTask (fs_of_eq h (by rfl) (by rfl) (by rfl)) _ _) t tk
  · exact fs_taskEnding (fs_modTask (fs_of_eq h (by rfl) (by rfl) (by rfl)) _ _) t

theorem fs_afterWorker {p : Pool} (h : FKS M p) (t : Nat) (e : Option Err) : FKS M (p.afterWorker t e) := by
  unfold afterWorker
  split
  · exact fs_taskEnding (fs_modTask (fs_logEv h _) _ _) t
  · exact fs_taskEnding (fs_modTask (fs_logEv h _) _ _) t

theorem fs_stepCreated {p : Pool} (h : FKS M p) (t : Nat) (tk : PTask) : FKS M (p.stepCreated t tk) := by
  unfold stepCreated
  split
  · exact fs_taskCancellation (fs_modTask h _ _) t tk
  · simp only
    have h0 : FKS M (((p.logEv (.started t tk.arg)).modTask t fun k => { k with phase := .inWorker, fut := .ok, unstarted := false }).runHooks tk.req (p.reqOf tk).hooks.start) :=
      fs_runHooks (fs_modTask (fs_logEv h _) _ _) _ _
    split
    · exact fs_afterWorker h0 _ _
    · exact fs_afterWorker h0 _ _
    · exact fs_suspendTask (fs_modTask h0 _ _) _ _

theorem fs_workerNext {p : Pool} (h : FKS M p) (t : Nat) (tk : PTask) : FKS M (p.workerNext t tk) := by
  unfold workerNext
  exact fs_suspendTask (fs_runHooks (fs_modTask (fs_logEv h _) _ _) _ _) _ _

theorem fs_workerCancelled {p : Pool} (h : FKS M p) (t : Nat) (tk : PTask) : FKS M (p.workerCancelled t tk) := by
  unfold workerCancelled
  split
  · exact fs_suspendTask (fs_modTask (fs_logEv h _) _ _) _ _
  · simp only
    have h0 : FKS M ((p.logEv (.sawCancel t)).modTask t fun k => { k with sawCancel := true, phase := .wrapUp, nSaw := k.nSaw + 1 }) :=
      fs_modTask (fs_logEv h _) _ _
    split
    · exact fs_afterWorker h0 _ _
    · exact fs_taskCancellation h0 t tk

theorem fs_stepInWorker {p : Pool} (h : FKS M p) (t : Nat) (tk : PTask) : FKS M (p.stepInWorker t tk) := by
  unfold stepInWorker
  split
  · exact fs_workerCancelled (fs_modTask h _ _) t tk
  · split
    · split
      · exact fs_workerNext h t tk
      · exact fs_afterWorker h _ _
    · exact fs_afterWorker h _ _
    · exact h

theorem fs_stepInCancelCb {p : Pool} (h : FKS M p) (t : Nat) (tk : PTask) : FKS M (p.stepInCancelCb t tk) := by
  unfold stepInCancelCb
  split
  · exact fs_taskEnding (fs_modTask (fs_logEv h _) _ _) t
  · exact fs_taskEnding (fs_modTask (fs_logEv h _) _ _) t
  · exact fs_taskEnding (fs_modTask (fs_logEv h _) _ _) t
  · exact h

theorem fs_stepInEndCb {p : Pool} (h : FKS M p) (t : Nat) (tk : PTask) : FKS M (p.stepInEndCb t tk) := by
  unfold stepInEndCb
  split
  · exact fs_finishTask (fs_logEv h _) t
  · exact fs_finishTask (fs_modTask (fs_logEv h _) _ _) t
  · exact fs_finishTask (fs_modTask (fs_logEv h _) _ _) t
  · exact h

theorem fs_stepTask {p : Pool} (h : FKS M p) (t : Nat) : FKS M (p.stepTask t) := by
  unfold stepTask
  split
  · exact h
  · rename_i tk htk
    split
    · exact h
    · simp only
      have h1 : FKS M (p.modTask t fun k => { k with sched := false }) := fs_modTask h _ _
      split
      · exact fs_stepCreated h1 t tk
      · exact h1
      · exact fs_stepInWorker h1 t tk
      · exact fs_stepInCancelCb h1 t tk
      · exact fs_stepInEndCb h1 t tk
      · exact h1

/-! ### spawners: facts about the record of the spawner whose handle is being run -/

theorem fs_pin {p : Pool} (h : FKS M p) {m : Nat} {Q : PK → Prop} (hm : ∃ r, p.reqs[m]? = some r ∧ Q r.pk) :
    FKS (PM m Q) p :=
  { h with pin := fun i Q' hi => by obtain ⟨rfl, rfl⟩ := hi; exact hm }

/-- the spawner whose handle is being run writes its own record -/
theorem fs_own {p : Pool} {m : Nat} {Q Q' : PK → Prop} (h : FKS (PM m Q) p) (f : Req → Req)
    (hf : ∀ r, p.reqs[m]? = some r → Q r.pk → RG r →
      RG (f r) ∧ (r.everCancelled = true → (f r).everCancelled = true) ∧ Q' (f r).pk)
    (ho : ∀ r, (f r).outcome = none → r.outcome = none := by fs_out) :
    FKS (PM m Q') (p.modReq m f) := by
  obtain ⟨r, hp, hQ⟩ := h.pinned
  refine fs_pin (fs_modReq h.zero m f (fun r0 hp0 hg => ?_) ho)
    ⟨f r, modReq_get_self p m f r hp, (hf r hp hQ (h.rg m r hp)).2.2⟩
  rw [hp] at hp0; cases hp0
  exact ⟨(hf r hp hQ hg).1, (hf r hp hQ hg).2.1, fun ⟨_, x⟩ => x.elim⟩

/-! ### spawners: the walk -/

/-- the spawner's asyncio Task is done: normally with nothing left, or by an exception of its argument iterator — unless
it was filed as cancelled -/
theorem fs_finishMeta {p : Pool} (h : FKS M p) (m : Nat) (o : Outcome)
    (ho : ∀ r, p.reqs[m]? = some r → r.everCancelled = false →
      (o = .ok ∧ r.remaining = 0 ∧ r.items = [] ∧ (r.kind = .map → r.pulled = r.created + r.skipped)) ∨
      (r.kind = .map ∧ o = .exc (.user 4))) : FS0 (p.finishMeta m o) := by
  unfold finishMeta
  split
  · exact h.zero
  · rename_i r hp
    refine fs_emitChildren (fs_modReq h.zero m _ (fun r0 hp0 hg => ?_)) _
    rw [hp] at hp0; cases hp0
    refine ⟨⟨fun e => (nomatch e), hg.cm, fun e => (nomatch e), fun hec o' e => ?_, hg.ka, hg.km, fun e => (nomatch e), hg.kn,
      fun _ e => (nomatch e), fun _ e => (nomatch e)⟩, id, fun ⟨_, x⟩ => x.elim⟩
    have hmc : r.mustCancel = false := by
      cases hc : r.mustCancel with
      | false => rfl
      | true => have := hg.cg hc; rw [hec] at this; cases this
    simp only [hmc, Bool.and_false, Bool.false_eq_true, if_false, Option.some.injEq] at e
    subst e
    exact ho r hp hec

theorem fs_pushWaiter {p : Pool} (h : FKS M p) (w : Waiter)
    (hw : w.st = .cancelled → ∃ r, p.reqs[w.owner]? = some r ∧ r.everCancelled = true) :
    FKS M ({ p with sem := { p.sem with waiters := p.sem.waiters ++ [w] } } : Pool) := by
  refine fs_reqs_eq h rfl rfl (fun w' hw' hst => ?_)
  rcases List.mem_append.mp hw' with a | a
  · exact Or.inl a
  · rw [List.mem_singleton] at a; subst a; exact Or.inr (hw hst)

/-- `must_cancel` read through `getD default`: set only if the request exists (and then it was filed as cancelled) -/
theorem fs_mc_ec {p : Pool} (h : FKS M p) (m : Nat) (hmc : (p.reqs[m]?.getD default).mustCancel = true) :
    ∃ r, p.reqs[m]? = some r ∧ r.everCancelled = true := by
  cases hp : p.reqs[m]? with
  | none => rw [hp] at hmc; cases hmc
  | some r =>
    rw [hp] at hmc
    exact ⟨r, rfl, (h.rg m r hp).cg hmc⟩

/-- the spawner suspends in `_enough_room.acquire()`; a map-style spawner does so with one pulled element in hand -/
theorem fs_waitRoom_core {p : Pool} (h : FKS M p) (m : Nat) (st : WaitSt)
    (hst : st = .cancelled → (p.reqs[m]?.getD default).mustCancel = true)
    (hk : ∀ r, p.reqs[m]? = some r → r.kind = .map → r.outcome = none → r.pulled = r.created + r.skipped + 1) :
    FS0 (({ p with sem := { p.sem with waiters := p.sem.waiters ++ [{ owner := m, st := st }] } } : Pool).modReq m
        fun x => { x with frame := .waitRoom, mustCancel := false }) := by
  refine fs_modReq (fs_pushWaiter h.zero _ (fun e => fs_mc_ec h m (hst e))) m _ (fun r hp hg => ?_)
  exact ⟨⟨fun e => (nomatch e), hg.cm, hg.ir, hg.ok, hg.ka, hg.km, fun e => (nomatch e), hg.kn, fun _ _ e => (nomatch e),
    fun a b _ => hk r hp a b⟩, id, fun ⟨_, x⟩ => x.elim⟩

theorem fs_waitRoom {p : Pool} (h : FKS M p) (m : Nat)
    (hk : ∀ r, p.reqs[m]? = some r → r.kind = .map → r.outcome = none → r.pulled = r.created + r.skipped + 1) :
    FS0 (p.waitRoom m) := by
  unfold waitRoom
  simp only
  split
  · rename_i c
    exact fs_schedMeta (fs_waitRoom_core h m _ (fun _ => c) hk) m
  · exact fs_waitRoom_core h m _ (fun e => (nomatch e)) hk

/-- the spawner suspends in `acquire()` of the call's own semaphore, with one pulled element in hand -/
theorem fs_waitMapSem_core {p : Pool} (h : FKS M p) (m : Nat)
    (hk : ∀ r, p.reqs[m]? = some r → r.kind = .map ∧ (r.outcome = none → r.pulled = r.created + r.skipped + 1))
    (st : WaitSt) (hst : st = .cancelled → (p.reqs[m]?.getD default).mustCancel = true) :
    FS0 (p.modReq m fun x => { x with frame := .waitMapSem, mustCancel := false, acquired := false, mapSem := { x.mapSem with waiters := x.mapSem.waiters ++ [{ owner := m, st := st }] } }) := by
  refine fs_modReq h.zero m _ (fun r hp hg => ?_)
  refine ⟨⟨fun e => (nomatch e), fun w hw hc => ?_, hg.ir, hg.ok, hg.ka, hg.km, fun _ => (hk r hp).1, hg.kn,
    fun _ _ e => (nomatch e), fun _ b _ => (hk r hp).2 b⟩, id, fun ⟨_, x⟩ => x.elim⟩
  rcases List.mem_append.mp hw with a | a
  · exact hg.cm w a hc
  · rw [List.mem_singleton] at a; subst a
    have := hst hc
    rw [hp] at this
    exact hg.cg this

theorem fs_waitMapSem {p : Pool} (h : FKS M p) (m : Nat)
    (hk : ∀ r, p.reqs[m]? = some r → r.kind = .map ∧ (r.outcome = none → r.pulled = r.created + r.skipped + 1)) :
    FS0 (p.waitMapSem m) := by
  unfold waitMapSem
  simp only
  split
  · rename_i c
    exact fs_schedMeta (fs_waitMapSem_core h m hk _ (fun _ => c)) m
  · exact fs_waitMapSem_core h m hk _ (fun e => (nomatch e))

/-- a task is created for spawner `m`; a map-style spawner is inside its loop then -/
theorem fs_createTask {p : Pool} (h : FKS M p) (m : Nat) (isMap : Bool)
    (hc : ∀ r, p.reqs[m]? = some r → r.kind = .map → r.frame = .running ∧ r.outcome = none) :
    FS0 (p.createTask m isMap) := by
  unfold createTask
  simp only
  refine fs_emitRef ?_ _
  refine fs_modReq (fs_of_eq h.zero (by rfl) (by rfl) (by rfl)) m _ (fun r hp hg => ?_)
  refine ⟨⟨hg.cg, hg.cm, hg.ir, fun a o b => ?_, hg.ka, hg.km, hg.kw, hg.kn, fun a _ c => ?_, fun a _ c => ?_⟩, id,
    fun ⟨_, x⟩ => x.elim⟩
  · rcases hg.ok a o b with ⟨e1, e2, e3, _⟩ | e
    · refine Or.inl ⟨e1, e2, e3, fun hk => ?_⟩
      have := (hc r hp hk).2
      rw [show r.outcome = some o from b] at this; cases this
    · exact Or.inr e
  · have hfr := (hc r hp a).1
    have c' : r.frame = .notStarted := c
    rw [hfr] at c'; cases c'
  · have hfr := (hc r hp a).1
    have c' : r.frame = .waitRoom ∨ r.frame = .waitMapSem := c
    rw [hfr] at c'; rcases c' with c' | c' <;> cases c'

theorem fs_createTask_pin {p : Pool} {m : Nat} {Q Q' : PK → Prop} (h : FKS (PM m Q) p) (isMap : Bool)
    (hc : ∀ r, p.reqs[m]? = some r → Q r.pk →
      (r.kind = .map → r.frame = .running ∧ r.outcome = none) ∧ Q' ({ r with created := r.created + 1 } : Req).pk) :
    FKS (PM m Q') (p.createTask m isMap) := by
  obtain ⟨r, hp, hQ⟩ := h.pinned
  refine fs_pin (fs_createTask h m isMap (fun r0 hp0 => ?_)) ⟨_, createTask_get isMap hp, (hc r hp hQ).2⟩
  rw [hp] at hp0; cases hp0; exact (hc r hp hQ).1

theorem fs_takeSlotAndCreate {p : Pool} {m : Nat} {Q Q' : PK → Prop} (h : FKS (PM m Q) p) (isMap : Bool)
    (hc : ∀ r, p.reqs[m]? = some r → Q r.pk →
      (r.kind = .map → r.frame = .running ∧ r.outcome = none) ∧ Q' ({ r with created := r.created + 1 } : Req).pk) :
    FKS (PM m Q') (p.takeSlotAndCreate m isMap) := by
  unfold takeSlotAndCreate
  exact fs_createTask_pin (fs_of_eq h (by rfl) (by rfl) (by rfl)) isMap hc

theorem fs_applyLoop (m n : Nat) (p : Pool) (h : FKS (PM m QA) p) : FS0 (applyLoop m n p) := by
  induction n generalizing p with
  | zero =>
    unfold applyLoop
    obtain ⟨r, hp, hk, ho⟩ := h.pinned
    have hk : r.kind = .apply := hk
    have ho : r.outcome = none := ho
    refine fs_finishMeta (fs_modReq h m _ (fun r0 hp0 hg => ?_)) m .ok (fun r' hp' _ => ?_)
    · rw [hp] at hp0; cases hp0
      exact ⟨⟨hg.cg, hg.cm, hg.ir, fun _ o e => (by rw [show r.outcome = some o from e] at ho; cases ho), hg.ka,
        fun _ => rfl, hg.kw, hg.kn, hg.pc0, hg.pc1⟩, id, fun _ => rfl⟩
    · rw [modReq_get_self p m _ r hp] at hp'; cases hp'
      exact Or.inl ⟨rfl, rfl, (h.rg m r hp).ka hk, fun e => (by rw [show r.kind = .map from e] at hk; cases hk)⟩
  | succ n ih =>
    unfold applyLoop
    simp only
    obtain ⟨r, hp, hk, ho⟩ := h.pinned
    have hk : r.kind = .apply := hk
    have ho : r.outcome = none := ho
    have h0 : FKS (PM m QA) (p.modReq m fun x => { x with remaining := n + 1 }) := by
      refine fs_modReq h m _ (fun r0 hp0 hg => ?_)
      rw [hp] at hp0; cases hp0
      exact ⟨⟨hg.cg, hg.cm, hg.ir, fun _ o e => (by rw [show r.outcome = some o from e] at ho; cases ho), hg.ka,
        fun e => (by rw [show r.kind = .map from e] at hk; cases hk), hg.kw, hg.kn, hg.pc0, hg.pc1⟩, id, fun _ => rfl⟩
    have hp0 : (p.modReq m fun x => { x with remaining := n + 1 }).reqs[m]? = some { r with remaining := n + 1 } :=
      modReq_get_self p m _ r hp
    split
    · refine ih _ (fs_own h0 _ (fun r1 hp1 hQ hg => ?_))
      obtain ⟨hk1, ho1⟩ := hQ
      have hk1 : r1.kind = .apply := hk1
      have ho1 : r1.outcome = none := ho1
      exact ⟨⟨hg.cg, hg.cm, hg.ir, fun _ o e => (by rw [show r1.outcome = some o from e] at ho1; cases ho1), hg.ka, hg.km,
        hg.kw, hg.kn, fun e => (by rw [show r1.kind = .map from e] at hk1; cases hk1),
        fun e => (by rw [show r1.kind = .map from e] at hk1; cases hk1)⟩, id, hk1, ho1⟩
    · split
      · rename_i c
        refine fs_finishMeta h0 m _ (fun r' hp' hec => ?_)
        rw [hp0] at hp'; cases hp'
        have := h0.cl c m _ hp0 ho
        have hec' : r.everCancelled = false := hec
        rw [hec'] at this; cases this
      · split
        · rename_i c
          refine fs_finishMeta h0 m _ (fun r' hp' hec => ?_)
          rw [hp0] at hp'; cases hp'
          exfalso
          have hin := (h0.rg m _ hp0).ir ho hec
          have := groupHasRunningMeta_of hp0 hin
          simp [this] at c
        · split
          · refine fs_waitRoom h0 m (fun r' hp' hk' _ => ?_)
            rw [hp0] at hp'; cases hp'
            rw [show r.kind = .map from hk'] at hk; cases hk
          · refine ih _ (fs_takeSlotAndCreate h0 false (fun r1 hp1 hQ => ⟨fun e => ?_, hQ⟩))
            have hk1 : r1.kind = .apply := hQ.1
            rw [e] at hk1; cases hk1

/-- `_start_task` for the element in hand: either the task is created (and the spawner is at its loop head again), or the
step is over -/
theorem fs_mapStartTask {p : Pool} {m : Nat} (h : FKS (PM m QI) p) :
    ((p.mapStartTask m).2 = true → FKS (PM m QH) (p.mapStartTask m).1) ∧
    ((p.mapStartTask m).2 = false → FS0 (p.mapStartTask m).1) := by
  obtain ⟨r, hp, hk, ho, hc, hfr⟩ := h.pinned
  unfold mapStartTask
  split
  · rename_i c
    refine ⟨fun e => (by cases e), fun _ => fs_finishMeta h m _ (fun r' hp' hec => ?_)⟩
    rw [hp] at hp'; cases hp'
    have := h.cl c m r hp ho
    rw [hec] at this; cases this
  · split
    · refine ⟨fun e => (by cases e), fun _ => fs_waitRoom h m (fun r' hp' _ _ => ?_)⟩
      rw [hp] at hp'; cases hp'; exact hc
    · refine ⟨fun _ => fs_takeSlotAndCreate h true (fun r' hp' hQ => ?_), fun e => (by cases e)⟩
      obtain ⟨a, b, c, d⟩ := hQ
      refine ⟨fun _ => ⟨d, b⟩, a, b, ?_⟩
      have c : r'.pulled = r'.created + r'.skipped + 1 := c
      show r'.pulled = r'.created + 1 + r'.skipped
      omega

/-- one pull from the argument iterator: user code runs, the spawner stays what it is, with the element in hand -/
theorem fs_pullItem {p : Pool} {m : Nat} (h : FKS (PM m QH) p) (rest : List Item) : FKS (PM m QI) (p.pullItem m rest) := by
  unfold pullItem
  simp only
  refine fs_runHooks (fs_logEv (fs_own h _ (fun r hp hQ hg => ?_)) _) _ _
  obtain ⟨hk, ho, hc⟩ := hQ
  have hk : r.kind = .map := hk
  have ho : r.outcome = none := ho
  have hc : r.pulled = r.created + r.skipped := hc
  refine ⟨⟨hg.cg, hg.cm, hg.ir, fun _ o e => (by rw [show r.outcome = some o from e] at ho; cases ho),
    fun e => (by rw [show r.kind = .apply from e] at hk; cases hk), hg.km, fun e => (nomatch e), hg.kn,
    fun _ _ e => (nomatch e), fun _ _ e => (by rcases e with e | e <;> cases e)⟩, id, hk, ho, ?_, rfl⟩
  show r.pulled + 1 = r.created + r.skipped + 1
  omega

theorem fs_takeMapSlot {p : Pool} {m : Nat} (h : FKS (PM m QI) p) : FKS (PM m QI) (p.takeMapSlot m) := by
  unfold takeMapSlot
  refine fs_own h _ (fun r hp hQ hg => ?_)
  exact ⟨rg_of_eq hg id rfl (fun _ a _ => a) rfl rfl rfl rfl rfl (Or.inr (Or.inl rfl)) rfl rfl rfl rfl, id,
    hQ.1, hQ.2.1, hQ.2.2.1, rfl⟩

/-- `_arg_consumer`'s loop from a loop head (`pulled = created + skipped`) until it suspends or ends -/
theorem fs_mapLoop (m : Nat) (items : List Item) (p : Pool) (h : FKS (PM m QH) p) : FS0 (mapLoop m items p) := by
  induction items generalizing p with
  | nil =>
    unfold mapLoop
    obtain ⟨r, hp, hk, ho, hc⟩ := h.pinned
    have ho : r.outcome = none := ho
    refine fs_finishMeta (fs_modReq h m _ (fun r0 hp0 hg => ?_)) m .ok (fun r' hp' _ => ?_)
    · rw [hp] at hp0; cases hp0
      exact ⟨⟨hg.cg, hg.cm, hg.ir, fun _ o e => (by rw [show r.outcome = some o from e] at ho; cases ho), fun _ => rfl,
        hg.km, hg.kw, hg.kn, hg.pc0, hg.pc1⟩, id, fun _ => rfl⟩
    · rw [modReq_get_self p m _ r hp] at hp'; cases hp'
      exact Or.inl ⟨rfl, (h.rg m r hp).km hk, rfl, fun _ => hc⟩
  | cons it rest ih =>
    unfold mapLoop
    simp only
    have h0 := fs_pullItem h rest
    split
    · refine fs_finishMeta h0 m _ (fun r' hp' _ => ?_)
      obtain ⟨r, hp, hk, _⟩ := h0.pinned
      rw [hp] at hp'; cases hp'
      exact Or.inr ⟨hk, rfl⟩
    · split
      · refine ih _ (fs_own h0 _ (fun r hp hQ hg => ?_))
        obtain ⟨hk, ho, hc, hfr⟩ := hQ
        have ho : r.outcome = none := ho
        have hc : r.pulled = r.created + r.skipped + 1 := hc
        have hfr : r.frame = .running := hfr
        refine ⟨⟨hg.cg, hg.cm, hg.ir, fun _ o e => (by rw [show r.outcome = some o from e] at ho; cases ho), hg.ka, hg.km,
          hg.kw, hg.kn, fun _ _ e => (by rw [show r.frame = .notStarted from e] at hfr; cases hfr),
          fun _ _ e => (by
            have e : r.frame = .waitRoom ∨ r.frame = .waitMapSem := e
            rw [hfr] at e; rcases e with e | e <;> cases e)⟩, id, hk, ho, ?_⟩
        show r.pulled = r.created + (r.skipped + 1)
        omega
      · split
        · refine fs_waitMapSem h0 m (fun r hp => ?_)
          obtain ⟨r1, hp1, hk, _, hc, _⟩ := h0.pinned
          rw [hp] at hp1; cases hp1; exact ⟨hk, fun _ => hc⟩
        · have h1 := fs_mapStartTask (fs_takeMapSlot h0)
          split
          · rename_i c; exact ih _ (h1.1 c)
          · rename_i c; exact h1.2 (by simpa using c)

theorem fs_continueSpawner {p : Pool} (h : FKS M p) (m : Nat)
    (hl : ∃ r, p.reqs[m]? = some r ∧ r.outcome = none ∧ (r.kind = .map → r.pulled = r.created + r.skipped)) :
    FS0 (p.continueSpawner m) := by
  unfold continueSpawner
  simp only
  obtain ⟨r, hp, ho, hc⟩ := hl
  simp only [hp, Option.getD_some]
  split
  · rename_i hk; exact fs_applyLoop m _ p (fs_pin h ⟨r, hp, hk, ho⟩)
  · rename_i hk; exact fs_mapLoop m _ p (fs_pin h ⟨r, hp, hk, ho, hc hk⟩)

theorem fs_stepMetaNotStarted {p : Pool} (h : FKS M p) (m : Nat) (r : Req)
    (hp : p.reqs[m]? = some { r with sched := false }) (ho : r.outcome = none) (hfr : r.frame = .notStarted) :
    FS0 (p.stepMetaNotStarted m r) := by
  unfold stepMetaNotStarted
  split
  · rename_i c
    refine fs_finishMeta h m _ (fun r' hp' hec => ?_)
    rw [hp] at hp'; cases hp'
    have := (h.rg m _ hp).cg c
    rw [hec] at this; cases this
  · split
    · rename_i hk; exact fs_applyLoop m _ p (fs_pin h ⟨_, hp, hk, ho⟩)
    · rename_i hk; exact fs_mapLoop m _ p (fs_pin h ⟨_, hp, hk, ho, (h.rg m _ hp).pc0 hk ho hfr⟩)

/-- `CancelledError` inside `_enough_room.acquire()`: the spawner was filed as cancelled -/
theorem fs_roomWaitCancelled {p : Pool} (h : FKS M p) (m : Nat) (r : Req) (st : Option WaitSt) (he : At p m PE) :
    FS0 (p.roomWaitCancelled m r st) := by
  unfold roomWaitCancelled
  simp only
  have h1 : FKS M (if (st == some WaitSt.granted) = true then p.releasePool else p) ∧
      At (if (st == some WaitSt.granted) = true then p.releasePool else p) m PE := by
    split
    · exact ⟨fs_releasePool h, he.releasePool⟩
    · exact ⟨h, he⟩
  generalize (if (st == some WaitSt.granted) = true then p.releasePool else p) = q at h1 ⊢
  have h2 : FKS M (if (r.kind == ReqKind.map && r.acquired) = true then q.releaseMap m else q) ∧
      At (if (r.kind == ReqKind.map && r.acquired) = true then q.releaseMap m else q) m PE := by
    split
    · exact ⟨fs_releaseMap h1.1 m, h1.2.releaseMap m⟩
    · exact h1
  generalize (if (r.kind == ReqKind.map && r.acquired) = true then q.releaseMap m else q) = q2 at h2 ⊢
  refine fs_finishMeta h2.1 m _ (fun r' hp' hec => ?_)
  have := h2.2.get hp'
  rw [show r'.everCancelled = true from this] at hec; cases hec

/-- the task for the slot just granted is created, then the spawner goes on with its loop -/
theorem fs_roomGranted_tail {q : Pool} {m : Nat} (h1 : FKS (PM m QG) q) (isMap : Bool) :
    FS0 ((q.createTask m isMap).continueSpawner m) := by
  obtain ⟨r, hp, ho, hfr, hc⟩ := h1.pinned
  refine fs_continueSpawner (fs_createTask h1 m isMap (fun r' hp' _ => ?_)) m
    ⟨_, createTask_get isMap hp, ho, fun hk => ?_⟩
  · rw [hp] at hp'; cases hp'; exact ⟨hfr, ho⟩
  · have := hc hk
    have this : r.pulled = r.created + r.skipped + 1 := this
    show r.pulled = r.created + 1 + r.skipped
    omega

theorem fs_roomGranted {p : Pool} (h : FKS M p) (m : Nat) (r : Req)
    (hl : ∃ r0, p.reqs[m]? = some r0 ∧ r0.outcome = none ∧ (r0.kind = .map → r0.pulled = r0.created + r0.skipped + 1)) :
    FS0 (p.roomGranted m r) := by
  unfold roomGranted
  simp only
  obtain ⟨r0, hp0, ho, hc⟩ := hl
  have h0 : FKS (PM m QG) (p.modReq m fun x => { x with frame := MFrame.running }) := by
    refine fs_pin (fs_modReq h.zero m _ (fun r1 hp1 hg => ?_)) ⟨_, modReq_get_self p m _ r0 hp0, ho, rfl, hc⟩
    exact ⟨rg_of_eq hg id rfl (fun _ a _ => a) rfl rfl rfl rfl rfl (Or.inr (Or.inl rfl)) rfl rfl rfl rfl, id,
      fun ⟨_, x⟩ => x.elim⟩
  refine fs_roomGranted_tail ?_ _
  split
  · exact fs_wake h0 _ rfl
  · exact h0

theorem fs_wakeWaitRoomCore {p : Pool} (h : FKS M p) (m : Nat) (r : Req)
    (hp : p.reqs[m]? = some { r with sched := false }) (ho : r.outcome = none) (hfr : r.frame = .waitRoom) :
    FS0 (p.wakeWaitRoomCore m r) := by
  unfold wakeWaitRoomCore
  simp only
  have h2 : FKS M (({ p with sem := { p.sem with waiters := (removeWaiterL m p.sem.waiters).2 } } : Pool).modReq m
      fun x => { x with mustCancel := false }) :=
    fs_mr (fs_sem h _ (fun w' hw' _ => (removeWaiterL_sublist _ _).subset hw'))
  have hp2 : (({ p with sem := { p.sem with waiters := (removeWaiterL m p.sem.waiters).2 } } : Pool).modReq m
      fun x => { x with mustCancel := false }).reqs[m]? = some { { r with sched := false } with mustCancel := false } :=
    modReq_get_self _ m _ _ hp
  split
  · rename_i c
    refine fs_roomWaitCancelled h2 m r _ ⟨_, hp2, ?_⟩
    show r.everCancelled = true
    simp only [Bool.or_eq_true, beq_iff_eq] at c
    rcases c with c | c
    · obtain ⟨w, hw, hwo, hst⟩ := removeWaiterL_fst_some _ _ _ c
      obtain ⟨r0, hp0, he⟩ := h.cw w hw hst
      rw [hwo, hp] at hp0; cases hp0
      exact he
    · exact (h.rg m _ hp).cg c
  · split
    · exact fs_roomGranted h2 m r ⟨_, hp2, ho, fun hk => (h2.rg m _ hp2).pc1 hk ho (Or.inl hfr)⟩
    · exact h2.zero

theorem fs_wakeWaitRoom {p : Pool} (h : FKS M p) (m : Nat) (r : Req)
    (hp : p.reqs[m]? = some { r with sched := false }) (ho : r.outcome = none) (hfr : r.frame = .waitRoom) :
    FS0 (p.wakeWaitRoom m r) := by
  unfold wakeWaitRoom
  split
  · exact fs_wakeWaitRoomCore h m r hp ho hfr
  · exact h.zero

theorem fs_mapSemGranted {p : Pool} {m : Nat} (h : FKS (PM m QW) p) (r : Req) : FS0 (p.mapSemGranted m r) := by
  unfold mapSemGranted
  simp only
  have h0 : FKS (PM m QI) (p.modReq m fun x => { x with acquired := true, frame := MFrame.running }) :=
    fs_own h _ (fun r1 hp1 hQ hg =>
      ⟨rg_of_eq hg id rfl (fun _ a _ => a) rfl rfl rfl rfl rfl (Or.inr (Or.inl rfl)) rfl rfl rfl rfl, id,
        hQ.1, hQ.2.1, hQ.2.2, rfl⟩)
  have h1 := fs_mapStartTask h0
  split
  · rename_i c; exact fs_mapLoop m _ _ (h1.1 c)
  · rename_i c; exact h1.2 (by simpa using c)

theorem fs_wakeWaitMapSemCore {p : Pool} (h : FKS M p) (m : Nat) (r : Req)
    (hp : p.reqs[m]? = some { r with sched := false }) (ho : r.outcome = none) (hfr : r.frame = .waitMapSem) :
    FS0 (p.wakeWaitMapSemCore m r) := by
  unfold wakeWaitMapSemCore
  simp only
  have hs2 := fk_s2 { r.mapSem with waiters := (removeWaiterL m r.mapSem.waiters).2 }
    ((removeWaiterL m r.mapSem.waiters).1 == some WaitSt.granted)
    ((removeWaiterL m r.mapSem.waiters).1 == some WaitSt.cancelled || r.mustCancel)
  generalize (if ((removeWaiterL m r.mapSem.waiters).1 == some WaitSt.granted) = true then _ else _ : Sem × Option Nat) = s2 at hs2 ⊢
  have hg := h.rg m _ hp
  have hk : r.kind = .map := hg.kw hfr
  have hpin : FKS (PM m QW) p := fs_pin h ⟨_, hp, hk, ho, hg.pc1 hk ho (Or.inr hfr)⟩
  have h2 : FKS (PM m QW) ((p.modReq m fun x => { x with mapSem := s2.1, mustCancel := false }).schedOpt s2.2) := by
    refine fs_schedOpt (fs_modReq hpin m _ (fun r0 hp0 hg0 => ?_)) _
    rw [hp] at hp0; cases hp0
    refine ⟨rg_of_eq hg0 (fun e => (nomatch e)) rfl (fun w hw hst => ?_) rfl rfl rfl rfl rfl (Or.inl rfl) rfl rfl rfl rfl,
      id, fun _ => rfl⟩
    exact (removeWaiterL_sublist _ _).subset (hs2 w hw hst)
  have a2 : r.everCancelled = true →
      At ((p.modReq m fun x => { x with mapSem := s2.1, mustCancel := false }).schedOpt s2.2) m PE := by
    intro hP
    exact (At.modReq (P := PE) ⟨_, hp, hP⟩ m _).schedOpt _
  split
  · rename_i c
    refine fs_finishMeta h2 m _ (fun r' hp' hec => ?_)
    have hE : r.everCancelled = true := by
      simp only [Bool.or_eq_true, beq_iff_eq] at c
      rcases c with c | c
      · obtain ⟨w, hw, _, hst⟩ := removeWaiterL_fst_some _ _ _ c
        exact hg.cm w hw hst
      · exact hg.cg c
    have := (a2 hE).get hp'
    rw [show r'.everCancelled = true from this] at hec; cases hec
  · split
    · exact fs_mapSemGranted h2 r
    · exact h2.zero

theorem fs_wakeWaitMapSem {p : Pool} (h : FKS M p) (m : Nat) (r : Req)
    (hp : p.reqs[m]? = some { r with sched := false }) (ho : r.outcome = none) (hfr : r.frame = .waitMapSem) :
    FS0 (p.wakeWaitMapSem m r) := by
  unfold wakeWaitMapSem
  split
  · exact fs_wakeWaitMapSemCore h m r hp ho hfr
  · exact h.zero

/-- a spawner takes a step; `Want.od`: a spawner whose asyncio Task is done is never resumed -/
theorem fs_stepMeta {p : Pool} (h : FS0 p) (hW : Want p) (m : Nat) : FS0 (p.stepMeta m) := by
  unfold stepMeta
  split
  · exact h
  · rename_i r hp
    split
    · exact h
    · simp only
      have h1 : FS0 (p.modReq m fun x => { x with sched := false }) := fs_mr h
      have hp1 : (p.modReq m fun x => { x with sched := false }).reqs[m]? = some { r with sched := false } :=
        modReq_get_self p m _ r hp
      have ho : r.frame ≠ .done → r.outcome = none := by
        intro hne
        cases hout : r.outcome with
        | none => rfl
        | some o => exact absurd (hW.od m r hp id (by simp [hout])) hne
      split
      · exact h1
      · exact h1
      · rename_i hfr; exact fs_stepMetaNotStarted h1 m r hp1 (ho (by rw [hfr]; simp)) hfr
      · rename_i hfr; exact fs_wakeWaitRoom h1 m r hp1 (ho (by rw [hfr]; simp)) hfr
      · rename_i hfr; exact fs_wakeWaitMapSem h1 m r hp1 (ho (by rw [hfr]; simp)) hfr

/-! ### assembly -/

theorem fs_runRef {p : Pool} (h : FS0 p) (hW : Want p) (hs : Seal p) (r : Ref) (h0 : p.SpawnersWaited)
    (h1 : ∀ a re, ((p.modApi a fun x => { x with sched := false }).gacStage1Pre a re).1.SpawnersWaited) :
    FS0 (p.runRef r) := by
  cases r with
  | task t => exact fs_stepTask h t
  | spawner m => exact fs_stepMeta h hW m
  | api a => exact fs_stepApi h hs a h0 h1
  | gchild g i => exact fs_gatherChildDone h g i true

theorem fs_init (size : Cap) (simple : Option SpawnSpec) : FS0 (Pool.init size simple) := by
  refine { cl := ?_, rg := ?_, cw := ?_, pin := fun _ _ f => f.elim }
  all_goals simp [Pool.init, AllEC]

/-- between two steps the walking predicate is `FinSOK`; that a cancelled waiter entry belongs to an existing request is
part of `Want` -/
theorem fs_of_want {p : Pool} (hW : Want p) (hF : FinSOK p) : FS0 p where
  cl := hF.cl
  rg := fun m r hp => ⟨hF.cg m r hp, hF.cm m r hp, hF.ir m r hp, hF.ok m r hp, hF.ka m r hp, hF.km m r hp, hF.kw m r hp,
    hF.nc1 m r hp, hF.pc0 m r hp, hF.pc1 m r hp⟩
  cw := fun w hw hst => by
    obtain ⟨r, hp, _⟩ := hW.pw w hw
    exact ⟨r, hp, hF.cw w hw hst r hp⟩
  pin := fun _ _ f => f.elim

/-! ### the theorems -/

theorem finS_init (cap : Cap) (simple : Option SpawnSpec) : FinSOK (Pool.init cap simple) :=
  (fs_init cap simple).finSOK

set_option linter.unusedVariables false in
theorem finS_applyOp {cap : Cap} (p : Pool) (o : Op) (ho : o.noUnlock = true)
    (hg : Good cap true false p) (hw : Want p) (hs : Seal p) (hf : FinSOK p) : FinSOK (p.applyOp o).1 :=
  (fs_applyOp (fs_of_want hw hf) o).finSOK

set_option linter.unusedVariables false in
theorem finS_runRef {cap : Cap} (p : Pool) (r : Ref)
    (hg : Good cap true false p) (hw : Want p) (hs : Seal p) (hf : FinSOK p) (h0 : p.SpawnersWaited)
    (h1 : ∀ a re, ((p.modApi a fun x => { x with sched := false }).gacStage1Pre a re).1.SpawnersWaited) :
    FinSOK (p.runRef r) :=
  (fs_runRef (fs_of_want hw hf) hw hs r h0 h1).finSOK

theorem finS_orders (p : Pool) (orders : List (List Nat)) (hf : FinSOK p) : FinSOK { p with orders := orders } :=
  { hf with }

theorem finS_drain (p : Pool) (hf : FinSOK p) : FinSOK { p with emit := [] } :=
  { hf with }

end Pool
end Taskpool
